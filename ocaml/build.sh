#!/bin/sh
# build the extracted model and the driver; run from /verif/ocaml
set -e
cd "$(dirname "$0")"
ocamlfind ocamlopt -O3 -w -a -package str model.mli model.ml conv.ml ext.ml driver.ml -o driver 2>/dev/null || \
ocamlfind ocamlopt -w -a model.mli model.ml conv.ml ext.ml driver.ml -o driver
