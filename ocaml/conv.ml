(* conv.ml — conversions between OCaml ints and the extracted inductive numbers; s-expression reader *)
open Model

(* ---- conversions ---- *)
let rec pos_of_int (i : int) : positive =
  if i = 1 then XH else if i land 1 = 0 then XO (pos_of_int (i lsr 1)) else XI (pos_of_int (i lsr 1))
let n_of_int (i : int) : n = if i = 0 then N0 else Npos (pos_of_int i)
let z_of_int (i : int) : z = if i = 0 then Z0 else if i > 0 then Zpos (pos_of_int i) else Zneg (pos_of_int (-i))
let rec nat_of_int (i : int) : nat = if i <= 0 then O else S (nat_of_int (i - 1))
let rec int_of_pos = function XH -> 1 | XO p -> 2 * int_of_pos p | XI p -> 2 * int_of_pos p + 1
let int_of_n = function N0 -> 0 | Npos p -> int_of_pos p
let int_of_z = function Z0 -> 0 | Zpos p -> int_of_pos p | Zneg p -> - (int_of_pos p)
let rec int_of_nat = function O -> 0 | S k -> 1 + int_of_nat k

(* ---- s-expressions ---- *)
type sexp = A of string | L of sexp list

let parse_sexp (s : string) : sexp list =
  let n = String.length s in
  let i = ref 0 in
  let rec skip () = if !i < n && (s.[!i] = ' ' || s.[!i] = '\t') then (incr i; skip ()) in
  let rec items () =
    skip ();
    if !i >= n then []
    else if s.[!i] = ')' then []
    else if s.[!i] = '(' then begin
      incr i;
      let l = items () in
      skip ();
      if !i < n && s.[!i] = ')' then incr i else failwith "sexp: missing )";
      let rest = items () in
      L l :: rest
    end else begin
      let j = !i in
      while !i < n && s.[!i] <> ' ' && s.[!i] <> '(' && s.[!i] <> ')' && s.[!i] <> '\t' do incr i done;
      let a = String.sub s j (!i - j) in
      let rest = items () in
      A a :: rest
    end
  in
  let r = items () in
  if !i < n then failwith "sexp: trailing input";
  r

let atom_int = function A a -> int_of_string a | L _ -> failwith "int expected"
let text_of (l : sexp list) : n list = List.map (fun x -> n_of_int (atom_int x)) l
let opt_z = function A "_" -> None | x -> Some (z_of_int (atom_int x))
let opt_n = function [] -> None | [x] -> Some (n_of_int (atom_int x)) | _ -> failwith "tag"

