(* driver.ml — line protocol around the extracted Coq models.
   One command per input line, one result per output line.  All integers on the wire are
   decimal OCaml ints; they are converted to the extracted inductive N / nat / Z here. *)
open Model

open Conv

let rec expr_of (x : sexp) : expr =
  match x with
  | A "any" -> EAny | A "soi" -> ESoi | A "eoi" -> EEoi
  | A "peek" -> EPeek | A "peekall" -> EPeekAll | A "pop" -> EPop | A "popall" -> EPopAll
  | A "drop" -> EDrop
  | L (A "str" :: l) -> EStr (text_of l)
  | L (A "ci" :: l) -> ECIStr (text_of l)
  | L [A "rng"; lo; hi] -> ERange (n_of_int (atom_int lo), n_of_int (atom_int hi))
  | L (A "cls" :: l) ->
      let rec prs = function
        | a :: b :: r -> (n_of_int (atom_int a), n_of_int (atom_int b)) :: prs r
        | [] -> [] | _ -> failwith "cls" in
      ECls (prs l)
  | L (A "ref" :: n :: tg) -> ERef (n_of_int (atom_int n), opt_n tg)
  | L (A "seq" :: l) -> ESeq (List.map expr_of l)
  | L (A "alt" :: l) -> EAlt (List.map expr_of l)
  | L [A "opt"; e] -> EOpt (expr_of e)
  | L [A "star"; e] -> EStar (expr_of e)
  | L [A "plus"; e] -> EPlus (expr_of e)
  | L [A "repn"; e; k] -> ERepN (expr_of e, nat_of_int (atom_int k))
  | L [A "repmin"; e; k] -> ERepMin (expr_of e, nat_of_int (atom_int k))
  | L [A "repmax"; e; k] -> ERepMax (expr_of e, nat_of_int (atom_int k))
  | L [A "repmm"; e; a; b] -> ERepMinMax (expr_of e, nat_of_int (atom_int a), nat_of_int (atom_int b))
  | L [A "and"; e] -> EAnd (expr_of e)
  | L [A "not"; e] -> ENot (expr_of e)
  | L (A "grp" :: e :: tg) -> EGrp (expr_of e, opt_n tg)
  | L [A "push"; e] -> EPush (expr_of e)
  | L (A "pushlit" :: l) -> EPushLit (text_of l)
  | L [A "peeksl"; a; b] -> EPeekSl (opt_z a, opt_z b)
  | L (A "skipuntil" :: l) ->
      ESkipUntil (List.map (function L t -> text_of t | A _ -> failwith "skipuntil") l)
  | _ -> failwith "unknown expression"

let kind_of = function 0 -> KNormal | 1 -> KAtomic | 2 -> KCompound | 3 -> KNonAtomic
                       | _ -> failwith "kind"

let rule_of = function
  | L [A "rule"; id; silent; kind; body] ->
      { r_name = n_of_int (atom_int id); r_silent = (atom_int silent <> 0);
        r_kind = kind_of (atom_int kind); r_body = expr_of body }
  | _ -> failwith "rule"

(* ---- printing ---- *)
let buf = Buffer.create 4096
let rec pr_pair (Pair (name, s, e, kids, tag)) =
  Buffer.add_char buf '(';
  Buffer.add_string buf (string_of_int (int_of_n name)); Buffer.add_char buf ' ';
  Buffer.add_string buf (string_of_int (int_of_n s)); Buffer.add_char buf ' ';
  Buffer.add_string buf (string_of_int (int_of_n e)); Buffer.add_char buf ' ';
  (match tag with None -> Buffer.add_char buf '_'
                | Some t -> Buffer.add_string buf (string_of_int (int_of_n t)));
  List.iter (fun k -> Buffer.add_char buf ' '; pr_pair k) kids;
  Buffer.add_char buf ')'

let pr_names l = String.concat "," (List.map string_of_int (List.sort compare (List.map int_of_n l)))

let pr_res (r : res) : string =
  match r with
  | Ok (_, ps) ->
      Buffer.clear buf; Buffer.add_string buf "OK";
      List.iter (fun p -> Buffer.add_char buf ' '; pr_pair p) ps;
      Buffer.contents buf
  | Fail t -> Printf.sprintf "FAIL %d %s ; %s" (int_of_z t.t_pos) (pr_names t.t_exp) (pr_names t.t_unexp)
  | Err -> "ERR"
  | Fuel -> "FUEL"

(* ---- main loop ---- *)
let grammar : grammar ref = ref []
let inlined : n list ref = ref []

let handle (line : string) : string =
  let n = String.length line in
  if n = 0 then "EMPTY" else
  let cmd, rest =
    match String.index_opt line ' ' with
    | Some i -> String.sub line 0 i, String.sub line (i + 1) (n - i - 1)
    | None -> line, "" in
  match cmd with
  | "G" ->
      (match parse_sexp rest with
       | l -> grammar := List.map rule_of l; inlined := []; "OK")
  | "B" ->
      inlined := List.map (fun w -> n_of_int (int_of_string w)) (List.filter (fun w -> w <> "") (String.split_on_char ' ' rest));
      "OK"
  | "P" ->
      (* P rule k fuel cp cp ... *)
      (match parse_sexp rest with
       | r :: k :: fuel :: cps ->
           let res = parse !grammar (nat_of_int (atom_int fuel)) (n_of_int (atom_int r))
                       (text_of cps) (nat_of_int (atom_int k)) in
           pr_res res
       | _ -> failwith "P: arguments")
  | "PI" ->
      (* PI rule k fuel cp cp ... : the interpreter model (coq/Interp.v) *)
      (match parse_sexp rest with
       | r :: k :: fuel :: cps ->
           (match iparse !grammar (nat_of_int (atom_int fuel)) (n_of_int (atom_int r))
                    (text_of cps) (nat_of_int (atom_int k)) with
            | IOk (true, _, ps) ->
                Buffer.clear buf; Buffer.add_string buf "OK";
                List.iter (fun p -> Buffer.add_char buf ' '; pr_pair p) ps;
                Buffer.contents buf
            | IOk (false, s, _) ->
                Printf.sprintf "FAIL %d %s ; %s" (int_of_z s.i_trk.t_pos) (pr_names s.i_trk.t_exp) (pr_names s.i_trk.t_unexp)
            | ICrash -> "CRASH"
            | IUndef -> "ERR"
            | IFuel -> "FUEL")
       | _ -> failwith "PI: arguments")
  | "PG" ->
      (* PG rule k fuel cp cp ... : the generated-code model (coq/Gen.v) *)
      (match parse_sexp rest with
       | r :: k :: fuel :: cps ->
           (match gparse !grammar !inlined (nat_of_int (atom_int fuel)) (n_of_int (atom_int r))
                    (text_of cps) (nat_of_int (atom_int k)) with
            | GOk (true, _, ps) ->
                Buffer.clear buf; Buffer.add_string buf "OK";
                List.iter (fun p -> Buffer.add_char buf ' '; pr_pair p) ps;
                Buffer.contents buf
            | GOk (false, s, _) ->
                Printf.sprintf "FAIL %d %s ; %s" (int_of_z s.i_trk.t_pos) (pr_names s.i_trk.t_exp) (pr_names s.i_trk.t_unexp)
            | GCrash -> "CRASH"
            | GUndef -> "ERR"
            | GFuel -> "FUEL")
       | _ -> failwith "PG: arguments")
  | "O" ->
      (* O <rules of the optimised table> : translation validation (coq/Opt.v) against the current grammar *)
      (match parse_sexp rest with
       | l ->
           let g' = List.map rule_of l in
           let fuel = nat_of_int 200 in
           if ochk_grammar !grammar g' fuel && ochk_skip !grammar g' fuel then "VALID"
           else if ochk_grammar !grammar g' fuel then "INVALID SKIP rule"
           else begin
             let bad = List.filter (fun r' -> int_of_n r'.r_name <> 2 && not (ochk_rule !grammar g' fuel r')) g' in
             "INVALID " ^ String.concat "," (List.map (fun r' -> string_of_int (int_of_n r'.r_name)) bad)
           end)
  | "U" ->
      (* U <pass> (<ids of the BuiltInRule entries>) <rules of the table the real pass produced> :
         the model of the pass itself (coq/OptPass.v) applied to the current grammar must give exactly that table *)
      (match parse_sexp rest with
       | A pass :: L bis :: l ->
           (* an optional (order id id ...) : the names of the user rules in dict order, for the in-place passes *)
           let order, l = (match l with
                           | L (A "order" :: ids) :: l' -> List.map (fun x -> n_of_int (atom_int x)) ids, l'
                           | _ -> [], l) in
           let any_id, l = (match l with
                            | L [A "any"; x] :: l' -> n_of_int (atom_int x), l'
                            | _ -> n_of_int 1000000, l) in
           let g' = List.map rule_of l in
           let bl = List.map (fun x -> n_of_int (atom_int x)) bis in
           let bi n = List.mem n bl in
           (* a '+'-separated sequence of modelled passes, applied left to right (OptPassCompose.psteps) *)
           let one acc p =
             match acc with
             | None -> None
             | Some gcur ->
                 (match p with
                  | "unroll" -> Some (pass_unroll bi gcur)
                  | "inline-builtin" -> pass_inline_builtin bi (nat_of_int 200) gcur
                  | "inline-silent" -> Some (pass_inline_silent bi order gcur)
                  | "skip" -> pass_skip bi any_id (nat_of_int 200) order gcur
                  | _ -> failwith "U: unknown pass") in
           let model = List.fold_left one (Some !grammar) (String.split_on_char '+' pass) in
           (match model with
            | None -> "MODEL-FUEL"
            | Some gm ->
                let user = List.filter (fun r' -> int_of_n r'.r_name <> 2) g' in
                let find n = List.find_opt (fun r -> r.r_name = n) gm in
                let bad = List.filter (fun r' -> match find r'.r_name with Some r -> r <> r' | None -> true) user in
                let missing = List.filter (fun r -> not (List.exists (fun r' -> r'.r_name = r.r_name) user)) gm in
                (* hypotheses of the pass theorems (OptPassProof.pass_unroll_sound, OptPassInline.pass_inline_builtin_sound) *)
                let in_domain = names_nodup !grammar && all_grammar count_ok !grammar && builtins_plain bi !grammar
                                && not (List.exists (fun r -> int_of_n r.r_name = 2) !grammar)
                                && int_of_nat (gdepth !grammar) <= 400
                                && nodupN order in       (* hypothesis of pass_inline_silent_sound *)
                let side = (if in_domain then "" else " outside-domain") in
                if bad = [] && missing = [] then "SAME" ^ side
                else "DIFF " ^ String.concat "," (List.map (fun r' -> string_of_int (int_of_n r'.r_name)) (bad @ missing)) ^ side)
       | _ -> failwith "U: arguments")
  | "W" -> if wf_auto !grammar then "WF" else "NOTWF"
  | "C" ->
      (* C rule lo hi fuel : code points c in [lo, hi] for which parse rule [c] 0 succeeds, as ranges *)
      (match List.map int_of_string (List.filter (fun w -> w <> "") (String.split_on_char ' ' rest)) with
       | [r; lo; hi; fuel] ->
           let rid = n_of_int r and fu = nat_of_int fuel in
           let b = Buffer.create 256 in
           let start = ref (-1) in
           for c = lo to hi + 1 do
             let hit = c <= hi &&
               (match parse !grammar fu rid [n_of_int c] O with Ok (_, _) -> true | _ -> false) in
             if hit && !start < 0 then start := c
             else if (not hit) && !start >= 0 then begin
               Buffer.add_string b (Printf.sprintf "%d-%d," !start (c - 1)); start := -1 end
           done;
           Buffer.contents b
       | _ -> failwith "C")
  | _ -> Ext.handle cmd rest

let () =
  try
    while true do
      let line = input_line stdin in
      let out = try handle line with Failure m -> "DRIVER-ERROR " ^ m
                                   | Not_found -> "DRIVER-ERROR not-found"
                                   | Stack_overflow -> "DRIVER-ERROR stack-overflow" in
      print_string out; print_char '\n'; flush stdout
    done
  with End_of_file -> ()
