(* main.ml — reads one grammar per line (space separated decimal code points; an empty line is the
   empty grammar), runs the extracted `front`, prints one canonical line. *)
open Front_ml

let rec pos_of_int (n : int) : positive =
  if n = 1 then XH else if n land 1 = 0 then XO (pos_of_int (n lsr 1)) else XI (pos_of_int (n lsr 1))
let n_of_int (n : int) : n = if n = 0 then N0 else Npos (pos_of_int n)

let rec bits_of_pos (p : positive) (acc : int list) : int list = (* LSB first *)
  match p with XH -> List.rev (1 :: acc) | XO q -> bits_of_pos q (0 :: acc) | XI q -> bits_of_pos q (1 :: acc)
let hex_of_pos (p : positive) : string =
  let bits = bits_of_pos p [] in
  let rec groups l = match l with
    | [] -> []
    | a :: b :: c :: d :: r -> (a + 2*b + 4*c + 8*d) :: groups r
    | a :: b :: c :: [] -> [a + 2*b + 4*c]
    | a :: b :: [] -> [a + 2*b]
    | a :: [] -> [a] in
  let ds = List.rev (groups bits) in
  String.concat "" (List.map (fun d -> String.make 1 "0123456789abcdef".[d]) ds)
let hex_of_n (x : n) : string = match x with N0 -> "0" | Npos p -> hex_of_pos p
let hex_of_z (x : z) : string = match x with Z0 -> "0" | Zpos p -> hex_of_pos p | Zneg p -> "-" ^ hex_of_pos p
let rec int_of_nat (x : nat) : int = match x with O -> 0 | S y -> 1 + int_of_nat y

let text (t : n list) : string =
  if t = [] then "-" else String.concat "." (List.map hex_of_n t)
let tag (t : n list option) : string = match t with None -> "none" | Some t -> "#" ^ text t
let oz (o : z option) : string = match o with None -> "none" | Some z -> hex_of_z z

let rec expr (b : Buffer.t) (e : pexpr) : unit =
  let p = Buffer.add_string b in
  let list name es = p ("(" ^ name); List.iter (fun e -> p " "; expr b e) es; p ")" in
  let un name e rest = p ("(" ^ name ^ " "); expr b e; p rest; p ")" in
  match e with
  | PStr s -> p ("(str " ^ text s ^ ")")
  | PCIStr s -> p ("(ci " ^ text s ^ ")")
  | PRange (lo, hi, t) -> p ("(range " ^ text lo ^ " " ^ text hi ^ " " ^ tag t ^ ")")
  | PRef (name, t) -> p ("(ref " ^ text name ^ " " ^ tag t ^ ")")
  | PSeq es -> list "seq" es
  | PAlt es -> list "alt" es
  | POpt e -> un "opt" e ""
  | PStar e -> un "star" e ""
  | PPlus e -> un "plus" e ""
  | PRepN (e, n) -> un "repn" e (" " ^ hex_of_z n)
  | PRepMin (e, n) -> un "repmin" e (" " ^ hex_of_z n)
  | PRepMax (e, n) -> un "repmax" e (" " ^ hex_of_z n)
  | PRepMinMax (e, m, n) -> un "repminmax" e (" " ^ hex_of_z m ^ " " ^ hex_of_z n)
  | PAnd (e, t) -> un "and" e (" " ^ tag t)
  | PNot (e, t) -> un "not" e (" " ^ tag t)
  | PGrp (e, t) -> un "grp" e (" " ^ tag t)
  | PPush (e, t) -> un "push" e (" " ^ tag t)
  | PPushLit (s, t) -> p ("(pushlit " ^ text s ^ " " ^ tag t ^ ")")
  | PPeek t -> p ("(peek " ^ tag t ^ ")")
  | PPeekSl (a, c, t) -> p ("(peeksl " ^ oz a ^ " " ^ oz c ^ " " ^ tag t ^ ")")
  | PPeekAll t -> p ("(peekall " ^ tag t ^ ")")
  | PPop t -> p ("(pop " ^ tag t ^ ")")
  | PPopAll t -> p ("(popall " ^ tag t ^ ")")
  | PDrop t -> p ("(drop " ^ tag t ^ ")")

let rule (b : Buffer.t) (r : prule) : unit =
  Buffer.add_string b (" (rule " ^ text r.pr_name ^ " " ^ hex_of_n r.pr_mod ^ " "
                       ^ string_of_int (List.length r.pr_doc));
  List.iter (fun d -> Buffer.add_string b (" " ^ text d)) r.pr_doc;
  Buffer.add_string b " "; expr b r.pr_body; Buffer.add_string b ")"

let crash_name (k : int) : string =
  match k with 2 -> "ValueError" | 3 -> "IndexError" | 4 -> "KeyError"
             | _ -> "?" ^ string_of_int k

let () =
  try
    while true do
      let line = input_line stdin in
      let toks = List.filter (fun s -> s <> "") (String.split_on_char ' ' line) in
      let t = List.map (fun s -> n_of_int (int_of_string s)) toks in
      (match front t with
       | FOk rules ->
           let b = Buffer.create 1024 in
           Buffer.add_string b "OK"; List.iter (rule b) rules; print_endline (Buffer.contents b)
       | FSyntax p -> print_endline ("SYNTAX " ^ string_of_int (int_of_nat p))
       | FCrash k -> print_endline ("CRASH " ^ crash_name (int_of_nat k))
       | FFuel -> print_endline "FUEL")
    done
  with End_of_file -> ()
