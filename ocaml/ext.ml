(* ext.ml — commands for the other extracted models (stack, line/column, Pratt, ...) *)
open Model
open Conv

let handle (cmd : string) (_rest : string) : string =
  match cmd with
  | _ -> failwith ("unknown command " ^ cmd)
