(* ext.ml — commands for the other extracted models (stack, line/column, Pratt, ...) *)
open Model
open Conv

let words (s : string) : string list = List.filter (fun w -> w <> "") (String.split_on_char ' ' s)
let tail_int (w : string) : int = int_of_string (String.sub w 1 (String.length w - 1))
let tail2_int (w : string) : int = int_of_string (String.sub w 2 (String.length w - 2))
let commas f l = String.concat "," (List.map f l)

(* S p<n> o c s r d  -> raise:visible|... *)
let stack_op (w : string) : n op =
  match w.[0] with
  | 'p' -> OPush (n_of_int (tail_int w))
  | 'o' -> OPop | 'c' -> OClear | 's' -> OSnap | 'r' -> ORestore | 'd' -> ODrop
  | _ -> failwith "stack op"

let int_op (w : string) : iop =
  match w.[0] with
  | 's' -> ISnap | 'r' -> IRestore | 'd' -> IDrop | 'z' -> IZero
  | 'a' -> IAdd (z_of_int (tail_int w))
  | _ -> failwith "int op"

let pstate_op (w : string) : pop_ =
  match w with
  | "ck" -> PCheckpoint | "ok" -> POk | "rs" -> PRestore
  | "uo" -> PUserPop | "uc" -> PUserClear | "ro" -> PRulePop
  | "di" -> PDepthInc | "dz" -> PDepthZero | "to" -> PTagPop
  | _ ->
    (match String.sub w 0 2 with
     | "sp" -> PSetPos (nat_of_int (tail2_int w))
     | "up" -> PUserPush (nat_of_int (tail2_int w))
     | "rp" -> PRulePush (nat_of_int (tail2_int w))
     | "tp" -> PTagPush (nat_of_int (tail2_int w))
     | _ -> failwith "pstate op")

let handle (cmd : string) (rest : string) : string =
  match cmd with
  | "S" ->
      let ops = List.map stack_op (words rest) in
      let tr = strace sinit ops in
      String.concat "|" (List.map (fun (r, v) ->
        (if r then "1:" else "0:") ^ commas (fun x -> string_of_int (int_of_n x)) v) tr)
  | "I" ->
      let ops = List.map int_op (words rest) in
      commas (fun z -> string_of_int (int_of_z z)) (itrace { ival = Z0; icps = [] } ops)
  | "T" ->
      let ops = List.map pstate_op (words rest) in
      let nats l = commas (fun x -> string_of_int (int_of_nat x)) l in
      String.concat "|" (List.map (fun ((((p, u), r), d), t) ->
        Printf.sprintf "%d;%s;%s;%d;%s" (int_of_nat p) (nats u) (nats r) (int_of_z d) (nats t))
        (ptrace pinit ops))
  | "L" ->
      (* L cp cp ... : line_col / line_of for every offset, span_lines for every a <= b *)
      let t = List.map (fun w -> n_of_int (int_of_string w)) (words rest) in
      let len = List.length t in
      let txt l = String.concat "." (List.map (fun x -> string_of_int (int_of_n x)) l) in
      let b = Buffer.create 1024 in
      for p = 0 to len do
        let (l, c) = line_col t (nat_of_int p) in
        Buffer.add_string b (Printf.sprintf "%d,%d,%s;" (int_of_nat l) (int_of_nat c) (txt (line_of t (nat_of_int p))))
      done;
      Buffer.add_char b '|';
      for a = 0 to len do
        for e = a to len do
          let ls = span_lines t (nat_of_int a) (nat_of_int e) in
          Buffer.add_string b (String.concat "/" (List.map txt ls)); Buffer.add_char b ';'
        done
      done;
      Buffer.contents b
  | "E" ->
      (match words rest with
       | idx :: cps ->
           let t = List.map (fun w -> n_of_int (int_of_string w)) cps in
           let ((line, ln), col) = error_context t (nat_of_int (int_of_string idx)) in
           Printf.sprintf "%s|%d|%d"
             (String.concat "." (List.map (fun x -> string_of_int (int_of_n x)) line))
             (int_of_nat ln) (int_of_nat col)
       | [] -> failwith "E")
  | "R" ->
      (* R pre ; post ; inf ; tokens   with pre/post = o:p,...  inf = o:p:ra,...  tokens = a1 e0 o0 i2 *)
      (match String.split_on_char ';' rest with
       | [ps; qs; is; ts] ->
           let pairs s = List.map (fun w -> List.map int_of_string (String.split_on_char ':' w))
                           (List.filter (fun w -> w <> "") (String.split_on_char ',' (String.trim s))) in
           let pt = pairs ps and qt = pairs qs and it = pairs is in
           let look tbl o = try List.nth (List.find (fun r -> List.hd r = o) tbl) 1 with Not_found -> 0 in
           let tb = { pre = (fun o -> nat_of_int (look pt (int_of_nat o)));
                      post = (fun o -> nat_of_int (look qt (int_of_nat o)));
                      inf = (fun o -> let r = try List.find (fun r -> List.hd r = int_of_nat o) it
                                              with Not_found -> [0; 0; 0] in
                                      (nat_of_int (List.nth r 1), List.nth r 2 <> 0)) } in
           let tok w = match w.[0] with
             | 'a' -> KPrim (nat_of_int (tail_int w)) | 'e' -> KPre (nat_of_int (tail_int w))
             | 'o' -> KPost (nat_of_int (tail_int w)) | 'i' -> KInf (nat_of_int (tail_int w))
             | _ -> failwith "token" in
           let toks = List.map tok (words ts) in
           let rec show = function
             | TPrim a -> Printf.sprintf "a%d" (int_of_nat a)
             | TPre (o, r) -> Printf.sprintf "(e%d %s)" (int_of_nat o) (show r)
             | TPost (l, o) -> Printf.sprintf "(o%d %s)" (int_of_nat o) (show l)
             | TIn (l, o, r) -> Printf.sprintf "(i%d %s %s)" (int_of_nat o) (show l) (show r) in
           (match Model.parse0 tb toks with
            | Some (t, r) -> Printf.sprintf "%s %d" (show t) (List.length r)
            | None -> "ERR")
       | _ -> failwith "R")
  | _ -> failwith ("unknown command " ^ cmd)
