(* SnapStack.v — model of src/pest/stack.py (Stack: items / popped / lengths), of
   src/pest/checkpoint_int.py (SnapshottingInt) and of ParserState.checkpoint/ok/restore, next to
   the full-copy reference they must refine.
   Lists are head = top (items), head = most recently popped (popped), head = innermost (lens). *)
From Coq Require Import List Arith ZArith Lia.
Import ListNotations.

Section S.
Variable A : Type.

Record sstack := { items : list A; popped : list A; lens : list (nat * nat) }.
Definition sinit : sstack := {| items := []; popped := []; lens := [] |}.

Definition spush (x : A) (s : sstack) := {| items := x :: items s; popped := popped s; lens := lens s |}.

Definition spop (s : sstack) : sstack :=
  match items s with
  | [] => s   (* Python raises IndexError; callers guard *)
  | x :: rest =>
      match lens s with
      | (ic, rc) :: ls =>
          if Nat.eqb (S (length rest)) rc
          then {| items := rest; popped := x :: popped s; lens := (ic, rc - 1) :: ls |}
          else {| items := rest; popped := popped s; lens := lens s |}
      | [] => {| items := rest; popped := popped s; lens := [] |}
      end
  end.

Definition ssnap (s : sstack) :=
  {| items := items s; popped := popped s; lens := (length (items s), length (items s)) :: lens s |}.

Definition bottom (k : nat) (l : list A) := skipn (length l - k) l.

Definition srestore (s : sstack) : sstack :=
  match lens s with
  | [] => {| items := []; popped := popped s; lens := [] |}
  | (ic, rc) :: ls =>
      let n := ic - rc in
      {| items := rev (firstn n (popped s)) ++ bottom rc (items s);
         popped := skipn n (popped s); lens := ls |}
  end.

Definition sdrop (s : sstack) : sstack :=
  match lens s with
  | [] => s
  | (ic, rc) :: ls =>
      let n := ic - rc in
      match ls with
      | (oic, orc) :: ls' =>
          if Nat.ltb rc orc
          then {| items := items s;
                  popped := firstn (orc - rc) (popped s) ++ skipn n (popped s);
                  lens := (oic, rc) :: ls' |}
          else {| items := items s; popped := skipn n (popped s); lens := ls |}
      | [] => {| items := items s; popped := skipn n (popped s); lens := [] |}
      end
  end.

(* reference *)
Record rstack := { cur : list A; saved : list (list A) }.
Definition rinit := {| cur := []; saved := [] |}.
Definition rpush x r := {| cur := x :: cur r; saved := saved r |}.
Definition rpop r := {| cur := tl (cur r); saved := saved r |}.
Definition rsnap r := {| cur := cur r; saved := cur r :: saved r |}.
Definition rrestore r := match saved r with [] => {| cur := []; saved := [] |} | c :: sv => {| cur := c; saved := sv |} end.
Definition rdrop r := {| cur := cur r; saved := tl (saved r) |}.

(* abstraction *)
Fixpoint recover (it : list A) (pp : list A) (ls : list (nat * nat)) : list (list A) :=
  match ls with
  | [] => []
  | (ic, rc) :: ls' =>
      let n := ic - rc in
      let S := rev (firstn n pp) ++ bottom rc it in
      S :: recover S (skipn n pp) ls'
  end.

Fixpoint Inv (it : list A) (pp : list A) (ls : list (nat * nat)) : Prop :=
  match ls with
  | [] => pp = []
  | (ic, rc) :: ls' =>
      rc <= ic /\ rc <= length it /\ ic - rc <= length pp /\
      Inv (rev (firstn (ic - rc) pp) ++ bottom rc it) (skipn (ic - rc) pp) ls'
  end.

Definition abs (s : sstack) : rstack := {| cur := items s; saved := recover (items s) (popped s) (lens s) |}.
Definition SInv (s : sstack) := Inv (items s) (popped s) (lens s).


(* Stack.clear: everything below the low-water mark is remembered, the rest was pushed after
   the snapshot *)
Definition sclear (s : sstack) : sstack :=
  match lens s with
  | [] => {| items := []; popped := popped s; lens := [] |}
  | (ic, rc) :: ls =>
      {| items := []; popped := rev (bottom rc (items s)) ++ popped s; lens := (ic, 0) :: ls |}
  end.
Definition rclear r := {| cur := []; saved := saved r |}.

Inductive op := OPush (x : A) | OPop | OClear | OSnap | ORestore | ODrop.

Definition sstep (s : sstack) (o : op) : sstack :=
  match o with
  | OPush x => spush x s | OPop => spop s | OClear => sclear s
  | OSnap => ssnap s | ORestore => srestore s | ODrop => sdrop s
  end.
Definition rstep (r : rstack) (o : op) : rstack :=
  match o with
  | OPush x => rpush x r | OPop => rpop r | OClear => rclear r
  | OSnap => rsnap r | ORestore => rrestore r | ODrop => rdrop r
  end.

(* what Python shows after each step: list(stack) bottom first, and whether pop()/peek() raise *)
Definition visible (s : sstack) : list A := rev (items s).

End S.

Arguments items {A}. Arguments popped {A}. Arguments lens {A}.
Arguments cur {A}. Arguments saved {A}.
Arguments OPush {A}. Arguments OPop {A}. Arguments OClear {A}. Arguments OSnap {A}.
Arguments ORestore {A}. Arguments ODrop {A}.

(* ---- SnapshottingInt ---- *)
Record sint := { ival : Z; icps : list Z }.
Inductive iop := ISnap | IRestore | IDrop | IZero | IAdd (k : Z).
Definition istep (s : sint) (o : iop) : sint :=
  match o with
  | ISnap => {| ival := ival s; icps := ival s :: icps s |}
  | IRestore => match icps s with v :: r => {| ival := v; icps := r |} | [] => {| ival := 0%Z; icps := [] |} end
  | IDrop => {| ival := ival s; icps := tl (icps s) |}
  | IZero => {| ival := 0%Z; icps := icps s |}
  | IAdd k => {| ival := (ival s + k)%Z; icps := icps s |}
  end.

(* ---- ParserState.checkpoint / ok / restore over its components ---- *)
Section PState.
Variable A B : Type.   (* user-stack items, rule-stack items *)
Record pstate := { p_pos : nat; p_user : sstack A; p_rules : sstack B; p_depth : sint;
                   p_tags : list nat; p_poshist : list nat; p_taghist : list (list nat) }.
Record rpstate := { q_pos : nat; q_user : list A; q_rules : list B; q_depth : Z; q_tags : list nat;
                    q_saved : list (nat * list A * list B * Z * list nat) }.

Definition pcheckpoint (p : pstate) : pstate :=
  {| p_pos := p_pos p; p_user := ssnap A (p_user p); p_rules := ssnap B (p_rules p);
     p_depth := istep (p_depth p) ISnap; p_tags := p_tags p;
     p_poshist := p_pos p :: p_poshist p; p_taghist := p_tags p :: p_taghist p |}.
Definition pok (p : pstate) : pstate :=
  {| p_pos := p_pos p; p_user := sdrop A (p_user p); p_rules := sdrop B (p_rules p);
     p_depth := istep (p_depth p) IDrop; p_tags := p_tags p;
     p_poshist := tl (p_poshist p); p_taghist := tl (p_taghist p) |}.
(* Python raises IndexError when the histories are empty; callers always pair it with a
   checkpoint, and the model keeps position and tags in that case *)
Definition prestore (p : pstate) : pstate :=
  {| p_pos := hd (p_pos p) (p_poshist p); p_user := srestore A (p_user p);
     p_rules := srestore B (p_rules p); p_depth := istep (p_depth p) IRestore;
     p_tags := hd (p_tags p) (p_taghist p);
     p_poshist := tl (p_poshist p); p_taghist := tl (p_taghist p) |}.
End PState.
Arguments p_pos {A B}. Arguments p_user {A B}. Arguments p_rules {A B}. Arguments p_depth {A B}.
Arguments p_tags {A B}. Arguments p_poshist {A B}. Arguments p_taghist {A B}.

(* ---- executable traces for the correspondence check ---- *)
Definition sraises {A} (s : sstack A) (o : op A) : bool :=
  match o with OPop => match items s with [] => true | _ => false end | _ => false end.

Fixpoint strace {A} (s : sstack A) (ops : list (op A)) : list (bool * list A) :=
  match ops with
  | [] => []
  | o :: ops' => let s' := sstep A s o in (sraises s o, visible A s') :: strace s' ops'
  end.

Fixpoint itrace (s : sint) (ops : list iop) : list Z :=
  match ops with
  | [] => []
  | o :: ops' => let s' := istep s o in ival s' :: itrace s' ops'
  end.

(* ParserState histories *)
Inductive pop_ :=
| PCheckpoint | POk | PRestore | PSetPos (n : nat)
| PUserPush (x : nat) | PUserPop | PUserClear | PRulePush (x : nat) | PRulePop
| PDepthInc | PDepthZero | PTagPush (t : nat) | PTagPop.

Definition pinit : pstate nat nat :=
  {| p_pos := 0; p_user := sinit nat; p_rules := sinit nat; p_depth := {| ival := 0; icps := [] |};
     p_tags := []; p_poshist := []; p_taghist := [] |}.

Definition pstep (p : pstate nat nat) (o : pop_) : pstate nat nat :=
  let upd_user u := {| p_pos := p_pos p; p_user := u; p_rules := p_rules p; p_depth := p_depth p;
                       p_tags := p_tags p; p_poshist := p_poshist p; p_taghist := p_taghist p |} in
  let upd_rules u := {| p_pos := p_pos p; p_user := p_user p; p_rules := u; p_depth := p_depth p;
                        p_tags := p_tags p; p_poshist := p_poshist p; p_taghist := p_taghist p |} in
  let upd_depth d := {| p_pos := p_pos p; p_user := p_user p; p_rules := p_rules p; p_depth := d;
                        p_tags := p_tags p; p_poshist := p_poshist p; p_taghist := p_taghist p |} in
  let upd_tags t := {| p_pos := p_pos p; p_user := p_user p; p_rules := p_rules p; p_depth := p_depth p;
                       p_tags := t; p_poshist := p_poshist p; p_taghist := p_taghist p |} in
  match o with
  | PCheckpoint => pcheckpoint nat nat p
  | POk => pok nat nat p
  | PRestore => prestore nat nat p
  | PSetPos n => {| p_pos := n; p_user := p_user p; p_rules := p_rules p; p_depth := p_depth p;
                    p_tags := p_tags p; p_poshist := p_poshist p; p_taghist := p_taghist p |}
  | PUserPush x => upd_user (spush nat x (p_user p))
  | PUserPop => upd_user (spop nat (p_user p))
  | PUserClear => upd_user (sclear nat (p_user p))
  | PRulePush x => upd_rules (spush nat x (p_rules p))
  | PRulePop => upd_rules (spop nat (p_rules p))
  | PDepthInc => upd_depth (istep (p_depth p) (IAdd 1))
  | PDepthZero => upd_depth (istep (p_depth p) IZero)
  | PTagPush t => upd_tags (t :: p_tags p)
  | PTagPop => upd_tags (tl (p_tags p))
  end.

Definition pview (p : pstate nat nat) : nat * list nat * list nat * Z * list nat :=
  (p_pos p, visible nat (p_user p), visible nat (p_rules p), ival (p_depth p), rev (p_tags p)).

Fixpoint ptrace (p : pstate nat nat) (ops : list pop_) :=
  match ops with
  | [] => []
  | o :: ops' => let p' := pstep p o in pview p' :: ptrace p' ops'
  end.
