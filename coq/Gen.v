(* Gen.v — model of the GENERATED parser code: one clause per `generate()` template of
   src/pest/grammar/expressions/*.py, rule.py (Rule.generate) and codegen/generate.py
   (generate_parse_trivia), at the level of the statements the templates emit, on the same
   imperative state as Interp.v (the generated code runs on the same ParserState).
   What differs from the interpreter and is modelled here:
   - a template writes into the `pairs_var` list it is given even when it then fails
     (Sequence passes its list to its elements; a silent rule's closure does
     `pairs.extend(children)` before `return matched`); the templates that turn a failure into
     a success (Choice, Optional, Repeat, the predicates, parse_trivia) use a scratch list
     and clear or abandon it;
   - a non-silent rule's closure pops the pending tag before it looks at `matched`;
   - Repeat parses the trivia between iterations inside the next iteration's checkpoint, as the
     interpreter does (since fix 6cea53c; before, it ran outside any checkpoint and only
     `state.pos` was rewound — the defect this model brought to light);
   - built-in rules other than EOI are emitted in place, without a rule frame (`inl`): only the
     names recorded in the failure tracker depend on that (GenProof.gparse_inl).
   A result `GOk m s ps` carries what was appended to pairs_var whether or not m holds. *)
From Coq Require Import List NArith ZArith Bool Arith.
Import ListNotations.
From PP Require Import Base Syntax Spec Interp.

Section G.
Variable g : grammar.
Variable inl : list N.      (* built-in rules other than EOI: BuiltInRule.generate emits their body in place *)
Definition inlined (n : N) : bool := existsb (N.eqb n) inl.

Inductive gres :=
| GOk (matched : bool) (s : ist) (ps : list pair)   (* ps: appended to pairs_var, also on failure *)
| GCrash
| GUndef
| GFuel.

Inductive gtask :=
| GEval (e : expr)
| GSeq (es : list expr)          (* Sequence.generate: the chain of `if all_ok:` blocks *)
| GAlt (es : list expr)          (* Choice.generate: the chain of `if not matched:` blocks *)
| GStar (e : expr) (first : bool)  (* Repeat.generate: the while loop *)
| GTrivia                        (* the generated parse_trivia(state, pairs) *)
| GWsLoop
| GTrivLoop
| GTrivOnce (n : N)              (* `parse_once`: checkpoint; children = []; parse_X(state, children) ... *)
| GRule (r : rule).              (* the closure `inner(state, pairs)` of a rule *)

Definition gfail_here (s : ist) : gres :=
  match ifail s false None with Some s' => GOk false s' [] | None => GCrash end.

Definition ghas_rule (n : N) : bool := match lookup g n with Some _ => true | None => false end.

Fixpoint grun (fuel : nat) (t : gtask) (s : ist) {struct fuel} : gres :=
  match fuel with
  | O => GFuel
  | S f =>
  match t with
  | GEval e =>
    match e with
    | EStr lit =>
        match strip_prefix lit (i_rest s) with
        | Some r => GOk true (adv_i s (lenN lit) r) []
        | None => gfail_here s
        end
    | ECIStr lit =>
        match strip_prefix_ci lit (i_rest s) with
        | Some r => GOk true (adv_i s (lenN lit) r) []
        | None => gfail_here s
        end
    | ERange lo hi =>
        match i_rest s with
        | d :: r => if N.leb lo d && N.leb d hi then GOk true (adv_i s 1 r) [] else gfail_here s
        | [] => gfail_here s
        end
    | EAny => match i_rest s with _ :: r => GOk true (adv_i s 1 r) [] | [] => GOk false s [] end
    | ESoi => GOk (N.eqb (i_pos s) 0) s []
    | EEoi => GOk (match i_rest s with [] => true | _ => false end) s []
    | ECls rs =>
        match i_rest s with
        | d :: r => if in_ranges d rs then GOk true (adv_i s 1 r) [] else GOk false s []
        | [] => GOk false s []
        end
    | ERef n tag =>
        (* `with state.tag(tag): matched = parse_X(state, pairs_var)` *)
        match lookup g n with
        | None => GUndef
        | Some r =>
            let s0 := match tag with Some tg => upd_tags s (tg :: i_tags s) | None => s end in
            match grun f (GRule r) s0 with
            | GOk m s1 ps =>
                GOk m (match tag with Some _ => upd_tags s1 (tl (i_tags s1)) | None => s1 end) ps
            | x => x
            end
        end
    | ESeq es => grun f (GSeq es) s
    | EAlt es => grun f (GAlt es) s
    | EOpt e1 =>
        (* tmp = []; checkpoint(); <e>(matched, tmp); if matched: ok(); pairs.extend(tmp)
           else: restore(); tmp.clear();  matched = True *)
        match grun f (GEval e1) (icheckpoint s) with
        | GOk true s1 ps => match iok s1 with Some s2 => GOk true s2 ps | None => GCrash end
        | GOk false s1 _ => match irestore s1 with Some s2 => GOk true s2 [] | None => GCrash end
        | x => x
        end
    | EStar e1 => grun f (GStar e1 true) s
    | EPlus e1 => grun f (GSeq [e1; EStar e1]) s
    | ERepN e1 n => grun f (GSeq (repeat e1 n)) s
    | ERepMin e1 n => grun f (GSeq (repeat e1 n ++ [EStar e1])) s
    | ERepMax e1 n => grun f (GSeq (repeat (EOpt e1) n)) s
    | ERepMinMax e1 m n => grun f (GSeq (repeat e1 m ++ repeat (EOpt e1) (n - m))) s
    | EAnd e1 =>
        (* tmp = []; checkpoint(); <e>(matched, tmp); restore() in both branches *)
        match grun f (GEval e1) (icheckpoint s) with
        | GOk m s1 _ => match irestore s1 with Some s2 => GOk m s2 [] | None => GCrash end
        | x => x
        end
    | ENot e1 =>
        match grun f (GEval e1) (upd_neg (icheckpoint s) (S (i_neg s))) with
        | GOk m s1 _ =>
            match irestore s1 with
            | None => GCrash
            | Some s2 =>
                if m then
                  (* state.fail(label, rule_name=<name or ''>, force=True); '' is falsy *)
                  let name := match e1 with ERef n _ => Some n | _ => None end in
                  match ifail s2 true name with
                  | Some s3 => GOk false (upd_neg s3 (pred (i_neg s3))) []
                  | None => GCrash
                  end
                else GOk true (upd_neg s2 (pred (i_neg s2))) []
            end
        | x => x
        end
    | EGrp e1 tag =>
        let s0 := match tag with Some tg => upd_tags s (tg :: i_tags s) | None => s end in
        match grun f (GEval e1) s0 with
        | GOk m s1 ps =>
            GOk m (match tag with Some _ => upd_tags s1 (tl (i_tags s1)) | None => s1 end) ps
        | x => x
        end
    | EPush e1 =>
        (* start = pos; <e>(matched, pairs_var); if matched: state.push(input[start:pos]) *)
        match grun f (GEval e1) s with
        | GOk true s1 ps =>
            let w := firstn (N.to_nat (i_pos s1 - i_pos s)) (i_rest s) in
            GOk true (upd_user s1 (w :: i_user s1)) ps
        | x => x
        end
    | EPushLit w => GOk true (upd_user s (w :: i_user s)) []
    | EPeek =>
        (* peek = state.peek()  (None on an empty stack);
           if peek is not None and startswith: ... else: matched = False; if peek is not None: fail *)
        match i_user s with
        | [] => GOk false s []
        | w :: _ =>
            match strip_prefix w (i_rest s) with
            | Some r => GOk true (adv_i s (lenN w) r) []
            | None => gfail_here s
            end
        end
    | EPop =>
        match i_user s with
        | [] => GOk false s []
        | w :: k =>
            match strip_prefix w (i_rest s) with
            | Some r => GOk true (upd_user (adv_i s (lenN w) r) k) []
            | None => gfail_here s
            end
        end
    | EDrop =>
        match i_user s with
        | [] => gfail_here s
        | _ :: k => GOk true (upd_user s k) []
        end
    | EPeekAll =>
        (* pos = state.pos; matched = True; for peek in reversed(stack): ... else: matched = False;
           fail; break;  if matched: state.pos = pos *)
        match match_all (i_user s) (i_rest s) 0 with
        | Some (r, n) => GOk true (adv_i s n r) []
        | None => gfail_here s
        end
    | EPopAll =>
        match match_all (i_user s) (i_rest s) 0 with
        | Some (r, n) => GOk true (upd_user (adv_i s n r) []) []
        | None => gfail_here s
        end
    | EPeekSl a b =>
        match match_all (py_slice (rev (i_user s)) a b) (i_rest s) 0 with
        | Some (r, n) => GOk true (adv_i s n r) []
        | None => gfail_here s
        end
    | ESkipUntil subs =>
        let n := match earliest subs (i_rest s) None with
                 | Some p => p
                 | None => lenN (i_rest s)
                 end in
        GOk true (adv_i s n (skipn (N.to_nat n) (i_rest s))) []
    end
  | GSeq es =>
      (* all_ok = True; per element: if all_ok: inner = False; <e>(inner, pairs_var);
         if not inner: all_ok = False; [not last:] if all_ok: parse_trivia(state, pairs_var)
         -- the elements write into pairs_var directly, so what they appended stays on failure *)
      match es with
      | [] => GOk true s []
      | e1 :: es' =>
          match grun f (GEval e1) s with
          | GOk true s1 p1 =>
              match es' with
              | [] => GOk true s1 p1
              | _ =>
                  match grun f GTrivia s1 with
                  | GOk _ s2 pw =>
                      match grun f (GSeq es') s2 with
                      | GOk m s3 p3 => GOk m s3 (p1 ++ pw ++ p3)
                      | x => x
                      end
                  | x => x
                  end
              end
          | x => x
          end
      end
  | GAlt es =>
      (* tmp = []; matched = False; per branch: if not matched: checkpoint(); <b>(matched, tmp);
         if matched: ok(); pairs.extend(tmp) else: restore(); tmp.clear() *)
      match es with
      | [] => GOk false s []
      | e1 :: es' =>
          match grun f (GEval e1) (icheckpoint s) with
          | GOk true s1 ps => match iok s1 with Some s2 => GOk true s2 ps | None => GCrash end
          | GOk false s1 _ =>
              match irestore s1 with Some s2 => grun f (GAlt es') s2 | None => GCrash end
          | x => x
          end
      end
  | GStar e1 first =>
      (* first = True; tmp = []
         while True: checkpoint(); if not first: parse_trivia(state, tmp);  <e>(matched, tmp)
           if matched: ok(); pairs.extend(tmp); tmp.clear(); first = False
           else: restore(); matched = True; break *)
      let s0 := icheckpoint s in
      match (if first then GOk true s0 [] else grun f GTrivia s0) with
      | GOk _ s1 pw =>
          match grun f (GEval e1) s1 with
          | GOk true s2 p2 =>
              match iok s2 with
              | None => GCrash
              | Some s3 =>
                  match grun f (GStar e1 false) s3 with
                  | GOk m s4 p4 => GOk m s4 (pw ++ p2 ++ p4)
                  | x => x
                  end
              end
          | GOk false s2 _ =>
              match irestore s2 with Some s3 => GOk true s3 [] | None => GCrash end
          | x => x
          end
      | x => x
      end
  | GTrivia =>
      (* def parse_trivia(state, pairs): no rules: return True; if atomic_depth > 0: return True;
         with state.suppress_failures(): <GTrivLoop>; return True *)
      if negb (ghas_rule WS_ID) && negb (ghas_rule CM_ID) then GOk true s []
      else if Nat.ltb 0 (i_depth s) then GOk true s []
      else
        match grun f GTrivLoop (upd_sup s true) with
        | GOk _ s1 ps => GOk true (upd_sup s1 (i_sup s)) ps
        | x => x
        end
  | GTrivLoop =>
      match (if ghas_rule WS_ID then grun f GWsLoop s else GOk false s []) with
      | GOk _ s1 p1 =>
          if ghas_rule CM_ID then
            match grun f (GTrivOnce CM_ID) s1 with
            | GOk true s2 p2 =>
                match grun f GTrivLoop s2 with
                | GOk m s3 p3 => GOk m s3 (p1 ++ p2 ++ p3)
                | x => x
                end
            | GOk false s2 _ => GOk true s2 p1
            | x => x
            end
          else GOk true s1 p1
      | x => x
      end
  | GWsLoop =>
      match grun f (GTrivOnce WS_ID) s with
      | GOk true s1 p1 =>
          match grun f GWsLoop s1 with
          | GOk m s2 p2 => GOk m s2 (p1 ++ p2)
          | x => x
          end
      | GOk false s1 _ => GOk true s1 []
      | x => x
      end
  | GTrivOnce n =>
      match lookup g n with
      | None => GUndef
      | Some r =>
          match grun f (GRule r) (icheckpoint s) with
          | GOk true s1 ps => match iok s1 with Some s2 => GOk true s2 ps | None => GCrash end
          | GOk false s1 _ => match irestore s1 with Some s2 => GOk false s2 [] | None => GCrash end
          | x => x
          end
      end
  | GRule r =>
      (* def inner(state, pairs): [pos1 = state.pos]; rule_stack.push(frame); children = [];
         [with atomic_checkpoint(): depth += 1 | zero()] <body>(matched, children); rule_stack.pop()
         silent:  pairs.extend(children); return matched
         else:    tag = tag_stack.pop() if tag_stack else None;  [children -> visible_in_atomic]
                  if matched: pairs.append(Pair(...)); return matched *)
      if inlined (r_name r) then grun f (GEval (r_body r)) s else
      let start := i_pos s in
      let s1 := upd_rules s (r_name r :: i_rules s) in
      let s2 := match depth_mode r with
                | DInc => upd_depth s1 (S (i_depth s1)) (i_depth s1 :: i_dcps s1)
                | DZero => upd_depth s1 0 (i_depth s1 :: i_dcps s1)
                | DSame => s1
                end in
      match grun f (GEval (r_body r)) s2 with
      | GOk m s3 kids =>
          let s4 := match depth_mode r with
                    | DSame => s3
                    | _ => upd_depth s3 (match i_dcps s3 with d :: _ => d | [] => 0 end) (tl (i_dcps s3))
                    end in
          match i_rules s4 with
          | [] => GCrash
          | _ :: rl =>
              let s5 := upd_rules s4 rl in
              if r_silent r then GOk m s5 (if hides r then vis g kids else kids)                    (* extends even when not matched *)
              else
                let tg := match i_tags s5 with t0 :: _ => Some t0 | [] => None end in
                let s6 := upd_tags s5 (tl (i_tags s5)) in             (* popped even when not matched *)
                let kids' := if hides r then vis g kids else kids in
                if m then GOk true s6 [Pair (r_name r) start (i_pos s5) kids' tg]
                else GOk false s6 []
          end
      | x => x
      end
  end
  end.

(* the generated parse(start_rule, text, start_pos=k): _RULE_MAP[start_rule](state, pairs) *)
Definition gparse (fuel : nat) (rule : N) (input : text) (k : nat) : gres :=
  match lookup g rule with
  | None => GUndef
  | Some r => if inlined rule then GUndef else grun fuel (GRule r) (ist0 input k)
  end.

End G.
