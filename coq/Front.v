(* Front.v — executable model of the grammar front end of the Python `pest` port:
     pest.Parser.from_grammar(text, optimizer=None)
       = grammar/scanner.py (Scanner)  ->  grammar/parser.py (Parser)  ->  pest/parser.py (Parser.__init__)
   One Coq function per Python function/method, same control flow, same order of tests.
   NO PROOFS IN THIS FILE (they are in FrontProof.v).

   Representation choices (data refinements of the Python objects, nothing else is re-designed):
   * `str` = list of code points (`text`).  A position in the grammar is a CURSOR (index, suffix):
     `ix` is the Python integer (`self.pos`, `self.start`) and `suf` is `self.grammar[ix:]`, cached so
     that `self.grammar[self.pos]` is `hd suf`.  `self.start` is only ever assigned from `self.pos`
     (or from a saved `pos`), so both are cursors.  `self.grammar[a.ix : e]` is `firstn (e - ix a) (suf a)`.
   * `Scanner.tokens` is kept in reverse (append = cons), reversed once at the end.
   * A Token is (kind, value, start); the `grammar` field is the same string for every token and is
     only used for `len(grammar)` (the EOI token's start).
   * grammar/parser.py indexes `self.tokens[self.pos]` under `try/except IndexError -> self.eof`;
     the model keeps the remaining tokens `self.tokens[self.pos:]` (`self.pos += 1` = `tl`,
     and `tl [] = []` is observationally the same as an index past the end: both give `eof`).
   * A regex is a hand-written recogniser `text -> mres` returning the match LENGTH
     (`match.end() - match.start()`), `NoMatch`, or `MFuel` (only the recursive block comment). *)
From Coq Require Import List NArith ZArith Bool Lia.
From PP Require Import Base Builtins.
Import ListNotations.
Open Scope N_scope.

(* ------------------------------------------------------------------ *)
(** * Output AST *)

(* Adapted from the requested constructor list: the Python gives a `tag` to EVERY expression built with
   `tag=tag` in parse_expression (Range, predicates, PUSH, PUSH_LITERAL, PEEK.., POP.., DROP), and
   Range.start/stop are Python strings (the unescaped character), so they are `text` here. String,
   CIString, postfix operators, Sequence and Choice get no tag (String(value)/CIString(value) drop it). *)
Inductive pexpr :=
| PStr (s : text) | PCIStr (s : text) | PRange (lo hi : text) (tag : option text)
| PRef (name : text) (tag : option text)
| PSeq (es : list pexpr) | PAlt (es : list pexpr)
| POpt (e : pexpr) | PStar (e : pexpr) | PPlus (e : pexpr)
| PRepN (e : pexpr) (n : Z) | PRepMin (e : pexpr) (n : Z) | PRepMax (e : pexpr) (n : Z)
| PRepMinMax (e : pexpr) (m n : Z)
| PAnd (e : pexpr) (tag : option text) | PNot (e : pexpr) (tag : option text)
| PGrp (e : pexpr) (tag : option text)
| PPush (e : pexpr) (tag : option text) | PPushLit (s : text) (tag : option text)
| PPeek (tag : option text) | PPeekSl (a b : option Z) (tag : option text) | PPeekAll (tag : option text)
| PPop (tag : option text) | PPopAll (tag : option text) | PDrop (tag : option text).

Record prule := mkprule { pr_name : text; pr_mod : N; pr_body : pexpr; pr_doc : list text }.

Inductive fres := FOk (rules : list prule) | FSyntax (pos : nat) | FCrash (what : nat) | FFuel.

(* Crash sites (FCrash codes). *)
(* (code 1 was UnicodeEncodeError at `digits.encode()` in unescape._parse_hex_digits; the library was
   repaired -- `for digit in map(ord, digits)` -- and the site no longer exists) *)
Definition C_CHR    : nat := 2.  (* ValueError: chr(..) in unescape._decode_escape_sequence (\xHH) *)
Definition C_INDEX  : nat := 3.  (* IndexError: `value[index]` in unescape.unescape_string *)
Definition C_KEY    : nat := 4.  (* KeyError: `self.builtins[name]` in Parser.parse_expression *)

(* ------------------------------------------------------------------ *)
(** * Result monad *)

Inductive res (A : Type) : Type :=
| Ok (a : A)
| Syn (pos : nat)        (* PestGrammarSyntaxError / PestGrammarError, token.start *)
| Crash (k : nat)        (* any other exception *)
| OutOfFuel.
Arguments Ok {A} a. Arguments Syn {A} pos. Arguments Crash {A} k. Arguments OutOfFuel {A}.

Definition bind {A B} (m : res A) (f : A -> res B) : res B :=
  match m with Ok a => f a | Syn p => Syn p | Crash k => Crash k | OutOfFuel => OutOfFuel end.

Notation "'let*' x ':=' m 'in' f" := (bind m (fun x => f))
  (at level 200, x name, m at level 100, f at level 200, right associativity).
Notation "'let*' ' p ':=' m 'in' f" := (bind m (fun x => match x with p => f end))
  (at level 200, p pattern, m at level 100, f at level 200, right associativity).

(* ------------------------------------------------------------------ *)
(** * tokens.py *)

Inductive kind :=
| K_EOI | K_ERROR | K_COMMENT_TEXT | K_IDENTIFIER | K_ASSIGN_OP | K_MODIFIER | K_LBRACE | K_RBRACE
| K_CHOICE_OP | K_SEQUENCE_OP | K_TAG | K_POSITIVE_PREDICATE | K_NEGATIVE_PREDICATE | K_CHAR | K_COMMA
| K_DROP | K_GRAMMAR_DOC | K_LBRACKET | K_LPAREN | K_PEEK | K_PEEK_ALL | K_REPEAT_ONCE_OP | K_POP
| K_POP_ALL | K_PUSH | K_PUSH_LITERAL | K_OPTION_OP | K_RANGE_OP | K_RBRACKET | K_RPAREN | K_RULE_DOC
| K_REPEAT_OP | K_STRING | K_STRING_CI | K_NUMBER | K_INTEGER.

Definition kind_code (k : kind) : N :=
  match k with
  | K_EOI => 2 | K_ERROR => 3 | K_COMMENT_TEXT => 5 | K_IDENTIFIER => 6 | K_ASSIGN_OP => 7
  | K_MODIFIER => 8 | K_LBRACE => 9 | K_RBRACE => 10 | K_CHOICE_OP => 11 | K_SEQUENCE_OP => 12
  | K_TAG => 13 | K_POSITIVE_PREDICATE => 14 | K_NEGATIVE_PREDICATE => 15 | K_CHAR => 17
  | K_COMMA => 18 | K_DROP => 20 | K_GRAMMAR_DOC => 21 | K_LBRACKET => 22 | K_LPAREN => 23
  | K_PEEK => 24 | K_PEEK_ALL => 25 | K_REPEAT_ONCE_OP => 26 | K_POP => 27 | K_POP_ALL => 28
  | K_PUSH => 29 | K_PUSH_LITERAL => 30 | K_OPTION_OP => 31 | K_RANGE_OP => 32 | K_RBRACKET => 33
  | K_RPAREN => 34 | K_RULE_DOC => 35 | K_REPEAT_OP => 36 | K_STRING => 37 | K_STRING_CI => 38
  | K_NUMBER => 39 | K_INTEGER => 40
  end.
Definition kind_eqb (a b : kind) : bool := N.eqb (kind_code a) (kind_code b).

Record token := mktoken { tk_kind : kind; tk_value : text; tk_start : nat }.

(* ------------------------------------------------------------------ *)
(** * Python primitives *)

Definition is_some_eq (o : option N) (c : N) : bool :=
  match o with Some d => N.eqb d c | None => false end.

Fixpoint text_eqb (a b : text) : bool :=
  match a, b with
  | [], [] => true
  | x :: a', y :: b' => N.eqb x y && text_eqb a' b'
  | _, _ => false
  end.

(* value[a:b] for 0 <= a, 0 <= b (Python never raises on slices) *)
Definition slice (v : text) (a b : nat) : text := firstn (b - a) (skipn a v).
(* value[1:-1] *)
Definition slice_1_m1 (v : text) : text := removelast (tl v).

(* chr(n): None = ValueError *)
Definition py_chr (n : N) : option N := if n <=? 1114111 then Some n else None.

(* int(value) for the token values the scanner produces (-?[0-9]+); None = ValueError
   (not a number, or more than sys.get_int_max_str_digits() = 4300 digits, leading zeros counted).
   Python's int() also accepts "+", blanks, "_" and non-ASCII digits: not modelled, the scanner's
   NUMBER / INTEGER tokens never contain them. *)
Definition is_digit (c : N) : bool := (48 <=? c) && (c <=? 57).
Fixpoint digits_value (ds : text) (acc : N) : N :=
  match ds with [] => acc | d :: r => digits_value r (acc * 10 + (d - 48)) end.
Definition py_int (v : text) : option Z :=
  let neg := match v with c :: _ => N.eqb c 45 | [] => false end in
  let ds := if neg then tl v else v in
  match ds with
  | [] => None
  | _ :: _ =>
      if negb (forallb is_digit ds) then None
      else if Nat.ltb 4300 (length ds) then None
      else let n := Z.of_N (digits_value ds 0) in Some (if neg then Z.opp n else n)
  end.

(* ------------------------------------------------------------------ *)
(** * unescape.py *)

(* _parse_hex_digits: `for digit in map(ord, digits): codepoint <<= 4; codepoint |= ...`
   (the loop looks at code points; any non-hex character, surrogates included, is a syntax error) *)
Fixpoint parse_hex_loop (ds : text) (codepoint : N) (tstart : nat) : res N :=
  match ds with
  | [] => Ok codepoint
  | digit :: r =>
      let codepoint := N.shiftl codepoint 4 in
      if (48 <=? digit) && (digit <=? 57) then parse_hex_loop r (N.lor codepoint (digit - 48)) tstart
      else if (65 <=? digit) && (digit <=? 70) then parse_hex_loop r (N.lor codepoint (digit - 65 + 10)) tstart
      else if (97 <=? digit) && (digit <=? 102) then parse_hex_loop r (N.lor codepoint (digit - 97 + 10)) tstart
      else Syn tstart
  end.
Definition parse_hex_digits (digits : text) (tstart : nat) : res N :=
  parse_hex_loop digits 0 tstart.

(* _chr *)
Definition chr_checked (codepoint : N) (tstart : nat) : res N :=
  if (1114111 <? codepoint) || ((55296 <=? codepoint) && (codepoint <=? 57343)) then Syn tstart
  else match py_chr codepoint with Some c => Ok c | None => Crash C_CHR end.

(* value.find("}", index): absolute index or None (-1) *)
Definition find_from (c : N) (value : text) (index : nat) : option nat :=
  match find_sub [c] (skipn index value) with
  | Some off => Some (index + N.to_nat off)%nat
  | None => None
  end.

(* _decode_hex_char(value, index, token) -> (codepoint, index) *)
Definition decode_hex_char (value : text) (index : nat) (tstart : nat) : res (N * nat) :=
  let index := S index in                                        (* move past 'u' *)
  if negb (text_eqb (slice value index (index + 1)) [123]) then Syn tstart
  else
    let index := S index in                                      (* move past '{' *)
    match find_from 125 value index with
    | None => Syn tstart                                         (* unclosed *)
    | Some closing_brace_index =>
        let hex_digit_length := (closing_brace_index - index)%nat in
        if negb (Nat.leb 2 hex_digit_length && Nat.leb hex_digit_length 6) then Syn tstart
        else
          let* codepoint := parse_hex_digits (slice value index (index + hex_digit_length)) tstart in
          Ok (codepoint, (index + hex_digit_length)%nat)
    end.

(* _decode_escape_sequence(value, index, token, quote) -> (ch, index) *)
Definition decode_escape_sequence (value : text) (index : nat) (tstart : nat) : res (N * nat) :=
  match nth_error value index with
  | None => Syn tstart                                           (* except IndexError -> syntax error *)
  | Some ch =>
      if (ch =? 34) || (ch =? 39) || (ch =? 92) then Ok (ch, index)
      else if ch =? 110 then Ok (10, index)
      else if ch =? 114 then Ok (13, index)
      else if ch =? 116 then Ok (9, index)
      else if ch =? 48 then Ok (0, index)
      else if ch =? 120 then
        let digits := slice value (index + 1) (index + 3) in
        if negb (Nat.eqb (length digits) 2) then Syn tstart
        else
          let* n := parse_hex_digits digits tstart in
          match py_chr n with Some c => Ok (c, (index + 2)%nat) | None => Crash C_CHR end
      else if ch =? 117 then
        let* '(codepoint, index) := decode_hex_char value index tstart in
        let* c := chr_checked codepoint tstart in
        Ok (c, index)
      else Syn tstart
  end.

(* unescape_string: `while index < len(value)`; `unescaped` is kept in reverse. *)
Fixpoint unescape_loop (fuel : nat) (value : text) (index : nat) (unescaped : text) (tstart : nat)
  : res text :=
  match fuel with
  | O => OutOfFuel
  | S fuel' =>
      if negb (Nat.ltb index (length value)) then Ok (rev unescaped)
      else
        match nth_error value index with
        | None => Crash C_INDEX
        | Some ch =>
            if ch =? 92 then
              let index := S index in
              let* '(c, index) := decode_escape_sequence value index tstart in
              unescape_loop fuel' value (S index) (c :: unescaped) tstart
            else unescape_loop fuel' value (S index) (ch :: unescaped) tstart
        end
  end.
Definition unescape_string (value : text) (tstart : nat) : res text :=
  unescape_loop (S (length value)) value 0 [] tstart.

(* ------------------------------------------------------------------ *)
(** * scanner.py — regular expressions *)

Inductive mres := Match (n : nat) | NoMatch | MFuel.
Definition regex := text -> mres.

Definition is_ident_start (c : N) : bool :=
  (c =? 95) || ((97 <=? c) && (c <=? 122)) || ((65 <=? c) && (c <=? 90)).
Definition is_ident_char (c : N) : bool := is_ident_start c || is_digit c.
Definition is_hex (c : N) : bool :=
  is_digit c || ((97 <=? c) && (c <=? 102)) || ((65 <=? c) && (c <=? 70)).

(* length of the longest prefix whose characters satisfy p : `[class]*` *)
Fixpoint count_while (p : N -> bool) (s : text) : nat :=
  match s with [] => O | c :: r => if p c then S (count_while p r) else O end.

(* a literal *)
Definition re_lit (lit : text) : regex :=
  fun s => match strip_prefix lit s with Some _ => Match (length lit) | None => NoMatch end.
(* a literal followed by (?![_a-zA-Z0-9]) *)
Definition re_keyword (lit : text) : regex :=
  fun s => match strip_prefix lit s with
           | Some [] => Match (length lit)
           | Some (c :: _) => if is_ident_char c then NoMatch else Match (length lit)
           | None => NoMatch
           end.

Definition re_grammar_doc : regex := re_lit [47;47;33].          (* RE_GRAMMAR_DOC  //!  *)
Definition re_rule_doc : regex := re_lit [47;47;47].             (* RE_RULE_DOC     ///  *)
Definition re_range_op : regex := re_lit [46;46].                (* RE_RANGE_OP     \.\. *)
Definition re_push : regex := re_lit [80;85;83;72].              (* RE_PUSH         PUSH *)
Definition re_push_literal : regex :=                            (* RE_PUSH_LITERAL PUSH_LITERAL *)
  re_lit [80;85;83;72;95;76;73;84;69;82;65;76].
Definition re_drop : regex := re_keyword [68;82;79;80].          (* RE_DROP     DROP(?![_a-zA-Z0-9]) *)
Definition re_peek : regex := re_keyword [80;69;69;75].          (* RE_PEEK     PEEK(?![_a-zA-Z0-9]) *)
Definition re_peek_all : regex := re_keyword [80;69;69;75;95;65;76;76]. (* RE_PEEK_ALL *)
Definition re_pop : regex := re_keyword [80;79;80].              (* RE_POP      POP(?![_a-zA-Z0-9]) *)
Definition re_pop_all : regex := re_keyword [80;79;80;95;65;76;76].     (* RE_POP_ALL *)

(* RE_IDENTIFIER  [_a-zA-Z][_a-zA-Z0-9]* *)
Definition re_identifier : regex :=
  fun s => match s with
           | c :: r => if is_ident_start c then Match (S (count_while is_ident_char r)) else NoMatch
           | [] => NoMatch
           end.
(* RE_TAG  #[_a-zA-Z][_a-zA-Z0-9]* *)
Definition re_tag : regex :=
  fun s => match s with
           | h :: r => if h =? 35 then
                         match re_identifier r with Match n => Match (S n) | m => m end
                       else NoMatch
           | [] => NoMatch
           end.
(* RE_NUMBER  [0-9]+ *)
Definition re_number : regex :=
  fun s => match count_while is_digit s with O => NoMatch | S n => Match (S n) end.
(* RE_INTEGER  [0-9]+|-0*[1-9][0-9]*   (0* is greedy and [1-9] excludes 0, so no other split) *)
Definition re_integer : regex :=
  fun s => match count_while is_digit s with
           | S n => Match (S n)
           | O =>
               match s with
               | m :: r =>
                   if m =? 45 then
                     let z := count_while (fun c => c =? 48) r in
                     match skipn z r with
                     | d :: r' => if (49 <=? d) && (d <=? 57)
                                  then Match (S (z + S (count_while is_digit r')))
                                  else NoMatch
                     | [] => NoMatch
                     end
                   else NoMatch
               | [] => NoMatch
               end
           end.
(* RE_MODIFIER  [_@\$!] *)
Definition re_modifier : regex :=
  fun s => match s with
           | c :: _ => if (c =? 95) || (c =? 64) || (c =? 36) || (c =? 33) then Match 1 else NoMatch
           | [] => NoMatch
           end.
(* RE_WHITESPACE  (?: |\t|\n|\r\n)+ *)
Fixpoint count_ws (s : text) : nat :=
  match s with
  | [] => O
  | c :: r =>
      if (c =? 32) || (c =? 9) || (c =? 10) then S (count_ws r)
      else if c =? 13 then
        match r with
        | d :: r' => if d =? 10 then S (S (count_ws r')) else O
        | [] => O
        end
      else O
  end.
Definition re_whitespace : regex :=
  fun s => match count_ws s with O => NoMatch | S n => Match (S n) end.
(* RE_LINE_COMMENT  //(?!/|!).*     ( . = anything but \n ) *)
Definition re_line_comment : regex :=
  fun s => match s with
           | a :: b :: r =>
               if (a =? 47) && (b =? 47) then
                 if match r with c :: _ => (c =? 47) || (c =? 33) | [] => false end then NoMatch
                 else Match (2 + count_while (fun c => negb (c =? 10)) r)
               else NoMatch
           | _ => NoMatch
           end.
(* RE_BLOCK_COMMENT  /\x2a(?:[^\x2a/]|\x2a(?!/)|/(?!\x2a)|(?R))*\x2a/     (\x2a = a literal star)
   The alternatives of the loop and the exit `*/` are mutually exclusive on the next two characters,
   so the backtracking matcher is deterministic: `bc_body` is the loop after an opening `/*`, it returns
   the length up to and including the closing `*/`. (?R) = the nested call. Fuel: the remaining length. *)
Fixpoint bc_body (fuel : nat) (s : text) : mres :=
  match fuel with
  | O => MFuel
  | S fuel' =>
      match s with
      | [] => NoMatch
      | c :: r =>
          let next_is d := match r with e :: _ => e =? d | [] => false end in
          if (c =? 42) && next_is 47 then Match 2                     (* exit: star slash *)
          else if (c =? 47) && next_is 42 then                        (* (?R) *)
            match bc_body fuel' (tl r) with
            | Match n =>
                match bc_body fuel' (skipn n (tl r)) with
                | Match n' => Match (2 + n + n')
                | m => m
                end
            | m => m
            end
          else                                 (* the three one-character alternatives *)
            match bc_body fuel' r with Match n => Match (S n) | m => m end
      end
  end.
Definition re_block_comment : regex :=
  fun s => match s with
           | a :: b :: r =>
               if (a =? 47) && (b =? 42) then
                 match bc_body (S (length r)) r with Match n => Match (2 + n) | m => m end
               else NoMatch
           | _ => NoMatch
           end.
(* RE_CHAR  '\\[\\\x22rnt0']'|'\\x[0-9a-fA-F]{2}'|'\\u\{[0-9a-fA-F]{2,6}\}'|'(?s:.)'   (\x22 = double quote) *)
Definition re_char : regex :=
  fun s =>
    let alt4 := match s with
                | q :: _ :: q' :: _ => if (q =? 39) && (q' =? 39) then Match 3 else NoMatch
                | _ => NoMatch
                end in
    match strip_prefix [39;92] s with
    | Some (c :: r) =>
        if ((c =? 92) || (c =? 34) || (c =? 114) || (c =? 110) || (c =? 116) || (c =? 48) || (c =? 39))
           && is_some_eq (hd_error r) 39 then Match 4
        else if (c =? 120)
             && match r with h1 :: h2 :: q :: _ => is_hex h1 && is_hex h2 && (q =? 39) | _ => false end
        then Match 6
        else if (c =? 117) && is_some_eq (hd_error r) 123
             && (let h := count_while is_hex (tl r) in
                 Nat.leb 2 h && Nat.leb h 6
                 && match skipn h (tl r) with b :: q :: _ => (b =? 125) && (q =? 39) | _ => false end)
        then Match (4 + count_while is_hex (tl r) + 2)
        else alt4
    | _ => alt4
    end.
(* RE_NEWLINE.search  \r?\n : offset of the first match start *)
Fixpoint search_newline (s : text) : option nat :=
  match s with
  | [] => None
  | c :: r =>
      if c =? 10 then Some O
      else if (c =? 13) && is_some_eq (hd_error r) 10 then Some O
      else match search_newline r with Some n => Some (S n) | None => None end
  end.

(* ------------------------------------------------------------------ *)
(** * scanner.py — Scanner *)

Record cur := mkcur { ix : nat; suf : text }.
Record sc := mksc { sc_rtokens : list token; sc_start : cur; sc_pos : cur; sc_len : nat }.

Definition set_pos (s : sc) (c : cur) : sc := mksc (sc_rtokens s) (sc_start s) c (sc_len s).
Definition set_start (s : sc) (c : cur) : sc := mksc (sc_rtokens s) c (sc_pos s) (sc_len s).
Definition rem (s : sc) : nat := length (suf (sc_pos s)).

Definition cur_incr (c : cur) : cur := mkcur (S (ix c)) (tl (suf c)).                 (* += 1 *)
Definition cur_adv (n : nat) (c : cur) : cur :=                                     (* += len(match) *)
  mkcur (ix c + length (firstn n (suf c))) (skipn n (suf c)).

(* emit *)
Definition emit (k : kind) (v : text) (s : sc) : sc :=
  mksc (mktoken k v (ix (sc_start s)) :: sc_rtokens s) (sc_pos s) (sc_pos s) (sc_len s).
(* next: "" is None *)
Definition next (s : sc) : option N * sc :=
  match suf (sc_pos s) with
  | [] => (None, s)
  | c :: _ => (Some c, set_pos s (cur_incr (sc_pos s)))
  end.
Definition peek (s : sc) : option N := hd_error (suf (sc_pos s)).
Definition peek_is (c : N) (s : sc) : bool := is_some_eq (peek s) c.
(* self.emit(kind, self.next()) *)
Definition emit_next (k : kind) (s : sc) : sc :=
  let '(o, s') := next s in emit k (match o with Some c => [c] | None => [] end) s'.

Definition scan (re : regex) (s : sc) : res (option text * sc) :=
  match re (suf (sc_pos s)) with
  | Match n => Ok (Some (firstn n (suf (sc_pos s))), set_pos s (cur_adv n (sc_pos s)))
  | NoMatch => Ok (None, s)
  | MFuel => OutOfFuel
  end.
(* scan_until(RE_NEWLINE) *)
Definition scan_until_newline (s : sc) : option text * sc :=
  match search_newline (suf (sc_pos s)) with
  | Some off =>
      let p := cur_adv off (sc_pos s) in
      (Some (firstn (ix p - ix (sc_start s)) (suf (sc_start s))), set_pos s p)
  | None => (None, s)
  end.
Definition skip (re : regex) (s : sc) : res (bool * sc) :=
  match re (suf (sc_pos s)) with
  | Match n => let p := cur_adv n (sc_pos s) in Ok (true, set_start (set_pos s p) p)
  | NoMatch => Ok (false, s)
  | MFuel => OutOfFuel
  end.

(* skip_trivia: `while True: if not any((skip(WS), skip(LINE), skip(BLOCK))): break`
   (the tuple is built first: all three skips run in every round) *)
Fixpoint skip_trivia_loop (fuel : nat) (s : sc) : res sc :=
  match fuel with
  | O => OutOfFuel
  | S fuel' =>
      let* '(b1, s) := skip re_whitespace s in
      let* '(b2, s) := skip re_line_comment s in
      let* '(b3, s) := skip re_block_comment s in
      if b1 || b2 || b3 then skip_trivia_loop fuel' s else Ok s
  end.
Definition skip_trivia (s : sc) : res sc := skip_trivia_loop (S (rem s)) s.

(* error: token.start = min(self.start, len(self.grammar)) *)
Definition error {A} (s : sc) : res A := Syn (Nat.min (ix (sc_start s)) (sc_len s)).

(* `if self.peek() == c: self.emit(kind, self.next()) else: self.error(..)` *)
Definition expect (c : N) (k : kind) (s : sc) : res sc :=
  if peek_is c s then Ok (emit_next k s) else error s.

(* ESCAPES = n r t u x backslash double-quote 0 single-quote *)
Definition in_escapes (o : option N) : bool :=
  match o with
  | Some c => (c =? 110) || (c =? 114) || (c =? 116) || (c =? 117) || (c =? 120) || (c =? 92)
              || (c =? 34) || (c =? 48) || (c =? 39)
  | None => false
  end.

(* The `while True` loop shared by accept_string and accept_ci_string (identical bodies but for the
   token kind). *)
Fixpoint string_loop (fuel : nat) (k : kind) (needs_unescaping : bool) (s : sc) : res (bool * sc) :=
  match fuel with
  | O => OutOfFuel
  | S fuel' =>
      let '(c, s) := next s in
      let* '(needs_unescaping, s) :=
        (if is_some_eq c 92 then
           if in_escapes (peek s) then Ok (true, snd (next s)) else error s
         else Ok (needs_unescaping, s)) in
      match c with
      | None => error s                                               (* unclosed string *)
      | Some ch =>
          if ch =? 34 then
            let value := firstn (ix (sc_pos s) - 1 - ix (sc_start s)) (suf (sc_start s)) in
            let* value := (if needs_unescaping then unescape_string value (ix (sc_start s))
                           else Ok value) in
            Ok (true, emit k value s)
          else string_loop fuel' k needs_unescaping s
      end
  end.

Definition accept_string (s : sc) : res (bool * sc) :=
  if negb (peek_is 34 s) then Ok (false, s)
  else
    let p := cur_incr (sc_pos s) in                                   (* skip opening quote *)
    let s := set_start (set_pos s p) p in
    string_loop (S (rem s)) K_STRING false s.

Definition accept_ci_string (s : sc) : res (bool * sc) :=
  if negb (peek_is 94 s) then Ok (false, s)
  else
    let p := cur_incr (sc_pos s) in                                   (* skip '^' *)
    let s := set_start (set_pos s p) p in
    let* s := skip_trivia s in
    if negb (peek_is 34 s) then error s
    else
      let p := cur_incr (sc_pos s) in                                 (* skip opening quote *)
      let s := set_start (set_pos s p) p in
      string_loop (S (rem s)) K_STRING_CI false s.

(* accept_one_postfix_op: the `{ ... }` loop *)
Fixpoint repeat_braces_loop (fuel : nat) (s : sc) : res sc :=
  match fuel with
  | O => OutOfFuel
  | S fuel' =>
      let* s := skip_trivia s in
      if peek_is 44 s then repeat_braces_loop fuel' (emit_next K_COMMA s)
      else
        let* '(v, s) := scan re_number s in
        match v with
        | Some value => repeat_braces_loop fuel' (emit K_NUMBER value s)
        | None => Ok s
        end
  end.

Definition accept_one_postfix_op (s : sc) : res (bool * sc) :=
  let pos := sc_pos s in
  let* s := skip_trivia s in
  let ch := peek s in
  if negb (is_some_eq ch 63 || is_some_eq ch 42 || is_some_eq ch 43 || is_some_eq ch 123) then
    Ok (false, set_start (set_pos s pos) pos)
  else if is_some_eq ch 63 then Ok (true, emit_next K_OPTION_OP s)
  else if is_some_eq ch 42 then Ok (true, emit_next K_REPEAT_OP s)
  else if is_some_eq ch 43 then Ok (true, emit_next K_REPEAT_ONCE_OP s)
  else
    let s := emit_next K_LBRACE s in
    let* s := repeat_braces_loop (S (rem s)) s in
    let* s := skip_trivia s in
    let* s := expect 125 K_RBRACE s in
    Ok (true, s).

(* accept_postfix_op: `while self.accept_one_postfix_op(): pass` *)
Fixpoint accept_postfix_loop (fuel : nat) (s : sc) : res sc :=
  match fuel with
  | O => OutOfFuel
  | S fuel' =>
      let* '(b, s) := accept_one_postfix_op s in
      if b then accept_postfix_loop fuel' s else Ok s
  end.
Definition accept_postfix_op (s : sc) : res sc := accept_postfix_loop (S (rem s)) s.

(* accept_term: `while self.peek() in ("&", "!")` *)
Fixpoint prefix_loop (fuel : nat) (s : sc) : res sc :=
  match fuel with
  | O => OutOfFuel
  | S fuel' =>
      if peek_is 38 s || peek_is 33 s then
        let s := if peek_is 38 s then emit_next K_POSITIVE_PREDICATE s
                 else emit_next K_NEGATIVE_PREDICATE s in
        let* s := skip_trivia s in
        prefix_loop fuel' s
      else Ok s
  end.

(* `if value := self.scan(re): self.emit(kind, value); return True` *)
Definition scan_emit (re : regex) (k : kind) (s : sc) : res (bool * sc) :=
  let* '(v, s) := scan re s in
  match v with Some value => Ok (true, emit k value s) | None => Ok (false, s) end.

(* The PEEK branch of accept_terminal after `self.emit(TokenKind.PEEK, value)` *)
Definition accept_peek_tail (s : sc) : res (bool * sc) :=
  let pos := sc_pos s in
  let* s := skip_trivia s in
  if negb (peek_is 91 s) then Ok (true, set_start (set_pos s pos) pos)
  else
    let s := emit_next K_LBRACKET s in
    let* s := skip_trivia s in
    let* '(b, s) := scan_emit re_integer K_INTEGER s in
    let* s := (if b then skip_trivia s else Ok s) in
    let* '(b, s) := scan_emit re_range_op K_RANGE_OP s in
    if negb b then error s
    else
      let* s := skip_trivia s in
      let* '(b, s) := scan_emit re_integer K_INTEGER s in
      let* s := (if b then skip_trivia s else Ok s) in
      let* s := expect 93 K_RBRACKET s in
      Ok (true, s).

(* The CHAR branch of accept_terminal after `self.emit(TokenKind.CHAR, value)` *)
Definition accept_range_tail (s : sc) : res (bool * sc) :=
  let* s := skip_trivia s in
  let* '(b, s) := scan_emit re_range_op K_RANGE_OP s in
  if negb b then error s
  else
    let* s := skip_trivia s in
    let* '(b, s) := scan_emit re_char K_CHAR s in
    if negb b then error s else Ok (true, s).

(* accept_expression / accept_term / accept_terminal (mutually recursive in Python: fuel) *)
Fixpoint accept_expression (fuel : nat) (s : sc) {struct fuel} : res sc :=
  match fuel with
  | O => OutOfFuel
  | S fuel' =>
      let* s := skip_trivia s in
      let* s := (if peek_is 124 s then skip_trivia (emit_next K_CHOICE_OP s) else Ok s) in
      let* s := accept_term fuel' s in
      accept_expression_loop fuel' s
  end
with accept_expression_loop (fuel : nat) (s : sc) {struct fuel} : res sc :=
  match fuel with
  | O => OutOfFuel
  | S fuel' =>
      let* s := skip_trivia s in
      if peek_is 126 s then
        let* s := skip_trivia (emit_next K_SEQUENCE_OP s) in
        let* s := accept_term fuel' s in
        accept_expression_loop fuel' s
      else if peek_is 124 s then
        let* s := skip_trivia (emit_next K_CHOICE_OP s) in
        let* s := accept_term fuel' s in
        accept_expression_loop fuel' s
      else Ok s
  end
with accept_term (fuel : nat) (s : sc) {struct fuel} : res sc :=
  match fuel with
  | O => OutOfFuel
  | S fuel' =>
      let* '(v, s) := scan re_tag s in
      let* s := match v with
                | Some value =>
                    let s := emit K_TAG value s in
                    let* s := skip_trivia s in
                    let* s := expect 61 K_ASSIGN_OP s in
                    skip_trivia s
                | None => Ok s
                end in
      let* s := prefix_loop (S (rem s)) s in
      let* '(b, s) := accept_terminal fuel' s in
      if b then accept_postfix_op s
      else
        let* s := expect 40 K_LPAREN s in
        let* s := skip_trivia s in
        let* s := accept_expression fuel' s in
        let* s := skip_trivia s in
        let* s := expect 41 K_RPAREN s in
        accept_postfix_op s
  end
with accept_terminal (fuel : nat) (s : sc) {struct fuel} : res (bool * sc) :=
  match fuel with
  | O => OutOfFuel
  | S fuel' =>
      let* '(b, s) := scan_emit re_push_literal K_PUSH_LITERAL s in
      if b then
        let* s := skip_trivia s in
        let* s := expect 40 K_LPAREN s in
        let* s := skip_trivia s in
        let* '(_, s) := accept_string s in
        let* s := skip_trivia s in
        let* s := expect 41 K_RPAREN s in
        Ok (true, s)
      else
      let* '(b, s) := scan_emit re_push K_PUSH s in
      if b then
        let* s := skip_trivia s in
        let* s := expect 40 K_LPAREN s in
        let* s := skip_trivia s in
        let* s := accept_expression fuel' s in
        let* s := skip_trivia s in
        let* s := expect 41 K_RPAREN s in
        Ok (true, s)
      else
      let* '(b, s) := scan_emit re_peek_all K_PEEK_ALL s in
      if b then Ok (true, s) else
      let* '(b, s) := scan_emit re_pop_all K_POP_ALL s in
      if b then Ok (true, s) else
      let* '(b, s) := scan_emit re_pop K_POP s in
      if b then Ok (true, s) else
      let* '(b, s) := scan_emit re_drop K_DROP s in
      if b then Ok (true, s) else
      let* '(b, s) := scan_emit re_peek K_PEEK s in
      if b then accept_peek_tail s else
      let* '(b, s) := scan_emit re_identifier K_IDENTIFIER s in
      if b then Ok (true, s) else
      let* '(b, s) := accept_string s in
      if b then Ok (true, s) else
      let* '(b, s) := accept_ci_string s in
      if b then Ok (true, s) else
      let* '(b, s) := scan_emit re_char K_CHAR s in
      if b then accept_range_tail s else
      Ok (false, s)
  end.

(* fuel for the mutually recursive group: 3 * remaining + 3 (see FrontProof.v) *)
Definition expr_fuel (s : sc) : nat := (3 * rem s + 3)%nat.

(* scan_grammar_doc_inner / scan_rule_doc_inner (identical but for the next state) *)
Definition scan_doc_inner (s : sc) : sc :=
  let s := if is_some_eq (peek s) 32 || is_some_eq (peek s) 9
           then let s := snd (next s) in set_start s (sc_pos s)
           else s in
  let '(value, s) :=
    match scan_until_newline s with
    | (Some value, s) => (value, s)
    | (None, s) =>                                  (* the last line, without a line break *)
        let s := set_pos s (mkcur (sc_len s) []) in (suf (sc_start s), s)
    end in
  emit K_COMMENT_TEXT value s.

Inductive statefn := S_grammar | S_grammar_doc_inner | S_grammar_rule | S_rule_doc_inner.

Definition scan_grammar (s : sc) : res (option statefn * sc) :=
  let* s := skip_trivia s in
  let* '(b, s) := scan_emit re_grammar_doc K_GRAMMAR_DOC s in
  if b then Ok (Some S_grammar_doc_inner, s) else Ok (Some S_grammar_rule, s).

Definition scan_grammar_rule (s : sc) : res (option statefn * sc) :=
  let* s := skip_trivia s in
  let* '(b, s) := scan_emit re_rule_doc K_RULE_DOC s in
  if b then Ok (Some S_rule_doc_inner, s) else
  let* s := skip_trivia s in
  match strip_prefix [80;85;83;72] (suf (sc_pos s)) with       (* grammar.startswith("PUSH", pos) *)
  | Some _ => error s
  | None =>
      let* '(b, s) := scan_emit re_identifier K_IDENTIFIER s in
      if negb b then
        if Nat.eqb (ix (sc_pos s)) (sc_len s) then Ok (None, s) else error s
      else
        let* s := skip_trivia s in
        let* s := expect 61 K_ASSIGN_OP s in
        let* s := skip_trivia s in
        let* '(b, s) := scan_emit re_modifier K_MODIFIER s in
        let* s := (if b then skip_trivia s else Ok s) in
        let* s := expect 123 K_LBRACE s in
        let* s := accept_expression (expr_fuel s) s in
        let* s := expect 125 K_RBRACE s in
        Ok (Some S_grammar_rule, s)
  end.

Definition run_state (st : statefn) (s : sc) : res (option statefn * sc) :=
  match st with
  | S_grammar => scan_grammar s
  | S_grammar_doc_inner => Ok (Some S_grammar, scan_doc_inner s)
  | S_grammar_rule => scan_grammar_rule s
  | S_rule_doc_inner => Ok (Some S_grammar_rule, scan_doc_inner s)
  end.

(* Scanner.__init__: `while state is not None: state = state()` *)
Fixpoint scanner_loop (fuel : nat) (st : statefn) (s : sc) : res sc :=
  match fuel with
  | O => OutOfFuel
  | S fuel' =>
      let* '(st', s) := run_state st s in
      match st' with Some st' => scanner_loop fuel' st' s | None => Ok s end
  end.

(* tokenize *)
Definition tokenize (grammar : text) : res (list token) :=
  let c0 := mkcur O grammar in
  let s0 := mksc [] c0 c0 (length grammar) in
  let* s := scanner_loop (2 * length grammar + 4) S_grammar s0 in
  Ok (rev (sc_rtokens s)).

(* ------------------------------------------------------------------ *)
(** * parser.py — Parser *)

Definition MAX_NUMBER : Z := 4294967295.   (* 0xFFFFFFFF *)
Definition PRECEDENCE_LOWEST : N := 1.
Definition PRECEDENCE_CHOICE : N := 2.
Definition PRECEDENCE_SEQUENCE : N := 3.
Definition PRECEDENCE_PREFIX : N := 4.
(* PRECEDENCES.get(kind, PRECEDENCE_LOWEST) *)
Definition precedence_of (k : kind) : N :=
  match k with K_CHOICE_OP => PRECEDENCE_CHOICE | K_SEQUENCE_OP => PRECEDENCE_SEQUENCE
          | _ => PRECEDENCE_LOWEST end.
Definition is_infix (k : kind) : bool :=
  match k with K_CHOICE_OP | K_SEQUENCE_OP => true | _ => false end.

(* MODIFIER_MAP.get(value, 0) : "_" 2, "@" 4, "$" 8, "!" 16 *)
Definition modifier_map_get (v : text) : N :=
  if text_eqb v [95] then 2 else if text_eqb v [64] then 4
  else if text_eqb v [36] then 8 else if text_eqb v [33] then 16 else 0.

(* dict *)
Fixpoint lookup {A} (name : text) (d : list (text * A)) : option A :=
  match d with
  | [] => None
  | (k, v) :: d' => if text_eqb k name then Some v else lookup name d'
  end.
(* d[name] = v : an existing key keeps its position *)
Fixpoint dict_set {A} (name : text) (v : A) (d : list (text * A)) : list (text * A) :=
  match d with
  | [] => [(name, v)]
  | (k, w) :: d' => if text_eqb k name then (k, v) :: d' else (k, w) :: dict_set name v d'
  end.

Section PARSER.
  Variable eof : token.                     (* Token(EOI, "", len(grammar), grammar) *)
  Variable builtins : list (text * text).   (* name -> Rule (only its name is observable here) *)

  Definition current (ts : list token) : token := match ts with t :: _ => t | [] => eof end.
  Definition pnext (ts : list token) : token * list token :=
    match ts with t :: r => (t, r) | [] => (eof, []) end.
  Definition cur_kind_is (ts : list token) (k : kind) : bool := kind_eqb (tk_kind (current ts)) k.

  Definition eat (k : kind) (ts : list token) : res (token * list token) :=
    let '(t, ts) := pnext ts in
    if negb (kind_eqb (tk_kind t) k) then Syn (tk_start t) else Ok (t, ts).

  (* _int: int() failing (ValueError) and abs(value) > MAX_NUMBER raise the same syntax error *)
  Definition token_int (t : token) : res Z :=
    match py_int (tk_value t) with
    | Some value => if Z.ltb MAX_NUMBER (Z.abs value) then Syn (tk_start t) else Ok value
    | None => Syn (tk_start t)
    end.

  (* parse_repeat_expression *)
  Definition parse_repeat_expression (expr : pexpr) (ts : list token) : res (pexpr * list token) :=
    let '(t, ts) := pnext ts in
    if kind_eqb (tk_kind t) K_NUMBER then
      let number := t in
      if cur_kind_is ts K_RBRACE then
        let ts := tl ts in
        let* n := token_int number in Ok (PRepN expr n, ts)
      else
        let* '(_, ts) := eat K_COMMA ts in
        if cur_kind_is ts K_RBRACE then
          let ts := tl ts in
          let* n := token_int number in Ok (PRepMin expr n, ts)
        else
          let* '(stop, ts) := eat K_NUMBER ts in
          let* '(_, ts) := eat K_RBRACE ts in
          let* m := token_int number in
          let* n := token_int stop in
          Ok (PRepMinMax expr m n, ts)
    else if kind_eqb (tk_kind t) K_COMMA then
      let* '(number, ts) := eat K_NUMBER ts in
      let* '(_, ts) := eat K_RBRACE ts in
      let* n := token_int number in
      Ok (PRepMax expr n, ts)
    else Syn (tk_start t).

  (* parse_postfix_expression: None = `return expr` (the caller tests `postfixed is left`) *)
  Definition parse_postfix_expression (expr : pexpr) (ts : list token)
    : res (option pexpr * list token) :=
    let k := tk_kind (current ts) in
    if kind_eqb k K_OPTION_OP then Ok (Some (POpt expr), tl ts)
    else if kind_eqb k K_REPEAT_OP then Ok (Some (PStar expr), tl ts)
    else if kind_eqb k K_REPEAT_ONCE_OP then Ok (Some (PPlus expr), tl ts)
    else if kind_eqb k K_LBRACE then
      let* '(e, ts) := parse_repeat_expression expr (tl ts) in Ok (Some e, ts)
    else Ok (None, ts).

  (* `while True: postfixed = self.parse_postfix_expression(left_) ...` *)
  Fixpoint postfix_loop (fuel : nat) (left_ : pexpr) (ts : list token) : res (pexpr * list token) :=
    match fuel with
    | O => OutOfFuel
    | S fuel' =>
        let* '(postfixed, ts) := parse_postfix_expression left_ ts in
        match postfixed with
        | None => Ok (left_, ts)
        | Some e => postfix_loop fuel' e ts
        end
    end.

  (* parse_peek_expression; PeekSlice.__init__ does int(str(n)) = n (str/int round trip, not modelled) *)
  Definition parse_peek_expression (tag : option text) (ts : list token) : res (pexpr * list token) :=
    if negb (cur_kind_is ts K_LBRACKET) then Ok (PPeek tag, ts)
    else
      let* '(_, ts) := eat K_LBRACKET ts in
      let* '(start, ts) :=
        (if cur_kind_is ts K_INTEGER then
           let '(t, ts) := pnext ts in let* z := token_int t in Ok (Some z, ts)
         else Ok (None, ts)) in
      let* '(_, ts) := eat K_RANGE_OP ts in
      let* '(stop, ts) :=
        (if cur_kind_is ts K_INTEGER then
           let '(t, ts) := pnext ts in let* z := token_int t in Ok (Some z, ts)
         else Ok (None, ts)) in
      let* '(_, ts) := eat K_RBRACKET ts in
      Ok (PPeekSl start stop tag, ts).

  (* parse_expression / parse_infix_expression (mutually recursive in Python: fuel; the `while`
     loops of parse_expression and parse_infix_expression are infix_loop and infix_run) *)
  Fixpoint parse_expression (fuel : nat) (precedence : N) (ts : list token) {struct fuel}
    : res (pexpr * list token) :=
    match fuel with
    | O => OutOfFuel
    | S fuel' =>
        let ts := if cur_kind_is ts K_CHOICE_OP then snd (pnext ts) else ts in
        let* '(tag, ts) :=
          (if cur_kind_is ts K_TAG then
             let '(t, ts) := pnext ts in
             let* '(_, ts) := eat K_ASSIGN_OP ts in
             Ok (Some (tl (tk_value t)), ts)
           else Ok (None, ts)) in
        let token := current ts in
        let left_kind := tk_kind token in
        let* '(left_, ts) :=
          (if kind_eqb left_kind K_STRING then Ok (PStr (tk_value (fst (pnext ts))), snd (pnext ts))
           else if kind_eqb left_kind K_STRING_CI then
             Ok (PCIStr (tk_value (fst (pnext ts))), snd (pnext ts))
           else if kind_eqb left_kind K_LPAREN then
             let* '(e, ts) := parse_expression fuel' PRECEDENCE_LOWEST (tl ts) in
             let* '(_, ts) := eat K_RPAREN ts in
             Ok (PGrp e tag, ts)
           else if kind_eqb left_kind K_IDENTIFIER then
             let '(t, ts) := pnext ts in
             let name := tk_value t in
             if negb (text_eqb name [69;79;73])
                && match lookup name builtins with Some _ => true | None => false end then
               match lookup name builtins with
               | Some rule_name => Ok (PRef rule_name None, ts)     (* the built-in Rule object *)
               | None => Crash C_KEY
               end
             else Ok (PRef name tag, ts)
           else if kind_eqb left_kind K_PUSH_LITERAL then
             let* '(_, ts) := eat K_LPAREN (tl ts) in
             let* '(t, ts) := eat K_STRING ts in
             let* '(_, ts) := eat K_RPAREN ts in
             Ok (PPushLit (tk_value t) tag, ts)
           else if kind_eqb left_kind K_PUSH then
             let* '(_, ts) := eat K_LPAREN (tl ts) in
             let* '(e, ts) := parse_expression fuel' PRECEDENCE_LOWEST ts in
             let* '(_, ts) := eat K_RPAREN ts in
             Ok (PPush e tag, ts)
           else if kind_eqb left_kind K_PEEK then parse_peek_expression tag (tl ts)
           else if kind_eqb left_kind K_PEEK_ALL then Ok (PPeekAll tag, tl ts)
           else if kind_eqb left_kind K_POP then Ok (PPop tag, tl ts)
           else if kind_eqb left_kind K_DROP then Ok (PDrop tag, tl ts)
           else if kind_eqb left_kind K_POP_ALL then Ok (PPopAll tag, tl ts)
           else if kind_eqb left_kind K_CHAR then
             let* '(t, ts) := eat K_CHAR ts in
             let* start := unescape_string (slice_1_m1 (tk_value t)) (tk_start token) in
             let* '(_, ts) := eat K_RANGE_OP ts in
             let* '(stop_token, ts) := eat K_CHAR ts in
             let* stop := unescape_string (slice_1_m1 (tk_value stop_token)) (tk_start token) in
             Ok (PRange start stop tag, ts)
           else if kind_eqb left_kind K_POSITIVE_PREDICATE then
             let* '(e, ts) := parse_expression fuel' PRECEDENCE_PREFIX (tl ts) in
             Ok (PAnd e tag, ts)
           else if kind_eqb left_kind K_NEGATIVE_PREDICATE then
             let* '(e, ts) := parse_expression fuel' PRECEDENCE_PREFIX (tl ts) in
             Ok (PNot e tag, ts)
           else Syn (tk_start token)) in
        let* '(left_, ts) := postfix_loop (S (length ts)) left_ ts in
        infix_loop fuel' precedence left_ ts
    end
  with infix_loop (fuel : nat) (precedence : N) (left_ : pexpr) (ts : list token) {struct fuel}
    : res (pexpr * list token) :=
    match fuel with
    | O => OutOfFuel
    | S fuel' =>
        let k := tk_kind (current ts) in
        if kind_eqb k K_EOI || (precedence_of k <? precedence) || negb (is_infix k) then Ok (left_, ts)
        else
          let* '(left_, ts) := parse_infix_expression fuel' left_ ts in
          infix_loop fuel' precedence left_ ts
    end
  with parse_infix_expression (fuel : nat) (left_ : pexpr) (ts : list token) {struct fuel}
    : res (pexpr * list token) :=
    match fuel with
    | O => OutOfFuel
    | S fuel' =>
        let token := current ts in
        let k := tk_kind token in
        let precedence := precedence_of k in
        if negb (is_infix k) then Syn (tk_start token)       (* self.pos += 1; raise *)
        else
          let* '(operands, ts) := infix_run fuel' k (precedence + 1) [left_] ts in
          if kind_eqb k K_CHOICE_OP then Ok (PAlt operands, ts) else Ok (PSeq operands, ts)
    end
  (* `while self.current().kind == kind: self.pos += 1; operands.append(self.parse_expression(..))`
     (`operands` is kept in reverse) *)
  with infix_run (fuel : nat) (k : kind) (precedence : N) (roperands : list pexpr) (ts : list token)
    {struct fuel} : res (list pexpr * list token) :=
    match fuel with
    | O => OutOfFuel
    | S fuel' =>
        if cur_kind_is ts k then
          let* '(e, ts) := parse_expression fuel' precedence (tl ts) in
          infix_run fuel' k precedence (e :: roperands) ts
        else Ok (rev roperands, ts)
    end.

  Definition pexpr_fuel (ts : list token) : nat := (4 * length ts + 4)%nat.

  (* parse_modifier *)
  Definition parse_modifier (ts : list token) : N * list token :=
    if cur_kind_is ts K_MODIFIER then
      let '(t, ts) := pnext ts in (modifier_map_get (tk_value t), ts)
    else (0, ts).

  (* `while self.current().kind == DOC: self.pos += 1; doc.append(self.eat(COMMENT_TEXT).value)` *)
  Fixpoint doc_loop (fuel : nat) (k : kind) (rdoc : list text) (ts : list token)
    : res (list text * list token) :=
    match fuel with
    | O => OutOfFuel
    | S fuel' =>
        if cur_kind_is ts k then
          let* '(t, ts) := eat K_COMMENT_TEXT (tl ts) in
          doc_loop fuel' k (tk_value t :: rdoc) ts
        else Ok (rev rdoc, ts)
    end.

  (* parse_rules *)
  Fixpoint parse_rules_loop (fuel : nat) (rules : list (text * prule)) (ts : list token)
    : res (list (text * prule)) :=
    match fuel with
    | O => OutOfFuel
    | S fuel' =>
        if cur_kind_is ts K_EOI then Ok rules
        else
          let* '(rule_doc, ts) := doc_loop (S (length ts)) K_RULE_DOC [] ts in
          if cur_kind_is ts K_EOI then Ok rules
          else
            let* '(identifier, ts) := eat K_IDENTIFIER ts in
            let* '(_, ts) := eat K_ASSIGN_OP ts in
            let '(modifier, ts) := parse_modifier ts in
            let* '(_, ts) := eat K_LBRACE ts in
            let* '(expression, ts) := parse_expression (pexpr_fuel ts) PRECEDENCE_LOWEST ts in
            let* '(_, ts) := eat K_RBRACE ts in
            let name := tk_value identifier in
            parse_rules_loop fuel'
              (dict_set name (mkprule name modifier expression rule_doc) rules) ts
    end.

  (* parse *)
  Definition parse (ts : list token) : res (list (text * prule)) :=
    let* '(_, ts) := doc_loop (S (length ts)) K_GRAMMAR_DOC [] ts in
    parse_rules_loop (S (length ts)) [] ts.
End PARSER.

(* ------------------------------------------------------------------ *)
(** * pest/parser.py — Parser.from_grammar(grammar, optimizer=None) *)

(* Parser.BUILTIN: name -> Rule; BUILTIN[k].name == k (checked by gen_builtins.py) *)
Definition BUILTIN : list (text * text) := map (fun n => (n, n)) builtin_names.

(* Parser.__init__: self.rules = {**self.BUILTIN, **rules}; the model returns the GrammarRule values
   of that dict, in dict order: a user rule named like a built-in takes the built-in's position. *)
Definition merge_rules (rules : list (text * prule)) : list prule :=
  flat_map (fun b => match lookup (fst b) rules with Some r => [r] | None => [] end) BUILTIN
  ++ map snd (filter (fun kr => match lookup (fst kr) BUILTIN with Some _ => false | None => true end)
                     rules).

(* grammar.parse + Parser.from_grammar. There is NO validation after parsing with optimizer=None
   (the TODO lists in parser.py are not implemented): duplicate rules overwrite, undefined
   identifiers and reversed ranges are accepted. *)
Definition front (grammar : text) : fres :=
  match (let* tokens := tokenize grammar in
         parse (mktoken K_EOI [] (length grammar)) BUILTIN tokens) with
  | Ok rules => FOk (merge_rules rules)
  | Syn p => FSyntax p
  | Crash k => FCrash k
  | OutOfFuel => FFuel
  end.
