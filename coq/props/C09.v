(* C09 — snapshotting stack, counter and parser state act like full-copy snapshots
   (statements; proofs in SnapStackProof.v). *)
From Coq Require Import List Arith ZArith.
Import ListNotations.
From PP Require Import SnapStack SnapStackProof.

(* for EVERY finite history of push, pop, clear, snapshot, restore and drop-snapshot the
   contents of the delta-encoded stack equal those of the reference that stores full copies *)
Theorem C09_stack_refines : forall (A : Type) (ops : list (op A)),
  items (fold_left (sstep A) ops (sinit A)) = cur (fold_left (rstep A) ops (rinit A)).
Proof. exact stack_refines. Qed.

(* stronger: the whole reference state, including every saved copy (innermost first), is
   recovered from items/popped/lengths after every history, and the representation invariant
   holds — so restore returns exactly the contents at the matching snapshot, dropping a
   snapshot changes nothing visible and leaves every outer snapshot exactly restorable *)
Theorem C09_history_refines : forall (A : Type) (ops : list (op A)) (s : sstack A), SInv A s ->
  SInv A (fold_left (sstep A) ops s) /\
  abs A (fold_left (sstep A) ops s) = fold_left (rstep A) ops (abs A s).
Proof. exact history_ref. Qed.

Theorem C09_restore_exact : forall (A : Type) (s : sstack A), SInv A s ->
  abs A (srestore A s) = rrestore A (abs A s).
Proof. intros A s H. exact (proj2 (restore_ref A s H)). Qed.
Theorem C09_drop_invisible : forall (A : Type) (s : sstack A), SInv A s ->
  abs A (sdrop A s) = rdrop A (abs A s).
Proof. intros A s H. exact (proj2 (drop_ref A s H)). Qed.
Theorem C09_restore_without_snapshot_empties : forall (A : Type) (s : sstack A),
  lens s = [] -> items (srestore A s) = [].
Proof. intros A s H. unfold srestore. rewrite H. reflexivity. Qed.

(* the snapshotting counter stores full copies: restore undoes everything since the snapshot *)
Theorem C09_int_refines : forall (s : sint) (ks : list Z),
  istep (fold_left istep (map IAdd ks) (istep s ISnap)) IRestore = s.
Proof.
  intros s ks. assert (H : forall t, icps (fold_left istep (map IAdd ks) t) = icps t).
  { induction ks as [|k ks IH]; intros t; [reflexivity|]. cbn. rewrite IH. reflexivity. }
  unfold istep at 1. rewrite H. cbn. destruct s; reflexivity.
Qed.
Theorem C09_int_restore_without_snapshot : forall v, ival (istep {| ival := v; icps := [] |} IRestore) = 0%Z.
Proof. reflexivity. Qed.

(* ParserState.checkpoint/ok/restore apply the same operation to all components together *)
Theorem C09_state_refines : forall (A B : Type) (p : pstate A B),
  SInv A (p_user p) -> SInv B (p_rules p) ->
  (abs A (p_user (pcheckpoint A B p)) = rsnap A (abs A (p_user p)) /\
   abs B (p_rules (pcheckpoint A B p)) = rsnap B (abs B (p_rules p)) /\
   p_depth (pcheckpoint A B p) = istep (p_depth p) ISnap /\
   p_poshist (pcheckpoint A B p) = p_pos p :: p_poshist p /\
   p_taghist (pcheckpoint A B p) = p_tags p :: p_taghist p) /\
  (abs A (p_user (pok A B p)) = rdrop A (abs A (p_user p)) /\
   abs B (p_rules (pok A B p)) = rdrop B (abs B (p_rules p)) /\
   p_depth (pok A B p) = istep (p_depth p) IDrop /\ p_pos (pok A B p) = p_pos p /\
   p_tags (pok A B p) = p_tags p) /\
  (abs A (p_user (prestore A B p)) = rrestore A (abs A (p_user p)) /\
   abs B (p_rules (prestore A B p)) = rrestore B (abs B (p_rules p)) /\
   p_depth (prestore A B p) = istep (p_depth p) IRestore /\
   p_pos (prestore A B p) = hd (p_pos p) (p_poshist p) /\
   p_tags (prestore A B p) = hd (p_tags p) (p_taghist p)).
Proof.
  intros A B p HA HB. repeat split.
  - exact (proj2 (snap_ref A _ HA)).
  - exact (proj2 (snap_ref B _ HB)).
  - exact (proj2 (drop_ref A _ HA)).
  - exact (proj2 (drop_ref B _ HB)).
  - exact (proj2 (restore_ref A _ HA)).
  - exact (proj2 (restore_ref B _ HB)).
Qed.

(* non-vacuity: the history that broke the original implementation *)
Example c09_history :
  rev (items (fold_left (sstep nat) [OPush 1; OSnap; OSnap; OPop; ODrop; ORestore]
                        (sinit nat))) = [1].
Proof. reflexivity. Qed.

Print Assumptions C09_stack_refines.
Print Assumptions C09_history_refines.
Print Assumptions C09_restore_exact.
Print Assumptions C09_drop_invisible.
Print Assumptions C09_restore_without_snapshot_empties.
Print Assumptions C09_int_refines.
Print Assumptions C09_int_restore_without_snapshot.
Print Assumptions C09_state_refines.
