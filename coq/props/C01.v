(* C01 — the generated parser module is observationally identical to the interpreter.
   Models: Interp.v (the interpreter: every parse() method and ParserState operation) and Gen.v
   (the generated code: the statements every generate() template emits, generate_parse_trivia,
   the in-place emission of built-in rules). Both are tied to the code on every run: mode I =
   Interp.iparse and mode IG = Gen.gparse exactly (tree, furthest-failure position, expected and
   unexpected sets) on every generated case.
   Statements; proofs in GenProof.v (lockstep simulation Gen ~ Interp, simulation inl ~ [],
   InterpProof.iparse_refines), no axioms.
   Side conditions, both enforced by the harness's exporter on every grammar it runs:
   - a silent rule is not `$` or `!` (one modifier per rule in grammar text; necessity:
     InterpProof.silent_compound_differs);
   - the rules emitted in place (`inl`: built-in rules other than EOI) are silent, carry no
     atomicity modifier and are not WHITESPACE/COMMENT. *)
From Coq Require Import List NArith ZArith.
Import ListNotations.
From PP Require Import Base Syntax Spec SpecMono SpecLaws SpecWf Interp InterpProof Gen GenProof SpecCert.

Definition one_modifier (g : grammar) : Prop :=
  forall n r, lookup g n = Some r -> r_silent r = true -> r_kind r = KNormal \/ r_kind r = KAtomic.

Lemma one_modifier_silent_ok g : one_modifier g ->
  forall n r, lookup g n = Some r -> r_silent r = true -> silent_ok g r.
Proof.
  intros NS n r L S. destruct (NS n r L S) as [K|K].
  - right; left; exact K.
  - left; unfold hides; rewrite K; reflexivity.
Qed.

(* THE PROPERTY: whenever the interpreter and the generated code both finish on the same grammar,
   start rule, input and start position, they return the same tree (names, spans, nesting, tags),
   at the same final position and with the same stack, or both fail with the same furthest-failure
   position, or both report the undefined rule; neither ever reaches an inconsistent state
   (IndexError on an empty checkpoint / rule stack), and no other combination is possible. *)
Theorem C01_generated_equals_interpreter : forall g inl, one_modifier g -> inl_ok g inl ->
  forall f1 f2 rule input k, inlined inl rule = false ->
    match iparse g f1 rule input k, gparse g inl f2 rule input k with
    | IOk true s1 p1, GOk true s2 p2 =>
        p1 = p2 /\ i_pos s1 = i_pos s2 /\ i_user s1 = i_user s2 /\ t_pos (i_trk s1) = t_pos (i_trk s2)
    | IOk false s1 _, GOk false s2 _ => t_pos (i_trk s1) = t_pos (i_trk s2)
    | IUndef, GUndef => True
    | IFuel, _ | _, GFuel => True
    | ICrash, _ | _, GCrash => False
    | _, _ => False
    end.
Proof.
  intros g inl NS HI. apply generated_equals_interpreter; [apply one_modifier_silent_ok; exact NS|exact HI].
Qed.

(* ... and they finish together: if the reference semantics has a result, so have both machines
   (with enough of Python's stack, which the model does not bound) *)
Theorem C01_both_terminate : forall g inl, one_modifier g -> inl_ok g inl ->
  forall f rule input k r, inlined inl rule = false ->
  parse g f rule input k = r -> r <> Fuel ->
  (exists f', iparse g f' rule input k <> IFuel) /\ (exists f', gparse g inl f' rule input k <> GFuel).
Proof.
  intros g inl NS HI f rule input k r HR P D. split.
  - eapply iparse_terminates; [apply one_modifier_silent_ok; exact NS|exact P|exact D].
  - eapply gparse_terminates; [apply one_modifier_silent_ok; exact NS|exact HI|exact HR|exact P|exact D].
Qed.

(* for every grammar the well-formedness certificate accepts, on every input *)
Theorem C01_wellformed_grammars_total : forall g inl, one_modifier g -> inl_ok g inl -> wf_auto g = true ->
  forall rule input k, inlined inl rule = false ->
  (exists f', iparse g f' rule input k <> IFuel) /\ (exists f', gparse g inl f' rule input k <> GFuel).
Proof.
  intros g inl NS HI W rule input k HR.
  destruct (wf_auto_terminates g W rule input k) as [f D].
  eapply C01_both_terminate; try eassumption. reflexivity.
Qed.

(* the generated code itself refines the reference semantics (hence every theorem of C03-C08, C13,
   C16 about `parse` holds of what the generated code returns), and releases every checkpoint *)
Theorem C01_generated_refines_semantics : forall g, one_modifier g ->
  forall f rule input k,
    match gparse g [] f rule input k with
    | GOk true s' ps  => (exists f', parse g f' rule input k = Ok (abs_st s') ps)
                         /\ i_saved s' = [] /\ i_dcps s' = [] /\ i_rules s' = [] /\ i_depth s' = 0
    | GOk false s' _  => (exists f', parse g f' rule input k = Fail (i_trk s'))
                         /\ i_saved s' = [] /\ i_dcps s' = [] /\ i_rules s' = []
    | GUndef          => exists f', parse g f' rule input k = Err
    | GCrash          => False
    | GFuel           => True
    end.
Proof. intros g NS. apply gparse_refines. apply one_modifier_silent_ok. exact NS. Qed.

(* emitting built-in rules in place changes only the names in the failure record *)
Theorem C01_inlining_changes_names_only : forall g inl, inl_ok g inl ->
  forall f rule input k, inlined inl rule = false ->
    match gparse g inl f rule input k, gparse g [] f rule input k with
    | GOk m1 s1 p1, GOk m2 s2 p2 =>
        m1 = m2 /\ p1 = p2 /\ i_pos s1 = i_pos s2 /\ i_rest s1 = i_rest s2 /\ i_user s1 = i_user s2 /\
        i_tags s1 = i_tags s2 /\ i_depth s1 = i_depth s2 /\ i_dcps s1 = i_dcps s2 /\ i_neg s1 = i_neg s2 /\
        i_sup s1 = i_sup s2 /\ t_pos (i_trk s1) = t_pos (i_trk s2) /\ i_rules s1 = [] /\ i_saved s1 = []
    | GCrash, GCrash => True | GUndef, GUndef => True | GFuel, GFuel => True | _, _ => False
    end.
Proof. exact gparse_inl. Qed.

(* the observation compared by the check is a function of (grammar, rule, input, position) *)
Definition obs (r : res) : option (list pair) * Z :=
  match r with
  | Ok _ tree => (Some tree, 0%Z)
  | Fail t => (None, t_pos t)
  | _ => (None, (-2)%Z)
  end.

Theorem C01_observation_is_a_function : forall g f1 f2 rule input k,
  parse g f1 rule input k <> Fuel -> parse g f2 rule input k <> Fuel ->
  obs (parse g f1 rule input k) = obs (parse g f2 rule input k).
Proof.
  intros g f1 f2 rule input k D1 D2.
  assert (A := parse_mono g f1 (max f1 f2) rule input k _ eq_refl D1 (Nat.le_max_l _ _)).
  assert (B := parse_mono g f2 (max f1 f2) rule input k _ eq_refl D2 (Nat.le_max_r _ _)).
  congruence.
Qed.

(* non-vacuity: a grammar with a silent rule, a built-in emitted in place, trivia and a stack
   operation satisfies the side conditions and both machines accept "a 1" with the same tree *)
Definition g_ex : grammar :=
  [{| r_name := 10; r_silent := false; r_kind := KNormal;
      r_body := ESeq [EPush (EStr [97%N]); ERef 11 None; EPeek] |};
   {| r_name := 11; r_silent := true; r_kind := KNormal; r_body := ERef 12 None |};
   {| r_name := 12; r_silent := true; r_kind := KNormal; r_body := ERange 48 57 |};
   {| r_name := 0; r_silent := true; r_kind := KNormal; r_body := EStr [32%N] |}].
Example g_ex_conditions : one_modifier g_ex /\ inl_ok g_ex [12%N].
Proof.
  split.
  - intros n r L _. unfold g_ex in L. cbn in L.
    repeat match type of L with (if ?b then _ else _) = _ => destruct b end;
      try discriminate; inversion L; subst; left; reflexivity.
  - intros n r L I. unfold inlined in I. cbn in I. rewrite Bool.orb_false_r in I.
    apply N.eqb_eq in I. subst n. cbn in L. inversion L; subst. repeat split; reflexivity.
Qed.
Example g_ex_runs :
  (match iparse g_ex 40 10 [97; 32; 49; 32; 97]%N 0 with IOk true _ ps => Some ps | _ => None end)
  = Some [Pair 10 0 5 [] None] /\
  (match gparse g_ex [12%N] 40 10 [97; 32; 49; 32; 97]%N 0 with GOk true _ ps => Some ps | _ => None end)
  = Some [Pair 10 0 5 [] None].
Proof. split; vm_compute; reflexivity. Qed.

Print Assumptions C01_generated_equals_interpreter.
Print Assumptions C01_both_terminate.
Print Assumptions C01_wellformed_grammars_total.
Print Assumptions C01_generated_refines_semantics.
Print Assumptions C01_inlining_changes_names_only.
Print Assumptions C01_observation_is_a_function.
