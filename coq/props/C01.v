(* C01 — generated parser module is observationally identical to the interpreter.
   INTERIM: both execution modes are tied, on every run, to ONE reference semantics
   (`parse` of Spec.v) by differential execution over the template-complete space G1, and
   directly to each other; the theorems here state that the observation compared (tree, or
   furthest-failure position) is a function of (grammar, rule, input, start position) alone
   and does not depend on fuel, so "both equal the reference" implies "equal to each other".
   A statement-level model of the code templates (Gen.v) with a refinement proof is the
   planned strengthening. *)
From Coq Require Import List NArith ZArith.
Import ListNotations.
From PP Require Import Base Syntax Spec SpecMono SpecLaws SpecWf.

Definition obs (r : res) : option (list pair) * Z :=
  match r with
  | Ok _ tree => (Some tree, 0%Z)
  | Fail t => (None, t_pos t)
  | _ => (None, (-2)%Z)
  end.

Theorem C01_observation_is_a_function : forall g f1 f2 rule input k,
  parse g f1 rule input k <> Fuel -> parse g f2 rule input k <> Fuel ->
  obs (parse g f1 rule input k) = obs (parse g f2 rule input k).
Proof.
  intros g f1 f2 rule input k D1 D2.
  assert (A := parse_mono g f1 (max f1 f2) rule input k _ eq_refl D1 (Nat.le_max_l _ _)).
  assert (B := parse_mono g f2 (max f1 f2) rule input k _ eq_refl D2 (Nat.le_max_r _ _)).
  congruence.
Qed.

(* what both modes return is a well-formed tree or a position inside the input *)
Theorem C01_observation_wellformed : forall g input k f rule, k <= length input ->
  res_ok g input k (st0 input k) (parse g f rule input k).
Proof. intros. apply parse_sound. assumption. Qed.

Print Assumptions C01_observation_is_a_function.
Print Assumptions C01_observation_wellformed.
