(* C06 — every returned parse tree is well-formed (statements only; proofs are in SpecWf.v and
   PairsApi.v). `parse g f rule input k` is the reference semantics the four execution modes
   are tied to by the correspondence check. *)
From Coq Require Import List NArith ZArith.
Import ListNotations.
From PP Require Import Base Syntax Spec SpecWf PairsApi.

(* spans inside [k, len(input)], children ordered, non-overlapping and nested, every pair
   name a non-silent rule of the grammar; the final position is inside the input *)
Theorem C06_tree_wellformed : forall g input k f rule s' tree,
  k <= length input ->
  parse g f rule input k = Ok s' tree ->
  chain (PN g) (N.of_nat k) (s_pos s') tree /\ N.to_nat (s_pos s') <= length input.
Proof.
  intros g input k f rule s' tree Hk H.
  pose proof (parse_sound g input k f rule Hk) as S. rewrite H in S.
  destruct S as [[[_ [_ Hp]] _] [_ C]]. split; [exact C|exact Hp].
Qed.

(* a non-silent start rule yields exactly one root pair, starting at start_pos *)
Theorem C06_single_root : forall g input k f rule r s' tree,
  lookup g rule = Some r -> r_silent r = false ->
  parse g f rule input k = Ok s' tree ->
  exists kids tag, tree = [Pair rule (N.of_nat k) (s_pos s') kids tag].
Proof. exact parse_single_root. Qed.

(* tokens() is a balanced Start/End stream with non-decreasing positions inside the span,
   and flatten() is its pre-order *)
Theorem C06_tokens_balanced_sorted : forall PN lo hi ps, chain PN lo hi ps ->
  (forall stk, balanced_from stk (tokens ps) = Some stk) /\
  sorted_from lo (tokens ps) /\ (forall t, In t (tokens ps) -> (lo <= tpos t <= hi)%N).
Proof. exact tokens_chain. Qed.

Theorem C06_flatten_is_preorder : forall PN lo hi ps, chain PN lo hi ps ->
  map (fun x => (fst (fst x), snd (fst x))) (flatten ps) = starts (tokens ps).
Proof. exact flatten_preorder. Qed.

Print Assumptions C06_tree_wellformed.
Print Assumptions C06_single_root.
Print Assumptions C06_tokens_balanced_sorted.
Print Assumptions C06_flatten_is_preorder.
