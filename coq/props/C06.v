(* C06 — every returned parse tree is well-formed (statements only; proofs are in SpecWf.v and
   PairsApi.v). `parse g f rule input k` is the reference semantics the four execution modes
   are tied to by the correspondence check. *)
From Coq Require Import List NArith ZArith.
Import ListNotations.
From PP Require Import Base Syntax Spec SpecWf PairsApi Interp Gen GenProof SpecTags MachineCor.

(* spans inside [k, len(input)], children ordered, non-overlapping and nested, every pair
   name a non-silent rule of the grammar; the final position is inside the input *)
Theorem C06_tree_wellformed : forall g input k f rule s' tree,
  k <= length input ->
  parse g f rule input k = Ok s' tree ->
  chain (PN g) (N.of_nat k) (s_pos s') tree /\ N.to_nat (s_pos s') <= length input.
Proof.
  intros g input k f rule s' tree Hk H.
  pose proof (parse_sound g input k f rule Hk) as S. rewrite H in S.
  destruct S as [[[_ [_ Hp]] _] [_ C]]. split; [exact C|exact Hp].
Qed.

(* a non-silent start rule yields exactly one root pair, starting at start_pos *)
Theorem C06_single_root : forall g input k f rule r s' tree,
  lookup g rule = Some r -> r_silent r = false ->
  parse g f rule input k = Ok s' tree ->
  exists kids tag, tree = [Pair rule (N.of_nat k) (s_pos s') kids tag].
Proof. exact parse_single_root. Qed.

(* tokens() is a balanced Start/End stream with non-decreasing positions inside the span,
   and flatten() is its pre-order *)
Theorem C06_tokens_balanced_sorted : forall PN lo hi ps, chain PN lo hi ps ->
  (forall stk, balanced_from stk (tokens ps) = Some stk) /\
  sorted_from lo (tokens ps) /\ (forall t, In t (tokens ps) -> (lo <= tpos t <= hi)%N).
Proof. exact tokens_chain. Qed.

Theorem C06_flatten_is_preorder : forall PN lo hi ps, chain PN lo hi ps ->
  map (fun x => (fst (fst x), snd (fst x))) (flatten ps) = starts (tokens ps).
Proof. exact flatten_preorder. Qed.


(* tags in the tree are tags written in the grammar (SpecTags.v) *)
Theorem C06_tags_from_grammar : forall g f rule input k s' tree, parse g f rule input k = Ok s' tree ->
  forall t, In t (tree_tags tree) -> In t (grammar_tags g).
Proof. exact parse_tags. Qed.

(* ---- the same for the two machines as modelled (Interp.v: the interpreter; Gen.v: the generated
   code; each tied exactly to its execution mode on every run), by the refinement theorems
   (MachineCor.v). Side conditions as in C01: `one_modifier g` (a silent rule is not $ or !),
   `inl_ok g inl` (built-in rules emitted in place are plain silent rules). *)
Theorem C06_interpreter_tree_wellformed : forall g, one_modifier g ->
  forall f rule input k s ps, k <= length input ->
  iparse g f rule input k = IOk true s ps ->
  chain (PN g) (N.of_nat k) (i_pos s) ps /\ N.to_nat (i_pos s) <= length input.
Proof. exact machine_C06_wellformed_interp. Qed.
Theorem C06_interpreter_single_root : forall g, one_modifier g ->
  forall f rule input k r s ps, lookup g rule = Some r -> r_silent r = false ->
  iparse g f rule input k = IOk true s ps ->
  exists kids tag, ps = [Pair rule (N.of_nat k) (i_pos s) kids tag].
Proof. exact machine_C06_single_root_interp. Qed.
Theorem C06_interpreter_tags : forall g, one_modifier g ->
  forall f rule input k s ps, iparse g f rule input k = IOk true s ps ->
  forall t, In t (tree_tags ps) -> In t (grammar_tags g).
Proof. exact machine_C06_tags_interp. Qed.
Theorem C06_generated_tree_wellformed : forall g inl, one_modifier g -> inl_ok g inl ->
  forall f rule input k s ps, inlined inl rule = false -> k <= length input ->
  gparse g inl f rule input k = GOk true s ps ->
  chain (PN g) (N.of_nat k) (i_pos s) ps /\ N.to_nat (i_pos s) <= length input.
Proof. exact machine_C06_wellformed_gen. Qed.
Theorem C06_generated_single_root : forall g inl, one_modifier g -> inl_ok g inl ->
  forall f rule input k r s ps, inlined inl rule = false ->
  lookup g rule = Some r -> r_silent r = false ->
  gparse g inl f rule input k = GOk true s ps ->
  exists kids tag, ps = [Pair rule (N.of_nat k) (i_pos s) kids tag].
Proof. exact machine_C06_single_root_gen. Qed.
Theorem C06_generated_tags : forall g inl, one_modifier g -> inl_ok g inl ->
  forall f rule input k s ps, inlined inl rule = false ->
  gparse g inl f rule input k = GOk true s ps ->
  forall t, In t (tree_tags ps) -> In t (grammar_tags g).
Proof. exact machine_C06_tags_gen. Qed.

Print Assumptions C06_tree_wellformed.
Print Assumptions C06_single_root.
Print Assumptions C06_tokens_balanced_sorted.
Print Assumptions C06_flatten_is_preorder.
Print Assumptions C06_interpreter_tree_wellformed.
Print Assumptions C06_interpreter_single_root.
Print Assumptions C06_interpreter_tags.
Print Assumptions C06_generated_tree_wellformed.
Print Assumptions C06_generated_single_root.
Print Assumptions C06_generated_tags.
Print Assumptions C06_tags_from_grammar.
