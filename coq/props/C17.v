(* C17 — bundled JSON and calculator languages agree with independent references. PARTIAL:
   the end-to-end agreement (json.loads; an evaluator written from the documented precedence
   table) is decided differentially on every run over generated documents and expressions.
   Proved here, about the artefacts regenerated from /repo on every build: the bundled JSON
   grammars reference only defined rules (so parsing never reaches an undefined rule), their
   trees are well-formed, sample RFC 8259 documents are accepted and a proper prefix is
   rejected, and the calculator's Pratt table (Tables.v) yields canonical, unique trees — the
   instance of C18 for the documented precedences. *)
From Coq Require Import List NArith ZArith String Arith.
Import ListNotations.
From PP Require Import Base Syntax Spec SpecSyn SpecNoErr SpecWf SpecTerm SpecCert Grammars Tables Pratt PrattProof JsonComplete JsonTestComplete JsonPrefix GrammarsCalc CalcComplete.

Theorem C17_json_refs_defined :
  all_grammar (ref_defined json_grammar) json_grammar = true /\
  all_grammar (ref_defined json_test_grammar) json_test_grammar = true.
Proof. split; vm_compute; reflexivity. Qed.

Theorem C17_json_never_stuck : forall f text,
  Spec.parse json_grammar f json_grammar_start text 0 <> Err /\
  Spec.parse json_test_grammar f json_test_grammar_start text 0 <> Err.
Proof.
  intros f text. split; (apply parse_no_err; [apply C17_json_refs_defined|vm_compute; eexists; reflexivity]).
Qed.

(* both grammars terminate on every input *)
Theorem C17_json_terminates : forall text,
  (exists f, Spec.parse json_grammar f json_grammar_start text 0 <> Fuel) /\
  (exists f, Spec.parse json_test_grammar f json_test_grammar_start text 0 <> Fuel).
Proof. intros text. split; apply wf_auto_terminates; vm_compute; reflexivity. Qed.

Theorem C17_json_tree_wellformed : forall f text s' tree,
  Spec.parse json_grammar f json_grammar_start text 0 = Ok s' tree ->
  chain (PN json_grammar) 0 (s_pos s') tree.
Proof.
  intros f text s' tree H.
  pose proof (parse_sound json_grammar text 0 f json_grammar_start (Nat.le_0_l _)) as S.
  rewrite H in S. exact (proj2 (proj2 S)).
Qed.

(* {"a": [1, -2.5e3, true]}  is accepted by both grammars, its prefix  {"a": [1  is not *)
Definition doc1 : text := [123; 34; 97; 34; 58; 32; 91; 49; 44; 32; 45; 50; 46; 53; 101; 51; 44; 32; 116; 114; 117; 101; 93; 125]%N.
Example json_accepts_doc1 :
  (exists s t, Spec.parse json_grammar 600 json_grammar_start doc1 0 = Ok s t /\ s_rest s = []) /\
  (exists s t, Spec.parse json_test_grammar 600 json_test_grammar_start doc1 0 = Ok s t /\ s_rest s = []).
Proof. split; eexists; eexists; vm_compute; split; reflexivity. Qed.
Example json_rejects_prefix :
  (exists t, Spec.parse json_grammar 600 json_grammar_start (firstn 8 doc1) 0 = Fail t) /\
  (exists t, Spec.parse json_test_grammar 600 json_test_grammar_start (firstn 8 doc1) 0 = Fail t).
Proof. split; eexists; vm_compute; reflexivity. Qed.

(* the calculator's operator table, as regenerated from examples/calculator/pratt.py:
   infix operators by position in calc_infix, one prefix and one postfix operator *)
Definition calc_tb : table :=
  {| pre := fun _ => match calc_prefix with (_, p) :: _ => N.to_nat p | [] => 0%nat end;
     post := fun _ => match calc_postfix with (_, p) :: _ => N.to_nat p | [] => 0%nat end;
     inf := fun o => match nth_error calc_infix o with
                     | Some (_, p, ra) => (N.to_nat p, ra)
                     | None => (0%nat, false)
                     end |}.

Theorem C17_calc_tree_canonical : forall f ts m t rest,
  parse_expr calc_tb f ts m = Some (t, rest) -> canon calc_tb m t /\ yield t ++ rest = ts.
Proof.
  intros f ts m t rest H. split; [eapply parse_expr_canon; exact H|eapply parse_expr_yield; exact H].
Qed.

(* 1 - 2 - 3 groups to the left, 2 ^ 3 ^ 2 to the right, -3! is -(3!) and -2 ^ 2 is (-2) ^ 2 *)
Example calc_sub_left :
  Pratt.parse calc_tb [KPrim 1; KInf 1; KPrim 2; KInf 1; KPrim 3]%nat = Some (TIn (TIn (TPrim 1) 1 (TPrim 2)) 1 (TPrim 3), [])%nat.
Proof. vm_compute. reflexivity. Qed.
Example calc_pow_right :
  Pratt.parse calc_tb [KPrim 2; KInf 4; KPrim 3; KInf 4; KPrim 2] = Some (TIn (TPrim 2) 4 (TIn (TPrim 3) 4 (TPrim 2)), []).
Proof. vm_compute. reflexivity. Qed.
Example calc_neg_fac :
  Pratt.parse calc_tb [KPre 0; KPrim 3; KPost 0] = Some (TPre 0 (TPost (TPrim 3) 0), []).
Proof. vm_compute. reflexivity. Qed.
Example calc_neg_pow :
  Pratt.parse calc_tb [KPre 0; KPrim 2; KInf 4; KPrim 2] = Some (TIn (TPre 0 (TPrim 2)) 4 (TPrim 2), []).
Proof. vm_compute. reflexivity. Qed.

(* COMPLETENESS of examples/json/json.pest (regenerated into Grammars.json_grammar on every run):
   every RFC 8259 text whose top level is an array or object — any value nesting, every number
   form, every escape, insignificant whitespace anywhere RFC 8259 allows it (JsonComplete.renders_doc)
   — is accepted, the whole input is consumed, and the tree mirrors the document: same nesting and
   member order, number and string tokens are exactly the source slices, EOI last
   (JsonComplete.mirrors). Proof: JsonComplete.v, by induction over documents; no axioms. *)
Theorem C17_json_complete : forall v text, wf_jv v = true -> top_level v -> renders_doc v text ->
  exists f s tree, Spec.parse json_grammar f json_grammar_start text 0 = Ok s tree /\ s_rest s = [] /\ mirrors text v tree.
Proof. exact json_complete. Qed.

(* the same for tests/grammars/json.pest (any top-level value; `json` and `value` are pairs there) *)
Theorem C17_json_test_complete : forall v text, wf_jv v = true -> renders_doc v text ->
  exists f s tree, Spec.parse json_test_grammar f json_test_grammar_start text 0 = Ok s tree /\
                   s_rest s = [] /\ mirrors_t text v tree.
Proof. exact json_test_complete. Qed.

(* REJECTION OF PROPER PREFIXES: a document written without trailing whitespace is not accepted when
   cut short anywhere. Proof (JsonPrefix.v): soundness of the grammar for a bracket/string discipline
   (whatever `value` consumes is balanced; an accepted text is whitespace, a balanced block opening
   with a bracket and closed by its last character, whitespace), and every proper non-empty prefix of a
   rendering ends inside a string or with an open bracket. *)
Theorem C17_json_prefix_rejected : forall v w1 x, wf_jv v = true -> top_level v -> ws w1 -> renders v x ->
  forall p, proper_prefix p (w1 ++ x) ->
  forall f s tree, Spec.parse json_grammar f json_grammar_start p 0 <> Ok s tree.
Proof. exact json_prefix_rejected. Qed.

(* THE CALCULATOR GRAMMAR (examples/calculator/calculator.pest, regenerated into GrammarsCalc.v on every run)
   turns every well-formed expression text into exactly its token stream — int / ident / neg / fac /
   add..pow pairs and nested `expr` pairs for groups, in order, slices equal to the token texts, with
   whitespace (blank, tab, newline) anywhere between tokens — and the Pratt parser then consumes that
   whole stream and builds the canonical tree, for ANY operator table (CalcComplete.v + PrattProof.v) *)
Theorem C17_calc_grammar_complete : forall ts text, wf_ctoks ts = true -> crenders_doc ts text ->
  exists f s tree, Spec.parse calc_grammar f calc_grammar_start text 0 = Ok s tree /\ s_rest s = [] /\ cmirrors text ts tree.
Proof. exact calc_complete. Qed.

Theorem C17_calc_end_to_end : forall tb ts text, wf_ctoks ts = true -> crenders_doc ts text ->
  exists f s ptree sl kids, Spec.parse calc_grammar f calc_grammar_start text 0 = Ok s ptree /\ s_rest s = [] /\
    map (skel text) ptree = [SK 21 text [SK 10 sl kids; SK 3 [] []]] /\ toks_of kids = ptoks ts /\
    exists f' t, Pratt.parse_expr tb f' (toks_of kids) 0 = Some (t, []) /\ canon tb 0 t /\ yield t = toks_of kids.
Proof. exact calc_end_to_end. Qed.

Print Assumptions C17_json_refs_defined.
Print Assumptions C17_json_never_stuck.
Print Assumptions C17_json_tree_wellformed.
Print Assumptions C17_json_terminates.
Print Assumptions C17_calc_tree_canonical.
Print Assumptions C17_json_complete.
Print Assumptions C17_json_test_complete.
Print Assumptions C17_json_prefix_rejected.
Print Assumptions C17_calc_grammar_complete.
Print Assumptions C17_calc_end_to_end.
