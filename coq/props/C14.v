(* C14 — position, span and line/column utilities agree with the text (statements; proofs in
   LineColProof.v). `line_col` is the model of Position.line_col (pairs.py), tied to the
   implementation exhaustively at small scope by the correspondence check. *)
From Coq Require Import List NArith Arith.
Import ListNotations.
From PP Require Import Base LineCol LineColProof.

(* for every text with \n line breaks and EVERY offset 0 <= p <= len(text), line_col returns
   (1 + number of line breaks before p, 1 + distance from the last line break) *)
Theorem C14_line_col : forall t p, nl_only t = true -> p <= length t ->
  line_col t p = (1 + count_nl (firstn p t), 1 + after_last_nl (firstn p t) 0).
Proof.
  intros t p Hn Hp. rewrite (line_col_spec t p Hn Hp). apply spec_line_col_counts. exact Hp.
Qed.

(* so offsets and line/column determine each other *)
Theorem C14_inverse : forall t p q, nl_only t = true -> p <= length t -> q <= length t ->
  line_col t p = line_col t q -> p = q.
Proof.
  intros t p q Hn Hp Hq E. rewrite !line_col_spec in E by assumption.
  eapply line_col_injective; eassumption.
Qed.

(* line_of and Span.lines are the lines selected by line_col *)
Theorem C14_line_of : forall t p, line_of t p = nth (fst (line_col t p) - 1) (split_keep t) [].
Proof. reflexivity. Qed.
Theorem C14_lines : forall t a b,
  span_lines t a b =
  firstn (fst (line_col t b) - (fst (line_col t a) - 1)) (skipn (fst (line_col t a) - 1) (split_keep t)).
Proof. reflexivity. Qed.

(* non-vacuity and the boundary cases that were wrong in the original code *)
Example c14_end_without_newline : line_col [97; 98]%N 2 = (1, 3). Proof. reflexivity. Qed.
Example c14_after_trailing_newline : line_col [97; 10]%N 2 = (2, 1). Proof. reflexivity. Qed.
Example c14_empty : line_col [] 0 = (1, 1). Proof. reflexivity. Qed.
Example c14_crlf_is_one_break : line_col [97; 13; 10; 98]%N 3 = (2, 1). Proof. reflexivity. Qed.

Print Assumptions C14_line_col.
Print Assumptions C14_inverse.
Print Assumptions C14_line_of.
Print Assumptions C14_lines.
