(* C16 — parsing from start_pos equals parsing the suffix, shifted (statements; proofs in
   SpecShift.v). *)
From Coq Require Import List NArith ZArith.
Import ListNotations.
From PP Require Import Base Syntax Spec SpecSyn SpecShift SpecSyn SpecShift Interp Gen GenProof MachineCor.

Theorem C16_shift : forall g f rule input k,
  all_grammar not_soi g = true -> k <= length input ->
  parse g f rule input k = shift_res (N.of_nat k) (parse g f rule (skipn k input) 0).
Proof. exact parse_shift. Qed.

Theorem C16_prefix_irrelevant : forall g f rule pre pre' rest,
  all_grammar not_soi g = true -> length pre = length pre' ->
  parse g f rule (pre ++ rest) (length pre) = parse g f rule (pre' ++ rest) (length pre').
Proof. exact parse_prefix_irrelevant. Qed.

(* the hypothesis is needed: with SOI the two differ *)
Definition g_soi : grammar :=
  [{| r_name := 5; r_silent := false; r_kind := KNormal; r_body := ESeq [ESoi; EStr [97%N]] |}].
Example soi_breaks_shift :
  parse g_soi 20 5 [98; 97]%N 1 <> shift_res 1 (parse g_soi 20 5 [97%N] 0).
Proof. vm_compute. discriminate. Qed.

(* non-vacuity *)
Definition g_ab : grammar :=
  [{| r_name := 5; r_silent := false; r_kind := KNormal; r_body := ESeq [EStr [97%N]; EStr [98%N]] |}].
Example shift_instance : exists s, parse g_ab 20 5 [120; 97; 98]%N 1 = Ok s [Pair 5 1 3 [] None].
Proof. eexists. vm_compute. reflexivity. Qed.


(* ---- the same for the two machines as modelled (Interp.v: the interpreter; Gen.v: the generated
   code; each tied exactly to its execution mode on every run), by the refinement theorems
   (MachineCor.v). Side conditions as in C01: `one_modifier g` (a silent rule is not $ or !),
   `inl_ok g inl` (built-in rules emitted in place are plain silent rules). *)
Theorem C16_interpreter_shift : forall g, one_modifier g -> all_grammar not_soi g = true ->
  forall f rule input k m s ps, k <= length input ->
  iparse g f rule input k = IOk m s ps ->
  exists f',
    match iparse g f' rule (skipn k input) 0 with
    | IOk m2 s2 ps2 =>
        m2 = m /\
        (if m then
           ps = shift_pairs (N.of_nat k) ps2 /\
           i_pos s = (i_pos s2 + N.of_nat k)%N /\ i_rest s = i_rest s2 /\
           i_user s = i_user s2 /\ i_tags s = i_tags s2
         else True) /\
        pos_shifted (N.of_nat k) (t_pos (i_trk s2)) (t_pos (i_trk s)) /\
        t_exp (i_trk s) = t_exp (i_trk s2) /\ t_unexp (i_trk s) = t_unexp (i_trk s2)
    | _ => False
    end.
Proof. exact machine_C16_shift_interp. Qed.
Theorem C16_interpreter_shift_any_fuel : forall g, one_modifier g -> all_grammar not_soi g = true ->
  forall f1 f2 rule input k, k <= length input ->
  match iparse g f1 rule input k, iparse g f2 rule (skipn k input) 0 with
  | IOk true s ps, IOk true s2 ps2 =>
      ps = shift_pairs (N.of_nat k) ps2 /\
      i_pos s = (i_pos s2 + N.of_nat k)%N /\ i_rest s = i_rest s2 /\
      i_user s = i_user s2 /\ i_tags s = i_tags s2 /\
      pos_shifted (N.of_nat k) (t_pos (i_trk s2)) (t_pos (i_trk s)) /\
      t_exp (i_trk s) = t_exp (i_trk s2) /\ t_unexp (i_trk s) = t_unexp (i_trk s2)
  | IOk false s _, IOk false s2 _ =>
      pos_shifted (N.of_nat k) (t_pos (i_trk s2)) (t_pos (i_trk s)) /\
      t_exp (i_trk s) = t_exp (i_trk s2) /\ t_unexp (i_trk s) = t_unexp (i_trk s2)
  | IUndef, IUndef => True
  | IFuel, _ | _, IFuel => True
  | _, _ => False
  end.
Proof. exact machine_C16_shift_any_interp. Qed.
Theorem C16_generated_shift : forall g inl, one_modifier g -> inl_ok g inl ->
  all_grammar not_soi g = true ->
  forall f rule input k m s ps, inlined inl rule = false -> k <= length input ->
  gparse g inl f rule input k = GOk m s ps ->
  exists f',
    match gparse g inl f' rule (skipn k input) 0 with
    | GOk m2 s2 ps2 =>
        m2 = m /\
        (if m then
           ps = shift_pairs (N.of_nat k) ps2 /\
           i_pos s = (i_pos s2 + N.of_nat k)%N /\ i_rest s = i_rest s2 /\
           i_user s = i_user s2 /\ i_tags s = i_tags s2
         else True) /\
        pos_shifted (N.of_nat k) (t_pos (i_trk s2)) (t_pos (i_trk s))
    | _ => False
    end.
Proof. exact machine_C16_shift_gen. Qed.
Theorem C16_generated_shift_any_fuel : forall g inl, one_modifier g -> inl_ok g inl ->
  all_grammar not_soi g = true ->
  forall f1 f2 rule input k, inlined inl rule = false -> k <= length input ->
  match gparse g inl f1 rule input k, gparse g inl f2 rule (skipn k input) 0 with
  | GOk true s ps, GOk true s2 ps2 =>
      ps = shift_pairs (N.of_nat k) ps2 /\
      i_pos s = (i_pos s2 + N.of_nat k)%N /\ i_rest s = i_rest s2 /\
      i_user s = i_user s2 /\ i_tags s = i_tags s2 /\
      pos_shifted (N.of_nat k) (t_pos (i_trk s2)) (t_pos (i_trk s))
  | GOk false s _, GOk false s2 _ =>
      pos_shifted (N.of_nat k) (t_pos (i_trk s2)) (t_pos (i_trk s))
  | GUndef, GUndef => True
  | GFuel, _ | _, GFuel => True
  | _, _ => False
  end.
Proof. exact machine_C16_shift_any_gen. Qed.

Print Assumptions C16_shift.
Print Assumptions C16_prefix_irrelevant.
Print Assumptions C16_interpreter_shift.
Print Assumptions C16_interpreter_shift_any_fuel.
Print Assumptions C16_generated_shift.
Print Assumptions C16_generated_shift_any_fuel.
