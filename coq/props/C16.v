(* C16 — parsing from start_pos equals parsing the suffix, shifted (statements; proofs in
   SpecShift.v). *)
From Coq Require Import List NArith ZArith.
Import ListNotations.
From PP Require Import Base Syntax Spec SpecSyn SpecShift.

Theorem C16_shift : forall g f rule input k,
  all_grammar not_soi g = true -> k <= length input ->
  parse g f rule input k = shift_res (N.of_nat k) (parse g f rule (skipn k input) 0).
Proof. exact parse_shift. Qed.

Theorem C16_prefix_irrelevant : forall g f rule pre pre' rest,
  all_grammar not_soi g = true -> length pre = length pre' ->
  parse g f rule (pre ++ rest) (length pre) = parse g f rule (pre' ++ rest) (length pre').
Proof. exact parse_prefix_irrelevant. Qed.

(* the hypothesis is needed: with SOI the two differ *)
Definition g_soi : grammar :=
  [{| r_name := 5; r_silent := false; r_kind := KNormal; r_body := ESeq [ESoi; EStr [97%N]] |}].
Example soi_breaks_shift :
  parse g_soi 20 5 [98; 97]%N 1 <> shift_res 1 (parse g_soi 20 5 [97%N] 0).
Proof. vm_compute. discriminate. Qed.

(* non-vacuity *)
Definition g_ab : grammar :=
  [{| r_name := 5; r_silent := false; r_kind := KNormal; r_body := ESeq [EStr [97%N]; EStr [98%N]] |}].
Example shift_instance : exists s, parse g_ab 20 5 [120; 97; 98]%N 1 = Ok s [Pair 5 1 3 [] None].
Proof. eexists. vm_compute. reflexivity. Qed.

Print Assumptions C16_shift.
Print Assumptions C16_prefix_irrelevant.
