(* C04 — implicit WHITESPACE/COMMENT and the atomicity modifiers follow pest's rules
   (statements; proofs in SpecLaws.v). *)
From Coq Require Import List NArith ZArith.
Import ListNotations.
From PP Require Import Base Syntax Spec SpecMono SpecLaws Interp InterpProof.

(* trivia is matched after every element of a sequence that has a following element (whether
   or not that element then consumes anything) and nowhere else in the sequence *)
Theorem C04_seq_trivia_placement : forall g f c e1 e2 es s,
  run g (S f) c (TSeq (e1 :: e2 :: es)) s =
  match run g f c (TEval e1) s with
  | Ok s1 p1 =>
      match skip_with g (fun c' e' => run g f c' (TEval e')) c s1 with
      | Ok s2 pw =>
          match run g f c (TSeq (e2 :: es)) s2 with
          | Ok s3 p3 => Ok s3 (p1 ++ pw ++ p3)
          | x => x
          end
      | x => x
      end
  | x => x
  end.
Proof. exact seq_trivia_placement. Qed.
Theorem C04_seq_last_no_trivia : forall g f c e1 s,
  run g (S f) c (TSeq [e1]) s = run g f c (TEval e1) s.
Proof. exact seq_last_no_trivia. Qed.

(* between iterations of e*, and given back when no further iteration follows: the final
   state of e* is the state before the last (undone) trivia *)
Theorem C04_star_trivia_given_back : forall g f c e s s' ps,
  run g f c (TStar e) s = Ok s' ps ->
  exists s0 s2 pw t,
    s' = set_trk s0 t /\ runs g c (TStar e) s0 (Ok s' []) /\
    skip_with g (fun c' e' => run g (pred f) c' (TEval e')) c s0 = Ok s2 pw /\
    runs g c (TEval e) s2 (Fail t).
Proof. exact star_loop_stops. Qed.

(* e+, e{n}, e{n,}, e{,n}, e{m,n} place trivia exactly as their unrolled sequences *)
Theorem C04_plus_as_unrolled : forall g c e s r,
  evals g c (EPlus e) s r <-> evals g c (ESeq [e; EStar e]) s r.
Proof. exact plus_unrolled. Qed.
Theorem C04_exact_as_unrolled : forall g c e n s r,
  evals g c (ERepN e n) s r <-> evals g c (ESeq (repeat e n)) s r.
Proof. exact repn_unrolled. Qed.
Theorem C04_min_as_unrolled : forall g c e n s r,
  evals g c (ERepMin e n) s r <-> evals g c (ESeq (repeat e n ++ [EStar e])) s r.
Proof. exact repmin_unrolled. Qed.
Theorem C04_max_as_unrolled : forall g c e n s r,
  evals g c (ERepMax e n) s r <-> evals g c (ESeq (repeat (EOpt e) n)) s r.
Proof. exact repmax_unrolled. Qed.
Theorem C04_minmax_as_unrolled : forall g c e m n s r,
  evals g c (ERepMinMax e m n) s r <-> evals g c (ESeq (repeat e m ++ repeat (EOpt e) (n - m))) s r.
Proof. exact repminmax_unrolled. Qed.

(* no implicit trivia in atomic / compound-atomic contexts, nor without trivia rules *)
Theorem C04_atomic_no_trivia : forall g ev c s, c_atom c <> NonAtomic -> skip_with g ev c s = Ok s [].
Proof. exact atomic_no_trivia. Qed.
Theorem C04_no_trivia_rules : forall g ev c s,
  has_ws g = false -> has_cm g = false -> skip_with g ev c s = Ok s [].
Proof. exact no_trivia_rules. Qed.

(* @ and $ switch trivia off, ! switches it on again, WHITESPACE/COMMENT bodies are atomic *)
Theorem C04_rule_atomicity : forall c r,
  body_atom c r =
  match r_kind r with
  | KCompound => Compound
  | KAtomic => Atomic
  | KNonAtomic => if is_trivia_name (r_name r) then Atomic else NonAtomic
  | KNormal => if is_trivia_name (r_name r) then Atomic else c_atom c
  end.
Proof. exact rule_atomicity. Qed.

(* an atomic rule hides inner pairs except those produced under a nested $ or ! rule *)
Theorem C04_atomic_hides : forall c r, c_atom c = Atomic ->
  (r_kind r = KNormal \/ r_kind r = KAtomic) -> visible c r = false.
Proof. exact atomic_hides. Qed.
Theorem C04_compound_nonatomic_visible : forall c r, r_silent r = false ->
  (r_kind r = KCompound \/ r_kind r = KNonAtomic) -> visible c r = true.
Proof. exact compound_nonatomic_visible. Qed.

(* non-vacuity: s = { "a" ~ "b" }, WHITESPACE = _{ " " }: "a b" matches 0..3, and
   t = @{ "a" ~ "b" } rejects it at 1 *)
Definition g_ws : grammar :=
  [{| r_name := 5; r_silent := false; r_kind := KNormal; r_body := ESeq [EStr [97%N]; EStr [98%N]] |};
   {| r_name := 6; r_silent := false; r_kind := KAtomic; r_body := ESeq [EStr [97%N]; EStr [98%N]] |};
   {| r_name := 0; r_silent := true; r_kind := KNormal; r_body := EStr [32%N] |}].
Example trivia_between : exists s, parse g_ws 40 5 [97; 32; 98]%N 0 = Ok s [Pair 5 0 3 [] None].
Proof. eexists. vm_compute. reflexivity. Qed.
Example atomic_rejects : parse g_ws 40 6 [97; 32; 98]%N 0 = Fail {| t_pos := 1; t_exp := [6%N]; t_unexp := [] |}.
Proof. vm_compute. reflexivity. Qed.

(* ---- the interpreter itself (model Interp.v of src/pest/grammar/**.parse + state.py, tied to mode I
   on every run: trees, failure positions and expected sets) REFINES the reference semantics:
   whenever it finishes, the reference semantics has the same outcome — same tree, same final
   position / stack / tags, same furthest-failure record, same "undefined rule" — it never
   reaches an inconsistent state (pop of an empty checkpoint or rule stack), and it returns with
   every checkpoint, saved atomic depth and rule frame released. Side condition: a silent rule is
   not `$` or `!` (grammar text allows one modifier per rule; necessity: InterpProof.
   silent_compound_differs). Proof: InterpProof.v (simulation by induction on fuel). *)
Theorem C04_interpreter_refines_semantics : forall g,
  (forall n r, lookup g n = Some r -> r_silent r = true -> r_kind r = KNormal \/ r_kind r = KAtomic) ->
  forall f rule input k,
    match iparse g f rule input k with
    | IOk true s' ps  => (exists f', parse g f' rule input k = Ok (abs_st s') ps)
                         /\ i_saved s' = [] /\ i_dcps s' = [] /\ i_rules s' = [] /\ i_depth s' = 0
    | IOk false s' _  => (exists f', parse g f' rule input k = Fail (i_trk s'))
                         /\ i_saved s' = [] /\ i_dcps s' = [] /\ i_rules s' = []
    | IUndef          => exists f', parse g f' rule input k = Err
    | ICrash          => False
    | IFuel           => True
    end.
Proof. exact iparse_refines_one_modifier. Qed.

Print Assumptions C04_seq_trivia_placement.
Print Assumptions C04_seq_last_no_trivia.
Print Assumptions C04_star_trivia_given_back.
Print Assumptions C04_plus_as_unrolled.
Print Assumptions C04_exact_as_unrolled.
Print Assumptions C04_min_as_unrolled.
Print Assumptions C04_max_as_unrolled.
Print Assumptions C04_minmax_as_unrolled.
Print Assumptions C04_atomic_no_trivia.
Print Assumptions C04_no_trivia_rules.
Print Assumptions C04_rule_atomicity.
Print Assumptions C04_atomic_hides.
Print Assumptions C04_compound_nonatomic_visible.
Print Assumptions C04_interpreter_refines_semantics.
