(* C08 — meaning-preserving grammar rewrites leave every parse result unchanged (statements;
   proofs in SpecEquiv.v). `sem_eq g e1 e2`: in every context and state, e1 and e2 have the
   same result up to the furthest-failure tracker (success/failure, final position, stack, tags
   and the pairs produced; Err preserved). *)
From Coq Require Import List NArith.
Import ListNotations.
From PP Require Import Base Syntax Spec SpecSyn SpecMono SpecLaws SpecEquiv.

(* the failure tracker never influences the result: an abandoned attempt leaves no trace that
   matters *)
Theorem C08_tracker_irrelevant : forall g f c t s1 s2, same_core s1 s2 ->
  core (run g f c t s1) = core (run g f c t s2).
Proof. exact trk_irrelevant. Qed.

(* 1. redundant parentheses *)
Theorem C08_group_id : forall g e, sem_eq g (EGrp e None) e.
Proof. exact group_id. Qed.

(* 2. re-associating nested sequences and choices *)
Theorem C08_seq_assoc : forall g a b, b <> [] ->
  sem_eq g (ESeq (a ++ [EGrp (ESeq b) None])) (ESeq (a ++ b)).
Proof. exact seq_assoc_group. Qed.
Theorem C08_alt_assoc : forall g a b, sem_eq g (EAlt (a ++ [EGrp (EAlt b) None])) (EAlt (a ++ b)).
Proof. exact alt_assoc_group. Qed.

(* 3. extracting a sub-expression into a fresh silent rule: the extended grammar behaves like the
   old one on everything that does not mention the new name, and a reference to the new rule
   behaves like the extracted expression *)
Theorem C08_extract_silent : forall g n e, lookup g n = None -> is_trivia_name n = false ->
  all_grammar (fun x => match x with ERef m _ => negb (N.eqb m n) | _ => true end) g = true ->
  all_sub (fun x => match x with ERef m _ => negb (N.eqb m n) | _ => true end) e = true ->
  let g' := g ++ [{| r_name := n; r_silent := true; r_kind := KNormal; r_body := e |}] in
  (forall t, all_task (fun x => match x with ERef m _ => negb (N.eqb m n) | _ => true end) t = true ->
     forall f c s, core (run g' f c t s) = core (run g f c t s)) /\
  (forall c s r, evals g c e s r -> exists r', evals g' c (ERef n None) s r' /\ core r' = core r) /\
  (forall c s r, evals g' c (ERef n None) s r -> exists r', evals g c e s r' /\ core r' = core r).
Proof. exact extract_silent. Qed.

(* 4. e -> (e | e) *)
Theorem C08_dup_choice : forall g e, sem_eq g (EGrp (EAlt [e; e]) None) e.
Proof. exact dup_choice. Qed.

(* 5./6. e -> ((e ~ NEVER) | e)  and  e -> ((!e ~ NEVER) | e), NEVER a literal that cannot occur in
   the input; the implicit skip between e and NEVER must itself have a result (it always has
   when the trivia rules are well-formed, and trivially when there are none) *)
Theorem C08_never_choice : forall g input e lit, never_in lit input -> skip_total_on g input ->
  sem_eq_on g input (EGrp (EAlt [ESeq [e; EStr lit]; e]) None) e.
Proof. exact never_choice_on. Qed.
Theorem C08_negnever_choice : forall g input e lit, never_in lit input -> skip_total_on g input ->
  sem_eq_on g input (EGrp (EAlt [ESeq [ENot e; EStr lit]; e]) None) e.
Proof. exact negnever_choice_on. Qed.
Theorem C08_skip_total_without_trivia : forall g input, has_ws g = false -> has_cm g = false -> skip_total_on g input.
Proof. exact skip_total_no_trivia. Qed.

(* at any nesting, singly or in any combination: sem_eq is a congruence for every constructor *)
Theorem C08_cong_seq : forall g es es', Forall2 (sem_eq g) es es' -> sem_eq g (ESeq es) (ESeq es').
Proof. exact cong_seq. Qed.
Theorem C08_cong_alt : forall g es es', Forall2 (sem_eq g) es es' -> sem_eq g (EAlt es) (EAlt es').
Proof. exact cong_alt. Qed.
Theorem C08_cong_opt : forall g e e', sem_eq g e e' -> sem_eq g (EOpt e) (EOpt e').
Proof. exact cong_opt. Qed.
Theorem C08_cong_star : forall g e e', sem_eq g e e' -> sem_eq g (EStar e) (EStar e').
Proof. exact cong_star. Qed.
Theorem C08_cong_plus : forall g e e', sem_eq g e e' -> sem_eq g (EPlus e) (EPlus e').
Proof. exact cong_plus. Qed.
Theorem C08_cong_repn : forall g n e e', sem_eq g e e' -> sem_eq g (ERepN e n) (ERepN e' n).
Proof. exact cong_repn. Qed.
Theorem C08_cong_repmin : forall g n e e', sem_eq g e e' -> sem_eq g (ERepMin e n) (ERepMin e' n).
Proof. exact cong_repmin. Qed.
Theorem C08_cong_repmax : forall g n e e', sem_eq g e e' -> sem_eq g (ERepMax e n) (ERepMax e' n).
Proof. exact cong_repmax. Qed.
Theorem C08_cong_repminmax : forall g m n e e', sem_eq g e e' -> sem_eq g (ERepMinMax e m n) (ERepMinMax e' m n).
Proof. exact cong_repminmax. Qed.
Theorem C08_cong_and : forall g e e', sem_eq g e e' -> sem_eq g (EAnd e) (EAnd e').
Proof. exact cong_and. Qed.
Theorem C08_cong_not : forall g e e', sem_eq g e e' -> sem_eq g (ENot e) (ENot e').
Proof. exact cong_not. Qed.
Theorem C08_cong_grp : forall g tag e e', sem_eq g e e' -> sem_eq g (EGrp e tag) (EGrp e' tag).
Proof. exact cong_grp. Qed.
Theorem C08_cong_push : forall g e e', sem_eq g e e' -> sem_eq g (EPush e) (EPush e').
Proof. exact cong_push. Qed.

Print Assumptions C08_tracker_irrelevant.
Print Assumptions C08_group_id.
Print Assumptions C08_seq_assoc.
Print Assumptions C08_alt_assoc.
Print Assumptions C08_extract_silent.
Print Assumptions C08_dup_choice.
Print Assumptions C08_never_choice.
Print Assumptions C08_negnever_choice.
Print Assumptions C08_skip_total_without_trivia.
Print Assumptions C08_cong_seq.
Print Assumptions C08_cong_alt.
Print Assumptions C08_cong_opt.
Print Assumptions C08_cong_star.
Print Assumptions C08_cong_plus.
Print Assumptions C08_cong_repn.
Print Assumptions C08_cong_repmin.
Print Assumptions C08_cong_repmax.
Print Assumptions C08_cong_repminmax.
Print Assumptions C08_cong_and.
Print Assumptions C08_cong_not.
Print Assumptions C08_cong_grp.
Print Assumptions C08_cong_push.
