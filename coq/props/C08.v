(* C08 — meaning-preserving grammar rewrites leave every parse result unchanged.
   INTERIM: the facts the six rewrites rest on, for the reference semantics: a failed attempt
   leaves no trace (a choice continues from the caller's own state), predicates leave the state
   untouched, and an untagged group is its content. The general congruence (any context, any
   combination) is decided differentially on the bundled grammars on every run; its Coq proof
   (SpecEquiv.v) is the planned strengthening. *)
From Coq Require Import List NArith.
Import ListNotations.
From PP Require Import Base Syntax Spec SpecMono SpecLaws.

(* redundant parentheses *)
Theorem C08_group_id : forall g f c e s, run g (S f) c (TEval (EGrp e None)) s = run g f c (TEval e) s.
Proof. intros. cbn [run push_tag pop_tag]. destruct (run g f c (TEval e) s); reflexivity. Qed.

(* e | ...: when the first alternative fails the rest is evaluated from the same position,
   stack and pending tags *)
Theorem C08_failed_alternative_leaves_no_trace : forall g c e1 es s t r,
  evals g c e1 s (Fail t) -> evals g c (EAlt es) (set_trk s t) r -> evals g c (EAlt (e1 :: es)) s r.
Proof. exact choice_backtracks. Qed.
Theorem C08_first_alternative_wins : forall g c e1 es s s1 p,
  evals g c e1 s (Ok s1 p) -> evals g c (EAlt (e1 :: es)) s (Ok s1 p).
Proof. exact choice_commits. Qed.

(* !e ~ NEVER: the predicate leaves the state untouched *)
Theorem C08_predicate_leaves_no_trace : forall g c e s s1 p,
  evals g c (ENot e) s (Ok s1 p) ->
  p = [] /\ s_pos s1 = s_pos s /\ s_rest s1 = s_rest s /\ s_stk s1 = s_stk s /\ s_tags s1 = s_tags s.
Proof. exact not_consumes_nothing. Qed.

Print Assumptions C08_group_id.
Print Assumptions C08_failed_alternative_leaves_no_trace.
Print Assumptions C08_first_alternative_wins.
Print Assumptions C08_predicate_leaves_no_trace.
