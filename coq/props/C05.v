(* C05 — stack operations match their specification and are undone on backtracking
   (statements; proofs in SpecLaws.v, SpecNoErr.v). *)
From Coq Require Import List NArith ZArith.
Import ListNotations.
From PP Require Import Base Syntax Spec SpecMono SpecLaws Interp InterpProof.

Theorem C05_push_pushes_matched_text : forall g c e s s1 p,
  evals g c e s (Ok s1 p) ->
  evals g c (EPush e) s
    (Ok (set_stk s1 (firstn (N.to_nat (s_pos s1 - s_pos s)) (s_rest s) :: s_stk s1)) p).
Proof. exact push_pushes_matched_text. Qed.
Theorem C05_push_literal_always : forall g c w s,
  evals g c (EPushLit w) s (Ok (set_stk s (w :: s_stk s)) []).
Proof. exact push_literal_always. Qed.
Theorem C05_peek_matches_top : forall g c s w k r,
  s_stk s = w :: k -> strip_prefix w (s_rest s) = Some r ->
  evals g c EPeek s (Ok (adv s (lenN w) r) []).
Proof. exact peek_matches_top. Qed.
Theorem C05_pop_matches_and_removes : forall g c s w k r,
  s_stk s = w :: k -> strip_prefix w (s_rest s) = Some r ->
  evals g c EPop s (Ok (set_stk (adv s (lenN w) r) k) []).
Proof. exact pop_matches_and_removes. Qed.
Theorem C05_drop_removes_or_fails : forall g c s,
  match s_stk s with
  | [] => exists t, evals g c EDrop s (Fail t)
  | _ :: k => evals g c EDrop s (Ok (set_stk s k) [])
  end.
Proof. exact drop_removes_or_fails. Qed.
Theorem C05_peek_all_top_to_bottom : forall g c s s1 p,
  evals g c EPeekAll s (Ok s1 p) ->
  exists r n, match_all (s_stk s) (s_rest s) 0 = Some (r, n) /\ s1 = adv s n r /\ p = [].
Proof. exact peek_all_top_to_bottom. Qed.
Theorem C05_pop_all_empties_on_success : forall g c s s1 p,
  evals g c EPopAll s (Ok s1 p) -> s_stk s1 = [] /\ p = [].
Proof. exact pop_all_empties_on_success. Qed.
Theorem C05_peek_slice_bottom_to_top : forall g c a b s s1 p,
  evals g c (EPeekSl a b) s (Ok s1 p) ->
  exists r n, match_all (py_slice (rev (s_stk s)) a b) (s_rest s) 0 = Some (r, n)
              /\ s1 = adv s n r /\ p = [].
Proof. exact peek_slice_bottom_to_top. Qed.

(* none of them ever raises: each has a result, which is never Err; a failure is `Fail t`,
   which carries no position and no stack — the caller continues from its own state *)
Theorem C05_stack_ops_total : forall g c e s,
  match e with EPeek | EPop | EDrop | EPeekAll | EPopAll | EPeekSl _ _ | EPushLit _ => True | _ => False end ->
  exists r, evals g c e s r /\ r <> Err.
Proof. exact stack_ops_total. Qed.

(* whenever an alternative or an optional fails, or a predicate finishes, every stack change
   made inside it is undone, however deeply nested the successful sub-matches that made it *)
Theorem C05_alternative_undone : forall g c e1 es s t r,
  evals g c e1 s (Fail t) -> evals g c (EAlt es) (set_trk s t) r -> evals g c (EAlt (e1 :: es)) s r.
Proof. exact choice_backtracks. Qed.
Theorem C05_optional_undone : forall g c e s t,
  evals g c e s (Fail t) -> evals g c (EOpt e) s (Ok (set_trk s t) []).
Proof. exact opt_of_failure. Qed.
Theorem C05_and_undone : forall g c e s s1 p,
  evals g c (EAnd e) s (Ok s1 p) ->
  p = [] /\ s_pos s1 = s_pos s /\ s_rest s1 = s_rest s /\ s_stk s1 = s_stk s /\ s_tags s1 = s_tags s.
Proof. exact and_consumes_nothing. Qed.
Theorem C05_not_undone : forall g c e s s1 p,
  evals g c (ENot e) s (Ok s1 p) ->
  p = [] /\ s_pos s1 = s_pos s /\ s_rest s1 = s_rest s /\ s_stk s1 = s_stk s /\ s_tags s1 = s_tags s.
Proof. exact not_consumes_nothing. Qed.
Theorem C05_iteration_undone : forall g f c e s s' ps,
  run g f c (TStar e) s = Ok s' ps ->
  exists s0 s2 pw t,
    s' = set_trk s0 t /\ runs g c (TStar e) s0 (Ok s' []) /\
    skip_with g (fun c' e' => run g (pred f) c' (TEval e')) c s0 = Ok s2 pw /\
    runs g c (TEval e) s2 (Fail t).
Proof. exact star_loop_stops. Qed.

(* non-vacuity: r = { (PUSH("a") ~ PUSH("b") ~ "x" | "") ~ PEEK? }: on "ab" the first
   alternative pushes twice and fails on "x"; afterwards the stack is empty again, so PEEK
   does not match and the rule succeeds consuming nothing *)
Definition g_undo : grammar :=
  [{| r_name := 5; r_silent := false; r_kind := KNormal;
      r_body := ESeq [EAlt [ESeq [EPush (EStr [97%N]); EPush (EStr [98%N]); EStr [120%N]]; EStr []];
                      EOpt EPeek] |}].
Example nested_pushes_undone : exists s, parse g_undo 40 5 [97; 98]%N 0 = Ok s [Pair 5 0 0 [] None]
                                         /\ s_stk s = [].
Proof. eexists. vm_compute. split; reflexivity. Qed.

(* ---- the interpreter itself (model Interp.v of src/pest/grammar/**.parse + state.py, tied to mode I
   on every run: trees, failure positions and expected sets) REFINES the reference semantics:
   whenever it finishes, the reference semantics has the same outcome — same tree, same final
   position / stack / tags, same furthest-failure record, same "undefined rule" — it never
   reaches an inconsistent state (pop of an empty checkpoint or rule stack), and it returns with
   every checkpoint, saved atomic depth and rule frame released. Side condition: a silent rule is
   not `$` or `!` (grammar text allows one modifier per rule; necessity: InterpProof.
   silent_compound_differs). Proof: InterpProof.v (simulation by induction on fuel). *)
Theorem C05_interpreter_refines_semantics : forall g,
  (forall n r, lookup g n = Some r -> r_silent r = true -> r_kind r = KNormal \/ r_kind r = KAtomic) ->
  forall f rule input k,
    match iparse g f rule input k with
    | IOk true s' ps  => (exists f', parse g f' rule input k = Ok (abs_st s') ps)
                         /\ i_saved s' = [] /\ i_dcps s' = [] /\ i_rules s' = [] /\ i_depth s' = 0
    | IOk false s' _  => (exists f', parse g f' rule input k = Fail (i_trk s'))
                         /\ i_saved s' = [] /\ i_dcps s' = [] /\ i_rules s' = []
    | IUndef          => exists f', parse g f' rule input k = Err
    | ICrash          => False
    | IFuel           => True
    end.
Proof. exact iparse_refines_one_modifier. Qed.

Print Assumptions C05_push_pushes_matched_text.
Print Assumptions C05_push_literal_always.
Print Assumptions C05_peek_matches_top.
Print Assumptions C05_pop_matches_and_removes.
Print Assumptions C05_drop_removes_or_fails.
Print Assumptions C05_peek_all_top_to_bottom.
Print Assumptions C05_pop_all_empties_on_success.
Print Assumptions C05_peek_slice_bottom_to_top.
Print Assumptions C05_stack_ops_total.
Print Assumptions C05_alternative_undone.
Print Assumptions C05_optional_undone.
Print Assumptions C05_and_undone.
Print Assumptions C05_not_undone.
Print Assumptions C05_iteration_undone.
Print Assumptions C05_interpreter_refines_semantics.
