(* C11 — loading a grammar is total. PARTIAL: the model that is total by construction is the
   reference reader (a Coq function); the theorems below say that on EVERY string it yields a
   verdict that is a tree or a failure with a position inside the text — never Err — given
   enough fuel. That python-pest's hand-written front end returns a Parser or raises a
   renderable PestGrammarError on the same strings is decided differentially on every run
   (token soups, truncations and mutations of valid grammars, edge texts). *)
From Coq Require Import List NArith ZArith.
Import ListNotations.
From PP Require Import Base Syntax Spec SpecSyn SpecMono SpecNoErr SpecWf SpecTerm SpecCert Grammars.
From PP Require Front FrontProof.

Theorem C11_never_abnormal : forall f text,
  parse meta_grammar f meta_grammar_start text 0 <> Err.
Proof.
  intros f text. apply parse_no_err; [vm_compute; reflexivity|].
  vm_compute. eexists. reflexivity.
Qed.

(* a rejection carries a position that exists in the text (or the sentinel) *)
Theorem C11_error_position_in_text : forall f text t,
  parse meta_grammar f meta_grammar_start text 0 = Fail t ->
  t_pos t = (-1)%Z \/ (0 <= t_pos t <= Z.of_nat (length text))%Z.
Proof.
  intros f text t H.
  pose proof (parse_sound meta_grammar text 0 f meta_grammar_start (Nat.le_0_l _)) as S.
  rewrite H in S. exact (proj1 S).
Qed.

(* pest's meta-grammar passes the termination validator (no left recursion, no repetition over
   a possibly empty body), so the reader terminates on EVERY string ... *)
Theorem C11_reader_terminates : forall text,
  exists f, parse meta_grammar f meta_grammar_start text 0 <> Fuel.
Proof. intros text. apply wf_auto_terminates. vm_compute. reflexivity. Qed.

(* ... with a verdict that is a tree or a rejection with a position inside the text *)
Theorem C11_reader_total : forall text,
  exists f, (exists s t, parse meta_grammar f meta_grammar_start text 0 = Ok s t) \/
            (exists t, parse meta_grammar f meta_grammar_start text 0 = Fail t /\
                       (t_pos t = (-1)%Z \/ (0 <= t_pos t <= Z.of_nat (length text))%Z)).
Proof.
  intros text. destruct (C11_reader_terminates text) as [f Hf]. exists f.
  pose proof (C11_never_abnormal f text) as E.
  destruct (parse meta_grammar f meta_grammar_start text 0) as [s t|t| |] eqn:P;
    [left; eexists; eexists; reflexivity| |congruence|congruence].
  right. exists t. split; [reflexivity|]. eapply C11_error_position_in_text. exact P.
Qed.

(* non-vacuity: the empty text and a comment-only text are valid grammars *)
Example empty_grammar : exists s, parse meta_grammar 100 meta_grammar_start [] 0 = Ok s [Pair EOI_ID 0 0 [] None].
Proof. eexists. vm_compute. reflexivity. Qed.

(* ---- python-pest's own front end, as modelled (Front.v: a function-by-function transcription of
   scanner.py, grammar/parser.py, unescape.py and Parser.from_grammar with optimizer=None, every Python
   operation that can raise made explicit; tied to the code on every run: identical rule table -
   names, modifiers, docs, tags, expression trees - or identical error position on every generated
   text): for EVERY text it returns a rule table or a grammar syntax error - no other exception, and the
   fuel it runs on always suffices - and an error position lies inside the text. Proof: FrontProof.v.
   Not modelled: CPython's recursion limit (the library turns it into a grammar error), message texts. *)
Theorem C11_front_end_total : forall t,
  match Front.front t with Front.FOk _ | Front.FSyntax _ => True | Front.FCrash _ | Front.FFuel => False end.
Proof. exact FrontProof.front_total. Qed.
Theorem C11_front_end_error_position : forall t p, Front.front t = Front.FSyntax p -> (p <= List.length t)%nat.
Proof. exact FrontProof.front_error_position. Qed.

Print Assumptions C11_never_abnormal.
Print Assumptions C11_error_position_in_text.
Print Assumptions C11_reader_terminates.
Print Assumptions C11_reader_total.
Print Assumptions C11_front_end_total.
Print Assumptions C11_front_end_error_position.
