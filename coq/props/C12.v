(* C12 — character terminals denote exactly the specified code points (statements; proofs in
   CharClassProof.v; the tables are regenerated from /repo into Tables.v on every build, so a
   change to ASCII_RULE_MAP or NEWLINE in the source breaks `C12_ascii_tables`). *)
From Coq Require Import List NArith Bool String.
Import ListNotations.
From PP Require Import Base Tables CharClass CharClassProof Syntax Spec.
Open Scope N_scope.

(* ranges are exact and case sensitive, over unbounded N (hence all 1,114,112 code points) *)
Theorem C12_range_exact : forall lo hi c, in_ranges c [(lo, hi)] = (lo <=? c) && (c <=? hi).
Proof. exact range_mem. Qed.

(* the class the optimizer merges singles and ranges into accepts exactly their union *)
Theorem C12_class_merge_exact : forall singles ranges c,
  class_mem (optimize_char_class singles ranges) c =
  memN c singles || existsb (in_range_sym c) ranges.
Proof. exact class_merge_spec. Qed.

(* the built-in ASCII sets and NEWLINE in the source are pest's definitions *)
Theorem C12_ascii_tables : ascii_rule_map = pest_ascii_rules /\ newline_alts = pest_newline.
Proof. split; reflexivity. Qed.

(* case-insensitive single characters: the ASCII case variants and nothing else *)
Theorem C12_ascii_variants : forall c d,
  memN d (ascii_variants c) = N.eqb (ascii_lower d) (ascii_lower c) && (N.eqb d c || (d <? 128) && (c <? 128)).
Proof. exact ascii_variants_spec. Qed.

(* the evaluator's view of a range terminal on a one-character input *)
Theorem C12_range_terminal : forall g c lo hi s d r,
  s_rest s = d :: r ->
  exists x, run g 1 c (TEval (ERange lo hi)) s = x /\
            ((lo <=? d) && (d <=? hi) = true <-> exists s', x = Ok s' []).
Proof.
  intros g c lo hi s d r E. eexists. split; [reflexivity|]. cbn [run]. rewrite E.
  destruct ((lo <=? d) && (d <=? hi)); split; intros H.
  - eexists. reflexivity.
  - reflexivity.
  - discriminate.
  - destruct H as [s' H]. discriminate.
Qed.

Print Assumptions C12_range_exact.
Print Assumptions C12_class_merge_exact.
Print Assumptions C12_ascii_tables.
Print Assumptions C12_ascii_variants.
Print Assumptions C12_range_terminal.
