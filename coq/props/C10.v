(* C10 — the grammar front end accepts exactly pest v2 syntax with the denoted structure.
   PARTIAL: the accept set and the structure are decided differentially on every run against
   the *reference reader*: the reference semantics of Spec.v running pest's own meta-grammar
   (regenerated from tests/grammars/meta.pest into Grammars.v on every build) followed by
   `denote` (harness/metaread.py). What is proved here is that this reference reader is
   well-defined on every text: every rule it references exists (so it never reaches Err), its
   verdict does not depend on the fuel, every tree it returns is a well-formed parse tree of
   the text whose pair names are rules of the meta-grammar, and it accepts a sample grammar. *)
From Coq Require Import List NArith ZArith String.
Import ListNotations.
From PP Require Import Base Syntax Spec SpecSyn SpecMono SpecNoErr SpecWf SpecTerm SpecCert Grammars.
From PP Require Front FrontProof InfixOldDef InfixEquiv.

Theorem C10_meta_refs_defined : all_grammar (ref_defined meta_grammar) meta_grammar = true.
Proof. vm_compute. reflexivity. Qed.

Theorem C10_reader_never_stuck : forall f text,
  parse meta_grammar f meta_grammar_start text 0 <> Err.
Proof.
  intros f text. apply parse_no_err; [exact C10_meta_refs_defined|].
  vm_compute. eexists. reflexivity.
Qed.

Theorem C10_reader_verdict_stable : forall (f f' : nat) text r,
  parse meta_grammar f meta_grammar_start text 0 = r -> r <> Fuel -> (f <= f')%nat ->
  parse meta_grammar f' meta_grammar_start text 0 = r.
Proof. intros. eapply parse_mono; eauto. Qed.

Theorem C10_reader_tree_wellformed : forall f text s' tree,
  parse meta_grammar f meta_grammar_start text 0 = Ok s' tree ->
  chain (PN meta_grammar) 0 (s_pos s') tree.
Proof.
  intros f text s' tree H.
  pose proof (parse_sound meta_grammar text 0 f meta_grammar_start (Nat.le_0_l _)) as S.
  rewrite H in S. exact (proj2 (proj2 S)).
Qed.

(* the reader gives a verdict on every text *)
Theorem C10_reader_terminates : forall text,
  exists f, parse meta_grammar f meta_grammar_start text 0 <> Fuel.
Proof. intros text. apply wf_auto_terminates. vm_compute. reflexivity. Qed.

(* non-vacuity: the reader accepts  a = { "b" }  and rejects  a = { *)
Example reader_accepts :
  exists s t, parse meta_grammar 400 meta_grammar_start
    [97; 32; 61; 32; 123; 32; 34; 98; 34; 32; 125]%N 0 = Ok s t /\ s_rest s = [].
Proof. eexists. eexists. vm_compute. split; reflexivity. Qed.
Example reader_rejects :
  exists t, parse meta_grammar 400 meta_grammar_start [97; 32; 61; 32; 123]%N 0 = Fail t.
Proof. eexists. vm_compute. reflexivity. Qed.

(* ---- python-pest's own front end, as modelled (Front.v: a function-by-function transcription of
   scanner.py, grammar/parser.py, unescape.py and Parser.from_grammar with optimizer=None, every Python
   operation that can raise made explicit; tied to the code on every run: identical rule table -
   names, modifiers, docs, tags, expression trees - or identical error position on every generated
   text): for EVERY text it returns a rule table or a grammar syntax error - no other exception, and the
   fuel it runs on always suffices - and an error position lies inside the text. Proof: FrontProof.v.
   Not modelled: CPython's recursion limit (the library turns it into a grammar error), message texts. *)
Theorem C10_front_end_total : forall t,
  match Front.front t with Front.FOk _ | Front.FSyntax _ => True | Front.FCrash _ | Front.FFuel => False end.
Proof. exact FrontProof.front_total. Qed.
Theorem C10_front_end_error_position : forall t p, Front.front t = Front.FSyntax p -> (p <= List.length t)%nat.
Proof. exact FrontProof.front_error_position. Qed.

(* the repair 6964c88 replaced the right-recursive infix parser of grammar/parser.py by a loop; both versions are
   transcribed (InfixOldDef.v: before; Front.v: after) and proved to build the same rule table or report the same
   error position on EVERY text (InfixEquiv.v): the refactoring preserved meaning *)
Theorem C10_infix_refactoring_preserved_front_end : forall t, InfixEquiv.front_old t = Front.front t.
Proof. exact InfixEquiv.front_old_equiv. Qed.

Print Assumptions C10_meta_refs_defined.
Print Assumptions C10_reader_never_stuck.
Print Assumptions C10_reader_verdict_stable.
Print Assumptions C10_reader_tree_wellformed.
Print Assumptions C10_reader_terminates.
Print Assumptions C10_front_end_total.
Print Assumptions C10_front_end_error_position.
Print Assumptions C10_infix_refactoring_preserved_front_end.
