(* C13 — parse failures carry a valid position and a message position that is the position's
   line and column (statements; proofs in SpecWf.v and LineColProof.v). Rendering of the
   message text itself (join_with_limit, labels) is tested on every rejected input by the
   check, not proved. *)
From Coq Require Import List NArith ZArith Arith.
Import ListNotations.
From PP Require Import Base Syntax Spec SpecWf LineCol LineColProof Interp Gen GenProof MachineCor.

(* whenever parsing fails, the furthest-failure position is the sentinel -1 or lies in
   [start_pos, len(input)] *)
Theorem C13_position_valid : forall g input k f rule t,
  k <= length input -> parse g f rule input k = Fail t ->
  t_pos t = (-1)%Z \/ (Z.of_nat k <= t_pos t <= Z.of_nat (length input))%Z.
Proof.
  intros g input k f rule t Hk H.
  pose proof (parse_sound g input k f rule Hk) as S. rewrite H in S. exact (proj1 S).
Qed.

(* the rule names listed as expected / unexpected are rules of the grammar *)
Theorem C13_names_valid : forall g input k f rule t,
  k <= length input -> parse g f rule input k = Fail t ->
  Forall (fun n => exists r, lookup g n = Some r) (t_exp t) /\
  Forall (fun n => exists r, lookup g n = Some r) (t_unexp t).
Proof.
  intros g input k f rule t Hk H.
  pose proof (parse_sound g input k f rule Hk) as S. rewrite H in S. exact (proj2 S).
Qed.

(* the line:column shown is line_col of the position, and the source line shown is that line *)
Theorem C13_context_is_line_col : forall t p,
  error_context t p =
  (rstrip (nth (fst (line_col t p) - 1) (split_keep t) []), fst (line_col t p), snd (line_col t p)).
Proof. intros t p. unfold error_context. destruct (line_col t p). reflexivity. Qed.

Theorem C13_line_col_of_position : forall t p, nl_only t = true -> p <= length t ->
  line_col t p = (1 + count_nl (firstn p t), 1 + after_last_nl (firstn p t) 0).
Proof.
  intros t p Hn Hp. rewrite (line_col_spec t p Hn Hp). apply spec_line_col_counts. exact Hp.
Qed.

Example c13_after_trailing_newline : error_context [97; 10]%N 2 = ([], 2, 1).
Proof. reflexivity. Qed.


(* ---- the same for the two machines as modelled (Interp.v: the interpreter; Gen.v: the generated
   code; each tied exactly to its execution mode on every run), by the refinement theorems
   (MachineCor.v). Side conditions as in C01: `one_modifier g` (a silent rule is not $ or !),
   `inl_ok g inl` (built-in rules emitted in place are plain silent rules). *)
Theorem C13_interpreter_position_valid : forall g, one_modifier g ->
  forall f rule input k s ps, k <= length input ->
  iparse g f rule input k = IOk false s ps ->
  t_pos (i_trk s) = (-1)%Z \/ (Z.of_nat k <= t_pos (i_trk s) <= Z.of_nat (length input))%Z.
Proof. exact machine_C13_position_interp. Qed.
Theorem C13_interpreter_names_valid : forall g, one_modifier g ->
  forall f rule input k s ps, k <= length input ->
  iparse g f rule input k = IOk false s ps ->
  Forall (fun n => exists r, lookup g n = Some r) (t_exp (i_trk s)) /\
  Forall (fun n => exists r, lookup g n = Some r) (t_unexp (i_trk s)).
Proof. exact machine_C13_names_interp. Qed.
Theorem C13_generated_position_valid : forall g inl, one_modifier g -> inl_ok g inl ->
  forall f rule input k s ps, inlined inl rule = false -> k <= length input ->
  gparse g inl f rule input k = GOk false s ps ->
  t_pos (i_trk s) = (-1)%Z \/ (Z.of_nat k <= t_pos (i_trk s) <= Z.of_nat (length input))%Z.
Proof. exact machine_C13_position_gen. Qed.
Theorem C13_generated_names_valid : forall g, one_modifier g ->
  forall f rule input k s ps, k <= length input ->
  gparse g [] f rule input k = GOk false s ps ->
  Forall (fun n => exists r, lookup g n = Some r) (t_exp (i_trk s)) /\
  Forall (fun n => exists r, lookup g n = Some r) (t_unexp (i_trk s)).
Proof. exact machine_C13_names_gen. Qed.

Print Assumptions C13_position_valid.
Print Assumptions C13_names_valid.
Print Assumptions C13_context_is_line_col.
Print Assumptions C13_line_col_of_position.
Print Assumptions C13_interpreter_position_valid.
Print Assumptions C13_interpreter_names_valid.
Print Assumptions C13_generated_position_valid.
Print Assumptions C13_generated_names_valid.
