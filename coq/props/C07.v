(* C07 — parse() is total and deterministic (statements; proofs in SpecNoErr.v, SpecMono.v,
   SpecLaws.v, SpecTerm.v). *)
From Coq Require Import List NArith ZArith.
Import ListNotations.
From PP Require Import Base Syntax Spec SpecSyn SpecMono SpecLaws SpecNoErr SpecTerm SpecCert Grammars Interp InterpProof Gen GenProof.

(* with every reference defined, the only results are a tree, a failure, or out-of-fuel:
   the model has no IndexError / UnboundLocalError / AssertionError / KeyError outcome at all,
   and the one abnormal outcome it has (Err, an undefined rule) is unreachable *)
Theorem C07_no_crash : forall g, all_grammar (ref_defined g) g = true ->
  forall f rule input k, (exists r, lookup g rule = Some r) -> parse g f rule input k <> Err.
Proof. exact parse_no_err. Qed.

(* deterministic: one result, independent of how much fuel beyond "enough" is given *)
Theorem C07_deterministic : forall g c t s r1 r2, runs g c t s r1 -> runs g c t s r2 -> r1 = r2.
Proof. exact runs_det. Qed.
Theorem C07_fuel_irrelevant : forall g (f f' : nat) rule input k r,
  parse g f rule input k = r -> r <> Fuel -> (f <= f')%nat -> parse g f' rule input k = r.
Proof. exact parse_mono. Qed.

(* termination: for every grammar accepted by a pest-style validator — no left recursion (also
   not through the implicit WHITESPACE/COMMENT skip), no repetition over a body that may succeed
   without consuming, certified by a nullability table and a ranking of the rules that the check
   itself verifies — every parse from every rule on every input terminates *)
Theorem C07_terminates : forall nul rank g, wf_grammar nul rank g = true ->
  forall rule input k, exists f, parse g f rule input k <> Fuel.
Proof. exact parse_terminates. Qed.

(* ... with the certificate computed from the grammar *)
Theorem C07_terminates_auto : forall g, wf_auto g = true ->
  forall rule input k, exists f, parse g f rule input k <> Fuel.
Proof. exact wf_auto_terminates. Qed.

(* hence, for such grammars, a tree or a failure — and nothing else — on every input *)
Theorem C07_total : forall g, wf_auto g = true -> all_grammar (ref_defined g) g = true ->
  forall rule input k, (exists r, lookup g rule = Some r) ->
  exists f, (exists s t, parse g f rule input k = Ok s t) \/ (exists t, parse g f rule input k = Fail t).
Proof.
  intros g W D rule input k R.
  destruct (wf_auto_terminates g W rule input k) as [f Hf]. exists f.
  pose proof (parse_no_err g D f rule input k R) as E.
  destruct (parse g f rule input k) as [s t|t| |]; [left; eexists; eexists; reflexivity|right; eexists; reflexivity| |];
    congruence.
Qed.

(* non-vacuity: the bundled JSON grammars and pest's meta-grammar pass the validator; a
   left-recursive grammar and a repetition over an optional do not *)
Example wf_bundled : wf_auto json_grammar = true /\ wf_auto json_test_grammar = true /\ wf_auto meta_grammar = true.
Proof. vm_compute. repeat split. Qed.
Example wf_rejects : wf_auto [{| r_name := 5; r_silent := false; r_kind := KNormal;
                                 r_body := ESeq [ERef 5 None; EStr [120%N]] |}] = false
                  /\ wf_auto [{| r_name := 5; r_silent := false; r_kind := KNormal;
                                 r_body := EStar (EOpt (EStr [120%N])) |}] = false.
Proof. vm_compute. split; reflexivity. Qed.

(* ---- the two machines as modelled (Interp.v = the interpreter, Gen.v = the generated code; both
   tied exactly to the code on every run): for every grammar the certificate accepts, every
   start rule, input and start position, each of them FINISHES, never in an inconsistent state
   (ICrash / GCrash: an IndexError on an empty checkpoint or rule stack), and — being functions —
   returns the same result every time. Side conditions as in C01. *)
Definition one_modifier (g : grammar) : Prop :=
  forall n r, lookup g n = Some r -> r_silent r = true -> r_kind r = KNormal \/ r_kind r = KAtomic.
Lemma one_modifier_silent_ok g : one_modifier g ->
  forall n r, lookup g n = Some r -> r_silent r = true -> silent_ok g r.
Proof.
  intros NS n r L S. destruct (NS n r L S) as [K|K].
  - right; left; exact K.
  - left; unfold hides; rewrite K; reflexivity.
Qed.

Theorem C07_interpreter_total : forall g, one_modifier g -> wf_auto g = true ->
  forall rule input k, exists f,
    match iparse g f rule input k with IOk _ _ _ | IUndef => True | ICrash | IFuel => False end.
Proof.
  intros g NS W rule input k.
  destruct (wf_auto_terminates g W rule input k) as [f D].
  destruct (iparse_terminates g (one_modifier_silent_ok g NS) f rule input k _ eq_refl D) as [f' D'].
  exists f'. pose proof (iparse_refines g (one_modifier_silent_ok g NS) f' rule input k) as R.
  destruct (iparse g f' rule input k) as [m s ps| | |]; [exact I|exact R|exact I|congruence].
Qed.

Theorem C07_generated_total : forall g inl, one_modifier g -> inl_ok g inl -> wf_auto g = true ->
  forall rule input k, inlined inl rule = false -> exists f,
    match gparse g inl f rule input k with GOk _ _ _ | GUndef => True | GCrash | GFuel => False end.
Proof.
  intros g inl NS HI W rule input k HR.
  destruct (wf_auto_terminates g W rule input k) as [f D].
  destruct (gparse_terminates g inl (one_modifier_silent_ok g NS) HI f rule input k _ HR eq_refl D) as [f' D'].
  exists f'.
  pose proof (gparse_inl g inl HI f' rule input k HR) as B.
  pose proof (gparse_refines g (one_modifier_silent_ok g NS) f' rule input k) as R.
  destruct (gparse g inl f' rule input k) as [m s ps| | |]; [exact I| |exact I|congruence].
  destruct (gparse g [] f' rule input k) as [m2 s2 ps2| | |]; try contradiction.
Qed.

Print Assumptions C07_no_crash.
Print Assumptions C07_deterministic.
Print Assumptions C07_fuel_irrelevant.
Print Assumptions C07_terminates.
Print Assumptions C07_terminates_auto.
Print Assumptions C07_total.
Print Assumptions C07_interpreter_total.
Print Assumptions C07_generated_total.
