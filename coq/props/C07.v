(* C07 — parse() is total and deterministic (statements; proofs in SpecNoErr.v, SpecMono.v,
   SpecLaws.v). Termination for well-formed grammars: see C07_full below (partial). *)
From Coq Require Import List NArith ZArith.
Import ListNotations.
From PP Require Import Base Syntax Spec SpecSyn SpecMono SpecLaws SpecNoErr.

(* with every reference defined, the only results are a tree, a failure, or out-of-fuel:
   the model has no IndexError / UnboundLocalError / AssertionError / KeyError outcome at all,
   and the one abnormal outcome it has (Err, an undefined rule) is unreachable *)
Theorem C07_no_crash : forall g, all_grammar (ref_defined g) g = true ->
  forall f rule input k, (exists r, lookup g rule = Some r) -> parse g f rule input k <> Err.
Proof. exact parse_no_err. Qed.

(* deterministic: one result, independent of how much fuel beyond "enough" is given *)
Theorem C07_deterministic : forall g c t s r1 r2, runs g c t s r1 -> runs g c t s r2 -> r1 = r2.
Proof. exact runs_det. Qed.
Theorem C07_fuel_irrelevant : forall g f f' rule input k r,
  parse g f rule input k = r -> r <> Fuel -> f <= f' -> parse g f' rule input k = r.
Proof. exact parse_mono. Qed.

(* full statement, not proved: for grammars accepted by a pest-style validator (no left
   recursion, no repetition over a possibly non-consuming body) some fuel suffices *)
Definition C07_full : Prop :=
  forall (wf_grammar : grammar -> bool) g, wf_grammar g = true ->
  forall rule input k, exists f, parse g f rule input k <> Fuel.

Print Assumptions C07_no_crash.
Print Assumptions C07_deterministic.
Print Assumptions C07_fuel_irrelevant.
