(* C18 — PrattParser honours declared precedence and associativity (statements; proofs in
   PrattProof.v). `parse_expr tb f ts m` is the model of PrattParser.parse_expr on a stream
   `ts` with min_prec = m; `canon tb m t` says that in t every operator accumulated by a call
   at level m has precedence >= m (higher precedence binds tighter, equal precedence groups by
   the declared associativity through `rprec`), prefix operands are parsed at the prefix
   operator's precedence, and no operator is applied to a left operand whose right spine would
   have taken it (`below .. (rthresh ..)`). *)
From Coq Require Import List Arith.
Import ListNotations.
From PP Require Import Pratt PrattProof.

(* the tree built is always canonical for the declared table ... *)
Theorem C18_builds_canonical : forall tb f ts m t rest,
  parse_expr tb f ts m = Some (t, rest) -> canon tb m t.
Proof. exact parse_expr_canon. Qed.

(* ... its in-order yield is exactly the consumed prefix of the stream ... *)
Theorem C18_sound : forall tb f ts m t rest,
  parse_expr tb f ts m = Some (t, rest) -> yield t ++ rest = ts.
Proof. exact parse_expr_yield. Qed.

(* ... every canonical tree is what the parser builds from its own yield (so the precedence
   conditions are exact, not merely sufficient) ... *)
Theorem C18_roundtrip : forall tb t m rest, canon tb m t -> nextok tb m t rest ->
  exists f, parse_expr tb f (yield t ++ rest) m = Some (t, rest).
Proof. exact roundtrip. Qed.

(* ... hence the tree respecting the declared precedences is unique ... *)
Theorem C18_unique : forall tb t1 t2 m, canon tb m t1 -> canon tb m t2 -> yield t1 = yield t2 -> t1 = t2.
Proof. exact canon_unique. Qed.

(* ... and a well-formed stream  operand (infix operand)*  is consumed completely *)
Theorem C18_consumes_all : forall tb ts, wfs ts -> exists f t, parse_expr tb f ts 0 = Some (t, []).
Proof. exact consumes_all. Qed.

(* with PREFIX_OPS = {neg: 6} and POSTFIX_OPS = {fac: 5}, -a! is (-a)!; with fac: 7 it is -(a!) *)
Definition tb1 : table := {| pre := fun _ => 6; post := fun _ => 5; inf := fun _ => (3, false) |}.
Definition tb2 : table := {| pre := fun _ => 6; post := fun _ => 7; inf := fun _ => (3, false) |}.
Example postfix_below_prefix : parse tb1 [KPre 0; KPrim 1; KPost 0] = Some (TPost (TPre 0 (TPrim 1)) 0, []).
Proof. reflexivity. Qed.
Example postfix_above_prefix : parse tb2 [KPre 0; KPrim 1; KPost 0] = Some (TPre 0 (TPost (TPrim 1) 0), []).
Proof. reflexivity. Qed.
Example left_assoc : parse tb1 [KPrim 1; KInf 0; KPrim 2; KInf 0; KPrim 3]
  = Some (TIn (TIn (TPrim 1) 0 (TPrim 2)) 0 (TPrim 3), []).
Proof. reflexivity. Qed.

Print Assumptions C18_builds_canonical.
Print Assumptions C18_sound.
Print Assumptions C18_roundtrip.
Print Assumptions C18_unique.
Print Assumptions C18_consumes_all.
