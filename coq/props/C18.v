(* C18 — PrattParser honours declared precedence and associativity. Interim property file:
   statements proved so far; the round-trip theorem is added by PrattProof.v. *)
From Coq Require Import List Arith.
Import ListNotations.
From PP Require Import Pratt.

(* with PREFIX_OPS = {neg: 6} and POSTFIX_OPS = {fac: 5}, -a! is (-a)!; with fac: 7 it is -(a!) *)
Definition tb1 : table := {| pre := fun _ => 6; post := fun _ => 5; inf := fun _ => (3, false) |}.
Definition tb2 : table := {| pre := fun _ => 6; post := fun _ => 7; inf := fun _ => (3, false) |}.
Example postfix_below_prefix : parse tb1 [KPre 0; KPrim 1; KPost 0] = Some (TPost (TPre 0 (TPrim 1)) 0, []).
Proof. reflexivity. Qed.
Example postfix_above_prefix : parse tb2 [KPre 0; KPrim 1; KPost 0] = Some (TPre 0 (TPost (TPrim 1) 0), []).
Proof. reflexivity. Qed.
