(* C03 — core PEG operators follow pest's matching semantics (statements; proofs in SpecLaws.v,
   SpecMono.v, SpecWf.v). *)
From Coq Require Import List NArith ZArith.
Import ListNotations.
From PP Require Import Base Syntax Spec SpecMono SpecLaws SpecWf Interp InterpProof.

(* the semantics is a function: one result per (grammar, context, expression, state) *)
Theorem C03_deterministic : forall g c t s r1 r2, runs g c t s r1 -> runs g c t s r2 -> r1 = r2.
Proof. exact runs_det. Qed.

(* ordered choice commits to the first matching alternative; a failed one leaves no trace *)
Theorem C03_choice_commits : forall g c e1 es s s1 p,
  evals g c e1 s (Ok s1 p) -> evals g c (EAlt (e1 :: es)) s (Ok s1 p).
Proof. exact choice_commits. Qed.
Theorem C03_choice_backtracks : forall g c e1 es s t r,
  evals g c e1 s (Fail t) -> evals g c (EAlt es) (set_trk s t) r -> evals g c (EAlt (e1 :: es)) s r.
Proof. exact choice_backtracks. Qed.

(* repetition is greedy and never gives matches back *)
Theorem C03_star_greedy : forall g f c e s s' ps,
  run g f c (TStar e) s = Ok s' ps ->
  exists s0 s2 pw t,
    s' = set_trk s0 t /\ runs g c (TStar e) s0 (Ok s' []) /\
    skip_with g (fun c' e' => run g (pred f) c' (TEval e')) c s0 = Ok s2 pw /\
    runs g c (TEval e) s2 (Fail t).
Proof. exact star_loop_stops. Qed.

(* bounded repetitions behave as their unrolled sequences *)
Theorem C03_plus_unrolled : forall g c e s r,
  evals g c (EPlus e) s r <-> evals g c (ESeq [e; EStar e]) s r.
Proof. exact plus_unrolled. Qed.
Theorem C03_exact_unrolled : forall g c e n s r,
  evals g c (ERepN e n) s r <-> evals g c (ESeq (repeat e n)) s r.
Proof. exact repn_unrolled. Qed.
Theorem C03_min_unrolled : forall g c e n s r,
  evals g c (ERepMin e n) s r <-> evals g c (ESeq (repeat e n ++ [EStar e])) s r.
Proof. exact repmin_unrolled. Qed.
Theorem C03_max_unrolled : forall g c e n s r,
  evals g c (ERepMax e n) s r <-> evals g c (ESeq (repeat (EOpt e) n)) s r.
Proof. exact repmax_unrolled. Qed.
Theorem C03_minmax_unrolled : forall g c e m n s r,
  evals g c (ERepMinMax e m n) s r <-> evals g c (ESeq (repeat e m ++ repeat (EOpt e) (n - m))) s r.
Proof. exact repminmax_unrolled. Qed.

(* predicates consume nothing and contribute no pairs *)
Theorem C03_and_consumes_nothing : forall g c e s s1 p,
  evals g c (EAnd e) s (Ok s1 p) ->
  p = [] /\ s_pos s1 = s_pos s /\ s_rest s1 = s_rest s /\ s_stk s1 = s_stk s /\ s_tags s1 = s_tags s.
Proof. exact and_consumes_nothing. Qed.
Theorem C03_not_consumes_nothing : forall g c e s s1 p,
  evals g c (ENot e) s (Ok s1 p) ->
  p = [] /\ s_pos s1 = s_pos s /\ s_rest s1 = s_rest s /\ s_stk s1 = s_stk s /\ s_tags s1 = s_tags s.
Proof. exact not_consumes_nothing. Qed.

(* exactly one pair per successful application of a non-silent start rule, with its span *)
Theorem C03_one_pair_per_rule : forall g input k f rule r s' tree,
  lookup g rule = Some r -> r_silent r = false ->
  parse g f rule input k = Ok s' tree ->
  exists kids tag, tree = [Pair rule (N.of_nat k) (s_pos s') kids tag].
Proof. exact parse_single_root. Qed.

(* non-vacuity: balanced = { "(" ~ balanced* ~ ")" } accepts "(())" and rejects "(()" *)
Definition g_bal : grammar :=
  [{| r_name := 5; r_silent := false; r_kind := KNormal;
      r_body := ESeq [EStr [40%N]; EStar (ERef 5 None); EStr [41%N]] |}].
Example balanced_accepts :
  parse g_bal 40 5 [40; 40; 41; 41]%N 0 =
  Ok {| s_pos := 4; s_rest := []; s_stk := []; s_tags := [];
        s_trk := {| t_pos := 3; t_exp := [5%N]; t_unexp := [] |} |}
     [Pair 5 0 4 [Pair 5 1 3 [] None] None].
Proof. vm_compute. reflexivity. Qed.
Example balanced_rejects :
  parse g_bal 40 5 [40; 40; 41]%N 0 = Fail {| t_pos := 3; t_exp := [5%N]; t_unexp := [] |}.
Proof. vm_compute. reflexivity. Qed.

(* ---- the interpreter itself (model Interp.v of src/pest/grammar/**.parse + state.py, tied to mode I
   on every run: trees, failure positions and expected sets) REFINES the reference semantics:
   whenever it finishes, the reference semantics has the same outcome — same tree, same final
   position / stack / tags, same furthest-failure record, same "undefined rule" — it never
   reaches an inconsistent state (pop of an empty checkpoint or rule stack), and it returns with
   every checkpoint, saved atomic depth and rule frame released. Side condition: a silent rule is
   not `$` or `!` (grammar text allows one modifier per rule; necessity: InterpProof.
   silent_compound_differs). Proof: InterpProof.v (simulation by induction on fuel). *)
Theorem C03_interpreter_refines_semantics : forall g,
  (forall n r, lookup g n = Some r -> r_silent r = true -> r_kind r = KNormal \/ r_kind r = KAtomic) ->
  forall f rule input k,
    match iparse g f rule input k with
    | IOk true s' ps  => (exists f', parse g f' rule input k = Ok (abs_st s') ps)
                         /\ i_saved s' = [] /\ i_dcps s' = [] /\ i_rules s' = [] /\ i_depth s' = 0
    | IOk false s' _  => (exists f', parse g f' rule input k = Fail (i_trk s'))
                         /\ i_saved s' = [] /\ i_dcps s' = [] /\ i_rules s' = []
    | IUndef          => exists f', parse g f' rule input k = Err
    | ICrash          => False
    | IFuel           => True
    end.
Proof. exact iparse_refines_one_modifier. Qed.

Print Assumptions C03_deterministic.
Print Assumptions C03_choice_commits.
Print Assumptions C03_choice_backtracks.
Print Assumptions C03_star_greedy.
Print Assumptions C03_plus_unrolled.
Print Assumptions C03_exact_unrolled.
Print Assumptions C03_min_unrolled.
Print Assumptions C03_max_unrolled.
Print Assumptions C03_minmax_unrolled.
Print Assumptions C03_and_consumes_nothing.
Print Assumptions C03_not_consumes_nothing.
Print Assumptions C03_one_pair_per_rule.
Print Assumptions C03_interpreter_refines_semantics.
