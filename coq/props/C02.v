(* C02 — optimizer passes never change what a grammar parses.
   INTERIM: the unroll pass is sound by the definition of the reference semantics (bounded
   repetitions ARE their unrolled sequences); for the other passes the statement below is
   decided differentially on every run (O vs I and OG vs IG on grammars built around each
   rewrite trigger, under the default pipeline, every single pass and seeded subsets,
   permutations and repetitions), with both sides tied to the reference semantics. A Coq model
   of the passes (Opt.v) with per-pass soundness theorems is the planned strengthening. *)
From Coq Require Import List NArith.
Import ListNotations.
From PP Require Import Base Syntax Spec SpecMono SpecLaws.

(* unroll: e+ , e{n}, e{n,}, e{,n}, e{m,n}  ->  sequences of e, e? and e* *)
Theorem C02_unroll_plus : forall g c e s r,
  evals g c (EPlus e) s r <-> evals g c (ESeq [e; EStar e]) s r.
Proof. exact plus_unrolled. Qed.
Theorem C02_unroll_exact : forall g c e n s r,
  evals g c (ERepN e n) s r <-> evals g c (ESeq (repeat e n)) s r.
Proof. exact repn_unrolled. Qed.
Theorem C02_unroll_min : forall g c e n s r,
  evals g c (ERepMin e n) s r <-> evals g c (ESeq (repeat e n ++ [EStar e])) s r.
Proof. exact repmin_unrolled. Qed.
Theorem C02_unroll_max : forall g c e n s r,
  evals g c (ERepMax e n) s r <-> evals g c (ESeq (repeat (EOpt e) n)) s r.
Proof. exact repmax_unrolled. Qed.
Theorem C02_unroll_minmax : forall g c e m n s r,
  evals g c (ERepMinMax e m n) s r <-> evals g c (ESeq (repeat e m ++ repeat (EOpt e) (n - m))) s r.
Proof. exact repminmax_unrolled. Qed.

(* skip is only applied where implicit trivia is off; there (!s ~ ANY)* is a plain loop *)
Theorem C02_skip_side_condition : forall g ev c s, c_atom c <> NonAtomic -> skip_with g ev c s = Ok s [].
Proof. exact atomic_no_trivia. Qed.

Print Assumptions C02_unroll_plus.
Print Assumptions C02_unroll_exact.
Print Assumptions C02_unroll_min.
Print Assumptions C02_unroll_max.
Print Assumptions C02_unroll_minmax.
Print Assumptions C02_skip_side_condition.
