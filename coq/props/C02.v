(* C02 — optimizer passes never change what a grammar parses.
   The passes (src/pest/grammar/optimizer.py, optimizers/*.py, choice.py) are not modelled; their
   OUTPUT is validated: `Opt.ochk_grammar g g'` is an executable checker that recognises every
   difference between the rule table before (g) and after (g') optimisation as an instance of a
   rewrite proved meaning-preserving — unrolling, (!lits ~ ANY)* -> SkipUntil where implicit
   trivia is off, inlining of plain silent rules, squashing a choice of terminals into the
   ordered alternation the compiled regex denotes — and rejects anything else. On every run the
   extracted checker is applied to the tables python-pest's optimizer actually produced (default
   pipeline, each single pass, seeded permutations / subsets / repetitions) for every generated
   grammar; a rejected table is reported (with a failing input when O vs I finds one).
   Theorem: whatever the checker accepts parses exactly like the original. Proof: OptProof.v
   (two-grammar simulation in both directions, by induction on fuel and on the derivation of the
   rewrite relation; the skip and squash lemmas by induction on the input), no axioms. *)
From Coq Require Import List NArith.
Import ListNotations.
From PP Require Import Base Syntax Spec SpecSyn SpecMono SpecLaws SpecEquiv Opt OptProof OptSkip Interp InterpProof Gen GenProof OptPass OptPassProof OptPassInline OptPassCompose OptPassIdem OptPassSilent OptPassSkip OptPassHeads OptMono OptPassSilentProof OptPassCompose3.

(* `req`: same constructor; on success the same tree and the same final position, stack and tags;
   failure with failure; undefined rule with undefined rule *)
Theorem C02_validated_optimization_preserves_meaning : forall g g' fuel, ochk_grammar g g' fuel = true ->
  forall rule input k, defined_in g rule = true ->
    (forall f r, parse g f rule input k = r -> r <> Fuel -> exists f', req (parse g' f' rule input k) r) /\
    (forall f r, parse g' f rule input k = r -> r <> Fuel -> exists f', req (parse g f' rule input k) r).
Proof. exact ochk_sound. Qed.

(* the fused SKIP rule the optimizer adds (and the optimised parsers call instead of
   iterating WHITESPACE / COMMENT): validated by `ochk_skip`, it consumes exactly what pest's implicit
   skipping consumes in the ORIGINAL grammar, with the same pairs (OptSkip.v) *)
Theorem C02_fused_skip_rule_is_implicit_skipping : forall g g' fuel,
  ochk_grammar g g' fuel = true -> ochk_skip g g' fuel = true -> defined_in g' SKIP_ID = true ->
  forall c s, c_atom c = NonAtomic ->
    (forall r, skips g c s r -> exists r', evals g' (sup_ctx c) (ERef SKIP_ID None) s r' /\ req r' r) /\
    (forall r', evals g' (sup_ctx c) (ERef SKIP_ID None) s r' -> exists r, skips g c s r /\ req r r').
Proof. exact skip_rule_sound. Qed.

(* hence for the two machines (Interp.v: modes I / O, Gen.v: modes IG / OG): on a validated pair of
   tables, whenever the interpreter finishes on both, it returns the same tree or fails on both *)
Definition one_modifier (g : grammar) : Prop :=
  forall n r, lookup g n = Some r -> r_silent r = true -> r_kind r = KNormal \/ r_kind r = KAtomic.
Lemma one_modifier_silent_ok g : one_modifier g ->
  forall n r, lookup g n = Some r -> r_silent r = true -> silent_ok g r.
Proof.
  intros NS n r L S. destruct (NS n r L S) as [K|K].
  - right; left; exact K.
  - left; unfold hides; rewrite K; reflexivity.
Qed.

Lemma parse_det g f1 f2 rule input k r1 r2 :
  parse g f1 rule input k = r1 -> r1 <> Fuel -> parse g f2 rule input k = r2 -> r2 <> Fuel -> r1 = r2.
Proof.
  intros H1 D1 H2 D2.
  assert (A := parse_mono g f1 (max f1 f2) rule input k _ H1 D1 (PeanoNat.Nat.le_max_l _ _)).
  assert (B := parse_mono g f2 (max f1 f2) rule input k _ H2 D2 (PeanoNat.Nat.le_max_r _ _)).
  congruence.
Qed.

Lemma link g g' fuel : ochk_grammar g g' fuel = true ->
  forall rule input k, defined_in g rule = true ->
  forall fa fc r1 r2, parse g fa rule input k = r1 -> r1 <> Fuel ->
    parse g' fc rule input k = r2 -> r2 <> Fuel -> req r2 r1.
Proof.
  intros V rule input k D fa fc r1 r2 H1 D1 H2 D2.
  destruct (ochk_sound g g' fuel V rule input k D) as [FW _].
  destruct (FW fa r1 H1 D1) as [fb Hb].
  assert (Nb : parse g' fb rule input k <> Fuel) by (eapply req_nofuel; eassumption).
  rewrite (parse_det g' fb fc rule input k _ _ eq_refl Nb H2 D2) in Hb. exact Hb.
Qed.

Theorem C02_interpreter_optimized_equals_unoptimized : forall g g' fuel,
  ochk_grammar g g' fuel = true -> one_modifier g -> one_modifier g' ->
  forall rule input k f1 f2, defined_in g rule = true ->
    match iparse g f1 rule input k, iparse g' f2 rule input k with
    | IOk true s1 p1, IOk true s2 p2 => p1 = p2 /\ i_pos s1 = i_pos s2 /\ i_user s1 = i_user s2
    | IOk false _ _, IOk false _ _ => True
    | IUndef, IUndef => True
    | IFuel, _ | _, IFuel => True
    | _, _ => False
    end.
Proof.
  intros g g' fuel V N1 N2 rule input k f1 f2 D.
  pose proof (iparse_refines g (one_modifier_silent_ok g N1) f1 rule input k) as R1.
  pose proof (iparse_refines g' (one_modifier_silent_ok g' N2) f2 rule input k) as R2.
  pose proof (link g g' fuel V rule input k D) as L.
  destruct (iparse g f1 rule input k) as [m1 s1 p1| | |]; [|contradiction| |exact I].
  - destruct (iparse g' f2 rule input k) as [m2 s2 p2| | |]; [|contradiction| |destruct m1; exact I].
    + destruct m1, m2.
      * destruct R1 as [[fa Ha] _]. destruct R2 as [[fc Hc] _].
        assert (Q := L fa fc _ _ Ha ltac:(discriminate) Hc ltac:(discriminate)).
        cbn [req] in Q. destruct Q as [Hs Hp]. unfold same_core, st_core in Hs. cbn in Hs.
        inversion Hs. subst. repeat split; reflexivity.
      * destruct R1 as [[fa Ha] _]. destruct R2 as [[fc Hc] _].
        exact (L fa fc _ _ Ha ltac:(discriminate) Hc ltac:(discriminate)).
      * destruct R1 as [[fa Ha] _]. destruct R2 as [[fc Hc] _].
        exact (L fa fc _ _ Ha ltac:(discriminate) Hc ltac:(discriminate)).
      * exact I.
    + destruct R2 as [fc Hc]. destruct m1; destruct R1 as [[fa Ha] _];
        exact (L fa fc _ _ Ha ltac:(discriminate) Hc ltac:(discriminate)).
  - destruct R1 as [fa Ha].
    destruct (iparse g' f2 rule input k) as [m2 s2 p2| | |]; [|contradiction|exact I|exact I].
    destruct m2; destruct R2 as [[fc Hc] _];
      exact (L fa fc _ _ Ha ltac:(discriminate) Hc ltac:(discriminate)).
Qed.

(* the individual rewrites, as laws of the reference semantics *)
Theorem C02_unroll_plus : forall g c e s r,
  evals g c (EPlus e) s r <-> evals g c (ESeq [e; EStar e]) s r.
Proof. exact plus_unrolled. Qed.
Theorem C02_unroll_exact : forall g c e n s r,
  evals g c (ERepN e n) s r <-> evals g c (ESeq (repeat e n)) s r.
Proof. exact repn_unrolled. Qed.
Theorem C02_unroll_min : forall g c e n s r,
  evals g c (ERepMin e n) s r <-> evals g c (ESeq (repeat e n ++ [EStar e])) s r.
Proof. exact repmin_unrolled. Qed.
Theorem C02_unroll_max : forall g c e n s r,
  evals g c (ERepMax e n) s r <-> evals g c (ESeq (repeat (EOpt e) n)) s r.
Proof. exact repmax_unrolled. Qed.
Theorem C02_unroll_minmax : forall g c e m n s r,
  evals g c (ERepMinMax e m n) s r <-> evals g c (ESeq (repeat e m ++ repeat (EOpt e) (n - m))) s r.
Proof. exact repminmax_unrolled. Qed.
Theorem C02_skip_side_condition : forall g ev c s, c_atom c <> NonAtomic -> skip_with g ev c s = Ok s [].
Proof. exact atomic_no_trivia. Qed.

(* ---- the unroll PASS itself (not only its output) ----
   OptPass.v transcribes Expression.map_bottom_up, the POSTORDER step of Optimizer.optimize (built-in entries
   skipped) and unroller.unroll; on every run the table the real pass produces alone is compared, rule by rule,
   with the table the extracted model computes (driver command U: evidence key optimizer_pass_model_tie).
   For EVERY grammar (distinct rule names, no user rule on the reserved SKIP identifier, every e{m,n} with
   m <= n) the model's output is accepted by the validator, hence parses exactly like the original. *)
Theorem C02_unroll_pass_output_is_validated : forall bi g,
  names_nodup g = true -> defined_in g SKIP_ID = false -> all_grammar count_ok g = true ->
  ochk_grammar g (pass_unroll bi g) (gdepth g) = true.
Proof. exact pass_unroll_validated. Qed.

Theorem C02_unroll_pass_preserves_meaning : forall bi g,
  names_nodup g = true -> defined_in g SKIP_ID = false -> all_grammar count_ok g = true ->
  forall rule input k, defined_in g rule = true ->
    (forall f r, parse g f rule input k = r -> r <> Fuel ->
       exists f', req (parse (pass_unroll bi g) f' rule input k) r) /\
    (forall f r, parse (pass_unroll bi g) f rule input k = r -> r <> Fuel ->
       exists f', req (parse g f' rule input k) r).
Proof. exact pass_unroll_sound. Qed.

(* repeating the unroll pass changes nothing more: its image contains none of the operators it rewrites *)
Theorem C02_unroll_pass_idempotent : forall bi g, pass_unroll bi (pass_unroll bi g) = pass_unroll bi g.
Proof. exact pass_unroll_idempotent. Qed.

(* ---- the inline_builtin PASS itself: map_top_down (the node first, then the children of the RESULT, so
   built-ins nested in the body of a built-in are inlined too; fuel, None when exhausted) with
   inliners.inline_builtin. Whenever the model returns a table (it always does within the fuel the driver gives
   it: tie), that table is accepted by the validator and parses like the original. builtins_plain: the
   BuiltInRule entries other than EOI are plain silent rules (the exporter enforces it). *)
Theorem C02_inline_builtin_pass_output_is_validated : forall bi fuel g g',
  names_nodup g = true -> defined_in g SKIP_ID = false -> builtins_plain bi g = true ->
  gdepth g <= 2 * fuel -> pass_inline_builtin bi fuel g = Some g' ->
  ochk_grammar g g' (2 * fuel) = true.
Proof. exact pass_inline_builtin_validated. Qed.

Theorem C02_inline_builtin_pass_preserves_meaning : forall bi fuel g g',
  names_nodup g = true -> defined_in g SKIP_ID = false -> builtins_plain bi g = true ->
  gdepth g <= 2 * fuel -> pass_inline_builtin bi fuel g = Some g' ->
  forall rule input k, defined_in g rule = true ->
    (forall f r, parse g f rule input k = r -> r <> Fuel -> exists f', req (parse g' f' rule input k) r) /\
    (forall f r, parse g' f rule input k = r -> r <> Fuel -> exists f', req (parse g f' rule input k) r).
Proof. exact pass_inline_builtin_sound. Qed.

(* ---- any subset, order or repetition of the two modelled passes ----
   `psteps bi g g'`: g' is obtained from g by any finite sequence of unroll / inline_builtin steps (each step of the
   top-down pass with any fuel that lets it finish and covers the depth of the table). `dom`: the hypotheses of the
   two pass theorems; every step preserves them (OptPassCompose.pstep_dom), and the equivalence is transitive. *)
Theorem C02_modelled_passes_compose : forall bi g g',
  psteps bi g g' -> dom bi g ->
  forall rule input k, defined_in g rule = true ->
    (forall f r, parse g f rule input k = r -> r <> Fuel -> exists f', req (parse g' f' rule input k) r) /\
    (forall f r, parse g' f rule input k = r -> r <> Fuel -> exists f', req (parse g f' rule input k) r).
Proof. exact psteps_geq. Qed.

(* ---- the inline-silent PASS itself: inliners.inline_silent_rules with the cycle check _refers_to, run bottom-up
   and IN PLACE over the table in dict order (a rule rewritten earlier is seen in its new form by the rules
   rewritten after it). For every grammar with distinct rule names, no user rule on the reserved SKIP identifier
   and any duplicate-free order: the table the pass produces is accepted by the validator, hence parses like the
   original. (Invariant through the fold: the current body of every rule is a validated image of its original body;
   OptMono.ochk_mono_le lifts the older facts to the growing fuel.) *)
Theorem C02_inline_silent_pass_output_is_validated : forall bi order g,
  names_nodup g = true -> defined_in g SKIP_ID = false -> nodupN order = true ->
  ochk_grammar g (pass_inline_silent bi order g) (length order * gdepth g + gdepth g) = true.
Proof. exact pass_inline_silent_validated. Qed.

Theorem C02_inline_silent_pass_preserves_meaning : forall bi order g,
  names_nodup g = true -> defined_in g SKIP_ID = false -> nodupN order = true ->
  forall rule input k, defined_in g rule = true ->
    (forall f r, parse g f rule input k = r -> r <> Fuel ->
       exists f', req (parse (pass_inline_silent bi order g) f' rule input k) r) /\
    (forall f r, parse (pass_inline_silent bi order g) f rule input k = r -> r <> Fuel ->
       exists f', req (parse g f' rule input k) r).
Proof. exact pass_inline_silent_sound. Qed.

(* ---- any subset, order or repetition of the THREE proved passes (unroll, inline built-in, inline silent) ----
   `psteps3 bi g g'`: g' is obtained from g by any finite sequence of steps, each one of the three passes (the
   in-place pass with any duplicate-free order). Every step preserves `dom` (OptPassCompose3.pstep3_dom). *)
Theorem C02_proved_passes_compose : forall bi g g',
  psteps3 bi g g' -> dom bi g ->
  forall rule input k, defined_in g rule = true ->
    (forall f r, parse g f rule input k = r -> r <> Fuel -> exists f', req (parse g' f' rule input k) r) /\
    (forall f r, parse g' f rule input k = r -> r <> Fuel -> exists f', req (parse g f' rule input k) r).
Proof. exact psteps3_geq. Qed.

(* ---- what no modelled pass changes ----
   all four modelled passes (unroll, inline built-in, inline silent, and skip, which is tied exactly but whose
   meaning preservation is NOT proved) return the same rules in the same order, each with its
   name, silence and atomicity: only bodies are rewritten; no rule is added, dropped, renamed or re-modified *)
Theorem C02_modelled_passes_keep_rule_heads : forall bi any_id fuel order g,
  same_heads g (pass_unroll bi g) /\
  same_heads g (pass_inline_silent bi order g) /\
  (forall g', pass_skip bi any_id fuel order g = Some g' -> same_heads g g') /\
  (forall g', all_grammar count_ok g = true -> pass_inline_builtin bi fuel g = Some g' -> same_heads g g').
Proof.
  intros bi any_id fuel order g. split; [apply unroll_pass_heads|]. split; [apply inline_silent_heads|].
  split; [intros g'; apply skip_heads|intros g'; apply inline_builtin_pass_heads].
Qed.

(* the validator's verdict does not hinge on the fuel the driver gives it (200): whatever it accepts, it accepts
   with any larger fuel *)
Theorem C02_validator_monotone_in_fuel : forall g g' f,
  ochk_grammar g g' f = true -> ochk_grammar g g' (S f) = true.
Proof. exact ochk_grammar_mono. Qed.

(* non-vacuity: the checker accepts a real optimizer output (unroll + squash + fused SKIP rule) and
   rejects the reordering of "a" | "ab" and a skip rewrite where trivia applies *)
Definition R n sil k b := {| r_name := n; r_silent := sil; r_kind := k; r_body := b |}.
Example validator_accepts : ochk_grammar
    [R 0 true KNormal (EAlt [EStr [32%N]; EStr [9%N]]);
     R 4 false KNormal (ESeq [EPlus (EGrp (EAlt [ERange 122 97; EStr [120%N]; ERange 51 52; ERange 98 98]) None); EOpt (EStr [33%N])])]
    [R 2 true KAtomic (EStar (EAlt [ECls [(9,9);(32,32)]%N])); R 0 true KNormal (EAlt [ECls [(9,9);(32,32)]%N]);
     R 4 false KNormal (ESeq [ESeq [EAlt [ECls [(51,52);(98,98);(120,120)]%N];
                                    EStar (EGrp (EAlt [ECls [(51,52);(98,98);(120,120)]%N]) None)]; EOpt (EStr [33%N])])] 200 = true.
Proof. vm_compute. reflexivity. Qed.
Example validator_rejects_reordering :
  ochk_grammar [R 4 false KNormal (EAlt [EStr [97%N]; EStr [97;98]%N])]
               [R 4 false KNormal (EAlt [EStr [97;98]%N; ECls [(97,97)]%N])] 200 = false.
Proof. vm_compute. reflexivity. Qed.
Example validator_rejects_skip_under_trivia :
  ochk_grammar [R 0 true KNormal (EStr [32%N]); R 4 false KNormal (EStar (EGrp (ESeq [ENot (EStr [98%N]); EAny]) None))]
               [R 0 true KNormal (EStr [32%N]); R 4 false KNormal (ESkipUntil [[98%N]])] 200 = false.
Proof. vm_compute. reflexivity. Qed.

(* non-vacuity of the pass theorems: a table that meets the hypotheses and that the pass really rewrites
   (a tagged and an untagged group under +, {2}, {1,}, {,2}, {1,3}, nested) *)
Example unroll_pass_rewrites :
  let g := [R 4 false KNormal (ESeq [EPlus (EGrp (EStr [97%N]) None); EPlus (EGrp (ERef 5 None) (Some 0%N));
                                     ERepMinMax (ERepN (EStr [98%N]) 2) 1 3]);
            R 5 true KAtomic (EAlt [ERepMin (ERange 48 57) 1; ERepMax EAny 2])] in
  names_nodup g = true /\ defined_in g SKIP_ID = false /\ all_grammar count_ok g = true /\
  pass_unroll (fun _ => false) g =
    [R 4 false KNormal (ESeq [ESeq [EStr [97%N]; EStar (EGrp (EStr [97%N]) None)];
                              ESeq [EGrp (ERef 5 None) (Some 0%N); EStar (EGrp (ERef 5 None) (Some 0%N))];
                              ESeq [ESeq [EStr [98%N]; EStr [98%N]];
                                    EOpt (ESeq [EStr [98%N]; EStr [98%N]]); EOpt (ESeq [EStr [98%N]; EStr [98%N]])]]);
     R 5 true KAtomic (EAlt [ESeq [ERange 48 57; EStar (ERange 48 57)]; ESeq [EOpt EAny; EOpt EAny]])].
Proof. vm_compute. repeat split; reflexivity. Qed.

(* a built-in (10) whose body mentions another built-in (11), used under a repetition and with a tag *)
Example inline_builtin_pass_rewrites :
  let g := [R 4 false KNormal (ESeq [EStar (ERef 10 None); ERef 11 (Some 0%N); ERef 3 None]);
            R 10 true KNormal (EAlt [ERef 11 None; EStr [95%N]]);
            R 11 true KNormal (ERange 48 57);
            R 3 false KNormal EEoi] in
  let bi := fun n => orb (N.leb 10 n) (N.eqb n 3) in
  names_nodup g = true /\ defined_in g SKIP_ID = false /\ builtins_plain bi g = true /\ (gdepth g <= 2 * 10)%nat /\
  pass_inline_builtin bi 10 g =
    Some [R 4 false KNormal (ESeq [EStar (EAlt [ERange 48 57; EStr [95%N]]); ERef 11 (Some 0%N); ERef 3 None]);
          R 10 true KNormal (EAlt [ERef 11 None; EStr [95%N]]);
          R 11 true KNormal (ERange 48 57);
          R 3 false KNormal EEoi].
Proof. vm_compute. repeat split; try reflexivity. repeat constructor. Qed.

(* unroll, then inline built-ins, then unroll again, on a table that meets `dom` *)
Example passes_compose_nonvacuous :
  let g := [R 4 false KNormal (ESeq [EPlus (ERef 10 None); ERepN (EGrp (ERef 11 None) None) 2]);
            R 10 true KNormal (EAlt [ERef 11 None; EStr [95%N]]);
            R 11 true KNormal (ERange 48 57)] in
  let bi := fun n => N.leb 10 n in
  dom bi g /\
  exists g1 g2, pass_inline_builtin bi 10 (pass_unroll bi g) = Some g1 /\ g2 = pass_unroll bi g1 /\
    psteps bi g g2 /\
    lookup g2 4 = Some (R 4 false KNormal
      (ESeq [ESeq [EAlt [ERange 48 57; EStr [95%N]]; EStar (EAlt [ERange 48 57; EStr [95%N]])];
             ESeq [EGrp (ERange 48 57) None; EGrp (ERange 48 57) None]])).
Proof.
  split; [repeat split; vm_compute; reflexivity|].
  eexists. eexists. split; [vm_compute; reflexivity|]. split; [reflexivity|]. split; [|vm_compute; reflexivity].
  eapply PSS_cons; [apply PS_unroll|].
  eapply PSS_cons; [eapply (PS_inline _ _ 10); [vm_compute; repeat constructor|vm_compute; reflexivity]|].
  eapply PSS_cons; [apply PS_unroll|]. apply PSS_nil.
Qed.

(* a chain of plain silent rules and a recursive one: 6 is inlined into 5 first, 5 (already rewritten) into 4;
   the recursive silent rule 7 is left alone *)
Example inline_silent_pass_rewrites :
  let g := [R 4 false KNormal (ESeq [ERef 5 None; ERef 7 None; ERef 5 (Some 0%N)]);
            R 6 true KNormal (EStr [98%N]);
            R 5 true KNormal (EAlt [ERef 6 None; EStr [97%N]]);
            R 7 true KNormal (EOpt (ESeq [EStr [99%N]; ERef 7 None]))] in
  names_nodup g = true /\ defined_in g SKIP_ID = false /\ nodupN [6;5;7;4]%N = true /\
  pass_inline_silent (fun _ => false) [6;5;7;4]%N g =
    [R 4 false KNormal (ESeq [EAlt [EStr [98%N]; EStr [97%N]]; ERef 7 None; ERef 5 (Some 0%N)]);
     R 6 true KNormal (EStr [98%N]);
     R 5 true KNormal (EAlt [EStr [98%N]; EStr [97%N]]);
     R 7 true KNormal (EOpt (ESeq [EStr [99%N]; ERef 7 None]))].
Proof. vm_compute. repeat split; reflexivity. Qed.

Print Assumptions C02_validated_optimization_preserves_meaning.
Print Assumptions C02_modelled_passes_compose.
Print Assumptions C02_unroll_pass_idempotent.
Print Assumptions C02_modelled_passes_keep_rule_heads.
Print Assumptions C02_validator_monotone_in_fuel.
Print Assumptions C02_inline_silent_pass_output_is_validated.
Print Assumptions C02_inline_silent_pass_preserves_meaning.
Print Assumptions C02_proved_passes_compose.
Print Assumptions C02_inline_builtin_pass_output_is_validated.
Print Assumptions C02_inline_builtin_pass_preserves_meaning.
Print Assumptions C02_unroll_pass_output_is_validated.
Print Assumptions C02_unroll_pass_preserves_meaning.
Print Assumptions C02_interpreter_optimized_equals_unoptimized.
Print Assumptions C02_unroll_plus.
Print Assumptions C02_unroll_exact.
Print Assumptions C02_unroll_min.
Print Assumptions C02_unroll_max.
Print Assumptions C02_unroll_minmax.
Print Assumptions C02_skip_side_condition.
Print Assumptions C02_fused_skip_rule_is_implicit_skipping.
