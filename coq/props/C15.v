(* C15 — parsers are isolated, reusable and re-entrant. PARTIAL by nature: the model of a
   process is a list of created parsers, each holding its own rule table, and `parse` reads
   nothing else; history independence is then immediate. That python-pest's parse() really
   reads only its own table and immutable shared data is monitored on every run (fingerprints
   of Parser.BUILTIN and of the default optimizer after every operation; results in long
   histories vs a fresh interpreter; threads vs sequential). Scheduling below the granularity of
   one parse() call is CPython's and outside the model. *)
From Coq Require Import List NArith Arith.
Import ListNotations.
From PP Require Import Base Syntax Spec SpecMono.

Inductive wop :=
| NewParser (g : grammar)
| ParseWith (i : nat) (rule : N) (input : text) (k : nat).

Definition world := list grammar.          (* parsers created so far, oldest first *)

Definition wstep (fuel : nat) (w : world) (o : wop) : world * option res :=
  match o with
  | NewParser g => (w ++ [g], None)
  | ParseWith i rule input k =>
      (w, match nth_error w i with Some g => Some (parse g fuel rule input k) | None => None end)
  end.

Fixpoint wrun (fuel : nat) (w : world) (ops : list wop) : world :=
  match ops with [] => w | o :: ops' => wrun fuel (fst (wstep fuel w o)) ops' end.

(* creating parsers and parsing never changes an existing parser *)
Lemma wrun_keeps : forall fuel ops w i g, nth_error w i = Some g -> nth_error (wrun fuel w ops) i = Some g.
Proof.
  induction ops as [|o ops IH]; intros w i g H; [exact H|]. cbn [wrun]. apply IH.
  destruct o; cbn [wstep fst]; [|exact H].
  rewrite nth_error_app1; [exact H|]. apply nth_error_Some. congruence.
Qed.

(* the result of a parse depends only on that parser's grammar, the rule, the input and the
   start position — not on what was created or parsed before or in between *)
Theorem C15_history_independent : forall fuel before between g rule input k,
  let w := wrun fuel (wrun fuel [] before ++ [g]) between in
  snd (wstep fuel w (ParseWith (length (wrun fuel [] before)) rule input k))
  = Some (parse g fuel rule input k).
Proof.
  intros fuel before between g rule input k w. cbn [wstep snd].
  assert (H : nth_error (wrun fuel [] before ++ [g]) (length (wrun fuel [] before)) = Some g).
  { rewrite nth_error_app2 by apply le_n. rewrite Nat.sub_diag. reflexivity. }
  unfold w. rewrite (wrun_keeps fuel between _ _ _ H). reflexivity.
Qed.

Print Assumptions C15_history_independent.
