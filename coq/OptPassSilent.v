(* OptPassSilent.v — model of the "inline silent" pass: inliners.inline_silent_rules with its cycle check
   inliners._refers_to, run by Optimizer.optimize as a POSTORDER step over the rule table IN PLACE: the rules are
   rewritten in the order of the table (dict order), and a rule rewritten earlier is seen in its new form by the rules
   rewritten after it. Tied exactly (driver command U inline-silent, with the dict order of the user rules). *)
From Coq Require Import List NArith ZArith Bool Arith.
Import ListNotations.
From PP Require Import Base Syntax Spec CharClass Opt OptPass.

Fixpoint esize (e : expr) : nat :=
  match e with
  | ESeq es | EAlt es =>
      S ((fix go (l : list expr) : nat := match l with [] => 0%nat | x :: l' => (esize x + go l')%nat end) es)
  | EOpt a | EStar a | EPlus a | ERepN a _ | ERepMin a _ | ERepMax a _ | ERepMinMax a _ _
  | EAnd a | ENot a | EGrp a _ | EPush a => S (esize a)
  | _ => 1%nat
  end.
Definition gsize (g : grammar) : nat := fold_right (fun r acc => (esize (r_body r) + acc)%nat) 0%nat g.

Section S.
Variable bi : N -> bool.     (* embedded BuiltInRule objects (never Identifiers) *)

(* _refers_to: does a reference to `name` occur in the expressions of `todo`, following references to plain
   silent rules (each rule once)? One unit of fuel per node; the caller gives more than the nodes there are. *)
Fixpoint refs_to (fuel : nat) (tbl : grammar) (name : N) (todo : list expr) (vis : list N) : bool :=
  match fuel with
  | O => true
  | S f =>
    match todo with
    | [] => false
    | e :: rest =>
      match e with
      | ERef n _ =>
          if bi n then refs_to f tbl name rest vis
          else if N.eqb n name then true
          else if memN n vis then refs_to f tbl name rest vis
          else match lookup tbl n with
               | Some r => if plain_silent r then refs_to f tbl name (r_body r :: rest) (n :: vis)
                           else refs_to f tbl name rest (n :: vis)
               | None => refs_to f tbl name rest (n :: vis)
               end
      | ESeq es | EAlt es => refs_to f tbl name (es ++ rest) vis
      | EOpt a | EStar a | EPlus a | ERepN a _ | ERepMin a _ | ERepMax a _ | ERepMinMax a _ _
      | EAnd a | ENot a | EGrp a _ | EPush a => refs_to f tbl name (a :: rest) vis
      | _ => refs_to f tbl name rest vis
      end
    end
  end.

(* inline_silent_rules on one node, against the table as it is now *)
Definition inline_silent1 (tbl : grammar) (e : expr) : expr :=
  match e with
  | ERef n None =>
      if bi n then e
      else match lookup tbl n with
           | Some r =>
               if plain_silent r && negb (refs_to (S (S (esize (r_body r) + gsize tbl))) tbl n [r_body r] [])
               then r_body r else e
           | None => e
           end
  | _ => e
  end.

Definition update (g : grammar) (n : N) (b : expr) : grammar :=
  map (fun r => if N.eqb (r_name r) n then set_body r b else r) g.

(* `order`: the names of the table entries in dict order *)
Definition pass_inline_silent (order : list N) (g : grammar) : grammar :=
  fold_left (fun tbl n =>
               if bi n then tbl
               else match lookup tbl n with
                    | Some r => update tbl n (map_bu (inline_silent1 tbl) (r_body r))
                    | None => tbl
                    end) order g.
End S.
