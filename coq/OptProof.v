From Coq Require Import List NArith ZArith Bool Arith Lia.
Import ListNotations.
From PP Require Import Base Syntax Spec SpecMono SpecLaws SpecEquiv CharClass CharClassProof Opt.
Local Open Scope nat_scope.

(* ==================================================================================== *)
(* Part A: decidable equalities, terminals, the squash combinatorics (no semantics)      *)
(* ==================================================================================== *)

Lemma text_eqb_eq : forall a b, text_eqb a b = true -> a = b.
Proof.
  induction a as [|x a IH]; intros [|y b] H; cbn in H; try discriminate; [reflexivity|].
  apply andb_prop in H. destruct H as [H1 H2]. apply N.eqb_eq in H1. subst y.
  f_equal. apply IH. exact H2.
Qed.

Lemma texts_eqb_eq : forall a b, texts_eqb a b = true -> a = b.
Proof.
  induction a as [|x a IH]; intros [|y b] H; cbn in H; try discriminate; [reflexivity|].
  apply andb_prop in H. destruct H as [H1 H2]. apply text_eqb_eq in H1. subst y.
  f_equal. apply IH. exact H2.
Qed.

Lemma ranges_eqb_eq : forall a b, ranges_eqb a b = true -> a = b.
Proof.
  induction a as [|[x1 x2] a IH]; intros [|[y1 y2] b] H; cbn in H; try discriminate; [reflexivity|].
  apply andb_prop in H. destruct H as [H1 H3]. apply andb_prop in H1. destruct H1 as [H1 H2].
  apply N.eqb_eq in H1. apply N.eqb_eq in H2. subst. f_equal. apply IH. exact H3.
Qed.

Lemma optN_eqb_eq a b : optN_eqb a b = true -> a = b.
Proof. destruct a, b; cbn; intros H; try discriminate; [apply N.eqb_eq in H; subst|]; reflexivity. Qed.

Lemma optZ_eqb_eq a b : optZ_eqb a b = true -> a = b.
Proof. destruct a, b; cbn; intros H; try discriminate; [apply Z.eqb_eq in H; subst|]; reflexivity. Qed.

Lemma kind_eqb_eq a b : kind_eqb a b = true -> a = b.
Proof. destruct a, b; cbn; intros H; try discriminate; reflexivity. Qed.

Lemma term_eqb_eq a b : term_eqb a b = true -> a = b.
Proof.
  destruct a as [c1 w1|r1], b as [c2 w2|r2]; cbn; intros H; try discriminate.
  - apply andb_prop in H. destruct H as [H1 H2]. apply eqb_prop in H1. apply text_eqb_eq in H2.
    subst. reflexivity.
  - apply ranges_eqb_eq in H. subst. reflexivity.
Qed.

Lemma terms_eqb_eq : forall a b, terms_eqb a b = true -> a = b.
Proof.
  induction a as [|x a IH]; intros [|y b] H; cbn in H; try discriminate; [reflexivity|].
  apply andb_prop in H. destruct H as [H1 H2]. apply term_eqb_eq in H1. subst y.
  f_equal. apply IH. exact H2.
Qed.

(* ---------- what a terminal matches: the length of the match ---------- *)

Definition tmatch (t : term) (rest : text) : option nat :=
  match t with
  | TLit false w => match strip_prefix w rest with Some _ => Some (length w) | None => None end
  | TLit true w => match strip_prefix_ci w rest with Some _ => Some (length w) | None => None end
  | TSet rs => match rest with d :: _ => if in_ranges d rs then Some 1%nat else None | [] => None end
  end.

Fixpoint fm (ts : list term) (rest : text) : option nat :=
  match ts with
  | [] => None
  | t :: ts' => match tmatch t rest with Some n => Some n | None => fm ts' rest end
  end.

Definition orelse (a b : option nat) : option nat := match a with Some n => Some n | None => b end.

Lemma fm_app a b rest : fm (a ++ b) rest = orelse (fm a rest) (fm b rest).
Proof.
  induction a as [|t a IH]; [reflexivity|]. cbn [app fm].
  destruct (tmatch t rest); [reflexivity|exact IH].
Qed.

Definition setm (rs : list (N * N)) (rest : text) : option nat :=
  match rest with d :: _ => if in_ranges d rs then Some 1%nat else None | [] => None end.

Definition sets_of (ts : list term) : list (N * N) := concat (map set_of ts).

Lemma fm_sets : forall ts rest, forallb (fun t => negb (is_lit t)) ts = true ->
  fm ts rest = setm (sets_of ts) rest.
Proof.
  induction ts as [|t ts IH]; intros rest H.
  - destruct rest; reflexivity.
  - cbn [forallb] in H. apply andb_prop in H. destruct H as [H1 H2].
    destruct t as [ci w|rs]; [discriminate|].
    cbn [fm tmatch]. unfold sets_of. cbn [map concat set_of]. fold (sets_of ts).
    specialize (IH rest H2). unfold setm in *. destruct rest as [|d rest']; [exact IH|].
    rewrite in_ranges_app. destruct (in_ranges d rs); [reflexivity|]. cbn [orb]. exact IH.
Qed.

Lemma sets_of_lits : forall ts, forallb is_lit ts = true -> sets_of ts = [].
Proof.
  induction ts as [|t ts IH]; intros H; [reflexivity|].
  cbn [forallb] in H. apply andb_prop in H. destruct H as [H1 H2].
  destruct t as [ci w|rs]; [|discriminate]. unfold sets_of. cbn. apply IH. exact H2.
Qed.

Lemma sets_of_app a b : sets_of (a ++ b) = sets_of a ++ sets_of b.
Proof. unfold sets_of. rewrite map_app, concat_app. reflexivity. Qed.

(* ---------- prefixes, folding ---------- *)

Lemma is_prefix_refl_app : forall a b, is_prefix a (a ++ b) = true.
Proof. induction a as [|x a IH]; intros b; cbn; [reflexivity|]. rewrite N.eqb_refl. apply IH. Qed.

Lemma strip_prefix_is_prefix : forall w rest r, strip_prefix w rest = Some r ->
  is_prefix (fold_text w) (fold_text rest) = true.
Proof.
  induction w as [|c w IH]; intros rest r H; [reflexivity|].
  destruct rest as [|d rest']; cbn in H; [discriminate|].
  destruct (N.eqb_spec c d) as [->|]; [|discriminate].
  cbn. rewrite N.eqb_refl. cbn. eapply IH. exact H.
Qed.

Lemma strip_prefix_ci_is_prefix : forall w rest r, strip_prefix_ci w rest = Some r ->
  is_prefix (fold_text w) (fold_text rest) = true.
Proof.
  induction w as [|c w IH]; intros rest r H; [reflexivity|].
  destruct rest as [|d rest']; cbn in H; [discriminate|].
  destruct (N.eqb (ascii_lower c) (ascii_lower d)) eqn:E; [|discriminate].
  cbn. rewrite E. cbn. eapply IH. exact H.
Qed.

Lemma two_prefixes : forall (a b l : text), is_prefix a l = true -> is_prefix b l = true ->
  is_prefix a b || is_prefix b a = true.
Proof.
  induction a as [|x a IH]; intros b l Ha Hb; [reflexivity|].
  destruct b as [|y b]; [cbn; reflexivity|].
  destruct l as [|z l]; [discriminate|]. cbn in Ha, Hb.
  apply andb_prop in Ha. destruct Ha as [A1 A2]. apply andb_prop in Hb. destruct Hb as [B1 B2].
  apply N.eqb_eq in A1. apply N.eqb_eq in B1. subst. cbn. rewrite N.eqb_refl. cbn.
  eapply IH; eassumption.
Qed.

Lemma tmatch_lit_prefix ci w rest n : tmatch (TLit ci w) rest = Some n ->
  n = length w /\ is_prefix (fold_text w) (fold_text rest) = true.
Proof.
  destruct ci; cbn.
  - destruct (strip_prefix_ci w rest) eqn:E; intros H; inversion H; subst.
    split; [reflexivity|eapply strip_prefix_ci_is_prefix; exact E].
  - destruct (strip_prefix w rest) eqn:E; intros H; inversion H; subst.
    split; [reflexivity|eapply strip_prefix_is_prefix; exact E].
Qed.

Lemma lower_eq_cases c d : ascii_lower d = ascii_lower c -> d = c \/ ((d < 128)%N /\ (c < 128)%N).
Proof.
  unfold ascii_lower.
  destruct (N.leb_spec 65 c), (N.leb_spec c 90), (N.leb_spec 65 d), (N.leb_spec d 90);
    cbn [andb]; intros HH; lia.
Qed.

Lemma memN_existsb (p : N -> bool) d l : memN d l = true -> p d = true -> existsb p l = true.
Proof.
  induction l as [|x l IH]; cbn; intros H Hp; [discriminate|].
  apply orb_prop in H. destruct H as [H|H].
  - apply N.eqb_eq in H. subst x. rewrite Hp. reflexivity.
  - rewrite (IH H Hp). apply orb_true_r.
Qed.

Lemma lit_first_char ci c w d rest n : tmatch (TLit ci (c :: w)) (d :: rest) = Some n ->
  memN d (ascii_variants c) = true.
Proof.
  intros H. rewrite ascii_variants_spec. destruct ci; cbn in H.
  - destruct (N.eqb (ascii_lower c) (ascii_lower d)) eqn:E; [|discriminate].
    apply N.eqb_eq in E. rewrite (N.eqb_sym (ascii_lower d)), <- E, N.eqb_refl. cbn [andb].
    destruct (lower_eq_cases c d (eq_sym E)) as [->|[A B]].
    + rewrite N.eqb_refl. reflexivity.
    + apply N.ltb_lt in A. apply N.ltb_lt in B. rewrite A, B. apply orb_true_r.
  - destruct (N.eqb_spec c d) as [->|]; [|discriminate].
    rewrite !N.eqb_refl. reflexivity.
Qed.

(* `conflict` over-approximates "some input is matched by both with different lengths" *)
Lemma conflict_sound a b rest n m :
  tmatch a rest = Some n -> tmatch b rest = Some m -> n <> m -> conflict a b = true.
Proof.
  intros Ha Hb D. destruct a as [c1 w1|r1], b as [c2 w2|r2].
  - apply tmatch_lit_prefix in Ha. apply tmatch_lit_prefix in Hb.
    destruct Ha as [-> P1], Hb as [-> P2]. cbn [conflict].
    apply Nat.eqb_neq in D. rewrite D. cbn [negb andb].
    eapply two_prefixes; eassumption.
  - cbn [conflict]. destruct w1 as [|c w1]; [reflexivity|].
    cbn [tmatch] in Hb. destruct rest as [|d rest']; [discriminate|].
    destruct (in_ranges d r2) eqn:E; [|discriminate]. inversion Hb; subst m.
    assert (V := lit_first_char _ _ _ _ _ _ Ha).
    apply tmatch_lit_prefix in Ha. destruct Ha as [-> _].
    apply Nat.eqb_neq in D. rewrite D. cbn [negb andb].
    eapply memN_existsb; [exact V|exact E].
  - cbn [conflict]. destruct w2 as [|c w2]; [reflexivity|].
    cbn [tmatch] in Ha. destruct rest as [|d rest']; [discriminate|].
    destruct (in_ranges d r1) eqn:E; [|discriminate]. inversion Ha; subst n.
    assert (V := lit_first_char _ _ _ _ _ _ Hb).
    apply tmatch_lit_prefix in Hb. destruct Hb as [-> _].
    assert (D' : length (c :: w2) <> 1%nat) by congruence.
    apply Nat.eqb_neq in D'. rewrite D'. cbn [negb andb].
    eapply memN_existsb; [exact V|exact E].
  - exfalso. cbn [tmatch] in Ha, Hb. destruct rest as [|d rest']; [discriminate|].
    destruct (in_ranges d r1); [|discriminate]. destruct (in_ranges d r2); [|discriminate]. congruence.
Qed.

(* ---------- the regex order is equivalent to the source order ---------- *)

(* all matches of the terminals of l (if any) have length n *)
Lemma fm_all_len : forall l rest n,
  (forall b m, In b l -> tmatch b rest = Some m -> m = n) ->
  fm l rest = None \/ fm l rest = Some n.
Proof.
  induction l as [|t l IH]; intros rest n H; [left; reflexivity|].
  cbn [fm]. destruct (tmatch t rest) as [m|] eqn:E.
  - right. f_equal. eapply H; [left; reflexivity|exact E].
  - apply IH. intros b m Hb. apply H. right. exact Hb.
Qed.

Definition G (ts : list term) (rest : text) : option nat :=
  orelse (fm (filter is_sens ts) rest)
    (orelse (fm (filter is_insens ts) rest) (setm (sets_of ts) rest)).

Lemma orelse_same a n : (a = None \/ a = Some n) -> orelse a (Some n) = Some n.
Proof. intros [->| ->]; reflexivity. Qed.

Lemma fm_regex_order : forall ts rest, no_inverted_conflict ts = true -> fm ts rest = G ts rest.
Proof.
  induction ts as [|a ts IH]; intros rest H.
  - unfold G, sets_of, setm. cbn. destruct rest; reflexivity.
  - cbn [no_inverted_conflict] in H. apply andb_prop in H. destruct H as [H1 H2].
    specialize (IH rest H2).
    assert (NC : forall b m n, In b ts -> Nat.ltb (rank b) (rank a) = true ->
                   tmatch a rest = Some n -> tmatch b rest = Some m -> m = n).
    { intros b m n Hb Hr Ha Hm. rewrite forallb_forall in H1. specialize (H1 b Hb).
      rewrite Hr in H1. cbn [negb orb] in H1.
      destruct (Nat.eq_dec m n) as [e|ne]; [exact e|].
      rewrite (conflict_sound a b rest n m Ha Hm) in H1; [discriminate|congruence]. }
    cbn [fm]. unfold G. destruct a as [[|] w|rs].
    + (* insensitive literal *)
      cbn [filter is_sens is_insens]. unfold sets_of. cbn [map set_of concat app]. fold (sets_of ts).
      cbn [fm]. destruct (tmatch (TLit true w) rest) as [n|] eqn:E.
      * cbn [orelse]. symmetry.
        assert (A : fm (filter is_sens ts) rest = None \/ fm (filter is_sens ts) rest = Some n).
        { apply fm_all_len. intros b m Hb Hm. apply filter_In in Hb. destruct Hb as [Hb Hs].
          destruct b as [[|] wb|rb]; try discriminate. eapply NC; [exact Hb|reflexivity|reflexivity|exact Hm]. }
        destruct A as [-> | ->]; reflexivity.
      * exact IH.
    + (* sensitive literal *)
      cbn [filter is_sens is_insens]. unfold sets_of. cbn [map set_of concat app]. fold (sets_of ts).
      cbn [fm]. destruct (tmatch (TLit false w) rest) as [n|] eqn:E; [reflexivity|exact IH].
    + (* set *)
      cbn [filter is_sens is_insens]. unfold sets_of. cbn [map set_of concat]. fold (sets_of ts).
      destruct (tmatch (TSet rs) rest) as [n|] eqn:E.
      * assert (n = 1%nat).
        { cbn in E. destruct rest; [discriminate|]. destruct (in_ranges _ _); congruence. }
        subst n.
        assert (S1 : setm (rs ++ sets_of ts) rest = Some 1%nat).
        { cbn in E. unfold setm. destruct rest as [|d r]; [discriminate|]. rewrite in_ranges_app.
          destruct (in_ranges d rs); [reflexivity|discriminate]. }
        rewrite S1. symmetry.
        assert (A : fm (filter is_sens ts) rest = None \/ fm (filter is_sens ts) rest = Some 1%nat).
        { apply fm_all_len. intros b m Hb Hm. apply filter_In in Hb. destruct Hb as [Hb Hs].
          destruct b as [[|] wb|rb]; try discriminate. eapply NC; [exact Hb|reflexivity|reflexivity|exact Hm]. }
        assert (B : fm (filter is_insens ts) rest = None \/ fm (filter is_insens ts) rest = Some 1%nat).
        { apply fm_all_len. intros b m Hb Hm. apply filter_In in Hb. destruct Hb as [Hb Hs].
          destruct b as [[|] wb|rb]; try discriminate. eapply NC; [exact Hb|reflexivity|reflexivity|exact Hm]. }
        rewrite (orelse_same _ 1%nat B). apply orelse_same. exact A.
      * rewrite IH. unfold G. f_equal. f_equal.
        cbn in E. unfold setm. destruct rest as [|d r]; [reflexivity|]. rewrite in_ranges_app.
        destruct (in_ranges d rs); [discriminate|reflexivity].
Qed.

(* ---------- shape of the target ---------- *)

Lemma filter_length_le {A} (p : A -> bool) l : length (filter p l) <= length l.
Proof. induction l as [|x l IH]; cbn; [lia|]. destruct (p x); cbn; lia. Qed.

Lemma filter_full {A} (p : A -> bool) : forall l, length l <= length (filter p l) -> forallb p l = true.
Proof.
  induction l as [|x l IH]; cbn; intros H; [reflexivity|].
  destruct (p x) eqn:E; cbn in *.
  - apply IH. lia.
  - assert (X := filter_length_le p l). lia.
Qed.

Lemma filter_all {A} (p : A -> bool) : forall l, forallb p l = true -> filter p l = l.
Proof.
  induction l as [|x l IH]; cbn; intros H; [reflexivity|].
  apply andb_prop in H. destruct H as [H1 H2]. rewrite H1. f_equal. apply IH. exact H2.
Qed.

Lemma filter_none {A} (p : A -> bool) : forall l, filter p l = [] -> forallb (fun x => negb (p x)) l = true.
Proof.
  induction l as [|x l IH]; cbn; intros H; [reflexivity|].
  destruct (p x); [discriminate|]. cbn. apply IH. exact H.
Qed.

Lemma target_shape ts' : filter is_lit (skipn (length (filter is_lit ts')) ts') = [] ->
  exists L S, ts' = L ++ S /\ L = filter is_lit ts' /\ forallb is_lit L = true /\
              forallb (fun t => negb (is_lit t)) S = true.
Proof.
  intros H. set (k := length (filter is_lit ts')) in *.
  exists (firstn k ts'), (skipn k ts').
  assert (E : filter is_lit ts' = filter is_lit (firstn k ts')).
  { rewrite <- (firstn_skipn k ts') at 1. rewrite filter_app, H, app_nil_r. reflexivity. }
  assert (F : forallb is_lit (firstn k ts') = true).
  { apply filter_full. rewrite <- E. fold k. apply firstn_le_length. }
  split; [symmetry; apply firstn_skipn|]. split; [|split].
  - rewrite E. symmetry. apply filter_all. exact F.
  - exact F.
  - apply filter_none. exact H.
Qed.

Lemma fm_sens_insens ts rest :
  fm (filter is_sens ts ++ filter is_insens ts) rest =
  orelse (fm (filter is_sens ts) rest) (fm (filter is_insens ts) rest).
Proof. apply fm_app. Qed.

Lemma setm_ext a b rest : (forall c, in_ranges c a = in_ranges c b) -> setm a rest = setm b rest.
Proof. intros H. unfold setm. destruct rest; [reflexivity|]. rewrite H. reflexivity. Qed.

Lemma orelse_assoc a b c : orelse (orelse a b) c = orelse a (orelse b c).
Proof. destruct a; reflexivity. Qed.

Lemma forallb_app_lit a b : forallb is_lit a = true -> forallb is_lit b = true -> forallb is_lit (a ++ b) = true.
Proof. intros. rewrite forallb_app. rewrite H, H0. reflexivity. Qed.

Theorem squash_fm ts ts' rest : squash_ok ts ts' = true -> fm ts rest = fm ts' rest.
Proof.
  unfold squash_ok. intros H.
  apply andb_prop in H. destruct H as [H H5].
  apply andb_prop in H. destruct H as [H H4].
  apply andb_prop in H. destruct H as [H H3].
  apply andb_prop in H. destruct H as [H1 H2].
  apply terms_eqb_eq in H2. apply terms_eqb_eq in H3. apply ranges_eqb_eq in H4.
  rewrite (fm_regex_order ts rest H5).
  destruct (target_shape ts' H3) as [L [S [E [EL [FL FS]]]]].
  rewrite E, fm_app. rewrite EL, H2, fm_sens_insens. unfold G. rewrite orelse_assoc.
  f_equal. f_equal. rewrite (fm_sets S rest FS). apply setm_ext. intros c.
  assert (X : sets_of ts' = sets_of S).
  { rewrite E, sets_of_app, (sets_of_lits L FL). reflexivity. }
  rewrite <- X. unfold sets_of.
  rewrite <- (merge_ranges_mem c (concat (map set_of ts))), H4. apply merge_ranges_mem.
Qed.

(* ==================================================================================== *)
(* Part B: `earliest` / `find_sub` against a character-by-character scan                  *)
(* ==================================================================================== *)

Definition is_some {A} (o : option A) : bool := match o with Some _ => true | None => false end.

Definition pref (ws : list text) (rest : text) : bool :=
  existsb (fun w => is_some (strip_prefix w rest)) ws.

Fixpoint scan (ws : list text) (rest : text) : nat :=
  if pref ws rest then 0 else match rest with [] => 0 | _ :: r => S (scan ws r) end.

Lemma find_sub_from_shift : forall sub rest acc,
  find_sub_from sub rest (acc + 1)%N = option_map N.succ (find_sub_from sub rest acc).
Proof.
  induction rest as [|d r IH]; intros acc; cbn [find_sub_from].
  - destruct (strip_prefix sub []); cbn; [f_equal; lia|reflexivity].
  - destruct (strip_prefix sub (d :: r)); cbn; [f_equal; lia|]. apply IH.
Qed.

Lemma find_sub_here sub rest r : strip_prefix sub rest = Some r -> find_sub sub rest = Some 0%N.
Proof. intros H. unfold find_sub. destruct rest; cbn [find_sub_from]; rewrite H; reflexivity. Qed.

Lemma find_sub_nil sub : strip_prefix sub [] = None -> find_sub sub [] = None.
Proof. intros H. unfold find_sub. cbn [find_sub_from]. rewrite H. reflexivity. Qed.

Lemma find_sub_cons sub d r : strip_prefix sub (d :: r) = None ->
  find_sub sub (d :: r) = option_map N.succ (find_sub sub r).
Proof.
  intros H. unfold find_sub. cbn [find_sub_from]. rewrite H.
  change 1%N with (0 + 1)%N at 1. apply find_sub_from_shift.
Qed.

Lemma earliest_zero : forall ws rest, earliest ws rest (Some 0%N) = Some 0%N.
Proof.
  induction ws as [|w ws IH]; intros rest; cbn [earliest]; [reflexivity|].
  destruct (find_sub w rest) as [p|]; [|apply IH].
  destruct (N.ltb_spec p 0); [lia|apply IH].
Qed.

Lemma earliest_hit : forall ws rest best, pref ws rest = true -> earliest ws rest best = Some 0%N.
Proof.
  induction ws as [|w ws IH]; intros rest best H; cbn in H; [discriminate|].
  cbn [earliest]. destruct (strip_prefix w rest) as [r|] eqn:E.
  - rewrite (find_sub_here w rest r E).
    destruct best as [b|]; [|apply earliest_zero].
    destruct (N.ltb_spec 0 b); [apply earliest_zero|].
    assert (b = 0%N) by lia. subst b. apply earliest_zero.
  - cbn in H. apply IH. exact H.
Qed.

Lemma earliest_miss : forall ws rest best,
  (forall w, In w ws -> find_sub w rest = None) -> earliest ws rest best = best.
Proof.
  induction ws as [|w ws IH]; intros rest best H; cbn [earliest]; [reflexivity|].
  rewrite (H w (or_introl eq_refl)). apply IH. intros w' Hw. apply H. right. exact Hw.
Qed.

Lemma earliest_succ : forall ws d r best,
  (forall w, In w ws -> find_sub w (d :: r) = option_map N.succ (find_sub w r)) ->
  earliest ws (d :: r) (option_map N.succ best) = option_map N.succ (earliest ws r best).
Proof.
  induction ws as [|w ws IH]; intros d r best H; cbn [earliest]; [reflexivity|].
  rewrite (H w (or_introl eq_refl)).
  assert (H' : forall w', In w' ws -> find_sub w' (d :: r) = option_map N.succ (find_sub w' r)).
  { intros w' Hw. apply H. right. exact Hw. }
  destruct (find_sub w r) as [p|]; cbn [option_map].
  - destruct best as [b|]; cbn [option_map].
    + destruct (N.ltb_spec (N.succ p) (N.succ b)), (N.ltb_spec p b); try lia.
      * apply (IH d r (Some p) H').
      * apply (IH d r (Some b) H').
    + apply (IH d r (Some p) H').
  - apply (IH d r best H').
Qed.

Lemma pref_false ws rest w : pref ws rest = false -> In w ws -> strip_prefix w rest = None.
Proof.
  intros H Hw. unfold pref in H.
  destruct (strip_prefix w rest) eqn:E; [|reflexivity].
  assert (X : existsb (fun w => is_some (strip_prefix w rest)) ws = true).
  { apply existsb_exists. exists w. split; [exact Hw|rewrite E; reflexivity]. }
  congruence.
Qed.

Theorem earliest_scan : forall ws rest,
  match earliest ws rest None with Some p => p | None => lenN rest end = N.of_nat (scan ws rest).
Proof.
  intros ws. induction rest as [|d r IH]; cbn [scan].
  - destruct (pref ws []) eqn:E.
    + rewrite (earliest_hit ws [] None E). reflexivity.
    + rewrite earliest_miss; [reflexivity|].
      intros w Hw. apply find_sub_nil. eapply pref_false; eassumption.
  - destruct (pref ws (d :: r)) eqn:E.
    + rewrite (earliest_hit ws (d :: r) None E). reflexivity.
    + change (@None N) with (option_map N.succ None). rewrite earliest_succ.
      * destruct (earliest ws r None) as [p|]; cbn [option_map].
        -- rewrite IH. lia.
        -- unfold lenN in *. cbn [length]. rewrite !Nat2N.inj_succ, IH. reflexivity.
      * intros w Hw. apply find_sub_cons. eapply pref_false; eassumption.
Qed.

Lemma scan_le ws : forall rest, scan ws rest <= length rest.
Proof.
  induction rest as [|d r IH]; cbn [scan]; destruct (pref ws _); cbn [length]; lia.
Qed.

(* ==================================================================================== *)
(* Part C: a one-directional simulation between two grammars, closed under the           *)
(* constructors of the language (used once in each direction)                            *)
(* ==================================================================================== *)

Lemma lookup_name' : forall gr n r, lookup gr n = Some r -> r_name r = n.
Proof.
  induction gr as [|r0 gr IH]; intros n r H; cbn in H; [discriminate|].
  destruct (N.eqb_spec (r_name r0) n) as [E|E]; [inversion H; subst; reflexivity|eapply IH; exact H].
Qed.

Lemma lookup_In : forall gr n r, lookup gr n = Some r -> In r gr.
Proof.
  induction gr as [|r0 gr IH]; intros n r H; cbn in H; [discriminate|].
  destruct (N.eqb (r_name r0) n); [inversion H; subst; left; reflexivity|right; eapply IH; exact H].
Qed.

Lemma runs_seq_head_nok g c e1 es s x : evals g c e1 s x -> (forall s1 p, x <> Ok s1 p) ->
  runs g c (TSeq (e1 :: es)) s x.
Proof.
  intros [f [H D]] N. exists (S f). cbn [run]. rewrite H.
  destruct x; try (split; [reflexivity|exact D]). exfalso. eapply N; reflexivity.
Qed.

Definition is_leaf (e : expr) : bool :=
  match e with
  | EStr _ | ECIStr _ | ERange _ _ | EAny | ESoi | EEoi | ECls _ | EPushLit _ | EPeek
  | EPeekSl _ _ | EPeekAll | EPop | EPopAll | EDrop | ESkipUntil _ => true
  | _ => false
  end.

Lemma leaf_run ga gb e : is_leaf e = true -> forall f c s,
  run ga f c (TEval e) s = run gb f c (TEval e) s.
Proof. intros H f c s. destruct f; [reflexivity|]. destruct e; try discriminate; reflexivity. Qed.

Section Gen.
Variables ga gb : grammar.
Hypothesis Hsk : skip_expr ga = skip_expr gb.

Definition off (c : ctx) : Prop := c_atom c <> NonAtomic \/ skip_expr ga = None.
Definition okc (toff : bool) (c : ctx) : Prop := toff = true -> off c.

Lemma okc_atom toff c c' : c_atom c = c_atom c' -> okc toff c -> okc toff c'.
Proof. intros E H T. specialize (H T). unfold off in *. rewrite <- E. exact H. Qed.

Lemma okc_false c : okc false c.
Proof. intros X. discriminate. Qed.

Lemma skip_off ev c s : off c -> skip_with ga ev c s = Ok s [].
Proof.
  intros [H|H]; unfold skip_with.
  - destruct (c_atom c); [congruence|reflexivity|reflexivity].
  - rewrite H. destruct (c_atom c); reflexivity.
Qed.

Definition tsimc (f : nat) (toff : bool) (t t' : task) : Prop :=
  forall f0 c c' s s' r, f0 <= f -> okc toff c -> c_atom c = c_atom c' -> same_core s s' ->
    run ga f0 c t s = r -> r <> Fuel -> exists r', runs gb c' t' s' r' /\ req r' r.

Definition rsim (f : nat) (toff : bool) (t t' : task) : Prop :=
  forall f0 c s r, f0 <= f -> okc toff c -> run ga f0 c t s = r -> r <> Fuel ->
    exists r', runs gb c t' s r' /\ req r' r.

Definition esim (f : nat) (toff : bool) (e e' : expr) : Prop := rsim f toff (TEval e) (TEval e').

Lemma rsim_le f f1 toff t t' : f1 <= f -> rsim f toff t t' -> rsim f1 toff t t'.
Proof. intros L H f0 c s r L0. apply H. lia. Qed.

Lemma rsim_core f toff t t' : rsim f toff t t' -> tsimc f toff t t'.
Proof.
  intros H f0 c c' s s' r L Oc Hc Hs E D.
  destruct (H f0 c s r L Oc E D) as [r1 [H1 R1]].
  destruct (runs_core gb c c' t' s s' r1 Hc Hs H1) as [r' [H2 R2]].
  exists r'. split; [exact H2|eapply req_trans; eassumption].
Qed.

Lemma tsimc_rsim f toff t t' : tsimc f toff t t' -> rsim f toff t t'.
Proof. intros H f0 c s r L Oc E D. exact (H f0 c c s s r L Oc eq_refl (same_core_refl _) E D). Qed.

Lemma rsim_zero toff t t' : rsim 0 toff t t'.
Proof. intros f0 c s r L Oc E D. assert (f0 = 0) by lia. subst f0. cbn in E. congruence. Qed.

(* ---------- implicit trivia ---------- *)

Definition sksim (f : nat) : Prop :=
  forall f0 c s s' r, f0 <= f -> same_core s s' ->
    skip_with ga (fun c' e' => run ga f0 c' (TEval e')) c s = r -> r <> Fuel ->
    exists r', skips gb c s' r' /\ req r' r.

Lemma sksim_of f : (forall e, skip_expr ga = Some e -> esim f false e e) -> sksim f.
Proof.
  intros H f0 c s s' r L Hs E D. unfold skip_with in E.
  assert (TRIV : r = Ok s [] -> skip_with gb (fun c' e' => run gb 0 c' (TEval e')) c s' = Ok s' [] ->
                 exists r', skips gb c s' r' /\ req r' r).
  { intros -> K. exists (Ok s' []). split; [exists 0; split; [exact K|discriminate]|].
    split; [apply same_core_sym; exact Hs|reflexivity]. }
  destruct (c_atom c) eqn:A.
  - case_eq (skip_expr ga); [intros e K|intros K]; rewrite K in E.
    + destruct (rsim_core f false _ _ (H e K) f0 (skip_ctx c) (skip_ctx c) s s' r L
                  (okc_false _) eq_refl Hs E D) as [r' [[f' [H1 D1]] R]].
      exists r'. split; [|exact R]. exists f'. split; [|exact D1].
      unfold skip_with. rewrite A, <- Hsk, K. exact H1.
    + apply TRIV; [symmetry; exact E|]. unfold skip_with. rewrite A, <- Hsk, K. reflexivity.
  - apply TRIV; [symmetry; exact E|]. unfold skip_with. rewrite A. reflexivity.
  - apply TRIV; [symmetry; exact E|]. unfold skip_with. rewrite A. reflexivity.
Qed.

Lemma sksim_le f f1 : f1 <= f -> sksim f -> sksim f1.
Proof. intros L H f0 c s s' r L0. apply H. lia. Qed.

(* ---------- leaves, total rewrites ---------- *)

Lemma leaf_sim f toff e : is_leaf e = true -> esim f toff e e.
Proof.
  intros HL f0 c s r L Oc E D. exists r. split; [|apply req_refl].
  exists f0. split; [|exact D]. rewrite <- (leaf_run ga gb e HL). exact E.
Qed.

Lemma total_sim f toff e e' :
  (forall c s, okc toff c -> exists r r', evals ga c e s r /\ evals gb c e' s r' /\ req r' r) ->
  esim f toff e e'.
Proof.
  intros H f0 c s r0 L Oc E D. destruct (H c s Oc) as [r [r' [H1 [H2 R]]]].
  assert (X : r0 = r) by (eapply runs_det; [exists f0; split; eassumption|exact H1]). rewrite X.
  exists r'. split; [exact H2|exact R].
Qed.

(* ---------- one recursive call, post-processed ---------- *)

Lemma wrap_sim f toff toff' (K K' e e' : expr) (cf : ctx -> ctx) (sf : st -> st)
  (F F' : ctx -> st -> res -> res) :
  (forall f c s, run ga (S f) c (TEval K) s = F c s (run ga f (cf c) (TEval e) (sf s))) ->
  (forall f c s, run gb (S f) c (TEval K') s = F' c s (run gb f (cf c) (TEval e') (sf s))) ->
  (forall c s, F c s Fuel = Fuel) ->
  (forall c s x, x <> Fuel -> F' c s x <> Fuel) ->
  (forall c s x x', req x' x -> req (F' c s x') (F c s x)) ->
  (forall c, okc toff c -> okc toff' (cf c)) ->
  esim f toff' e e' -> esim (S f) toff K K'.
Proof.
  intros EF EF' FF NF RF OK H f0 c s r L Oc E D.
  destruct f0 as [|f1]; [cbn in E; congruence|]. rewrite EF in E.
  assert (DX : run ga f1 (cf c) (TEval e) (sf s) <> Fuel).
  { intros X. rewrite X, FF in E. congruence. }
  destruct (H f1 (cf c) (sf s) _ ltac:(lia) (OK c Oc) eq_refl DX) as [x' [[fx [Hx Dx]] Rx]].
  exists (F' c s x'). split.
  - exists (S fx). rewrite EF', Hx. split; [reflexivity|apply NF; exact Dx].
  - subst r. apply RF. exact Rx.
Qed.

Lemma opt_sim f toff e e' : esim f toff e e' -> esim (S f) toff (EOpt e) (EOpt e').
Proof.
  apply (wrap_sim f toff toff (EOpt e) (EOpt e') e e' (fun c => c) (fun s => s)
           (fun c s x => match x with Fail t => Ok (set_trk s t) [] | w => w end)
           (fun c s x => match x with Fail t => Ok (set_trk s t) [] | w => w end)).
  - intros f0 c s. cbn [run]. destruct (run ga f0 c (TEval e) s); reflexivity.
  - intros f0 c s. cbn [run]. destruct (run gb f0 c (TEval e') s); reflexivity.
  - reflexivity.
  - intros c s x D. destruct x; congruence.
  - intros c s x x' R. destruct x, x'; cbn in R |- *; try contradiction; try exact I; try exact R.
    split; reflexivity.
  - intros c H. exact H.
Qed.

Lemma and_sim f toff e e' : esim f toff e e' -> esim (S f) toff (EAnd e) (EAnd e').
Proof.
  apply (wrap_sim f toff toff (EAnd e) (EAnd e') e e' (fun c => c) (fun s => s)
           (fun c s x => match x with Ok s1 _ => Ok (set_trk s (s_trk s1)) [] | w => w end)
           (fun c s x => match x with Ok s1 _ => Ok (set_trk s (s_trk s1)) [] | w => w end)).
  - intros f0 c s. cbn [run]. destruct (run ga f0 c (TEval e) s); reflexivity.
  - intros f0 c s. cbn [run]. destruct (run gb f0 c (TEval e') s); reflexivity.
  - reflexivity.
  - intros c s x D. destruct x; congruence.
  - intros c s x x' R. destruct x, x'; cbn in R |- *; try contradiction; try exact I.
    split; reflexivity.
  - intros c H. exact H.
Qed.

Lemma not_sim f toff e e' : esim f toff e e' -> esim (S f) toff (ENot e) (ENot e').
Proof.
  apply (wrap_sim f toff toff (ENot e) (ENot e') e e' neg_ctx (fun s => s)
           (Fnot e) (Fnot e')).
  - intros f0 c s. cbn [run]. destruct (run ga f0 (neg_ctx c) (TEval e) s); reflexivity.
  - intros f0 c s. cbn [run]. destruct (run gb f0 (neg_ctx c) (TEval e') s); reflexivity.
  - reflexivity.
  - intros c s x D. destruct x; cbn; congruence.
  - intros c s x x' R. destruct x, x'; cbn in R |- *; try contradiction; try exact I.
    split; reflexivity.
  - intros c H. eapply okc_atom; [|exact H]. reflexivity.
Qed.

Lemma grp_sim f toff tag e e' : esim f toff e e' -> esim (S f) toff (EGrp e tag) (EGrp e' tag).
Proof.
  apply (wrap_sim f toff toff (EGrp e tag) (EGrp e' tag) e e' (fun c => c) (push_tag tag)
           (fun c s x => match x with Ok s1 ps => Ok (pop_tag tag s1) ps | w => w end)
           (fun c s x => match x with Ok s1 ps => Ok (pop_tag tag s1) ps | w => w end)).
  - intros f0 c s. cbn [run]. destruct (run ga f0 c (TEval e) _); reflexivity.
  - intros f0 c s. cbn [run]. destruct (run gb f0 c (TEval e') _); reflexivity.
  - reflexivity.
  - intros c s x D. destruct x; congruence.
  - intros c s x x' R. destruct x, x'; cbn in R |- *; try contradiction; try exact I.
    destruct R as [R ->]. split; [apply same_core_pop_tag; exact R|reflexivity].
  - intros c H. exact H.
Qed.

Lemma push_sim f toff e e' : esim f toff e e' -> esim (S f) toff (EPush e) (EPush e').
Proof.
  apply (wrap_sim f toff toff (EPush e) (EPush e') e e' (fun c => c) (fun s => s)
           (fun c s x => match x with
              | Ok s1 ps => Ok (set_stk s1 (firstn (N.to_nat (s_pos s1 - s_pos s)) (s_rest s) :: s_stk s1)) ps
              | w => w end)
           (fun c s x => match x with
              | Ok s1 ps => Ok (set_stk s1 (firstn (N.to_nat (s_pos s1 - s_pos s)) (s_rest s) :: s_stk s1)) ps
              | w => w end)).
  - intros f0 c s. cbn [run]. destruct (run ga f0 c (TEval e) s); reflexivity.
  - intros f0 c s. cbn [run]. destruct (run gb f0 c (TEval e') s); reflexivity.
  - reflexivity.
  - intros c s x D. destruct x; congruence.
  - intros c s x x' R. destruct x, x'; cbn in R |- *; try contradiction; try exact I.
    destruct R as [R ->]. destruct (same_core_inv _ _ R) as [Ep [Er [Ek Eg]]].
    rewrite Ep, Ek. split; [apply same_core_set_stk; exact R|reflexivity].
  - intros c H. exact H.
Qed.

(* ---------- rule calls ---------- *)

Definition Fref (r : rule) (tag : option N) (c : ctx) (s : st) (x : res) : res :=
  match x with
  | Ok s1 kids => let '(s2, ps) := finish_rule c r (s_pos s) s1 kids in Ok (pop_tag tag s2) ps
  | w => w
  end.

Lemma ref_sim f toff tr n tag r r' :
  lookup ga n = Some r -> lookup gb n = Some r' ->
  r_silent r = r_silent r' -> r_kind r = r_kind r' ->
  (forall c, okc tr (rule_ctx c r)) ->
  esim f tr (r_body r) (r_body r') ->
  esim (S f) toff (ERef n tag) (ERef n tag).
Proof.
  intros La Lb Es Ek Ho.
  assert (En : r_name r = r_name r').
  { rewrite (lookup_name' _ _ _ La), (lookup_name' _ _ _ Lb). reflexivity. }
  assert (Ec : forall c, rule_ctx c r' = rule_ctx c r).
  { intros c. unfold rule_ctx, body_atom. rewrite Ek, En. reflexivity. }
  apply (wrap_sim f toff tr (ERef n tag) (ERef n tag) (r_body r) (r_body r')
           (fun c => rule_ctx c r) (push_tag tag) (Fref r tag) (Fref r' tag)).
  - intros f0 c s. cbn [run]. rewrite La. unfold Fref.
    destruct (run ga f0 (rule_ctx c r) (TEval (r_body r)) (push_tag tag s)); reflexivity.
  - intros f0 c s. cbn [run]. rewrite Lb, Ec. unfold Fref.
    destruct (run gb f0 (rule_ctx c r) (TEval (r_body r')) (push_tag tag s)); reflexivity.
  - reflexivity.
  - intros c s x D. destruct x; cbn; try congruence.
    destruct (finish_rule c r' (s_pos s) s0 ps). discriminate.
  - intros c s x x' R. destruct x as [s1 k1| | |], x' as [s1' k1'| | |]; cbn in R |- *;
      try contradiction; try exact I.
    destruct R as [R ->]. unfold finish_rule.
    assert (V : visible c r' = visible c r) by (unfold visible; rewrite Es, Ek; reflexivity).
    rewrite V, <- Es, <- En. destruct (same_core_inv _ _ R) as [Ep' [Er' [Ek' Eg']]].
    rewrite Ep', Eg'.
    destruct (r_silent r).
    + cbn [req]. split; [apply same_core_pop_tag; exact R|reflexivity].
    + destruct (visible c r); cbn [req];
        (split; [apply same_core_pop_tag; apply same_core_set_tags; exact R|reflexivity]).
  - intros c _. apply Ho.
Qed.

Lemma ref_undef_sim f toff n tag : lookup ga n = None -> lookup gb n = None ->
  esim f toff (ERef n tag) (ERef n tag).
Proof.
  intros La Lb f0 c s r L Oc E D. destruct f0 as [|f1]; [cbn in E; congruence|].
  cbn [run] in E. rewrite La in E. subst r. exists Err. split; [|exact I].
  exists 1. cbn [run]. rewrite Lb. split; [reflexivity|discriminate].
Qed.

Lemma plain_silent_inv r : plain_silent r = true ->
  r_silent r = true /\ r_kind r = KNormal /\ is_trivia_name (r_name r) = false.
Proof.
  unfold plain_silent. intros H. apply andb_prop in H. destruct H as [H H3].
  apply andb_prop in H. destruct H as [H1 H2]. apply kind_eqb_eq in H2.
  apply negb_true_iff in H3. repeat split; assumption.
Qed.

Lemma plain_ctx_atom c r : plain_silent r = true -> c_atom (rule_ctx c r) = c_atom c.
Proof.
  intros H. destruct (plain_silent_inv r H) as [_ [K T]].
  unfold rule_ctx, body_atom. cbn [c_atom]. rewrite K, T. reflexivity.
Qed.

(* calling a plain silent rule is running its body *)
Lemma plain_call g f c n r s : lookup g n = Some r -> plain_silent r = true ->
  run g (S f) c (TEval (ERef n None)) s = run g f (rule_ctx c r) (TEval (r_body r)) s.
Proof.
  intros L H. destruct (plain_silent_inv r H) as [S1 _].
  cbn [run]. rewrite L. cbn [push_tag].
  destruct (run g f (rule_ctx c r) (TEval (r_body r)) s); try reflexivity.
  unfold finish_rule. rewrite S1. reflexivity.
Qed.

Lemma call_l_sim f toff n r e' : lookup ga n = Some r -> plain_silent r = true ->
  esim f toff (r_body r) e' -> esim (S f) toff (ERef n None) e'.
Proof.
  intros L P H f0 c s x Lf Oc E D. destruct f0 as [|f1]; [cbn in E; congruence|].
  rewrite (plain_call ga f1 c n r s L P) in E.
  apply (rsim_core f toff _ _ H f1 (rule_ctx c r) c s s x ltac:(lia)); try assumption.
  - eapply okc_atom; [|exact Oc]. symmetry. apply plain_ctx_atom. exact P.
  - apply plain_ctx_atom. exact P.
  - apply same_core_refl.
Qed.

Lemma call_r_sim f toff n r e : lookup gb n = Some r -> plain_silent r = true ->
  esim f toff e (r_body r) -> esim f toff e (ERef n None).
Proof.
  intros L P H f0 c s x Lf Oc E D.
  destruct (rsim_core f toff _ _ H f0 c (rule_ctx c r) s s x Lf Oc
              (eq_sym (plain_ctx_atom c r P)) (same_core_refl _) E D) as [x' [[f' [H1 D1]] R]].
  exists x'. split; [|exact R]. exists (S f'). rewrite (plain_call gb f' c n r s L P).
  split; assumption.
Qed.

Lemma grp_l_sim f toff x e' : esim f toff x e' -> esim (S f) toff (EGrp x None) e'.
Proof.
  intros H f0 c s r Lf Oc E D. destruct f0 as [|f1]; [cbn in E; congruence|].
  cbn [run push_tag] in E.
  apply (H f1 c s r ltac:(lia) Oc); [|exact D].
  destruct (run ga f1 c (TEval x) s); exact E.
Qed.

Lemma grp_r_sim f toff e x : esim f toff e x -> esim f toff e (EGrp x None).
Proof.
  intros H f0 c s r Lf Oc E D. destruct (H f0 c s r Lf Oc E D) as [r' [H1 R]].
  exists r'. split; [|exact R]. apply evals_grp_none. exact H1.
Qed.

(* ---------- sequences, choices, repetitions ---------- *)

Lemma seq_sim f toff : sksim f -> forall es es',
  Forall2 (esim f toff) es es' -> tsimc (S f) toff (TSeq es) (TSeq es').
Proof.
  intros SK es es' HF. apply rsim_core.
  assert (G : forall f0 c s s' r, f0 <= S f -> okc toff c -> same_core s s' ->
            run ga f0 c (TSeq es) s = r -> r <> Fuel ->
            exists r', runs gb c (TSeq es') s' r' /\ req r' r).
  2:{ intros f0 c s r L Oc E D. exact (G f0 c s s r L Oc (same_core_refl _) E D). }
  induction HF as [|e1 e1' es es' H1 HF IH]; intros f0 c s s' r L Oc Hs E D.
  - destruct f0; [cbn in E; congruence|]. cbn in E. subst r. exists (Ok s' []).
    split; [apply runs_seq_nil; reflexivity|split; [apply same_core_sym; exact Hs|reflexivity]].
  - destruct f0 as [|f1]; [cbn in E; congruence|]. assert (L1 : f1 <= f) by lia.
    cbn [run] in E.
    destruct (run ga f1 c (TEval e1) s) as [s1 p1|t| |] eqn:E1.
    + destruct (rsim_core _ _ _ _ H1 f1 c c s s' _ L1 Oc eq_refl Hs E1 ltac:(discriminate))
        as [x' [Hx' Rx]].
      destruct (req_ok_inv _ _ _ Rx) as [s1' [-> Rs1]].
      destruct HF as [|e2 e2' es2 es2' H2 HF].
      * subst r. exists (Ok s1' p1). split; [apply runs_seq_one; exact Hx'|split; [exact Rs1|reflexivity]].
      * destruct (skip_with ga _ c s1) as [s2 pw|t| |] eqn:E2.
        -- destruct (SK f1 c s1 s1' _ L1 (same_core_sym _ _ Rs1) E2 ltac:(discriminate)) as [y' [Hy' Ry]].
           destruct (req_ok_inv _ _ _ Ry) as [s2' [-> Rs2]].
           destruct (run ga f1 c (TSeq (e2 :: es2)) s2) as [s3 p3|t| |] eqn:E3.
           ++ destruct (IH f1 c s2 s2' _ ltac:(lia) Oc (same_core_sym _ _ Rs2) E3 ltac:(discriminate))
                as [z' [Hz' Rz]].
              exists (addp p1 (addp pw z')). split.
              ** apply runs_seq_cons. exists (Ok s1' p1). split; [exact Hx'|].
                 exists (Ok s2' pw). split; [exact Hy'|]. exists z'. split; [exact Hz'|reflexivity].
              ** subst r. apply (req_addp p1 _ (addp pw (Ok s3 p3))). apply (req_addp pw _ (Ok s3 p3)). exact Rz.
           ++ destruct (IH f1 c s2 s2' _ ltac:(lia) Oc (same_core_sym _ _ Rs2) E3 ltac:(discriminate))
                as [z' [Hz' Rz]].
              exists (addp p1 (addp pw z')). split.
              ** apply runs_seq_cons. exists (Ok s1' p1). split; [exact Hx'|].
                 exists (Ok s2' pw). split; [exact Hy'|]. exists z'. split; [exact Hz'|reflexivity].
              ** subst r. apply (req_addp p1 _ (addp pw (Fail t))). apply (req_addp pw _ (Fail t)). exact Rz.
           ++ destruct (IH f1 c s2 s2' _ ltac:(lia) Oc (same_core_sym _ _ Rs2) E3 ltac:(discriminate))
                as [z' [Hz' Rz]].
              exists (addp p1 (addp pw z')). split.
              ** apply runs_seq_cons. exists (Ok s1' p1). split; [exact Hx'|].
                 exists (Ok s2' pw). split; [exact Hy'|]. exists z'. split; [exact Hz'|reflexivity].
              ** subst r. apply (req_addp p1 _ (addp pw Err)). apply (req_addp pw _ Err). exact Rz.
           ++ congruence.
        -- destruct (SK f1 c s1 s1' _ L1 (same_core_sym _ _ Rs1) E2 ltac:(discriminate)) as [y' [Hy' Ry]].
           destruct (req_fail_inv _ _ Ry) as [t' ->]. exists (Fail t'). split; [|subst r; exact I].
           apply runs_seq_cons. exists (Ok s1' p1). split; [exact Hx'|].
           exists (Fail t'). split; [exact Hy'|reflexivity].
        -- destruct (SK f1 c s1 s1' _ L1 (same_core_sym _ _ Rs1) E2 ltac:(discriminate)) as [y' [Hy' Ry]].
           apply req_err_inv in Ry. subst y'. exists Err. split; [|subst r; exact I].
           apply runs_seq_cons. exists (Ok s1' p1). split; [exact Hx'|].
           exists Err. split; [exact Hy'|reflexivity].
        -- congruence.
    + destruct (rsim_core _ _ _ _ H1 f1 c c s s' _ L1 Oc eq_refl Hs E1 ltac:(discriminate))
        as [x' [Hx' Rx]].
      destruct (req_fail_inv _ _ Rx) as [t' ->]. exists (Fail t'). split; [|subst r; exact I].
      apply runs_seq_head_nok; [exact Hx'|discriminate].
    + destruct (rsim_core _ _ _ _ H1 f1 c c s s' _ L1 Oc eq_refl Hs E1 ltac:(discriminate))
        as [x' [Hx' Rx]].
      apply req_err_inv in Rx. subst x'. exists Err. split; [|subst r; exact I].
      apply runs_seq_head_nok; [exact Hx'|discriminate].
    + congruence.
Qed.

Lemma alt_sim f toff : forall es es',
  Forall2 (esim f toff) es es' -> tsimc (S f) toff (TAlt es) (TAlt es').
Proof.
  intros es es' HF. apply rsim_core.
  assert (G : forall f0 c s s' r, f0 <= S f -> okc toff c -> same_core s s' ->
            run ga f0 c (TAlt es) s = r -> r <> Fuel ->
            exists r', runs gb c (TAlt es') s' r' /\ req r' r).
  2:{ intros f0 c s r L Oc E D. exact (G f0 c s s r L Oc (same_core_refl _) E D). }
  induction HF as [|e1 e1' es es' H1 HF IH]; intros f0 c s s' r L Oc Hs E D.
  - destruct f0; [cbn in E; congruence|]. cbn in E. subst r. exists (Fail (s_trk s')).
    split; [apply runs_alt_nil; reflexivity|exact I].
  - destruct f0 as [|f1]; [cbn in E; congruence|]. assert (L1 : f1 <= f) by lia.
    cbn [run] in E.
    destruct (run ga f1 c (TEval e1) s) as [s1 p1|t| |] eqn:E1.
    + destruct (rsim_core _ _ _ _ H1 f1 c c s s' _ L1 Oc eq_refl Hs E1 ltac:(discriminate))
        as [x' [Hx' Rx]].
      destruct (req_ok_inv _ _ _ Rx) as [s1' [-> Rs1]]. subst r. exists (Ok s1' p1).
      split; [|split; [exact Rs1|reflexivity]].
      apply runs_alt_cons. exists (Ok s1' p1). split; [exact Hx'|reflexivity].
    + destruct (rsim_core _ _ _ _ H1 f1 c c s s' _ L1 Oc eq_refl Hs E1 ltac:(discriminate))
        as [x' [Hx' Rx]].
      destruct (req_fail_inv _ _ Rx) as [t' ->].
      destruct (IH f1 c (set_trk s t) (set_trk s' t') r ltac:(lia) Oc
                  (same_core_set_trk _ _ _ _ Hs) E D) as [r' [Hr' Rr]].
      exists r'. split; [|exact Rr].
      apply runs_alt_cons. exists (Fail t'). split; [exact Hx'|exact Hr'].
    + destruct (rsim_core _ _ _ _ H1 f1 c c s s' _ L1 Oc eq_refl Hs E1 ltac:(discriminate))
        as [x' [Hx' Rx]].
      apply req_err_inv in Rx. subst x'. subst r. exists Err. split; [|exact I].
      apply runs_alt_cons. exists Err. split; [exact Hx'|reflexivity].
    + congruence.
Qed.

Lemma tstar_sim f toff e e' : sksim f -> esim f toff e e' ->
  tsimc (S f) toff (TStar e) (TStar e').
Proof.
  intros SK He. apply rsim_core.
  assert (G : forall f0 c s s' r, f0 <= S f -> okc toff c -> same_core s s' ->
            run ga f0 c (TStar e) s = r -> r <> Fuel ->
            exists r', runs gb c (TStar e') s' r' /\ req r' r).
  2:{ intros f0 c s r L Oc E D. exact (G f0 c s s r L Oc (same_core_refl _) E D). }
  induction f0 as [|f1 IH]; intros c s s' r L Oc Hs H D; [cbn in H; congruence|].
  assert (L1 : f1 <= f) by lia.
  cbn [run] in H.
  destruct (skip_with ga _ c s) as [s2 pw|t| |] eqn:E2.
  - destruct (SK f1 c s s' _ L1 Hs E2 ltac:(discriminate)) as [y' [Hy' Ry]].
    destruct (req_ok_inv _ _ _ Ry) as [s2' [-> Rs2]].
    destruct (run ga f1 c (TEval e) s2) as [s3 p3|t| |] eqn:E1.
    + destruct (rsim_core _ _ _ _ He f1 c c s2 s2' _ L1 Oc eq_refl (same_core_sym _ _ Rs2) E1
                  ltac:(discriminate)) as [x' [Hx' Rx]].
      destruct (req_ok_inv _ _ _ Rx) as [s3' [-> Rs3]].
      destruct (run ga f1 c (TStar e) s3) as [s4 p4|t| |] eqn:E3; [| | |congruence].
      * destruct (IH c s3 s3' _ ltac:(lia) Oc (same_core_sym _ _ Rs3) E3) as [z' [Hz' Rz]]; [discriminate|].
        exists (addp pw (addp p3 z')). split.
        -- apply runs_star. exists (Ok s2' pw). split; [exact Hy'|].
           exists (Ok s3' p3). split; [exact Hx'|]. exists z'. split; [exact Hz'|reflexivity].
        -- subst r. apply (req_addp pw _ (addp p3 (Ok s4 p4))). apply (req_addp p3 _ (Ok s4 p4)). exact Rz.
      * destruct (IH c s3 s3' _ ltac:(lia) Oc (same_core_sym _ _ Rs3) E3) as [z' [Hz' Rz]]; [discriminate|].
        exists (addp pw (addp p3 z')). split.
        -- apply runs_star. exists (Ok s2' pw). split; [exact Hy'|].
           exists (Ok s3' p3). split; [exact Hx'|]. exists z'. split; [exact Hz'|reflexivity].
        -- subst r. apply (req_addp pw _ (addp p3 (Fail t))). apply (req_addp p3 _ (Fail t)). exact Rz.
      * destruct (IH c s3 s3' _ ltac:(lia) Oc (same_core_sym _ _ Rs3) E3) as [z' [Hz' Rz]]; [discriminate|].
        exists (addp pw (addp p3 z')). split.
        -- apply runs_star. exists (Ok s2' pw). split; [exact Hy'|].
           exists (Ok s3' p3). split; [exact Hx'|]. exists z'. split; [exact Hz'|reflexivity].
        -- subst r. apply (req_addp pw _ (addp p3 Err)). apply (req_addp p3 _ Err). exact Rz.
    + destruct (rsim_core _ _ _ _ He f1 c c s2 s2' _ L1 Oc eq_refl (same_core_sym _ _ Rs2) E1
                  ltac:(discriminate)) as [x' [Hx' Rx]].
      destruct (req_fail_inv _ _ Rx) as [t' ->].
      exists (Ok (set_trk s' t') []). split.
      * apply runs_star. exists (Ok s2' pw). split; [exact Hy'|].
        exists (Fail t'). split; [exact Hx'|reflexivity].
      * subst r. split; [apply same_core_set_trk; apply same_core_sym; exact Hs|reflexivity].
    + destruct (rsim_core _ _ _ _ He f1 c c s2 s2' _ L1 Oc eq_refl (same_core_sym _ _ Rs2) E1
                  ltac:(discriminate)) as [x' [Hx' Rx]].
      apply req_err_inv in Rx. subst x'.
      exists Err. split; [|subst r; exact I].
      apply runs_star. exists (Ok s2' pw). split; [exact Hy'|].
      exists Err. split; [exact Hx'|reflexivity].
    + congruence.
  - destruct (SK f1 c s s' _ L1 Hs E2 ltac:(discriminate)) as [y' [Hy' Ry]].
    destruct (req_fail_inv _ _ Ry) as [t' ->].
    exists (Fail t'). split; [|subst r; exact I].
    apply runs_star. exists (Fail t'). split; [exact Hy'|reflexivity].
  - destruct (SK f1 c s s' _ L1 Hs E2 ltac:(discriminate)) as [y' [Hy' Ry]].
    apply req_err_inv in Ry. subst y'.
    exists Err. split; [|subst r; exact I].
    apply runs_star. exists Err. split; [exact Hy'|reflexivity].
  - congruence.
Qed.

Lemma star_sim f toff e e' : sksim f -> esim f toff e e' -> esim (S f) toff (EStar e) (EStar e').
Proof.
  intros SK He f0 c s r L Oc E D. destruct f0 as [|f1]; [cbn in E; congruence|].
  assert (L1 : f1 <= f) by lia. cbn [run] in E.
  destruct (run ga f1 c (TEval e) s) as [s1 p1|t| |] eqn:E1.
  - destruct (He f1 c s _ L1 Oc E1 ltac:(discriminate)) as [x' [Hx' Rx]].
    destruct (req_ok_inv _ _ _ Rx) as [s1' [-> Rs1]].
    assert (DZ : run ga f1 c (TStar e) s1 <> Fuel).
    { intros X. rewrite X in E. congruence. }
    destruct (tstar_sim f toff e e' SK He f1 c c s1 s1' _ ltac:(lia) Oc eq_refl
                (same_core_sym _ _ Rs1) eq_refl DZ) as [z' [Hz' Rz]].
    exists (addp p1 z'). split.
    + apply evals_star. exists (Ok s1' p1). split; [exact Hx'|]. exists z'. split; [exact Hz'|reflexivity].
    + subst r. destruct (run ga f1 c (TStar e) s1) as [s4 p4|t| |];
        [apply (req_addp p1 _ (Ok s4 p4))|apply (req_addp p1 _ (Fail t))|apply (req_addp p1 _ Err)|congruence];
        exact Rz.
  - destruct (He f1 c s _ L1 Oc E1 ltac:(discriminate)) as [x' [Hx' Rx]].
    destruct (req_fail_inv _ _ Rx) as [t' ->]. subst r.
    exists (Ok (set_trk s t') []). split; [|split; reflexivity].
    apply evals_star. exists (Fail t'). split; [exact Hx'|reflexivity].
  - destruct (He f1 c s _ L1 Oc E1 ltac:(discriminate)) as [x' [Hx' Rx]].
    apply req_err_inv in Rx. subst x'. subst r. exists Err. split; [|exact I].
    apply evals_star. exists Err. split; [exact Hx'|reflexivity].
  - congruence.
Qed.

(* an expression that is one step away from a task *)
Lemma step_sim f toff e e' t t' :
  (forall f c s, run ga (S f) c (TEval e) s = run ga f c t s) ->
  (forall f c s, run gb (S f) c (TEval e') s = run gb f c t' s) ->
  tsimc f toff t t' -> esim (S f) toff e e'.
Proof.
  intros Ea Eb H f0 c s r L Oc E D. destruct f0 as [|f1]; [cbn in E; congruence|].
  rewrite Ea in E.
  destruct (H f1 c c s s r ltac:(lia) Oc eq_refl (same_core_refl _) E D) as [r' [[f' [H1 D1]] R]].
  exists r'. split; [|exact R]. exists (S f'). rewrite Eb. split; assumption.
Qed.

Lemma tsimc_le f f1 toff t t' : f1 <= f -> tsimc f toff t t' -> tsimc f1 toff t t'.
Proof. intros L H f0 c c' s s' r L0. apply H. lia. Qed.

Lemma seqs_sim f toff e e' es es' :
  (forall f c s, run ga (S f) c (TEval e) s = run ga f c (TSeq es) s) ->
  (forall f c s, run gb (S f) c (TEval e') s = run gb f c (TSeq es') s) ->
  sksim f -> Forall2 (esim f toff) es es' -> esim (S f) toff e e'.
Proof.
  intros Ea Eb SK HF. apply (step_sim f toff e e' (TSeq es) (TSeq es') Ea Eb).
  eapply tsimc_le; [|apply seq_sim; eassumption]. lia.
Qed.

Lemma alts_sim f toff es es' :
  Forall2 (esim f toff) es es' -> esim (S f) toff (EAlt es) (EAlt es').
Proof.
  intros HF. apply (step_sim f toff _ _ (TAlt es) (TAlt es')); try reflexivity.
  eapply tsimc_le; [|apply alt_sim; eassumption]. lia.
Qed.

End Gen.

(* list helpers for the unrolled forms *)
Lemma Forall2_repeat_l {A B} (R : A -> B -> Prop) a : forall bs,
  Forall (R a) bs -> Forall2 R (repeat a (length bs)) bs.
Proof. induction 1; cbn; constructor; assumption. Qed.

Lemma Forall2_repeat_r {A B} (R : B -> A -> Prop) a : forall bs,
  Forall (fun b => R b a) bs -> Forall2 R bs (repeat a (length bs)).
Proof. induction 1; cbn; constructor; assumption. Qed.

Lemma Forall2_app' {A B} (R : A -> B -> Prop) a a' b b' :
  Forall2 R a b -> Forall2 R a' b' -> Forall2 R (a ++ a') (b ++ b').
Proof. induction 1; cbn; [trivial|]. intros H2. constructor; [assumption|apply IHForall2; exact H2]. Qed.

(* ==================================================================================== *)
(* Part D: what the terminal choices and the (!X ~ ANY)* loops compute                    *)
(* ==================================================================================== *)

Definition rspec (n : option nat) (s : st) (r : res) : Prop :=
  match n with
  | Some k => exists s1, r = Ok s1 [] /\ same_core s1 (adv s (N.of_nat k) (skipn k (s_rest s)))
  | None => exists t, r = Fail t
  end.

Lemma strip_prefix_skipn' : forall w rest r, strip_prefix w rest = Some r -> r = skipn (length w) rest.
Proof.
  induction w as [|c w IH]; intros rest r H; cbn in H; [inversion H; reflexivity|].
  destruct rest as [|d rest']; [discriminate|]. destruct (N.eqb c d); [|discriminate].
  cbn. apply IH. exact H.
Qed.

Lemma in_ranges_singles d l : in_ranges d (map (fun x => (x, x)) l) = memN d l.
Proof.
  induction l as [|x l IH]; [reflexivity|]. cbn. rewrite IH. f_equal.
  destruct (N.eqb_spec d x) as [->|NE].
  - rewrite N.leb_refl. reflexivity.
  - destruct (N.leb_spec x d), (N.leb_spec d x); cbn; try reflexivity. lia.
Qed.

Lemma rspec_retrk n s t r : rspec n (set_trk s t) r -> rspec n s r.
Proof. destruct n; cbn; intros H; exact H. Qed.

Section Sem.
Variable h : grammar.

Lemma str_sem w c s : exists r, evals h c (EStr w) s r /\ rspec (tmatch (TLit false w) (s_rest s)) s r.
Proof.
  cbn [tmatch]. destruct (strip_prefix w (s_rest s)) as [r0|] eqn:E.
  - exists (Ok (adv s (lenN w) r0) []). split.
    + exists 1. cbn [run]. rewrite E. split; [reflexivity|discriminate].
    + exists (adv s (lenN w) r0). split; [reflexivity|].
      rewrite <- (strip_prefix_skipn' _ _ _ E). apply same_core_refl.
  - eexists. split; [exists 1; cbn [run]; rewrite E; split; [reflexivity|discriminate]|].
    eexists. reflexivity.
Qed.

Lemma cistr_sem w c s : exists r, evals h c (ECIStr w) s r /\ rspec (tmatch (TLit true w) (s_rest s)) s r.
Proof.
  cbn [tmatch]. destruct (strip_prefix_ci w (s_rest s)) as [r0|] eqn:E.
  - exists (Ok (adv s (lenN w) r0) []). split.
    + exists 1. cbn [run]. rewrite E. split; [reflexivity|discriminate].
    + exists (adv s (lenN w) r0). split; [reflexivity|].
      rewrite <- (strip_prefix_ci_suffix _ _ _ E). apply same_core_refl.
  - eexists. split; [exists 1; cbn [run]; rewrite E; split; [reflexivity|discriminate]|].
    eexists. reflexivity.
Qed.

(* an expression that consumes exactly one character satisfying p *)
Lemma onechar_sem e rs c s (p : N -> bool) :
  (forall c s, run h 1 c (TEval e) s =
     match s_rest s with
     | d :: r => if p d then Ok (adv s 1%N r) [] else Fail (match e with ECls _ => s_trk s | _ => record c false (c_rule c) s end)
     | [] => Fail (match e with ECls _ => s_trk s | _ => record c false (c_rule c) s end)
     end) ->
  (forall d, p d = in_ranges d rs) ->
  exists r, evals h c e s r /\ rspec (tmatch (TSet rs) (s_rest s)) s r.
Proof.
  intros E P. exists (run h 1 c (TEval e) s). split.
  - exists 1. split; [reflexivity|]. rewrite E. destruct (s_rest s); [discriminate|].
    destruct (p n); discriminate.
  - rewrite E. cbn [tmatch]. destruct (s_rest s) as [|d r0] eqn:R; [eexists; reflexivity|].
    rewrite <- P. destruct (p d); [|eexists; reflexivity].
    eexists. split; [reflexivity|]. cbn [skipn]. rewrite R. apply same_core_refl.
Qed.

Lemma term_sem e t : term_of e = Some t -> forall c s,
  exists r, evals h c e s r /\ rspec (tmatch t (s_rest s)) s r.
Proof.
  intros H c s. destruct e; try discriminate; cbn [term_of] in H.
  - (* EStr *) destruct s0 as [|a [|b w]]; inversion H; subst; try apply str_sem.
    apply (onechar_sem (EStr [a]) [(a, a)] c s (fun d => N.eqb a d)).
    + intros c0 s0. cbn [run strip_prefix]. destruct (s_rest s0) as [|d r]; [reflexivity|].
      destruct (N.eqb a d); reflexivity.
    + intros d. cbn. rewrite orb_false_r. destruct (N.eqb_spec a d) as [->|NE].
      * rewrite N.leb_refl. reflexivity.
      * destruct (N.leb_spec a d), (N.leb_spec d a); cbn; try reflexivity. lia.
  - (* ECIStr *) destruct s0 as [|a [|b w]]; inversion H; subst; try apply cistr_sem.
    apply (onechar_sem (ECIStr [a]) (ci_set a) c s (fun d => N.eqb (ascii_lower a) (ascii_lower d))).
    + intros c0 s0. cbn [run strip_prefix_ci]. destruct (s_rest s0) as [|d r]; [reflexivity|].
      destruct (N.eqb (ascii_lower a) (ascii_lower d)); reflexivity.
    + intros d. unfold ci_set. rewrite in_ranges_singles, ascii_variants_spec.
      rewrite (N.eqb_sym (ascii_lower d)).
      destruct (N.eqb_spec (ascii_lower a) (ascii_lower d)) as [E|NE]; [|reflexivity].
      cbn [andb]. destruct (lower_eq_cases a d (eq_sym E)) as [->|[A B]].
      * rewrite N.eqb_refl. reflexivity.
      * apply N.ltb_lt in A. apply N.ltb_lt in B. rewrite A, B. symmetry. apply orb_true_r.
  - (* ERange *) inversion H; subst.
    apply (onechar_sem (ERange lo hi) [(lo, hi)] c s (fun d => N.leb lo d && N.leb d hi)).
    + intros c0 s0. cbn [run]. reflexivity.
    + intros d. cbn. rewrite orb_false_r. reflexivity.
  - (* ECls *) inversion H; subst.
    apply (onechar_sem (ECls rs) rs c s (fun d => in_ranges d rs)).
    + intros c0 s0. cbn [run]. reflexivity.
    + intros d. reflexivity.
Qed.

Lemma plain_call_evals c n r0 s r : lookup h n = Some r0 -> plain_silent r0 = true ->
  evals h (rule_ctx c r0) (r_body r0) s r -> evals h c (ERef n None) s r.
Proof.
  intros L P [f [H D]]. exists (S f). rewrite (plain_call h f c n r0 s L P). split; assumption.
Qed.

Definition flat_fold (fl : nat) (es : list expr) : option (list term) :=
  fold_right (fun x acc => match flat_terms h fl x, acc with
                           | Some a, Some b => Some (a ++ b)
                           | _, _ => None end) (Some []) es.

Lemma flat_alt_sem fl :
  (forall e ts, flat_terms h fl e = Some ts -> forall c s,
      exists r, evals h c e s r /\ rspec (fm ts (s_rest s)) s r) ->
  forall es ts, flat_fold fl es = Some ts -> forall c s,
    exists r, runs h c (TAlt es) s r /\ rspec (fm ts (s_rest s)) s r.
Proof.
  intros IH. induction es as [|x es IHes]; intros ts H c s.
  - cbn in H. inversion H; subst. exists (Fail (s_trk s)).
    split; [apply runs_alt_nil; reflexivity|eexists; reflexivity].
  - cbn [flat_fold fold_right] in H. fold (flat_fold fl es) in H.
    destruct (flat_terms h fl x) as [a|] eqn:Ea; [|discriminate].
    destruct (flat_fold fl es) as [b|] eqn:Eb; [|discriminate]. inversion H; subst ts.
    destruct (IH x a Ea c s) as [r1 [H1 S1]].
    rewrite fm_app. destruct (fm a (s_rest s)) as [k|] eqn:Fa; cbn [orelse].
    + destruct S1 as [s1 [-> Rs]]. exists (Ok s1 []). split; [|exists s1; split; [reflexivity|exact Rs]].
      apply runs_alt_cons. exists (Ok s1 []). split; [exact H1|reflexivity].
    + destruct S1 as [t ->].
      destruct (IHes b eq_refl c (set_trk s t)) as [r2 [H2 S2]].
      exists r2. split.
      * apply runs_alt_cons. exists (Fail t). split; [exact H1|exact H2].
      * apply (rspec_retrk _ s t). exact S2.
Qed.

Lemma flat_sem : forall fl e ts, flat_terms h fl e = Some ts -> forall c s,
  exists r, evals h c e s r /\ rspec (fm ts (s_rest s)) s r.
Proof.
  induction fl as [|fl IH]; intros e ts H c s; [discriminate|].
  assert (TERM : forall t, term_of e = Some t -> ts = [t] ->
                   exists r, evals h c e s r /\ rspec (fm ts (s_rest s)) s r).
  { intros t Ht ->. destruct (term_sem e t Ht c s) as [r [H1 S1]]. exists r. split; [exact H1|].
    cbn [fm]. destruct (tmatch t (s_rest s)); exact S1. }
  destruct e; cbn [flat_terms] in H;
    try (match type of H with context [term_of ?x] => destruct (term_of x) as [t|] eqn:Et end;
         [|discriminate]; inversion H; subst ts; eapply TERM; reflexivity).
  - (* ERef *) destruct tag as [tg|].
    + cbn [term_of] in H. discriminate.
    + destruct (lookup h n) as [r0|] eqn:L; [|discriminate].
      destruct (plain_silent r0) eqn:P; [|discriminate].
      destruct (IH (r_body r0) ts H (rule_ctx c r0) s) as [r [H1 S1]].
      exists r. split; [eapply plain_call_evals; eassumption|exact S1].
  - (* EAlt *)
    destruct (flat_alt_sem fl IH es ts H c s) as [r [H1 S1]].
    exists r. split; [apply alt_is_its_task; exact H1|exact S1].
Qed.

Lemma terms_of_flat : forall b ts, terms_of b = Some ts -> flat_fold 1 b = Some ts.
Proof.
  induction b as [|e b IH]; intros ts H; cbn in H.
  - inversion H; subst. reflexivity.
  - destruct (term_of e) as [t|] eqn:Et; [|discriminate].
    destruct (terms_of b) as [ts0|] eqn:Eb; [|discriminate]. inversion H; subst ts.
    cbn [flat_fold fold_right]. fold (flat_fold 1 b). rewrite (IH ts0 eq_refl).
    assert (X : flat_terms h 1 e = Some [t]).
    { destruct e; try discriminate; cbn [flat_terms]; rewrite Et; reflexivity. }
    rewrite X. reflexivity.
Qed.

Lemma terms_sem b ts : terms_of b = Some ts -> forall c s,
  exists r, evals h c (EAlt b) s r /\ rspec (fm ts (s_rest s)) s r.
Proof.
  intros H c s. apply (flat_sem 2 (EAlt b) ts). cbn [flat_terms].
  apply (terms_of_flat b ts H).
Qed.

(* ---------- the operand of the negative predicate ---------- *)

Definition lits_fold (fl : nat) (es : list expr) : option (list text) :=
  fold_right (fun x acc => match lits h fl x, acc with
                           | Some a, Some b => Some (a ++ b)
                           | _, _ => None end) (Some []) es.

Definition lspec (ws : list text) (s : st) (r : res) : Prop :=
  if pref ws (s_rest s) then exists s1 ps, r = Ok s1 ps else exists t, r = Fail t.

Lemma pref_app a b rest : pref (a ++ b) rest = pref a rest || pref b rest.
Proof. unfold pref. apply existsb_app. Qed.

Lemma lits_alt_sem fl :
  (forall x ws, lits h fl x = Some ws -> forall c s, exists r, evals h c x s r /\ lspec ws s r) ->
  forall es ws, lits_fold fl es = Some ws -> forall c s,
    exists r, runs h c (TAlt es) s r /\ lspec ws s r.
Proof.
  intros IH. induction es as [|x es IHes]; intros ws H c s.
  - cbn in H. inversion H; subst. exists (Fail (s_trk s)).
    split; [apply runs_alt_nil; reflexivity|]. unfold lspec. cbn. eexists. reflexivity.
  - cbn [lits_fold fold_right] in H. fold (lits_fold fl es) in H.
    destruct (lits h fl x) as [a|] eqn:Ea; [|discriminate].
    destruct (lits_fold fl es) as [b|] eqn:Eb; [|discriminate]. inversion H; subst ws.
    destruct (IH x a Ea c s) as [r1 [H1 S1]].
    unfold lspec in *. rewrite pref_app. destruct (pref a (s_rest s)); cbn [orb].
    + destruct S1 as [s1 [ps ->]]. exists (Ok s1 ps). split; [|eexists; eexists; reflexivity].
      apply runs_alt_cons. exists (Ok s1 ps). split; [exact H1|reflexivity].
    + destruct S1 as [t ->].
      destruct (IHes b eq_refl c (set_trk s t)) as [r2 [H2 S2]].
      exists r2. split; [|exact S2].
      apply runs_alt_cons. exists (Fail t). split; [exact H1|exact H2].
Qed.

Lemma lits_sem : forall fl x ws, lits h fl x = Some ws -> forall c s,
  exists r, evals h c x s r /\ lspec ws s r.
Proof.
  induction fl as [|fl IH]; intros x ws H c s; [discriminate|].
  destruct x; cbn [lits] in H; try discriminate.
  - (* EStr *) inversion H; subst ws. unfold lspec, pref. cbn [existsb]. rewrite orb_false_r.
    destruct (strip_prefix s0 (s_rest s)) as [r0|] eqn:E; cbn [is_some].
    + eexists. split; [exists 1; cbn [run]; rewrite E; split; [reflexivity|discriminate]|].
      eexists. eexists. reflexivity.
    + eexists. split; [exists 1; cbn [run]; rewrite E; split; [reflexivity|discriminate]|].
      eexists. reflexivity.
  - (* ERef *) destruct tag; [discriminate|].
    destruct (lookup h n) as [r0|] eqn:L; [|discriminate].
    destruct (IH (r_body r0) ws H (rule_ctx c r0) s) as [r [[f [H1 D1]] S1]].
    unfold lspec in *. destruct (pref ws (s_rest s)).
    + destruct S1 as [s1 [ps ->]].
      destruct (finish_rule c r0 (s_pos s) s1 ps) as [s2 ps2] eqn:FR.
      exists (Ok (pop_tag None s2) ps2). split; [|eexists; eexists; reflexivity].
      exists (S f). cbn [run]. rewrite L. cbn [push_tag]. rewrite H1, FR. split; [reflexivity|discriminate].
    + destruct S1 as [t ->]. exists (Fail t). split; [|eexists; reflexivity].
      exists (S f). cbn [run]. rewrite L. cbn [push_tag]. rewrite H1. split; [reflexivity|discriminate].
  - (* EAlt *)
    destruct (lits_alt_sem fl IH es ws H c s) as [r [H1 S1]].
    exists r. split; [apply alt_is_its_task; exact H1|exact S1].
  - (* EGrp *) destruct tag; [discriminate|].
    destruct (IH x ws H c s) as [r [H1 S1]]. exists r. split; [apply evals_grp_none; exact H1|exact S1].
Qed.

Definition aspec (s : st) (r : res) : Prop :=
  match s_rest s with
  | d :: rest' => exists s1, r = Ok s1 [] /\ same_core s1 (adv s 1%N rest')
  | [] => exists t, r = Fail t
  end.

Lemma any_sem y : is_any h y = true -> forall c s, exists r, evals h c y s r /\ aspec s r.
Proof.
  intros H.
  assert (A : forall c s, exists r, evals h c EAny s r /\ aspec s r).
  { intros c s. unfold aspec. destruct (s_rest s) as [|d r0] eqn:R.
    - exists (Fail (s_trk s)).
      split; [exists 1; cbn [run]; rewrite R; split; [reflexivity|discriminate]|eexists; reflexivity].
    - exists (Ok (adv s 1%N r0) []).
      split; [exists 1; cbn [run]; rewrite R; split; [reflexivity|discriminate]|].
      eexists. split; [reflexivity|apply same_core_refl]. }
  intros c s. destruct y; try discriminate; [apply A|].
  cbn [is_any] in H. destruct tag; [discriminate|].
  destruct (lookup h n) as [r0|] eqn:L; [|discriminate].
  apply andb_prop in H. destruct H as [P B].
  destruct (r_body r0) eqn:Bd; try discriminate.
  destruct (A (rule_ctx c r0) s) as [r [H1 S1]]. exists r. split; [|exact S1].
  eapply plain_call_evals; [exact L|exact P|]. rewrite Bd. exact H1.
Qed.

End Sem.

(* ---------- the loop (!X ~ ANY)* where implicit trivia is off ---------- *)

Lemma same_core_adv0 s : same_core s (adv s (N.of_nat 0) (skipn 0 (s_rest s))).
Proof. unfold same_core, st_core, adv. cbn. rewrite N.add_0_r. reflexivity. Qed.

Lemma same_core_adv_adv s s1 s2 a b r1 r2 :
  same_core s1 (adv s a r1) -> same_core s2 (adv s1 b r2) -> same_core s2 (adv s (a + b)%N r2).
Proof.
  intros H1 H2. destruct (same_core_inv _ _ H1) as [A1 [B1 [C1 D1]]].
  destruct (same_core_inv _ _ H2) as [A2 [B2 [C2 D2]]]. cbn in *.
  unfold same_core, st_core, adv. cbn. rewrite A2, B2, C2, D2, A1, C1, D1.
  rewrite N.add_assoc. reflexivity.
Qed.

Section Loop.
Variable h : grammar.
Variables (fl : nat) (x y : expr) (ws : list text).
Hypothesis Hl : lits h fl x = Some ws.
Hypothesis Hy : is_any h y = true.
Variable c : ctx.
Hypothesis Hoff : off h c.

Notation body := (EGrp (ESeq [ENot x; y]) None).

Definition bspec (s : st) (r : res) : Prop :=
  if pref ws (s_rest s) then exists t, r = Fail t
  else match s_rest s with
       | [] => exists t, r = Fail t
       | d :: rest' => exists s1, r = Ok s1 [] /\ same_core s1 (adv s 1%N rest')
       end.

Lemma skips_off s : skips h c s (Ok s []).
Proof. exists 0. split; [apply skip_off; exact Hoff|discriminate]. Qed.

Lemma body_sem s : exists r, evals h c body s r /\ bspec s r.
Proof.
  destruct (lits_sem h fl x ws Hl (neg_ctx c) s) as [x0 [H0 S0]].
  unfold lspec in S0. unfold bspec. destruct (pref ws (s_rest s)).
  - destruct S0 as [s1 [ps ->]].
    exists (Fnot x c s (Ok s1 ps)). split; [|cbn; eexists; reflexivity].
    apply evals_grp_none. apply seq_is_its_task. apply runs_seq_cons.
    exists (Fnot x c s (Ok s1 ps)). split; [|reflexivity].
    apply evals_not. exists (Ok s1 ps). split; [exact H0|reflexivity].
  - destruct S0 as [t ->].
    assert (N1 : evals h c (ENot x) s (Ok (set_trk s t) [])).
    { apply evals_not. exists (Fail t). split; [exact H0|reflexivity]. }
    destruct (any_sem h y Hy c (set_trk s t)) as [z [Hz Sz]].
    unfold aspec in Sz. cbn [set_trk s_rest] in Sz.
    exists z. split.
    + apply evals_grp_none. apply seq_is_its_task. apply runs_seq_cons.
      exists (Ok (set_trk s t) []). split; [exact N1|].
      exists (Ok (set_trk s t) []). split; [apply skips_off|].
      exists z. split; [apply runs_seq_one; exact Hz|].
      destruct z; reflexivity.
    + destruct (s_rest s) as [|d rest']; [exact Sz|].
      destruct Sz as [s1 [-> R1]]. exists s1. split; [reflexivity|].
      eapply same_core_trans; [exact R1|]. apply same_core_adv. apply same_core_set_trk_l.
Qed.

Lemma tstar_loop : forall rest s, s_rest s = rest ->
  exists s1, runs h c (TStar body) s (Ok s1 []) /\
             same_core s1 (adv s (N.of_nat (scan ws rest)) (skipn (scan ws rest) rest)).
Proof.
  induction rest as [|d rest' IH]; intros s R.
  - destruct (body_sem s) as [r [Hr Sr]]. unfold bspec in Sr. rewrite R in Sr.
    assert (Sr' : exists t, r = Fail t) by (destruct (pref ws []); exact Sr).
    destruct Sr' as [t ->]. exists (set_trk s t). split.
    + apply runs_star. exists (Ok s []). split; [apply skips_off|].
      exists (Fail t). split; [exact Hr|reflexivity].
    + assert (Z : scan ws [] = 0) by (cbn; destruct (pref ws []); reflexivity).
      rewrite Z. rewrite <- R. eapply same_core_trans; [apply same_core_set_trk_l|apply same_core_adv0].
  - destruct (body_sem s) as [r [Hr Sr]]. unfold bspec in Sr. rewrite R in Sr.
    cbn [scan]. destruct (pref ws (d :: rest')) eqn:P.
    + destruct Sr as [t ->]. exists (set_trk s t). split.
      * apply runs_star. exists (Ok s []). split; [apply skips_off|].
        exists (Fail t). split; [exact Hr|reflexivity].
      * rewrite <- R. eapply same_core_trans; [apply same_core_set_trk_l|apply same_core_adv0].
    + destruct Sr as [s1 [-> R1]].
      assert (R1' : s_rest s1 = rest').
      { destruct (same_core_inv _ _ R1) as [_ [B _]]. exact B. }
      destruct (IH s1 R1') as [s2 [H2 R2]].
      exists s2. split.
      * apply runs_star. exists (Ok s []). split; [apply skips_off|].
        exists (Ok s1 []). split; [exact Hr|]. exists (Ok s2 []). split; [exact H2|reflexivity].
      * cbn [skipn]. replace (N.of_nat (S (scan ws rest'))) with (1 + N.of_nat (scan ws rest'))%N by lia.
        eapply same_core_adv_adv; eassumption.
Qed.

Lemma star_loop s :
  exists s1, evals h c (EStar body) s (Ok s1 []) /\
             same_core s1 (adv s (N.of_nat (scan ws (s_rest s))) (skipn (scan ws (s_rest s)) (s_rest s))).
Proof.
  destruct (body_sem s) as [r [Hr Sr]]. unfold bspec in Sr.
  destruct (s_rest s) as [|d rest'] eqn:R.
  - assert (Sr' : exists t, r = Fail t) by (destruct (pref ws []); exact Sr).
    destruct Sr' as [t ->]. exists (set_trk s t). split.
    + apply evals_star. exists (Fail t). split; [exact Hr|reflexivity].
    + assert (Z : scan ws [] = 0) by (cbn; destruct (pref ws []); reflexivity).
      rewrite Z. rewrite <- R. eapply same_core_trans; [apply same_core_set_trk_l|apply same_core_adv0].
  - cbn [scan]. destruct (pref ws (d :: rest')) eqn:P.
    + destruct Sr as [t ->]. exists (set_trk s t). split.
      * apply evals_star. exists (Fail t). split; [exact Hr|reflexivity].
      * rewrite <- R. eapply same_core_trans; [apply same_core_set_trk_l|apply same_core_adv0].
    + destruct Sr as [s1 [-> R1]].
      assert (R1' : s_rest s1 = rest').
      { destruct (same_core_inv _ _ R1) as [_ [B _]]. exact B. }
      destruct (tstar_loop rest' s1 R1') as [s2 [H2 R2]].
      exists s2. split.
      * apply evals_star. exists (Ok s1 []). split; [exact Hr|].
        exists (Ok s2 []). split; [exact H2|reflexivity].
      * cbn [skipn]. replace (N.of_nat (S (scan ws rest'))) with (1 + N.of_nat (scan ws rest'))%N by lia.
        eapply same_core_adv_adv; eassumption.
Qed.

Lemma skipuntil_evals h' s :
  evals h' c (ESkipUntil ws) s
    (Ok (adv s (N.of_nat (scan ws (s_rest s))) (skipn (scan ws (s_rest s)) (s_rest s))) []).
Proof.
  exists 1. split; [|discriminate]. cbn [run]. rewrite earliest_scan, Nat2N.id. reflexivity.
Qed.

Lemma skip_equiv h' s :
  exists r r', evals h c (EStar body) s r /\ evals h' c (ESkipUntil ws) s r' /\ req r' r.
Proof.
  destruct (star_loop s) as [s1 [H1 R1]].
  eexists. eexists. split; [exact H1|]. split; [apply skipuntil_evals|].
  split; [apply same_core_sym; exact R1|reflexivity].
Qed.

End Loop.

(* ---------- a squashed choice ---------- *)

Lemma rspec_req n s r r' : rspec n s r -> rspec n s r' -> req r' r.
Proof.
  destruct n; cbn.
  - intros [s1 [-> R1]] [s2 [-> R2]]. split; [|reflexivity].
    eapply same_core_trans; [exact R2|apply same_core_sym; exact R1].
  - intros [t ->] [t' ->]. exact I.
Qed.

Lemma squash_equiv h h' fl a b ts ts' c s :
  flat_terms h fl (EAlt a) = Some ts -> terms_of b = Some ts' -> squash_ok ts ts' = true ->
  exists r r', evals h c (EAlt a) s r /\ evals h' c (EAlt b) s r' /\ req r' r.
Proof.
  intros Hf Ht Hs.
  destruct (flat_sem h fl (EAlt a) ts Hf c s) as [r [H1 S1]].
  destruct (terms_sem h' b ts' Ht c s) as [r' [H2 S2]].
  exists r, r'. split; [exact H1|]. split; [exact H2|].
  rewrite (squash_fm ts ts' (s_rest s) Hs) in S1. eapply rspec_req; eassumption.
Qed.

(* ==================================================================================== *)
(* Part E: one step of the checker as a relation; facts about a checked grammar pair      *)
(* ==================================================================================== *)

Section Step.
Variables g g' : grammar.
Variable R : expr -> expr -> Prop.
Variable toff : bool.

Inductive ostep : expr -> expr -> Prop :=
| OS_leaf e : is_leaf e = true -> ostep e e
| OS_ref n t : defined_in g n || negb (defined_in g' n) = true -> ostep (ERef n t) (ERef n t)
| OS_inline n r e' : lookup g n = Some r -> plain_silent r = true -> R (r_body r) e' ->
    ostep (ERef n None) e'
| OS_outline e n' r' : defined_in g n' = false -> lookup g' n' = Some r' -> plain_silent r' = true ->
    R e (r_body r') -> ostep e (ERef n' None)
| OS_seq a b : Forall2 R a b -> ostep (ESeq a) (ESeq b)
| OS_alt a b : Forall2 R a b -> ostep (EAlt a) (EAlt b)
| OS_squash a b fl ts ts' : flat_terms g fl (EAlt a) = Some ts -> terms_of b = Some ts' ->
    squash_ok ts ts' = true -> ostep (EAlt a) (EAlt b)
| OS_opt a b : R a b -> ostep (EOpt a) (EOpt b)
| OS_star a b : R a b -> ostep (EStar a) (EStar b)
| OS_plus a b : R a b -> ostep (EPlus a) (EPlus b)
| OS_and a b : R a b -> ostep (EAnd a) (EAnd b)
| OS_not a b : R a b -> ostep (ENot a) (ENot b)
| OS_push a b : R a b -> ostep (EPush a) (EPush b)
| OS_grp a b t : R a b -> ostep (EGrp a t) (EGrp b t)
| OS_repn a b n : R a b -> ostep (ERepN a n) (ERepN b n)
| OS_repmin a b n : R a b -> ostep (ERepMin a n) (ERepMin b n)
| OS_repmax a b n : R a b -> ostep (ERepMax a n) (ERepMax b n)
| OS_repminmax a b m n : R a b -> ostep (ERepMinMax a m n) (ERepMinMax b m n)
| OS_skip x y fl ws : toff = true -> is_any g y = true -> lits g fl x = Some ws ->
    ostep (EStar (EGrp (ESeq [ENot x; y]) None)) (ESkipUntil ws)
| OS_plus_u a b1 b2 : (R a b1 \/ R (strip_grp a) b1) -> R (EStar a) b2 ->
    ostep (EPlus a) (ESeq [b1; b2])
| OS_repn_u a bs : Forall (R a) bs -> ostep (ERepN a (length bs)) (ESeq bs)
| OS_repmin_u a bs b : Forall (R a) bs -> R (EStar a) b ->
    ostep (ERepMin a (length bs)) (ESeq (bs ++ [b]))
| OS_repmax_u a bs : Forall (R a) bs -> ostep (ERepMax a (length bs)) (ESeq (map EOpt bs))
| OS_repminmax_u a bs1 bs2 : Forall (R a) bs1 -> Forall (R a) bs2 ->
    ostep (ERepMinMax a (length bs1) (length bs1 + length bs2)) (ESeq (bs1 ++ map EOpt bs2)).

End Step.

(* the local fixpoints of `ochk` *)
Lemma all2_F2 (P : expr -> expr -> bool) : forall xs ys,
  (fix all2 (xs ys : list expr) : bool :=
     match xs, ys with
     | [], [] => true
     | x :: xs', y :: ys' => P x y && all2 xs' ys'
     | _, _ => false
     end) xs ys = true -> Forall2 (fun x y => P x y = true) xs ys.
Proof.
  induction xs as [|x xs IH]; intros [|y ys] H; try discriminate; [constructor|].
  apply andb_prop in H. destruct H as [H1 H2]. constructor; [exact H1|apply IH; exact H2].
Qed.

Lemma alln_F (P : expr -> expr -> bool) x : forall ys,
  (fix alln (x : expr) (ys : list expr) : bool :=
     match ys with [] => true | y :: ys' => P x y && alln x ys' end) x ys = true ->
  Forall (fun y => P x y = true) ys.
Proof.
  induction ys as [|y ys IH]; intros H; [constructor|].
  apply andb_prop in H. destruct H as [H1 H2]. constructor; [exact H1|apply IH; exact H2].
Qed.

Lemma allopt_F (P : expr -> expr -> bool) x : forall ys,
  (fix allopt (x : expr) (ys : list expr) : bool :=
     match ys with
     | [] => true
     | EOpt y :: ys' => P x y && allopt x ys'
     | _ => false
     end) x ys = true ->
  exists bs, ys = map EOpt bs /\ Forall (fun y => P x y = true) bs.
Proof.
  induction ys as [|y ys IH]; intros H; [exists []; split; [reflexivity|constructor]|].
  destruct y; try discriminate.
  apply andb_prop in H. destruct H as [H1 H2]. destruct (IH H2) as [bs [-> F]].
  exists (y :: bs). split; [reflexivity|constructor; assumption].
Qed.

Lemma firstn_skipn_one {A} n (l : list A) b : skipn n l = [b] -> length l = S n ->
  l = firstn n l ++ [b] /\ length (firstn n l) = n.
Proof.
  intros H L. split; [rewrite <- H; symmetry; apply firstn_skipn|].
  rewrite firstn_length. lia.
Qed.

Section Inv.
Variables g g' : grammar.

Ltac bools :=
  repeat match goal with
  | H : _ && _ = true |- _ => apply andb_prop in H; destruct H
  end;
  repeat match goal with
  | H : text_eqb _ _ = true |- _ => apply text_eqb_eq in H
  | H : texts_eqb _ _ = true |- _ => apply texts_eqb_eq in H
  | H : ranges_eqb _ _ = true |- _ => apply ranges_eqb_eq in H
  | H : optN_eqb _ _ = true |- _ => apply optN_eqb_eq in H
  | H : optZ_eqb _ _ = true |- _ => apply optZ_eqb_eq in H
  | H : N.eqb _ _ = true |- _ => apply N.eqb_eq in H
  | H : Nat.eqb _ _ = true |- _ => apply Nat.eqb_eq in H
  | H : Some _ = Some _ |- _ => injection H as H
  end; subst.

Ltac outl :=
  match goal with
  | H : negb (defined_in g ?n) && match lookup g' ?n with _ => _ end = true |- _ =>
      let Hd := fresh "Hd" in let L := fresh "L" in let P := fresh "P" in
      apply andb_prop in H; destruct H as [Hd H];
      destruct (lookup g' n) eqn:L; [|discriminate];
      apply andb_prop in H; destruct H as [P H];
      apply negb_true_iff in Hd; eapply OS_outline; eassumption
  end.

Ltac inl :=
  match goal with
  | H : match lookup g ?n with _ => _ end = true |- _ =>
      let L := fresh "L" in let P := fresh "P" in
      destruct (lookup g n) eqn:L; [|discriminate];
      apply andb_prop in H; destruct H as [P H];
      eapply OS_inline; eassumption
  end.

Ltac cong :=
  bools;
  match goal with
  | |- ostep _ _ _ _ (EOpt _) (EOpt _) => apply OS_opt
  | |- ostep _ _ _ _ (EStar _) (EStar _) => apply OS_star
  | |- ostep _ _ _ _ (EPlus _) (EPlus _) => apply OS_plus
  | |- ostep _ _ _ _ (EAnd _) (EAnd _) => apply OS_and
  | |- ostep _ _ _ _ (ENot _) (ENot _) => apply OS_not
  | |- ostep _ _ _ _ (EPush _) (EPush _) => apply OS_push
  | |- ostep _ _ _ _ (EGrp _ _) (EGrp _ _) => apply OS_grp
  | |- ostep _ _ _ _ (ERepN _ _) (ERepN _ _) => apply OS_repn
  | |- ostep _ _ _ _ (ERepMin _ _) (ERepMin _ _) => apply OS_repmin
  | |- ostep _ _ _ _ (ERepMax _ _) (ERepMax _ _) => apply OS_repmax
  | |- ostep _ _ _ _ (ERepMinMax _ _ _) (ERepMinMax _ _ _) => apply OS_repminmax
  end; assumption.

Ltac refref H :=
  apply orb_prop in H; destruct H as [H|H]; [apply orb_prop in H; destruct H as [H|H]|];
  [ bools; try discriminate; apply OS_ref; assumption
  | first [discriminate | inl]
  | first [discriminate | outl] ].

Ltac leaf := bools; apply OS_leaf; reflexivity.

Ltac blast H :=
  repeat (match type of H with context [match ?v with _ => _ end] => is_var v; destruct v end;
          try discriminate).

Ltac skp :=
  match goal with
  | H : _ && _ && match lits g ?f ?x with _ => _ end = true |- _ =>
      let L := fresh "L" in
      apply andb_prop in H; destruct H as [H ?];
      apply andb_prop in H; destruct H as [? ?];
      destruct (lits g f x) eqn:L; [|discriminate];
      bools; eapply OS_skip; first [eassumption | reflexivity]
  end.

Lemma ochk_inv fo toff e e' : ochk g g' (S fo) toff e e' = true ->
  ostep g g' (fun x y => ochk g g' fo toff x y = true) toff e e'.
Proof.
  intros H.
  destruct e; destruct e';
    repeat match goal with t : option N |- _ => destruct t end;
    cbn [ochk] in H; try discriminate;
    try solve [leaf]; try solve [outl]; try solve [inl]; try solve [cong];
    try solve [blast H; first [discriminate | outl | apply OS_star; exact H | skp]].
  - refref H.
  - refref H.
  - refref H.
  - refref H.
  - apply (all2_F2 (ochk g g' fo toff)) in H. apply OS_seq. exact H.
  - apply orb_prop in H. destruct H as [H|H].
    + apply (all2_F2 (ochk g g' fo toff)) in H. apply OS_alt. exact H.
    + destruct (flat_terms g fo (EAlt es)) as [ts|] eqn:E1; [|discriminate].
      destruct (terms_of es0) as [ts'|] eqn:E2; [|discriminate].
      eapply OS_squash; eassumption.
  - destruct es as [|b1 [|b2 [|b3 es]]]; try discriminate.
    apply andb_prop in H. destruct H as [H1 H2]. apply orb_prop in H1.
    apply OS_plus_u; assumption.
  - apply andb_prop in H. destruct H as [H1 H2]. apply Nat.eqb_eq in H1. subst n.
    apply OS_repn_u. apply (alln_F (ochk g g' fo toff)) in H2. exact H2.
  - apply andb_prop in H. destruct H as [H H3]. apply andb_prop in H. destruct H as [H1 H2].
    apply Nat.eqb_eq in H1. apply (alln_F (ochk g g' fo toff)) in H2.
    destruct (skipn n es) as [|b [|b' l]] eqn:K; try discriminate.
    destruct (firstn_skipn_one n es b K H1) as [A B].
    rewrite A. rewrite <- B at 1. apply OS_repmin_u; assumption.
  - apply andb_prop in H. destruct H as [H1 H2]. apply Nat.eqb_eq in H1. subst n.
    apply (allopt_F (ochk g g' fo toff)) in H2. destruct H2 as [bs [-> F]].
    rewrite map_length. apply OS_repmax_u. exact F.
  - apply andb_prop in H. destruct H as [H H4]. apply andb_prop in H. destruct H as [H H3].
    apply andb_prop in H. destruct H as [H1 H2].
    apply Nat.leb_le in H1. apply Nat.eqb_eq in H2.
    apply (alln_F (ochk g g' fo toff)) in H3.
    apply (allopt_F (ochk g g' fo toff)) in H4. destruct H4 as [bs2 [K F2]].
    assert (A : es = firstn m es ++ map EOpt bs2) by (rewrite <- K; symmetry; apply firstn_skipn).
    assert (B : length (firstn m es) = m) by (rewrite firstn_length; lia).
    assert (C : n = length (firstn m es) + length bs2).
    { rewrite <- (map_length EOpt bs2), <- K, skipn_length. lia. }
    rewrite A, C. rewrite <- B at 1. apply OS_repminmax_u; assumption.
Qed.

End Inv.

(* ---------- a checked pair of grammars ---------- *)

Section Gram.
Variables g g' : grammar.
Variable fuel : nat.
Hypothesis HG : ochk_grammar g g' fuel = true.

Lemma HG_parts :
  forallb (fun r' => N.eqb (r_name r') SKIP_ID
                     || (negb (defined_in g (r_name r')) && plain_silent r')
                     || ochk_rule g g' fuel r') g' = true /\
  forallb (fun r => defined_in g' (r_name r)) g = true /\
  defined_in g SKIP_ID = false.
Proof.
  unfold ochk_grammar in HG. apply andb_prop in HG. destruct HG as [H H3].
  apply andb_prop in H. destruct H as [H1 H2]. apply negb_true_iff in H3.
  repeat split; assumption.
Qed.

Lemma rule_of_g' n r' : lookup g' n = Some r' -> defined_in g n = true ->
  exists r, lookup g n = Some r /\ r_silent r = r_silent r' /\ r_kind r = r_kind r' /\
            ochk g g' fuel (trivia_off g r) (r_body r) (r_body r') = true.
Proof.
  intros L D. destruct HG_parts as [H1 [_ H3]].
  assert (I := lookup_In _ _ _ L). assert (Nm := lookup_name' _ _ _ L).
  rewrite forallb_forall in H1. specialize (H1 r' I). rewrite Nm in H1.
  apply orb_prop in H1. destruct H1 as [H1|H1]; [apply orb_prop in H1; destruct H1 as [H1|H1]|].
  - apply N.eqb_eq in H1. subst n. congruence.
  - rewrite D in H1. discriminate.
  - unfold ochk_rule in H1. rewrite Nm in H1. destruct (lookup g n) as [r|] eqn:Lg; [|discriminate].
    apply andb_prop in H1. destruct H1 as [H1 Hc]. apply andb_prop in H1. destruct H1 as [Hs Hk].
    apply eqb_prop in Hs. apply kind_eqb_eq in Hk. exists r. repeat split; assumption.
Qed.

Lemma g'_defines n r : lookup g n = Some r -> exists r', lookup g' n = Some r'.
Proof.
  intros L. destruct HG_parts as [_ [H2 _]].
  assert (I := lookup_In _ _ _ L). assert (Nm := lookup_name' _ _ _ L).
  rewrite forallb_forall in H2. specialize (H2 r I). rewrite Nm in H2.
  unfold defined_in in H2. destruct (lookup g' n) as [r'|]; [exists r'; reflexivity|discriminate].
Qed.

Lemma rule_of_g n r : lookup g n = Some r ->
  exists r', lookup g' n = Some r' /\ r_silent r = r_silent r' /\ r_kind r = r_kind r' /\
             ochk g g' fuel (trivia_off g r) (r_body r) (r_body r') = true.
Proof.
  intros L. destruct (g'_defines n r L) as [r' L'].
  assert (D : defined_in g n = true) by (unfold defined_in; rewrite L; reflexivity).
  destruct (rule_of_g' n r' L' D) as [r0 [L0 [A [B C]]]].
  assert (r0 = r) by congruence. subst r0. exists r'. repeat split; assumption.
Qed.

Lemma trivia_defined n : is_trivia_name n = true -> defined_in g n = defined_in g' n.
Proof.
  intros T. unfold defined_in at 1. destruct (lookup g n) as [r|] eqn:L.
  - destruct (g'_defines n r L) as [r' L']. unfold defined_in. rewrite L'. reflexivity.
  - unfold defined_in. destruct (lookup g' n) as [r'|] eqn:L'; [|reflexivity]. exfalso.
    destruct HG_parts as [H1 [_ H3]].
    assert (I := lookup_In _ _ _ L'). assert (Nm := lookup_name' _ _ _ L').
    rewrite forallb_forall in H1. specialize (H1 r' I). rewrite Nm in H1.
    apply orb_prop in H1. destruct H1 as [H1|H1]; [apply orb_prop in H1; destruct H1 as [H1|H1]|].
    + apply N.eqb_eq in H1. subst n. discriminate.
    + apply andb_prop in H1. destruct H1 as [_ P].
      destruct (plain_silent_inv r' P) as [_ [_ X]]. rewrite Nm in X. congruence.
    + unfold ochk_rule in H1. rewrite Nm, L in H1. discriminate.
Qed.

Lemma skip_expr_same : skip_expr g = skip_expr g'.
Proof.
  assert (W := trivia_defined WS_ID eq_refl). assert (C := trivia_defined CM_ID eq_refl).
  unfold defined_in in W, C. unfold skip_expr, has_ws, has_cm.
  destruct (lookup g WS_ID), (lookup g' WS_ID), (lookup g CM_ID), (lookup g' CM_ID);
    try discriminate; reflexivity.
Qed.

Lemma trivia_off_atom r c : trivia_off g r = true ->
  body_atom c r <> NonAtomic \/ skip_expr g = None.
Proof.
  unfold trivia_off. intros H. apply orb_prop in H. destruct H as [H|H]; [apply orb_prop in H; destruct H as [H|H]|].
  - left. unfold body_atom. destruct (r_kind r); try discriminate.
  - left. unfold body_atom. rewrite H. destruct (r_kind r); discriminate.
  - right. unfold no_trivia_rules in H. unfold skip_expr, has_ws, has_cm.
    destruct (lookup g WS_ID); [discriminate|]. destruct (lookup g CM_ID); [discriminate|reflexivity].
Qed.

Lemma okc_rule_g tr r c : tr = trivia_off g r -> okc g tr (rule_ctx c r).
Proof.
  intros -> T. unfold off. cbn [rule_ctx c_atom]. apply trivia_off_atom. exact T.
Qed.

Lemma okc_rule_g' tr r r' c : tr = trivia_off g r -> r_kind r = r_kind r' -> r_name r = r_name r' ->
  okc g' tr (rule_ctx c r').
Proof.
  intros -> K Nm T. unfold off. cbn [rule_ctx c_atom]. rewrite <- skip_expr_same.
  replace (body_atom c r') with (body_atom c r); [apply trivia_off_atom; exact T|].
  unfold body_atom. rewrite K, Nm. reflexivity.
Qed.

End Gram.

(* ==================================================================================== *)
(* Part F: the checker is sound                                                           *)
(* ==================================================================================== *)

Lemma star_sim' ga gb f toff e e' : sksim ga gb f -> esim ga gb f toff e e' ->
  esim ga gb f toff (EStar e) (EStar e').
Proof.
  intros SK H. destruct f as [|f]; [apply rsim_zero|].
  apply star_sim; [eapply sksim_le; [|exact SK]; lia|eapply rsim_le; [|exact H]; lia].
Qed.

Lemma opt_sim' ga gb f toff e e' : esim ga gb f toff e e' -> esim ga gb f toff (EOpt e) (EOpt e').
Proof.
  intros H. destruct f as [|f]; [apply rsim_zero|].
  apply opt_sim. eapply rsim_le; [|exact H]. lia.
Qed.

Lemma grp_l_sim' ga gb f toff x e' : esim ga gb f toff x e' -> esim ga gb f toff (EGrp x None) e'.
Proof.
  intros H. destruct f as [|f]; [apply rsim_zero|].
  apply grp_l_sim. eapply rsim_le; [|exact H]. lia.
Qed.

Lemma strip_grp_cases a : strip_grp a = a \/ exists x, a = EGrp x None /\ strip_grp a = x.
Proof.
  destruct a; try (left; reflexivity). destruct tag; [left; reflexivity|].
  right. exists a. split; reflexivity.
Qed.

Lemma Forall2_impl' {A B} (R Q : A -> B -> Prop) : (forall x y, R x y -> Q x y) ->
  forall a b, Forall2 R a b -> Forall2 Q a b.
Proof. intros H a b F. induction F; constructor; [apply H; assumption|assumption]. Qed.

Lemma Forall2_flip' {A B} (R : A -> B -> Prop) a b : Forall2 R a b -> Forall2 (fun y x => R x y) b a.
Proof. induction 1; constructor; assumption. Qed.

Lemma Forall2_opt_r {A} (Q : A -> expr -> Prop) (x : A) : forall bs,
  Forall (fun b => Q x (EOpt b)) bs -> Forall2 Q (repeat x (length bs)) (map EOpt bs).
Proof. induction 1; cbn; constructor; assumption. Qed.

Lemma Forall2_opt_l {A} (Q : expr -> A -> Prop) (x : A) : forall bs,
  Forall (fun b => Q (EOpt b) x) bs -> Forall2 Q (map EOpt bs) (repeat x (length bs)).
Proof. induction 1; cbn; constructor; assumption. Qed.

(* the checker relates the implicit-trivia expression to itself *)
Lemma ochk_ref_refl g g' fo toff n : defined_in g n = true ->
  ochk g g' (S fo) toff (ERef n None) (ERef n None) = true.
Proof. intros D. cbn [ochk]. rewrite N.eqb_refl, D. reflexivity. Qed.

Lemma ochk_star_ref g g' fo toff n : defined_in g n = true ->
  ochk g g' (S (S fo)) toff (EStar (ERef n None)) (EStar (ERef n None)) = true.
Proof.
  intros D. assert (X := ochk_ref_refl g g' fo toff n D).
  change (ochk g g' (S (S fo)) toff (EStar (ERef n None)) (EStar (ERef n None)))
    with (ochk g g' (S fo) toff (ERef n None) (ERef n None)). exact X.
Qed.

Lemma ochk_seq2 g g' fo toff a1 a2 b1 b2 :
  ochk g g' fo toff a1 b1 = true -> ochk g g' fo toff a2 b2 = true ->
  ochk g g' (S fo) toff (ESeq [a1; a2]) (ESeq [b1; b2]) = true.
Proof. intros H1 H2. cbn [ochk]. rewrite H1, H2. reflexivity. Qed.

Lemma ochk_star_seq g g' fo toff a b :
  ochk g g' fo toff (ESeq a) (ESeq b) = true ->
  ochk g g' (S fo) toff (EStar (ESeq a)) (EStar (ESeq b)) = true.
Proof. intros H. cbn [ochk]. exact H. Qed.

Lemma skip_expr_ochk g g' e : skip_expr g = Some e -> ochk g g' 5 false e e = true.
Proof.
  unfold skip_expr, has_ws, has_cm. intros H.
  destruct (lookup g WS_ID) eqn:W, (lookup g CM_ID) eqn:C; inversion H; subst e; clear H.
  - assert (DW : defined_in g WS_ID = true) by (unfold defined_in; rewrite W; reflexivity).
    assert (DC : defined_in g CM_ID = true) by (unfold defined_in; rewrite C; reflexivity).
    apply ochk_seq2; [apply ochk_star_ref; exact DW|].
    apply ochk_star_seq. apply ochk_seq2; [apply ochk_ref_refl; exact DC|apply ochk_star_ref; exact DW].
  - apply ochk_star_ref. unfold defined_in. rewrite W. reflexivity.
  - apply ochk_star_ref. unfold defined_in. rewrite C. reflexivity.
Qed.

Section Main.
Variables g g' : grammar.
Variable fuel : nat.
Hypothesis HG : ochk_grammar g g' fuel = true.

Definition both (f : nat) (toff : bool) (e e' : expr) : Prop :=
  esim g g' f toff e e' /\ esim g' g f toff e' e.

Definition FW (f : nat) : Prop :=
  forall fo toff e e', ochk g g' fo toff e e' = true -> both f toff e e'.

Lemma Hsk : skip_expr g = skip_expr g'.
Proof. exact (skip_expr_same g g' fuel HG). Qed.

Lemma SK_of_FW f : FW f -> sksim g g' f /\ sksim g' g f.
Proof.
  intros H. split.
  - apply (sksim_of g g' Hsk). intros e E. exact (proj1 (H 5 false e e (skip_expr_ochk g g' e E))).
  - apply (sksim_of g' g (eq_sym Hsk)). intros e E. rewrite <- Hsk in E.
    exact (proj2 (H 5 false e e (skip_expr_ochk g g' e E))).
Qed.

Lemma off_g'_g c : off g' c -> off g c.
Proof. unfold off. rewrite Hsk. intros H; exact H. Qed.

Section Case.
Variable f : nat.
Variable fo : nat.
Variable toff : bool.
Hypothesis HFW : FW f.
Notation R := (fun x y => ochk g g' fo toff x y = true).
Hypothesis HS : forall x y, ochk g g' fo toff x y = true -> both (S f) toff x y.

Let HF : forall x y, ochk g g' fo toff x y = true -> both f toff x y.
Proof. intros x y H. exact (HFW fo toff x y H). Qed.

Let SK : sksim g g' f := proj1 (SK_of_FW f HFW).
Let SK' : sksim g' g f := proj2 (SK_of_FW f HFW).

Lemma F2_fwd a b : Forall2 R a b -> Forall2 (esim g g' f toff) a b.
Proof. apply Forall2_impl'. intros x y H. exact (proj1 (HF x y H)). Qed.

Lemma F2_bwd a b : Forall2 R a b -> Forall2 (esim g' g f toff) b a.
Proof.
  intros H. apply Forall2_flip'. revert H. apply Forall2_impl'.
  intros x y H. exact (proj2 (HF x y H)).
Qed.

Lemma F_fwd a bs : Forall (R a) bs -> Forall (esim g g' f toff a) bs.
Proof. apply Forall_impl. intros y H. exact (proj1 (HF a y H)). Qed.

Lemma F_bwd a bs : Forall (R a) bs -> Forall (fun b => esim g' g f toff b a) bs.
Proof. apply Forall_impl. intros y H. exact (proj2 (HF a y H)). Qed.

Lemma case_ref n t : defined_in g n || negb (defined_in g' n) = true ->
  both (S f) toff (ERef n t) (ERef n t).
Proof.
  intros H. destruct (lookup g n) as [r|] eqn:L.
  - destruct (rule_of_g g g' fuel HG n r L) as [r' [L' [Es [Ek Hc]]]].
    assert (B := HFW fuel (trivia_off g r) (r_body r) (r_body r') Hc).
    assert (Nm : r_name r = r_name r').
    { rewrite (lookup_name' _ _ _ L), (lookup_name' _ _ _ L'). reflexivity. }
    split.
    + apply (ref_sim g g' f toff (trivia_off g r) n t r r' L L' Es Ek); [|exact (proj1 B)].
      intros c. apply okc_rule_g. reflexivity.
    + apply (ref_sim g' g f toff (trivia_off g r) n t r' r L' L (eq_sym Es) (eq_sym Ek)); [|exact (proj2 B)].
      intros c. apply (okc_rule_g' g g' fuel HG (trivia_off g r) r r' c eq_refl Ek Nm).
  - assert (D : defined_in g n = false) by (unfold defined_in; rewrite L; reflexivity).
    rewrite D in H. cbn [orb] in H. apply negb_true_iff in H.
    assert (L' : lookup g' n = None).
    { unfold defined_in in H. destruct (lookup g' n); [discriminate|reflexivity]. }
    split; apply ref_undef_sim; assumption.
Qed.

Lemma ostep_both e e' : ostep g g' R toff e e' -> both (S f) toff e e'.
Proof.
  intros H. destruct H.
  - (* leaf *) split; apply leaf_sim; assumption.
  - (* ref *) apply case_ref. assumption.
  - (* inline *) split.
    + eapply call_l_sim; [eassumption|assumption|]. exact (proj1 (HF _ _ H1)).
    + eapply call_r_sim; [eassumption|assumption|]. exact (proj2 (HS _ _ H1)).
  - (* outline *) split.
    + eapply call_r_sim; [eassumption|assumption|]. exact (proj1 (HS _ _ H2)).
    + eapply call_l_sim; [eassumption|assumption|]. exact (proj2 (HF _ _ H2)).
  - (* seq *) split.
    + apply (seqs_sim g g' f toff (ESeq a) (ESeq b) a b); try reflexivity; [exact SK|apply F2_fwd; assumption].
    + apply (seqs_sim g' g f toff (ESeq b) (ESeq a) b a); try reflexivity; [exact SK'|apply F2_bwd; assumption].
  - (* alt *) split; apply alts_sim; [apply F2_fwd|apply F2_bwd]; assumption.
  - (* squash *) split; apply total_sim; intros c s _.
    + eapply squash_equiv; eassumption.
    + destruct (squash_equiv g g' fl a b ts ts' c s H H0 H1) as [r [r' [A [B C]]]].
      exists r', r. split; [exact B|split; [exact A|apply req_sym; exact C]].
  - (* opt *) split; apply opt_sim; [exact (proj1 (HF _ _ H))|exact (proj2 (HF _ _ H))].
  - (* star *) split; apply star_sim; [exact SK|exact (proj1 (HF _ _ H))|exact SK'|exact (proj2 (HF _ _ H))].
  - (* plus *) destruct (HF _ _ H) as [A B]. split.
    + apply (seqs_sim g g' f toff (EPlus a) (EPlus b) [a; EStar a] [b; EStar b]); try reflexivity; [exact SK|].
      constructor; [exact A|]. constructor; [apply star_sim'; assumption|constructor].
    + apply (seqs_sim g' g f toff (EPlus b) (EPlus a) [b; EStar b] [a; EStar a]); try reflexivity; [exact SK'|].
      constructor; [exact B|]. constructor; [apply star_sim'; assumption|constructor].
  - (* and *) split; apply and_sim; [exact (proj1 (HF _ _ H))|exact (proj2 (HF _ _ H))].
  - (* not *) split; apply not_sim; [exact (proj1 (HF _ _ H))|exact (proj2 (HF _ _ H))].
  - (* push *) split; apply push_sim; [exact (proj1 (HF _ _ H))|exact (proj2 (HF _ _ H))].
  - (* grp *) split; apply grp_sim; [exact (proj1 (HF _ _ H))|exact (proj2 (HF _ _ H))].
  - (* repn *) destruct (HF _ _ H) as [A B]. split.
    + apply (seqs_sim g g' f toff (ERepN a n) (ERepN b n) (repeat a n) (repeat b n)); try reflexivity; [exact SK|].
      apply Forall2_repeat. exact A.
    + apply (seqs_sim g' g f toff (ERepN b n) (ERepN a n) (repeat b n) (repeat a n)); try reflexivity; [exact SK'|].
      apply Forall2_repeat. exact B.
  - (* repmin *) destruct (HF _ _ H) as [A B]. split.
    + apply (seqs_sim g g' f toff (ERepMin a n) (ERepMin b n) (repeat a n ++ [EStar a]) (repeat b n ++ [EStar b]));
        try reflexivity; [exact SK|].
      apply Forall2_app'; [apply Forall2_repeat; exact A|].
      constructor; [apply star_sim'; assumption|constructor].
    + apply (seqs_sim g' g f toff (ERepMin b n) (ERepMin a n) (repeat b n ++ [EStar b]) (repeat a n ++ [EStar a]));
        try reflexivity; [exact SK'|].
      apply Forall2_app'; [apply Forall2_repeat; exact B|].
      constructor; [apply star_sim'; assumption|constructor].
  - (* repmax *) destruct (HF _ _ H) as [A B]. split.
    + apply (seqs_sim g g' f toff (ERepMax a n) (ERepMax b n) (repeat (EOpt a) n) (repeat (EOpt b) n));
        try reflexivity; [exact SK|].
      apply Forall2_repeat. apply opt_sim'. exact A.
    + apply (seqs_sim g' g f toff (ERepMax b n) (ERepMax a n) (repeat (EOpt b) n) (repeat (EOpt a) n));
        try reflexivity; [exact SK'|].
      apply Forall2_repeat. apply opt_sim'. exact B.
  - (* repminmax *) destruct (HF _ _ H) as [A B]. split.
    + apply (seqs_sim g g' f toff (ERepMinMax a m n) (ERepMinMax b m n)
               (repeat a m ++ repeat (EOpt a) (n - m)) (repeat b m ++ repeat (EOpt b) (n - m)));
        try reflexivity; [exact SK|].
      apply Forall2_app'; apply Forall2_repeat; [exact A|apply opt_sim'; exact A].
    + apply (seqs_sim g' g f toff (ERepMinMax b m n) (ERepMinMax a m n)
               (repeat b m ++ repeat (EOpt b) (n - m)) (repeat a m ++ repeat (EOpt a) (n - m)));
        try reflexivity; [exact SK'|].
      apply Forall2_app'; apply Forall2_repeat; [exact B|apply opt_sim'; exact B].
  - (* skip *) subst toff. split; apply total_sim; intros c s Oc.
    + apply (skip_equiv g fl x y ws H1 H0 c (Oc eq_refl) g' s).
    + destruct (skip_equiv g fl x y ws H1 H0 c (off_g'_g c (Oc eq_refl)) g' s) as [r [r' [A [B C]]]].
      exists r', r. split; [exact B|split; [exact A|apply req_sym; exact C]].
  - (* plus unrolled *)
    assert (B1 : both f toff a b1).
    { destruct H as [H|H]; [exact (HF _ _ H)|].
      destruct (strip_grp_cases a) as [E|[x [-> E]]].
      - rewrite E in H. exact (HF _ _ H).
      - cbn [strip_grp] in H. destruct (HF _ _ H) as [A B].
        split; [apply grp_l_sim'; exact A|apply grp_r_sim; exact B]. }
    destruct (HF _ _ H0) as [A2 B2]. destruct B1 as [A1 B1]. split.
    + apply (seqs_sim g g' f toff (EPlus a) (ESeq [b1; b2]) [a; EStar a] [b1; b2]); try reflexivity; [exact SK|].
      constructor; [exact A1|]. constructor; [exact A2|constructor].
    + apply (seqs_sim g' g f toff (ESeq [b1; b2]) (EPlus a) [b1; b2] [a; EStar a]); try reflexivity; [exact SK'|].
      constructor; [exact B1|]. constructor; [exact B2|constructor].
  - (* repn unrolled *) split.
    + apply (seqs_sim g g' f toff (ERepN a (length bs)) (ESeq bs) (repeat a (length bs)) bs);
        try reflexivity; [exact SK|].
      apply Forall2_repeat_l. apply F_fwd. assumption.
    + apply (seqs_sim g' g f toff (ESeq bs) (ERepN a (length bs)) bs (repeat a (length bs)));
        try reflexivity; [exact SK'|].
      apply (Forall2_repeat_r (esim g' g f toff)). apply F_bwd. assumption.
  - (* repmin unrolled *) destruct (HF _ _ H0) as [A2 B2]. split.
    + apply (seqs_sim g g' f toff (ERepMin a (length bs)) (ESeq (bs ++ [b]))
               (repeat a (length bs) ++ [EStar a]) (bs ++ [b])); try reflexivity; [exact SK|].
      apply Forall2_app'; [apply Forall2_repeat_l; apply F_fwd; assumption|].
      constructor; [exact A2|constructor].
    + apply (seqs_sim g' g f toff (ESeq (bs ++ [b])) (ERepMin a (length bs))
               (bs ++ [b]) (repeat a (length bs) ++ [EStar a])); try reflexivity; [exact SK'|].
      apply Forall2_app'; [apply (Forall2_repeat_r (esim g' g f toff)); apply F_bwd; assumption|].
      constructor; [exact B2|constructor].
  - (* repmax unrolled *) split.
    + apply (seqs_sim g g' f toff (ERepMax a (length bs)) (ESeq (map EOpt bs))
               (repeat (EOpt a) (length bs)) (map EOpt bs)); try reflexivity; [exact SK|].
      apply Forall2_opt_r. eapply Forall_impl; [|apply F_fwd; eassumption].
      intros y Hy. apply opt_sim'. exact Hy.
    + apply (seqs_sim g' g f toff (ESeq (map EOpt bs)) (ERepMax a (length bs))
               (map EOpt bs) (repeat (EOpt a) (length bs))); try reflexivity; [exact SK'|].
      apply Forall2_opt_l. eapply Forall_impl; [|apply F_bwd; eassumption].
      intros y Hy. apply opt_sim'. exact Hy.
  - (* repminmax unrolled *)
    assert (E : length bs1 + length bs2 - length bs1 = length bs2) by lia.
    split.
    + apply (seqs_sim g g' f toff (ERepMinMax a (length bs1) (length bs1 + length bs2))
               (ESeq (bs1 ++ map EOpt bs2))
               (repeat a (length bs1) ++ repeat (EOpt a) (length bs1 + length bs2 - length bs1))
               (bs1 ++ map EOpt bs2)); try reflexivity; [exact SK|].
      rewrite E. apply Forall2_app'; [apply Forall2_repeat_l; apply F_fwd; assumption|].
      apply Forall2_opt_r. eapply Forall_impl; [|apply F_fwd; eassumption].
      intros y Hy. apply opt_sim'. exact Hy.
    + apply (seqs_sim g' g f toff (ESeq (bs1 ++ map EOpt bs2))
               (ERepMinMax a (length bs1) (length bs1 + length bs2))
               (bs1 ++ map EOpt bs2)
               (repeat a (length bs1) ++ repeat (EOpt a) (length bs1 + length bs2 - length bs1)));
        try reflexivity; [exact SK'|].
      rewrite E. apply Forall2_app'; [apply (Forall2_repeat_r (esim g' g f toff)); apply F_bwd; assumption|].
      apply Forall2_opt_l. eapply Forall_impl; [|apply F_bwd; eassumption].
      intros y Hy. apply opt_sim'. exact Hy.
Qed.

End Case.

Lemma FW_all : forall f, FW f.
Proof.
  induction f as [|f IH].
  - intros fo toff e e' _. split; apply rsim_zero.
  - intros fo. induction fo as [|fo IHfo]; intros toff e e' H; [discriminate|].
    apply (ostep_both f fo toff IH).
    + intros x y Hxy. apply IHfo. exact Hxy.
    + apply ochk_inv. exact H.
Qed.

End Main.

Theorem ochk_sound : forall g g' fuel, ochk_grammar g g' fuel = true ->
  forall rule input k, defined_in g rule = true ->
    (forall f r, parse g f rule input k = r -> r <> Fuel -> exists f', req (parse g' f' rule input k) r) /\
    (forall f r, parse g' f rule input k = r -> r <> Fuel -> exists f', req (parse g f' rule input k) r).
Proof.
  intros g g' fuel HG rule input k D.
  assert (B : forall f, both g g' f false (ERef rule None) (ERef rule None)).
  { intros f. apply (FW_all g g' fuel HG f 1 false). apply ochk_ref_refl. exact D. }
  split; intros f r H Dr.
  - destruct (proj1 (B f) f ctx0 (st0 input k) r (le_n _) (okc_false _ _) H Dr) as [r' [[f' [H1 D1]] Rq]].
    exists f'. unfold parse, eval. rewrite H1. exact Rq.
  - destruct (proj2 (B f) f ctx0 (st0 input k) r (le_n _) (okc_false _ _) H Dr) as [r' [[f' [H1 D1]] Rq]].
    exists f'. unfold parse, eval. rewrite H1. exact Rq.
Qed.

Print Assumptions ochk_sound.
