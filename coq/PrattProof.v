From Coq Require Import List Arith Bool Lia.
Import ListNotations.
From PP Require Import Pratt.

Section P.
Variable tb : table.

(* ------------------------------------------------------------------ *)
(* 1. Fuel monotonicity                                                *)
(* ------------------------------------------------------------------ *)

Theorem prun_mono : forall f f' t r, prun tb f t = Some r -> f <= f' -> prun tb f' t = Some r.
Proof.
  induction f as [|f IH]; intros f' t r H Hle.
  - cbn in H. discriminate.
  - destruct f' as [|f']; [lia|].
    assert (Hle' : f <= f') by lia.
    cbn [prun] in *.
    destruct t as [ts m | lhs ts m].
    + destruct ts as [|[a|o|o|o] ts']; try discriminate.
      * eapply IH; eauto.
      * destruct (prun tb f (PExpr ts' (pre tb o))) as [[rhs rest]|] eqn:E; try discriminate.
        rewrite (IH _ _ _ E Hle'). eapply IH; eauto.
    + destruct ts as [|[a|o|o|o] ts']; auto.
      * destruct (post tb o <? m); auto.
      * destruct (fst (inf tb o) <? m); auto.
        destruct (prun tb f (PExpr ts' (rprec tb o))) as [[rhs rest]|] eqn:E; try discriminate.
        rewrite (IH _ _ _ E Hle'). eapply IH; eauto.
Qed.

(* ------------------------------------------------------------------ *)
(* 2. Soundness: yield                                                 *)
(* ------------------------------------------------------------------ *)

Lemma prun_yield : forall f t r rest, prun tb f t = Some (r, rest) ->
  match t with
  | PExpr ts m => yield r ++ rest = ts
  | PLoop l ts m => yield r ++ rest = yield l ++ ts
  end.
Proof.
  induction f as [|f IH]; intros t r rest H.
  - cbn in H. discriminate.
  - cbn [prun] in H.
    destruct t as [ts m | l ts m].
    + destruct ts as [|[a|o|o|o] ts']; try discriminate.
      * apply IH in H. exact H.
      * destruct (prun tb f (PExpr ts' (pre tb o))) as [[rhs rest0]|] eqn:E; try discriminate.
        apply IH in E. apply IH in H. rewrite H. simpl. rewrite E. reflexivity.
    + destruct ts as [|[a|o|o|o] ts'].
      * inversion H; subst. reflexivity.
      * inversion H; subst. reflexivity.
      * inversion H; subst. reflexivity.
      * destruct (post tb o <? m).
        -- inversion H; subst. reflexivity.
        -- apply IH in H. rewrite H. simpl. rewrite <- app_assoc. reflexivity.
      * destruct (fst (inf tb o) <? m).
        -- inversion H; subst. reflexivity.
        -- destruct (prun tb f (PExpr ts' (rprec tb o))) as [[rhs rest0]|] eqn:E; try discriminate.
           apply IH in E. apply IH in H. rewrite H. simpl. rewrite <- app_assoc. simpl.
           rewrite E. reflexivity.
Qed.

Theorem parse_expr_yield : forall f ts m t rest,
  parse_expr tb f ts m = Some (t, rest) -> yield t ++ rest = ts.
Proof.
  intros f ts m t rest H. exact (prun_yield f (PExpr ts m) t rest H).
Qed.

Theorem loop_yield : forall f l ts m t rest,
  loop tb f l ts m = Some (t, rest) -> yield t ++ rest = yield l ++ ts.
Proof.
  intros f l ts m t rest H. exact (prun_yield f (PLoop l ts m) t rest H).
Qed.

(* ------------------------------------------------------------------ *)
(* 3. Canonicity                                                       *)
(* ------------------------------------------------------------------ *)

(* every operator at the head of ts is below the right threshold of t *)
Definition hdbelow (t : tree) (ts : list tok) : Prop :=
  (forall o ts', ts = KPost o :: ts' -> below (post tb o) (rthresh tb t)) /\
  (forall o ts', ts = KInf o :: ts' -> below (fst (inf tb o)) (rthresh tb t)).

(* every operator at the head of ts has precedence < p *)
Definition headlt (p : nat) (ts : list tok) : Prop :=
  (forall o ts', ts = KPost o :: ts' -> post tb o < p) /\
  (forall o ts', ts = KInf o :: ts' -> fst (inf tb o) < p).

Definition headok (m : nat) (t : tree) (rest : list tok) : Prop :=
  (forall o ts', rest = KPost o :: ts' -> post tb o < m /\ below (post tb o) (rthresh tb t)) /\
  (forall o ts', rest = KInf o :: ts' -> fst (inf tb o) < m /\ below (fst (inf tb o)) (rthresh tb t)).

Definition stops (m : nat) (t : tree) (rest : list tok) : Prop :=
  rest = [] \/ (exists a r, rest = KPrim a :: r) \/ (exists o r, rest = KPre o :: r) \/
  (exists o r, rest = KPost o :: r /\ post tb o < m) \/
  (exists o r, rest = KInf o :: r /\ fst (inf tb o) < m).

Definition nextok (m : nat) (t : tree) (rest : list tok) : Prop :=
  rest = [] \/ (exists a r, rest = KPrim a :: r) \/ (exists o r, rest = KPre o :: r) \/
  (exists o r, rest = KPost o :: r /\ post tb o < m /\ below (post tb o) (rthresh tb t)) \/
  (exists o r, rest = KInf o :: r /\ fst (inf tb o) < m /\ below (fst (inf tb o)) (rthresh tb t)).

Lemma below_min : forall q p th,
  q < p -> below q th ->
  below q (Some (match th with Some x => Nat.min p x | None => p end)).
Proof. intros q p [x|]; simpl; lia. Qed.

Lemma below_min_inv : forall q p th,
  below q (Some (match th with Some x => Nat.min p x | None => p end)) -> q < p /\ below q th.
Proof. intros q p [x|]; simpl; lia. Qed.

Lemma headok_hdbelow_pre : forall o r rest,
  headok (pre tb o) r rest -> hdbelow (TPre o r) rest.
Proof.
  intros o r rest [H1 H2]. split; intros q ts' E.
  - destruct (H1 _ _ E) as [Ha Hb]. cbn [rthresh]. apply below_min; assumption.
  - destruct (H2 _ _ E) as [Ha Hb]. cbn [rthresh]. apply below_min; assumption.
Qed.

Lemma headok_hdbelow_in : forall l o r rest,
  headok (rprec tb o) r rest -> hdbelow (TIn l o r) rest.
Proof.
  intros l o r rest [H1 H2]. split; intros q ts' E.
  - destruct (H1 _ _ E) as [Ha Hb]. cbn [rthresh]. apply below_min; assumption.
  - destruct (H2 _ _ E) as [Ha Hb]. cbn [rthresh]. apply below_min; assumption.
Qed.

Lemma prun_canon : forall f t r rest, prun tb f t = Some (r, rest) ->
  match t with
  | PExpr ts m => canon tb m r /\ headok m r rest
  | PLoop l ts m => canon tb m l -> hdbelow l ts -> canon tb m r /\ headok m r rest
  end.
Proof.
  induction f as [|f IH]; intros t r rest H.
  - cbn in H. discriminate.
  - cbn [prun] in H.
    destruct t as [ts m | l ts m].
    + destruct ts as [|[a|o|o|o] ts']; try discriminate.
      * apply IH in H. apply H.
        -- constructor.
        -- split; intros q ts'' _; exact I.
      * destruct (prun tb f (PExpr ts' (pre tb o))) as [[rhs rest0]|] eqn:E; try discriminate.
        apply IH in E. destruct E as [Ec Eh]. apply IH in H. apply H.
        -- constructor. exact Ec.
        -- apply headok_hdbelow_pre. exact Eh.
    + intros Hc Hb.
      destruct ts as [|[a|o|o|o] ts'].
      * inversion H; subst. split; [assumption|]. split; intros q ts'' E; discriminate.
      * inversion H; subst. split; [assumption|]. split; intros q ts'' E; discriminate.
      * inversion H; subst. split; [assumption|]. split; intros q ts'' E; discriminate.
      * destruct (post tb o <? m) eqn:Elt.
        -- inversion H; subst. split; [assumption|]. apply Nat.ltb_lt in Elt.
           split; intros q ts'' E; [|discriminate].
           inversion E; subst. split; [assumption|]. destruct Hb as [Hb1 _]. eapply Hb1; reflexivity.
        -- apply Nat.ltb_ge in Elt. apply IH in H. apply H.
           ++ constructor; try assumption. destruct Hb as [Hb1 _]. eapply Hb1; reflexivity.
           ++ split; intros q ts'' _; exact I.
      * destruct (fst (inf tb o) <? m) eqn:Elt.
        -- inversion H; subst. split; [assumption|]. apply Nat.ltb_lt in Elt.
           split; intros q ts'' E; [discriminate|].
           inversion E; subst. split; [assumption|]. destruct Hb as [_ Hb2]. eapply Hb2; reflexivity.
        -- apply Nat.ltb_ge in Elt.
           destruct (prun tb f (PExpr ts' (rprec tb o))) as [[rhs rest0]|] eqn:E; try discriminate.
           apply IH in E. destruct E as [Ec Eh]. apply IH in H. apply H.
           ++ constructor; try assumption. destruct Hb as [_ Hb2]. eapply Hb2; reflexivity.
           ++ apply headok_hdbelow_in. exact Eh.
Qed.

Lemma parse_expr_central : forall f ts m t rest,
  parse_expr tb f ts m = Some (t, rest) ->
  canon tb m t /\
  (forall o ts', rest = KPost o :: ts' -> post tb o < m /\ below (post tb o) (rthresh tb t)) /\
  (forall o ts', rest = KInf o :: ts' ->
     fst (inf tb o) < m /\ below (fst (inf tb o)) (rthresh tb t)).
Proof.
  intros f ts m t rest H. exact (prun_canon f (PExpr ts m) t rest H).
Qed.

Theorem parse_expr_canon : forall f ts m t rest,
  parse_expr tb f ts m = Some (t, rest) -> canon tb m t.
Proof.
  intros f ts m t rest H. apply (parse_expr_central f ts m t rest H).
Qed.

Theorem loop_canon : forall f l ts m t rest,
  canon tb m l -> hdbelow l ts ->
  loop tb f l ts m = Some (t, rest) -> canon tb m t.
Proof.
  intros f l ts m t rest Hc Hb H.
  apply (prun_canon f (PLoop l ts m) t rest H Hc Hb).
Qed.

Lemma headok_nextok : forall m t rest, headok m t rest -> nextok m t rest.
Proof.
  intros m t rest [H1 H2]. unfold nextok.
  destruct rest as [|[a|o|o|o] r].
  - left. reflexivity.
  - right. left. eauto.
  - right. right. left. eauto.
  - right. right. right. left. exists o, r. split; [reflexivity|]. apply (H1 o r eq_refl).
  - right. right. right. right. exists o, r. split; [reflexivity|]. apply (H2 o r eq_refl).
Qed.

Theorem parse_expr_nextok : forall f ts m t rest,
  parse_expr tb f ts m = Some (t, rest) -> nextok m t rest.
Proof.
  intros f ts m t rest H. apply headok_nextok.
  apply (prun_canon f (PExpr ts m) t rest H).
Qed.

Theorem parse_expr_stops : forall f ts m t rest,
  parse_expr tb f ts m = Some (t, rest) -> stops m t rest.
Proof.
  intros f ts m t rest H. apply parse_expr_nextok in H.
  unfold nextok in H. unfold stops.
  destruct H as [H|[H|[H|[(o & r & E & Hlt & _)|(o & r & E & Hlt & _)]]]]; eauto 10.
Qed.

(* ------------------------------------------------------------------ *)
(* 4. Round trip                                                       *)
(* ------------------------------------------------------------------ *)

Lemma loop_stop : forall m rest, headlt m rest ->
  forall f t, loop tb (S f) t rest m = Some (t, rest).
Proof.
  intros m rest [H1 H2] f t. unfold loop. cbn [prun].
  destruct rest as [|[a|o|o|o] r]; try reflexivity.
  - destruct (post tb o <? m) eqn:E; [reflexivity|].
    apply Nat.ltb_ge in E. specialize (H1 o r eq_refl). lia.
  - destruct (fst (inf tb o) <? m) eqn:E; [reflexivity|].
    apply Nat.ltb_ge in E. specialize (H2 o r eq_refl). lia.
Qed.

Lemma hdbelow_pre : forall o r rest,
  hdbelow (TPre o r) rest -> hdbelow r rest /\ headlt (pre tb o) rest.
Proof.
  intros o r rest [H1 H2].
  repeat split; intros q ts' E.
  - apply H1 in E. cbn [rthresh] in E. apply below_min_inv in E. tauto.
  - apply H2 in E. cbn [rthresh] in E. apply below_min_inv in E. tauto.
  - apply H1 in E. cbn [rthresh] in E. apply below_min_inv in E. tauto.
  - apply H2 in E. cbn [rthresh] in E. apply below_min_inv in E. tauto.
Qed.

Lemma hdbelow_in : forall l o r rest,
  hdbelow (TIn l o r) rest -> hdbelow r rest /\ headlt (rprec tb o) rest.
Proof.
  intros l o r rest [H1 H2].
  repeat split; intros q ts' E.
  - apply H1 in E. cbn [rthresh] in E. apply below_min_inv in E. tauto.
  - apply H2 in E. cbn [rthresh] in E. apply below_min_inv in E. tauto.
  - apply H1 in E. cbn [rthresh] in E. apply below_min_inv in E. tauto.
  - apply H2 in E. cbn [rthresh] in E. apply below_min_inv in E. tauto.
Qed.

(* Parsing [yield t ++ rest] at level m reaches the loop state (t, rest). *)
Lemma reach : forall t m rest, canon tb m t -> hdbelow t rest ->
  exists f0, forall f r, loop tb f t rest m = Some r ->
    parse_expr tb (f0 + f) (yield t ++ rest) m = Some r.
Proof.
  induction t as [a | o r IHr | l IHl o | l IHl o r IHr]; intros m rest Hc Hb.
  - exists 1. intros f res H. unfold parse_expr, loop in *.
    change (1 + f) with (S f). cbn [yield app prun]. exact H.
  - inversion Hc as [| m' o' r' Hcr | |]; subst.
    destruct (hdbelow_pre _ _ _ Hb) as [Hbr Hlt].
    destruct (IHr (pre tb o) rest Hcr Hbr) as [f1 Hf1].
    exists (S (f1 + 1)). intros f res H.
    assert (E1 : parse_expr tb (f1 + 1) (yield r ++ rest) (pre tb o) = Some (r, rest)).
    { apply Hf1. apply loop_stop. exact Hlt. }
    unfold parse_expr, loop in *.
    change (S (f1 + 1) + f) with (S (f1 + 1 + f)).
    change (yield (TPre o r) ++ rest) with (KPre o :: (yield r ++ rest)).
    cbn [prun].
    rewrite (prun_mono _ (f1 + 1 + f) _ _ E1 ltac:(lia)).
    apply (prun_mono f); [exact H | lia].
  - inversion Hc as [| | m' l' o' Hcl Hle Hbl |]; subst.
    destruct (IHl m (KPost o :: rest) Hcl) as [f1 Hf1].
    { split; intros q ts' E; inversion E; subst; assumption. }
    exists (f1 + 1). intros f res H.
    change (yield (TPost l o) ++ rest) with ((yield l ++ [KPost o]) ++ rest).
    rewrite <- app_assoc.
    replace (f1 + 1 + f) with (f1 + S f) by lia.
    apply Hf1. unfold loop in *. cbn [prun].
    destruct (post tb o <? m) eqn:E.
    + apply Nat.ltb_lt in E. lia.
    + exact H.
  - inversion Hc as [| | | m' l' o' r' Hcl Hle Hbl Hcr]; subst.
    destruct (hdbelow_in _ _ _ _ Hb) as [Hbr Hlt].
    destruct (IHl m (KInf o :: (yield r ++ rest)) Hcl) as [f1 Hf1].
    { split; intros q ts' E; inversion E; subst; assumption. }
    destruct (IHr (rprec tb o) rest Hcr Hbr) as [f2 Hf2].
    assert (E2 : parse_expr tb (f2 + 1) (yield r ++ rest) (rprec tb o) = Some (r, rest)).
    { apply Hf2. apply loop_stop. exact Hlt. }
    exists (f1 + S (f2 + 1)). intros f res H.
    change (yield (TIn l o r) ++ rest) with ((yield l ++ KInf o :: yield r) ++ rest).
    rewrite <- app_assoc.
    replace (f1 + S (f2 + 1) + f) with (f1 + S (f2 + 1 + f)) by lia.
    apply Hf1. unfold parse_expr, loop in *.
    change ((KInf o :: yield r) ++ rest) with (KInf o :: (yield r ++ rest)).
    cbn [prun].
    destruct (fst (inf tb o) <? m) eqn:E.
    + apply Nat.ltb_lt in E. lia.
    + rewrite (prun_mono _ (f2 + 1 + f) _ _ E2 ltac:(lia)).
      apply (prun_mono f); [exact H | lia].
Qed.

Lemma nextok_hdbelow : forall m t rest, nextok m t rest -> hdbelow t rest /\ headlt m rest.
Proof.
  intros m t rest H. unfold nextok in H.
  destruct H as [H|[(a & r & H)|[(o & r & H)|[(o & r & H & Hlt & Hb)|(o & r & H & Hlt & Hb)]]]];
    subst; repeat split; intros q ts' E; try discriminate; inversion E; subst; assumption.
Qed.

Theorem roundtrip : forall t m rest, canon tb m t -> nextok m t rest ->
  exists f, parse_expr tb f (yield t ++ rest) m = Some (t, rest).
Proof.
  intros t m rest Hc Hn.
  destruct (nextok_hdbelow _ _ _ Hn) as [Hb Hlt].
  destruct (reach t m rest Hc Hb) as [f0 Hf0].
  exists (f0 + 1). apply Hf0. apply loop_stop. exact Hlt.
Qed.

Theorem canon_unique : forall t1 t2 m,
  canon tb m t1 -> canon tb m t2 -> yield t1 = yield t2 -> t1 = t2.
Proof.
  intros t1 t2 m H1 H2 Hy.
  destruct (roundtrip t1 m [] H1) as [f1 E1]. { left. reflexivity. }
  destruct (roundtrip t2 m [] H2) as [f2 E2]. { left. reflexivity. }
  rewrite Hy in E1. unfold parse_expr in *.
  apply (prun_mono _ (f1 + f2)) in E1; [|lia].
  apply (prun_mono _ (f1 + f2)) in E2; [|lia].
  rewrite E1 in E2. inversion E2. reflexivity.
Qed.

(* ------------------------------------------------------------------ *)
(* 5. Whole-stream consumption                                         *)
(* ------------------------------------------------------------------ *)

(* wfs: an operand is expected;  wfo: an operand has just been completed.
   wfs = (KPre* KPrim KPost* ) (KInf (KPre* KPrim KPost* ))*                *)
Inductive wfs : list tok -> Prop :=
| WPrim a ts : wfo ts -> wfs (KPrim a :: ts)
| WPre o ts : wfs ts -> wfs (KPre o :: ts)
with wfo : list tok -> Prop :=
| WEnd : wfo []
| WPost o ts : wfo ts -> wfo (KPost o :: ts)
| WInf o ts : wfs ts -> wfo (KInf o :: ts).

Lemma progress : forall n ts, length ts < n ->
  (wfs ts -> forall m, exists f t rest,
     parse_expr tb f ts m = Some (t, rest) /\ wfo rest /\ length rest <= length ts) /\
  (wfo ts -> forall l m, exists f t rest,
     loop tb f l ts m = Some (t, rest) /\ wfo rest /\ length rest <= length ts).
Proof.
  induction n as [|n IH]; intros ts Hlen; [lia|].
  split.
  - intros Hw m. inversion Hw as [a ts' Hw' | o ts' Hw']; subst; simpl in Hlen.
    + destruct (IH ts' ltac:(lia)) as [_ HL].
      destruct (HL Hw' (TPrim a) m) as (f & t & rest & E & Hr & Hl).
      exists (S f), t, rest. split; [exact E|]. split; [exact Hr|]. simpl; lia.
    + destruct (IH ts' ltac:(lia)) as [HE _].
      destruct (HE Hw' (pre tb o)) as (f1 & rhs & rest1 & E1 & Hr1 & Hl1).
      destruct (IH rest1 ltac:(lia)) as [_ HL].
      destruct (HL Hr1 (TPre o rhs) m) as (f2 & t & rest & E2 & Hr & Hl).
      exists (S (f1 + f2)), t, rest. split; [|split; [exact Hr| simpl; lia]].
      unfold parse_expr, loop in *. cbn [prun].
      rewrite (prun_mono _ (f1 + f2) _ _ E1 ltac:(lia)).
      apply (prun_mono f2); [exact E2 | lia].
  - intros Hw l m. inversion Hw as [| o ts' Hw' | o ts' Hw']; subst; simpl in Hlen.
    + exists 1, l, []. split; [reflexivity|]. split; [constructor|]. simpl; lia.
    + destruct (post tb o <? m) eqn:Elt.
      * exists 1, l, (KPost o :: ts'). unfold loop. cbn [prun]. rewrite Elt.
        split; [reflexivity|]. split; [exact Hw|]. lia.
      * destruct (IH ts' ltac:(lia)) as [_ HL].
        destruct (HL Hw' (TPost l o) m) as (f & t & rest & E & Hr & Hl).
        exists (S f), t, rest. unfold loop in *. cbn [prun]. rewrite Elt.
        split; [exact E|]. split; [exact Hr|]. simpl; lia.
    + destruct (fst (inf tb o) <? m) eqn:Elt.
      * exists 1, l, (KInf o :: ts'). unfold loop. cbn [prun]. rewrite Elt.
        split; [reflexivity|]. split; [exact Hw|]. lia.
      * destruct (IH ts' ltac:(lia)) as [HE _].
        destruct (HE Hw' (rprec tb o)) as (f1 & rhs & rest1 & E1 & Hr1 & Hl1).
        destruct (IH rest1 ltac:(lia)) as [_ HL].
        destruct (HL Hr1 (TIn l o rhs) m) as (f2 & t & rest & E2 & Hr & Hl).
        exists (S (f1 + f2)), t, rest. split; [|split; [exact Hr| simpl; lia]].
        unfold parse_expr, loop in *. cbn [prun]. rewrite Elt.
        rewrite (prun_mono _ (f1 + f2) _ _ E1 ltac:(lia)).
        apply (prun_mono f2); [exact E2 | lia].
Qed.

Theorem consumes_all : forall ts, wfs ts -> exists f t, parse_expr tb f ts 0 = Some (t, []).
Proof.
  intros ts Hw.
  destruct (progress (S (length ts)) ts ltac:(lia)) as [HE _].
  destruct (HE Hw 0) as (f & t & rest & E & Hr & _).
  exists f, t.
  destruct (parse_expr_central _ _ _ _ _ E) as [_ [H1 H2]].
  inversion Hr as [| o ts' Hw' | o ts' Hw']; subst.
  - exact E.
  - destruct (H1 _ _ eq_refl); lia.
  - destruct (H2 _ _ eq_refl); lia.
Qed.

End P.

Print Assumptions prun_mono.
Print Assumptions roundtrip.
Print Assumptions canon_unique.
Print Assumptions parse_expr_canon.
Print Assumptions parse_expr_yield.
Print Assumptions consumes_all.
