(* OptPassInline.v — the inline_builtin pass (OptPass.pass_inline_builtin: PREORDER traversal, table-dependent
   node function) only produces tables the proved validator accepts. *)
From Coq Require Import List NArith ZArith Bool Arith Lia.
Import ListNotations.
From PP Require Import Base Syntax Spec SpecSyn SpecEquiv CharClass Opt OptProof OptPass OptPassProof.
Open Scope nat_scope.

(* same head constructor, children related *)
Definition childless (e : expr) : bool :=
  match e with
  | ESeq _ | EAlt _ | EOpt _ | EStar _ | EPlus _ | ERepN _ _ | ERepMin _ _ | ERepMax _ _ | ERepMinMax _ _ _
  | EAnd _ | ENot _ | EGrp _ _ | EPush _ => false
  | _ => true
  end.

Inductive cong (R : expr -> expr -> Prop) : expr -> expr -> Prop :=
| CG_leaf e : childless e = true -> cong R e e
| CG_seq a b : Forall2 R a b -> cong R (ESeq a) (ESeq b)
| CG_alt a b : Forall2 R a b -> cong R (EAlt a) (EAlt b)
| CG_opt a b : R a b -> cong R (EOpt a) (EOpt b)
| CG_star a b : R a b -> cong R (EStar a) (EStar b)
| CG_plus a b : R a b -> cong R (EPlus a) (EPlus b)
| CG_repn a b n : R a b -> cong R (ERepN a n) (ERepN b n)
| CG_repmin a b n : R a b -> cong R (ERepMin a n) (ERepMin b n)
| CG_repmax a b n : R a b -> cong R (ERepMax a n) (ERepMax b n)
| CG_repmm a b m n : R a b -> cong R (ERepMinMax a m n) (ERepMinMax b m n)
| CG_and a b : R a b -> cong R (EAnd a) (EAnd b)
| CG_not a b : R a b -> cong R (ENot a) (ENot b)
| CG_grp a b t : R a b -> cong R (EGrp a t) (EGrp b t)
| CG_push a b : R a b -> cong R (EPush a) (EPush b).

Lemma gos_F2 (go : expr -> option expr) : forall l ys,
  (fix gos (l : list expr) : option (list expr) :=
     match l with
     | [] => Some []
     | x :: l' => match go x, gos l' with Some y, Some ys => Some (y :: ys) | _, _ => None end
     end) l = Some ys -> Forall2 (fun a b => go a = Some b) l ys.
Proof.
  induction l as [|x l IH]; intros ys H.
  - inversion H. constructor.
  - destruct (go x) as [y|] eqn:E; [|discriminate].
    match type of H with match ?t with _ => _ end = _ => destruct t as [ys'|] eqn:E2; [|discriminate] end.
    inversion H; subst. constructor; [exact E|apply IH; reflexivity].
Qed.

Lemma map_td_shape f fu e e' : map_td f (S fu) e = Some e' ->
  cong (fun a b => map_td f fu a = Some b) (f e) e'.
Proof.
  cbn [map_td]. intros H.
  destruct (f e);
    try (inversion H; subst; apply CG_leaf; reflexivity);
    try (match type of H with match ?t with _ => _ end = _ => destruct t as [b|] eqn:E; [|discriminate] end;
         inversion H; subst; constructor; exact E).
  - match type of H with match ?t with _ => _ end = _ => destruct t as [ys|] eqn:E; [|discriminate] end.
    inversion H; subst. apply CG_seq. apply (gos_F2 (map_td f fu)). exact E.
  - match type of H with match ?t with _ => _ end = _ => destruct t as [ys|] eqn:E; [|discriminate] end.
    inversion H; subst. apply CG_alt. apply (gos_F2 (map_td f fu)). exact E.
Qed.

Section Expr.
Variables g g' : grammar.
Hypothesis Hdef : forall n, defined_in g' n = defined_in g n.

Lemma cong_ochk (R : expr -> expr -> Prop) F toff x y :
  (forall a b, R a b -> ochk g g' F toff a b = true) -> cong R x y ->
  ochk g g' (S F) toff x y = true.
Proof.
  intros HR C. destruct C as [e L|a b H|a b H|a b H|a b H|a b H|a b n H|a b n H|a b n H|a b m n H
                             |a b H|a b H|a b t H|a b H].
  - apply (ochk_refl g g' Hdef). destruct e; try discriminate; cbn [depth]; lia.
  - cbn [ochk]. apply all2_of_F2. eapply Forall2_impl'; [|exact H]. exact HR.
  - cbn [ochk]. rewrite (all2_of_F2 (ochk g g' F toff) a b); [reflexivity|].
    eapply Forall2_impl'; [|exact H]. exact HR.
  - cbn [ochk]. apply HR; exact H.
  - rewrite ochk_star_star. apply HR; exact H.
  - cbn [ochk]. apply HR; exact H.
  - cbn [ochk]. rewrite Nat.eqb_refl. cbn [andb]. apply HR; exact H.
  - cbn [ochk]. rewrite Nat.eqb_refl. cbn [andb]. apply HR; exact H.
  - cbn [ochk]. rewrite Nat.eqb_refl. cbn [andb]. apply HR; exact H.
  - cbn [ochk]. rewrite !Nat.eqb_refl. cbn [andb]. apply HR; exact H.
  - cbn [ochk]. apply HR; exact H.
  - cbn [ochk]. apply HR; exact H.
  - cbn [ochk]. rewrite optN_eqb_refl. cbn [andb]. apply HR; exact H.
  - cbn [ochk]. apply HR; exact H.
Qed.

(* a reference to a plain silent rule against the image of that rule's body *)
Lemma ochk_ref_inline F toff n r e' : lookup g n = Some r -> plain_silent r = true ->
  ochk g g' F toff (r_body r) e' = true -> ochk g g' (S F) toff (ERef n None) e' = true.
Proof.
  intros L P H.
  destruct e'; cbn [ochk]; rewrite L, P, H; cbn [andb]; rewrite ?orb_true_r; reflexivity.
Qed.

Variable bi : N -> bool.
Hypothesis Hbi : forall n r, bi n = true -> n <> EOI_ID -> lookup g n = Some r -> plain_silent r = true.

Lemma ochk_inline_td : forall fu e e', map_td (inline_builtin1 bi g) fu e = Some e' ->
  forall F toff, 2 * fu <= F -> ochk g g' F toff e e' = true.
Proof.
  induction fu as [|fu IH]; intros e e' H F toff LF; [discriminate|].
  apply map_td_shape in H.
  destruct F as [|[|F]]; try lia.
  assert (IH1 : forall a b, map_td (inline_builtin1 bi g) fu a = Some b -> ochk g g' (S F) toff a b = true)
    by (intros a b K; apply (IH a b K); lia).
  assert (IH0 : forall a b, map_td (inline_builtin1 bi g) fu a = Some b -> ochk g g' F toff a b = true)
    by (intros a b K; apply (IH a b K); lia).
  assert (Plain : inline_builtin1 bi g e = e -> ochk g g' (S (S F)) toff e e' = true).
  { intros E. rewrite E in H. eapply cong_ochk; [exact IH1|exact H]. }
  destruct e; try (apply Plain; reflexivity).
  destruct tag as [t|]; [apply Plain; reflexivity|].
  cbn [inline_builtin1] in *.
  destruct (bi n && negb (N.eqb n EOI_ID)) eqn:B; [|apply Plain; reflexivity].
  destruct (lookup g n) as [r|] eqn:L; [|apply Plain; reflexivity].
  apply andb_prop in B. destruct B as [B1 B2]. apply negb_true_iff in B2. apply N.eqb_neq in B2.
  apply (ochk_ref_inline (S F) toff n r e' L (Hbi n r B1 B2 L)).
  eapply cong_ochk; [exact IH0|exact H].
Qed.

End Expr.

(* ---------- the table ---------- *)
Definition builtins_plain (bi : N -> bool) (g : grammar) : bool :=
  forallb (fun r => negb (bi (r_name r)) || N.eqb (r_name r) EOI_ID || plain_silent r) g.

Lemma opt_rules_map {A} (h : A -> option rule) : forall l g',
  opt_rules (map h l) = Some g' -> Forall2 (fun x r' => h x = Some r') l g'.
Proof.
  induction l as [|x l IH]; intros g' H; cbn [map opt_rules] in H.
  - inversion H. constructor.
  - destruct (h x) as [r|] eqn:E; [|discriminate].
    destruct (opt_rules (map h l)) as [gl|] eqn:E2; [|discriminate].
    inversion H; subst. constructor; [exact E|apply IH; reflexivity].
Qed.

Lemma defined_in_F2 : forall g g', Forall2 (fun r r' => r_name r' = r_name r) g g' ->
  forall n, defined_in g' n = defined_in g n.
Proof.
  intros g g' H n. unfold defined_in. induction H as [|r r' g g' Hn _ IH]; [reflexivity|].
  cbn [lookup]. rewrite Hn. destruct (N.eqb (r_name r) n); [reflexivity|exact IH].
Qed.

Lemma Forall2_In_r {A B} (R : A -> B -> Prop) : forall l l' y, Forall2 R l l' -> In y l' ->
  exists x, In x l /\ R x y.
Proof.
  intros l l' y H. induction H as [|a b l l' Hab _ IH]; intros Hy; [destruct Hy|].
  destruct Hy as [<-|Hy]; [exists a; split; [left; reflexivity|exact Hab]|].
  destruct (IH Hy) as [x [I1 I2]]. exists x. split; [right; exact I1|exact I2].
Qed.

Theorem pass_inline_builtin_validated bi fuel g g' :
  names_nodup g = true -> defined_in g SKIP_ID = false -> builtins_plain bi g = true ->
  gdepth g <= 2 * fuel ->
  pass_inline_builtin bi fuel g = Some g' ->
  ochk_grammar g g' (2 * fuel) = true.
Proof.
  intros ND NS BP GD H. unfold pass_inline_builtin in H.
  set (h := fun r => if bi (r_name r) then Some r
                     else match map_td (inline_builtin1 bi g) fuel (r_body r) with
                          | Some b => Some (set_body r b)
                          | None => None
                          end) in H.
  apply opt_rules_map in H.
  assert (Nm : forall r r', h r = Some r' -> r_name r' = r_name r).
  { intros r r' E. unfold h in E. destruct (bi (r_name r)); [inversion E; reflexivity|].
    destruct (map_td _ _ _); inversion E. reflexivity. }
  assert (Hd : forall n, defined_in g' n = defined_in g n).
  { apply defined_in_F2. eapply Forall2_impl'; [|exact H]. exact Nm. }
  assert (Hbi : forall n r, bi n = true -> n <> EOI_ID -> lookup g n = Some r -> plain_silent r = true).
  { intros n r B NE L. pose proof (lookup_In g n r L) as I. pose proof (lookup_name' g n r L) as E.
    unfold builtins_plain in BP. rewrite forallb_forall in BP. specialize (BP r I). rewrite E, B in BP.
    apply N.eqb_neq in NE. rewrite NE in BP. exact BP. }
  unfold ochk_grammar. rewrite NS. cbn [negb]. rewrite andb_true_r. apply andb_true_intro. split.
  - apply forallb_forall. intros r' Hr'.
    destruct (Forall2_In_r _ g g' r' H Hr') as [r [Hr E]].
    apply orb_true_intro. right. unfold ochk_rule. rewrite (Nm r r' E), (lookup_nodup g r ND Hr).
    pose proof (gdepth_In g r Hr) as Dp.
    unfold h in E. destruct (bi (r_name r)).
    + inversion E; subst. rewrite Bool.eqb_reflx, kind_eqb_refl. cbn [andb].
      apply (ochk_refl g g' Hd). lia.
    + destruct (map_td (inline_builtin1 bi g) fuel (r_body r)) as [b|] eqn:M; [|discriminate].
      inversion E; subst. cbn [set_body r_silent r_kind r_body].
      rewrite Bool.eqb_reflx, kind_eqb_refl. cbn [andb].
      apply (ochk_inline_td g g' Hd bi Hbi fuel (r_body r) b M). lia.
  - apply forallb_forall. intros r Hr. rewrite Hd. unfold defined_in.
    rewrite (lookup_nodup g r ND Hr). reflexivity.
Qed.

Theorem pass_inline_builtin_sound bi fuel g g' :
  names_nodup g = true -> defined_in g SKIP_ID = false -> builtins_plain bi g = true ->
  gdepth g <= 2 * fuel ->
  pass_inline_builtin bi fuel g = Some g' ->
  forall rule input k, defined_in g rule = true ->
    (forall f r, parse g f rule input k = r -> r <> Fuel -> exists f', req (parse g' f' rule input k) r) /\
    (forall f r, parse g' f rule input k = r -> r <> Fuel -> exists f', req (parse g f' rule input k) r).
Proof.
  intros ND NS BP GD H. apply (ochk_sound g g' (2 * fuel)).
  eapply pass_inline_builtin_validated; eassumption.
Qed.
