(* SpecSyn.v — syntactic predicates over expression trees ("every node satisfies p") and
   their propagation to the sub-tasks the evaluator visits. *)
From Coq Require Import List NArith ZArith Bool Arith Lia.
Import ListNotations.
From PP Require Import Base Syntax Spec.

Section AllSub.
Variable p : expr -> bool.

Fixpoint all_sub (e : expr) : bool :=
  p e &&
  match e with
  | ESeq es | EAlt es =>
      (fix go (l : list expr) : bool := match l with [] => true | x :: l' => all_sub x && go l' end) es
  | EOpt e1 | EStar e1 | EPlus e1 | ERepN e1 _ | ERepMin e1 _ | ERepMax e1 _ | ERepMinMax e1 _ _
  | EAnd e1 | ENot e1 | EGrp e1 _ | EPush e1 => all_sub e1
  | _ => true
  end.

Definition all_list (es : list expr) : bool := forallb all_sub es.

Lemma all_sub_seq es : all_sub (ESeq es) = p (ESeq es) && all_list es.
Proof. cbn [all_sub]. f_equal. Qed.
Lemma all_sub_alt es : all_sub (EAlt es) = p (EAlt es) && all_list es.
Proof. cbn [all_sub]. f_equal. Qed.

Lemma all_list_repeat e n : all_sub e = true -> all_list (repeat e n) = true.
Proof. intros H. induction n as [|n IH]; [reflexivity|]. cbn. rewrite H. exact IH. Qed.

Lemma all_list_app a b : all_list (a ++ b) = all_list a && all_list b.
Proof. apply forallb_app. Qed.

Definition all_task (t : task) : bool :=
  match t with
  | TEval e => all_sub e
  | TSeq es | TAlt es => all_list es
  | TStar e => all_sub e
  end.

Definition all_grammar (g : grammar) : bool := forallb (fun r => all_sub (r_body r)) g.

Lemma all_grammar_lookup : forall g n r, all_grammar g = true -> lookup g n = Some r ->
  all_sub (r_body r) = true.
Proof.
  induction g as [|r0 g IH]; intros n r H L; cbn in *; [discriminate|].
  apply andb_prop in H. destruct H as [H1 H2].
  destruct (N.eqb (r_name r0) n); [inversion L; subst; exact H1|eapply IH; eassumption].
Qed.

End AllSub.

(* predicates used by the theorems *)
Definition not_soi (e : expr) : bool := match e with ESoi => false | _ => true end.

Definition ref_defined (g : grammar) (e : expr) : bool :=
  match e with
  | ERef n _ => match lookup g n with Some _ => true | None => false end
  | _ => true
  end.

(* the skip expression only mentions WHITESPACE / COMMENT when they are defined *)
Lemma skip_expr_all (p : expr -> bool) g e :
  (forall x, match x with ERef _ None | EStar _ | ESeq _ => p x = true | _ => True end) ->
  skip_expr g = Some e -> all_sub p e = true.
Proof.
  intros Hp H. unfold skip_expr in H.
  assert (R : forall n, all_sub p (EStar (ERef n None)) = true).
  { intros n. cbn. rewrite (Hp (EStar (ERef n None))), (Hp (ERef n None)). reflexivity. }
  assert (C : all_sub p (ERef CM_ID None) = true).
  { cbn. rewrite (Hp (ERef CM_ID None)). reflexivity. }
  destruct (has_ws g), (has_cm g); inversion H; subst; clear H.
  - rewrite all_sub_seq. rewrite (Hp (ESeq _)). cbn [all_list forallb]. rewrite R.
    change (all_sub p (EStar (ESeq [ERef CM_ID None; EStar (ERef WS_ID None)])))
      with (p (EStar (ESeq [ERef CM_ID None; EStar (ERef WS_ID None)]))
            && all_sub p (ESeq [ERef CM_ID None; EStar (ERef WS_ID None)])).
    rewrite (Hp (EStar _)). rewrite all_sub_seq. rewrite (Hp (ESeq _)).
    cbn [all_list forallb]. rewrite R, C. reflexivity.
  - apply R.
  - apply R.
Qed.
