(* SpecTerm.v — termination of the reference semantics for well-formed grammars.
   `wf_grammar nul rank g` is a decidable check in the style of pest's validator; it takes a
   certificate: `nul` (which rules may succeed without consuming) and `rank` (a ranking of
   the rules witnessing the absence of left recursion). *)
From Coq Require Import List NArith ZArith Bool Arith Lia. Import ListNotations.
From PP Require Import Base Syntax Spec SpecMono SpecLaws SpecWf SpecSyn.

(* ------------------------------------------------------------------------------------ *)
(* 1. The check                                                                          *)
(* ------------------------------------------------------------------------------------ *)

Section Check.
Variable nul : N -> bool.

(* conservative "may succeed without consuming input" *)
Fixpoint nullable (e : expr) : bool :=
  match e with
  | EStr s | ECIStr s => match s with [] => true | _ :: _ => false end
  | ERange _ _ | EAny | ECls _ => false
  | ESoi | EEoi => true
  | ERef n _ => nul n
  | ESeq es => forallb nullable es
  | EAlt es => existsb nullable es
  | EOpt _ | EStar _ | ERepMax _ _ | EAnd _ | ENot _ => true
  | EPlus e1 => nullable e1
  | ERepN e1 n | ERepMin e1 n => match n with O => true | S _ => nullable e1 end
  | ERepMinMax e1 m _ => match m with O => true | S _ => nullable e1 end
  | EGrp e1 _ | EPush e1 => nullable e1
  | EPushLit _ | EPeek | EPeekSl _ _ | EPeekAll | EPop | EPopAll | EDrop | ESkipUntil _ => true
  end.

Definition tnullable (t : task) : bool :=
  match t with
  | TEval e => nullable e
  | TSeq es => forallb nullable es
  | TAlt es => existsb nullable es
  | TStar _ => true
  end.

(* (b) node predicate: the body of an unbounded repetition is not nullable *)
Definition rep_node (e : expr) : bool :=
  match e with
  | EStar x | EPlus x | ERepMin x _ => negb (nullable x)
  | _ => true
  end.

(* the condition on tasks: (b) for every sub-expression; the body of a running star loop is
   itself not nullable *)
Definition task_ok (t : task) : bool :=
  all_task rep_node t && match t with TStar e => negb (nullable e) | _ => true end.

(* rule references evaluated by the implicit skip; `sk` = "implicit skipping may be on" *)
Definition skip_refs (sk : bool) : list N := if sk then [WS_ID; CM_ID] else [].

(* (c) the rule references in left position: reachable before anything non-nullable has
   been passed.  The implicit skip between two elements of a sequence is in left position
   when the elements before it are nullable. *)
Section Left.
Variable sk : bool.

Fixpoint left_refs (e : expr) {struct e} : list N :=
  match e with
  | ERef m _ => [m]
  | ESeq es =>
      (fix go (l : list expr) : list N :=
         match l with
         | [] => []
         | x :: l' =>
             left_refs x ++
             (if nullable x
              then (match l' with [] => [] | _ :: _ => skip_refs sk end) ++ go l'
              else [])
         end) es
  | EAlt es => flat_map left_refs es
  | EOpt x | EStar x | EPlus x | ERepMin x _ | EAnd x | ENot x | EGrp x _ | EPush x =>
      left_refs x
  | ERepN x _ => left_refs x ++ (if nullable x then skip_refs sk else [])
  | ERepMax x _ | ERepMinMax x _ _ => left_refs x ++ skip_refs sk
  | _ => []
  end.

Fixpoint seq_left (l : list expr) : list N :=
  match l with
  | [] => []
  | x :: l' =>
      left_refs x ++
      (if nullable x
       then (match l' with [] => [] | _ :: _ => skip_refs sk end) ++ seq_left l'
       else [])
  end.

Definition task_left (t : task) : list N :=
  match t with
  | TEval e => left_refs e
  | TSeq es => seq_left es
  | TAlt es => flat_map left_refs es
  | TStar e => skip_refs sk ++ left_refs e
  end.

End Left.

(* can the body of rule r run with implicit skipping on? (KNormal inherits: conservative) *)
Definition may_skip (r : rule) : bool :=
  match r_kind r with
  | KCompound | KAtomic => false
  | _ => negb (is_trivia_name (r_name r))
  end.

Variable rank : N -> nat.
Variable g : grammar.

(* undefined references impose nothing *)
Definition ref_lt (b : nat) (m : N) : bool :=
  match lookup g m with None => true | Some _ => rank m <? b end.

Definition wf_rule (r : rule) : bool :=
  (negb (nullable (r_body r)) || nul (r_name r))                                   (* (a) *)
  && all_sub rep_node (r_body r)                                                    (* (b) *)
  && forallb (ref_lt (rank (r_name r))) (left_refs (may_skip r) (r_body r)).        (* (c) *)

Definition wf_grammar : bool :=
  forallb wf_rule g
  && (negb (has_ws g) || negb (nul WS_ID))                                          (* (d) *)
  && (negb (has_cm g) || negb (nul CM_ID)).

End Check.

(* ------------------------------------------------------------------------------------ *)
(* 4. Non-vacuity                                                                        *)
(* ------------------------------------------------------------------------------------ *)

Definition mk (n : N) (silent : bool) (e : expr) : rule :=
  {| r_name := n; r_silent := silent; r_kind := KNormal; r_body := e |}.

(* balanced = { "(" ~ balanced* ~ ")" } : recursive, not left recursive *)
Example wf_balanced :
  wf_grammar (fun _ => false) (fun _ => 0)
    [{| r_name := 5; r_silent := false; r_kind := KNormal;
        r_body := ESeq [EStr [40%N]; EStar (ERef 5 None); EStr [41%N]] |}] = true.
Proof. vm_compute; reflexivity. Qed.

(* WHITESPACE = _{ " " }   item = { "a" }   list = { item ~ ("," ~ item)* ~ "b"? } *)
Example wf_with_whitespace :
  wf_grammar (fun _ => false) (fun n => N.to_nat n)
    [ mk WS_ID true (EStr [32%N]);
      mk 5 false (EStr [97%N]);
      mk 6 false (ESeq [ERef 5 None; EStar (ESeq [EStr [44%N]; ERef 5 None]); EOpt (EStr [98%N])]) ]
  = true.
Proof. vm_compute; reflexivity. Qed.

(* nullable rules, left position through a nullable prefix, and the implicit skip in left
   position: opt = { "x"? ~ item }, ranks WHITESPACE < item < opt *)
Example wf_nullable_prefix :
  wf_grammar (fun n => N.eqb n 7) (fun n => N.to_nat n)
    [ mk WS_ID true (ESeq [EOpt (EStr [13%N]); EStr [10%N]]);
      mk 5 false (EStr [97%N]);
      mk 7 false (EOpt (ERef 5 None));
      mk 8 false (ESeq [ERef 7 None; ERef 5 None]) ]
  = true.
Proof. vm_compute; reflexivity. Qed.

(* a = { a ~ "x" } : left recursive; rejected whatever the certificate says about a *)
Example wf_rejects_left_recursion : forall nul rank,
  wf_grammar nul rank [mk 5 false (ESeq [ERef 5 None; EStr [120%N]])] = false.
Proof.
  intros nul rank. unfold wf_grammar, wf_rule, ref_lt. cbn -[Nat.ltb].
  rewrite Nat.ltb_irrefl. rewrite !andb_false_r. reflexivity.
Qed.

Example wf_rejects_left_recursion_0 :
  wf_grammar (fun _ => false) (fun _ => 0) [mk 5 false (ESeq [ERef 5 None; EStr [120%N]])] = false.
Proof. vm_compute; reflexivity. Qed.

(* indirect left recursion through a nullable prefix: a = { "x"? ~ a } *)
Example wf_rejects_hidden_left_recursion : forall nul rank,
  wf_grammar nul rank [mk 5 false (ESeq [EOpt (EStr [120%N]); ERef 5 None])] = false.
Proof.
  intros nul rank. unfold wf_grammar, wf_rule, ref_lt. cbn -[Nat.ltb].
  rewrite Nat.ltb_irrefl. rewrite !andb_false_r. reflexivity.
Qed.

(* b = { ("x"?)* } : repetition of a nullable body; rejected whatever the certificate *)
Example wf_rejects_nullable_star : forall nul rank,
  wf_grammar nul rank [mk 6 false (EStar (EOpt (EStr [120%N])))] = false.
Proof. intros nul rank. unfold wf_grammar, wf_rule. cbn. rewrite !andb_false_r. reflexivity. Qed.

Example wf_rejects_nullable_star_0 :
  wf_grammar (fun _ => true) (fun _ => 0) [mk 6 false (EStar (EOpt (EStr [120%N])))] = false.
Proof. vm_compute; reflexivity. Qed.

(* WHITESPACE reaching itself through the implicit skip of a non-atomic rule:
   WHITESPACE = { a }   a = !{ "x"? ~ "y" }   — rejected *)
Example wf_rejects_skip_recursion : forall rank,
  wf_grammar (fun _ => false) rank
    [ mk WS_ID true (ERef 5 None);
      {| r_name := 5; r_silent := false; r_kind := KNonAtomic;
         r_body := ESeq [EOpt (EStr [120%N]); EStr [121%N]] |} ] = false.
Proof.
  intros rank. unfold wf_grammar, wf_rule, ref_lt. cbn -[Nat.ltb].
  destruct (rank 5%N <? rank WS_ID) eqn:A; destruct (rank WS_ID <? rank 5%N) eqn:B; try reflexivity.
  apply Nat.ltb_lt in A. apply Nat.ltb_lt in B. lia.
Qed.

(* ... and it does loop: the check (c) has to count the implicit skip as a left position *)
Example skip_recursion_loops :
  parse [ mk WS_ID true (ERef 5 None);
          {| r_name := 5; r_silent := false; r_kind := KNonAtomic;
             r_body := ESeq [EOpt (EStr [120%N]); EStr [121%N]] |} ] 300 5 [121%N] 0 = Fuel.
Proof. vm_compute; reflexivity. Qed.

(* ------------------------------------------------------------------------------------ *)
(* 2(i). Evaluation never lengthens the remaining text (any grammar)                     *)
(* ------------------------------------------------------------------------------------ *)

Section NoLengthen.
Variable g : grammar.

Lemma rest_push_tag tag s : s_rest (push_tag tag s) = s_rest s.
Proof. destruct tag; reflexivity. Qed.
Lemma rest_pop_tag tag s : s_rest (pop_tag tag s) = s_rest s.
Proof. destruct tag; reflexivity. Qed.
Lemma rest_finish_rule c r p s1 kids s2 ps :
  finish_rule c r p s1 kids = (s2, ps) -> s_rest s2 = s_rest s1.
Proof.
  unfold finish_rule. intros H.
  destruct (r_silent r); [inversion H; reflexivity|].
  destruct (visible c r); inversion H; reflexivity.
Qed.

Lemma match_all_length ws rest n0 r n :
  match_all ws rest n0 = Some (r, n) -> length r <= length rest.
Proof.
  intros H. apply match_all_skipn in H. destruct H as [m [_ [-> _]]].
  rewrite skipn_length. lia.
Qed.

Lemma strip_prefix_length lit rest r :
  strip_prefix lit rest = Some r -> length rest = length lit + length r.
Proof. intros H. apply strip_prefix_app in H. subst rest. apply app_length. Qed.

Lemma run_no_lengthen : forall f c t s s' ps,
  run g f c t s = Ok s' ps -> length (s_rest s') <= length (s_rest s).
Proof.
  induction f as [|f IH]; intros c t s s' ps H; [discriminate|].
  assert (IHk : forall c0 s0 s0' ps0,
            skip_with g (fun c' e' => run g f c' (TEval e')) c0 s0 = Ok s0' ps0 ->
            length (s_rest s0') <= length (s_rest s0)).
  { intros c0 s0 s0' ps0 H0. unfold skip_with in H0.
    destruct (c_atom c0); try (inversion H0; subst; lia).
    destruct (skip_expr g); [eapply IH; exact H0|inversion H0; subst; lia]. }
  destruct t as [e|es|es|e]; [destruct e|..]; cbn [run] in H.
  - (* EStr *) destruct (strip_prefix s0 (s_rest s)) eqn:E; inversion H; subst; cbn.
    apply strip_prefix_length in E. lia.
  - (* ECIStr *) destruct (strip_prefix_ci s0 (s_rest s)) eqn:E; inversion H; subst; cbn.
    apply strip_prefix_ci_length in E. lia.
  - (* ERange *) destruct (s_rest s) as [|d r] eqn:E; [discriminate|].
    destruct (_ && _); inversion H; subst; cbn. lia.
  - (* EAny *) destruct (s_rest s) as [|d r] eqn:E; inversion H; subst; cbn. lia.
  - (* ESoi *) destruct (N.eqb _ _); inversion H; subst; lia.
  - (* EEoi *) destruct (s_rest s) eqn:E; inversion H; subst; rewrite E; cbn; lia.
  - (* ECls *) destruct (s_rest s) as [|d r] eqn:E; [discriminate|].
    destruct (in_ranges d rs); inversion H; subst; cbn. lia.
  - (* ERef *) destruct (lookup g n) as [r|]; [|discriminate].
    destruct (run g f (rule_ctx c r) (TEval (r_body r)) (push_tag tag s)) as [s1 kids|t| |] eqn:E;
      try discriminate.
    apply IH in E. rewrite rest_push_tag in E.
    destruct (finish_rule c r (s_pos s) s1 kids) as [s2 ps2] eqn:EF.
    apply rest_finish_rule in EF. inversion H; subst. rewrite rest_pop_tag, EF. exact E.
  - (* ESeq *) eapply IH; exact H.
  - (* EAlt *) eapply IH; exact H.
  - (* EOpt *) destruct (run g f c (TEval e) s) as [s1 p1|t| |] eqn:E; inversion H; subst.
    + eapply IH; exact E.
    + cbn. lia.
  - (* EStar *) destruct (run g f c (TEval e) s) as [s1 p1|t| |] eqn:E; try discriminate.
    + destruct (run g f c (TStar e) s1) as [s2 p2|t| |] eqn:E2; inversion H; subst.
      apply IH in E. apply IH in E2. lia.
    + inversion H; subst. cbn. lia.
  - eapply IH; exact H.
  - eapply IH; exact H.
  - eapply IH; exact H.
  - eapply IH; exact H.
  - eapply IH; exact H.
  - (* EAnd *) destruct (run g f c (TEval e) s) as [s1 p1|t| |] eqn:E; inversion H; subst. cbn. lia.
  - (* ENot *) destruct (run g f (neg_ctx c) (TEval e) s) as [s1 p1|t| |] eqn:E; inversion H; subst.
    cbn. lia.
  - (* EGrp *) destruct (run g f c (TEval e) (push_tag tag s)) as [s1 p1|t| |] eqn:E;
      inversion H; subst. apply IH in E. rewrite rest_push_tag in E. rewrite rest_pop_tag. exact E.
  - (* EPush *) destruct (run g f c (TEval e) s) as [s1 p1|t| |] eqn:E; inversion H; subst.
    apply IH in E. exact E.
  - (* EPushLit *) inversion H; subst. cbn. lia.
  - (* EPeek *) destruct (s_stk s) as [|w k]; [discriminate|].
    destruct (strip_prefix w (s_rest s)) eqn:E; inversion H; subst; cbn.
    apply strip_prefix_length in E. lia.
  - (* EPeekSl *) destruct (match_all _ (s_rest s) 0) as [[r n]|] eqn:E; inversion H; subst; cbn.
    eapply match_all_length; exact E.
  - (* EPeekAll *) destruct (match_all _ (s_rest s) 0) as [[r n]|] eqn:E; inversion H; subst; cbn.
    eapply match_all_length; exact E.
  - (* EPop *) destruct (s_stk s) as [|w k]; [discriminate|].
    destruct (strip_prefix w (s_rest s)) eqn:E; inversion H; subst; cbn.
    apply strip_prefix_length in E. lia.
  - (* EPopAll *) destruct (match_all _ (s_rest s) 0) as [[r n]|] eqn:E; inversion H; subst; cbn.
    eapply match_all_length; exact E.
  - (* EDrop *) destruct (s_stk s); inversion H; subst. cbn. lia.
  - (* ESkipUntil *) inversion H; subst. cbn. rewrite skipn_length. lia.
  - (* TSeq *) destruct es as [|e1 es']; [inversion H; subst; lia|].
    destruct (run g f c (TEval e1) s) as [s1 p1|t| |] eqn:E1; try discriminate.
    apply IH in E1.
    destruct es' as [|e2 es'']; [inversion H; subst; exact E1|].
    destruct (skip_with g _ c s1) as [s2 pw|t| |] eqn:E2; try discriminate.
    apply IHk in E2.
    destruct (run g f c (TSeq (e2 :: es'')) s2) as [s3 p3|t| |] eqn:E3; inversion H; subst.
    apply IH in E3. lia.
  - (* TAlt *) destruct es as [|e1 es']; [discriminate|].
    destruct (run g f c (TEval e1) s) as [s1 p1|t| |] eqn:E1; try discriminate.
    + inversion H; subst. eapply IH; exact E1.
    + apply IH in H. exact H.
  - (* TStar *) destruct (skip_with g _ c s) as [s2 pw|t| |] eqn:E1; try discriminate.
    apply IHk in E1.
    destruct (run g f c (TEval e) s2) as [s3 p3|t| |] eqn:E2; try discriminate.
    + destruct (run g f c (TStar e) s3) as [s4 p4|t| |] eqn:E3; inversion H; subst.
      apply IH in E2. apply IH in E3. lia.
    + inversion H; subst. cbn. lia.
Qed.

Lemma skip_no_lengthen f c s s' ps :
  skip_with g (fun c' e' => run g f c' (TEval e')) c s = Ok s' ps ->
  length (s_rest s') <= length (s_rest s).
Proof.
  intros H0. unfold skip_with in H0.
  destruct (c_atom c); try (inversion H0; subst; lia).
  destruct (skip_expr g); [eapply run_no_lengthen; exact H0|inversion H0; subst; lia].
Qed.

End NoLengthen.

(* ------------------------------------------------------------------------------------ *)
(* 2(ii), 3. Progress and termination under wf_grammar                                   *)
(* ------------------------------------------------------------------------------------ *)

Section Term.
Variable nul : N -> bool.
Variable rank : N -> nat.
Variable g : grammar.
Hypothesis WF : wf_grammar nul rank g = true.

Lemma lookup_In : forall (gr : grammar) n r, lookup gr n = Some r -> In r gr.
Proof.
  induction gr as [|r0 gr IH]; intros n r H; cbn in H; [discriminate|].
  destruct (N.eqb (r_name r0) n); [inversion H; subst; left; reflexivity|right; eapply IH; exact H].
Qed.

Lemma wf_lookup n r : lookup g n = Some r -> wf_rule nul rank g r = true /\ r_name r = n.
Proof.
  intros H. split; [|eapply lookup_name; exact H].
  unfold wf_grammar in WF. apply andb_prop in WF. destruct WF as [W1 _].
  apply andb_prop in W1. destruct W1 as [W1 _].
  rewrite forallb_forall in W1. apply W1. eapply lookup_In. exact H.
Qed.

Lemma wf_ws : has_ws g = true -> nul WS_ID = false.
Proof.
  intros H. unfold wf_grammar in WF. apply andb_prop in WF. destruct WF as [W1 _].
  apply andb_prop in W1. destruct W1 as [_ W2]. rewrite H in W2. cbn in W2.
  destruct (nul WS_ID); [discriminate|reflexivity].
Qed.

Lemma wf_cm : has_cm g = true -> nul CM_ID = false.
Proof.
  intros H. unfold wf_grammar in WF. apply andb_prop in WF. destruct WF as [_ W2].
  rewrite H in W2. cbn in W2. destruct (nul CM_ID); [discriminate|reflexivity].
Qed.

(* (a), read contrapositively *)
Lemma wf_body_not_nullable n r :
  lookup g n = Some r -> nul n = false -> nullable nul (r_body r) = false.
Proof.
  intros H Hn. destruct (wf_lookup n r H) as [W E]. unfold wf_rule in W.
  apply andb_prop in W. destruct W as [W _]. apply andb_prop in W. destruct W as [W _].
  rewrite E, Hn in W. destruct (nullable nul (r_body r)); [discriminate|reflexivity].
Qed.

Lemma nullable_repeat_false e k : nullable nul e = false -> forallb (nullable nul) (repeat e (S k)) = false.
Proof. intros H. cbn. rewrite H. reflexivity. Qed.

Lemma run_consumes : forall f c t s s' ps,
  tnullable nul t = false -> run g f c t s = Ok s' ps ->
  length (s_rest s') < length (s_rest s).
Proof.
  induction f as [|f IH]; intros c t s s' ps N H; [discriminate|].
  destruct t as [e|es|es|e]; [destruct e|..]; cbn [tnullable nullable] in N;
    try discriminate; cbn [run] in H.
  - (* EStr *) destruct s0 as [|a lit]; [discriminate|].
    destruct (strip_prefix (a :: lit) (s_rest s)) eqn:E; inversion H; subst; cbn.
    apply strip_prefix_length in E. cbn in E. lia.
  - (* ECIStr *) destruct s0 as [|a lit]; [discriminate|].
    destruct (strip_prefix_ci (a :: lit) (s_rest s)) eqn:E; inversion H; subst; cbn.
    apply strip_prefix_ci_length in E. cbn in E. lia.
  - (* ERange *) destruct (s_rest s) as [|d r] eqn:E; [discriminate|].
    destruct (_ && _); inversion H; subst; cbn. lia.
  - (* EAny *) destruct (s_rest s) as [|d r] eqn:E; inversion H; subst; cbn. lia.
  - (* ECls *) destruct (s_rest s) as [|d r] eqn:E; [discriminate|].
    destruct (in_ranges d rs); inversion H; subst; cbn. lia.
  - (* ERef *) destruct (lookup g n) as [r|] eqn:EL; [|discriminate].
    assert (NB := wf_body_not_nullable n r EL N).
    destruct (run g f (rule_ctx c r) (TEval (r_body r)) (push_tag tag s)) as [s1 kids|t| |] eqn:E;
      try discriminate.
    apply IH in E; [|exact NB]. rewrite rest_push_tag in E.
    destruct (finish_rule c r (s_pos s) s1 kids) as [s2 ps2] eqn:EF.
    apply rest_finish_rule in EF. inversion H; subst. rewrite rest_pop_tag, EF. exact E.
  - (* ESeq *) eapply IH; [|exact H]. exact N.
  - (* EAlt *) eapply IH; [|exact H]. exact N.
  - (* EPlus *) eapply IH; [|exact H]. cbn. rewrite N. reflexivity.
  - (* ERepN *) destruct n as [|k]; [discriminate|].
    eapply IH; [|exact H]. apply nullable_repeat_false. exact N.
  - (* ERepMin *) destruct n as [|k]; [discriminate|].
    eapply IH; [|exact H]. cbn. rewrite N. reflexivity.
  - (* ERepMinMax *) destruct m as [|k]; [discriminate|].
    eapply IH; [|exact H]. cbn. rewrite N. reflexivity.
  - (* EGrp *) destruct (run g f c (TEval e) (push_tag tag s)) as [s1 p1|t| |] eqn:E;
      inversion H; subst. apply IH in E; [|exact N]. rewrite rest_push_tag in E.
    rewrite rest_pop_tag. exact E.
  - (* EPush *) destruct (run g f c (TEval e) s) as [s1 p1|t| |] eqn:E; inversion H; subst.
    apply IH in E; [|exact N]. exact E.
  - (* TSeq *) destruct es as [|e1 es']; [discriminate|].
    cbn [forallb] in N.
    destruct (run g f c (TEval e1) s) as [s1 p1|t| |] eqn:E1; try discriminate.
    assert (L1 := run_no_lengthen g _ _ _ _ _ _ E1).
    destruct es' as [|e2 es''].
    { inversion H; subst. cbn in N. rewrite andb_true_r in N. eapply IH; [|exact E1]. exact N. }
    destruct (skip_with g _ c s1) as [s2 pw|t| |] eqn:E2; try discriminate.
    assert (L2 := skip_no_lengthen g _ _ _ _ _ E2).
    destruct (run g f c (TSeq (e2 :: es'')) s2) as [s3 p3|t| |] eqn:E3; inversion H; subst.
    assert (L3 := run_no_lengthen g _ _ _ _ _ _ E3).
    destruct (nullable nul e1) eqn:N1.
    + cbn [andb] in N. apply IH in E3; [|exact N]. lia.
    + apply IH in E1; [|exact N1]. lia.
  - (* TAlt *) destruct es as [|e1 es']; [discriminate|].
    cbn [existsb] in N. apply orb_false_elim in N. destruct N as [N1 N2].
    destruct (run g f c (TEval e1) s) as [s1 p1|t| |] eqn:E1; try discriminate.
    + inversion H; subst. eapply IH; [|exact E1]. exact N1.
    + apply IH in H; [|exact N2]. exact H.
Qed.

(* ---------- fuel plumbing: combine the fuels of sub-derivations with run_mono ---------- *)

Notation skipf f := (fun c' e' => run g f c' (TEval e')).

Lemma skip_mono' f f' c s r :
  skip_with g (skipf f) c s = r -> r <> Fuel -> f <= f' -> skip_with g (skipf f') c s = r.
Proof. intros H D L. eapply (skip_mono g f (mono_all g f)); eassumption. Qed.

Lemma term_step c t t' s :
  (forall f, run g (S f) c t s = run g f c t' s) ->
  (exists f, run g f c t' s <> Fuel) -> exists f, run g f c t s <> Fuel.
Proof. intros E [f H]. exists (S f). rewrite E. exact H. Qed.

Lemma term_star c e s :
  (exists f, run g f c (TEval e) s <> Fuel) ->
  (forall f s1 p1, run g f c (TEval e) s = Ok s1 p1 -> exists f', run g f' c (TStar e) s1 <> Fuel) ->
  exists f, run g f c (TEval (EStar e)) s <> Fuel.
Proof.
  intros [f1 H1] H2.
  destruct (run g f1 c (TEval e) s) as [s1 p1|t| |] eqn:E1; [| | |congruence].
  - destruct (H2 _ _ _ E1) as [f2 H3].
    exists (S (max f1 f2)). cbn [run].
    rewrite (run_mono g f1 (max f1 f2) _ _ _ _ E1) by first [discriminate|lia].
    destruct (run g f2 c (TStar e) s1) as [s2 p2|t| |] eqn:E2; [| | |congruence];
      rewrite (run_mono g f2 (max f1 f2) _ _ _ _ E2) by first [discriminate|lia]; discriminate.
  - exists (S f1). cbn [run]. rewrite E1. discriminate.
  - exists (S f1). cbn [run]. rewrite E1. discriminate.
Qed.

Lemma term_seq c e1 e2 es s :
  (exists f, run g f c (TEval e1) s <> Fuel) ->
  (forall f s1 p1, run g f c (TEval e1) s = Ok s1 p1 ->
     exists f', skip_with g (skipf f') c s1 <> Fuel) ->
  (forall f s1 p1 f' s2 pw, run g f c (TEval e1) s = Ok s1 p1 ->
     skip_with g (skipf f') c s1 = Ok s2 pw ->
     exists f'', run g f'' c (TSeq (e2 :: es)) s2 <> Fuel) ->
  exists f, run g f c (TSeq (e1 :: e2 :: es)) s <> Fuel.
Proof.
  intros [f1 H1] H2 H3.
  destruct (run g f1 c (TEval e1) s) as [s1 p1|t| |] eqn:E1; [| | |congruence].
  2,3: exists (S f1); rewrite seq_trivia_placement; rewrite E1; discriminate.
  destruct (H2 _ _ _ E1) as [f2 H2'].
  destruct (skip_with g (skipf f2) c s1) as [s2 pw|t| |] eqn:E2; [| | |congruence].
  2,3: exists (S (max f1 f2)); rewrite seq_trivia_placement;
    rewrite (run_mono g f1 (max f1 f2) _ _ _ _ E1) by first [discriminate|lia];
    rewrite (skip_mono' f2 (max f1 f2) _ _ _ E2) by first [discriminate|lia]; discriminate.
  destruct (H3 _ _ _ _ _ _ E1 E2) as [f3 H3'].
  exists (S (max f1 (max f2 f3))). rewrite seq_trivia_placement.
  rewrite (run_mono g f1 (max f1 (max f2 f3)) _ _ _ _ E1) by first [discriminate|lia].
  rewrite (skip_mono' f2 (max f1 (max f2 f3)) _ _ _ E2) by first [discriminate|lia].
  destruct (run g f3 c (TSeq (e2 :: es)) s2) as [s3 p3|t| |] eqn:E3; [| | |congruence];
    rewrite (run_mono g f3 (max f1 (max f2 f3)) _ _ _ _ E3) by first [discriminate|lia];
    discriminate.
Qed.

Lemma term_alt c e1 es s :
  (exists f, run g f c (TEval e1) s <> Fuel) ->
  (forall f t, run g f c (TEval e1) s = Fail t ->
     exists f', run g f' c (TAlt es) (set_trk s t) <> Fuel) ->
  exists f, run g f c (TAlt (e1 :: es)) s <> Fuel.
Proof.
  intros [f1 H1] H2.
  destruct (run g f1 c (TEval e1) s) as [s1 p1|t| |] eqn:E1; [| | |congruence].
  - exists (S f1). cbn [run]. rewrite E1. discriminate.
  - destruct (H2 _ _ E1) as [f2 H3].
    exists (S (max f1 f2)). cbn [run].
    rewrite (run_mono g f1 (max f1 f2) _ _ _ _ E1) by first [discriminate|lia].
    intros A. apply H3. destruct (run g f2 c (TAlt es) (set_trk s t)) eqn:E2; [| | |reflexivity];
      rewrite (run_mono g f2 (max f1 f2) _ _ _ _ E2) in A by first [discriminate|lia]; discriminate.
  - exists (S f1). cbn [run]. rewrite E1. discriminate.
Qed.

Lemma term_tstar c e s :
  (exists f, skip_with g (skipf f) c s <> Fuel) ->
  (forall f s2 pw, skip_with g (skipf f) c s = Ok s2 pw ->
     exists f', run g f' c (TEval e) s2 <> Fuel) ->
  (forall f s2 pw f' s3 p3, skip_with g (skipf f) c s = Ok s2 pw ->
     run g f' c (TEval e) s2 = Ok s3 p3 -> exists f'', run g f'' c (TStar e) s3 <> Fuel) ->
  exists f, run g f c (TStar e) s <> Fuel.
Proof.
  intros [f1 H1] H2 H3.
  destruct (skip_with g (skipf f1) c s) as [s2 pw|t| |] eqn:E1; [| | |congruence].
  2,3: exists (S f1); cbn [run]; rewrite E1; discriminate.
  destruct (H2 _ _ _ E1) as [f2 H2'].
  destruct (run g f2 c (TEval e) s2) as [s3 p3|t| |] eqn:E2; [| | |congruence].
  2,3: exists (S (max f1 f2)); cbn [run];
    rewrite (skip_mono' f1 (max f1 f2) _ _ _ E1) by first [discriminate|lia];
    rewrite (run_mono g f2 (max f1 f2) _ _ _ _ E2) by first [discriminate|lia]; discriminate.
  destruct (H3 _ _ _ _ _ _ E1 E2) as [f3 H3'].
  exists (S (max f1 (max f2 f3))). cbn [run].
  rewrite (skip_mono' f1 (max f1 (max f2 f3)) _ _ _ E1) by first [discriminate|lia].
  rewrite (run_mono g f2 (max f1 (max f2 f3)) _ _ _ _ E2) by first [discriminate|lia].
  destruct (run g f3 c (TStar e) s3) as [s4 p4|t| |] eqn:E3; [| | |congruence];
    rewrite (run_mono g f3 (max f1 (max f2 f3)) _ _ _ _ E3) by first [discriminate|lia];
    discriminate.
Qed.

(* ---------- a size on tasks; every recursive call of `run` that stays at the same input
   position and in left position is on a smaller task ---------- *)

Fixpoint esize (e : expr) : nat :=
  match e with
  | ESeq es | EAlt es =>
      S (S ((fix go (l : list expr) : nat :=
               match l with [] => 0 | x :: l' => S (esize x + go l') end) es))
  | EOpt x | EStar x | EAnd x | ENot x | EGrp x _ | EPush x => S (esize x)
  | EPlus x => esize x + esize x + 5
  | ERepN x k => S (S (k * S (esize x)))
  | ERepMin x k => S (S (k * S (esize x) + S (S (esize x))))
  | ERepMax x k => S (S (k * S (S (esize x))))
  | ERepMinMax x m k => S (S (m * S (esize x) + (k - m) * S (S (esize x))))
  | _ => 1
  end.

Fixpoint lsize (l : list expr) : nat :=
  match l with [] => 0 | x :: l' => S (esize x + lsize l') end.

Definition tsize (t : task) : nat :=
  match t with
  | TEval e => esize e
  | TSeq es | TAlt es => S (lsize es)
  | TStar e => S (esize e)
  end.

Lemma esize_seq es : esize (ESeq es) = S (S (lsize es)).
Proof. reflexivity. Qed.
Lemma esize_alt es : esize (EAlt es) = S (S (lsize es)).
Proof. reflexivity. Qed.

Lemma esize_pos e : 1 <= esize e.
Proof. destruct e; cbn [esize]; lia. Qed.

Lemma tsize_pos t : 1 <= tsize t.
Proof. destruct t; cbn [tsize]; try lia. apply esize_pos. Qed.

Lemma lsize_app a b : lsize (a ++ b) = lsize a + lsize b.
Proof. induction a as [|x a IH]; cbn [app lsize]; [reflexivity|rewrite IH; lia]. Qed.

Lemma lsize_repeat x k : lsize (repeat x k) = k * S (esize x).
Proof. induction k as [|k IH]; cbn [repeat lsize]; [reflexivity|rewrite IH; lia]. Qed.

(* ---------- left references of the unrolled sequences ---------- *)

Lemma left_refs_seq sk es : left_refs nul sk (ESeq es) = seq_left nul sk es.
Proof. reflexivity. Qed.

Lemma seq_left_incl sk (L : list N) : forall es,
  (forall x, In x es -> incl (left_refs nul sk x) L) -> incl (skip_refs sk) L ->
  incl (seq_left nul sk es) L.
Proof.
  induction es as [|x es IH]; intros Hx Hs; cbn [seq_left].
  - intros m Hm. destruct Hm.
  - apply incl_app; [apply Hx; left; reflexivity|].
    destruct (nullable nul x); [|intros m Hm; destruct Hm].
    apply incl_app.
    + destruct es; [intros m Hm; destruct Hm|exact Hs].
    + apply IH; [|exact Hs]. intros y Hy. apply Hx. right. exact Hy.
Qed.

Lemma seq_left_nn sk x l : nullable nul x = false ->
  incl (seq_left nul sk (x :: l)) (left_refs nul sk x).
Proof.
  intros H. cbn [seq_left]. rewrite H. rewrite app_nil_r. apply incl_refl.
Qed.

(* ---------- the skip expression satisfies the conditions ---------- *)

Lemma skip_expr_ok e : skip_expr g = Some e -> task_ok nul (TEval e) = true.
Proof.
  intros H. unfold skip_expr in H.
  destruct (has_ws g) eqn:E1, (has_cm g) eqn:E2; inversion H; subst; clear H;
    try rewrite (wf_ws E1); try rewrite (wf_cm E2);
    unfold task_ok; cbn; try rewrite (wf_ws E1); try rewrite (wf_cm E2); reflexivity.
Qed.

Lemma skip_expr_left e : skip_expr g = Some e ->
  forall m, In m (left_refs nul false e) -> m = WS_ID \/ m = CM_ID.
Proof.
  intros H m Hm. unfold skip_expr in H.
  destruct (has_ws g), (has_cm g); inversion H; subst; clear H; cbn in Hm.
  - destruct (nul CM_ID); cbn in Hm; intuition.
  - intuition.
  - intuition.
Qed.

Lemma seq_left_tail sk e1 e2 es m : nullable nul e1 = true ->
  In m (skip_refs sk ++ seq_left nul sk (e2 :: es)) -> In m (seq_left nul sk (e1 :: e2 :: es)).
Proof.
  intros H Hm.
  change (In m (left_refs nul sk e1 ++
                (if nullable nul e1 then skip_refs sk ++ seq_left nul sk (e2 :: es) else []))).
  rewrite H. apply in_or_app. right. exact Hm.
Qed.

Lemma seq_left_head sk e1 es m :
  In m (left_refs nul sk e1) -> In m (seq_left nul sk (e1 :: es)).
Proof. intros Hm. cbn [seq_left]. apply in_or_app. left. exact Hm. Qed.

Lemma ok_eval e : all_sub (rep_node nul) e = true -> task_ok nul (TEval e) = true.
Proof. intros H. unfold task_ok. cbn [all_task]. rewrite H. reflexivity. Qed.
Lemma ok_seq es : all_list (rep_node nul) es = true -> task_ok nul (TSeq es) = true.
Proof. intros H. unfold task_ok. cbn [all_task]. rewrite H. reflexivity. Qed.
Lemma ok_alt es : all_list (rep_node nul) es = true -> task_ok nul (TAlt es) = true.
Proof. intros H. unfold task_ok. cbn [all_task]. rewrite H. reflexivity. Qed.
Lemma ok_star e : all_sub (rep_node nul) e = true -> nullable nul e = false ->
  task_ok nul (TStar e) = true.
Proof. intros H N. unfold task_ok. cbn [all_task]. rewrite H, N. reflexivity. Qed.

Lemma body_atom_may_skip c r : body_atom c r = NonAtomic -> may_skip r = true.
Proof.
  unfold body_atom, may_skip. intros H.
  destruct (r_kind r); try discriminate;
    destruct (is_trivia_name (r_name r)); try discriminate; reflexivity.
Qed.

Lemma ref_lt_mono b b' m : ref_lt rank g b m = true -> b <= b' -> ref_lt rank g b' m = true.
Proof.
  unfold ref_lt. intros H L. destruct (lookup g m); [|reflexivity].
  apply Nat.ltb_lt in H. apply Nat.ltb_lt. lia.
Qed.

Ltac leaf :=
  exists 1; cbn [run];
  repeat match goal with |- context [match ?x with _ => _ end] => destruct x end;
  discriminate.

(* ---------- termination at inputs of remaining length n, given termination at all
   shorter ones ---------- *)

Section AtN.
Variable n : nat.
Hypothesis IHn : forall c t s, length (s_rest s) < n -> task_ok nul t = true ->
  exists f, run g f c t s <> Fuel.

(* rule m terminates when called with n characters left *)
Definition good (m : N) : Prop :=
  forall c tag s, length (s_rest s) = n -> exists f, run g f c (TEval (ERef m tag)) s <> Fuel.

Lemma skip_small c s : length (s_rest s) < n -> exists f, skip_with g (skipf f) c s <> Fuel.
Proof.
  intros L. unfold skip_with. destruct (c_atom c); try (exists 0; discriminate).
  destruct (skip_expr g) as [e|] eqn:E; [|exists 0; discriminate].
  cbv beta. apply IHn; [exact L|apply skip_expr_ok; exact E].
Qed.

Section Inner.
Variable sk : bool.
Hypothesis HSK : sk = true -> good WS_ID -> good CM_ID ->
  forall c s, length (s_rest s) = n -> exists f, skip_with g (skipf f) c s <> Fuel.

Lemma skipT c s : length (s_rest s) <= n -> (c_atom c = NonAtomic -> sk = true) ->
  (length (s_rest s) = n -> forall m, In m (skip_refs sk) -> good m) ->
  exists f, skip_with g (skipf f) c s <> Fuel.
Proof.
  intros L Hc Hg.
  destruct (Nat.eq_dec (length (s_rest s)) n) as [E|E]; [|apply skip_small; lia].
  destruct (c_atom c) eqn:EA.
  - assert (S1 := Hc eq_refl). apply HSK; [exact S1| | |exact E].
    + apply (Hg E). rewrite S1. left. reflexivity.
    + apply (Hg E). rewrite S1. right. left. reflexivity.
  - exists 0. unfold skip_with. rewrite EA. discriminate.
  - exists 0. unfold skip_with. rewrite EA. discriminate.
Qed.

Lemma inner : forall sz t, tsize t <= sz -> forall c s,
  length (s_rest s) = n -> task_ok nul t = true -> (c_atom c = NonAtomic -> sk = true) ->
  (forall m, In m (task_left nul sk t) -> good m) -> exists f, run g f c t s <> Fuel.
Proof.
  induction sz as [|sz IH]; intros t Hsz c s Hn Hok Hc Hl.
  { assert (P := tsize_pos t). lia. }
  assert (K : forall t' c' s', tsize t' <= sz -> length (s_rest s') <= n ->
            task_ok nul t' = true -> (c_atom c' = NonAtomic -> sk = true) ->
            (length (s_rest s') = n -> forall m, In m (task_left nul sk t') -> good m) ->
            exists f, run g f c' t' s' <> Fuel).
  { intros t' c' s' A B C D E.
    destruct (Nat.eq_dec (length (s_rest s')) n) as [F|F].
    - apply IH; auto.
    - apply IHn; [lia|exact C]. }
  unfold task_ok in Hok. apply andb_prop in Hok. destruct Hok as [Hall Hst].
  destruct t as [e|es|es|e]; [destruct e; try solve [leaf]|..];
    cbn [tsize] in Hsz; cbn [all_task] in Hall; cbn [task_left] in Hl.
  - (* ERef *) apply (Hl n0); [left; reflexivity|exact Hn].
  - (* ESeq *) apply term_step with (t' := TSeq es); [reflexivity|].
    rewrite esize_seq in Hsz. rewrite all_sub_seq in Hall.
    apply andb_prop in Hall. destruct Hall as [_ Ha].
    apply IH; [cbn [tsize]; lia|exact Hn|apply ok_seq; exact Ha|exact Hc|exact Hl].
  - (* EAlt *) apply term_step with (t' := TAlt es); [reflexivity|].
    rewrite esize_alt in Hsz. rewrite all_sub_alt in Hall.
    apply andb_prop in Hall. destruct Hall as [_ Ha].
    apply IH; [cbn [tsize]; lia|exact Hn|apply ok_alt; exact Ha|exact Hc|exact Hl].
  - (* EOpt *) cbn [all_sub] in Hall. apply andb_prop in Hall. destruct Hall as [_ Ha].
    cbn [esize] in Hsz.
    destruct (IH (TEval e)) with (c := c) (s := s) as [f Hf];
      [cbn [tsize]; lia|exact Hn|apply ok_eval; exact Ha|exact Hc|exact Hl|].
    exists (S f). cbn [run]. destruct (run g f c (TEval e) s); try discriminate; congruence.
  - (* EStar *) cbn [all_sub] in Hall. apply andb_prop in Hall. destruct Hall as [Hr Ha].
    cbn [rep_node] in Hr. apply negb_true_iff in Hr. cbn [esize] in Hsz.
    apply term_star.
    + apply IH; [cbn [tsize]; lia|exact Hn|apply ok_eval; exact Ha|exact Hc|exact Hl].
    + intros f s1 p1 E1. apply run_consumes in E1; [|exact Hr].
      apply IHn; [lia|apply ok_star; assumption].
  - (* EPlus *) cbn [all_sub] in Hall. apply andb_prop in Hall. destruct Hall as [Hr Ha].
    cbn [rep_node] in Hr. assert (Hr' := Hr). apply negb_true_iff in Hr'. cbn [esize] in Hsz.
    apply term_step with (t' := TSeq [e; EStar e]); [reflexivity|].
    apply IH; [cbn [tsize lsize esize]; lia|exact Hn| |exact Hc|].
    + apply ok_seq. cbn [all_list forallb all_sub rep_node]. rewrite Ha, Hr. reflexivity.
    + intros m Hm. apply Hl. cbn [left_refs]. exact (seq_left_nn sk e [EStar e] Hr' m Hm).
  - (* ERepN *) cbn [all_sub] in Hall. apply andb_prop in Hall. destruct Hall as [_ Ha].
    cbn [esize] in Hsz.
    apply term_step with (t' := TSeq (repeat e n0)); [reflexivity|].
    apply IH; [cbn [tsize]; rewrite lsize_repeat; lia|exact Hn| |exact Hc|].
    + apply ok_seq. apply all_list_repeat. exact Ha.
    + intros m Hm. apply Hl. cbn [left_refs]. destruct (nullable nul e) eqn:NE.
      * revert m Hm. apply seq_left_incl.
        -- intros x Hx. apply repeat_spec in Hx. subst x. apply incl_appl. apply incl_refl.
        -- apply incl_appr. apply incl_refl.
      * rewrite app_nil_r. destruct n0 as [|k]; [destruct Hm|].
        exact (seq_left_nn sk e (repeat e k) NE m Hm).
  - (* ERepMin *) cbn [all_sub] in Hall. apply andb_prop in Hall. destruct Hall as [Hr Ha].
    cbn [rep_node] in Hr. assert (Hr' := Hr). apply negb_true_iff in Hr'. cbn [esize] in Hsz.
    apply term_step with (t' := TSeq (repeat e n0 ++ [EStar e])); [reflexivity|].
    apply IH; [cbn [tsize]; rewrite lsize_app, lsize_repeat; cbn [lsize esize]; lia
              |exact Hn| |exact Hc|].
    + apply ok_seq. rewrite all_list_app, all_list_repeat by exact Ha.
      cbn [all_list forallb all_sub rep_node]. rewrite Ha, Hr. reflexivity.
    + intros m Hm. apply Hl. cbn [left_refs]. destruct n0 as [|k].
      * cbn [task_left repeat app seq_left left_refs nullable] in Hm. rewrite !app_nil_r in Hm. exact Hm.
      * exact (seq_left_nn sk e (repeat e k ++ [EStar e]) Hr' m Hm).
  - (* ERepMax *) cbn [all_sub] in Hall. apply andb_prop in Hall. destruct Hall as [_ Ha].
    cbn [esize] in Hsz.
    apply term_step with (t' := TSeq (repeat (EOpt e) n0)); [reflexivity|].
    apply IH; [cbn [tsize]; rewrite lsize_repeat; cbn [esize]; lia|exact Hn| |exact Hc|].
    + apply ok_seq. apply all_list_repeat. cbn [all_sub rep_node]. exact Ha.
    + intros m Hm. apply Hl. cbn [left_refs]. revert m Hm. apply seq_left_incl.
      * intros x Hx. apply repeat_spec in Hx. subst x. cbn [left_refs].
        apply incl_appl. apply incl_refl.
      * apply incl_appr. apply incl_refl.
  - (* ERepMinMax *) cbn [all_sub] in Hall. apply andb_prop in Hall. destruct Hall as [_ Ha].
    cbn [esize] in Hsz.
    apply term_step with (t' := TSeq (repeat e m ++ repeat (EOpt e) (n0 - m))); [reflexivity|].
    apply IH; [cbn [tsize]; rewrite lsize_app, !lsize_repeat; cbn [esize]; lia
              |exact Hn| |exact Hc|].
    + apply ok_seq. rewrite all_list_app, !all_list_repeat; [reflexivity| |exact Ha].
      cbn [all_sub rep_node]. exact Ha.
    + intros m0 Hm. apply Hl. cbn [left_refs]. revert m0 Hm. apply seq_left_incl.
      * intros x Hx. apply in_app_or in Hx.
        destruct Hx as [Hx|Hx]; apply repeat_spec in Hx; subst x; cbn [left_refs];
          apply incl_appl; apply incl_refl.
      * apply incl_appr. apply incl_refl.
  - (* EAnd *) cbn [all_sub] in Hall. apply andb_prop in Hall. destruct Hall as [_ Ha].
    cbn [esize] in Hsz.
    destruct (IH (TEval e)) with (c := c) (s := s) as [f Hf];
      [cbn [tsize]; lia|exact Hn|apply ok_eval; exact Ha|exact Hc|exact Hl|].
    exists (S f). cbn [run]. destruct (run g f c (TEval e) s); try discriminate; congruence.
  - (* ENot *) cbn [all_sub] in Hall. apply andb_prop in Hall. destruct Hall as [_ Ha].
    cbn [esize] in Hsz.
    destruct (IH (TEval e)) with (c := neg_ctx c) (s := s) as [f Hf];
      [cbn [tsize]; lia|exact Hn|apply ok_eval; exact Ha|exact Hc|exact Hl|].
    exists (S f). cbn [run]. destruct (run g f (neg_ctx c) (TEval e) s); try discriminate; congruence.
  - (* EGrp *) cbn [all_sub] in Hall. apply andb_prop in Hall. destruct Hall as [_ Ha].
    cbn [esize] in Hsz.
    destruct (IH (TEval e)) with (c := c) (s := push_tag tag s) as [f Hf];
      [cbn [tsize]; lia|rewrite rest_push_tag; exact Hn|apply ok_eval; exact Ha|exact Hc|exact Hl|].
    exists (S f). cbn [run]. destruct (run g f c (TEval e) (push_tag tag s)); try discriminate; congruence.
  - (* EPush *) cbn [all_sub] in Hall. apply andb_prop in Hall. destruct Hall as [_ Ha].
    cbn [esize] in Hsz.
    destruct (IH (TEval e)) with (c := c) (s := s) as [f Hf];
      [cbn [tsize]; lia|exact Hn|apply ok_eval; exact Ha|exact Hc|exact Hl|].
    exists (S f). cbn [run]. destruct (run g f c (TEval e) s); try discriminate; congruence.
  - (* TSeq *) destruct es as [|e1 es']; [exists 1; cbn [run]; discriminate|].
    cbn [all_list forallb] in Hall. apply andb_prop in Hall. destruct Hall as [Ha1 Ha2].
    cbn [lsize] in Hsz.
    assert (T1 : exists f, run g f c (TEval e1) s <> Fuel).
    { apply IH; [cbn [tsize]; lia|exact Hn|apply ok_eval; exact Ha1|exact Hc|].
      intros m Hm. apply Hl. apply seq_left_head. exact Hm. }
    destruct es' as [|e2 es''].
    { destruct T1 as [f Hf]. exists (S f). cbn [run].
      destruct (run g f c (TEval e1) s); try discriminate; congruence. }
    assert (G : forall f s1 p1, run g f c (TEval e1) s = Ok s1 p1 -> length (s_rest s1) = n ->
              forall m, In m (skip_refs sk ++ seq_left nul sk (e2 :: es'')) -> good m).
    { intros f s1 p1 E1 EQ m Hm. apply Hl. apply seq_left_tail; [|exact Hm].
      destruct (nullable nul e1) eqn:N1; [reflexivity|].
      apply run_consumes in E1; [lia|exact N1]. }
    apply term_seq; [exact T1| |].
    + intros f s1 p1 E1. assert (L1 := run_no_lengthen g _ _ _ _ _ _ E1).
      apply skipT; [lia|exact Hc|].
      intros EQ m Hm. apply (G _ _ _ E1 EQ). apply in_or_app. left. exact Hm.
    + intros f s1 p1 f' s2 pw E1 E2. assert (L1 := run_no_lengthen g _ _ _ _ _ _ E1).
      assert (L2 := skip_no_lengthen g _ _ _ _ _ E2).
      apply K; [cbn [tsize lsize] in *; lia|lia|apply ok_seq; exact Ha2|exact Hc|].
      intros EQ m Hm. apply (G _ _ _ E1); [lia|]. apply in_or_app. right. exact Hm.
  - (* TAlt *) destruct es as [|e1 es']; [exists 1; cbn [run]; discriminate|].
    cbn [all_list forallb] in Hall. apply andb_prop in Hall. destruct Hall as [Ha1 Ha2].
    cbn [lsize] in Hsz. cbn [flat_map] in Hl.
    apply term_alt.
    + apply IH; [cbn [tsize]; lia|exact Hn|apply ok_eval; exact Ha1|exact Hc|].
      intros m Hm. apply Hl. apply in_or_app. left. exact Hm.
    + intros f t E1. apply IH; [cbn [tsize]; lia|exact Hn|apply ok_alt; exact Ha2|exact Hc|].
      intros m Hm. apply Hl. apply in_or_app. right. exact Hm.
  - (* TStar *) apply negb_true_iff in Hst.
    apply term_tstar.
    + apply skipT; [lia|exact Hc|]. intros _ m Hm. apply Hl. apply in_or_app. left. exact Hm.
    + intros f s2 pw E1. assert (L1 := skip_no_lengthen g _ _ _ _ _ E1).
      apply K; [cbn [tsize]; lia|lia|apply ok_eval; exact Hall|exact Hc|].
      intros _ m Hm. apply Hl. apply in_or_app. right. exact Hm.
    + intros f s2 pw f' s3 p3 E1 E2. assert (L1 := skip_no_lengthen g _ _ _ _ _ E1).
      apply run_consumes in E2; [|exact Hst].
      apply IHn; [lia|apply ok_star; assumption].
Qed.

End Inner.

(* the implicit skip terminates at n: `inner` without skipping (the skip expression runs in
   a compound-atomic context), given that WHITESPACE and COMMENT terminate at n *)
Lemma skip_at_n : good WS_ID -> good CM_ID -> forall c s, length (s_rest s) = n ->
  exists f, skip_with g (skipf f) c s <> Fuel.
Proof.
  intros GW GC c s Hn. unfold skip_with.
  destruct (c_atom c); try (exists 0; discriminate).
  destruct (skip_expr g) as [e|] eqn:E; [|exists 0; discriminate].
  cbv beta. apply (inner false) with (sz := esize e).
  - intros A. discriminate.
  - cbn [tsize]. lia.
  - exact Hn.
  - apply skip_expr_ok. exact E.
  - cbn. intros A. discriminate.
  - intros m Hm. cbn [task_left] in Hm.
    destruct (skip_expr_left e E m Hm) as [-> | ->]; assumption.
Qed.

Lemma inner' sk t c s :
  length (s_rest s) = n -> task_ok nul t = true -> (c_atom c = NonAtomic -> sk = true) ->
  (forall m, In m (task_left nul sk t) -> good m) -> exists f, run g f c t s <> Fuel.
Proof.
  intros Hn Hok Hc Hl.
  apply (inner sk (fun _ => skip_at_n) (tsize t)); auto.
Qed.

(* induction on the rank bound: every rule terminates at n *)
Lemma rules_good : forall b m, ref_lt rank g b m = true -> good m.
Proof.
  induction b as [|b IHb]; intros m H c tag s Hn; unfold ref_lt in H;
    destruct (lookup g m) as [r|] eqn:EL.
  - apply Nat.ltb_lt in H. lia.
  - exists 1. cbn [run]. rewrite EL. discriminate.
  - apply Nat.ltb_lt in H.
    destruct (wf_lookup m r EL) as [W NM]. unfold wf_rule in W.
    apply andb_prop in W. destruct W as [W Wc]. apply andb_prop in W. destruct W as [_ Wb].
    rewrite forallb_forall in Wc.
    destruct (inner' (may_skip r) (TEval (r_body r)) (rule_ctx c r) (push_tag tag s)) as [f Hf].
    + rewrite rest_push_tag. exact Hn.
    + apply ok_eval. exact Wb.
    + cbn [rule_ctx c_atom]. apply body_atom_may_skip.
    + intros m' Hm'. cbn [task_left] in Hm'. apply IHb.
      apply (ref_lt_mono (rank (r_name r))); [apply Wc; exact Hm'|rewrite NM; lia].
    + exists (S f). cbn [run]. rewrite EL.
      destruct (run g f (rule_ctx c r) (TEval (r_body r)) (push_tag tag s)) as [s1 kids|t| |];
        try discriminate; [|congruence].
      destruct (finish_rule c r (s_pos s) s1 kids). discriminate.
  - exists 1. cbn [run]. rewrite EL. discriminate.
Qed.

Lemma all_good m : good m.
Proof.
  apply (rules_good (S (rank m))). unfold ref_lt.
  destruct (lookup g m); [apply Nat.ltb_lt; lia|reflexivity].
Qed.

Lemma at_n c t s : length (s_rest s) = n -> task_ok nul t = true ->
  exists f, run g f c t s <> Fuel.
Proof.
  intros Hn Hok. apply (inner' true); [exact Hn|exact Hok|reflexivity|].
  intros m _. apply all_good.
Qed.

End AtN.

Theorem run_terminates_wf : forall c t s, task_ok nul t = true ->
  exists f, run g f c t s <> Fuel.
Proof.
  intros c t s. remember (length (s_rest s)) as n eqn:E. revert c t s E.
  induction n as [n IHn] using lt_wf_ind. intros c t s E Hok.
  apply (at_n n); [|symmetry; exact E|exact Hok].
  intros c' t' s' L Hok'. apply (IHn (length (s_rest s'))); [exact L|reflexivity|exact Hok'].
Qed.

End Term.

(* ------------------------------------------------------------------------------------ *)
(* 3. The theorems                                                                       *)
(* ------------------------------------------------------------------------------------ *)

Theorem run_no_lengthen_all : forall g f c t s s' ps,
  run g f c t s = Ok s' ps -> length (s_rest s') <= length (s_rest s).
Proof. exact run_no_lengthen. Qed.

Theorem eval_consumes : forall nul rank g, wf_grammar nul rank g = true ->
  forall f c e s s' ps, nullable nul e = false -> run g f c (TEval e) s = Ok s' ps ->
  length (s_rest s') < length (s_rest s).
Proof.
  intros nul rank g WF f c e s s' ps N H.
  exact (run_consumes nul rank g WF f c (TEval e) s s' ps N H).
Qed.

Theorem run_terminates : forall nul rank g, wf_grammar nul rank g = true ->
  forall c t s, task_ok nul t = true -> exists f, run g f c t s <> Fuel.
Proof. exact run_terminates_wf. Qed.

Theorem parse_terminates : forall nul rank g, wf_grammar nul rank g = true ->
  forall rule input k, exists f, parse g f rule input k <> Fuel.
Proof.
  intros nul rank g WF rule input k. unfold parse, eval.
  apply (run_terminates nul rank g WF). reflexivity.
Qed.

(* every expression of a well-formed grammar's rules may be run as a task *)
Corollary rule_body_terminates : forall nul rank g, wf_grammar nul rank g = true ->
  forall n r c s, lookup g n = Some r -> exists f, run g f c (TEval (r_body r)) s <> Fuel.
Proof.
  intros nul rank g WF n r c s EL. apply (run_terminates nul rank g WF).
  destruct (wf_lookup nul rank g WF n r EL) as [W _]. unfold wf_rule in W.
  apply andb_prop in W. destruct W as [W _]. apply andb_prop in W. destruct W as [_ Wb].
  apply ok_eval. exact Wb.
Qed.

(* the fuel-independent reading: every run has a result *)
Corollary runs_total : forall nul rank g, wf_grammar nul rank g = true ->
  forall c t s, task_ok nul t = true -> exists r, runs g c t s r.
Proof.
  intros nul rank g WF c t s Hok. destruct (run_terminates nul rank g WF c t s Hok) as [f Hf].
  exists (run g f c t s). exists f. split; [reflexivity|exact Hf].
Qed.

Print Assumptions run_terminates.
Print Assumptions parse_terminates.
