(* OptPassCompose3.v — any sequence (any subset, order, repetition) of the THREE proved passes — unroll, inline
   built-in, inline silent — preserves every parse: the in-place pass preserves the hypotheses too. *)
From Coq Require Import List NArith ZArith Bool Arith Lia.
Import ListNotations.
From PP Require Import Base Syntax Spec SpecSyn SpecEquiv CharClass Opt OptProof OptPass OptPassProof OptPassInline
  OptPassCompose OptPassSilent OptPassHeads OptMono OptPassSilentProof.
Open Scope nat_scope.

Section C.
Variable bi : N -> bool.

(* count_ok through the bottom-up rewriting against a table whose bodies are count_ok *)
Lemma count_ok_silent_bu tbl : all_grammar count_ok tbl = true ->
  forall f e, depth e <= f -> all_sub count_ok e = true ->
  all_sub count_ok (map_bu (inline_silent1 bi tbl) e) = true.
Proof.
  intros G. induction f as [|f IH]; intros e D C; [pose proof (depth_pos e); lia|].
  destruct (childless e) eqn:L.
  - destruct e; try discriminate; try exact C.
    destruct tag as [t|]; [exact C|]. cbn [map_bu inline_silent1].
    destruct (bi n); [exact C|]. destruct (lookup tbl n) as [rt|] eqn:Lt; [|exact C].
    destruct (plain_silent rt && negb (refs_to bi _ tbl n [r_body rt] [])); [|exact C].
    exact (all_grammar_lookup count_ok tbl n rt G Lt).
  - eapply cong_count; [|apply map_bu_shape; [intros x Cx; apply inline_silent1_id; exact Cx|exact L]|exact C].
    intros a b [-> Da] Ca. apply IH; [lia|exact Ca].
Qed.

Lemma update_count tbl n b : all_grammar count_ok tbl = true -> all_sub count_ok b = true ->
  all_grammar count_ok (update tbl n b) = true.
Proof.
  intros G B. unfold all_grammar, update in *. induction tbl as [|r tbl IH]; [reflexivity|].
  cbn [map forallb] in *. apply andb_prop in G. destruct G as [G1 G2]. rewrite (IH G2), andb_true_r.
  destruct (N.eqb (r_name r) n); [exact B|exact G1].
Qed.

Lemma silent_count : forall order tbl, all_grammar count_ok tbl = true ->
  all_grammar count_ok (fold_left (sstep bi) order tbl) = true.
Proof.
  induction order as [|n order IH]; intros tbl G; [exact G|]. cbn [fold_left]. apply IH.
  unfold sstep. destruct (bi n); [exact G|]. destruct (lookup tbl n) as [r|] eqn:L; [|exact G].
  apply update_count; [exact G|].
  apply (count_ok_silent_bu tbl G (depth (r_body r))); [apply le_n|].
  exact (all_grammar_lookup count_ok tbl n r G L).
Qed.

Inductive pstep3 : grammar -> grammar -> Prop :=
| P3_old g g' : pstep bi g g' -> pstep3 g g'
| P3_silent g order : nodupN order = true -> pstep3 g (pass_inline_silent bi order g).

Inductive psteps3 : grammar -> grammar -> Prop :=
| P3S_nil g : psteps3 g g
| P3S_cons g g' g'' : pstep3 g g' -> psteps3 g' g'' -> psteps3 g g''.

Lemma pstep3_dom g g' : dom bi g -> pstep3 g g' -> dom bi g' /\ same_heads g g'.
Proof.
  intros D S. destruct S as [g g' S|g order NO]; [exact (pstep_dom bi g g' D S)|].
  pose proof (inline_silent_heads bi order g) as Hh. split; [|exact Hh].
  apply (dom_heads bi g); [exact Hh| |exact D].
  destruct D as [_ [_ [C _]]]. rewrite pass_inline_silent_fold. apply silent_count. exact C.
Qed.

Lemma pstep3_geq g g' : dom bi g -> pstep3 g g' -> geq g g'.
Proof.
  intros D S. destruct S as [g g' S|g order NO]; [exact (pstep_geq bi g g' D S)|].
  destruct D as [ND [NS _]]. intros rule input k Dr.
  exact (pass_inline_silent_sound bi order g ND NS NO rule input k Dr).
Qed.

Theorem psteps3_geq : forall g g', psteps3 g g' -> dom bi g -> geq g g'.
Proof.
  intros g g' S. induction S as [g|g g' g'' S1 _ IH]; intros D; [apply geq_refl|].
  destruct (pstep3_dom g g' D S1) as [D' Hh].
  eapply geq_trans; [|exact (pstep3_geq g g' D S1)|exact (IH D')].
  intros n Dn. rewrite (same_heads_defined g g' Hh). exact Dn.
Qed.
End C.
