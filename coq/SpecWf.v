(* SpecWf.v — every result of the reference semantics is well-formed:
   positions stay inside [k, length input], the remaining text is the suffix at the
   position, the furthest-failure tracker stays in range, and the pairs of a successful
   evaluation form an ordered, nested, non-overlapping chain inside the consumed span. *)
From Coq Require Import List NArith ZArith Bool Arith Lia.
Import ListNotations.
From PP Require Import Base Syntax Spec.

Section Chain.
Variable PN : N -> Prop.   (* admissible pair names *)

(* ordered chain of pairs inside [lo, hi]; children form a chain inside their parent's span *)
Inductive chain : N -> N -> list pair -> Prop :=
| Cnil lo hi : (lo <= hi)%N -> chain lo hi []
| Ccons lo hi name s e kids tag ps :
    PN name -> (lo <= s)%N -> chain s e kids -> chain e hi ps ->
    chain lo hi (Pair name s e kids tag :: ps).

Lemma chain_le lo hi ps : chain lo hi ps -> (lo <= hi)%N.
Proof. induction 1; lia. Qed.

Lemma chain_weaken lo hi ps : chain lo hi ps -> forall lo' hi', (lo' <= lo)%N -> (hi <= hi')%N ->
  chain lo' hi' ps.
Proof.
  induction 1 as [lo hi H|lo hi name s e kids tag ps Hn H1 Hk IHk Hp IHp]; intros lo' hi' A B.
  - constructor. lia.
  - constructor; [exact Hn|lia|exact Hk|]. apply IHp; lia.
Qed.

Lemma chain_app a b p : chain a b p -> forall c q, chain b c q -> chain a c (p ++ q).
Proof.
  induction 1 as [lo hi H|lo hi name s e kids tag ps Hn H1 Hk IHk Hp IHp]; intros c q Hq; cbn.
  - eapply chain_weaken; [exact Hq|lia|lia].
  - constructor; [exact Hn|exact H1|exact Hk|]. apply IHp. exact Hq.
Qed.

Lemma chain_single name s e kids tag : PN name -> chain s e kids -> chain s e [Pair name s e kids tag].
Proof. intros Hn H. constructor; [exact Hn|lia|exact H|]. constructor. lia. Qed.
End Chain.

Section Wf.
Variable g : grammar.
Variable input : text.
Variable k : nat.

Definition pos_ok (s : st) : Prop :=
  s_rest s = skipn (N.to_nat (s_pos s)) input /\ k <= N.to_nat (s_pos s) <= length input.

Definition trk_ok (t : trk) : Prop :=
  t_pos t = (-1)%Z \/ (Z.of_nat k <= t_pos t <= Z.of_nat (length input))%Z.

(* rule names of the grammar; names of non-silent rules *)
Definition RN (n : N) : Prop := exists r, lookup g n = Some r.
Definition PN (n : N) : Prop := exists r, lookup g n = Some r /\ r_silent r = false.
Definition tnames_ok (t : trk) : Prop := Forall RN (t_exp t) /\ Forall RN (t_unexp t).
Definition cok (c : ctx) : Prop := RN (c_rule c).

Definition inv (s : st) : Prop := pos_ok s /\ trk_ok (s_trk s) /\ tnames_ok (s_trk s).

Definition res_ok (s : st) (r : res) : Prop :=
  match r with
  | Ok s' ps => inv s' /\ (s_pos s <= s_pos s')%N /\ chain PN (s_pos s) (s_pos s') ps
  | Fail t => trk_ok t /\ tnames_ok t
  | _ => True
  end.

Lemma rest_length s : pos_ok s -> length (s_rest s) = length input - N.to_nat (s_pos s).
Proof. intros [H _]. rewrite H. apply skipn_length. Qed.

Lemma lookup_name : forall gr n r, lookup gr n = Some r -> r_name r = n.
Proof.
  induction gr as [|r0 gr IH]; intros n r H; cbn in H; [discriminate|].
  destruct (N.eqb_spec (r_name r0) n) as [E|E]; [inversion H; subst; reflexivity|apply IH; exact H].
Qed.

Lemma Forall_addN (P : N -> Prop) x l : P x -> Forall P l -> Forall P (addN x l).
Proof.
  intros Hx Hl. unfold addN. destruct (memN x l); [exact Hl|].
  apply Forall_app. split; [exact Hl|constructor; [exact Hx|constructor]].
Qed.

Lemma record_ok c b n s : RN n -> inv s -> trk_ok (record c b n s) /\ tnames_ok (record c b n s).
Proof.
  intros Hn [[_ Hp] [Ht [He Hu]]]. unfold record.
  destruct (_ || _); [split; [exact Ht|split; assumption]|].
  destruct (t_pos (s_trk s) <? Z.of_N (s_pos s))%Z.
  - destruct (Nat.odd _); (split; [right; cbn; lia|split; cbn; repeat constructor; exact Hn]).
  - destruct (Z.of_N (s_pos s) =? t_pos (s_trk s))%Z eqn:E; [|split; [exact Ht|split; assumption]].
    destruct (Nat.odd _); (split; [exact Ht|split; cbn; try assumption; apply Forall_addN; assumption]).
Qed.

Lemma inv_set_trk s t : inv s -> trk_ok t /\ tnames_ok t -> inv (set_trk s t).
Proof. intros [Hp _] Ht. split; [exact Hp|exact Ht]. Qed.
Lemma inv_push_tag tag s : inv s -> inv (push_tag tag s).
Proof. destruct tag; intros H; exact H. Qed.
Lemma inv_pop_tag tag s : inv s -> inv (pop_tag tag s).
Proof. destruct tag; intros H; exact H. Qed.
Lemma inv_trk s : inv s -> trk_ok (s_trk s) /\ tnames_ok (s_trk s).
Proof. intros [_ H]. exact H. Qed.

Lemma skipn_skipn_add {A} : forall a b (l : list A), skipn a (skipn b l) = skipn (b + a) l.
Proof.
  intros a b; revert a; induction b as [|b IH]; intros a l; [reflexivity|].
  destruct l; cbn; [destruct a; reflexivity|apply IH].
Qed.

(* advancing by m characters of the remaining text *)
Lemma inv_adv s m r : inv s -> m <= length (s_rest s) -> r = skipn m (s_rest s) ->
  inv (adv s (N.of_nat m) r) /\ (s_pos s <= s_pos (adv s (N.of_nat m) r))%N.
Proof.
  intros [[Hr Hp] Ht] Hm ->. assert (L := rest_length s (conj Hr Hp)).
  split; [split; [split|exact Ht]|]; cbn.
  - rewrite Hr at 1. rewrite skipn_skipn_add. f_equal. lia.
  - lia.
  - lia.
Qed.

Lemma strip_prefix_skipn lit rest r : strip_prefix lit rest = Some r ->
  r = skipn (length lit) rest /\ length lit <= length rest.
Proof.
  intros H. apply strip_prefix_app in H. subst rest. split.
  - rewrite skipn_app, skipn_all, Nat.sub_diag. reflexivity.
  - rewrite app_length. lia.
Qed.

Lemma strip_prefix_ci_skipn lit rest r : strip_prefix_ci lit rest = Some r ->
  r = skipn (length lit) rest /\ length lit <= length rest.
Proof.
  intros H. split; [eapply strip_prefix_ci_suffix; exact H|].
  apply strip_prefix_ci_length in H. lia.
Qed.

Lemma match_all_skipn : forall ws rest n0 r n, match_all ws rest n0 = Some (r, n) ->
  exists m, n = (n0 + N.of_nat m)%N /\ r = skipn m rest /\ m <= length rest.
Proof.
  induction ws as [|w ws IH]; intros rest n0 r n H; cbn in H.
  - inversion H; subst. exists 0. cbn. split; [lia|split; [reflexivity|lia]].
  - destruct (strip_prefix w rest) as [r1|] eqn:E; [|discriminate].
    apply strip_prefix_skipn in E. destruct E as [-> Hl].
    apply IH in H. destruct H as [m [-> [-> Hm]]].
    rewrite skipn_length in Hm.
    exists (length w + m). split; [unfold lenN; lia|split; [apply skipn_skipn_add|lia]].
Qed.

Lemma find_sub_from_le : forall rest sub acc p,
  find_sub_from sub rest acc = Some p -> (acc <= p <= acc + N.of_nat (length rest))%N.
Proof.
  induction rest as [|x rest IH]; intros sub acc p H; cbn [find_sub_from] in H.
  - destruct (strip_prefix sub []); [|discriminate]. inversion H; subst. cbn. lia.
  - destruct (strip_prefix sub (x :: rest)).
    + inversion H; subst. lia.
    + apply IH in H. cbn [length]. lia.
Qed.

Lemma earliest_le : forall subs rest best p,
  (forall b, best = Some b -> (b <= N.of_nat (length rest))%N) ->
  earliest subs rest best = Some p -> (p <= N.of_nat (length rest))%N.
Proof.
  induction subs as [|sub subs IH]; intros rest best p Hb H; cbn in H.
  - apply Hb. exact H.
  - eapply IH; [|exact H]. intros b Eb.
    destruct (find_sub sub rest) as [q|] eqn:E.
    + unfold find_sub in E. apply find_sub_from_le in E.
      destruct best as [b0|].
      * destruct (N.ltb q b0); inversion Eb; subst; [lia|apply Hb; reflexivity].
      * inversion Eb; subst. lia.
    + apply Hb. exact Eb.
Qed.

Definition sound_at (f : nat) : Prop :=
  forall c t s, cok c -> inv s -> res_ok s (run g f c t s).

Lemma ok_refl s : inv s -> res_ok s (Ok s []).
Proof. intros Hs. split; [exact Hs|split; [lia|constructor; lia]]. Qed.

Lemma ok_same s s' : inv s' -> s_pos s' = s_pos s -> res_ok s (Ok s' []).
Proof. intros Hs E. split; [exact Hs|rewrite E; split; [lia|constructor; lia]]. Qed.

Lemma skip_sound f : sound_at f -> forall c s, cok c -> inv s ->
  res_ok s (skip_with g (fun c' e' => run g f c' (TEval e')) c s).
Proof.
  intros IH c s Hc Hs. unfold skip_with.
  destruct (c_atom c); try (apply ok_refl; exact Hs).
  destruct (skip_expr g); [apply IH; [exact Hc|exact Hs]|apply ok_refl; exact Hs].
Qed.

(* terminal that advances by a prefix of the remaining text *)
Lemma ok_adv s m r : inv s -> m <= length (s_rest s) -> r = skipn m (s_rest s) ->
  res_ok s (Ok (adv s (N.of_nat m) r) []).
Proof.
  intros Hs Hm Hr. destruct (inv_adv s m r Hs Hm Hr) as [A B].
  split; [exact A|split; [exact B|constructor; exact B]].
Qed.

Lemma ref_ok_defined : forall f c n tag s s1 ps,
  run g f c (TEval (ERef n tag)) s = Ok s1 ps -> RN n.
Proof.
  intros f c n tag s s1 ps H. destruct f as [|f]; [discriminate|]. cbn [run] in H.
  destruct (lookup g n) as [r|] eqn:E; [exists r; exact E|discriminate].
Qed.

Lemma sound_all : forall f, sound_at f.
Proof.
  induction f as [|f IH]; intros c t s Hc Hs; [exact I|].
  assert (IHk := skip_sound f IH).
  assert (REC : forall b, trk_ok (record c b (c_rule c) s) /\ tnames_ok (record c b (c_rule c) s))
    by (intros b; apply record_ok; [exact Hc|exact Hs]).
  assert (TRK := inv_trk s Hs).
  destruct t as [e|es|es|e].
  - destruct e; cbn [run].
    + (* EStr *) destruct (strip_prefix s0 (s_rest s)) eqn:E; [|apply REC].
      apply strip_prefix_skipn in E. destruct E as [E1 E2]. unfold lenN. apply ok_adv; assumption.
    + (* ECIStr *) destruct (strip_prefix_ci s0 (s_rest s)) eqn:E; [|apply REC].
      apply strip_prefix_ci_skipn in E. destruct E as [E1 E2]. unfold lenN. apply ok_adv; assumption.
    + (* ERange *) destruct (s_rest s) as [|d r] eqn:E; [apply REC|].
      destruct (_ && _); [|apply REC].
      change 1%N with (N.of_nat 1). apply ok_adv; [exact Hs|rewrite E; cbn; lia|rewrite E; reflexivity].
    + (* EAny *) destruct (s_rest s) as [|d r] eqn:E; [exact TRK|].
      change 1%N with (N.of_nat 1). apply ok_adv; [exact Hs|rewrite E; cbn; lia|rewrite E; reflexivity].
    + (* ESoi *) destruct (N.eqb _ _); [apply ok_refl; exact Hs|exact TRK].
    + (* EEoi *) destruct (s_rest s); [apply ok_refl; exact Hs|exact TRK].
    + (* ECls *) destruct (s_rest s) as [|d r] eqn:E; [exact TRK|].
      destruct (in_ranges d rs); [|exact TRK].
      change 1%N with (N.of_nat 1). apply ok_adv; [exact Hs|rewrite E; cbn; lia|rewrite E; reflexivity].
    + (* ERef *) destruct (lookup g n) as [r|] eqn:EL; [|exact I].
      assert (NM := lookup_name _ _ _ EL).
      assert (Hr : cok (rule_ctx c r)) by (exists r; cbn; rewrite NM; exact EL).
      assert (H0 : inv (push_tag tag s)) by (apply inv_push_tag; exact Hs).
      specialize (IH (rule_ctx c r) (TEval (r_body r)) _ Hr H0).
      destruct (run g f (rule_ctx c r) (TEval (r_body r)) (push_tag tag s)) as [s1 kids|t| |]; try exact IH.
      destruct IH as [I1 [L1 C1]].
      assert (P0 : s_pos (push_tag tag s) = s_pos s) by (destruct tag; reflexivity).
      rewrite P0 in *.
      unfold finish_rule. destruct (r_silent r) eqn:ES.
      * split; [apply inv_pop_tag; exact I1|]. split; [destruct tag; exact L1|destruct tag; exact C1].
      * destruct (visible c r).
        -- split; [apply inv_pop_tag; exact I1|].
           split; [destruct tag; exact L1|]. destruct tag; cbn; (apply chain_single; [|exact C1]);
             exists r; rewrite NM; split; assumption.
        -- split; [apply inv_pop_tag; exact I1|].
           split; [destruct tag; exact L1|destruct tag; exact C1].
    + (* ESeq *) apply IH; assumption.
    + (* EAlt *) apply IH; assumption.
    + (* EOpt *) specialize (IH c (TEval e) s Hc Hs).
      destruct (run g f c (TEval e) s); try exact IH.
      apply ok_same; [|reflexivity]. apply inv_set_trk; [exact Hs|exact IH].
    + (* EStar *) assert (IH1 := IH c (TEval e) s Hc Hs).
      destruct (run g f c (TEval e) s) as [s1 p1|t| |]; try exact I.
      * destruct IH1 as [I1 [L1 C1]].
        assert (IH2 := IH c (TStar e) s1 Hc I1).
        destruct (run g f c (TStar e) s1) as [s2 p2|t| |]; try exact IH2.
        destruct IH2 as [I2 [L2 C2]].
        split; [exact I2|split; [lia|eapply chain_app; eassumption]].
      * apply ok_same; [|reflexivity]. apply inv_set_trk; [exact Hs|exact IH1].
    + (* EPlus *) apply IH; assumption.
    + apply IH; assumption.
    + apply IH; assumption.
    + apply IH; assumption.
    + apply IH; assumption.
    + (* EAnd *) specialize (IH c (TEval e) s Hc Hs).
      destruct (run g f c (TEval e) s) as [s1 p1|t| |]; try exact IH.
      apply ok_same; [|reflexivity]. apply inv_set_trk; [exact Hs|exact (inv_trk _ (proj1 IH))].
    + (* ENot *) assert (IH1 := IH (neg_ctx c) (TEval e) s Hc Hs).
      destruct (run g f (neg_ctx c) (TEval e) s) as [s1 p1|t| |] eqn:ER; try exact I.
      * apply record_ok.
        -- destruct e; try exact Hc. eapply ref_ok_defined. exact ER.
        -- apply inv_set_trk; [exact Hs|exact (inv_trk _ (proj1 IH1))].
      * apply ok_same; [|reflexivity]. apply inv_set_trk; [exact Hs|exact IH1].
    + (* EGrp *) assert (H0 : inv (push_tag tag s)) by (apply inv_push_tag; exact Hs).
      specialize (IH c (TEval e) _ Hc H0).
      assert (P0 : s_pos (push_tag tag s) = s_pos s) by (destruct tag; reflexivity).
      destruct (run g f c (TEval e) (push_tag tag s)) as [s1 p1|t| |]; try exact IH.
      destruct IH as [I1 [L1 C1]]. rewrite P0 in *.
      split; [apply inv_pop_tag; exact I1|split; destruct tag; assumption].
    + (* EPush *) specialize (IH c (TEval e) s Hc Hs).
      destruct (run g f c (TEval e) s) as [s1 p1|t| |]; exact IH.
    + (* EPushLit *) apply ok_same; [exact Hs|reflexivity].
    + (* EPeek *) destruct (s_stk s) as [|w st']; [exact TRK|].
      destruct (strip_prefix w (s_rest s)) eqn:E; [|apply REC].
      apply strip_prefix_skipn in E. destruct E as [E1 E2]. unfold lenN. apply ok_adv; assumption.
    + (* EPeekSl *)
      destruct (match_all _ (s_rest s) 0) as [[r n]|] eqn:E; [|apply REC].
      apply match_all_skipn in E. destruct E as [m [-> [-> Hm]]]. cbn. apply ok_adv; [exact Hs|exact Hm|reflexivity].
    + (* EPeekAll *)
      destruct (match_all _ (s_rest s) 0) as [[r n]|] eqn:E; [|apply REC].
      apply match_all_skipn in E. destruct E as [m [-> [-> Hm]]]. cbn. apply ok_adv; [exact Hs|exact Hm|reflexivity].
    + (* EPop *) destruct (s_stk s) as [|w st']; [exact TRK|].
      destruct (strip_prefix w (s_rest s)) as [r0|] eqn:E; [|apply REC].
      apply strip_prefix_skipn in E. destruct E as [E1 E2]. unfold lenN.
      exact (ok_adv s (length w) r0 Hs E2 E1).
    + (* EPopAll *)
      destruct (match_all _ (s_rest s) 0) as [[r n]|] eqn:E; [|apply REC].
      apply match_all_skipn in E. destruct E as [m [-> [-> Hm]]]. cbn.
      exact (ok_adv s m _ Hs Hm eq_refl).
    + (* EDrop *) destruct (s_stk s); [apply REC|apply ok_same; [exact Hs|reflexivity]].
    + (* ESkipUntil *)
      set (n := match earliest subs (s_rest s) None with Some p => p | None => lenN (s_rest s) end).
      assert (Hn : (n <= N.of_nat (length (s_rest s)))%N).
      { subst n. destruct (earliest subs (s_rest s) None) eqn:E; [|unfold lenN; lia].
        eapply earliest_le; [|exact E]. intros b Hb; discriminate. }
      rewrite <- (N2Nat.id n) at 1.
      apply ok_adv; [exact Hs|lia|reflexivity].
  - (* TSeq *) cbn [run]. destruct es as [|e1 es']; [apply ok_refl; exact Hs|].
    assert (IH1 := IH c (TEval e1) s Hc Hs).
    destruct (run g f c (TEval e1) s) as [s1 p1|t| |]; try exact IH1.
    destruct es' as [|e2 es'']; [exact IH1|].
    destruct IH1 as [I1 [L1 C1]].
    assert (IH2 := IHk c s1 Hc I1).
    destruct (skip_with g _ c s1) as [s2 pw|t| |]; try exact IH2.
    destruct IH2 as [I2 [L2 C2]].
    assert (IH3 := IH c (TSeq (e2 :: es'')) s2 Hc I2).
    destruct (run g f c (TSeq (e2 :: es'')) s2) as [s3 p3|t| |]; try exact IH3.
    destruct IH3 as [I3 [L3 C3]].
    split; [exact I3|split; [lia|]].
    eapply chain_app; [exact C1|]. eapply chain_app; eassumption.
  - (* TAlt *) cbn [run]. destruct es as [|e1 es']; [exact TRK|].
    assert (IH1 := IH c (TEval e1) s Hc Hs).
    destruct (run g f c (TEval e1) s) as [s1 p1|t| |]; try exact IH1.
    apply (IH c (TAlt es') (set_trk s t) Hc). apply inv_set_trk; [exact Hs|exact IH1].
  - (* TStar *) cbn [run].
    assert (IH1 := IHk c s Hc Hs).
    destruct (skip_with g _ c s) as [s2 pw|t| |]; try exact IH1.
    destruct IH1 as [I1 [L1 C1]].
    assert (IH2 := IH c (TEval e) s2 Hc I1).
    destruct (run g f c (TEval e) s2) as [s3 p3|t| |]; try exact I.
    + destruct IH2 as [I2 [L2 C2]].
      assert (IH3 := IH c (TStar e) s3 Hc I2).
      destruct (run g f c (TStar e) s3) as [s4 p4|t| |]; try exact IH3.
      destruct IH3 as [I3 [L3 C3]].
      split; [exact I3|split; [lia|]].
      eapply chain_app; [exact C1|]. eapply chain_app; eassumption.
    + apply ok_same; [|reflexivity]. apply inv_set_trk; [exact Hs|exact IH2].
Qed.

Lemma st0_inv : k <= length input -> inv (st0 input k).
Proof.
  intros Hk. split; [split|split; [left; reflexivity|split; constructor]]; cbn.
  - rewrite Nat2N.id. reflexivity.
  - rewrite Nat2N.id. lia.
Qed.

(* the start rule is looked up first, so the arbitrary rule name of the initial context is
   never recorded *)
Theorem parse_sound : forall f rule, k <= length input ->
  res_ok (st0 input k) (parse g f rule input k).
Proof.
  intros f rule Hk. unfold parse, eval.
  destruct f as [|f]; [exact I|].
  destruct (lookup g rule) as [r|] eqn:EL.
  - (* replay the ERef step with a context whose rule name is defined *)
    assert (E : run g (S f) ctx0 (TEval (ERef rule None)) (st0 input k)
              = run g (S f) {| c_atom := NonAtomic; c_rule := rule; c_neg := 0; c_sup := false |}
                  (TEval (ERef rule None)) (st0 input k)).
    { cbn [run]. rewrite EL. reflexivity. }
    rewrite E. apply sound_all; [exists r; exact EL|apply st0_inv; exact Hk].
  - cbn [run]. rewrite EL. exact I.
Qed.

(* a visible (non-silent) start rule yields exactly one root pair starting at k *)
Theorem parse_single_root : forall f rule r s' ps,
  lookup g rule = Some r -> r_silent r = false ->
  parse g f rule input k = Ok s' ps ->
  exists kids tag, ps = [Pair rule (N.of_nat k) (s_pos s') kids tag].
Proof.
  intros f rule r s' ps EL ES H. unfold parse, eval in H.
  destruct f as [|f]; [discriminate|]. cbn [run] in H. rewrite EL in H.
  destruct (run g f _ (TEval (r_body r)) _) as [s1 kids|t| |]; try discriminate.
  unfold finish_rule in H. rewrite ES in H.
  assert (V : visible ctx0 r = true).
  { unfold visible. rewrite ES. cbn. destruct (r_kind r); reflexivity. }
  rewrite V in H. cbn in H. inversion H; subst.
  rewrite (lookup_name _ _ _ EL). eexists. eexists. reflexivity.
Qed.

End Wf.
