(* Spec.v — reference semantics of pest grammars (`seval`).
   Pure: the state is passed by value, so a failed attempt leaves no trace except in the
   furthest-failure tracker (which python-pest never rewinds either).
   Bounded repetitions are *defined* as their unrolled sequences; implicit trivia is
   W-star then (C W-star)-star, run where pest's generator puts `skip`; atomicity is pest's three-valued
   Atomicity (NonAtomic / CompoundAtomic / Atomic). *)
From Coq Require Import List NArith ZArith Bool Arith.
Import ListNotations.
From PP Require Import Base Syntax.

Inductive atomicity := NonAtomic | Compound | Atomic.

Record trk := { t_pos : Z; t_exp : list N; t_unexp : list N }.
Definition trk0 : trk := {| t_pos := (-1)%Z; t_exp := []; t_unexp := [] |}.

Record ctx := { c_atom : atomicity; c_rule : N; c_neg : nat; c_sup : bool }.

Record st := { s_pos : N; s_rest : text; s_stk : list text; s_tags : list N; s_trk : trk }.

Inductive res :=
| Ok (s : st) (ps : list pair)
| Fail (t : trk)
| Err            (* reference to an undefined rule (python: KeyError) *)
| Fuel.

Definition set_trk (s : st) (t : trk) : st :=
  {| s_pos := s_pos s; s_rest := s_rest s; s_stk := s_stk s; s_tags := s_tags s; s_trk := t |}.
Definition set_stk (s : st) (k : list text) : st :=
  {| s_pos := s_pos s; s_rest := s_rest s; s_stk := k; s_tags := s_tags s; s_trk := s_trk s |}.
Definition set_tags (s : st) (tg : list N) : st :=
  {| s_pos := s_pos s; s_rest := s_rest s; s_stk := s_stk s; s_tags := tg; s_trk := s_trk s |}.
Definition adv (s : st) (n : N) (r : text) : st :=
  {| s_pos := (s_pos s + n)%N; s_rest := r; s_stk := s_stk s; s_tags := s_tags s; s_trk := s_trk s |}.

(* ParserState.fail *)
Definition record (c : ctx) (force : bool) (name : N) (s : st) : trk :=
  let t := s_trk s in
  if ((Nat.ltb 0 (c_neg c)) && negb force) || c_sup c then t else
  let p := Z.of_N (s_pos s) in
  let negctx := Nat.odd (c_neg c) in
  if (t_pos t <? p)%Z then
    (if negctx then {| t_pos := p; t_exp := []; t_unexp := [name] |}
     else {| t_pos := p; t_exp := [name]; t_unexp := [] |})
  else if (p =? t_pos t)%Z then
    (if negctx then {| t_pos := t_pos t; t_exp := t_exp t; t_unexp := addN name (t_unexp t) |}
     else {| t_pos := t_pos t; t_exp := addN name (t_exp t); t_unexp := t_unexp t |})
  else t.

Definition push_tag (tag : option N) (s : st) : st :=
  match tag with Some t => set_tags s (t :: s_tags s) | None => s end.
Definition pop_tag (tag : option N) (s : st) : st :=
  match tag with Some _ => set_tags s (tl (s_tags s)) | None => s end.

(* match the texts of `ws` one after the other *)
Fixpoint match_all (ws : list text) (rest : text) (n : N) : option (text * N) :=
  match ws with
  | [] => Some (rest, n)
  | w :: ws' =>
      match strip_prefix w rest with
      | Some r => match_all ws' r (n + lenN w)%N
      | None => None
      end
  end.

Fixpoint earliest (subs : list text) (rest : text) (best : option N) : option N :=
  match subs with
  | [] => best
  | sub :: subs' =>
      let best' :=
        match find_sub sub rest, best with
        | Some p, Some b => if N.ltb p b then Some p else Some b
        | Some p, None => Some p
        | None, b => b
        end in
      earliest subs' rest best'
  end.

Definition is_trivia_name (n : N) : bool := N.eqb n WS_ID || N.eqb n CM_ID.

Definition body_atom (c : ctx) (r : rule) : atomicity :=
  match r_kind r with
  | KCompound => Compound
  | KAtomic => Atomic
  | KNonAtomic => if is_trivia_name (r_name r) then Atomic else NonAtomic
  | KNormal => if is_trivia_name (r_name r) then Atomic else c_atom c
  end.

(* does a successful application of `r`, called in context `c`, yield a pair of its own? *)
Definition visible (c : ctx) (r : rule) : bool :=
  negb (r_silent r) &&
  match r_kind r with
  | KCompound | KNonAtomic => true
  | _ => match c_atom c with Atomic => false | _ => true end
  end.

Definition finish_rule (c : ctx) (r : rule) (start : N) (s1 : st) (kids : list pair)
  : st * list pair :=
  if r_silent r then (s1, kids)
  else
    let tg := match s_tags s1 with t :: _ => Some t | [] => None end in
    let s2 := set_tags s1 (tl (s_tags s1)) in
    if visible c r then (s2, [Pair (r_name r) start (s_pos s1) kids tg]) else (s2, kids).

Section Eval.
Variable g : grammar.

Definition has_ws : bool := match lookup g WS_ID with Some _ => true | None => false end.
Definition has_cm : bool := match lookup g CM_ID with Some _ => true | None => false end.

(* pest's `skip`: WHITESPACE-star ~ (COMMENT ~ WHITESPACE-star)-star, built from the combinators below
   and run with implicit skipping off *)
Definition skip_expr : option expr :=
  let w := EStar (ERef WS_ID None) in
  match has_ws, has_cm with
  | true, true => Some (ESeq [w; EStar (ESeq [ERef CM_ID None; w])])
  | true, false => Some w
  | false, true => Some (EStar (ERef CM_ID None))
  | false, false => None
  end.

Definition skip_ctx (c : ctx) : ctx :=
  {| c_atom := Compound; c_rule := c_rule c; c_neg := c_neg c; c_sup := true |}.

Definition skip_with (ev : ctx -> expr -> st -> res) (c : ctx) (s : st) : res :=
  match c_atom c with
  | NonAtomic =>
      match skip_expr with
      | Some e => ev (skip_ctx c) e s
      | None => Ok s []
      end
  | _ => Ok s []
  end.

Definition neg_ctx (c : ctx) : ctx :=
  {| c_atom := c_atom c; c_rule := c_rule c; c_neg := S (c_neg c); c_sup := c_sup c |}.

Definition rule_ctx (c : ctx) (r : rule) : ctx :=
  {| c_atom := body_atom c r; c_rule := r_name r; c_neg := c_neg c; c_sup := c_sup c |}.

Inductive task := TEval (e : expr) | TSeq (es : list expr) | TAlt (es : list expr) | TStar (e : expr).

Fixpoint run (fuel : nat) (c : ctx) (t : task) (s : st) {struct fuel} : res :=
  match fuel with
  | O => Fuel
  | S f =>
  match t with
  | TEval e =>
    match e with
    | EStr lit =>
        match strip_prefix lit (s_rest s) with
        | Some r => Ok (adv s (lenN lit) r) []
        | None => Fail (record c false (c_rule c) s)
        end
    | ECIStr lit =>
        match strip_prefix_ci lit (s_rest s) with
        | Some r => Ok (adv s (lenN lit) r) []
        | None => Fail (record c false (c_rule c) s)
        end
    | ERange lo hi =>
        match s_rest s with
        | d :: r => if N.leb lo d && N.leb d hi then Ok (adv s 1 r) []
                    else Fail (record c false (c_rule c) s)
        | [] => Fail (record c false (c_rule c) s)
        end
    | EAny =>
        match s_rest s with
        | _ :: r => Ok (adv s 1 r) []
        | [] => Fail (s_trk s)
        end
    | ESoi => if N.eqb (s_pos s) 0 then Ok s [] else Fail (s_trk s)
    | EEoi => match s_rest s with [] => Ok s [] | _ => Fail (s_trk s) end
    | ECls rs =>
        match s_rest s with
        | d :: r => if in_ranges d rs then Ok (adv s 1 r) [] else Fail (s_trk s)
        | [] => Fail (s_trk s)
        end
    | ERef n tag =>
        match lookup g n with
        | None => Err
        | Some r =>
            match run f (rule_ctx c r) (TEval (r_body r)) (push_tag tag s) with
            | Ok s1 kids =>
                let '(s2, ps) := finish_rule c r (s_pos s) s1 kids in
                Ok (pop_tag tag s2) ps
            | x => x
            end
        end
    | ESeq es => run f c (TSeq es) s
    | EAlt es => run f c (TAlt es) s
    | EOpt e1 =>
        match run f c (TEval e1) s with
        | Fail t => Ok (set_trk s t) []
        | x => x
        end
    | EStar e1 =>
        match run f c (TEval e1) s with
        | Ok s1 p1 =>
            match run f c (TStar e1) s1 with
            | Ok s2 p2 => Ok s2 (p1 ++ p2)
            | x => x
            end
        | Fail t => Ok (set_trk s t) []
        | x => x
        end
    | EPlus e1 => run f c (TSeq [e1; EStar e1]) s
    | ERepN e1 n => run f c (TSeq (repeat e1 n)) s
    | ERepMin e1 n => run f c (TSeq (repeat e1 n ++ [EStar e1])) s
    | ERepMax e1 n => run f c (TSeq (repeat (EOpt e1) n)) s
    | ERepMinMax e1 m n => run f c (TSeq (repeat e1 m ++ repeat (EOpt e1) (n - m))) s
    | EAnd e1 =>
        match run f c (TEval e1) s with
        | Ok s1 _ => Ok (set_trk s (s_trk s1)) []
        | x => x
        end
    | ENot e1 =>
        match run f (neg_ctx c) (TEval e1) s with
        | Ok s1 _ =>
            let name := match e1 with ERef n _ => n | _ => c_rule c end in
            Fail (record (neg_ctx c) true name (set_trk s (s_trk s1)))
        | Fail t => Ok (set_trk s t) []
        | x => x
        end
    | EGrp e1 tag =>
        match run f c (TEval e1) (push_tag tag s) with
        | Ok s1 ps => Ok (pop_tag tag s1) ps
        | x => x
        end
    | EPush e1 =>
        match run f c (TEval e1) s with
        | Ok s1 ps =>
            let w := firstn (N.to_nat (s_pos s1 - s_pos s)) (s_rest s) in
            Ok (set_stk s1 (w :: s_stk s1)) ps
        | x => x
        end
    | EPushLit w => Ok (set_stk s (w :: s_stk s)) []
    | EPeek =>
        match s_stk s with
        | [] => Fail (s_trk s)
        | w :: _ =>
            match strip_prefix w (s_rest s) with
            | Some r => Ok (adv s (lenN w) r) []
            | None => Fail (record c false (c_rule c) s)
            end
        end
    | EPop =>
        match s_stk s with
        | [] => Fail (s_trk s)
        | w :: k =>
            match strip_prefix w (s_rest s) with
            | Some r => Ok (set_stk (adv s (lenN w) r) k) []
            | None => Fail (record c false (c_rule c) s)
            end
        end
    | EDrop =>
        match s_stk s with
        | [] => Fail (record c false (c_rule c) s)
        | _ :: k => Ok (set_stk s k) []
        end
    | EPeekAll =>
        match match_all (s_stk s) (s_rest s) 0 with
        | Some (r, n) => Ok (adv s n r) []
        | None => Fail (record c false (c_rule c) s)
        end
    | EPopAll =>
        match match_all (s_stk s) (s_rest s) 0 with
        | Some (r, n) => Ok (set_stk (adv s n r) []) []
        | None => Fail (record c false (c_rule c) s)
        end
    | EPeekSl a b =>
        match match_all (py_slice (rev (s_stk s)) a b) (s_rest s) 0 with
        | Some (r, n) => Ok (adv s n r) []
        | None => Fail (record c false (c_rule c) s)
        end
    | ESkipUntil subs =>
        let n := match earliest subs (s_rest s) None with
                 | Some p => p
                 | None => lenN (s_rest s)
                 end in
        Ok (adv s n (skipn (N.to_nat n) (s_rest s))) []
    end
  | TSeq es =>
    match es with
    | [] => Ok s []
    | e1 :: es' =>
        match run f c (TEval e1) s with
        | Ok s1 p1 =>
            match es' with
            | [] => Ok s1 p1
            | _ =>
                match skip_with (fun c' e' => run f c' (TEval e')) c s1 with
                | Ok s2 pw =>
                    match run f c (TSeq es') s2 with
                    | Ok s3 p3 => Ok s3 (p1 ++ pw ++ p3)
                    | x => x
                    end
                | x => x
                end
            end
        | x => x
        end
    end
  | TAlt es =>
    match es with
    | [] => Fail (s_trk s)
    | e1 :: es' =>
        match run f c (TEval e1) s with
        | Fail t => run f c (TAlt es') (set_trk s t)
        | x => x
        end
    end
  (* after one successful iteration ending in state s: try `skip ~ e` again, undoing the
     skip when e fails *)
  | TStar e1 =>
    match skip_with (fun c' e' => run f c' (TEval e')) c s with
    | Ok s2 pw =>
        match run f c (TEval e1) s2 with
        | Ok s3 p3 =>
            match run f c (TStar e1) s3 with
            | Ok s4 p4 => Ok s4 (pw ++ p3 ++ p4)
            | x => x
            end
        | Fail t => Ok (set_trk s t) []
        | x => x
        end
    | x => x
    end
  end
  end.

Definition eval (fuel : nat) (c : ctx) (e : expr) (s : st) : res := run fuel c (TEval e) s.
Definition eval_seq (fuel : nat) (c : ctx) (es : list expr) (s : st) : res := run fuel c (TSeq es) s.
Definition eval_alt (fuel : nat) (c : ctx) (es : list expr) (s : st) : res := run fuel c (TAlt es) s.
Definition eval_star (fuel : nat) (c : ctx) (e : expr) (s : st) : res := run fuel c (TStar e) s.

Definition ctx0 : ctx := {| c_atom := NonAtomic; c_rule := 0; c_neg := 0; c_sup := false |}.

Definition st0 (input : text) (k : nat) : st :=
  {| s_pos := N.of_nat k; s_rest := skipn k input; s_stk := []; s_tags := []; s_trk := trk0 |}.

(* Parser.parse(rule, input, start_pos=k) *)
Definition parse (fuel : nat) (rule : N) (input : text) (k : nat) : res :=
  eval fuel ctx0 (ERef rule None) (st0 input k).

End Eval.
