(* SpecTags.v — tags in the tree are tags written in the grammar.
   Every tag attached to a pair of a successful parse is the tag of an `ERef _ (Some t)` or an
   `EGrp _ (Some t)` sub-expression of some rule body. *)
From Coq Require Import List NArith ZArith Bool Arith Lia.
Import ListNotations.
From PP Require Import Base Syntax Spec.

(* ------------------------------------------------------------------------------------ *)
(* tags written in an expression / a grammar; tags of a tree *)

Definition otag (tag : option N) : list N := match tag with Some t => [t] | None => [] end.

Fixpoint expr_tags (e : expr) : list N :=
  match e with
  | ERef _ tag => otag tag
  | EGrp e1 tag => otag tag ++ expr_tags e1
  | ESeq es | EAlt es =>
      (fix go (l : list expr) : list N :=
         match l with [] => [] | x :: l' => expr_tags x ++ go l' end) es
  | EOpt e1 | EStar e1 | EPlus e1 | ERepN e1 _ | ERepMin e1 _ | ERepMax e1 _ | ERepMinMax e1 _ _
  | EAnd e1 | ENot e1 | EPush e1 => expr_tags e1
  | _ => []
  end.

Definition exprs_tags (es : list expr) : list N := flat_map expr_tags es.

Lemma expr_tags_seq es : expr_tags (ESeq es) = exprs_tags es.
Proof. reflexivity. Qed.
Lemma expr_tags_alt es : expr_tags (EAlt es) = exprs_tags es.
Proof. reflexivity. Qed.

Definition grammar_tags (g : grammar) : list N := flat_map (fun r => expr_tags (r_body r)) g.

Fixpoint pair_tags (p : pair) : list N :=
  match p with
  | Pair _ _ _ kids tag =>
      otag tag ++
      (fix go (ks : list pair) : list N :=
         match ks with [] => [] | k :: ks' => pair_tags k ++ go ks' end) kids
  end.

Definition tree_tags (ps : list pair) : list N := flat_map pair_tags ps.

Lemma pair_tags_eq n s e kids tag :
  pair_tags (Pair n s e kids tag) = otag tag ++ tree_tags kids.
Proof. reflexivity. Qed.

Lemma tree_tags_app a b : tree_tags (a ++ b) = tree_tags a ++ tree_tags b.
Proof. apply flat_map_app. Qed.

Lemma lookup_In : forall g n r, lookup g n = Some r -> In r g.
Proof.
  induction g as [|r0 g IH]; intros n r H; cbn in H; [discriminate|].
  destruct (N.eqb (r_name r0) n); [inversion H; subst; left; reflexivity|right; eapply IH; exact H].
Qed.

Lemma grammar_tags_lookup g n r t : lookup g n = Some r -> In t (expr_tags (r_body r)) ->
  In t (grammar_tags g).
Proof.
  intros L H. unfold grammar_tags. apply in_flat_map. exists r. split; [eapply lookup_In; exact L|exact H].
Qed.

(* ------------------------------------------------------------------------------------ *)
(* the invariant, for an arbitrary set T of admissible tags *)

Section Tags.
Variable g : grammar.
Variable T : N -> Prop.

Definition tin (l : list N) : Prop := forall t, In t l -> T t.

Lemma tin_nil : tin [].
Proof. intros t []. Qed.
Lemma tin_app a b : tin (a ++ b) <-> tin a /\ tin b.
Proof.
  split.
  - intros H. split; intros t Ht; apply H; apply in_or_app; [left|right]; exact Ht.
  - intros [A B] t Ht. apply in_app_or in Ht. destruct Ht; [apply A|apply B]; assumption.
Qed.
Lemma tin_app_intro a b : tin a -> tin b -> tin (a ++ b).
Proof. intros A B. apply tin_app. split; assumption. Qed.
Lemma tin_tl l : tin l -> tin (tl l).
Proof. destruct l; [intros H; exact H|]. intros H t Ht. apply H. right. exact Ht. Qed.
Lemma tin_cons x l : T x -> tin l -> tin (x :: l).
Proof. intros Hx Hl t [<-|Ht]; [exact Hx|apply Hl; exact Ht]. Qed.

(* every rule body only mentions admissible tags *)
Hypothesis HG : forall n r, lookup g n = Some r -> tin (expr_tags (r_body r)).

Definition task_tags (t : task) : list N :=
  match t with
  | TEval e => expr_tags e
  | TSeq es | TAlt es => exprs_tags es
  | TStar e => expr_tags e
  end.

Definition tres (r : res) : Prop :=
  match r with
  | Ok s' ps => tin (s_tags s') /\ tin (tree_tags ps)
  | _ => True
  end.

Definition tags_at (f : nat) : Prop :=
  forall c t s, tin (task_tags t) -> tin (s_tags s) -> tres (run g f c t s).

Lemma exprs_tags_repeat e n : tin (expr_tags e) -> tin (exprs_tags (repeat e n)).
Proof.
  intros H. induction n as [|n IH]; [apply tin_nil|]. cbn. apply tin_app_intro; assumption.
Qed.

Lemma exprs_tags_app a b : exprs_tags (a ++ b) = exprs_tags a ++ exprs_tags b.
Proof. apply flat_map_app. Qed.

Lemma skip_expr_tags e : skip_expr g = Some e -> expr_tags e = [].
Proof.
  unfold skip_expr. destruct (has_ws g), (has_cm g); intros H; inversion H; reflexivity.
Qed.

Lemma skip_tags f : tags_at f -> forall c s, tin (s_tags s) ->
  tres (skip_with g (fun c' e' => run g f c' (TEval e')) c s).
Proof.
  intros IH c s Hs. unfold skip_with.
  destruct (c_atom c); try (split; [exact Hs|apply tin_nil]).
  destruct (skip_expr g) as [e|] eqn:E; [|split; [exact Hs|apply tin_nil]].
  apply IH; [cbn [task_tags]; rewrite (skip_expr_tags e E); apply tin_nil|exact Hs].
Qed.

Lemma tin_push tag s : tin (otag tag) -> tin (s_tags s) -> tin (s_tags (push_tag tag s)).
Proof.
  destruct tag as [t|]; intros A B; [|exact B]. cbn. apply tin_cons; [apply A; left; reflexivity|exact B].
Qed.
Lemma tin_pop tag s : tin (s_tags s) -> tin (s_tags (pop_tag tag s)).
Proof. destruct tag; intros H; [cbn; apply tin_tl; exact H|exact H]. Qed.

Lemma ok0 s : tin (s_tags s) -> tin (s_tags s) /\ tin (tree_tags []).
Proof. intros H. split; [exact H|apply tin_nil]. Qed.

Lemma tags_all : forall f, tags_at f.
Proof.
  induction f as [|f IH]; intros c t s Ht Hs; [exact I|].
  assert (IHk := skip_tags f IH).
  assert (OK0 := ok0 s Hs).
  destruct t as [e|es|es|e]; cbn [task_tags] in Ht.
  - destruct e; cbn [run].
    + destruct (strip_prefix _ _); [exact OK0|exact I].
    + destruct (strip_prefix_ci _ _); [exact OK0|exact I].
    + destruct (s_rest s); [exact I|]. destruct (_ && _); [exact OK0|exact I].
    + destruct (s_rest s); [exact I|exact OK0].
    + destruct (N.eqb _ _); [exact OK0|exact I].
    + destruct (s_rest s); [exact OK0|exact I].
    + destruct (s_rest s); [exact I|]. destruct (in_ranges _ _); [exact OK0|exact I].
    + (* ERef *) destruct (lookup g n) as [r|] eqn:EL; [|exact I].
      cbn [expr_tags] in Ht.
      assert (H0 : tin (s_tags (push_tag tag s))) by (apply tin_push; assumption).
      specialize (IH (rule_ctx c r) (TEval (r_body r)) _ (HG n r EL) H0).
      destruct (run g f (rule_ctx c r) (TEval (r_body r)) (push_tag tag s)) as [s1 kids|t| |];
        try exact I.
      destruct IH as [A B]. unfold finish_rule.
      destruct (r_silent r).
      * split; [apply tin_pop; exact A|exact B].
      * destruct (visible c r).
        -- split; [apply tin_pop; cbn; apply tin_tl; exact A|].
           cbn [tree_tags flat_map]. rewrite app_nil_r, pair_tags_eq.
           apply tin_app_intro; [|exact B].
           destruct (s_tags s1) as [|t0 l]; [apply tin_nil|].
           intros t [<-|[]]. apply A. left. reflexivity.
        -- split; [apply tin_pop; cbn; apply tin_tl; exact A|exact B].
    + (* ESeq *) apply IH; [cbn [task_tags]; rewrite <- expr_tags_seq; exact Ht|exact Hs].
    + (* EAlt *) apply IH; [cbn [task_tags]; rewrite <- expr_tags_alt; exact Ht|exact Hs].
    + (* EOpt *) specialize (IH c (TEval e) s Ht Hs).
      destruct (run g f c (TEval e) s); try exact IH. exact OK0.
    + (* EStar *) assert (IH1 := IH c (TEval e) s Ht Hs).
      destruct (run g f c (TEval e) s) as [s1 p1|t| |]; try exact I; [|exact OK0].
      destruct IH1 as [A1 B1].
      assert (IH2 := IH c (TStar e) s1 Ht A1).
      destruct (run g f c (TStar e) s1) as [s2 p2|t| |]; try exact I.
      destruct IH2 as [A2 B2]. split; [exact A2|]. rewrite tree_tags_app. apply tin_app_intro; assumption.
    + (* EPlus *) apply IH; [|exact Hs]. cbn [task_tags exprs_tags flat_map expr_tags].
      rewrite app_nil_r. apply tin_app_intro; exact Ht.
    + (* ERepN *) apply IH; [|exact Hs]. cbn [task_tags]. apply exprs_tags_repeat. exact Ht.
    + (* ERepMin *) apply IH; [|exact Hs]. cbn [task_tags]. rewrite exprs_tags_app.
      apply tin_app_intro; [apply exprs_tags_repeat; exact Ht|].
      cbn [exprs_tags flat_map expr_tags]. rewrite app_nil_r. exact Ht.
    + (* ERepMax *) apply IH; [|exact Hs]. cbn [task_tags]. apply exprs_tags_repeat. exact Ht.
    + (* ERepMinMax *) apply IH; [|exact Hs]. cbn [task_tags]. rewrite exprs_tags_app.
      apply tin_app_intro; apply exprs_tags_repeat; exact Ht.
    + (* EAnd *) specialize (IH c (TEval e) s Ht Hs).
      destruct (run g f c (TEval e) s); try exact I. exact OK0.
    + (* ENot *) specialize (IH (neg_ctx c) (TEval e) s Ht Hs).
      destruct (run g f (neg_ctx c) (TEval e) s); try exact I. exact OK0.
    + (* EGrp *) cbn [expr_tags] in Ht. apply tin_app in Ht. destruct Ht as [Ht1 Ht2].
      assert (H0 : tin (s_tags (push_tag tag s))) by (apply tin_push; assumption).
      specialize (IH c (TEval e) _ Ht2 H0).
      destruct (run g f c (TEval e) (push_tag tag s)) as [s1 p1|t| |]; try exact I.
      destruct IH as [A B]. split; [apply tin_pop; exact A|exact B].
    + (* EPush *) specialize (IH c (TEval e) s Ht Hs).
      destruct (run g f c (TEval e) s) as [s1 p1|t| |]; try exact I. exact IH.
    + exact OK0.
    + destruct (s_stk s); [exact I|]. destruct (strip_prefix _ _); [exact OK0|exact I].
    + destruct (match_all _ _ _) as [[r n]|]; [exact OK0|exact I].
    + destruct (match_all _ _ _) as [[r n]|]; [exact OK0|exact I].
    + destruct (s_stk s); [exact I|]. destruct (strip_prefix _ _); [exact OK0|exact I].
    + destruct (match_all _ _ _) as [[r n]|]; [exact OK0|exact I].
    + destruct (s_stk s); [exact I|exact OK0].
    + exact OK0.
  - (* TSeq *) cbn [run]. destruct es as [|e1 es']; [exact OK0|].
    cbn [exprs_tags flat_map] in Ht. apply tin_app in Ht. destruct Ht as [Ht1 Ht2].
    assert (IH1 := IH c (TEval e1) s Ht1 Hs).
    destruct (run g f c (TEval e1) s) as [s1 p1|t| |]; try exact I.
    destruct es' as [|e2 es'']; [exact IH1|].
    destruct IH1 as [A1 B1].
    assert (IH2 := IHk c s1 A1).
    destruct (skip_with g _ c s1) as [s2 pw|t| |]; try exact I.
    destruct IH2 as [A2 B2].
    assert (IH3 := IH c (TSeq (e2 :: es'')) s2 Ht2 A2).
    destruct (run g f c (TSeq (e2 :: es'')) s2) as [s3 p3|t| |]; try exact I.
    destruct IH3 as [A3 B3]. split; [exact A3|].
    rewrite !tree_tags_app. apply tin_app_intro; [exact B1|apply tin_app_intro; assumption].
  - (* TAlt *) cbn [run]. destruct es as [|e1 es']; [exact I|].
    cbn [exprs_tags flat_map] in Ht. apply tin_app in Ht. destruct Ht as [Ht1 Ht2].
    assert (IH1 := IH c (TEval e1) s Ht1 Hs).
    destruct (run g f c (TEval e1) s) as [s1 p1|t| |]; try exact I; [exact IH1|].
    apply (IH c (TAlt es') (set_trk s t) Ht2). exact Hs.
  - (* TStar *) cbn [run].
    assert (IH1 := IHk c s Hs).
    destruct (skip_with g _ c s) as [s2 pw|t| |]; try exact I.
    destruct IH1 as [A1 B1].
    assert (IH2 := IH c (TEval e) s2 Ht A1).
    destruct (run g f c (TEval e) s2) as [s3 p3|t| |]; try exact I; [|exact OK0].
    destruct IH2 as [A2 B2].
    assert (IH3 := IH c (TStar e) s3 Ht A2).
    destruct (run g f c (TStar e) s3) as [s4 p4|t| |]; try exact I.
    destruct IH3 as [A3 B3]. split; [exact A3|].
    rewrite !tree_tags_app. apply tin_app_intro; [exact B1|apply tin_app_intro; assumption].
Qed.

End Tags.

(* ------------------------------------------------------------------------------------ *)
(* the theorem *)

Theorem run_tags : forall g f c t s,
  (forall x, In x (task_tags t) -> In x (grammar_tags g)) ->
  (forall x, In x (s_tags s) -> In x (grammar_tags g)) ->
  match run g f c t s with
  | Ok s' ps => (forall x, In x (s_tags s') -> In x (grammar_tags g)) /\
                (forall x, In x (tree_tags ps) -> In x (grammar_tags g))
  | _ => True
  end.
Proof.
  intros g f c t s Ht Hs.
  assert (H := tags_all g (fun x => In x (grammar_tags g))
                 (fun n r L x Hx => grammar_tags_lookup g n r x L Hx) f c t s Ht Hs).
  destruct (run g f c t s); try exact I. exact H.
Qed.

Theorem parse_tags : forall g f rule input k s' tree, parse g f rule input k = Ok s' tree ->
  forall t, In t (tree_tags tree) -> In t (grammar_tags g).
Proof.
  intros g f rule input k s' tree H.
  assert (R := run_tags g f ctx0 (TEval (ERef rule None)) (st0 input k)).
  unfold parse, eval in H. rewrite H in R.
  apply R; intros x [].
Qed.

(* whatever remains on the tag stack at the end is a tag of the grammar as well *)
Theorem parse_tags_stack : forall g f rule input k s' tree, parse g f rule input k = Ok s' tree ->
  forall t, In t (s_tags s') -> In t (grammar_tags g).
Proof.
  intros g f rule input k s' tree H.
  assert (R := run_tags g f ctx0 (TEval (ERef rule None)) (st0 input k)).
  unfold parse, eval in H. rewrite H in R.
  apply R; intros x [].
Qed.

(* non-vacuity: a tagged reference yields a tagged pair, and the tag is found on both sides *)
Definition g_tag : grammar :=
  [{| r_name := 5; r_silent := false; r_kind := KNormal; r_body := ESeq [ERef 6 (Some 7%N); EGrp (ERef 6 None) (Some 8%N)] |};
   {| r_name := 6; r_silent := false; r_kind := KNormal; r_body := EStr [97%N] |}].
Example tags_instance :
  grammar_tags g_tag = [7; 8]%N /\
  match parse g_tag 20 5 [97; 97]%N 0 with
  | Ok _ tree => tree = [Pair 5 0 2 [Pair 6 0 1 [] (Some 7%N); Pair 6 1 2 [] (Some 8%N)] None]
                 /\ tree_tags tree = [7; 8]%N
  | _ => False
  end.
Proof. split; vm_compute; [reflexivity|split; reflexivity]. Qed.

Print Assumptions parse_tags.
Print Assumptions run_tags.
Print Assumptions parse_tags_stack.
