(* OptPassProof.v — the modelled optimizer passes (OptPass.v) only ever produce tables the proved
   translation validator accepts, for EVERY grammar; with OptProof.ochk_sound: they preserve every parse. *)
From Coq Require Import List NArith ZArith Bool Arith Lia.
Import ListNotations.
From PP Require Import Base Syntax Spec SpecSyn SpecEquiv CharClass Opt OptProof OptPass.
Open Scope nat_scope.

(* ---------- reflexivity of the comparison helpers ---------- *)
Lemma text_eqb_refl a : text_eqb a a = true.
Proof. induction a as [|x a IH]; cbn; [reflexivity|]. rewrite N.eqb_refl. exact IH. Qed.
Lemma texts_eqb_refl a : texts_eqb a a = true.
Proof. induction a as [|x a IH]; cbn; [reflexivity|]. rewrite text_eqb_refl. exact IH. Qed.
Lemma ranges_eqb_refl a : ranges_eqb a a = true.
Proof. induction a as [|[x y] a IH]; cbn; [reflexivity|]. rewrite !N.eqb_refl. exact IH. Qed.
Lemma optN_eqb_refl a : optN_eqb a a = true.
Proof. destruct a; cbn; [apply N.eqb_refl|reflexivity]. Qed.
Lemma optZ_eqb_refl a : optZ_eqb a a = true.
Proof. destruct a; cbn; [apply Z.eqb_refl|reflexivity]. Qed.
Lemma kind_eqb_refl a : kind_eqb a a = true.
Proof. destruct a; reflexivity. Qed.

(* ---------- the local iterators of Opt.ochk, from Forall / Forall2 ---------- *)
Lemma all2_of_F2 (P : expr -> expr -> bool) : forall xs ys,
  Forall2 (fun x y => P x y = true) xs ys ->
  (fix all2 (xs ys : list expr) : bool :=
     match xs, ys with
     | [], [] => true
     | x :: xs', y :: ys' => P x y && all2 xs' ys'
     | _, _ => false
     end) xs ys = true.
Proof. intros xs ys H. induction H as [|x y xs ys H1 _ IH]; [reflexivity|]. rewrite H1. exact IH. Qed.

Lemma alln_of_F (P : expr -> expr -> bool) x : forall ys,
  Forall (fun y => P x y = true) ys ->
  (fix alln (x : expr) (ys : list expr) : bool :=
     match ys with [] => true | y :: ys' => P x y && alln x ys' end) x ys = true.
Proof. intros ys H. induction H as [|y ys H1 _ IH]; [reflexivity|]. rewrite H1. exact IH. Qed.

Lemma allopt_of_F (P : expr -> expr -> bool) x : forall bs,
  Forall (fun y => P x y = true) bs ->
  (fix allopt (x : expr) (ys : list expr) : bool :=
     match ys with
     | [] => true
     | EOpt y :: ys' => P x y && allopt x ys'
     | _ => false
     end) x (map EOpt bs) = true.
Proof. intros bs H. induction H as [|y ys H1 _ IH]; [reflexivity|]. cbn [map]. rewrite H1. exact IH. Qed.

(* ---------- lists ---------- *)
Lemma firstn_len_app {A} n (l1 l2 : list A) : length l1 = n -> firstn n (l1 ++ l2) = l1.
Proof. intros <-. induction l1 as [|x l1 IH]; cbn; [destruct l2; reflexivity|]. f_equal. exact IH. Qed.
Lemma skipn_len_app {A} n (l1 l2 : list A) : length l1 = n -> skipn n (l1 ++ l2) = l2.
Proof. intros <-. induction l1 as [|x l1 IH]; cbn; [reflexivity|exact IH]. Qed.
Lemma repeat_map {A B} (h : A -> B) a n : repeat (h a) n = map h (repeat a n).
Proof. induction n as [|n IH]; cbn; [reflexivity|]. f_equal. exact IH. Qed.
Lemma Forall_repeat {A} (P : A -> Prop) a n : P a -> Forall P (repeat a n).
Proof. intros H. induction n as [|n IH]; cbn; constructor; assumption. Qed.

Lemma depths_In x : forall es, In x es -> depth x <= depths es.
Proof.
  induction es as [|y es IH]; intros H; [destruct H|].
  change (depths (y :: es)) with (Nat.max (depth y) (depths es)).
  destruct H as [->|H]; [lia|]. specialize (IH H). lia.
Qed.
Lemma depth_pos e : 1 <= depth e.
Proof. destruct e; cbn; lia. Qed.

(* ---------- unroll_bu, unfolded ---------- *)
Lemma unroll_seq es : unroll_bu (ESeq es) = ESeq (map unroll_bu es).          Proof. reflexivity. Qed.
Lemma unroll_alt es : unroll_bu (EAlt es) = EAlt (map unroll_bu es).          Proof. reflexivity. Qed.
Lemma unroll_star a : unroll_bu (EStar a) = EStar (unroll_bu a).              Proof. reflexivity. Qed.
Lemma unroll_plus a : unroll_bu (EPlus a) = ESeq [strip_grp (unroll_bu a); EStar (unroll_bu a)].
Proof. reflexivity. Qed.
Lemma unroll_repn a n : unroll_bu (ERepN a n) = ESeq (repeat (unroll_bu a) n). Proof. reflexivity. Qed.
Lemma unroll_repmin a n : unroll_bu (ERepMin a n) = ESeq (repeat (unroll_bu a) n ++ [EStar (unroll_bu a)]).
Proof. reflexivity. Qed.
Lemma unroll_repmax a n : unroll_bu (ERepMax a n) = ESeq (repeat (EOpt (unroll_bu a)) n).
Proof. reflexivity. Qed.
Lemma unroll_repmm a m n : unroll_bu (ERepMinMax a m n) =
  ESeq (repeat (unroll_bu a) m ++ repeat (EOpt (unroll_bu a)) (n - m)).
Proof. reflexivity. Qed.

(* the only way to obtain an untagged group is from an untagged group *)
Lemma strip_cases a : (exists x, a = EGrp x None) \/ strip_grp (unroll_bu a) = unroll_bu a.
Proof.
  destruct a; try (right; reflexivity).
  destruct tag as [t|]; [right; reflexivity|left; eexists; reflexivity].
Qed.

(* a star against a star is compared operand by operand (the skip-until clause needs a different right-hand side) *)
Lemma ochk_star_star g g' f toff a b : ochk g g' (S f) toff (EStar a) (EStar b) = ochk g g' f toff a b.
Proof.
  cbn [ochk].
  repeat match goal with
         | |- match ?x with _ => _ end = _ => destruct x; try reflexivity
         end.
Qed.

Section Expr.
Variables g g' : grammar.
Hypothesis Hdef : forall n, defined_in g' n = defined_in g n.

Lemma ref_ok n : defined_in g n || negb (defined_in g' n) = true.
Proof. rewrite Hdef. destruct (defined_in g n); reflexivity. Qed.

(* the validator accepts an unchanged expression *)
Lemma ochk_refl : forall f toff e, depth e <= f -> ochk g g' f toff e e = true.
Proof.
  induction f as [|f IH]; intros toff e D; [pose proof (depth_pos e); lia|].
  assert (L : forall es, depths es <= f -> Forall2 (fun x y => ochk g g' f toff x y = true) es es).
  { induction es as [|x es IHes]; intros Dl; [constructor|].
    change (depths (x :: es)) with (Nat.max (depth x) (depths es)) in Dl.
    constructor; [apply IH; lia|apply IHes; lia]. }
  destruct e; cbn [ochk]; cbn [depth] in D;
    try reflexivity;
    try (apply text_eqb_refl);
    try (apply ranges_eqb_refl);
    try (apply texts_eqb_refl);
    try (apply IH; lia);
    try (rewrite Nat.eqb_refl; cbn [andb]; apply IH; lia).
  - rewrite !N.eqb_refl. reflexivity.
  - rewrite N.eqb_refl, optN_eqb_refl, ref_ok. destruct tag; reflexivity.
  - apply all2_of_F2. apply L. change (S (depths es) <= S f) in D. lia.
  - rewrite (all2_of_F2 (ochk g g' f toff) es es); [reflexivity|].
    apply L. change (S (depths es) <= S f) in D. lia.
  - change (ochk g g' (S f) toff (EStar e) (EStar e) = true). rewrite ochk_star_star. apply IH. lia.
  - rewrite !Nat.eqb_refl. cbn [andb]. apply IH. lia.
  - rewrite optN_eqb_refl. cbn [andb]. apply IH. lia.
  - rewrite !optZ_eqb_refl. reflexivity.
Qed.

(* the validator accepts the image of the unroll pass *)
Lemma ochk_unroll : forall f toff e, depth e <= f -> all_sub count_ok e = true ->
  ochk g g' f toff e (unroll_bu e) = true.
Proof.
  induction f as [|f IH]; intros toff e D C; [pose proof (depth_pos e); lia|].
  assert (L : forall es, depths es <= f -> all_list count_ok es = true ->
              Forall2 (fun x y => ochk g g' f toff x y = true) es (map unroll_bu es)).
  { induction es as [|x es IHes]; intros Dl Cl; [constructor|].
    change (depths (x :: es)) with (Nat.max (depth x) (depths es)) in Dl.
    cbn [all_list forallb] in Cl. apply andb_prop in Cl. destruct Cl as [C1 C2].
    cbn [map]. constructor; [apply IH; [lia|exact C1]|apply IHes; [lia|exact C2]]. }
  destruct e.
  1-8: exact (ochk_refl (S f) toff _ D).
  - (* ESeq *)
    rewrite unroll_seq. cbn [ochk]. apply all2_of_F2.
    rewrite all_sub_seq in C. apply andb_prop in C. destruct C as [_ C].
    apply L; [change (S (depths es) <= S f) in D; lia|exact C].
  - (* EAlt *)
    rewrite unroll_alt. cbn [ochk].
    rewrite all_sub_alt in C. apply andb_prop in C. destruct C as [_ C].
    rewrite (all2_of_F2 (ochk g g' f toff) es (map unroll_bu es)); [reflexivity|].
    apply L; [change (S (depths es) <= S f) in D; lia|exact C].
  - (* EOpt *)
    cbn [all_sub] in C. apply andb_prop in C. destruct C as [_ C]. cbn [depth] in D.
    change (unroll_bu (EOpt e)) with (EOpt (unroll_bu e)). cbn [ochk]. apply IH; [lia|exact C].
  - (* EStar *)
    cbn [all_sub] in C. apply andb_prop in C. destruct C as [_ C]. cbn [depth] in D.
    rewrite unroll_star, ochk_star_star. apply IH; [lia|exact C].
  - (* EPlus *)
    cbn [all_sub] in C. apply andb_prop in C. destruct C as [_ C]. cbn [depth] in D.
    rewrite unroll_plus. cbn [ochk].
    assert (S2 : ochk g g' f toff (EStar e) (EStar (unroll_bu e)) = true).
    { rewrite <- unroll_star. apply IH; [cbn [depth]; lia|]. cbn [all_sub]. rewrite C. reflexivity. }
    rewrite S2, andb_true_r.
    destruct (strip_cases e) as [[x ->]|E].
    + cbn [all_sub] in C. apply andb_prop in C. destruct C as [_ C]. cbn [depth] in D.
      change (unroll_bu (EGrp x None)) with (EGrp (unroll_bu x) None). cbn [strip_grp].
      rewrite (IH toff x); [apply orb_true_r|lia|exact C].
    + rewrite E. rewrite (IH toff e); [reflexivity|lia|exact C].
  - (* ERepN *)
    cbn [all_sub] in C. apply andb_prop in C. destruct C as [_ C]. cbn [depth] in D.
    rewrite unroll_repn. cbn [ochk]. rewrite repeat_length, Nat.eqb_refl. cbn [andb].
    apply alln_of_F. apply Forall_repeat. apply IH; [lia|exact C].
  - (* ERepMin *)
    cbn [all_sub] in C. apply andb_prop in C. destruct C as [_ C]. cbn [depth] in D.
    rewrite unroll_repmin. cbn [ochk].
    rewrite app_length, repeat_length. cbn [length]. replace (n + 1) with (S n) by lia.
    rewrite Nat.eqb_refl. cbn [andb].
    rewrite (firstn_len_app n), (skipn_len_app n) by apply repeat_length.
    rewrite (alln_of_F (ochk g g' f toff) e (repeat (unroll_bu e) n)).
    + cbn [andb]. rewrite <- unroll_star. apply IH; [cbn [depth]; lia|]. cbn [all_sub]. rewrite C. reflexivity.
    + apply Forall_repeat. apply IH; [lia|exact C].
  - (* ERepMax *)
    cbn [all_sub] in C. apply andb_prop in C. destruct C as [_ C]. cbn [depth] in D.
    rewrite unroll_repmax. cbn [ochk]. rewrite repeat_length, Nat.eqb_refl. cbn [andb].
    rewrite (repeat_map EOpt). apply allopt_of_F. apply Forall_repeat. apply IH; [lia|exact C].
  - (* ERepMinMax *)
    cbn [all_sub] in C. apply andb_prop in C. destruct C as [Cm C]. cbn [depth] in D.
    cbn [count_ok] in Cm. pose proof Cm as Cle. apply Nat.leb_le in Cle.
    rewrite unroll_repmm. cbn [ochk]. rewrite Cm.
    rewrite app_length, !repeat_length. replace (m + (n - m)) with n by lia.
    rewrite Nat.eqb_refl. cbn [andb].
    rewrite (firstn_len_app m), (skipn_len_app m) by apply repeat_length.
    rewrite (alln_of_F (ochk g g' f toff) e (repeat (unroll_bu e) m)).
    + cbn [andb]. rewrite (repeat_map EOpt). apply allopt_of_F. apply Forall_repeat. apply IH; [lia|exact C].
    + apply Forall_repeat. apply IH; [lia|exact C].
  - (* EAnd *)
    cbn [all_sub] in C. apply andb_prop in C. destruct C as [_ C]. cbn [depth] in D.
    change (unroll_bu (EAnd e)) with (EAnd (unroll_bu e)). cbn [ochk]. apply IH; [lia|exact C].
  - (* ENot *)
    cbn [all_sub] in C. apply andb_prop in C. destruct C as [_ C]. cbn [depth] in D.
    change (unroll_bu (ENot e)) with (ENot (unroll_bu e)). cbn [ochk]. apply IH; [lia|exact C].
  - (* EGrp *)
    cbn [all_sub] in C. apply andb_prop in C. destruct C as [_ C]. cbn [depth] in D.
    change (unroll_bu (EGrp e tag)) with (EGrp (unroll_bu e) tag). cbn [ochk].
    rewrite optN_eqb_refl. cbn [andb]. apply IH; [lia|exact C].
  - (* EPush *)
    cbn [all_sub] in C. apply andb_prop in C. destruct C as [_ C]. cbn [depth] in D.
    change (unroll_bu (EPush e)) with (EPush (unroll_bu e)). cbn [ochk]. apply IH; [lia|exact C].
  - exact (ochk_refl (S f) toff _ D).
  - exact (ochk_refl (S f) toff _ D).
  - exact (ochk_refl (S f) toff _ D).
  - exact (ochk_refl (S f) toff _ D).
  - exact (ochk_refl (S f) toff _ D).
  - exact (ochk_refl (S f) toff _ D).
  - exact (ochk_refl (S f) toff _ D).
  - exact (ochk_refl (S f) toff _ D).
Qed.

End Expr.

(* ---------- rule tables ---------- *)
Lemma defined_in_map (h : rule -> rule) : (forall r, r_name (h r) = r_name r) ->
  forall g n, defined_in (map h g) n = defined_in g n.
Proof.
  intros Hn g n. unfold defined_in. induction g as [|r g IH]; cbn [map lookup]; [reflexivity|].
  rewrite Hn. destruct (N.eqb (r_name r) n); [reflexivity|exact IH].
Qed.

Lemma memN_In x : forall l, In x l -> memN x l = true.
Proof.
  induction l as [|y l IH]; intros H; [destruct H|]. cbn [memN]. destruct H as [->|H].
  - rewrite N.eqb_refl. reflexivity.
  - rewrite (IH H). apply orb_true_r.
Qed.

Lemma lookup_nodup : forall g r, names_nodup g = true -> In r g -> lookup g (r_name r) = Some r.
Proof.
  induction g as [|r0 g IH]; intros r ND H; [destruct H|].
  unfold names_nodup in ND. cbn [map nodupN] in ND. apply andb_prop in ND. destruct ND as [N1 N2].
  cbn [lookup]. destruct H as [->|H].
  - rewrite N.eqb_refl. reflexivity.
  - destruct (N.eqb (r_name r0) (r_name r)) eqn:E.
    + apply N.eqb_eq in E. rewrite E in N1.
      rewrite (memN_In (r_name r) (map r_name g) (in_map r_name g r H)) in N1. discriminate.
    + apply IH; assumption.
Qed.

Lemma gdepth_In : forall g r, In r g -> depth (r_body r) <= gdepth g.
Proof.
  induction g as [|r0 g IH]; intros r H; [destruct H|]. cbn [gdepth fold_right].
  destruct H as [->|H]; [lia|]. specialize (IH r H). unfold gdepth in IH. lia.
Qed.

Section Step.
Variable bi : N -> bool.
Variable fn : expr -> expr.          (* the node function of a POSTORDER step that ignores the table *)
Variable ok : expr -> bool.          (* side condition on rule bodies *)
Hypothesis Hfn : forall g g', (forall n, defined_in g' n = defined_in g n) ->
  forall f toff e, depth e <= f -> ok e = true -> ochk g g' f toff e (map_bu fn e) = true.

Lemma step_bu_name r : r_name (if bi (r_name r) then r else set_body r (map_bu fn (r_body r))) = r_name r.
Proof. destruct (bi (r_name r)); reflexivity. Qed.

Theorem step_bu_validated g : names_nodup g = true -> defined_in g SKIP_ID = false ->
  forallb (fun r => ok (r_body r)) g = true ->
  ochk_grammar g (step_bu bi fn g) (gdepth g) = true.
Proof.
  intros ND NS OK. unfold ochk_grammar, step_bu.
  set (h := fun r => if bi (r_name r) then r else set_body r (map_bu fn (r_body r))).
  assert (Hd : forall n, defined_in (map h g) n = defined_in g n)
    by (apply defined_in_map; intros r; apply step_bu_name).
  rewrite NS. cbn [negb]. rewrite andb_true_r. apply andb_true_intro. split.
  - apply forallb_forall. intros r' Hr'. apply in_map_iff in Hr'. destruct Hr' as [r [<- Hr]].
    assert (Nm : r_name (h r) = r_name r) by apply step_bu_name.
    apply orb_true_intro. right. unfold ochk_rule. rewrite Nm, (lookup_nodup g r ND Hr).
    pose proof (gdepth_In g r Hr) as Dp.
    rewrite forallb_forall in OK. specialize (OK r Hr).
    unfold h. destruct (bi (r_name r)).
    + rewrite Bool.eqb_reflx, kind_eqb_refl. cbn [andb]. apply ochk_refl; assumption.
    + cbn [set_body r_silent r_kind r_body]. rewrite Bool.eqb_reflx, kind_eqb_refl. cbn [andb].
      apply Hfn; assumption.
  - apply forallb_forall. intros r Hr. rewrite Hd. unfold defined_in.
    rewrite (lookup_nodup g r ND Hr). reflexivity.
Qed.
End Step.

(* ---------- the unroll pass ---------- *)
Theorem pass_unroll_validated bi g : names_nodup g = true -> defined_in g SKIP_ID = false ->
  all_grammar count_ok g = true ->
  ochk_grammar g (pass_unroll bi g) (gdepth g) = true.
Proof.
  intros ND NS C. unfold pass_unroll.
  apply (step_bu_validated bi unroll1 (all_sub count_ok)); [|assumption|assumption|exact C].
  intros g0 g0' Hd f toff e D K. exact (ochk_unroll g0 g0' Hd f toff e D K).
Qed.

(* hence: the table the unroll pass (as modelled, tied exactly to unroller.py) produces parses like the original,
   for every grammar, start rule, input and start position *)
Theorem pass_unroll_sound bi g : names_nodup g = true -> defined_in g SKIP_ID = false ->
  all_grammar count_ok g = true ->
  forall rule input k, defined_in g rule = true ->
    (forall f r, parse g f rule input k = r -> r <> Fuel ->
       exists f', req (parse (pass_unroll bi g) f' rule input k) r) /\
    (forall f r, parse (pass_unroll bi g) f rule input k = r -> r <> Fuel ->
       exists f', req (parse g f' rule input k) r).
Proof.
  intros ND NS C. apply (ochk_sound g (pass_unroll bi g) (gdepth g)).
  apply pass_unroll_validated; assumption.
Qed.

(* repeating the pass changes nothing more: its image contains no operator it rewrites *)
Definition no_rep (e : expr) : bool :=
  match e with EPlus _ | ERepN _ _ | ERepMin _ _ | ERepMax _ _ | ERepMinMax _ _ _ => false | _ => true end.
