(* Base.v — texts, prefixes, small list utilities shared by all models.
   Python `str` is modelled as a list of code points (N); positions are N. *)
From Coq Require Import List NArith ZArith Bool Lia.
Import ListNotations.

Notation cp := N (only parsing).
Notation text := (list N) (only parsing).

(* `rest.startswith(lit)`: returns the remainder after `lit` when `lit` is a prefix. *)
Fixpoint strip_prefix (lit rest : text) : option text :=
  match lit with
  | [] => Some rest
  | c :: lit' =>
      match rest with
      | [] => None
      | d :: rest' => if N.eqb c d then strip_prefix lit' rest' else None
      end
  end.

Definition lenN {A} (l : list A) : N := N.of_nat (length l).

(* ASCII-only case folding, as pest's `match_insensitive` (eq_ignore_ascii_case). *)
Definition ascii_lower (c : cp) : cp :=
  if (N.leb 65 c && N.leb c 90)%bool then (c + 32)%N else c.

Fixpoint strip_prefix_ci (lit rest : text) : option text :=
  match lit with
  | [] => Some rest
  | c :: lit' =>
      match rest with
      | [] => None
      | d :: rest' =>
          if N.eqb (ascii_lower c) (ascii_lower d) then strip_prefix_ci lit' rest' else None
      end
  end.

Fixpoint in_ranges (c : cp) (rs : list (N * N)) : bool :=
  match rs with
  | [] => false
  | (lo, hi) :: rs' => (N.leb lo c && N.leb c hi) || in_ranges c rs'
  end.

Fixpoint memN (x : N) (l : list N) : bool :=
  match l with [] => false | y :: l' => N.eqb x y || memN x l' end.

Definition addN (x : N) (l : list N) : list N := if memN x l then l else l ++ [x].

(* Python slice semantics `l[a:b]` for optional, possibly negative bounds. *)
Definition norm_index (len : Z) (i : Z) : Z :=
  if (i <? 0)%Z then Z.max 0 (len + i) else Z.min len i.

Definition py_slice {A} (l : list A) (a b : option Z) : list A :=
  let len := Z.of_nat (length l) in
  let lo := match a with None => 0%Z | Some i => norm_index len i end in
  let hi := match b with None => len | Some i => norm_index len i end in
  if (lo <? hi)%Z then firstn (Z.to_nat (hi - lo)) (skipn (Z.to_nat lo) l) else [].

Fixpoint find_sub_from (sub rest : text) (acc : N) {struct rest} : option N :=
  (* earliest offset (relative, added to acc) at which sub occurs in rest *)
  match strip_prefix sub rest with
  | Some _ => Some acc
  | None => match rest with [] => None | _ :: r => find_sub_from sub r (acc + 1)%N end
  end.

Definition find_sub (sub rest : text) : option N := find_sub_from sub rest 0%N.

Lemma strip_prefix_app : forall lit rest r, strip_prefix lit rest = Some r -> rest = lit ++ r.
Proof.
  induction lit as [|c lit IH]; intros rest r H; cbn in *.
  - congruence.
  - destruct rest as [|d rest']; [discriminate|].
    destruct (N.eqb_spec c d) as [->|]; [|discriminate].
    f_equal. apply IH. exact H.
Qed.

Lemma strip_prefix_app_iff : forall lit r, strip_prefix lit (lit ++ r) = Some r.
Proof.
  induction lit as [|c lit IH]; intros r; cbn; [reflexivity|].
  rewrite N.eqb_refl. apply IH.
Qed.

Lemma strip_prefix_ci_length : forall lit rest r,
  strip_prefix_ci lit rest = Some r -> length rest = length lit + length r.
Proof.
  induction lit as [|c lit IH]; intros rest r H; cbn in *.
  - congruence.
  - destruct rest as [|d rest']; [discriminate|].
    destruct (N.eqb _ _); [|discriminate].
    cbn. f_equal. apply IH. exact H.
Qed.

Lemma strip_prefix_ci_suffix : forall lit rest r,
  strip_prefix_ci lit rest = Some r -> r = skipn (length lit) rest.
Proof.
  induction lit as [|c lit IH]; intros rest r H; cbn in *.
  - congruence.
  - destruct rest as [|d rest']; [discriminate|].
    destruct (N.eqb _ _); [|discriminate].
    apply IH. exact H.
Qed.
