From Coq Require Import List NArith ZArith Bool Arith Lia.
Import ListNotations.
From PP Require Import Base Syntax Spec SpecMono SpecLaws Interp.

(* InterpProof.v — the interpreter model (Interp.v) refines the reference semantics (Spec.v). *)

(* ------------------------------------------------------------------------------------ *)
(* induction principle for the nested type of pairs *)
Section PairInd.
Variable P : pair -> Prop.
Hypothesis HP : forall n s e kids tag, Forall P kids -> P (Pair n s e kids tag).
Fixpoint pair_ind2 (p : pair) : P p :=
  match p with
  | Pair n s e kids tag =>
      HP n s e kids tag
        ((fix go (l : list pair) : Forall P l :=
            match l with
            | [] => Forall_nil P
            | k :: l' => Forall_cons k (pair_ind2 k) (go l')
            end) kids)
  end.
End PairInd.

Lemma lookup_name : forall gr n r, lookup gr n = Some r -> r_name r = n.
Proof.
  induction gr as [|r0 gr IH]; intros n r H; cbn in H; [discriminate|].
  destruct (N.eqb_spec (r_name r0) n) as [E|E]; [inversion H; subst; reflexivity|apply IH; exact H].
Qed.

Section R.
Variable g : grammar.

Definition abs_st (s : ist) : st :=
  {| s_pos := i_pos s; s_rest := i_rest s; s_stk := i_user s; s_tags := i_tags s; s_trk := i_trk s |}.

(* ------------------------------------------------------------------------------------ *)
(* vis algebra *)

Lemma vis_pair_eq n s e kids tag :
  vis_pair g (Pair n s e kids tag) = if keeps g n then [Pair n s e kids tag] else vis g kids.
Proof.
  cbn [vis_pair]. destruct (keeps g n); [reflexivity|].
  induction kids as [|k ks IH]; [reflexivity|]. cbn [vis]. rewrite IH. reflexivity.
Qed.

Lemma vis_app a b : vis g (a ++ b) = vis g a ++ vis g b.
Proof.
  induction a as [|p a IH]; [reflexivity|]. cbn [vis app]. rewrite IH. apply app_assoc.
Qed.

Lemma vis_single n s e kids tag :
  vis g [Pair n s e kids tag] = if keeps g n then [Pair n s e kids tag] else vis g kids.
Proof. cbn [vis]. rewrite app_nil_r. apply vis_pair_eq. Qed.

Lemma vis_pair_idem : forall p, vis g (vis_pair g p) = vis_pair g p.
Proof.
  apply pair_ind2. intros n s e kids tag HK. rewrite vis_pair_eq.
  destruct (keeps g n) eqn:K.
  - rewrite vis_single, K. reflexivity.
  - induction HK as [|k ks Hk _ IH]; [reflexivity|].
    cbn [vis]. rewrite vis_app, Hk, IH. reflexivity.
Qed.

Lemma vis_idem : forall ps, vis g (vis g ps) = vis g ps.
Proof.
  induction ps as [|p ps IH]; [reflexivity|]. cbn [vis]. rewrite vis_app, vis_pair_idem, IH. reflexivity.
Qed.

Lemma keeps_lookup n r : lookup g n = Some r ->
  keeps g n = match r_kind r with KCompound | KNonAtomic => true | _ => false end.
Proof. intros H. unfold keeps. rewrite H. reflexivity. Qed.

(* what the reference semantics shows of the interpreter's pairs in context c *)
Definition hide (c : ctx) (ps : list pair) : list pair :=
  match c_atom c with Atomic => vis g ps | _ => ps end.

Lemma hide_app c a b : hide c (a ++ b) = hide c a ++ hide c b.
Proof. unfold hide. destruct (c_atom c); try reflexivity. apply vis_app. Qed.
Lemma hide_nil c : hide c [] = [].
Proof. unfold hide. destruct (c_atom c); reflexivity. Qed.
Lemma hide_id c ps : c_atom c <> Atomic -> hide c ps = ps.
Proof. unfold hide. destruct (c_atom c); congruence. Qed.

(* ------------------------------------------------------------------------------------ *)
(* frame condition and context correspondence *)

Definition frame (s s' : ist) : Prop :=
  i_saved s' = i_saved s /\ i_dcps s' = i_dcps s /\ i_rules s' = i_rules s /\
  i_depth s' = i_depth s /\ i_neg s' = i_neg s /\ i_sup s' = i_sup s.

Lemma frame_refl s : frame s s.
Proof. repeat split. Qed.
Lemma frame_trans a b c : frame a b -> frame b c -> frame a c.
Proof.
  intros [A1 [A2 [A3 [A4 [A5 A6]]]]] [B1 [B2 [B3 [B4 [B5 B6]]]]].
  repeat split; congruence.
Qed.

Definition cxb (c : ctx) (s : ist) : Prop := c_neg c = i_neg s /\ c_sup c = i_sup s.
Definition cxa (c : ctx) (s : ist) : Prop := c_atom c = NonAtomic <-> i_depth s = 0.
Definition cxr (c : ctx) (s : ist) : Prop := hd_error (i_rules s) = Some (c_rule c).
Definition cx (c : ctx) (s : ist) : Prop := cxb c s /\ cxa c s /\ cxr c s.

Lemma cx_frame c s s' : frame s s' -> cx c s -> cx c s'.
Proof.
  intros [A1 [A2 [A3 [A4 [A5 A6]]]]] [[B1 B2] [B3 B4]].
  unfold cx, cxb, cxa, cxr. rewrite A3, A4, A5, A6. repeat split; try assumption; apply B3.
Qed.
Lemma cxb_frame c s s' : frame s s' -> cxb c s -> cxb c s'.
Proof.
  intros [A1 [A2 [A3 [A4 [A5 A6]]]]] [B1 B2]. unfold cxb. rewrite A5, A6. split; assumption.
Qed.

(* ------------------------------------------------------------------------------------ *)
(* failure recording *)

Lemma ifail_some c s force n : cxb c s ->
  ifail s force (Some n) = Some (upd_trk s (record c force n (abs_st s))).
Proof.
  intros [A B]. unfold ifail, record. rewrite A, B. destruct s; cbn.
  destruct (_ || _); reflexivity.
Qed.

Lemma ifail_none c s force : cxr c s -> ifail s force None = ifail s force (Some (c_rule c)).
Proof. intros H. unfold ifail. red in H. rewrite H. reflexivity. Qed.

Lemma fail_here_eq c s : cx c s ->
  fail_here s = IOk false (upd_trk s (record c false (c_rule c) (abs_st s))) [].
Proof.
  intros [A [_ B]]. unfold fail_here. rewrite (ifail_none c s false B), (ifail_some c s false _ A).
  reflexivity.
Qed.

(* ------------------------------------------------------------------------------------ *)
(* checkpoint algebra *)

Lemma iok_eq s1 x sv : i_saved s1 = x :: sv ->
  iok s1 = Some {| i_pos := i_pos s1; i_rest := i_rest s1; i_user := i_user s1; i_rules := i_rules s1;
                   i_depth := i_depth s1; i_dcps := tl (i_dcps s1); i_tags := i_tags s1; i_saved := sv;
                   i_neg := i_neg s1; i_sup := i_sup s1; i_trk := i_trk s1 |}.
Proof. intros H. unfold iok. rewrite H. reflexivity. Qed.

Lemma irestore_eq s1 p r u rl tg sv d ds :
  i_saved s1 = (p, r, u, rl, tg) :: sv -> i_dcps s1 = d :: ds ->
  irestore s1 = Some {| i_pos := p; i_rest := r; i_user := u; i_rules := rl;
                        i_depth := d; i_dcps := ds; i_tags := tg; i_saved := sv;
                        i_neg := i_neg s1; i_sup := i_sup s1; i_trk := i_trk s1 |}.
Proof. intros H1 H2. unfold irestore. rewrite H1, H2. reflexivity. Qed.

(* after a finished call started on a checkpointed state *)
Lemma iok_ck s0 s s1 : i_saved s0 = i_saved (icheckpoint s) -> i_dcps s0 = i_dcps (icheckpoint s) ->
  i_rules s0 = i_rules s -> i_depth s0 = i_depth s -> i_sup s0 = i_sup s ->
  frame s0 s1 ->
  exists s2, iok s1 = Some s2 /\ abs_st s2 = abs_st s1 /\
    i_saved s2 = i_saved s /\ i_dcps s2 = i_dcps s /\ i_rules s2 = i_rules s /\
    i_depth s2 = i_depth s /\ i_neg s2 = i_neg s0 /\ i_sup s2 = i_sup s.
Proof.
  intros E1 E2 E3 E4 E5 [A1 [A2 [A3 [A4 [A5 A6]]]]]. cbn in E1, E2.
  rewrite E1 in A1. rewrite E2 in A2.
  eexists. split; [eapply iok_eq; exact A1|]. cbn. rewrite A2. cbn.
  repeat split; congruence.
Qed.

Lemma irestore_ck s0 s s1 : i_saved s0 = i_saved (icheckpoint s) -> i_dcps s0 = i_dcps (icheckpoint s) ->
  i_sup s0 = i_sup s ->
  frame s0 s1 ->
  exists s2, irestore s1 = Some s2 /\ abs_st s2 = set_trk (abs_st s) (i_trk s1) /\ i_trk s2 = i_trk s1 /\
    i_saved s2 = i_saved s /\ i_dcps s2 = i_dcps s /\ i_rules s2 = i_rules s /\
    i_depth s2 = i_depth s /\ i_neg s2 = i_neg s0 /\ i_sup s2 = i_sup s.
Proof.
  intros E1 E2 E5 [A1 [A2 [A3 [A4 [A5 A6]]]]]. cbn in E1, E2.
  rewrite E1 in A1. rewrite E2 in A2.
  eexists. split; [eapply irestore_eq; [exact A1|exact A2]|]. cbn.
  repeat split; congruence.
Qed.

(* ------------------------------------------------------------------------------------ *)
(* introduction rules for the fuel-independent big-step relation of the reference semantics *)

Notation R := (runs g).

Definition skips (c : ctx) (s : st) (r : res) : Prop :=
  exists f, skip_with g (fun c' e' => run g f c' (TEval e')) c s = r /\ r <> Fuel.

Lemma skip_mono' f f' c s r :
  skip_with g (fun c' e' => run g f c' (TEval e')) c s = r -> r <> Fuel -> f <= f' ->
  skip_with g (fun c' e' => run g f' c' (TEval e')) c s = r.
Proof. intros H D L. eapply skip_mono; eauto. apply mono_all. Qed.

Lemma nofuel c t s : ~ R c t s Fuel.
Proof. intros [f [_ D]]. congruence. Qed.
Lemma nofuel_sk c s : ~ skips c s Fuel.
Proof. intros [f [_ D]]. congruence. Qed.

(* one recursive call *)
Lemma r_wrap1 c t s c1 t1 s1 (K : res -> res) :
  (forall f, run g (S f) c t s = K (run g f c1 t1 s1)) ->
  (forall r, r <> Fuel -> K r <> Fuel) ->
  forall r1, R c1 t1 s1 r1 -> R c t s (K r1).
Proof.
  intros E HK r1 [f [H D]]. exists (S f). rewrite E, H. split; [reflexivity|apply HK; exact D].
Qed.

Lemma r_same c t s t1 : (forall f, run g (S f) c t s = run g f c t1 s) ->
  forall r, R c t1 s r -> R c t s r.
Proof. intros E r H. apply (runs_step g c t t1 s r E). exact H. Qed.

Lemma r_seq c es s r : R c (TSeq es) s r -> R c (TEval (ESeq es)) s r.
Proof. apply r_same. reflexivity. Qed.
Lemma r_alt c es s r : R c (TAlt es) s r -> R c (TEval (EAlt es)) s r.
Proof. apply r_same. reflexivity. Qed.
Lemma r_plus c e s r : R c (TSeq [e; EStar e]) s r -> R c (TEval (EPlus e)) s r.
Proof. apply r_same. reflexivity. Qed.
Lemma r_repn c e n s r : R c (TSeq (repeat e n)) s r -> R c (TEval (ERepN e n)) s r.
Proof. apply r_same. reflexivity. Qed.
Lemma r_repmin c e n s r : R c (TSeq (repeat e n ++ [EStar e])) s r -> R c (TEval (ERepMin e n)) s r.
Proof. apply r_same. reflexivity. Qed.
Lemma r_repmax c e n s r : R c (TSeq (repeat (EOpt e) n)) s r -> R c (TEval (ERepMax e n)) s r.
Proof. apply r_same. reflexivity. Qed.
Lemma r_repminmax c e m n s r :
  R c (TSeq (repeat e m ++ repeat (EOpt e) (n - m))) s r -> R c (TEval (ERepMinMax e m n)) s r.
Proof. apply r_same. reflexivity. Qed.

Lemma r_opt c e s r1 : R c (TEval e) s r1 ->
  R c (TEval (EOpt e)) s (match r1 with Fail t => Ok (set_trk s t) [] | x => x end).
Proof.
  apply (r_wrap1 c (TEval (EOpt e)) s c (TEval e) s
           (fun x => match x with Fail t => Ok (set_trk s t) [] | x => x end)).
  - intros f. cbn [run]. destruct (run g f _ _ _); reflexivity.
  - intros r D. destruct r; congruence.
Qed.

Lemma r_and c e s r1 : R c (TEval e) s r1 ->
  R c (TEval (EAnd e)) s (match r1 with Ok s1 _ => Ok (set_trk s (s_trk s1)) [] | x => x end).
Proof.
  apply (r_wrap1 c (TEval (EAnd e)) s c (TEval e) s
           (fun x => match x with Ok s1 _ => Ok (set_trk s (s_trk s1)) [] | x => x end)).
  - intros f. cbn [run]. destruct (run g f _ _ _); reflexivity.
  - intros r D. destruct r; congruence.
Qed.

Lemma r_not c e s r1 : R (neg_ctx c) (TEval e) s r1 ->
  R c (TEval (ENot e)) s
    (match r1 with
     | Ok s1 _ => Fail (record (neg_ctx c) true (match e with ERef n _ => n | _ => c_rule c end)
                          (set_trk s (s_trk s1)))
     | Fail t => Ok (set_trk s t) []
     | x => x end).
Proof.
  apply (r_wrap1 c (TEval (ENot e)) s (neg_ctx c) (TEval e) s
           (fun x => match x with
     | Ok s1 _ => Fail (record (neg_ctx c) true (match e with ERef n _ => n | _ => c_rule c end)
                          (set_trk s (s_trk s1)))
     | Fail t => Ok (set_trk s t) []
     | x => x end)).
  - intros f. cbn [run]. destruct (run g f _ _ _); reflexivity.
  - intros r D. destruct r; congruence.
Qed.

Lemma r_grp c e tag s r1 : R c (TEval e) (push_tag tag s) r1 ->
  R c (TEval (EGrp e tag)) s (match r1 with Ok s1 ps => Ok (pop_tag tag s1) ps | x => x end).
Proof.
  apply (r_wrap1 c (TEval (EGrp e tag)) s c (TEval e) (push_tag tag s)
           (fun x => match x with Ok s1 ps => Ok (pop_tag tag s1) ps | x => x end)).
  - intros f. cbn [run]. destruct (run g f _ _ _); reflexivity.
  - intros r D. destruct r; congruence.
Qed.

Lemma r_push c e s r1 : R c (TEval e) s r1 ->
  R c (TEval (EPush e)) s
    (match r1 with
     | Ok s1 ps => Ok (set_stk s1 (firstn (N.to_nat (s_pos s1 - s_pos s)) (s_rest s) :: s_stk s1)) ps
     | x => x end).
Proof.
  apply (r_wrap1 c (TEval (EPush e)) s c (TEval e) s
           (fun x => match x with
     | Ok s1 ps => Ok (set_stk s1 (firstn (N.to_nat (s_pos s1 - s_pos s)) (s_rest s) :: s_stk s1)) ps
     | x => x end)).
  - intros f. cbn [run]. destruct (run g f _ _ _); reflexivity.
  - intros r D. destruct r; congruence.
Qed.

Lemma r_ref c n tag s r r1 : lookup g n = Some r ->
  R (rule_ctx c r) (TEval (r_body r)) (push_tag tag s) r1 ->
  R c (TEval (ERef n tag)) s
    (match r1 with
     | Ok s1 kids => let '(s2, ps) := finish_rule c r (s_pos s) s1 kids in Ok (pop_tag tag s2) ps
     | x => x end).
Proof.
  intros L.
  apply (r_wrap1 c (TEval (ERef n tag)) s (rule_ctx c r) (TEval (r_body r)) (push_tag tag s)
           (fun x => match x with
     | Ok s1 kids => let '(s2, ps) := finish_rule c r (s_pos s) s1 kids in Ok (pop_tag tag s2) ps
     | x => x end)).
  - intros f. cbn [run]. rewrite L. destruct (run g f _ _ _); reflexivity.
  - intros r0 D. destruct r0; try congruence. destruct (finish_rule _ _ _ _ _). discriminate.
Qed.

Lemma r_ref_undef c n tag s : lookup g n = None -> R c (TEval (ERef n tag)) s Err.
Proof. intros L. exists 1. cbn [run]. rewrite L. split; [reflexivity|discriminate]. Qed.

Lemma pos_push_tag tag s : s_pos (push_tag tag s) = s_pos s.
Proof. destruct tag; reflexivity. Qed.

Lemma r_ref_tag c n tag s r1 : R c (TEval (ERef n None)) (push_tag tag s) r1 ->
  R c (TEval (ERef n tag)) s (match r1 with Ok s2 ps => Ok (pop_tag tag s2) ps | x => x end).
Proof.
  intros [f [H D]]. destruct f as [|f]; [cbn in H; congruence|].
  exists (S f). cbn [run] in *. destruct (lookup g n) as [r|]; [|subst r1; split; [reflexivity|discriminate]].
  cbn [push_tag] in H. rewrite pos_push_tag in H.
  destruct (run g f (rule_ctx c r) (TEval (r_body r)) (push_tag tag s)) as [s1 kids|t| |];
    try (subst r1; split; [reflexivity|congruence]).
  destruct (finish_rule c r (s_pos s) s1 kids) as [s2 ps]. cbn [pop_tag] in H. subst r1.
  split; [reflexivity|discriminate].
Qed.

(* common fuel *)
Lemma fuel2 c1 t1 s1 r1 c2 t2 s2 r2 : R c1 t1 s1 r1 -> R c2 t2 s2 r2 ->
  exists f, run g f c1 t1 s1 = r1 /\ run g f c2 t2 s2 = r2.
Proof.
  intros [f1 [H1 D1]] [f2 [H2 D2]]. exists (max f1 f2). split.
  - eapply run_mono; [exact H1|exact D1|apply Nat.le_max_l].
  - eapply run_mono; [exact H2|exact D2|apply Nat.le_max_r].
Qed.

Lemma fuel_sk c1 t1 s1 r1 c2 s2 r2 : R c1 t1 s1 r1 -> skips c2 s2 r2 ->
  exists f, run g f c1 t1 s1 = r1 /\ skip_with g (fun c' e' => run g f c' (TEval e')) c2 s2 = r2.
Proof.
  intros [f1 [H1 D1]] [f2 [H2 D2]]. exists (max f1 f2). split.
  - eapply run_mono; [exact H1|exact D1|apply Nat.le_max_l].
  - eapply skip_mono'; [exact H2|exact D2|apply Nat.le_max_r].
Qed.

Lemma fuel3 c1 t1 s1 r1 c2 s2 r2 c3 t3 s3 r3 : R c1 t1 s1 r1 -> skips c2 s2 r2 -> R c3 t3 s3 r3 ->
  exists f, run g f c1 t1 s1 = r1 /\ skip_with g (fun c' e' => run g f c' (TEval e')) c2 s2 = r2 /\
            run g f c3 t3 s3 = r3.
Proof.
  intros A B [f3 [H3 D3]]. destruct (fuel_sk _ _ _ _ _ _ _ A B) as [f [H1 H2]].
  destruct A as [_ [_ D1]]. destruct B as [_ [_ D2]].
  exists (max f f3). split; [|split].
  - eapply run_mono; [exact H1|exact D1|apply Nat.le_max_l].
  - eapply skip_mono'; [exact H2|exact D2|apply Nat.le_max_l].
  - eapply run_mono; [exact H3|exact D3|apply Nat.le_max_r].
Qed.

Definition notok (r : res) : Prop := match r with Ok _ _ => False | Fuel => False | _ => True end.

(* EStar *)
Lemma r_estar_ok c e s s1 p1 r : R c (TEval e) s (Ok s1 p1) -> R c (TStar e) s1 r ->
  R c (TEval (EStar e)) s (match r with Ok s2 p2 => Ok s2 (p1 ++ p2) | x => x end).
Proof.
  intros A B. destruct (fuel2 _ _ _ _ _ _ _ _ A B) as [f [H1 H2]]. destruct B as [_ [_ D]].
  exists (S f). cbn [run]. rewrite H1, H2. split; [destruct r; reflexivity|destruct r; congruence].
Qed.
Lemma r_estar_fail c e s t : R c (TEval e) s (Fail t) -> R c (TEval (EStar e)) s (Ok (set_trk s t) []).
Proof. intros [f [H D]]. exists (S f). cbn [run]. rewrite H. split; [reflexivity|discriminate]. Qed.
Lemma r_estar_err c e s : R c (TEval e) s Err -> R c (TEval (EStar e)) s Err.
Proof. intros [f [H D]]. exists (S f). cbn [run]. rewrite H. split; [reflexivity|discriminate]. Qed.

(* TSeq *)
Lemma r_tseq_nil c s : R c (TSeq []) s (Ok s []).
Proof. exists 1. split; [reflexivity|discriminate]. Qed.
Lemma r_tseq_one c e s r : R c (TEval e) s r -> R c (TSeq [e]) s r.
Proof.
  intros [f [H D]]. exists (S f). cbn [run]. rewrite H. split; [destruct r; reflexivity|exact D].
Qed.
Lemma r_tseq_bad c e es s r : R c (TEval e) s r -> notok r -> R c (TSeq (e :: es)) s r.
Proof.
  intros [f [H D]] N. exists (S f). cbn [run]. rewrite H. split; [|exact D].
  destruct r; try reflexivity; contradiction.
Qed.
Lemma r_tseq_skipbad c e1 e2 es s s1 p1 r : R c (TEval e1) s (Ok s1 p1) -> skips c s1 r -> notok r ->
  R c (TSeq (e1 :: e2 :: es)) s r.
Proof.
  intros A B N. destruct (fuel_sk _ _ _ _ _ _ _ A B) as [f [H1 H2]]. destruct B as [_ [_ D]].
  exists (S f). cbn [run]. rewrite H1, H2. split; [|exact D].
  destruct r; try reflexivity; contradiction.
Qed.
Lemma r_tseq_ok c e1 e2 es s s1 p1 s2 pw r :
  R c (TEval e1) s (Ok s1 p1) -> skips c s1 (Ok s2 pw) -> R c (TSeq (e2 :: es)) s2 r ->
  R c (TSeq (e1 :: e2 :: es)) s (match r with Ok s3 p3 => Ok s3 (p1 ++ pw ++ p3) | x => x end).
Proof.
  intros A B C. destruct (fuel3 _ _ _ _ _ _ _ _ _ _ _ A B C) as [f [H1 [H2 H3]]].
  destruct C as [_ [_ D]].
  exists (S f). cbn [run]. rewrite H1, H2, H3. split; [destruct r; reflexivity|destruct r; congruence].
Qed.

(* TAlt *)
Lemma r_talt_nil c s : R c (TAlt []) s (Fail (s_trk s)).
Proof. exists 1. split; [reflexivity|discriminate]. Qed.
Lemma r_talt_fail c e es s t r : R c (TEval e) s (Fail t) -> R c (TAlt es) (set_trk s t) r ->
  R c (TAlt (e :: es)) s r.
Proof.
  intros A B. destruct (fuel2 _ _ _ _ _ _ _ _ A B) as [f [H1 H2]]. destruct B as [_ [_ D]].
  exists (S f). cbn [run]. rewrite H1, H2. split; [reflexivity|exact D].
Qed.
Lemma r_talt_other c e es s r : R c (TEval e) s r -> (forall t, r <> Fail t) -> R c (TAlt (e :: es)) s r.
Proof.
  intros [f [H D]] N. exists (S f). cbn [run]. rewrite H. split; [|exact D].
  destruct r; try reflexivity. exfalso. eapply N. reflexivity.
Qed.

(* TStar *)
Lemma r_tstar_skipbad c e s r : skips c s r -> notok r -> R c (TStar e) s r.
Proof.
  intros [f [H D]] N. exists (S f). cbn [run]. rewrite H. split; [|exact D].
  destruct r; try reflexivity; contradiction.
Qed.
Lemma r_tstar_fail c e s s2 pw t : skips c s (Ok s2 pw) -> R c (TEval e) s2 (Fail t) ->
  R c (TStar e) s (Ok (set_trk s t) []).
Proof.
  intros B A. destruct (fuel_sk _ _ _ _ _ _ _ A B) as [f [H1 H2]].
  exists (S f). cbn [run]. rewrite H2, H1. split; [reflexivity|discriminate].
Qed.
Lemma r_tstar_err c e s s2 pw : skips c s (Ok s2 pw) -> R c (TEval e) s2 Err -> R c (TStar e) s Err.
Proof.
  intros B A. destruct (fuel_sk _ _ _ _ _ _ _ A B) as [f [H1 H2]].
  exists (S f). cbn [run]. rewrite H2, H1. split; [reflexivity|discriminate].
Qed.
Lemma r_tstar_ok c e s s2 pw s3 p3 r : skips c s (Ok s2 pw) -> R c (TEval e) s2 (Ok s3 p3) ->
  R c (TStar e) s3 r ->
  R c (TStar e) s (match r with Ok s4 p4 => Ok s4 (pw ++ p3 ++ p4) | x => x end).
Proof.
  intros B A C. destruct (fuel3 _ _ _ _ _ _ _ _ _ _ _ A B C) as [f [H1 [H2 H3]]].
  destruct C as [_ [_ D]].
  exists (S f). cbn [run]. rewrite H2, H1, H3. split; [destruct r; reflexivity|destruct r; congruence].
Qed.

(* skip *)
Lemma skips_id c s : c_atom c <> NonAtomic -> skips c s (Ok s []).
Proof. intros H. exists 0. rewrite atomic_no_trivia by exact H. split; [reflexivity|discriminate]. Qed.
Lemma skips_none c s : skip_expr g = None -> skips c s (Ok s []).
Proof.
  intros H. exists 0. unfold skip_with. rewrite H. split; [destruct (c_atom c); reflexivity|discriminate].
Qed.
Lemma skips_some c s e r : c_atom c = NonAtomic -> skip_expr g = Some e ->
  R (skip_ctx c) (TEval e) s r -> skips c s r.
Proof.
  intros A E [f [H D]]. exists f. unfold skip_with. rewrite A, E. split; assumption.
Qed.
Lemma skips_hide c s s2 pw : skips c s (Ok s2 pw) -> hide c pw = pw.
Proof.
  intros [f [H _]]. unfold hide. destruct (c_atom c) eqn:A; try reflexivity.
  rewrite atomic_no_trivia in H by congruence. inversion H. reflexivity.
Qed.

(* loops in a context without implicit trivia *)
Lemma r_star_same c e s r : c_atom c <> NonAtomic ->
  (R c (TEval (EStar e)) s r <-> R c (TStar e) s r).
Proof.
  intros NA.
  assert (E : forall f, run g (S f) c (TEval (EStar e)) s = run g (S f) c (TStar e) s).
  { intros f. cbn [run]. rewrite atomic_no_trivia by exact NA.
    destruct (run g f c (TEval e) s); reflexivity. }
  split; intros [f [H D]]; (destruct f as [|f]; [cbn in H; congruence|]); exists (S f).
  - rewrite <- E. split; assumption.
  - rewrite E. split; assumption.
Qed.

(* ------------------------------------------------------------------------------------ *)
(* expressions that cannot produce pairs when evaluated at a positive atomic depth:
   every rule they (transitively, up to k levels) mention is silent and does not zero the depth *)

Fixpoint pfe (rec : N -> bool) (e : expr) : bool :=
  match e with
  | ERef n _ => rec n
  | ESeq es | EAlt es =>
      (fix all (l : list expr) : bool := match l with [] => true | x :: l' => pfe rec x && all l' end) es
  | EOpt e1 | EStar e1 | EPlus e1 | ERepN e1 _ | ERepMin e1 _ | ERepMax e1 _ | ERepMinMax e1 _ _
  | EAnd e1 | ENot e1 | EGrp e1 _ | EPush e1 => pfe rec e1
  | _ => true
  end.

Definition nonzero (r : rule) : bool := match depth_mode r with DZero => false | _ => true end.

Fixpoint pfr (k : nat) (n : N) : bool :=
  match k with
  | O => false
  | S k' =>
      match lookup g n with
      | Some r => r_silent r && nonzero r && pfe (pfr k') (r_body r)
      | None => true
      end
  end.

Lemma pfe_list rec es :
  (fix all (l : list expr) : bool := match l with [] => true | x :: l' => pfe rec x && all l' end) es
  = forallb (pfe rec) es.
Proof. induction es as [|e es IH]; [reflexivity|]. cbn [forallb]. rewrite IH. reflexivity. Qed.

Lemma forallb_repeat {A} (p : A -> bool) x n : p x = true -> forallb p (repeat x n) = true.
Proof. intros H. induction n as [|n IH]; [reflexivity|]. cbn. rewrite H. exact IH. Qed.

Definition pft (k : nat) (t : itask) : bool :=
  match t with
  | IEval e => pfe (pfr k) e
  | ISeq es | IAlt es => forallb (pfe (pfr k)) es
  | IStar e _ => pfe (pfr k) e
  | ITrivia => true
  | IRule r => r_silent r && nonzero r && pfe (pfr k) (r_body r)
  | _ => false
  end.

Definition keep3 (s s' : ist) : Prop :=
  i_depth s' = i_depth s /\ i_dcps s' = i_dcps s /\ i_saved s' = i_saved s.

Lemma ifail_keep s b n s' : ifail s b n = Some s' -> keep3 s s'.
Proof.
  unfold ifail. destruct (_ || _); [intros H; inversion H; subst; repeat split|].
  destruct (match n with Some n0 => Some n0 | None => hd_error (i_rules s) end); [|discriminate].
  intros H; inversion H; subst. repeat split.
Qed.

Lemma fail_here_keep s m s' ps : fail_here s = IOk m s' ps -> ps = [] /\ keep3 s s'.
Proof.
  unfold fail_here. destruct (ifail s false None) eqn:E; [|discriminate].
  intros H; inversion H; subst. split; [reflexivity|]. eapply ifail_keep. exact E.
Qed.

Lemma keep3_refl s : keep3 s s.
Proof. repeat split. Qed.

Lemma iok_keep s s1 : keep3 (icheckpoint s) s1 -> exists s2, iok s1 = Some s2 /\ keep3 s s2.
Proof.
  intros [A [B C]]. cbn in A, B, C. eexists. split; [eapply iok_eq; exact C|].
  unfold keep3. cbn. rewrite B. cbn. repeat split. exact A.
Qed.
Lemma irestore_keep s s1 : keep3 (icheckpoint s) s1 -> exists s2, irestore s1 = Some s2 /\ keep3 s s2.
Proof.
  intros [A [B C]]. cbn in A, B, C. eexists. split; [eapply irestore_eq; [exact C|exact B]|].
  repeat split.
Qed.

Ltac inv_ok H := inversion H; subst; clear H.

Lemma nopairs : forall f k t s m s' ps,
  irun g f t s = IOk m s' ps -> pft k t = true -> 0 < i_depth s -> ps = [] /\ keep3 s s'.
Proof.
  induction f as [|f IH]; intros k t s m s' ps H P D; [discriminate|].
  destruct t as [e|es|es|e first| | | |n|r]; try discriminate P.
  - (* IEval *)
    destruct e; cbn [irun] in H; cbn [pft pfe] in P;
      try (eapply (IH k (ISeq _)); [exact H| |exact D]; cbn [pft forallb];
           try rewrite P; try rewrite forallb_app; repeat rewrite forallb_repeat by (cbn [pfe]; exact P);
           cbn [forallb pfe]; try rewrite P; reflexivity);
      try (repeat match type of H with
             | context [match ?x with _ => _ end] => destruct x
             | context [if ?x then _ else _] => destruct x
           end;
           first [ eapply fail_here_keep; exact H
                 | inv_ok H; split; [reflexivity|repeat split] ]; fail).
    + (* ERef *)
      destruct k as [|k]; [cbn in P; discriminate P|]. cbn [pfr] in P.
      destruct (lookup g n) as [r|]; [|discriminate].
      destruct (irun g f (IRule r) _) as [m1 s1 ps1| | |] eqn:E1; try discriminate.
      inv_ok H. eapply (IH k) in E1; [|exact P|destruct tag; exact D].
      destruct E1 as [A B]. split; [exact A|]. destruct tag; exact B.
    + (* ESeq *) eapply (IH k (ISeq es)); [exact H| |exact D]. cbn [pft]. rewrite <- pfe_list. exact P.
    + (* EAlt *) eapply (IH k (IAlt es)); [exact H| |exact D]. cbn [pft]. rewrite <- pfe_list. exact P.
    + (* EOpt *)
      destruct (irun g f (IEval e) (icheckpoint s)) as [m1 s1 ps1| | |] eqn:E1; try discriminate.
      eapply (IH k) in E1; [|exact P|exact D]. destruct E1 as [A B].
      destruct m1.
      * destruct (iok_keep _ _ B) as [s2 [E2 K2]]. rewrite E2 in H. inv_ok H. split; [reflexivity|exact K2].
      * destruct (irestore_keep _ _ B) as [s2 [E2 K2]]. rewrite E2 in H. inv_ok H. split; [reflexivity|exact K2].
    + (* EStar *) eapply (IH k (IStar e true)); [exact H|exact P|exact D].
    + (* EAnd *)
      destruct (irun g f (IEval e) (icheckpoint s)) as [m1 s1 ps1| | |] eqn:E1; try discriminate.
      eapply (IH k) in E1; [|exact P|exact D]. destruct E1 as [A B].
      destruct (irestore_keep _ _ B) as [s2 [E2 K2]]. rewrite E2 in H. inv_ok H. split; [reflexivity|exact K2].
    + (* ENot *)
      destruct (irun g f (IEval e) _) as [m1 s1 ps1| | |] eqn:E1; try discriminate.
      eapply (IH k) in E1; [|exact P|exact D]. destruct E1 as [A B].
      destruct (irestore_keep s s1 B) as [s2 [E2 K2]]. rewrite E2 in H.
      destruct m1.
      * destruct (ifail s2 true _) as [s3|] eqn:E3; [|discriminate]. inv_ok H.
        apply ifail_keep in E3. split; [reflexivity|].
        destruct E3 as [X1 [X2 X3]], K2 as [Y1 [Y2 Y3]]. repeat split; cbn; congruence.
      * inv_ok H. split; [reflexivity|exact K2].
    + (* EGrp *)
      destruct (irun g f (IEval e) _) as [m1 s1 ps1| | |] eqn:E1; try discriminate.
      inv_ok H. eapply (IH k) in E1; [|exact P|destruct tag; exact D].
      destruct E1 as [A B]. split; [exact A|]. destruct tag; exact B.
    + (* EPush *)
      destruct (irun g f (IEval e) s) as [m1 s1 ps1| | |] eqn:E1; try discriminate.
      eapply (IH k) in E1; [|exact P|exact D]. destruct E1 as [A B].
      subst ps1. destruct m1; inv_ok H; (split; [reflexivity|exact B]).
  - (* ISeq *)
    cbn [irun] in H. destruct es as [|e1 es']; [inv_ok H; split; [reflexivity|apply keep3_refl]|].
    cbn [pft forallb] in P. apply andb_prop in P. destruct P as [P1 P2].
    destruct (irun g f (IEval e1) s) as [m1 s1 p1| | |] eqn:E1; try discriminate.
    eapply (IH k) in E1; [|exact P1|exact D]. destruct E1 as [A1 B1]. subst p1.
    destruct m1; [|inv_ok H; split; [reflexivity|exact B1]].
    destruct es' as [|e2 es'']; [inv_ok H; split; [reflexivity|exact B1]|].
    assert (D1 : 0 < i_depth s1) by (destruct B1 as [X _]; rewrite X; exact D).
    destruct (irun g f ITrivia s1) as [m2 s2 pw| | |] eqn:E2; try discriminate.
    eapply (IH k) in E2; [|reflexivity|exact D1]. destruct E2 as [A2 B2]. subst pw.
    assert (D2 : 0 < i_depth s2) by (destruct B2 as [X _]; rewrite X; exact D1).
    destruct (irun g f (ISeq (e2 :: es'')) s2) as [m3 s3 p3| | |] eqn:E3; try discriminate.
    eapply (IH k) in E3; [|exact P2|exact D2]. destruct E3 as [A3 B3]. subst p3.
    assert (K : keep3 s s3).
    { destruct B1 as [X1 [X2 X3]], B2 as [Y1 [Y2 Y3]], B3 as [Z1 [Z2 Z3]]. repeat split; congruence. }
    destruct m3; inv_ok H; (split; [reflexivity|exact K]).
  - (* IAlt *)
    cbn [irun] in H. destruct es as [|e1 es']; [inv_ok H; split; [reflexivity|apply keep3_refl]|].
    cbn [pft forallb] in P. apply andb_prop in P. destruct P as [P1 P2].
    destruct (irun g f (IEval e1) (icheckpoint s)) as [m1 s1 p1| | |] eqn:E1; try discriminate.
    eapply (IH k) in E1; [|exact P1|exact D]. destruct E1 as [A1 B1]. subst p1.
    destruct m1.
    + destruct (iok_keep _ _ B1) as [s2 [E2 K2]]. rewrite E2 in H. inv_ok H. split; [reflexivity|exact K2].
    + destruct (irestore_keep _ _ B1) as [s2 [E2 K2]]. rewrite E2 in H.
      eapply (IH k) in H; [|exact P2|destruct K2 as [X _]; rewrite X; exact D].
      destruct H as [A3 B3]. split; [exact A3|].
      destruct K2 as [Y1 [Y2 Y3]], B3 as [Z1 [Z2 Z3]]. repeat split; congruence.
  - (* IStar *)
    cbn [irun] in H. cbn [pft] in P.
    assert (T : exists m1 s1 pw, (if first then IOk false (icheckpoint s) [] else irun g f ITrivia (icheckpoint s))
                 = IOk m1 s1 pw /\ pw = [] /\ keep3 (icheckpoint s) s1).
    { destruct first.
      - eexists _, _, _. split; [reflexivity|]. split; [reflexivity|apply keep3_refl].
      - destruct (irun g f ITrivia (icheckpoint s)) as [m1 s1 pw| | |] eqn:E0; try discriminate.
        eapply (IH k) in E0; [|reflexivity|exact D]. eexists _, _, _. split; [reflexivity|exact E0]. }
    destruct T as [m1 [s1 [pw [E0 [A0 B0]]]]]. rewrite E0 in H. subst pw.
    assert (D1 : 0 < i_depth s1) by (destruct B0 as [X _]; rewrite X; exact D).
    destruct (irun g f (IEval e) s1) as [m2 s2 p2| | |] eqn:E2; try discriminate.
    eapply (IH k) in E2; [|exact P|exact D1]. destruct E2 as [A2 B2]. subst p2.
    assert (K2 : keep3 (icheckpoint s) s2).
    { destruct B0 as [X1 [X2 X3]], B2 as [Y1 [Y2 Y3]]. repeat split; congruence. }
    destruct m2.
    + destruct (iok_keep _ _ K2) as [s3 [E3 K3]]. rewrite E3 in H.
      destruct (irun g f (IStar e false) s3) as [m4 s4 p4| | |] eqn:E4; try discriminate.
      eapply (IH k) in E4; [|exact P|destruct K3 as [X _]; rewrite X; exact D].
      destruct E4 as [A4 B4]. subst p4. inv_ok H. split; [reflexivity|].
      destruct K3 as [Y1 [Y2 Y3]], B4 as [Z1 [Z2 Z3]]. repeat split; congruence.
    + destruct (irestore_keep _ _ K2) as [s3 [E3 K3]]. rewrite E3 in H. inv_ok H.
      split; [reflexivity|exact K3].
  - (* ITrivia *)
    cbn [irun] in H. destruct (Nat.ltb_spec 0 (i_depth s)) as [L|L]; [|lia].
    inv_ok H. split; [reflexivity|apply keep3_refl].
  - (* IRule *)
    cbn [irun] in H. cbn [pft] in P. apply andb_prop in P. destruct P as [P P3].
    apply andb_prop in P. destruct P as [P1 P2]. unfold nonzero in P2.
    destruct (depth_mode r) eqn:DM; try discriminate P2.
    + (* DInc *)
      destruct (irun g f (IEval (r_body r)) _) as [m3 s3 kids| | |] eqn:E3; try discriminate.
      eapply (IH k) in E3; [|exact P3|cbn; lia]. destruct E3 as [A3 [X1 [X2 X3]]]. subst kids.
      cbn in X1, X2, X3. cbn [upd_depth i_rules] in H.
      destruct (i_rules s3) as [|x rl]; [discriminate|]. rewrite P1 in H.
      destruct m3; cbn in H; inv_ok H; (split; [destruct (hides r); reflexivity|]); unfold keep3; cbn;
        rewrite X2; cbn; repeat split; assumption.
    + (* DSame *)
      destruct (irun g f (IEval (r_body r)) _) as [m3 s3 kids| | |] eqn:E3; try discriminate.
      eapply (IH k) in E3; [|exact P3|exact D]. destruct E3 as [A3 [X1 [X2 X3]]]. subst kids.
      cbn in X1, X2, X3.
      destruct (i_rules s3) as [|x rl]; [discriminate|]. rewrite P1 in H.
      destruct m3; cbn in H; inv_ok H; (split; [destruct (hides r); reflexivity|]); unfold keep3; cbn;
        repeat split; assumption.
Qed.

(* ------------------------------------------------------------------------------------ *)
(* two-element sequences in a context without implicit trivia *)

Lemma r_seq2_ok c a b s s1 p1 r2 : c_atom c <> NonAtomic ->
  R c (TEval a) s (Ok s1 p1) -> R c (TEval b) s1 r2 ->
  R c (TEval (ESeq [a; b])) s (match r2 with Ok s3 p3 => Ok s3 (p1 ++ p3) | x => x end).
Proof.
  intros NA A B. apply r_seq.
  assert (T := r_tseq_ok c a b [] s s1 p1 s1 [] r2 A (skips_id c s1 NA) (r_tseq_one c b s1 r2 B)).
  destruct r2; exact T.
Qed.

Lemma r_seq2_bad c a b s r : R c (TEval a) s r -> notok r -> R c (TEval (ESeq [a; b])) s r.
Proof. intros A N. apply r_seq. apply r_tseq_bad; assumption. Qed.

Lemma seq2_inv c a b s r : c_atom c <> NonAtomic -> R c (TEval (ESeq [a; b])) s r ->
  (exists s1 p1 r2, R c (TEval a) s (Ok s1 p1) /\ R c (TEval b) s1 r2 /\
      r = match r2 with Ok s3 p3 => Ok s3 (p1 ++ p3) | x => x end)
  \/ (R c (TEval a) s r /\ notok r).
Proof.
  intros NA [f [H D]].
  destruct f as [|f]; [cbn in H; congruence|]. cbn [run] in H.
  destruct f as [|f]; [cbn in H; congruence|]. cbn [run] in H.
  destruct (run g f c (TEval a) s) as [s1 p1|t| |] eqn:E1.
  - left. rewrite atomic_no_trivia in H by exact NA.
    destruct f as [|f]; [discriminate E1|]. cbn [run] in H.
    exists s1, p1, (run g f c (TEval b) s1). split; [exists (S f); split; [exact E1|discriminate]|].
    split.
    + exists f. split; [reflexivity|]. intros E. rewrite E in H. congruence.
    + destruct (run g f c (TEval b) s1); symmetry; exact H.
  - right. subst r. split; [exists f; split; [exact E1|discriminate]|exact I].
  - right. subst r. split; [exists f; split; [exact E1|discriminate]|exact I].
  - congruence.
Qed.

(* ------------------------------------------------------------------------------------ *)
(* the simulation: statement *)

Definition wR : expr := ERef WS_ID None.
Definition cR : expr := ERef CM_ID None.
Definition wS : expr := EStar wR.
Definition xE : expr := ESeq [cR; wS].
Definition loopE : expr := match skip_expr g with Some e => e | None => ESeq [] end.

Definition resE (c : ctx) (ir : ires) : res :=
  match ir with
  | IOk true s' ps => Ok (abs_st s') (hide c ps)
  | IOk false s' _ => Fail (i_trk s')
  | IUndef => Err
  | _ => Fuel
  end.
Definition resT (ir : ires) : res :=
  match ir with IOk _ s' ps => Ok (abs_st s') ps | IUndef => Err | _ => Fuel end.
Definition resL (ir : ires) : res :=
  match ir with IOk true s' ps => Ok (abs_st s') ps | IUndef => Err | _ => Fuel end.

Definition fr (s : ist) (ir : ires) : Prop :=
  match ir with IOk _ s' _ => frame s s' | _ => True end.

Definition pre (c : ctx) (t : itask) (s : ist) : Prop :=
  match t with
  | IEval _ | ISeq _ | IAlt _ | IStar _ _ | ITrivia => cx c s
  | IWsLoop | ITrivLoop => cxb c s /\ c_atom c = Compound
  | ITrivRule n => cxb c s /\ c_atom c = Compound /\ is_trivia_name n = true
  | IRule r => cxb c s /\ lookup g (r_name r) = Some r /\ (depth_mode r = DSame -> cxa c s)
  end.

Definition post (c : ctx) (t : itask) (s : ist) (ir : ires) : Prop :=
  match t with
  | IEval e => R c (TEval e) (abs_st s) (resE c ir)
  | ISeq es => R c (TSeq es) (abs_st s) (resE c ir)
  | IAlt es => R c (TAlt es) (abs_st s) (resE c ir)
  | IStar e true => R c (TEval (EStar e)) (abs_st s) (resE c ir)
  | IStar e false => R c (TStar e) (abs_st s) (resE c ir)
  | ITrivia => skips c (abs_st s) (resT ir)
  | IWsLoop => R c (TStar wR) (abs_st s) (resL ir)
  | ITrivLoop => R c (TEval loopE) (abs_st s) (resL ir)
  | ITrivRule n => R c (TEval (ERef n None)) (abs_st s) (resE c ir) /\
                   (forall s' ps, ir = IOk false s' ps -> abs_st s' = set_trk (abs_st s) (i_trk s'))
  | IRule r => R c (TEval (ERef (r_name r) None)) (abs_st s) (resE c ir)
  end.

(* silent rules: rules that filter their children (`hides`: @ rules, and WHITESPACE / COMMENT
   unless declared $), plain rules (outside the trivia names their body inherits the caller's
   atomicity and the children are passed up as they are), or rules that raise the atomic depth and
   whose body cannot produce pairs at all. What is excluded: a silent $ rule, or a silent ! rule
   that is not WHITESPACE / COMMENT, whose body can produce pairs. *)
Definition silent_ok (r : rule) : Prop :=
  hides r = true \/ r_kind r = KNormal \/
  (depth_mode r = DInc /\ exists k, pfe (pfr k) (r_body r) = true).

Hypothesis Hsil : forall n r, lookup g n = Some r -> r_silent r = true -> silent_ok r.

Lemma skip_expr_none : negb (has_rule g WS_ID) && negb (has_rule g CM_ID) = true -> skip_expr g = None.
Proof.
  unfold skip_expr, has_ws, has_cm, has_rule.
  destruct (lookup g WS_ID), (lookup g CM_ID); cbn; intros H; try discriminate; reflexivity.
Qed.
Lemma skip_expr_some : negb (has_rule g WS_ID) && negb (has_rule g CM_ID) = false ->
  skip_expr g = Some loopE.
Proof.
  unfold loopE, skip_expr, has_ws, has_cm, has_rule.
  destruct (lookup g WS_ID), (lookup g CM_ID); cbn; intros H; try discriminate; reflexivity.
Qed.

Lemma cx_fields c s s2 : i_rules s2 = i_rules s -> i_depth s2 = i_depth s -> i_neg s2 = i_neg s ->
  i_sup s2 = i_sup s -> cx c s -> cx c s2.
Proof.
  intros A B C D [[E1 E2] [E3 E4]]. unfold cx, cxb, cxa, cxr. rewrite A, B, C, D.
  repeat split; try assumption; apply E3.
Qed.

Lemma ifail_name c s e : cxb c s -> cxr c s ->
  ifail s true (match e with ERef n _ => Some n | _ => None end) =
  Some (upd_trk s (record c true (match e with ERef n _ => n | _ => c_rule c end) (abs_st s))).
Proof.
  intros A B. destruct e; first [apply ifail_some; exact A|rewrite (ifail_none c s true B); apply ifail_some; exact A].
Qed.

(* the pair of a non-silent rule, as built by the interpreter and as seen by the reference *)
Lemma pair_match c r start e kids tg : lookup g (r_name r) = Some r ->
  (if visible c r && true then [Pair (r_name r) start e (hide (rule_ctx c r) kids) tg]
   else hide (rule_ctx c r) kids)
  = if r_silent r then hide (rule_ctx c r) kids
    else hide c [Pair (r_name r) start e (if hides r then vis g kids else kids) tg].
Proof.
  intros L. assert (K := keeps_lookup _ _ L).
  unfold visible, hide, rule_ctx, body_atom, hides. cbn [c_atom].
  destruct (r_silent r); [reflexivity|]. cbn [negb andb].
  destruct (c_atom c) eqn:CA; destruct (r_kind r) eqn:RK; destruct (is_trivia_name (r_name r));
    cbn [andb]; try rewrite vis_single, K; try rewrite vis_idem; reflexivity.
Qed.

(* ------------------------------------------------------------------------------------ *)
(* Rule.parse: entering and leaving the body *)

Definition enter (r : rule) (s : ist) : ist :=
  let s1 := upd_rules s (r_name r :: i_rules s) in
  match depth_mode r with
  | DInc => upd_depth s1 (S (i_depth s1)) (i_depth s1 :: i_dcps s1)
  | DZero => upd_depth s1 0 (i_depth s1 :: i_dcps s1)
  | DSame => s1
  end.
Definition leave (r : rule) (s3 : ist) : ist :=
  match depth_mode r with
  | DSame => s3
  | _ => upd_depth s3 (match i_dcps s3 with d :: _ => d | [] => 0 end) (tl (i_dcps s3))
  end.

Lemma irun_rule f r s :
  irun g (S f) (IRule r) s =
  match irun g f (IEval (r_body r)) (enter r s) with
  | IOk m s3 kids =>
      match i_rules (leave r s3) with
      | [] => ICrash
      | _ :: rl =>
          let s5 := upd_rules (leave r s3) rl in
          if negb m then IOk false s5 []
          else if r_silent r then IOk true s5 (if hides r then vis g kids else kids)
          else IOk true (upd_tags s5 (tl (i_tags s5)))
                 [Pair (r_name r) (i_pos s) (i_pos s5) (if hides r then vis g kids else kids)
                    (match i_tags s5 with t0 :: _ => Some t0 | [] => None end)]
      end
  | x => x
  end.
Proof. reflexivity. Qed.

Lemma abs_enter r s : abs_st (enter r s) = abs_st s.
Proof. unfold enter. destruct (depth_mode r); reflexivity. Qed.

Lemma enter_cx c r s : pre c (IRule r) s -> cx (rule_ctx c r) (enter r s).
Proof.
  intros [[A B] [L Hd]]. unfold cx, cxb, cxa, cxr, enter, rule_ctx, body_atom.
  unfold depth_mode in *. cbn [c_neg c_sup c_atom c_rule].
  destruct (r_kind r); destruct (is_trivia_name (r_name r)); cbn;
    (split; [split; assumption|]); (split; [|reflexivity]);
    try (split; intros; discriminate); try (split; reflexivity).
  apply Hd. reflexivity.
Qed.

Lemma enter_depth r s : depth_mode r = DInc -> 0 < i_depth (enter r s).
Proof. intros H. unfold enter. rewrite H. cbn. lia. Qed.

Lemma leave_enter r s s3 : frame (enter r s) s3 ->
  i_rules (leave r s3) = r_name r :: i_rules s /\
  frame s (upd_rules (leave r s3) (i_rules s)) /\
  abs_st (upd_rules (leave r s3) (i_rules s)) = abs_st s3.
Proof.
  unfold enter, leave. destruct (depth_mode r); intros [A1 [A2 [A3 [A4 [A5 A6]]]]]; cbn in *;
    try rewrite A2; cbn; (split; [exact A3|]); (split; [|reflexivity]);
    unfold frame; cbn; try rewrite A2; cbn; repeat split; assumption.
Qed.

(* the children of a silent rule are seen alike from the caller's and from the body's context *)
Lemma silent_hide c r f s m s3 kids : lookup g (r_name r) = Some r -> r_silent r = true ->
  irun g f (IEval (r_body r)) (enter r s) = IOk m s3 kids ->
  hide (rule_ctx c r) kids = hide c (if hides r then vis g kids else kids).
Proof.
  intros L S E. destruct (Hsil _ _ L S) as [Hh|[K|[DM [k PF]]]].
  - unfold hides in *. unfold hide, rule_ctx, body_atom. cbn [c_atom].
    destruct (r_kind r); destruct (is_trivia_name (r_name r)); try discriminate Hh;
      destruct (c_atom c); try rewrite vis_idem; reflexivity.
  - unfold hides, hide, rule_ctx, body_atom. cbn [c_atom]. rewrite K.
    destruct (is_trivia_name (r_name r)); destruct (c_atom c); try rewrite vis_idem; reflexivity.
  - destruct (nopairs f k (IEval (r_body r)) _ _ _ _ E PF (enter_depth r s DM)) as [A _].
    subst kids. destruct (hides r); cbn [vis]; rewrite !hide_nil; reflexivity.
Qed.

Lemma finish_match c r f s m s3 kids : lookup g (r_name r) = Some r ->
  irun g f (IEval (r_body r)) (enter r s) = IOk m s3 kids ->
  frame (enter r s) s3 ->
  let s5 := upd_rules (leave r s3) (i_rules s) in
  (let '(s2, ps) := finish_rule c r (s_pos (abs_st s)) (abs_st s3) (hide (rule_ctx c r) kids) in
   Ok (pop_tag None s2) ps) =
  resE c (if r_silent r then IOk true s5 (if hides r then vis g kids else kids)
          else IOk true (upd_tags s5 (tl (i_tags s5)))
                 [Pair (r_name r) (i_pos s) (i_pos s5) (if hides r then vis g kids else kids)
                    (match i_tags s5 with t0 :: _ => Some t0 | [] => None end)]).
Proof.
  intros L E F s5. destruct (leave_enter r s s3 F) as [_ [_ A]]. fold s5 in A.
  change (s_pos (abs_st s)) with (i_pos s). cbn [pop_tag].
  unfold finish_rule. destruct (r_silent r) eqn:S.
  - cbn [resE]. rewrite A. rewrite (silent_hide c r f s m s3 kids L S E). reflexivity.
  - cbn [resE].
    assert (PM := pair_match c r (i_pos s) (i_pos s5) kids
                    (match i_tags s5 with t0 :: _ => Some t0 | [] => None end) L).
    rewrite S, andb_true_r in PM. rewrite <- PM.
    assert (P5 : i_pos s5 = s_pos (abs_st s3)) by (rewrite <- A; reflexivity).
    assert (T5 : i_tags s5 = s_tags (abs_st s3)) by (rewrite <- A; reflexivity).
    rewrite P5, T5.
    replace (abs_st (upd_tags s5 (tl (s_tags (abs_st s3))))) with (set_tags (abs_st s3) (tl (s_tags (abs_st s3)))).
    + destruct (visible c r); reflexivity.
    + rewrite <- A. reflexivity.
Qed.

(* ------------------------------------------------------------------------------------ *)
(* the simulation: proof *)

Definition sim_at (f : nat) : Prop :=
  forall t s ir c, irun g f t s = ir -> ir <> IFuel -> pre c t s -> fr s ir /\ post c t s ir.

Ltac kill X := first [ exact (nofuel _ _ _ X) | exact (nofuel_sk _ _ X) | exact (nofuel _ _ _ (proj1 X)) ].
Ltac cOk IH E c P F X :=
  destruct (IH _ _ _ c E ltac:(discriminate) P) as [F X]; cbn [fr post resE resT resL] in F, X.
Ltac cCrash IH E c P :=
  let X := fresh "X" in
  exfalso; destruct (IH _ _ _ c E ltac:(discriminate) P) as [_ X]; cbn [post resE resT resL] in X; kill X.
Ltac cUndef IH E c P X :=
  destruct (IH _ _ _ c E ltac:(discriminate) P) as [_ X]; cbn [post resE resT resL] in X.
Ltac cFuel H D := exfalso; apply D; symmetry; exact H.

Lemma t_ok c e s s' : run g 1 c (TEval e) (abs_st s) = Ok (abs_st s') [] -> frame s s' ->
  fr s (IOk true s' []) /\ R c (TEval e) (abs_st s) (resE c (IOk true s' [])).
Proof.
  intros H F. split; [exact F|]. exists 1. cbn [resE]. rewrite hide_nil. split; [exact H|discriminate].
Qed.
Lemma t_fail c e s s' : run g 1 c (TEval e) (abs_st s) = Fail (i_trk s') -> frame s s' ->
  fr s (IOk false s' []) /\ R c (TEval e) (abs_st s) (resE c (IOk false s' [])).
Proof. intros H F. split; [exact F|]. exists 1. cbn [resE]. split; [exact H|discriminate]. Qed.

Ltac tOk := apply t_ok; [cbn [run abs_st s_rest s_stk s_pos s_trk]|repeat split].
Ltac tFail := apply t_fail; [cbn [run abs_st s_rest s_stk s_pos s_trk]|repeat split].

Lemma frame_of s s2 : i_saved s2 = i_saved s /\ i_dcps s2 = i_dcps s /\ i_rules s2 = i_rules s /\
    i_depth s2 = i_depth s /\ i_neg s2 = i_neg s /\ i_sup s2 = i_sup s -> frame s s2.
Proof. intros H. exact H. Qed.

Lemma fr_trans s s2 ir : frame s s2 -> fr s2 ir -> fr s ir.
Proof. intros A B. destruct ir; cbn [fr] in *; try exact I. eapply frame_trans; eassumption. Qed.

Lemma sim_all : forall f, sim_at f.
Proof.
  induction f as [|f IH]; intros t s ir c H D P.
  { cbn in H. congruence. }
  destruct t as [e|es|es|e first| | | |n|r].
  - (* ---------------- IEval ---------------- *)
    cbn [pre] in P. cbn [post].
    destruct e; cbn [irun] in H.
    + (* EStr *)
      destruct (strip_prefix s0 (i_rest s)) eqn:E.
      * subst ir. tOk. rewrite E. reflexivity.
      * rewrite (fail_here_eq c s P) in H. subst ir. tFail. rewrite E. reflexivity.
    + (* ECIStr *)
      destruct (strip_prefix_ci s0 (i_rest s)) eqn:E.
      * subst ir. tOk. rewrite E. reflexivity.
      * rewrite (fail_here_eq c s P) in H. subst ir. tFail. rewrite E. reflexivity.
    + (* ERange *)
      destruct (i_rest s) as [|d r] eqn:E.
      * rewrite (fail_here_eq c s P) in H. subst ir. tFail. rewrite E. reflexivity.
      * destruct (N.leb lo d && N.leb d hi) eqn:E2.
        -- subst ir. tOk. rewrite E, E2. reflexivity.
        -- rewrite (fail_here_eq c s P) in H. subst ir. tFail. rewrite E, E2. reflexivity.
    + (* EAny *)
      destruct (i_rest s) as [|d r] eqn:E; subst ir.
      * tFail. rewrite E. reflexivity.
      * tOk. rewrite E. reflexivity.
    + (* ESoi *)
      destruct (N.eqb (i_pos s) 0) eqn:E; subst ir.
      * tOk. rewrite E. reflexivity.
      * tFail. rewrite E. reflexivity.
    + (* EEoi *)
      destruct (i_rest s) as [|d r] eqn:E; subst ir.
      * tOk. rewrite E. reflexivity.
      * tFail. rewrite E. reflexivity.
    + (* ECls *)
      destruct (i_rest s) as [|d r] eqn:E.
      * subst ir. tFail. rewrite E. reflexivity.
      * destruct (in_ranges d rs) eqn:E2; subst ir.
        -- tOk. rewrite E, E2. reflexivity.
        -- tFail. rewrite E, E2. reflexivity.
    + (* ERef *)
      destruct (lookup g n) as [r|] eqn:L.
      2:{ subst ir. split; [exact I|]. cbn [resE]. apply r_ref_undef. exact L. }
      assert (NM := lookup_name _ _ _ L).
      assert (P1 : forall s0, cxb c s0 -> i_depth s0 = i_depth s -> pre c (IRule r) s0).
      { intros s0 B E0. split; [exact B|]. split; [rewrite NM; exact L|].
        intros _. destruct P as [_ [A _]]. unfold cxa in *. rewrite E0. exact A. }
      destruct tag as [tg|].
      * assert (P0 := P1 (upd_tags s (tg :: i_tags s)) (proj1 P) eq_refl).
        destruct (irun g f (IRule r) (upd_tags s (tg :: i_tags s))) as [m1 s1 ps1| | |] eqn:E1;
          [ cOk IH E1 c P0 F1 X1 | cCrash IH E1 c P0 | cUndef IH E1 c P0 X1 | cFuel H D ];
          rewrite NM in X1; apply (r_ref_tag c n (Some tg) (abs_st s)) in X1; subst ir.
        -- split; [exact F1|]. destruct m1; exact X1.
        -- split; [exact I|]. exact X1.
      * assert (P0 := P1 s (proj1 P) eq_refl).
        destruct (irun g f (IRule r) s) as [m1 s1 ps1| | |] eqn:E1;
          [ cOk IH E1 c P0 F1 X1 | cCrash IH E1 c P0 | cUndef IH E1 c P0 X1 | cFuel H D ];
          rewrite NM in X1; subst ir.
        -- split; [exact F1|]. destruct m1; exact X1.
        -- split; [exact I|]. exact X1.
    + (* ESeq *) destruct (IH (ISeq es) s ir c H D P) as [F X]. split; [exact F|]. apply r_seq. exact X.
    + (* EAlt *) destruct (IH (IAlt es) s ir c H D P) as [F X]. split; [exact F|]. apply r_alt. exact X.
    + (* EOpt *)
      destruct (irun g f (IEval e) (icheckpoint s)) as [m1 s1 ps1| | |] eqn:E1;
        [ cOk IH E1 c P F1 X1 | cCrash IH E1 c P | cUndef IH E1 c P X1 | cFuel H D ];
        apply (r_opt c e (abs_st s)) in X1.
      * destruct m1.
        -- destruct (iok_ck (icheckpoint s) s s1 eq_refl eq_refl eq_refl eq_refl eq_refl F1)
             as [s2 [E2 [A2 G]]].
           rewrite E2 in H. subst ir. split; [exact G|]. cbn [resE]. rewrite A2. exact X1.
        -- destruct (irestore_ck (icheckpoint s) s s1 eq_refl eq_refl eq_refl F1)
             as [s2 [E2 [A2 [T2 G]]]].
           rewrite E2 in H. subst ir. split; [exact G|]. cbn [resE]. rewrite hide_nil, A2. exact X1.
      * subst ir. split; [exact I|]. exact X1.
    + (* EStar *) exact (IH (IStar e true) s ir c H D P).
    + (* EPlus *) destruct (IH (ISeq _) s ir c H D P) as [F X]. split; [exact F|]. apply r_plus. exact X.
    + (* ERepN *) destruct (IH (ISeq _) s ir c H D P) as [F X]. split; [exact F|]. apply r_repn. exact X.
    + (* ERepMin *) destruct (IH (ISeq _) s ir c H D P) as [F X]. split; [exact F|]. apply r_repmin. exact X.
    + (* ERepMax *) destruct (IH (ISeq _) s ir c H D P) as [F X]. split; [exact F|]. apply r_repmax. exact X.
    + (* ERepMinMax *)
      destruct (IH (ISeq _) s ir c H D P) as [F X]. split; [exact F|]. apply r_repminmax. exact X.
    + (* EAnd *)
      destruct (irun g f (IEval e) (icheckpoint s)) as [m1 s1 ps1| | |] eqn:E1;
        [ cOk IH E1 c P F1 X1 | cCrash IH E1 c P | cUndef IH E1 c P X1 | cFuel H D ];
        apply (r_and c e (abs_st s)) in X1.
      * destruct (irestore_ck (icheckpoint s) s s1 eq_refl eq_refl eq_refl F1)
          as [s2 [E2 [A2 [T2 G]]]].
        rewrite E2 in H. subst ir. split; [exact G|].
        destruct m1; cbn [resE].
        -- rewrite hide_nil, A2. exact X1.
        -- rewrite T2. exact X1.
      * subst ir. split; [exact I|]. exact X1.
    + (* ENot *)
      assert (P0 : cx (neg_ctx c) (upd_neg (icheckpoint s) (S (i_neg s)))).
      { destruct P as [[A B] [C Dr]]. split; [split; cbn; congruence|]. split; [exact C|exact Dr]. }
      destruct (irun g f (IEval e) (upd_neg (icheckpoint s) (S (i_neg s)))) as [m1 s1 ps1| | |] eqn:E1;
        [ cOk IH E1 (neg_ctx c) P0 F1 X1 | cCrash IH E1 (neg_ctx c) P0
        | cUndef IH E1 (neg_ctx c) P0 X1 | cFuel H D ];
        apply (r_not c e (abs_st s)) in X1.
      * destruct (irestore_ck (upd_neg (icheckpoint s) (S (i_neg s))) s s1 eq_refl eq_refl eq_refl F1)
          as [s2 [E2 [A2 [T2 [G1 [G2 [G3 [G4 [G5 G6]]]]]]]]].
        cbn [i_neg upd_neg] in G5. rewrite E2 in H.
        destruct m1.
        -- assert (B2 : cxb (neg_ctx c) s2).
           { destruct P as [[A B] _]. split; cbn; congruence. }
           assert (R2 : cxr (neg_ctx c) s2).
           { destruct P as [_ [_ Dr]]. unfold cxr in *. rewrite G3. exact Dr. }
           rewrite (ifail_name (neg_ctx c) s2 e B2 R2) in H. subst ir.
           split.
           ++ repeat split; cbn; try assumption. rewrite G5. reflexivity.
           ++ cbn [resE]. cbn [i_trk upd_neg upd_trk]. rewrite A2. exact X1.
        -- subst ir. split.
           ++ repeat split; cbn; try assumption. rewrite G5. reflexivity.
           ++ cbn [resE]. rewrite hide_nil.
              change (abs_st (upd_neg s2 (Init.Nat.pred (i_neg s2)))) with (abs_st s2).
              rewrite A2. exact X1.
      * subst ir. split; [exact I|]. exact X1.
    + (* EGrp *)
      destruct tag as [tg|].
      * destruct (irun g f (IEval e) (upd_tags s (tg :: i_tags s))) as [m1 s1 ps1| | |] eqn:E1;
          [ cOk IH E1 c P F1 X1 | cCrash IH E1 c P | cUndef IH E1 c P X1 | cFuel H D ];
          apply (r_grp c e (Some tg) (abs_st s)) in X1; subst ir.
        -- split; [exact F1|]. destruct m1; exact X1.
        -- split; [exact I|]. exact X1.
      * destruct (irun g f (IEval e) s) as [m1 s1 ps1| | |] eqn:E1;
          [ cOk IH E1 c P F1 X1 | cCrash IH E1 c P | cUndef IH E1 c P X1 | cFuel H D ];
          apply (r_grp c e None (abs_st s)) in X1; subst ir.
        -- split; [exact F1|]. destruct m1; exact X1.
        -- split; [exact I|]. exact X1.
    + (* EPush *)
      destruct (irun g f (IEval e) s) as [m1 s1 ps1| | |] eqn:E1;
        [ cOk IH E1 c P F1 X1 | cCrash IH E1 c P | cUndef IH E1 c P X1 | cFuel H D ];
        apply (r_push c e (abs_st s)) in X1.
      * destruct m1; subst ir; (split; [exact F1|exact X1]).
      * subst ir. split; [exact I|]. exact X1.
    + (* EPushLit *) subst ir. tOk. reflexivity.
    + (* EPeek *)
      destruct (i_user s) as [|w k] eqn:E.
      * subst ir. tFail. rewrite E. reflexivity.
      * destruct (strip_prefix w (i_rest s)) eqn:E2.
        -- subst ir. tOk. rewrite E, E2. reflexivity.
        -- rewrite (fail_here_eq c s P) in H. subst ir. tFail. rewrite E, E2. reflexivity.
    + (* EPeekSl *)
      destruct (match_all (py_slice (rev (i_user s)) a b) (i_rest s) 0) as [[r n]|] eqn:E.
      * subst ir. tOk. rewrite E. reflexivity.
      * rewrite (fail_here_eq c s P) in H. subst ir. tFail. rewrite E. reflexivity.
    + (* EPeekAll *)
      destruct (match_all (i_user s) (i_rest s) 0) as [[r n]|] eqn:E.
      * subst ir. tOk. rewrite E. reflexivity.
      * rewrite (fail_here_eq c s P) in H. subst ir. tFail. rewrite E. reflexivity.
    + (* EPop *)
      destruct (i_user s) as [|w k] eqn:E.
      * subst ir. tFail. rewrite E. reflexivity.
      * destruct (strip_prefix w (i_rest s)) eqn:E2.
        -- subst ir. tOk. rewrite E, E2. reflexivity.
        -- rewrite (fail_here_eq c s P) in H. subst ir. tFail. rewrite E, E2. reflexivity.
    + (* EPopAll *)
      destruct (match_all (i_user s) (i_rest s) 0) as [[r n]|] eqn:E.
      * subst ir. tOk. rewrite E. reflexivity.
      * rewrite (fail_here_eq c s P) in H. subst ir. tFail. rewrite E. reflexivity.
    + (* EDrop *)
      destruct (i_user s) as [|w k] eqn:E.
      * rewrite (fail_here_eq c s P) in H. subst ir. tFail. rewrite E. reflexivity.
      * subst ir. tOk. rewrite E. reflexivity.
    + (* ESkipUntil *) subst ir. tOk. reflexivity.
  - (* ---------------- ISeq ---------------- *)
    cbn [pre] in P. cbn [post]. cbn [irun] in H.
    destruct es as [|e1 es'].
    { subst ir. split; [apply frame_refl|]. cbn [resE]. rewrite hide_nil. apply r_tseq_nil. }
    destruct (irun g f (IEval e1) s) as [m1 s1 p1| | |] eqn:E1;
      [ cOk IH E1 c P F1 X1 | cCrash IH E1 c P | cUndef IH E1 c P X1 | cFuel H D ].
    2:{ subst ir. split; [exact I|]. apply r_tseq_bad; [exact X1|exact I]. }
    destruct m1.
    2:{ subst ir. split; [exact F1|]. apply r_tseq_bad; [exact X1|exact I]. }
    destruct es' as [|e2 es''].
    { subst ir. split; [exact F1|]. apply r_tseq_one. exact X1. }
    assert (P1 := cx_frame c s s1 F1 P).
    destruct (irun g f ITrivia s1) as [m2 s2 pw| | |] eqn:E2;
      [ cOk IH E2 c P1 F2 X2 | cCrash IH E2 c P1 | cUndef IH E2 c P1 X2 | cFuel H D ].
    2:{ subst ir. split; [exact I|]. eapply r_tseq_skipbad; [exact X1|exact X2|exact I]. }
    assert (P2 := cx_frame c s1 s2 F2 P1).
    destruct (irun g f (ISeq (e2 :: es'')) s2) as [m3 s3 p3| | |] eqn:E3;
      [ cOk IH E3 c P2 F3 X3 | cCrash IH E3 c P2 | cUndef IH E3 c P2 X3 | cFuel H D ];
      assert (X := r_tseq_ok c e1 e2 es'' _ _ _ _ _ _ X1 X2 X3).
    + assert (F : frame s s3) by (eapply frame_trans; [exact F1|eapply frame_trans; eassumption]).
      destruct m3; subst ir; (split; [exact F|]); cbn [resE].
      * rewrite !hide_app, (skips_hide _ _ _ _ X2). exact X.
      * exact X.
    + subst ir. split; [exact I|]. exact X.
  - (* ---------------- IAlt ---------------- *)
    cbn [pre] in P. cbn [post]. cbn [irun] in H.
    destruct es as [|e1 es'].
    { subst ir. split; [apply frame_refl|]. cbn [resE]. apply r_talt_nil. }
    destruct (irun g f (IEval e1) (icheckpoint s)) as [m1 s1 p1| | |] eqn:E1;
      [ cOk IH E1 c P F1 X1 | cCrash IH E1 c P | cUndef IH E1 c P X1 | cFuel H D ].
    2:{ subst ir. split; [exact I|]. apply r_talt_other; [exact X1|intros t; discriminate]. }
    change (abs_st (icheckpoint s)) with (abs_st s) in X1.
    destruct m1.
    + destruct (iok_ck (icheckpoint s) s s1 eq_refl eq_refl eq_refl eq_refl eq_refl F1)
        as [s2 [E2 [A2 G]]].
      rewrite E2 in H. subst ir. split; [exact G|]. cbn [resE]. rewrite A2.
      apply r_talt_other; [exact X1|intros t; discriminate].
    + destruct (irestore_ck (icheckpoint s) s s1 eq_refl eq_refl eq_refl F1)
        as [s2 [E2 [A2 [T2 G]]]].
      rewrite E2 in H.
      assert (P2 : cx c s2) by (eapply cx_frame; [exact G|exact P]).
      destruct (IH (IAlt es') s2 ir c H D P2) as [F3 X3]. cbn [post] in X3.
      split; [eapply fr_trans; [exact G|exact F3]|].
      rewrite A2 in X3. eapply r_talt_fail; [exact X1|exact X3].
  - (* ---------------- IStar ---------------- *)
    cbn [pre] in P. cbn [irun] in H.
    destruct first.
    + (* first iteration: EStar *)
      cbn [post].
      destruct (irun g f (IEval e) (icheckpoint s)) as [m2 s2 p2| | |] eqn:E2;
        [ cOk IH E2 c P F2 X2 | cCrash IH E2 c P | cUndef IH E2 c P X2 | cFuel H D ];
        change (abs_st (icheckpoint s)) with (abs_st s) in X2.
      2:{ subst ir. split; [exact I|]. apply r_estar_err. exact X2. }
      destruct m2.
      * destruct (iok_ck (icheckpoint s) s s2 eq_refl eq_refl eq_refl eq_refl eq_refl F2)
          as [s3 [E3 [A3 G]]].
        rewrite E3 in H.
        assert (P3 : cx c s3) by (eapply cx_frame; [exact G|exact P]).
        destruct (irun g f (IStar e false) s3) as [m4 s4 p4| | |] eqn:E4;
          [ cOk IH E4 c P3 F4 X4 | cCrash IH E4 c P3 | cUndef IH E4 c P3 X4 | cFuel H D ];
          rewrite A3 in X4; assert (X := r_estar_ok c e _ _ _ _ X2 X4).
        -- assert (F : frame s s4) by (eapply frame_trans; [exact G|exact F4]).
           destruct m4; subst ir; (split; [exact F|]); cbn [resE app].
           ++ rewrite hide_app. exact X.
           ++ exact X.
        -- subst ir. split; [exact I|]. exact X.
      * destruct (irestore_ck (icheckpoint s) s s2 eq_refl eq_refl eq_refl F2)
          as [s3 [E3 [A3 [T3 G]]]].
        rewrite E3 in H. subst ir. split; [exact G|]. cbn [resE]. rewrite hide_nil, A3.
        apply r_estar_fail. exact X2.
    + (* later iterations: TStar *)
      cbn [post].
      destruct (irun g f ITrivia (icheckpoint s)) as [m1 s1 pw| | |] eqn:E1;
        [ cOk IH E1 c P F1 X1 | cCrash IH E1 c P | cUndef IH E1 c P X1 | cFuel H D ];
        change (abs_st (icheckpoint s)) with (abs_st s) in X1.
      2:{ subst ir. split; [exact I|]. apply r_tstar_skipbad; [exact X1|exact I]. }
      assert (P1 : cx c s1) by (eapply cx_frame; [exact F1|exact P]).
      destruct (irun g f (IEval e) s1) as [m2 s2 p2| | |] eqn:E2;
        [ cOk IH E2 c P1 F2 X2 | cCrash IH E2 c P1 | cUndef IH E2 c P1 X2 | cFuel H D ].
      2:{ subst ir. split; [exact I|]. eapply r_tstar_err; [exact X1|exact X2]. }
      assert (F12 : frame (icheckpoint s) s2) by (eapply frame_trans; eassumption).
      destruct m2.
      * destruct (iok_ck (icheckpoint s) s s2 eq_refl eq_refl eq_refl eq_refl eq_refl F12)
          as [s3 [E3 [A3 G]]].
        rewrite E3 in H.
        assert (P3 : cx c s3) by (eapply cx_frame; [exact G|exact P]).
        destruct (irun g f (IStar e false) s3) as [m4 s4 p4| | |] eqn:E4;
          [ cOk IH E4 c P3 F4 X4 | cCrash IH E4 c P3 | cUndef IH E4 c P3 X4 | cFuel H D ];
          rewrite A3 in X4; assert (X := r_tstar_ok c e _ _ _ _ _ _ X1 X2 X4).
        -- assert (F : frame s s4) by (eapply frame_trans; [exact G|exact F4]).
           destruct m4; subst ir; (split; [exact F|]); cbn [resE].
           ++ rewrite !hide_app, (skips_hide _ _ _ _ X1). exact X.
           ++ exact X.
        -- subst ir. split; [exact I|]. exact X.
      * destruct (irestore_ck (icheckpoint s) s s2 eq_refl eq_refl eq_refl F12)
          as [s3 [E3 [A3 [T3 G]]]].
        rewrite E3 in H. subst ir. split; [exact G|]. cbn [resE]. rewrite hide_nil, A3.
        eapply r_tstar_fail; [exact X1|exact X2].
  - (* ---------------- ITrivia ---------------- *)
    cbn [pre] in P. cbn [post]. cbn [irun] in H.
    destruct (Nat.ltb 0 (i_depth s)) eqn:Ed.
    { subst ir. split; [apply frame_refl|]. cbn [resT]. apply skips_id.
      intros A. apply (proj1 (proj2 P)) in A. rewrite A in Ed. discriminate. }
    assert (NA : c_atom c = NonAtomic).
    { apply (proj1 (proj2 P)). apply Nat.ltb_ge in Ed. lia. }
    destruct (negb (has_rule g WS_ID) && negb (has_rule g CM_ID)) eqn:En.
    { subst ir. split; [apply frame_refl|]. cbn [resT]. apply skips_none. apply skip_expr_none. exact En. }
    assert (SE := skip_expr_some En).
    assert (P0 : pre (skip_ctx c) ITrivLoop (upd_sup s true)).
    { split; [|reflexivity]. destruct P as [[A B] _]. split; [exact A|reflexivity]. }
    destruct (irun g f ITrivLoop (upd_sup s true)) as [m1 s1 ps1| | |] eqn:E1;
      [ cOk IH E1 (skip_ctx c) P0 F1 X1 | cCrash IH E1 (skip_ctx c) P0
      | cUndef IH E1 (skip_ctx c) P0 X1 | cFuel H D ];
      change (abs_st (upd_sup s true)) with (abs_st s) in X1.
    + destruct m1; [|exfalso; kill X1].
      subst ir. split.
      * destruct F1 as [A1 [A2 [A3 [A4 [A5 A6]]]]]. repeat split; assumption.
      * cbn [resT]. eapply skips_some; [exact NA|exact SE|exact X1].
    + subst ir. split; [exact I|]. cbn [resT]. eapply skips_some; [exact NA|exact SE|exact X1].
  - (* ---------------- IWsLoop ---------------- *)
    cbn [pre] in P. destruct P as [B CA]. cbn [post]. cbn [irun] in H.
    assert (NA : c_atom c <> NonAtomic) by (rewrite CA; discriminate).
    assert (NAt : c_atom c <> Atomic) by (rewrite CA; discriminate).
    assert (P0 : pre c (ITrivRule WS_ID) s) by (split; [exact B|split; [exact CA|reflexivity]]).
    destruct (irun g f (ITrivRule WS_ID) s) as [m1 s1 p1| | |] eqn:E1;
      [ cOk IH E1 c P0 F1 X1 | cCrash IH E1 c P0 | cUndef IH E1 c P0 X1 | cFuel H D ];
      destruct X1 as [X1 Y1].
    2:{ subst ir. split; [exact I|]. cbn [resL].
        eapply r_tstar_err; [apply skips_id; exact NA|exact X1]. }
    destruct m1.
    + rewrite (hide_id c p1 NAt) in X1.
      assert (P1 : pre c IWsLoop s1) by (split; [eapply cxb_frame; [exact F1|exact B]|exact CA]).
      destruct (irun g f IWsLoop s1) as [m2 s2 p2| | |] eqn:E2;
        [ cOk IH E2 c P1 F2 X2 | cCrash IH E2 c P1 | cUndef IH E2 c P1 X2 | cFuel H D ];
        assert (X := r_tstar_ok c wR _ _ _ _ _ _ (skips_id c (abs_st s) NA) X1 X2).
      * destruct m2; [|exfalso; kill X2]. subst ir.
        split; [eapply frame_trans; eassumption|]. exact X.
      * subst ir. split; [exact I|]. exact X.
    + subst ir. split; [exact F1|]. cbn [resL]. rewrite (Y1 s1 p1 eq_refl).
      eapply r_tstar_fail; [apply skips_id; exact NA|exact X1].
  - (* ---------------- ITrivLoop ---------------- *)
    cbn [pre] in P. destruct P as [B CA]. cbn [post]. cbn [irun] in H.
    assert (NA : c_atom c <> NonAtomic) by (rewrite CA; discriminate).
    assert (NAt : c_atom c <> Atomic) by (rewrite CA; discriminate).
    assert (LE : loopE = match has_rule g WS_ID, has_rule g CM_ID with
                         | true, true => ESeq [wS; EStar xE]
                         | true, false => wS
                         | false, true => EStar cR
                         | false, false => ESeq []
                         end).
    { unfold loopE, skip_expr, has_ws, has_cm, has_rule.
      destruct (lookup g WS_ID), (lookup g CM_ID); reflexivity. }
    rewrite LE.
    destruct (has_rule g WS_ID) eqn:HW.
    + (* WHITESPACE is defined *)
      assert (P0 : pre c IWsLoop s) by (split; [exact B|exact CA]).
      destruct (irun g f IWsLoop s) as [m1 s1 p1| | |] eqn:E1;
        [ cOk IH E1 c P0 F1 X1 | cCrash IH E1 c P0 | cUndef IH E1 c P0 X1 | cFuel H D ];
        apply (r_star_same c wR (abs_st s) _ NA) in X1; fold wS in X1.
      2:{ subst ir. split; [exact I|]. cbn [resL].
          destruct (has_rule g CM_ID); [apply r_seq2_bad; [exact X1|exact I]|exact X1]. }
      destruct m1; [|exfalso; kill X1].
      assert (B1 : cxb c s1) by (eapply cxb_frame; [exact F1|exact B]).
      destruct (has_rule g CM_ID) eqn:HC.
      2:{ subst ir. split; [exact F1|]. exact X1. }
      assert (P1 : pre c (ITrivRule CM_ID) s1) by (split; [exact B1|split; [exact CA|reflexivity]]).
      destruct (irun g f (ITrivRule CM_ID) s1) as [m2 s2 p2| | |] eqn:E2;
        [ cOk IH E2 c P1 F2 X2 | cCrash IH E2 c P1 | cUndef IH E2 c P1 X2 | cFuel H D ];
        destruct X2 as [X2 Y2]; fold cR in X2.
      2:{ subst ir. split; [exact I|]. cbn [resL].
          assert (Q1 : R c (TEval xE) (abs_st s1) Err) by (apply r_seq2_bad; [exact X2|exact I]).
          apply r_estar_err in Q1.
          exact (r_seq2_ok c wS (EStar xE) _ _ _ _ NA X1 Q1). }
      destruct m2.
      * rewrite (hide_id c p2 NAt) in X2.
        assert (P2 : pre c ITrivLoop s2) by (split; [eapply cxb_frame; [exact F2|exact B1]|exact CA]).
        destruct (irun g f ITrivLoop s2) as [m3 s3 p3| | |] eqn:E3;
          [ cOk IH E3 c P2 F3 X3 | cCrash IH E3 c P2 | cUndef IH E3 c P2 X3 | cFuel H D ];
          rewrite LE in X3.
        -- destruct m3; [|exfalso; kill X3].
           subst ir. split; [eapply frame_trans; [exact F1|eapply frame_trans; eassumption]|].
           cbn [resL].
           destruct (seq2_inv c wS (EStar xE) _ _ NA X3) as [[s2' [q1 [r2 [A [Bx Er]]]]]|[_ N]];
             [|destruct N].
           assert (XX := r_seq2_ok c cR wS _ _ _ _ NA X2 A). cbn beta iota in XX.
           apply (r_star_same c xE s2' r2 NA) in Bx.
           assert (T := r_tstar_ok c xE _ _ _ _ _ _ (skips_id c (abs_st s1) NA) XX Bx).
           apply (r_star_same c xE (abs_st s1) _ NA) in T.
           assert (Fin := r_seq2_ok c wS (EStar xE) _ _ _ _ NA X1 T).
           destruct r2 as [s4 p4|t4| |]; try discriminate Er.
           inversion Er; subst. cbn [app] in Fin. rewrite <- app_assoc in Fin. exact Fin.
        -- subst ir. split; [exact I|]. cbn [resL].
           destruct (seq2_inv c wS (EStar xE) _ _ NA X3) as [[s2' [q1 [r2 [A [Bx Er]]]]]|[A _]].
           ++ assert (XX := r_seq2_ok c cR wS _ _ _ _ NA X2 A). cbn beta iota in XX.
              apply (r_star_same c xE s2' r2 NA) in Bx.
              assert (T := r_tstar_ok c xE _ _ _ _ _ _ (skips_id c (abs_st s1) NA) XX Bx).
              apply (r_star_same c xE (abs_st s1) _ NA) in T.
              assert (Fin := r_seq2_ok c wS (EStar xE) _ _ _ _ NA X1 T).
              destruct r2 as [s4 p4|t4| |]; try discriminate Er. exact Fin.
           ++ assert (XX := r_seq2_ok c cR wS _ _ _ _ NA X2 A). cbn beta iota in XX.
              assert (T : R c (TStar xE) (abs_st s1) Err)
                by (eapply r_tstar_err; [apply skips_id; exact NA|exact XX]).
              apply (r_star_same c xE (abs_st s1) _ NA) in T.
              exact (r_seq2_ok c wS (EStar xE) _ _ _ _ NA X1 T).
      * subst ir. split; [eapply frame_trans; eassumption|]. cbn [resL].
        assert (Q1 : R c (TEval xE) (abs_st s1) (Fail (i_trk s2))) by (apply r_seq2_bad; [exact X2|exact I]).
        apply r_estar_fail in Q1.
        assert (Fin := r_seq2_ok c wS (EStar xE) _ _ _ _ NA X1 Q1). cbn beta iota in Fin.
        rewrite app_nil_r in Fin. rewrite (Y2 s2 p2 eq_refl). exact Fin.
    + (* no WHITESPACE *)
      destruct (has_rule g CM_ID) eqn:HC.
      2:{ subst ir. split; [apply frame_refl|]. cbn [resL]. apply r_seq. apply r_tseq_nil. }
      assert (P1 : pre c (ITrivRule CM_ID) s) by (split; [exact B|split; [exact CA|reflexivity]]).
      destruct (irun g f (ITrivRule CM_ID) s) as [m2 s2 p2| | |] eqn:E2;
        [ cOk IH E2 c P1 F2 X2 | cCrash IH E2 c P1 | cUndef IH E2 c P1 X2 | cFuel H D ];
        destruct X2 as [X2 Y2]; fold cR in X2.
      2:{ subst ir. split; [exact I|]. cbn [resL]. apply r_estar_err. exact X2. }
      destruct m2.
      * rewrite (hide_id c p2 NAt) in X2.
        assert (P2 : pre c ITrivLoop s2) by (split; [eapply cxb_frame; [exact F2|exact B]|exact CA]).
        destruct (irun g f ITrivLoop s2) as [m3 s3 p3| | |] eqn:E3;
          [ cOk IH E3 c P2 F3 X3 | cCrash IH E3 c P2 | cUndef IH E3 c P2 X3 | cFuel H D ];
          rewrite LE in X3; apply (r_star_same c cR (abs_st s2) _ NA) in X3;
          assert (X := r_estar_ok c cR _ _ _ _ X2 X3).
        -- destruct m3; [|exfalso; kill X3]. subst ir.
           split; [eapply frame_trans; eassumption|]. exact X.
        -- subst ir. split; [exact I|]. exact X.
      * subst ir. split; [exact F2|]. cbn [resL]. rewrite (Y2 s2 p2 eq_refl).
        apply r_estar_fail. exact X2.
  - (* ---------------- ITrivRule ---------------- *)
    cbn [pre] in P. destruct P as [B [CA TN]]. cbn [post]. cbn [irun] in H.
    destruct (lookup g n) as [r|] eqn:L.
    2:{ subst ir. split; [exact I|]. split; [apply r_ref_undef; exact L|intros; discriminate]. }
    assert (NM := lookup_name _ _ _ L).
    assert (P0 : pre c (IRule r) (icheckpoint s)).
    { split; [exact B|]. split; [rewrite NM; exact L|]. intros DM. exfalso.
      unfold depth_mode in DM. rewrite NM, TN in DM. destruct (r_kind r); discriminate. }
    destruct (irun g f (IRule r) (icheckpoint s)) as [m1 s1 ps1| | |] eqn:E1;
      [ cOk IH E1 c P0 F1 X1 | cCrash IH E1 c P0 | cUndef IH E1 c P0 X1 | cFuel H D ];
      rewrite NM in X1; change (abs_st (icheckpoint s)) with (abs_st s) in X1.
    2:{ subst ir. split; [exact I|]. split; [exact X1|intros; discriminate]. }
    destruct m1.
    + destruct (iok_ck (icheckpoint s) s s1 eq_refl eq_refl eq_refl eq_refl eq_refl F1)
        as [s2 [E2 [A2 G]]].
      rewrite E2 in H. subst ir. split; [exact G|].
      split; [cbn [resE]; rewrite A2; exact X1|intros; discriminate].
    + destruct (irestore_ck (icheckpoint s) s s1 eq_refl eq_refl eq_refl F1)
        as [s2 [E2 [A2 [T2 G]]]].
      rewrite E2 in H. subst ir. split; [exact G|].
      split; [cbn [resE]; rewrite T2; exact X1|].
      intros s' ps Eq. inversion Eq; subst. rewrite A2, T2. reflexivity.
  - (* ---------------- IRule ---------------- *)
    cbn [post]. rewrite irun_rule in H. assert (PC := enter_cx c r s P).
    destruct P as [B [L Hd]].
    destruct (irun g f (IEval (r_body r)) (enter r s)) as [m3 s3 kids| | |] eqn:E3;
      [ cOk IH E3 (rule_ctx c r) PC F3 X3 | cCrash IH E3 (rule_ctx c r) PC
      | cUndef IH E3 (rule_ctx c r) PC X3 | cFuel H D ];
      rewrite abs_enter in X3; apply (r_ref c (r_name r) None (abs_st s) r _ L) in X3.
    2:{ subst ir. split; [exact I|]. exact X3. }
    destruct (leave_enter r s s3 F3) as [LR [FR AR]]. rewrite LR in H. cbv zeta in H.
    destruct m3; cbn [negb] in H.
    + rewrite (finish_match c r f s true s3 kids L E3 F3) in X3. cbv zeta in X3.
      subst ir. split; [|exact X3].
      destruct (r_silent r); cbn [fr]; [exact FR|].
      destruct FR as [A1 [A2 [A3 [A4 [A5 A6]]]]]. repeat split; assumption.
    + subst ir. split; [exact FR|]. cbn [resE].
      assert (T : i_trk (upd_rules (leave r s3) (i_rules s)) = i_trk s3).
      { change (s_trk (abs_st (upd_rules (leave r s3) (i_rules s))) = s_trk (abs_st s3)).
        rewrite AR. reflexivity. }
      rewrite T. exact X3.
Qed.
(* ------------------------------------------------------------------------------------ *)
(* the main theorem *)

Theorem iparse_refines : forall f rule input k,
  match iparse g f rule input k with
  | IOk true s' ps  => (exists f', parse g f' rule input k = Ok (abs_st s') ps) /\ i_saved s' = [] /\ i_dcps s' = [] /\ i_rules s' = [] /\ i_depth s' = 0
  | IOk false s' _  => (exists f', parse g f' rule input k = Fail (i_trk s'))   /\ i_saved s' = [] /\ i_dcps s' = [] /\ i_rules s' = []
  | IUndef          => exists f', parse g f' rule input k = Err
  | ICrash          => False
  | IFuel           => True
  end.
Proof.
  intros f rule input k. unfold iparse.
  destruct (lookup g rule) as [r|] eqn:L.
  2:{ exists 1. unfold parse, eval. cbn [run]. rewrite L. reflexivity. }
  assert (NM := lookup_name _ _ _ L).
  assert (P : pre ctx0 (IRule r) (ist0 input k)).
  { split; [split; reflexivity|]. split; [rewrite NM; exact L|]. intros _. split; reflexivity. }
  destruct (irun g f (IRule r) (ist0 input k)) as [m s' ps| | |] eqn:E; [| | |exact I].
  - destruct (sim_all f _ _ _ ctx0 E ltac:(discriminate) P) as [F X].
    cbn [fr post] in F, X. rewrite NM in X.
    destruct F as [A1 [A2 [A3 [A4 _]]]]. cbn in A1, A2, A3, A4.
    destruct m; cbn [resE] in X; destruct X as [f' [X _]].
    + split; [exists f'; exact X|]. repeat split; assumption.
    + split; [exists f'; exact X|]. repeat split; assumption.
  - destruct (sim_all f _ _ _ ctx0 E ltac:(discriminate) P) as [_ X].
    cbn [post resE] in X. exact (nofuel _ _ _ X).
  - destruct (sim_all f _ _ _ ctx0 E ltac:(discriminate) P) as [_ X].
    cbn [post resE] in X. rewrite NM in X. destruct X as [f' [X _]]. exists f'. exact X.
Qed.

End R.

(* ------------------------------------------------------------------------------------ *)
(* The hypothesis on silent rules is needed: a silent $ rule (or a silent ! rule outside the
   trivia names) passes its children up unfiltered, and an enclosing @ rule then dissolves pairs
   that the reference semantics keeps. Such rules cannot be written in grammar text (one
   modifier per rule), but the type `rule` of Syntax.v allows them. *)

Definition refines_pairs (g : grammar) : Prop :=
  forall f rule input k,
    match iparse g f rule input k with
    | IOk true s' ps => exists f', parse g f' rule input k = Ok (abs_st s') ps
    | _ => True
    end.

Lemma parse_at g f0 rule input k r : parse g f0 rule input k = r -> r <> Fuel ->
  forall f' r', parse g f' rule input k = r' -> r' <> Fuel -> r' = r.
Proof.
  intros H D f' r' H' D'.
  assert (A := parse_mono g f0 (max f0 f') rule input k r H D (Nat.le_max_l _ _)).
  assert (B := parse_mono g f' (max f0 f') rule input k r' H' D' (Nat.le_max_r _ _)).
  congruence.
Qed.

(* a silent compound-atomic rule used inside an atomic rule: a = @{ c }, c = _${ b }, b = { "a" } *)
Definition cex_silent_compound : grammar :=
  [ {| r_name := 10; r_silent := false; r_kind := KAtomic; r_body := ERef 12 None |};
    {| r_name := 12; r_silent := true; r_kind := KCompound; r_body := ERef 11 None |};
    {| r_name := 11; r_silent := false; r_kind := KNormal; r_body := EStr [97%N] |} ].

Lemma silent_compound_differs : ~ refines_pairs cex_silent_compound.
Proof.
  intros H. specialize (H 20 10%N [97%N] 0).
  destruct (iparse cex_silent_compound 20 10%N [97%N] 0) as [m s' ps| | |] eqn:EI;
    vm_compute in EI; try discriminate EI.
  inversion EI; subst m s' ps; clear EI. destruct H as [f' H].
  pose (r0 := parse cex_silent_compound 20 10%N [97%N] 0).
  assert (E0 : parse cex_silent_compound 20 10%N [97%N] 0 = r0) by reflexivity.
  assert (D0 : r0 <> Fuel) by (vm_compute; discriminate).
  assert (E := parse_at _ _ _ _ _ _ E0 D0 f' _ H ltac:(discriminate)).
  vm_compute in E. discriminate E.
Qed.

(* the same with a silent non-atomic rule: a = @{ c }, c = _!{ b }, b = { "a" } *)
Definition cex_silent_nonatomic : grammar :=
  [ {| r_name := 10; r_silent := false; r_kind := KAtomic; r_body := ERef 12 None |};
    {| r_name := 12; r_silent := true; r_kind := KNonAtomic; r_body := ERef 11 None |};
    {| r_name := 11; r_silent := false; r_kind := KNormal; r_body := EStr [97%N] |} ].

Lemma silent_nonatomic_differs : ~ refines_pairs cex_silent_nonatomic.
Proof.
  intros H. specialize (H 20 10%N [97%N] 0).
  destruct (iparse cex_silent_nonatomic 20 10%N [97%N] 0) as [m s' ps| | |] eqn:EI;
    vm_compute in EI; try discriminate EI.
  inversion EI; subst m s' ps; clear EI. destruct H as [f' H].
  pose (r0 := parse cex_silent_nonatomic 20 10%N [97%N] 0).
  assert (E0 : parse cex_silent_nonatomic 20 10%N [97%N] 0 = r0) by reflexivity.
  assert (D0 : r0 <> Fuel) by (vm_compute; discriminate).
  assert (E := parse_at _ _ _ _ _ _ E0 D0 f' _ H ltac:(discriminate)).
  vm_compute in E. discriminate E.
Qed.

(* the hypothesis can be checked rule by rule *)
Lemma lookup_In : forall g n r, lookup g n = Some r -> In r g.
Proof.
  induction g as [|r0 g IH]; intros n r H; cbn in H; [discriminate|].
  destruct (N.eqb (r_name r0) n); [inversion H; subst; left; reflexivity|right; eapply IH; exact H].
Qed.

Lemma silent_ok_forall g : Forall (fun r => r_silent r = true -> silent_ok g r) g ->
  forall n r, lookup g n = Some r -> r_silent r = true -> silent_ok g r.
Proof.
  intros H n r L. apply lookup_In in L. rewrite Forall_forall in H. apply H. exact L.
Qed.

(* the two former discrepancies are gone: a silent atomic rule _@{ b } ... *)
Definition ex_silent_atomic : grammar :=
  [ {| r_name := 10; r_silent := true; r_kind := KAtomic; r_body := ERef 11 None |};
    {| r_name := 11; r_silent := false; r_kind := KNormal; r_body := EStr [97%N] |} ].

Example silent_atomic_ok : forall n r, lookup ex_silent_atomic n = Some r -> r_silent r = true ->
  silent_ok ex_silent_atomic r.
Proof.
  apply silent_ok_forall. repeat (apply Forall_cons || apply Forall_nil); intros S; try discriminate S.
  left. reflexivity.
Qed.

(* ... and a silent WHITESPACE whose body mentions a non-silent rule:
   WHITESPACE = _{ sp }, sp = { " " }, top = { "a" ~ "b" }; no restriction on the body *)
Definition ex_silent_ws : grammar :=
  [ {| r_name := 0; r_silent := true; r_kind := KNormal; r_body := ERef 11 None |};
    {| r_name := 11; r_silent := false; r_kind := KNormal; r_body := EStr [32%N] |};
    {| r_name := 10; r_silent := false; r_kind := KNormal; r_body := ESeq [EStr [97%N]; EStr [98%N]] |} ].

Example silent_ws_ok : forall n r, lookup ex_silent_ws n = Some r -> r_silent r = true ->
  silent_ok ex_silent_ws r.
Proof.
  apply silent_ok_forall. repeat (apply Forall_cons || apply Forall_nil); intros S; try discriminate S.
  left. reflexivity.
Qed.

Example silent_ws_agrees :
  match iparse ex_silent_ws 20 10%N [97; 32; 98]%N 0 with
  | IOk true s' ps => parse ex_silent_ws 20 10%N [97; 32; 98]%N 0 = Ok (abs_st s') ps
                      /\ ps = [Pair 10 0 3 [] None]
  | _ => False
  end.
Proof. vm_compute. split; reflexivity. Qed.

Notation conclusion g f rule input k :=
  (match iparse g f rule input k with
   | IOk true s' ps  => (exists f', parse g f' rule input k = Ok (abs_st s') ps) /\ i_saved s' = [] /\ i_dcps s' = [] /\ i_rules s' = [] /\ i_depth s' = 0
   | IOk false s' _  => (exists f', parse g f' rule input k = Fail (i_trk s'))   /\ i_saved s' = [] /\ i_dcps s' = [] /\ i_rules s' = []
   | IUndef          => exists f', parse g f' rule input k = Err
   | ICrash          => False
   | IFuel           => True
   end) (only parsing).

(* what grammar text can express: at most one modifier per rule, so a silent rule is a plain
   rule; also covers silent @ rules *)
Corollary iparse_refines_one_modifier : forall g,
  (forall n r, lookup g n = Some r -> r_silent r = true -> r_kind r = KNormal \/ r_kind r = KAtomic) ->
  forall f rule input k, conclusion g f rule input k.
Proof.
  intros g NS. apply iparse_refines. intros n r L S.
  destruct (NS n r L S) as [K|K]; [right; left; exact K|left; unfold hides; rewrite K; reflexivity].
Qed.

(* the exact kinds: everything but a silent $ rule and a silent ! rule outside the trivia names *)
Corollary iparse_refines_kinds : forall g,
  (forall n r, lookup g n = Some r -> r_silent r = true ->
     r_kind r <> KCompound /\ (r_kind r = KNonAtomic -> is_trivia_name n = true)) ->
  forall f rule input k, conclusion g f rule input k.
Proof.
  intros g NS. apply iparse_refines. intros n r L S.
  destruct (NS n r L S) as [A B]. rewrite <- (lookup_name _ _ _ L) in B.
  unfold silent_ok, hides. destruct (r_kind r) eqn:K.
  - right; left; reflexivity.
  - left; reflexivity.
  - exfalso; apply A; reflexivity.
  - left. apply B. reflexivity.
Qed.

(* grammars without silent rules need no side condition *)
Corollary iparse_refines_no_silent : forall g,
  (forall n r, lookup g n = Some r -> r_silent r = false) ->
  forall f rule input k, conclusion g f rule input k.
Proof.
  intros g NS. apply iparse_refines. intros n r L S. rewrite (NS n r L) in S. discriminate S.
Qed.

Print Assumptions iparse_refines.
