(* InfixOldDef.v — the grammar parser's expression functions as they were BEFORE the library refactoring
   of Parser.parse_infix_expression (right-recursive, one Python frame per operand), kept under the
   names *_old. Definitions only. Used by InfixEquiv.v (general equivalence proof) and InfixOld.v
   (bounded vm_compute comparison). *)
From Coq Require Import List NArith ZArith Bool Lia.
From PP Require Import Base Builtins Front.
Import ListNotations.
Open Scope N_scope.

Section OLD.
  Variable eof : token.
  Variable builtins : list (text * text).
  Notation current := (current eof).
  Notation pnext := (pnext eof).
  Notation cur_kind_is := (cur_kind_is eof).
  Notation eat := (eat eof).
  Notation postfix_loop := (postfix_loop eof).
  Notation parse_peek_expression := (parse_peek_expression eof).

  (* the transcription of parse_expression / parse_infix_expression BEFORE the refactoring:
     parse_infix_expression recursed once per operand and flattened Choice / Sequence *)
  Fixpoint parse_expression_old (fuel : nat) (precedence : N) (ts : list token) {struct fuel}
    : res (pexpr * list token) :=
    match fuel with
    | O => OutOfFuel
    | S fuel' =>
        let ts := if cur_kind_is ts K_CHOICE_OP then snd (pnext ts) else ts in
        let* '(tag, ts) :=
          (if cur_kind_is ts K_TAG then
             let '(t, ts) := pnext ts in
             let* '(_, ts) := eat K_ASSIGN_OP ts in
             Ok (Some (tl (tk_value t)), ts)
           else Ok (None, ts)) in
        let token := current ts in
        let left_kind := tk_kind token in
        let* '(left_, ts) :=
          (if kind_eqb left_kind K_STRING then Ok (PStr (tk_value (fst (pnext ts))), snd (pnext ts))
           else if kind_eqb left_kind K_STRING_CI then
             Ok (PCIStr (tk_value (fst (pnext ts))), snd (pnext ts))
           else if kind_eqb left_kind K_LPAREN then
             let* '(e, ts) := parse_expression_old fuel' PRECEDENCE_LOWEST (tl ts) in
             let* '(_, ts) := eat K_RPAREN ts in
             Ok (PGrp e tag, ts)
           else if kind_eqb left_kind K_IDENTIFIER then
             let '(t, ts) := pnext ts in
             let name := tk_value t in
             if negb (text_eqb name [69;79;73])
                && match lookup name builtins with Some _ => true | None => false end then
               match lookup name builtins with
               | Some rule_name => Ok (PRef rule_name None, ts)     (* the built-in Rule object *)
               | None => Crash C_KEY
               end
             else Ok (PRef name tag, ts)
           else if kind_eqb left_kind K_PUSH_LITERAL then
             let* '(_, ts) := eat K_LPAREN (tl ts) in
             let* '(t, ts) := eat K_STRING ts in
             let* '(_, ts) := eat K_RPAREN ts in
             Ok (PPushLit (tk_value t) tag, ts)
           else if kind_eqb left_kind K_PUSH then
             let* '(_, ts) := eat K_LPAREN (tl ts) in
             let* '(e, ts) := parse_expression_old fuel' PRECEDENCE_LOWEST ts in
             let* '(_, ts) := eat K_RPAREN ts in
             Ok (PPush e tag, ts)
           else if kind_eqb left_kind K_PEEK then parse_peek_expression tag (tl ts)
           else if kind_eqb left_kind K_PEEK_ALL then Ok (PPeekAll tag, tl ts)
           else if kind_eqb left_kind K_POP then Ok (PPop tag, tl ts)
           else if kind_eqb left_kind K_DROP then Ok (PDrop tag, tl ts)
           else if kind_eqb left_kind K_POP_ALL then Ok (PPopAll tag, tl ts)
           else if kind_eqb left_kind K_CHAR then
             let* '(t, ts) := eat K_CHAR ts in
             let* start := unescape_string (slice_1_m1 (tk_value t)) (tk_start token) in
             let* '(_, ts) := eat K_RANGE_OP ts in
             let* '(stop_token, ts) := eat K_CHAR ts in
             let* stop := unescape_string (slice_1_m1 (tk_value stop_token)) (tk_start token) in
             Ok (PRange start stop tag, ts)
           else if kind_eqb left_kind K_POSITIVE_PREDICATE then
             let* '(e, ts) := parse_expression_old fuel' PRECEDENCE_PREFIX (tl ts) in
             Ok (PAnd e tag, ts)
           else if kind_eqb left_kind K_NEGATIVE_PREDICATE then
             let* '(e, ts) := parse_expression_old fuel' PRECEDENCE_PREFIX (tl ts) in
             Ok (PNot e tag, ts)
           else Syn (tk_start token)) in
        let* '(left_, ts) := postfix_loop (S (length ts)) left_ ts in
        infix_loop_old fuel' precedence left_ ts
    end
  with infix_loop_old (fuel : nat) (precedence : N) (left_ : pexpr) (ts : list token) {struct fuel}
    : res (pexpr * list token) :=
    match fuel with
    | O => OutOfFuel
    | S fuel' =>
        let k := tk_kind (current ts) in
        if kind_eqb k K_EOI || (precedence_of k <? precedence) || negb (is_infix k) then Ok (left_, ts)
        else
          let* '(left_, ts) := parse_infix_expression_old fuel' left_ ts in
          infix_loop_old fuel' precedence left_ ts
    end
  with parse_infix_expression_old (fuel : nat) (left_ : pexpr) (ts : list token) {struct fuel}
    : res (pexpr * list token) :=
    match fuel with
    | O => OutOfFuel
    | S fuel' =>
        let '(token, ts) := pnext ts in
        let k := tk_kind token in
        let precedence := precedence_of k in
        let* '(right_, ts) := parse_expression_old fuel' precedence ts in
        if kind_eqb k K_CHOICE_OP then
          match right_ with
          | PAlt es => Ok (PAlt (left_ :: es), ts)
          | _ => Ok (PAlt [left_; right_], ts)
          end
        else if kind_eqb k K_SEQUENCE_OP then
          match right_ with
          | PSeq es => Ok (PSeq (left_ :: es), ts)
          | _ => Ok (PSeq [left_; right_], ts)
          end
        else Syn (tk_start token)
    end.

End OLD.
