(* Syntax.v — expression trees, rules and grammars of python-pest.
   One constructor per Expression subclass of src/pest/grammar/expressions/*.py,
   src/pest/grammar/rules/special.py and the optimizer's products. *)
From Coq Require Import List NArith ZArith Bool.
Import ListNotations.
From PP Require Import Base.

Inductive expr :=
| EStr (s : text)                       (* String *)
| ECIStr (s : text)                     (* CIString *)
| ERange (lo hi : N)                    (* Range *)
| EAny | ESoi | EEoi                    (* _Any, _SOI, _EOI bodies of the special built-ins *)
| ECls (rs : list (N * N))              (* RegexExpression / OptimizedChoice character class: no failure record *)
| ERef (n : N) (tag : option N)         (* Identifier, or an embedded built-in Rule object *)
| ESeq (es : list expr)                 (* Sequence *)
| EAlt (es : list expr)                 (* Choice *)
| EOpt (e : expr)                       (* Optional *)
| EStar (e : expr)                      (* Repeat *)
| EPlus (e : expr)                      (* RepeatOnce *)
| ERepN (e : expr) (n : nat)            (* RepeatExact *)
| ERepMin (e : expr) (n : nat)          (* RepeatMin *)
| ERepMax (e : expr) (n : nat)          (* RepeatMax *)
| ERepMinMax (e : expr) (m n : nat)     (* RepeatMinMax *)
| EAnd (e : expr)                       (* PositivePredicate *)
| ENot (e : expr)                       (* NegativePredicate *)
| EGrp (e : expr) (tag : option N)      (* Group *)
| EPush (e : expr)                      (* Push *)
| EPushLit (s : text)                   (* PushLiteral *)
| EPeek | EPeekSl (a b : option Z) | EPeekAll | EPop | EPopAll | EDrop
| ESkipUntil (subs : list text).        (* SkipUntil *)

Inductive akind := KNormal | KAtomic | KCompound | KNonAtomic.

Record rule := { r_name : N; r_silent : bool; r_kind : akind; r_body : expr }.
Definition grammar := list rule.

Fixpoint lookup (g : grammar) (n : N) : option rule :=
  match g with
  | [] => None
  | r :: g' => if N.eqb (r_name r) n then Some r else lookup g' n
  end.

(* Reserved rule identifiers (the harness's symbol table assigns them). *)
Definition WS_ID : N := 0.     (* WHITESPACE *)
Definition CM_ID : N := 1.     (* COMMENT *)
Definition SKIP_ID : N := 2.   (* SKIP, created by Optimizer._optimize_skip_rule *)
Definition EOI_ID : N := 3.

Inductive pair := Pair (name : N) (s e : N) (kids : list pair) (tag : option N).
