(* OptPass.v — model of python-pest's optimizer PASSES themselves (not only of their output):
     Expression.map_bottom_up / map_top_down      src/pest/grammar/expression.py
     Optimizer.optimize (one step over the table)  src/pest/grammar/optimizer.py
     unroll                                        src/pest/grammar/optimizers/unroller.py
     inline_builtin                                src/pest/grammar/optimizers/inliners.py
   Transcribed clause by clause; tied on every run: the table the real pass produces for every generated
   grammar must be IDENTICAL to the table the extracted model computes (driver command `U`).
   Embedded built-in Rule objects are `ERef` leaves of the exported trees (export.py); the bodies of built-in
   rules contain no repetition operator, so `unroll` cannot rewrite inside them (an exporter alias `NAME@k`
   would show it, and the tie would break).
   Proofs (OptPassProof.v): the table every modelled pass produces is accepted by the proved translation
   validator `Opt.ochk_grammar`, for EVERY grammar — hence, by `OptProof.ochk_sound`, parses identically. *)
From Coq Require Import List NArith ZArith Bool Arith.
Import ListNotations.
From PP Require Import Base Syntax Spec CharClass Opt.

(* ---------- Expression.map_bottom_up: children first, then the node ---------- *)
Section MapBU.
Variable f : expr -> expr.
Fixpoint map_bu (e : expr) : expr :=
  f match e with
    | ESeq es => ESeq (map map_bu es)
    | EAlt es => EAlt (map map_bu es)
    | EOpt a => EOpt (map_bu a)
    | EStar a => EStar (map_bu a)
    | EPlus a => EPlus (map_bu a)
    | ERepN a n => ERepN (map_bu a) n
    | ERepMin a n => ERepMin (map_bu a) n
    | ERepMax a n => ERepMax (map_bu a) n
    | ERepMinMax a m n => ERepMinMax (map_bu a) m n
    | EAnd a => EAnd (map_bu a)
    | ENot a => ENot (map_bu a)
    | EGrp a t => EGrp (map_bu a) t
    | EPush a => EPush (map_bu a)
    | _ => e
    end.
End MapBU.

(* ---------- Expression.map_top_down: the node first, then the children of the RESULT.
   Not structural (the result of `f` may be larger than the node): fuel, None when exhausted. ---------- *)
Section MapTD.
Variable f : expr -> expr.
Fixpoint map_td (fuel : nat) (e : expr) : option expr :=
  match fuel with
  | O => None
  | S fu =>
    let go := map_td fu in
    let gos := fix gos (l : list expr) : option (list expr) :=
      match l with
      | [] => Some []
      | x :: l' => match go x, gos l' with Some y, Some ys => Some (y :: ys) | _, _ => None end
      end in
    let one (k : expr -> expr) (a : expr) := match go a with Some b => Some (k b) | None => None end in
    match f e with
    | ESeq es => match gos es with Some ys => Some (ESeq ys) | None => None end
    | EAlt es => match gos es with Some ys => Some (EAlt ys) | None => None end
    | EOpt a => one EOpt a
    | EStar a => one EStar a
    | EPlus a => one EPlus a
    | ERepN a n => one (fun b => ERepN b n) a
    | ERepMin a n => one (fun b => ERepMin b n) a
    | ERepMax a n => one (fun b => ERepMax b n) a
    | ERepMinMax a m n => one (fun b => ERepMinMax b m n) a
    | EAnd a => one EAnd a
    | ENot a => one ENot a
    | EGrp a t => one (fun b => EGrp b t) a
    | EPush a => one EPush a
    | e' => Some e'
    end
  end.
End MapTD.

(* ---------- unroller.unroll: one node (children already rewritten) ---------- *)
Definition unroll1 (e : expr) : expr :=
  match e with
  | EPlus a => ESeq [strip_grp a; EStar a]                (* untagged group: its content, then (group)* *)
  | ERepN a n => ESeq (repeat a n)
  | ERepMin a n => ESeq (repeat a n ++ [EStar a])
  | ERepMax a n => ESeq (repeat (EOpt a) n)
  | ERepMinMax a m n => ESeq (repeat a m ++ repeat (EOpt a) (n - m))
  | _ => e
  end.

Definition unroll_bu : expr -> expr := map_bu unroll1.

Section Table.
Variable bi : N -> bool.      (* the table entry is a BuiltInRule object: Optimizer.optimize skips it *)

Definition set_body (r : rule) (b : expr) : rule :=
  {| r_name := r_name r; r_silent := r_silent r; r_kind := r_kind r; r_body := b |}.

(* one POSTORDER step whose function ignores the rule table *)
Definition step_bu (f : expr -> expr) (g : grammar) : grammar :=
  map (fun r => if bi (r_name r) then r else set_body r (map_bu f (r_body r))) g.

Definition pass_unroll : grammar -> grammar := step_bu unroll1.

(* ---------- inliners.inline_builtin (PREORDER): an embedded built-in rule object other than EOI is replaced
   by its body; the traversal continues inside that body ---------- *)
Definition inline_builtin1 (g : grammar) (e : expr) : expr :=
  match e with
  | ERef n None =>
      if bi n && negb (N.eqb n EOI_ID) then
        match lookup g n with Some r => r_body r | None => e end
      else e
  | _ => e
  end.

Fixpoint opt_rules (l : list (option rule)) : option grammar :=
  match l with
  | [] => Some []
  | Some r :: l' => match opt_rules l' with Some g => Some (r :: g) | None => None end
  | None :: _ => None
  end.

Definition pass_inline_builtin (fuel : nat) (g : grammar) : option grammar :=
  opt_rules (map (fun r => if bi (r_name r) then Some r
                           else match map_td (inline_builtin1 g) fuel (r_body r) with
                                | Some b => Some (set_body r b)
                                | None => None
                                end) g).
End Table.

(* ---------- side conditions of the theorems, as executable predicates ---------- *)
Fixpoint nodupN (l : list N) : bool :=
  match l with [] => true | x :: l' => negb (memN x l') && nodupN l' end.
Definition names_nodup (g : grammar) : bool := nodupN (map r_name g).

(* e{m,n} with m <= n (the front end of pest rejects the others) *)
Definition count_ok (e : expr) : bool :=
  match e with ERepMinMax _ m n => Nat.leb m n | _ => true end.

(* nesting depth; the unrolled operators count twice (their image is one level deeper) *)
Fixpoint depth (e : expr) : nat :=
  match e with
  | ESeq es | EAlt es =>
      S ((fix go (l : list expr) : nat := match l with [] => 0%nat | x :: l' => Nat.max (depth x) (go l') end) es)
  | EOpt a | EStar a | EAnd a | ENot a | EGrp a _ | EPush a => S (depth a)
  | EPlus a | ERepN a _ | ERepMin a _ | ERepMax a _ | ERepMinMax a _ _ => S (S (depth a))
  | _ => 1%nat
  end.
Definition depths (es : list expr) : nat :=
  (fix go (l : list expr) : nat := match l with [] => 0%nat | x :: l' => Nat.max (depth x) (go l') end) es.
Definition gdepth (g : grammar) : nat := fold_right (fun r acc => Nat.max (depth (r_body r)) acc) 0%nat g.
