(* SnapStackProof.v — the delta-encoded snapshot stack refines full-copy snapshots:
   representation invariant, abstraction function, one commutation lemma per operation,
   and the lift to arbitrary operation histories. *)
From Coq Require Import List Arith ZArith Lia.
Import ListNotations.
From PP Require Import SnapStack.

Section S.
Variable A : Type.
Notation sstack := (sstack A).
Notation rstack := (rstack A).
Notation bottom := (bottom A).
Notation recover := (recover A).
Notation Inv := (Inv A).
Notation abs := (abs A).
Notation SInv := (SInv A).
Notation spush := (spush A). Notation spop := (spop A). Notation ssnap := (ssnap A).
Notation srestore := (srestore A). Notation sdrop := (sdrop A). Notation sclear := (sclear A).
Notation rpush := (rpush A). Notation rpop := (rpop A). Notation rsnap := (rsnap A).
Notation rrestore := (rrestore A). Notation rdrop := (rdrop A). Notation rclear := (rclear A).

(* ---- list lemmas ---- *)
Lemma bottom_length k l : k <= length l -> length (bottom k l) = k.
Proof. intros H. unfold bottom. rewrite skipn_length. lia. Qed.

Lemma bottom_cons k x l : k <= length l -> bottom k (x :: l) = bottom k l.
Proof. intros H. unfold bottom. cbn [length]. replace (S (length l) - k) with (S (length l - k)) by lia. reflexivity. Qed.

Lemma bottom_all l : bottom (length l) l = l.
Proof. unfold bottom. rewrite Nat.sub_diag. reflexivity. Qed.

Lemma bottom_app k a b : k <= length b -> bottom k (a ++ b) = bottom k b.
Proof.
  intros H. unfold bottom. rewrite app_length.
  replace (length a + length b - k) with (length a + (length b - k)) by lia.
  rewrite skipn_app. rewrite skipn_all2 by lia. cbn.
  replace (length a + (length b - k) - length a) with (length b - k) by lia. reflexivity.
Qed.

Lemma skipn_skipn' : forall a b (l : list A), skipn a (skipn b l) = skipn (b + a) l.
Proof. intros a b; revert a; induction b as [|b IH]; intros a l; [reflexivity|]. destruct l; cbn; [destruct a; reflexivity|apply IH]. Qed.

Lemma bottom_bottom j k l : j <= k -> k <= length l -> bottom j (bottom k l) = bottom j l.
Proof.
  intros Hj Hk. unfold bottom. rewrite skipn_length.
  rewrite skipn_skipn'. f_equal. lia.
Qed.

Lemma Sfun_length n pp rc it : n <= length pp -> rc <= length it ->
  length (rev (firstn n pp) ++ bottom rc it) = n + rc.
Proof. intros. rewrite app_length, rev_length, firstn_length, bottom_length by lia. lia. Qed.

(* recover/Inv depend on `it` only through its bottom part *)
Lemma recover_bottom : forall ls it it' pp,
  (forall k, (match ls with [] => True | (_, rc) :: _ => k <= rc end) -> bottom k it = bottom k it') ->
  recover it pp ls = recover it' pp ls.
Proof.
  destruct ls as [|[ic rc] ls]; intros it it' pp H; [reflexivity|].
  cbn [recover]. rewrite (H rc) by lia. reflexivity.
Qed.

Lemma Inv_bottom : forall ls it it' pp,
  (match ls with [] => True | (_, rc) :: _ => rc <= length it -> rc <= length it' /\ bottom rc it = bottom rc it' end) ->
  Inv it pp ls -> Inv it' pp ls.
Proof.
  destruct ls as [|[ic rc] ls]; intros it it' pp H HI; [exact HI|].
  cbn [Inv] in *. destruct HI as (H1 & H2 & H3 & H4). destruct (H H2) as [H5 H6].
  rewrite <- H6. auto.
Qed.

(* ---- per-operation refinement ---- *)
Lemma push_ref x s : SInv s -> SInv (spush x s) /\ abs (spush x s) = rpush x (abs s).
Proof.
  unfold SInv, abs, spush, rpush; cbn [items popped lens cur saved]. intros HI. split.
  - eapply Inv_bottom; [|exact HI]. destruct (lens s) as [|[ic rc] ls]; [exact I|].
    intros Hrc. split; [cbn; lia|]. symmetry. apply bottom_cons. exact Hrc.
  - f_equal. destruct (lens s) as [|[ic rc] ls] eqn:E; [reflexivity|].
    cbn [Inv] in HI. destruct HI as (H1 & H2 & H3 & H4).
    cbn [recover]. rewrite bottom_cons by exact H2. reflexivity.
Qed.

Lemma snap_ref s : SInv s -> SInv (ssnap s) /\ abs (ssnap s) = rsnap (abs s).
Proof.
  unfold SInv, abs, ssnap, rsnap; cbn [items popped lens cur saved Inv recover]. intros HI.
  rewrite Nat.sub_diag. cbn [firstn skipn rev app]. rewrite bottom_all. split; [|reflexivity].
  repeat split; try lia. exact HI.
Qed.

Lemma restore_ref s : SInv s -> SInv (srestore s) /\ abs (srestore s) = rrestore (abs s).
Proof.
  unfold SInv, abs, srestore, rrestore. destruct (lens s) as [|[ic rc] ls] eqn:E; cbn [items popped lens cur saved Inv recover]; intros HI.
  - rewrite HI. split; reflexivity.
  - destruct HI as (H1 & H2 & H3 & H4). split; [exact H4|reflexivity].
Qed.

Lemma pop_ref s : SInv s -> items s <> [] -> SInv (spop s) /\ abs (spop s) = rpop (abs s).
Proof.
  unfold SInv, abs, spop, rpop. destruct (items s) as [|x rest] eqn:Ei; [congruence|]. intros HI _.
  destruct (lens s) as [|[ic rc] ls] eqn:El; cbn [Inv recover items popped lens cur saved tl] in *.
  - split; [exact HI|reflexivity].
  - destruct HI as (H1 & H2 & H3 & H4). cbn [length] in H2.
    destruct (Nat.eqb (S (length rest)) rc) eqn:Eq; cbn [Inv recover items popped lens cur saved tl].
    + apply Nat.eqb_eq in Eq. subst rc.
      assert (Hn : ic - (S (length rest) - 1) = S (ic - S (length rest))) by lia.
      rewrite Hn. cbn [firstn skipn rev].
      replace (S (length rest) - 1) with (length rest) by lia.
      rewrite bottom_all.
      assert (HS : (rev (firstn (ic - S (length rest)) (popped s)) ++ [x]) ++ rest
                   = rev (firstn (ic - S (length rest)) (popped s)) ++ bottom (S (length rest)) (x :: rest)).
      { rewrite <- app_assoc. cbn [app]. f_equal. symmetry. exact (bottom_all (x :: rest)). }
      rewrite HS. split.
      * repeat split; try lia. cbn [length]. lia. exact H4.
      * reflexivity.
    + apply Nat.eqb_neq in Eq.
      rewrite bottom_cons in * by lia. split.
      * repeat split; try lia. exact H4.
      * reflexivity.
Qed.

Lemma rev_firstn_tail k (l : list A) : k <= length l ->
  bottom k (rev l) = rev (firstn k l).
Proof.
  intros H. unfold bottom. rewrite rev_length.
  rewrite <- (firstn_skipn k l) at 2. rewrite rev_app_distr.
  rewrite skipn_app. rewrite rev_length, skipn_length.
  rewrite skipn_all2 by (rewrite rev_length, skipn_length; lia).
  replace (length l - k - (length l - k)) with 0 by lia. reflexivity.
Qed.

Lemma drop_ref s : SInv s -> SInv (sdrop s) /\ abs (sdrop s) = rdrop (abs s).
Proof.
  unfold SInv, abs, sdrop, rdrop. destruct (lens s) as [|[ic rc] ls] eqn:El; cbn [Inv recover items popped lens cur saved tl]; intros HI.
  - rewrite El. split; [exact HI|reflexivity].
  - destruct HI as (H1 & H2 & H3 & H4).
    set (n := ic - rc) in *. set (pp := popped s) in *. set (it := items s) in *.
    set (S0 := rev (firstn n pp) ++ bottom rc it) in *.
    assert (HlenS : length S0 = ic).
    { unfold S0. rewrite Sfun_length by lia. lia. }
    destruct ls as [|[oic orc] ls']; cbn [Inv recover items popped lens cur saved tl] in *.
    + split; [exact H4|reflexivity].
    + destruct H4 as (G1 & G2 & G3 & G4). rewrite HlenS in G2.
      destruct (Nat.ltb rc orc) eqn:Elt; cbn [Inv recover items popped lens cur saved tl].
      * apply Nat.ltb_lt in Elt.
        set (keep := orc - rc) in *. set (no := oic - orc) in *.
        assert (Hk : keep <= n) by lia.
        assert (Hfl : length (firstn keep pp) = keep) by (rewrite firstn_length; lia).
        assert (E1 : oic - rc = keep + no) by lia.
        assert (Efirst : firstn (oic - rc) (firstn keep pp ++ skipn n pp) = firstn keep pp ++ firstn no (skipn n pp)).
        { rewrite E1. rewrite firstn_app, Hfl.
          rewrite firstn_firstn. replace (Nat.min (keep + no) keep) with keep by lia.
          replace (keep + no - keep) with no by lia. reflexivity. }
        assert (Eskip : skipn (oic - rc) (firstn keep pp ++ skipn n pp) = skipn no (skipn n pp)).
        { rewrite E1. rewrite skipn_app, Hfl. rewrite skipn_all2 by lia.
          replace (keep + no - keep) with no by lia. reflexivity. }
        assert (ES : rev (firstn (oic - rc) (firstn keep pp ++ skipn n pp)) ++ bottom rc it
                     = rev (firstn no (skipn n pp)) ++ bottom orc S0).
        { rewrite Efirst, rev_app_distr, <- app_assoc. f_equal.
          unfold S0.
          (* bottom orc (rev seg ++ bottom rc it) with orc > rc *)
          unfold bottom at 2. rewrite app_length, rev_length, firstn_length, bottom_length by lia.
          replace (Nat.min n (length pp)) with n by lia.
          replace (n + rc - orc) with (n - keep) by lia.
          rewrite skipn_app, rev_length, firstn_length.
          replace (Nat.min n (length pp)) with n by lia.
          replace (n - keep - n) with 0 by lia. cbn [skipn].
          f_equal.
          (* skipn (n - keep) (rev (firstn n pp)) = rev (firstn keep pp) *)
          pose proof (rev_firstn_tail keep (firstn n pp)) as R.
          rewrite firstn_length in R. replace (Nat.min n (length pp)) with n in R by lia.
          specialize (R Hk). unfold bottom in R. rewrite rev_length, firstn_length in R.
          replace (Nat.min n (length pp)) with n in R by lia.
          rewrite R. rewrite firstn_firstn. replace (Nat.min keep n) with keep by lia. reflexivity. }
        rewrite ES, Eskip. split.
        -- repeat split; try lia.
           ++ rewrite skipn_length in G3. rewrite app_length, Hfl, skipn_length. lia.
           ++ exact G4.
        -- reflexivity.
      * apply Nat.ltb_ge in Elt.
        assert (EB : bottom orc it = bottom orc S0).
        { unfold S0. rewrite bottom_app by (rewrite bottom_length; lia).
          rewrite bottom_bottom by lia. reflexivity. }
        rewrite EB. split.
        -- repeat split; try lia. exact G4.
        -- reflexivity.
Qed.


Lemma firstn_app_exact (l1 l2 : list A) n : n = length l1 -> firstn n (l1 ++ l2) = l1.
Proof. intros ->. rewrite firstn_app, Nat.sub_diag, firstn_all. cbn. apply app_nil_r. Qed.

Lemma clear_ref s : SInv s -> SInv (sclear s) /\ abs (sclear s) = rclear (abs s).
Proof.
  unfold SInv, abs, sclear, rclear.
  destruct (lens s) as [|[ic rc] ls] eqn:El; cbn [Inv recover items popped lens cur saved]; intros HI.
  - split; [exact HI|reflexivity].
  - destruct HI as (H1 & H2 & H3 & H4).
    set (it := items s) in *. set (pp := popped s) in *.
    assert (Lb : length (rev (bottom rc it)) = rc) by (rewrite rev_length; apply bottom_length; exact H2).
    assert (E1 : firstn (ic - 0) (rev (bottom rc it) ++ pp)
                 = rev (bottom rc it) ++ firstn (ic - rc) pp).
    { rewrite firstn_app, Lb. rewrite firstn_all2 by lia. f_equal. f_equal. lia. }
    assert (E2 : skipn (ic - 0) (rev (bottom rc it) ++ pp) = skipn (ic - rc) pp).
    { rewrite skipn_app, Lb. rewrite skipn_all2 by lia. cbn [app]. f_equal. lia. }
    assert (E3 : rev (firstn (ic - 0) (rev (bottom rc it) ++ pp)) ++ bottom 0 []
                 = rev (firstn (ic - rc) pp) ++ bottom rc it).
    { rewrite E1, rev_app_distr, rev_involutive. unfold SnapStack.bottom at 1. cbn. rewrite app_nil_r. reflexivity. }
    rewrite E2, E3. split.
    + repeat split; try lia; try exact H4.
      rewrite app_length, Lb. lia.
    + reflexivity.
Qed.

(* ---- all histories ---- *)
Lemma pop_ref_total s : SInv s -> SInv (spop s) /\ abs (spop s) = rpop (abs s).
Proof.
  intros HI. destruct (items s) as [|x rest] eqn:E.
  - unfold SnapStack.spop. rewrite E. split; [exact HI|].
    unfold SnapStack.abs, SnapStack.rpop. cbn [cur saved]. rewrite E. reflexivity.
  - apply pop_ref; [exact HI|congruence].
Qed.

Lemma step_ref s o : SInv s -> SInv (sstep A s o) /\ abs (sstep A s o) = rstep A (abs s) o.
Proof.
  intros HI. destruct o; cbn [sstep rstep].
  - apply push_ref; exact HI.
  - apply pop_ref_total; exact HI.
  - apply clear_ref; exact HI.
  - apply snap_ref; exact HI.
  - apply restore_ref; exact HI.
  - apply drop_ref; exact HI.
Qed.

Lemma init_ref : SInv (sinit A) /\ abs (sinit A) = rinit A.
Proof. split; reflexivity. Qed.

Theorem history_ref : forall ops s, SInv s ->
  SInv (fold_left (sstep A) ops s) /\
  abs (fold_left (sstep A) ops s) = fold_left (rstep A) ops (abs s).
Proof.
  induction ops as [|o ops IH]; intros s HI; cbn [fold_left]; [split; [exact HI|reflexivity]|].
  destruct (step_ref s o HI) as [HI' E]. destruct (IH _ HI') as [H1 H2].
  split; [exact H1|]. rewrite H2, E. reflexivity.
Qed.

(* the visible contents after every history equal those of the full-copy reference *)
Theorem stack_refines : forall ops,
  items (fold_left (sstep A) ops (sinit A)) = cur (fold_left (rstep A) ops (rinit A)).
Proof.
  intros ops. destruct (history_ref ops (sinit A) (proj1 init_ref)) as [_ H].
  rewrite (proj2 init_ref) in H. rewrite <- H. reflexivity.
Qed.

End S.
