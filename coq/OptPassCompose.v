(* OptPassCompose.v — any sequence (any order, any repetition) of the two modelled passes preserves every parse:
   each pass preserves the hypotheses of the pass theorems, and the equivalence of tables is transitive. *)
From Coq Require Import List NArith ZArith Bool Arith Lia.
Import ListNotations.
From PP Require Import Base Syntax Spec SpecSyn SpecMono SpecEquiv CharClass Opt OptProof OptPass OptPassProof OptPassInline.
Open Scope nat_scope.

(* two tables parse alike from every rule of the first *)
Definition geq (g g' : grammar) : Prop :=
  forall rule input k, defined_in g rule = true ->
    (forall f r, parse g f rule input k = r -> r <> Fuel -> exists f', req (parse g' f' rule input k) r) /\
    (forall f r, parse g' f rule input k = r -> r <> Fuel -> exists f', req (parse g f' rule input k) r).

Lemma geq_refl g : geq g g.
Proof. intros rule input k _. split; intros f r H D; exists f; rewrite H; apply req_refl. Qed.

Lemma geq_trans g1 g2 g3 : (forall n, defined_in g1 n = true -> defined_in g2 n = true) ->
  geq g1 g2 -> geq g2 g3 -> geq g1 g3.
Proof.
  intros Dn A B rule input k D. destruct (A rule input k D) as [A1 A2].
  destruct (B rule input k (Dn rule D)) as [B1 B2]. split.
  - intros f r H Dr. destruct (A1 f r H Dr) as [f2 R2].
    assert (N2 : parse g2 f2 rule input k <> Fuel) by (eapply req_nofuel; eassumption).
    destruct (B1 f2 _ eq_refl N2) as [f3 R3]. exists f3. eapply req_trans; eassumption.
  - intros f r H Dr. destruct (B2 f r H Dr) as [f2 R2].
    assert (N2 : parse g2 f2 rule input k <> Fuel) by (eapply req_nofuel; eassumption).
    destruct (A2 f2 _ eq_refl N2) as [f1 R1]. exists f1. eapply req_trans; eassumption.
Qed.

(* ---------- the hypotheses of the pass theorems, together ---------- *)
Definition dom (bi : N -> bool) (g : grammar) : Prop :=
  names_nodup g = true /\ defined_in g SKIP_ID = false /\ all_grammar count_ok g = true /\ builtins_plain bi g = true.

(* a pass output: same names, silence and atomicity, rule by rule *)
Definition same_heads (g g' : grammar) : Prop :=
  Forall2 (fun r r' => r_name r' = r_name r /\ r_silent r' = r_silent r /\ r_kind r' = r_kind r) g g'.

Lemma same_heads_names g g' : same_heads g g' -> map r_name g' = map r_name g.
Proof. intros H. induction H as [|r r' g g' [Hn _] _ IH]; [reflexivity|]. cbn [map]. rewrite Hn, IH. reflexivity. Qed.

Lemma same_heads_defined g g' : same_heads g g' -> forall n, defined_in g' n = defined_in g n.
Proof.
  intros H. apply defined_in_F2. eapply Forall2_impl'; [|exact H]. intros r r' [Hn _]. exact Hn.
Qed.

Lemma same_heads_plain bi g g' : same_heads g g' -> builtins_plain bi g = true -> builtins_plain bi g' = true.
Proof.
  intros H. unfold builtins_plain. induction H as [|r r' g g' [Hn [Hs Hk]] _ IH]; [reflexivity|].
  cbn [forallb]. intros B. apply andb_prop in B. destruct B as [B1 B2]. rewrite (IH B2), andb_true_r.
  unfold plain_silent in *. rewrite Hn, Hs, Hk. exact B1.
Qed.

Lemma dom_heads bi g g' : same_heads g g' -> all_grammar count_ok g' = true -> dom bi g -> dom bi g'.
Proof.
  intros H C [ND [NS [_ BP]]]. repeat split.
  - unfold names_nodup. rewrite (same_heads_names g g' H). exact ND.
  - rewrite (same_heads_defined g g' H). exact NS.
  - exact C.
  - exact (same_heads_plain bi g g' H BP).
Qed.

(* ---------- count_ok is preserved ---------- *)
Lemma count_ok_unroll : forall f e, depth e <= f -> all_sub count_ok e = true ->
  all_sub count_ok (unroll_bu e) = true.
Proof.
  induction f as [|f IH]; intros e D C; [pose proof (depth_pos e); lia|].
  assert (L : forall es, depths es <= f -> all_list count_ok es = true ->
              all_list count_ok (map unroll_bu es) = true).
  { induction es as [|x es IHes]; intros Dl Cl; [reflexivity|].
    change (depths (x :: es)) with (Nat.max (depth x) (depths es)) in Dl.
    cbn [all_list forallb map] in *. apply andb_prop in Cl. destruct Cl as [C1 C2].
    rewrite (IH x); [|lia|exact C1]. apply IHes; [lia|exact C2]. }
  destruct e; try exact C.
  - rewrite unroll_seq, all_sub_seq. rewrite all_sub_seq in C. apply andb_prop in C. destruct C as [_ C].
    cbn [count_ok andb]. apply L; [change (S (depths es) <= S f) in D; lia|exact C].
  - rewrite unroll_alt, all_sub_alt. rewrite all_sub_alt in C. apply andb_prop in C. destruct C as [_ C].
    cbn [count_ok andb]. apply L; [change (S (depths es) <= S f) in D; lia|exact C].
  - cbn [all_sub] in C. apply andb_prop in C. destruct C as [_ C]. cbn [depth] in D.
    change (unroll_bu (EOpt e)) with (EOpt (unroll_bu e)). cbn [all_sub count_ok andb]. apply IH; [lia|exact C].
  - cbn [all_sub] in C. apply andb_prop in C. destruct C as [_ C]. cbn [depth] in D.
    rewrite unroll_star. cbn [all_sub count_ok andb]. apply IH; [lia|exact C].
  - cbn [all_sub] in C. apply andb_prop in C. destruct C as [_ C]. cbn [depth] in D.
    assert (A : all_sub count_ok (unroll_bu e) = true) by (apply IH; [lia|exact C]).
    rewrite unroll_plus, all_sub_seq. cbn [count_ok andb all_list forallb all_sub]. rewrite A, !andb_true_r.
    destruct (strip_cases e) as [[x ->]|E]; [|rewrite E; exact A].
    change (unroll_bu (EGrp x None)) with (EGrp (unroll_bu x) None) in *. cbn [strip_grp].
    cbn [all_sub count_ok andb] in A. exact A.
  - cbn [all_sub] in C. apply andb_prop in C. destruct C as [_ C]. cbn [depth] in D.
    assert (A : all_sub count_ok (unroll_bu e) = true) by (apply IH; [lia|exact C]).
    rewrite unroll_repn, all_sub_seq. cbn [count_ok andb]. apply all_list_repeat. exact A.
  - cbn [all_sub] in C. apply andb_prop in C. destruct C as [_ C]. cbn [depth] in D.
    assert (A : all_sub count_ok (unroll_bu e) = true) by (apply IH; [lia|exact C]).
    rewrite unroll_repmin, all_sub_seq. cbn [count_ok andb]. rewrite all_list_app, all_list_repeat by exact A.
    cbn [all_list forallb all_sub count_ok andb]. rewrite A. reflexivity.
  - cbn [all_sub] in C. apply andb_prop in C. destruct C as [_ C]. cbn [depth] in D.
    assert (A : all_sub count_ok (unroll_bu e) = true) by (apply IH; [lia|exact C]).
    rewrite unroll_repmax, all_sub_seq. cbn [count_ok andb]. apply all_list_repeat.
    cbn [all_sub count_ok andb]. exact A.
  - cbn [all_sub] in C. apply andb_prop in C. destruct C as [_ C]. cbn [depth] in D.
    assert (A : all_sub count_ok (unroll_bu e) = true) by (apply IH; [lia|exact C]).
    rewrite unroll_repmm, all_sub_seq. cbn [count_ok andb]. rewrite all_list_app.
    rewrite all_list_repeat by exact A. apply all_list_repeat. cbn [all_sub count_ok andb]. exact A.
  - cbn [all_sub] in C. apply andb_prop in C. destruct C as [_ C]. cbn [depth] in D.
    change (unroll_bu (EAnd e)) with (EAnd (unroll_bu e)). cbn [all_sub count_ok andb]. apply IH; [lia|exact C].
  - cbn [all_sub] in C. apply andb_prop in C. destruct C as [_ C]. cbn [depth] in D.
    change (unroll_bu (ENot e)) with (ENot (unroll_bu e)). cbn [all_sub count_ok andb]. apply IH; [lia|exact C].
  - cbn [all_sub] in C. apply andb_prop in C. destruct C as [_ C]. cbn [depth] in D.
    change (unroll_bu (EGrp e tag)) with (EGrp (unroll_bu e) tag). cbn [all_sub count_ok andb]. apply IH; [lia|exact C].
  - cbn [all_sub] in C. apply andb_prop in C. destruct C as [_ C]. cbn [depth] in D.
    change (unroll_bu (EPush e)) with (EPush (unroll_bu e)). cbn [all_sub count_ok andb]. apply IH; [lia|exact C].
Qed.

Lemma cong_count (R : expr -> expr -> Prop) x y :
  (forall a b, R a b -> all_sub count_ok a = true -> all_sub count_ok b = true) ->
  cong R x y -> all_sub count_ok x = true -> all_sub count_ok y = true.
Proof.
  intros HR C. 
  assert (L : forall a b, Forall2 R a b -> all_list count_ok a = true -> all_list count_ok b = true).
  { intros a b H. induction H as [|u v a b Huv _ IH]; [reflexivity|].
    cbn [all_list forallb]. intros K. apply andb_prop in K. destruct K as [K1 K2].
    rewrite (HR u v Huv K1). apply IH. exact K2. }
  destruct C as [e Lf|a b H|a b H|a b H|a b H|a b H|a b n H|a b n H|a b n H|a b m n H
                |a b H|a b H|a b t H|a b H]; intros K;
    try exact K;
    try (cbn [all_sub] in *; apply andb_prop in K; destruct K as [K1 K2];
         cbn [count_ok] in *; rewrite ?K1; cbn [andb]; apply (HR _ _ H K2)).
  - rewrite all_sub_seq in *. apply andb_prop in K. destruct K as [_ K]. cbn [count_ok andb]. exact (L a b H K).
  - rewrite all_sub_alt in *. apply andb_prop in K. destruct K as [_ K]. cbn [count_ok andb]. exact (L a b H K).
Qed.

Lemma count_ok_inline bi g : all_grammar count_ok g = true ->
  forall fu e e', map_td (inline_builtin1 bi g) fu e = Some e' ->
  all_sub count_ok e = true -> all_sub count_ok e' = true.
Proof.
  intros G. induction fu as [|fu IH]; intros e e' H C; [discriminate|].
  apply map_td_shape in H.
  eapply cong_count; [|exact H|].
  - intros a b K. apply IH. exact K.
  - destruct e; try exact C. destruct tag as [t|]; [exact C|].
    cbn [inline_builtin1]. destruct (bi n && negb (N.eqb n EOI_ID)); [|exact C].
    destruct (lookup g n) as [r|] eqn:L; [|exact C].
    exact (all_grammar_lookup count_ok g n r G L).
Qed.

(* ---------- steps ---------- *)
Inductive pstep (bi : N -> bool) : grammar -> grammar -> Prop :=
| PS_unroll g : pstep bi g (pass_unroll bi g)
| PS_inline g fuel g' : gdepth g <= 2 * fuel -> pass_inline_builtin bi fuel g = Some g' -> pstep bi g g'.

Inductive psteps (bi : N -> bool) : grammar -> grammar -> Prop :=
| PSS_nil g : psteps bi g g
| PSS_cons g g' g'' : pstep bi g g' -> psteps bi g' g'' -> psteps bi g g''.

Lemma unroll_heads bi : forall g, same_heads g (pass_unroll bi g).
Proof.
  induction g as [|r g IH]; [constructor|]. unfold pass_unroll, step_bu. cbn [map]. constructor; [|exact IH].
  destruct (bi (r_name r)); repeat split; reflexivity.
Qed.

Lemma unroll_count bi : forall g, all_grammar count_ok g = true -> all_grammar count_ok (pass_unroll bi g) = true.
Proof.
  induction g as [|r g IH]; intros C; [reflexivity|]. unfold pass_unroll, step_bu, all_grammar in *.
  cbn [map forallb] in *. apply andb_prop in C. destruct C as [C1 C2]. rewrite (IH C2), andb_true_r.
  destruct (bi (r_name r)); [exact C1|]. cbn [set_body r_body].
  exact (count_ok_unroll (depth (r_body r)) (r_body r) (le_n _) C1).
Qed.

Lemma inline_heads_count bi fuel g g' : all_grammar count_ok g = true ->
  pass_inline_builtin bi fuel g = Some g' -> same_heads g g' /\ all_grammar count_ok g' = true.
Proof.
  intros G H. unfold pass_inline_builtin in H. apply opt_rules_map in H.
  assert (K : forall l l', Forall2 (fun r r' =>
              (if bi (r_name r) then Some r
               else match map_td (inline_builtin1 bi g) fuel (r_body r) with
                    | Some b => Some (set_body r b) | None => None end) = Some r') l l' ->
            all_grammar count_ok l = true -> same_heads l l' /\ all_grammar count_ok l' = true).
  { intros l l' F. induction F as [|r r' l l' E _ IH]; intros C; [split; [constructor|reflexivity]|].
    unfold all_grammar in *. cbn [forallb] in *. apply andb_prop in C. destruct C as [C1 C2].
    destruct (IH C2) as [I1 I2]. rewrite I2, andb_true_r.
    destruct (bi (r_name r)).
    - inversion E; subst. split; [constructor; [repeat split; reflexivity|exact I1]|exact C1].
    - destruct (map_td (inline_builtin1 bi g) fuel (r_body r)) as [b|] eqn:M; [|discriminate].
      inversion E; subst. split; [constructor; [repeat split; reflexivity|exact I1]|].
      cbn [set_body r_body]. exact (count_ok_inline bi g G fuel (r_body r) b M C1). }
  exact (K g g' H G).
Qed.

Lemma pstep_dom bi g g' : dom bi g -> pstep bi g g' -> dom bi g' /\ same_heads g g'.
Proof.
  intros D S. pose proof D as [_ [_ [C _]]]. destruct S as [g|g fuel g' GD H].
  - split; [|apply unroll_heads]. apply (dom_heads bi g); [apply unroll_heads|apply unroll_count; exact C|exact D].
  - destruct (inline_heads_count bi fuel g g' C H) as [Hh Hc]. split; [|exact Hh].
    exact (dom_heads bi g g' Hh Hc D).
Qed.

Lemma pstep_geq bi g g' : dom bi g -> pstep bi g g' -> geq g g'.
Proof.
  intros [ND [NS [C BP]]] S. destruct S as [g|g fuel g' GD H]; intros rule input k Dr.
  - exact (pass_unroll_sound bi g ND NS C rule input k Dr).
  - exact (pass_inline_builtin_sound bi fuel g g' ND NS BP GD H rule input k Dr).
Qed.

(* any order, any repetition of the two passes *)
Theorem psteps_geq bi : forall g g', psteps bi g g' -> dom bi g -> geq g g'.
Proof.
  intros g g' S. induction S as [g|g g' g'' S1 _ IH]; intros D; [apply geq_refl|].
  destruct (pstep_dom bi g g' D S1) as [D' Hh].
  eapply geq_trans; [|exact (pstep_geq bi g g' D S1)|exact (IH D')].
  intros n Dn. rewrite (same_heads_defined g g' Hh). exact Dn.
Qed.
