(* OptMono.v — first step towards "the translation validator is monotone in its fuel": its two literal collectors
   (`lits` for skip-until, `flat_terms` for squashed choices) are. (Monotonicity of `ochk` itself is what the proofs of
   the in-place passes need, to carry "the current body of every rule is a validated image of its original body"
   through the table while different rules are validated at different depths; not done.) *)
From Coq Require Import List NArith ZArith Bool Arith Lia.
Import ListNotations.
From PP Require Import Base Syntax Spec SpecSyn SpecEquiv CharClass Opt OptProof OptPass OptPassProof OptPassInline.
Open Scope nat_scope.

Section M.
Variables g g' : grammar.

Lemma lits_mono : forall f e ws, lits g f e = Some ws -> lits g (S f) e = Some ws.
Proof.
  induction f as [|f IH]; intros e ws H; [discriminate|].
  assert (L : forall es ws0,
    fold_right (fun x acc => match lits g f x, acc with Some a, Some b => Some (a ++ b) | _, _ => None end) (Some []) es = Some ws0 ->
    fold_right (fun x acc => match lits g (S f) x, acc with Some a, Some b => Some (a ++ b) | _, _ => None end) (Some []) es = Some ws0).
  { induction es as [|x es IHes]; intros ws0 K; [exact K|]. cbn [fold_right] in *.
    destruct (lits g f x) as [a|] eqn:E; [|discriminate].
    match type of K with match ?t with _ => _ end = _ => destruct t as [b|] eqn:E2; [|discriminate] end.
    rewrite (IH x a E), (IHes b eq_refl). exact K. }
  destruct e; try discriminate; cbn [lits] in H |- *.
  - exact H.
  - destruct (lookup g n) as [r|]; [|destruct tag; discriminate].
    destruct tag; [discriminate|]. apply IH. exact H.
  - apply L. exact H.
  - destruct tag; [discriminate|]. apply IH. exact H.
Qed.

Lemma flat_terms_mono : forall f e ts, flat_terms g f e = Some ts -> flat_terms g (S f) e = Some ts.
Proof.
  induction f as [|f IH]; intros e ts H; [discriminate|].
  assert (L : forall es ts0,
    fold_right (fun x acc => match flat_terms g f x, acc with Some a, Some b => Some (a ++ b) | _, _ => None end) (Some []) es = Some ts0 ->
    fold_right (fun x acc => match flat_terms g (S f) x, acc with Some a, Some b => Some (a ++ b) | _, _ => None end) (Some []) es = Some ts0).
  { induction es as [|x es IHes]; intros ts0 K; [exact K|]. cbn [fold_right] in *.
    destruct (flat_terms g f x) as [a|] eqn:E; [|discriminate].
    match type of K with match ?t with _ => _ end = _ => destruct t as [b|] eqn:E2; [|discriminate] end.
    rewrite (IH x a E), (IHes b eq_refl). exact K. }
  destruct e; cbn [flat_terms] in H |- *; try exact H.
  - destruct tag; [exact H|]. destruct (lookup g n) as [r|]; [|exact H].
    destruct (plain_silent r); [|exact H]. apply IH. exact H.
  - apply L. exact H.
Qed.

End M.
