(* OptMono.v — the translation validator is monotone in its fuel: what it accepts with fuel f it accepts with any
   larger fuel (`ochk_mono_le`, `ochk_grammar_mono`), and so are its two literal collectors (`lits` for skip-until,
   `flat_terms` for squashed choices). This is what proofs of the in-place passes need, to carry "the current body
   of every rule is a validated image of its original body" through the table while different rules are validated
   at different depths; it also shows that the fuel the driver gives the validator is not a cliff. *)
From Coq Require Import List NArith ZArith Bool Arith Lia.
Import ListNotations.
From PP Require Import Base Syntax Spec SpecSyn SpecEquiv CharClass Opt OptProof OptPass OptPassProof OptPassInline.
Open Scope nat_scope.

Section M.
Variables g g' : grammar.

Lemma lits_mono : forall f e ws, lits g f e = Some ws -> lits g (S f) e = Some ws.
Proof.
  induction f as [|f IH]; intros e ws H; [discriminate|].
  assert (L : forall es ws0,
    fold_right (fun x acc => match lits g f x, acc with Some a, Some b => Some (a ++ b) | _, _ => None end) (Some []) es = Some ws0 ->
    fold_right (fun x acc => match lits g (S f) x, acc with Some a, Some b => Some (a ++ b) | _, _ => None end) (Some []) es = Some ws0).
  { induction es as [|x es IHes]; intros ws0 K; [exact K|]. cbn [fold_right] in *.
    destruct (lits g f x) as [a|] eqn:E; [|discriminate].
    match type of K with match ?t with _ => _ end = _ => destruct t as [b|] eqn:E2; [|discriminate] end.
    rewrite (IH x a E), (IHes b eq_refl). exact K. }
  destruct e; try discriminate; cbn [lits] in H |- *.
  - exact H.
  - destruct (lookup g n) as [r|]; [|destruct tag; discriminate].
    destruct tag; [discriminate|]. apply IH. exact H.
  - apply L. exact H.
  - destruct tag; [discriminate|]. apply IH. exact H.
Qed.

Lemma flat_terms_mono : forall f e ts, flat_terms g f e = Some ts -> flat_terms g (S f) e = Some ts.
Proof.
  induction f as [|f IH]; intros e ts H; [discriminate|].
  assert (L : forall es ts0,
    fold_right (fun x acc => match flat_terms g f x, acc with Some a, Some b => Some (a ++ b) | _, _ => None end) (Some []) es = Some ts0 ->
    fold_right (fun x acc => match flat_terms g (S f) x, acc with Some a, Some b => Some (a ++ b) | _, _ => None end) (Some []) es = Some ts0).
  { induction es as [|x es IHes]; intros ts0 K; [exact K|]. cbn [fold_right] in *.
    destruct (flat_terms g f x) as [a|] eqn:E; [|discriminate].
    match type of K with match ?t with _ => _ end = _ => destruct t as [b|] eqn:E2; [|discriminate] end.
    rewrite (IH x a E), (IHes b eq_refl). exact K. }
  destruct e; cbn [flat_terms] in H |- *; try exact H.
  - destruct tag; [exact H|]. destruct (lookup g n) as [r|]; [|exact H].
    destruct (plain_silent r); [|exact H]. apply IH. exact H.
  - apply L. exact H.
Qed.

End M.

(* ---------- the local iterators are monotone in their test ---------- *)
Lemma all2_mono (P Q : expr -> expr -> bool) : (forall x y, P x y = true -> Q x y = true) -> forall xs ys,
  (fix all2 (xs ys : list expr) : bool :=
     match xs, ys with [], [] => true | x :: xs', y :: ys' => P x y && all2 xs' ys' | _, _ => false end) xs ys = true ->
  (fix all2 (xs ys : list expr) : bool :=
     match xs, ys with [], [] => true | x :: xs', y :: ys' => Q x y && all2 xs' ys' | _, _ => false end) xs ys = true.
Proof.
  intros PQ. induction xs as [|x xs IH]; intros [|y ys] H; try discriminate; [reflexivity|].
  apply andb_prop in H. destruct H as [H1 H2]. rewrite (PQ _ _ H1). exact (IH ys H2).
Qed.
Lemma alln_mono (P Q : expr -> expr -> bool) : (forall x y, P x y = true -> Q x y = true) -> forall x ys,
  (fix alln (x : expr) (ys : list expr) : bool :=
     match ys with [] => true | y :: ys' => P x y && alln x ys' end) x ys = true ->
  (fix alln (x : expr) (ys : list expr) : bool :=
     match ys with [] => true | y :: ys' => Q x y && alln x ys' end) x ys = true.
Proof.
  intros PQ x. induction ys as [|y ys IH]; intros H; [reflexivity|].
  apply andb_prop in H. destruct H as [H1 H2]. rewrite (PQ _ _ H1). exact (IH H2).
Qed.
Lemma allopt_mono (P Q : expr -> expr -> bool) : (forall x y, P x y = true -> Q x y = true) -> forall x ys,
  (fix allopt (x : expr) (ys : list expr) : bool :=
     match ys with [] => true | EOpt y :: ys' => P x y && allopt x ys' | _ => false end) x ys = true ->
  (fix allopt (x : expr) (ys : list expr) : bool :=
     match ys with [] => true | EOpt y :: ys' => Q x y && allopt x ys' | _ => false end) x ys = true.
Proof.
  intros PQ x. induction ys as [|y ys IH]; intros H; [reflexivity|].
  destruct y; try discriminate.
  apply andb_prop in H. destruct H as [H1 H2]. rewrite (PQ _ _ H1). exact (IH H2).
Qed.

Section Mono.
Variables g g' : grammar.

Ltac crack :=
  repeat match goal with
  | H : _ && _ = true |- _ => apply andb_prop in H; destruct H
  | H : _ || _ = true |- _ => apply orb_prop in H; destruct H
  | H : match ?t with _ => _ end = true |- _ => destruct t eqn:?; try discriminate
  end.

Lemma ochk_mono : forall f toff e e', ochk g g' f toff e e' = true -> ochk g g' (S f) toff e e' = true.
Proof.
  induction f as [|f IH]; intros toff e e' H; [discriminate|].
  pose (F := S f).
  assert (IHt : forall x y, ochk g g' f toff x y = true -> ochk g g' F toff x y = true) by (intros; apply IH; assumption).
  assert (Hl : forall x ws, lits g f x = Some ws -> lits g F x = Some ws) by (intros; apply lits_mono; assumption).
  assert (Hf : forall x ts, flat_terms g f x = Some ts -> flat_terms g F x = Some ts) by (intros; apply flat_terms_mono; assumption).
  change (ochk g g' (S F) toff e e' = true). clearbody F. clear IH.
  destruct e; destruct e'; cbn [ochk] in H |- *; try discriminate; try exact H;
    crack;
    repeat match goal with
       | K : ochk g g' f toff _ _ = true |- _ => apply IHt in K
       | K : lits g f _ = Some _ |- _ => apply Hl in K
       | K : flat_terms g f _ = Some _ |- _ => apply Hf in K
       end;
    repeat match goal with
       | K : _ = true |- _ =>
           first [ apply (all2_mono (ochk g g' f toff) (ochk g g' F toff) IHt) in K
                 | apply (alln_mono (ochk g g' f toff) (ochk g g' F toff) IHt) in K
                 | apply (allopt_mono (ochk g g' f toff) (ochk g g' F toff) IHt) in K ]
       end;
    repeat match goal with K : ?l = ?r |- _ => rewrite K; clear K end;
    cbn [andb orb]; rewrite ?orb_true_r; try reflexivity.
Qed.

Lemma ochk_mono_le f1 f2 toff e e' : f1 <= f2 -> ochk g g' f1 toff e e' = true -> ochk g g' f2 toff e e' = true.
Proof. intros L H. induction L as [|m _ IH]; [exact H|]. apply ochk_mono. exact IH. Qed.

Lemma ochk_rule_mono f r' : ochk_rule g g' f r' = true -> ochk_rule g g' (S f) r' = true.
Proof.
  unfold ochk_rule. destruct (lookup g (r_name r')) as [r|]; [|discriminate]. intros H.
  apply andb_prop in H. destruct H as [H1 H2]. rewrite H1. apply ochk_mono. exact H2.
Qed.

(* the verdict on a whole table does not depend on giving the validator "enough" fuel exactly: more never hurts *)
Theorem ochk_grammar_mono f : ochk_grammar g g' f = true -> ochk_grammar g g' (S f) = true.
Proof.
  unfold ochk_grammar. intros H. apply andb_prop in H. destruct H as [H H3]. apply andb_prop in H. destruct H as [H1 H2].
  rewrite H2, H3, !andb_true_r. rewrite forallb_forall in *. intros r' I. specialize (H1 r' I).
  apply orb_prop in H1. destruct H1 as [H1|H1]; [rewrite H1; reflexivity|].
  rewrite (ochk_rule_mono f r' H1). apply orb_true_r.
Qed.
End Mono.
