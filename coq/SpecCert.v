(* SpecCert.v — computes the certificates (nullable rules, ranks) that SpecTerm.wf_grammar
   checks, by iterating to a fixpoint; nothing here is trusted: the result is only used as the
   argument of wf_grammar, whose soundness is SpecTerm.run_terminates. *)
From Coq Require Import List NArith Bool Arith.
Import ListNotations.
From PP Require Import Base Syntax Spec SpecTerm.

Definition lookup_tab (tab : list (N * bool)) (n : N) : bool :=
  match find (fun p => N.eqb (fst p) n) tab with Some (_, b) => b | None => false end.

(* least fixpoint of "a rule is nullable when its body is", reached after |g| rounds *)
Fixpoint nul_iter (k : nat) (g : grammar) (tab : list (N * bool)) : list (N * bool) :=
  match k with
  | O => tab
  | S k' => nul_iter k' g (map (fun r => (r_name r, nullable (lookup_tab tab) (r_body r))) g)
  end.
Definition auto_nul (g : grammar) : N -> bool :=
  lookup_tab (nul_iter (S (length g)) g (map (fun r => (r_name r, false)) g)).

Definition lookup_rank (tab : list (N * nat)) (n : N) : nat :=
  match find (fun p => N.eqb (fst p) n) tab with Some (_, b) => b | None => 0 end.

(* longest chain of left-position references, reached after |g| rounds when there is no
   left recursion (otherwise the ranks keep growing and wf_grammar rejects) *)
Fixpoint rank_iter (k : nat) (nul : N -> bool) (g : grammar) (tab : list (N * nat)) : list (N * nat) :=
  match k with
  | O => tab
  | S k' =>
      rank_iter k' nul g
        (map (fun r => (r_name r,
                        fold_right (fun m acc => Nat.max acc (S (lookup_rank tab m))) 0
                          (left_refs nul (may_skip r) (r_body r)))) g)
  end.
Definition auto_rank (g : grammar) : N -> nat :=
  lookup_rank (rank_iter (S (length g)) (auto_nul g) g (map (fun r => (r_name r, 0)) g)).

Definition wf_auto (g : grammar) : bool := wf_grammar (auto_nul g) (auto_rank g) g.

Theorem wf_auto_terminates : forall g, wf_auto g = true ->
  forall rule input k, exists f, parse g f rule input k <> Fuel.
Proof. intros g H. exact (parse_terminates (auto_nul g) (auto_rank g) g H). Qed.
