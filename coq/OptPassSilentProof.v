(* OptPassSilentProof.v — the "inline silent" pass (OptPassSilent.pass_inline_silent: bottom-up, in place, rules
   rewritten in table order) only produces tables the proved validator accepts. Invariant carried through the fold:
   the current body of every rule is a validated image of its original body (at a fuel that grows by the depth of
   the table per rewritten rule; OptMono.ochk_mono_le lifts the older facts). *)
From Coq Require Import List NArith ZArith Bool Arith Lia.
Import ListNotations.
From PP Require Import Base Syntax Spec SpecSyn SpecEquiv CharClass Opt OptProof OptPass OptPassProof OptPassInline
  OptPassCompose OptPassSilent OptPassHeads OptMono.
Open Scope nat_scope.

(* ---------- lookups in updated / head-equal tables ---------- *)
Lemma lookup_update tbl n b m :
  lookup (update tbl n b) m =
  match lookup tbl m with
  | Some r => Some (if N.eqb (r_name r) n then set_body r b else r)
  | None => None
  end.
Proof.
  induction tbl as [|r tbl IH]; [reflexivity|]. unfold update in *. cbn [map lookup].
  assert (E : r_name (if N.eqb (r_name r) n then set_body r b else r) = r_name r)
    by (destruct (N.eqb (r_name r) n); reflexivity).
  rewrite E. destruct (N.eqb (r_name r) m); [reflexivity|exact IH].
Qed.

Lemma same_heads_lookup g tbl : same_heads g tbl -> forall m,
  match lookup g m, lookup tbl m with
  | Some r, Some rt => r_name rt = r_name r /\ r_silent rt = r_silent r /\ r_kind rt = r_kind r
  | None, None => True
  | _, _ => False
  end.
Proof.
  intros H m. induction H as [|r rt g tbl [A1 [A2 A3]] _ IH]; [exact I|].
  cbn [lookup]. rewrite A1. destruct (N.eqb (r_name r) m); [repeat split; assumption|exact IH].
Qed.

Lemma plain_silent_heads r rt : r_name rt = r_name r -> r_silent rt = r_silent r -> r_kind rt = r_kind r ->
  plain_silent rt = plain_silent r.
Proof. intros A B C. unfold plain_silent. rewrite A, B, C. reflexivity. Qed.

(* ---------- map_bu with a function that only rewrites references ---------- *)
Lemma map_bu_shape (fn : expr -> expr) : (forall e, childless e = false -> fn e = e) ->
  forall e, childless e = false ->
  cong (fun a b => b = map_bu fn a /\ depth a < depth e) e (map_bu fn e).
Proof.
  intros Hfn e C.
  assert (L : forall es, Forall2 (fun a b => b = map_bu fn a /\ depth a < S (depths es)) es (map (map_bu fn) es)).
  { intros es.
    assert (K : forall l, (forall x, In x l -> In x es) ->
              Forall2 (fun a b => b = map_bu fn a /\ depth a < S (depths es)) l (map (map_bu fn) l)).
    { induction l as [|x l IH]; intros Hin; constructor.
      - split; [reflexivity|]. pose proof (depths_In x es (Hin x (or_introl eq_refl))). lia.
      - apply IH. intros y Hy. apply Hin. right. exact Hy. }
    apply K. intros x Hx. exact Hx. }
  destruct e; try discriminate; cbn [map_bu]; rewrite Hfn by reflexivity; constructor;
    first [apply L | (split; [reflexivity|cbn [depth]; lia])].
Qed.

Section P.
Variables g g' : grammar.
Hypothesis Hdef : forall n, defined_in g' n = defined_in g n.
Variable bi : N -> bool.

(* the current table: same heads as the original, every body a validated image of the original body *)
Definition Inv (F : nat) (tbl : grammar) : Prop :=
  same_heads g tbl /\
  forall n r rt, lookup g n = Some r -> lookup tbl n = Some rt ->
    forall toff, ochk g g' F toff (r_body r) (r_body rt) = true.

Lemma inline_silent1_id tbl e : childless e = false -> inline_silent1 bi tbl e = e.
Proof. destruct e; try discriminate; reflexivity. Qed.

Lemma ochk_silent_bu F tbl : Inv F tbl -> forall f e toff, depth e <= f ->
  ochk g g' (f + F) toff e (map_bu (inline_silent1 bi tbl) e) = true.
Proof.
  intros [Hh HI]. induction f as [|f IH]; intros e toff D; [pose proof (depth_pos e); lia|].
  destruct (childless e) eqn:C.
  - (* a leaf: only an untagged reference may be rewritten *)
    assert (Same : map_bu (inline_silent1 bi tbl) e = e -> ochk g g' (S f + F) toff e (map_bu (inline_silent1 bi tbl) e) = true).
    { intros ->. apply (ochk_refl g g' Hdef). destruct e; try discriminate; cbn [depth]; lia. }
    destruct e; try discriminate; try (apply Same; reflexivity).
    destruct tag as [t|]; [apply Same; reflexivity|].
    cbn [map_bu inline_silent1] in *.
    destruct (bi n); [apply Same; reflexivity|].
    destruct (lookup tbl n) as [rt|] eqn:Lt; [|apply Same; reflexivity].
    destruct (plain_silent rt && negb (refs_to bi _ tbl n [r_body rt] [])) eqn:B; [|apply Same; reflexivity].
    apply andb_prop in B. destruct B as [P _].
    pose proof (same_heads_lookup g tbl Hh n) as SL. rewrite Lt in SL.
    destruct (lookup g n) as [r|] eqn:Lg; [|contradiction]. destruct SL as [A1 [A2 A3]].
    change (S f + F) with (S (f + F)).
    apply (ochk_ref_inline g g' (f + F) toff n r (r_body rt) Lg).
    + rewrite <- (plain_silent_heads r rt A1 A2 A3). exact P.
    + apply (ochk_mono_le g g' F (f + F)); [lia|]. exact (HI n r rt Lg Lt toff).
  - change (S f + F) with (S (f + F)).
    eapply (cong_ochk g g' Hdef); [|apply map_bu_shape; [intros x Cx; apply inline_silent1_id; exact Cx|exact C]].
    intros a b [-> Da]. apply IH. lia.
Qed.

Lemma Inv_mono F F' tbl : F <= F' -> Inv F tbl -> Inv F' tbl.
Proof.
  intros L [Hh HI]. split; [exact Hh|]. intros n r rt Lg Lt toff.
  apply (ochk_mono_le g g' F F'); [exact L|]. exact (HI n r rt Lg Lt toff).
Qed.

Lemma Inv_update F tbl n rg rn : Inv F tbl -> lookup g n = Some rg -> lookup tbl n = Some rn ->
  r_body rn = r_body rg ->
  Inv (gdepth g + F) (update tbl n (map_bu (inline_silent1 bi tbl) (r_body rn))).
Proof.
  intros I Lg Lt Eb. pose proof I as [Hh HI]. split.
  - eapply same_heads_trans; [exact Hh|apply update_heads].
  - intros m r rt Lgm Lu toff. rewrite lookup_update in Lu.
    destruct (lookup tbl m) as [rm|] eqn:Ltm; [|discriminate]. inversion Lu; subst rt; clear Lu.
    pose proof (lookup_name' tbl m rm Ltm) as Nm.
    destruct (N.eqb (r_name rm) n) eqn:E.
    + apply N.eqb_eq in E. rewrite Nm in E. subst n.
      rewrite Lg in Lgm. inversion Lgm; subst r. rewrite Lt in Ltm. inversion Ltm; subst rm.
      cbn [set_body r_body]. rewrite Eb. apply (ochk_silent_bu F tbl I).
      apply (gdepth_In g rg). exact (lookup_In g m rg Lg).
    + apply (ochk_mono_le g g' F (gdepth g + F)); [lia|]. exact (HI m r rm Lgm Ltm toff).
Qed.

Definition sstep (tbl : grammar) (n : N) : grammar :=
  if bi n then tbl
  else match lookup tbl n with
       | Some r => update tbl n (map_bu (inline_silent1 bi tbl) (r_body r))
       | None => tbl
       end.

Lemma fold_Inv : forall order tbl F, nodupN order = true ->
  (forall m, In m order -> lookup tbl m = lookup g m) -> Inv F tbl ->
  Inv (length order * gdepth g + F) (fold_left sstep order tbl).
Proof.
  induction order as [|n order IH]; intros tbl F ND Fresh I; [exact I|].
  cbn [nodupN] in ND. apply andb_prop in ND. destruct ND as [N1 N2]. apply negb_true_iff in N1.
  cbn [fold_left length].
  replace (S (length order) * gdepth g + F) with (length order * gdepth g + (gdepth g + F)) by lia.
  assert (Other : forall m, In m order -> m <> n).
  { intros m Hm ->. rewrite (memN_In n order Hm) in N1. discriminate. }
  apply IH; [exact N2| |].
  - intros m Hm. unfold sstep. destruct (bi n); [apply Fresh; right; exact Hm|].
    destruct (lookup tbl n) as [rn|] eqn:Ln; [|apply Fresh; right; exact Hm].
    rewrite lookup_update. rewrite (Fresh m (or_intror Hm)).
    destruct (lookup g m) as [rm|] eqn:Lm; [|reflexivity].
    pose proof (lookup_name' g m rm Lm) as Nm.
    destruct (N.eqb (r_name rm) n) eqn:E; [|reflexivity].
    apply N.eqb_eq in E. rewrite Nm in E. exfalso. exact (Other m Hm E).
  - unfold sstep. destruct (bi n); [apply (Inv_mono F); [lia|exact I]|].
    destruct (lookup tbl n) as [rn|] eqn:Ln; [|apply (Inv_mono F); [lia|exact I]].
    pose proof (Fresh n (or_introl eq_refl)) as Fn. rewrite Ln in Fn. symmetry in Fn.
    exact (Inv_update F tbl n rn rn I Fn Ln eq_refl).
Qed.
End P.

Lemma pass_inline_silent_fold bi order g : pass_inline_silent bi order g = fold_left (sstep bi) order g.
Proof. reflexivity. Qed.

Theorem pass_inline_silent_validated bi order g :
  names_nodup g = true -> defined_in g SKIP_ID = false -> nodupN order = true ->
  ochk_grammar g (pass_inline_silent bi order g) (length order * gdepth g + gdepth g) = true.
Proof.
  intros ND NS NO. set (g' := pass_inline_silent bi order g).
  pose proof (inline_silent_heads bi order g) as Hh. fold g' in Hh.
  assert (Hd : forall n, defined_in g' n = defined_in g n) by (apply same_heads_defined; exact Hh).
  assert (I0 : Inv g g' (gdepth g) g).
  { split; [apply same_heads_refl|]. intros n r rt L1 L2 toff. rewrite L1 in L2. inversion L2; subst rt.
    apply (ochk_refl g g' Hd). apply (gdepth_In g r). exact (lookup_In g n r L1). }
  pose proof (fold_Inv g g' Hd bi order g (gdepth g) NO (fun m _ => eq_refl) I0) as [_ HI].
  rewrite <- pass_inline_silent_fold in HI. fold g' in HI.
  assert (ND' : names_nodup g' = true).
  { unfold names_nodup. rewrite (same_heads_names g g' Hh). exact ND. }
  unfold ochk_grammar. rewrite NS. cbn [negb]. rewrite andb_true_r. apply andb_true_intro. split.
  - apply forallb_forall. intros r' Hr'. apply orb_true_intro. right. unfold ochk_rule.
    pose proof (lookup_nodup g' r' ND' Hr') as L'.
    pose proof (same_heads_lookup g g' Hh (r_name r')) as SL. rewrite L' in SL.
    destruct (lookup g (r_name r')) as [r|] eqn:L; [|contradiction]. destruct SL as [_ [A2 A3]].
    rewrite A2, A3, Bool.eqb_reflx, kind_eqb_refl. cbn [andb].
    exact (HI (r_name r') r r' L L' (trivia_off g r)).
  - apply forallb_forall. intros r Hr. rewrite Hd. unfold defined_in.
    rewrite (lookup_nodup g r ND Hr). reflexivity.
Qed.

Theorem pass_inline_silent_sound bi order g :
  names_nodup g = true -> defined_in g SKIP_ID = false -> nodupN order = true ->
  forall rule input k, defined_in g rule = true ->
    (forall f r, parse g f rule input k = r -> r <> Fuel ->
       exists f', req (parse (pass_inline_silent bi order g) f' rule input k) r) /\
    (forall f r, parse (pass_inline_silent bi order g) f rule input k = r -> r <> Fuel ->
       exists f', req (parse g f' rule input k) r).
Proof.
  intros ND NS NO. apply (ochk_sound g _ (length order * gdepth g + gdepth g)).
  apply pass_inline_silent_validated; assumption.
Qed.
