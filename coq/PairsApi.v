(* PairsApi.v — model of Pair.tokens(), Pairs.tokens() and Pairs.flatten() (src/pest/pairs.py)
   and their relation to the `chain` invariant of SpecWf.v. *)
From Coq Require Import List NArith ZArith Bool Arith Lia.
Import ListNotations.
From PP Require Import Base Syntax Spec SpecWf.

Inductive token := TStart (n : N) (p : N) | TEnd (n : N) (p : N).
Definition tpos (t : token) : N := match t with TStart _ p => p | TEnd _ p => p end.

(* Pair.tokens(): Start, the children's tokens, End *)
Fixpoint tokens_pair (p : pair) : list token :=
  match p with
  | Pair n s e kids _ =>
      TStart n s ::
      (fix go (ks : list pair) : list token :=
         match ks with [] => [] | k :: ks' => tokens_pair k ++ go ks' end) kids
      ++ [TEnd n e]
  end.

Fixpoint tokens (ps : list pair) : list token :=
  match ps with [] => [] | p :: ps' => tokens_pair p ++ tokens ps' end.

Lemma tokens_pair_eq n s e kids tag :
  tokens_pair (Pair n s e kids tag) = TStart n s :: tokens kids ++ [TEnd n e].
Proof.
  reflexivity.
Qed.

(* Pairs.flatten(): pre-order *)
Fixpoint flatten_pair (p : pair) : list (N * N * N) :=
  match p with
  | Pair n s e kids _ =>
      (n, s, e) ::
      (fix go (ks : list pair) : list (N * N * N) :=
         match ks with [] => [] | k :: ks' => flatten_pair k ++ go ks' end) kids
  end.

Fixpoint flatten (ps : list pair) : list (N * N * N) :=
  match ps with [] => [] | p :: ps' => flatten_pair p ++ flatten ps' end.

Lemma flatten_pair_eq n s e kids tag :
  flatten_pair (Pair n s e kids tag) = (n, s, e) :: flatten kids.
Proof.
  reflexivity.
Qed.

(* balanced Start/End stream: a stack machine over rule names *)
Fixpoint balanced_from (stk : list N) (ts : list token) : option (list N) :=
  match ts with
  | [] => Some stk
  | TStart n _ :: ts' => balanced_from (n :: stk) ts'
  | TEnd n _ :: ts' =>
      match stk with
      | m :: stk' => if N.eqb n m then balanced_from stk' ts' else None
      | [] => None
      end
  end.

Lemma balanced_app : forall a b stk stk',
  balanced_from stk a = Some stk' -> balanced_from stk (a ++ b) = balanced_from stk' b.
Proof.
  induction a as [|t a IH]; intros b stk stk' H; cbn in *.
  - inversion H. reflexivity.
  - destruct t as [n p|n p].
    + apply IH. exact H.
    + destruct stk as [|m stk0]; [discriminate|].
      destruct (N.eqb n m); [apply IH; exact H|discriminate].
Qed.

(* positions never decrease and stay inside [lo, hi] *)
Fixpoint sorted_from (lo : N) (ts : list token) : Prop :=
  match ts with
  | [] => True
  | t :: ts' => (lo <= tpos t)%N /\ sorted_from (tpos t) ts'
  end.

Lemma sorted_app : forall a b lo mid,
  sorted_from lo a -> (forall t, In t a -> (tpos t <= mid)%N) -> (lo <= mid)%N ->
  sorted_from mid b -> sorted_from lo (a ++ b).
Proof.
  induction a as [|t a IH]; intros b lo mid Ha Hle Hlm Hb; cbn in *.
  - destruct b as [|t b]; [exact I|]. cbn in *. destruct Hb as [H1 H2]. split; [lia|exact H2].
  - destruct Ha as [H1 H2]. split; [exact H1|].
    eapply IH; [exact H2| |apply Hle; left; reflexivity|exact Hb].
    intros t' Ht'. apply Hle. right. exact Ht'.
Qed.

Section Facts.
Variable PN : N -> Prop.

Lemma tokens_chain : forall lo hi ps, chain PN lo hi ps ->
  (forall stk, balanced_from stk (tokens ps) = Some stk) /\
  sorted_from lo (tokens ps) /\ (forall t, In t (tokens ps) -> (lo <= tpos t <= hi)%N).
Proof.
  induction 1 as [lo hi H|lo hi name s e kids tag ps Hn H1 Hk IHk Hp IHp].
  - cbn. split; [reflexivity|split; [exact I|intros t []]].
  - destruct IHk as [Bk [Sk Ik]]. destruct IHp as [Bp [Sp Ip]].
    assert (Lk := chain_le _ _ _ _ Hk). assert (Lp := chain_le _ _ _ _ Hp).
    cbn [tokens]. rewrite tokens_pair_eq.
    split; [|split].
    + intros stk. cbn [app balanced_from].
      rewrite <- app_assoc.
      rewrite (balanced_app (tokens kids) _ (name :: stk) (name :: stk) (Bk _)).
      cbn [app balanced_from]. rewrite N.eqb_refl. apply Bp.
    + cbn [app sorted_from tpos]. split; [exact H1|].
      rewrite <- app_assoc.
      eapply (sorted_app (tokens kids) _ s e); [exact Sk| |exact Lk|].
      * intros t Ht. apply Ik in Ht. lia.
      * cbn [app sorted_from tpos]. split; [lia|].
        destruct (tokens ps) as [|t0 ts0] eqn:ET; [exact I|]. exact Sp.
    + intros t Ht. cbn [app] in Ht. destruct Ht as [<-|Ht]; [cbn; lia|].
      rewrite <- app_assoc in Ht. apply in_app_or in Ht. destruct Ht as [Ht|Ht].
      * apply Ik in Ht. lia.
      * cbn [app] in Ht. destruct Ht as [<-|Ht]; [cbn; lia|]. apply Ip in Ht. lia.
Qed.

(* flatten() is the list of Start tokens of tokens(), in order *)
Fixpoint starts (ts : list token) : list (N * N) :=
  match ts with
  | [] => []
  | TStart n p :: ts' => (n, p) :: starts ts'
  | TEnd _ _ :: ts' => starts ts'
  end.

Lemma starts_app a b : starts (a ++ b) = starts a ++ starts b.
Proof.
  induction a as [|t a IH]; [reflexivity|]. destruct t; cbn; rewrite IH; reflexivity.
Qed.

Lemma flatten_preorder : forall lo hi ps, chain PN lo hi ps ->
  map (fun x => (fst (fst x), snd (fst x))) (flatten ps) = starts (tokens ps).
Proof.
  induction 1 as [lo hi H|lo hi name s e kids tag ps Hn H1 Hk IHk Hp IHp]; [reflexivity|].
  cbn [flatten tokens]. rewrite flatten_pair_eq, tokens_pair_eq.
  rewrite map_app. cbn [map fst snd app starts].
  rewrite !starts_app. cbn [starts]. rewrite app_nil_r. rewrite IHk, IHp. reflexivity.
Qed.

End Facts.
