(* Extract.v — extraction of the executable models to OCaml (ExtrOcamlBasic only:
   bool, option, list, prod, unit, sumbool map to OCaml's; N, nat, Z, positive stay inductive). *)
From Coq Require Import ExtrOcamlBasic.
From Coq Require Import List NArith ZArith.
From PP Require Import Base Syntax Spec SnapStack LineCol Pratt Interp Gen SpecCert Opt OptSkip SpecSyn OptPass OptPassInline OptPassSilent OptPassSkip.
Extraction Language OCaml.
Extraction "model.ml" Spec.parse SnapStack.strace SnapStack.sinit SnapStack.itrace SnapStack.ptrace SnapStack.pinit
  LineCol.line_col LineCol.line_of LineCol.span_lines LineCol.error_context LineCol.split_keep
  Pratt.parse Interp.iparse Gen.gparse SpecCert.wf_auto Opt.ochk_grammar Opt.ochk_rule OptSkip.ochk_skip
  OptPass.pass_unroll OptPass.pass_inline_builtin OptPass.names_nodup OptPass.nodupN OptPass.count_ok OptPass.gdepth
  OptPassInline.builtins_plain SpecSyn.all_grammar OptPassSilent.pass_inline_silent OptPassSkip.pass_skip.
