(* Extract.v — extraction of the executable models to OCaml (ExtrOcamlBasic only:
   bool, option, list, prod, unit, sumbool map to OCaml's; N, nat, Z, positive stay inductive). *)
From Coq Require Import ExtrOcamlBasic.
From Coq Require Import List NArith ZArith.
From PP Require Import Base Syntax Spec.
Extraction Language OCaml.
Extraction "model.ml" Spec.parse.
