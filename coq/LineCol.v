(* LineCol.v — model of str.splitlines(keepends=True), Position.line_col / line_of,
   Span.lines (src/pest/pairs.py) and error_context (src/pest/exceptions.py). *)
From Coq Require Import List NArith Arith Bool Lia.
Import ListNotations.
From PP Require Import Base.

(* the line boundaries str.splitlines recognises *)
Definition is_break (c : N) : bool :=
  memN c [10; 11; 12; 13; 28; 29; 30; 133; 8232; 8233]%N.

(* splitlines(keepends=True); `cur` is the current line, reversed *)
Fixpoint split_aux (cur : text) (t : text) : list text :=
  match t with
  | [] => match cur with [] => [] | _ => [rev cur] end
  | c :: t' =>
      if is_break c then
        if N.eqb c 13 then
          match t' with
          | d :: t'' => if N.eqb d 10 then rev (d :: c :: cur) :: split_aux [] t''
                        else rev (c :: cur) :: split_aux [] t'
          | [] => rev (c :: cur) :: split_aux [] t'
          end
        else rev (c :: cur) :: split_aux [] t'
      else split_aux (c :: cur) t'
  end.
Definition split_keep (t : text) : list text := split_aux [] t.

Definition ends_with_break (l : text) : bool :=
  match rev l with c :: _ => is_break c | [] => false end.

(* the loop of Position.line_col *)
Fixpoint lc_loop (lines : list text) (pos start i : nat) : option (nat * nat) :=
  match lines with
  | [] => None
  | l :: ls =>
      if Nat.ltb pos (start + length l) then Some (i + 1, pos - start + 1)
      else lc_loop ls pos (start + length l) (i + 1)
  end.

Definition total_len (lines : list text) : nat := fold_right (fun l n => length l + n) 0 lines.

Definition line_col (t : text) (pos : nat) : nat * nat :=
  let lines := split_keep t in
  match lc_loop lines pos 0 0 with
  | Some r => r
  | None =>
      let total := total_len lines in
      match rev lines with
      | last :: _ =>
          if ends_with_break last then (length lines + 1, pos - total + 1)
          else (length lines, pos - (total - length last) + 1)
      | [] => (length lines + 1, pos - total + 1)
      end
  end.

(* Position.line_of *)
Definition line_of (t : text) (pos : nat) : text :=
  nth (fst (line_col t pos) - 1) (split_keep t) [].

(* Span.lines *)
Definition span_lines (t : text) (a b : nat) : list text :=
  let la := fst (line_col t a) in
  let lb := fst (line_col t b) in
  firstn (lb - (la - 1)) (skipn (la - 1) (split_keep t)).

(* str.rstrip() removes trailing whitespace; for the source line shown in messages *)
Definition is_space (c : N) : bool :=
  memN c [9; 10; 11; 12; 13; 28; 29; 30; 31; 32; 133; 160; 5760; 8192; 8193; 8194; 8195; 8196; 8197;
          8198; 8199; 8200; 8201; 8202; 8232; 8233; 8239; 8287; 12288]%N.
Fixpoint drop_while_space (l : text) : text :=
  match l with c :: l' => if is_space c then drop_while_space l' else l | [] => [] end.
Definition rstrip (l : text) : text := rev (drop_while_space (rev l)).

(* error_context(text, index) *)
Definition error_context (t : text) (index : nat) : text * nat * nat :=
  let '(ln, col) := line_col t index in
  (rstrip (nth (ln - 1) (split_keep t) []), ln, col).

(* ---- specification: walk over the first p characters ---- *)
Fixpoint walk (t : text) (p line col : nat) : nat * nat :=
  match p with
  | 0 => (line, col)
  | S p' =>
      match t with
      | [] => (line, col)
      | c :: t' => if N.eqb c 10 then walk t' p' (line + 1) 1 else walk t' p' line (col + 1)
      end
  end.
Definition spec_line_col (t : text) (p : nat) : nat * nat := walk t p 1 1.

Definition nl_only (t : text) : bool := forallb (fun c => N.eqb c 10 || negb (is_break c)) t.
