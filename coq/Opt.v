(* Opt.v — translation validation for python-pest's optimizer (src/pest/grammar/optimizer.py,
   optimizers/*.py).  The passes themselves are NOT modelled.  Instead `ochk_grammar g g'` is an
   executable checker which, given the rule table before (g) and after (g') optimisation — both
   exported from the real objects on every run — recognises each difference as an instance of a
   rewrite that is proved meaning-preserving for the reference semantics (OptProof.v):

     unroll          e+ / e{n} / e{n,} / e{,n} / e{m,n}  ->  their unrolled sequences
     skip            (!(l1 | ... | ln) ~ ANY)*            ->  SkipUntil [l1..ln]
                     only where implicit trivia is certainly off
     inline          a reference to a plain silent rule (built-in or not) -> its (optimised) body
     squash_choice   a choice of character / string terminals -> the ordered alternation the
                     compiled regex denotes (multi-character literals first, one merged class),
                     only if no pair of alternatives whose order changed can both match with
                     different lengths
   and everything else must be equal constructor by constructor.  Anything the checker does not
   recognise is rejected (fail-closed): the check then reports the optimizer output as unvalidated. *)
From Coq Require Import List NArith ZArith Bool Arith.
Import ListNotations.
From PP Require Import Base Syntax Spec CharClass.

(* ---------- decidable equality helpers ---------- *)
Fixpoint text_eqb (a b : text) : bool :=
  match a, b with
  | [], [] => true
  | x :: a', y :: b' => N.eqb x y && text_eqb a' b'
  | _, _ => false
  end.
Fixpoint texts_eqb (a b : list text) : bool :=
  match a, b with
  | [], [] => true
  | x :: a', y :: b' => text_eqb x y && texts_eqb a' b'
  | _, _ => false
  end.
Fixpoint ranges_eqb (a b : list (N * N)) : bool :=
  match a, b with
  | [], [] => true
  | (x1, x2) :: a', (y1, y2) :: b' => N.eqb x1 y1 && N.eqb x2 y2 && ranges_eqb a' b'
  | _, _ => false
  end.
Definition optN_eqb (a b : option N) : bool :=
  match a, b with Some x, Some y => N.eqb x y | None, None => true | _, _ => false end.
Definition optZ_eqb (a b : option Z) : bool :=
  match a, b with Some x, Some y => Z.eqb x y | None, None => true | _, _ => false end.
Definition kind_eqb (a b : akind) : bool :=
  match a, b with
  | KNormal, KNormal | KAtomic, KAtomic | KCompound, KCompound | KNonAtomic, KNonAtomic => true
  | _, _ => false
  end.

(* ---------- terminals of a squashed choice ---------- *)
(* one alternative of an OptimizedChoice, or a squashable alternative of the source choice *)
Inductive term :=
| TLit (ci : bool) (w : text)          (* multi-character (or empty) literal *)
| TSet (rs : list (N * N)).            (* exactly one character out of a set *)

Definition ci_set (c : N) : list (N * N) := map (fun x => (x, x)) (ascii_variants c).

Definition term_of (e : expr) : option term :=
  match e with
  | EStr [c] => Some (TSet [(c, c)])
  | EStr w => Some (TLit false w)
  | ECIStr [c] => Some (TSet (ci_set c))
  | ECIStr w => Some (TLit true w)
  | ERange lo hi => Some (TSet [(lo, hi)])
  | ECls rs => Some (TSet rs)
  | _ => None
  end.

Definition fold_text (w : text) : text := map ascii_lower w.

Fixpoint is_prefix (a b : text) : bool :=
  match a, b with
  | [], _ => true
  | x :: a', y :: b' => N.eqb x y && is_prefix a' b'
  | _ :: _, [] => false
  end.

(* over-approximation of "some input is matched by both, with different lengths" *)
Definition conflict (a b : term) : bool :=
  match a, b with
  | TSet _, TSet _ => false
  | TLit _ w1, TLit _ w2 =>
      negb (Nat.eqb (length w1) (length w2)) &&
      (is_prefix (fold_text w1) (fold_text w2) || is_prefix (fold_text w2) (fold_text w1))
  | TSet rs, TLit _ w | TLit _ w, TSet rs =>
      match w with
      | [] => true
      | c :: _ => negb (Nat.eqb (length w) 1) && existsb (fun x => in_ranges x rs) (ascii_variants c)
      end
  end.

Definition is_lit (t : term) : bool := match t with TLit _ _ => true | TSet _ => false end.
Definition is_sens (t : term) : bool := match t with TLit false _ => true | _ => false end.
Definition is_insens (t : term) : bool := match t with TLit true _ => true | _ => false end.
Definition set_of (t : term) : list (N * N) := match t with TSet rs => rs | TLit _ _ => [] end.

Definition term_eqb (a b : term) : bool :=
  match a, b with
  | TLit c1 w1, TLit c2 w2 => Bool.eqb c1 c2 && text_eqb w1 w2
  | TSet r1, TSet r2 => ranges_eqb r1 r2
  | _, _ => false
  end.
Fixpoint terms_eqb (a b : list term) : bool :=
  match a, b with
  | [], [] => true
  | x :: a', y :: b' => term_eqb x y && terms_eqb a' b'
  | _, _ => false
  end.

(* every pair (a before b in the source) whose order the regex inverts must be conflict-free.
   The regex order is: sensitive literals, insensitive literals, then the one-character sets. *)
Definition rank (t : term) : nat := match t with TLit false _ => 0 | TLit true _ => 1 | TSet _ => 2 end.
Fixpoint no_inverted_conflict (ts : list term) : bool :=
  match ts with
  | [] => true
  | a :: rest =>
      forallb (fun b => negb (Nat.ltb (rank b) (rank a)) || negb (conflict a b)) rest
      && no_inverted_conflict rest
  end.

Definition no_empty_lit (ts : list term) : bool :=
  forallb (fun t => match t with TLit _ [] => false | _ => true end) ts.

(* source alternatives `ts` (in source order) against the regex's alternatives `ts'` *)
Definition squash_ok (ts ts' : list term) : bool :=
  no_empty_lit ts &&
  (* shape of the target: literals (sensitive then insensitive), then sets *)
  terms_eqb (filter is_lit ts') (filter is_sens ts ++ filter is_insens ts) &&
  terms_eqb (filter is_lit (skipn (length (filter is_lit ts')) ts')) [] &&
  (* same set of single characters *)
  ranges_eqb (merge_ranges (concat (map set_of ts))) (merge_ranges (concat (map set_of ts'))) &&
  no_inverted_conflict ts.

Section O.
Variables g g' : grammar.          (* before / after optimisation *)

(* a rule whose call is transparent: silent, no atomicity change, not an implicit rule *)
Definition plain_silent (r : rule) : bool :=
  r_silent r && kind_eqb (r_kind r) KNormal && negb (is_trivia_name (r_name r)).

(* the literal set denoted by the operand of the negative predicate in (!X ~ ANY)*:
   skippers._skip — strings, choices, untagged groups, references (any rule).
   (An operand that is itself a skip-until is NOT a literal set: it matches the empty text.) *)
Fixpoint lits (fuel : nat) (e : expr) : option (list text) :=
  match fuel with
  | O => None
  | S f =>
      match e with
      | EStr w => Some [w]
      | EGrp e1 None => lits f e1
      | EAlt es =>
          fold_right (fun x acc => match lits f x, acc with
                                   | Some a, Some b => Some (a ++ b)
                                   | _, _ => None end) (Some []) es
      | ERef n None => match lookup g n with Some r => lits f (r_body r) | None => None end
      | _ => None
      end
  end.

Definition is_any (e : expr) : bool :=
  match e with
  | EAny => true
  | ERef n None =>
      match lookup g n with
      | Some r => plain_silent r && match r_body r with EAny => true | _ => false end
      | None => false
      end
  | _ => false
  end.

(* the squashable alternatives of a source choice, flattened the way squash_choice.squash does:
   nested choices and references to plain silent rules whose body is squashable *)
Fixpoint flat_terms (fuel : nat) (e : expr) : option (list term) :=
  match fuel with
  | O => None
  | S f =>
      match e with
      | EAlt es =>
          fold_right (fun x acc => match flat_terms f x, acc with
                                   | Some a, Some b => Some (a ++ b)
                                   | _, _ => None end) (Some []) es
      | ERef n None =>
          match lookup g n with
          | Some r => if plain_silent r then flat_terms f (r_body r) else None
          | None => None
          end
      | _ => match term_of e with Some t => Some [t] | None => None end
      end
  end.

Fixpoint terms_of (es : list expr) : option (list term) :=
  match es with
  | [] => Some []
  | e :: es' => match term_of e, terms_of es' with
                | Some t, Some ts => Some (t :: ts)
                | _, _ => None end
  end.

Definition defined_in (h : grammar) (n : N) : bool :=
  match lookup h n with Some _ => true | None => false end.

Definition strip_grp (e : expr) : expr := match e with EGrp x None => x | _ => e end.

(* `toff`: implicit trivia is certainly off in the rule being checked (skippers.never_skips_trivia) *)
Fixpoint ochk (fuel : nat) (toff : bool) (e e' : expr) {struct fuel} : bool :=
  match fuel with
  | O => false
  | S f =>
    let all2 := fix all2 (xs ys : list expr) : bool :=
      match xs, ys with
      | [], [] => true
      | x :: xs', y :: ys' => ochk f toff x y && all2 xs' ys'
      | _, _ => false
      end in
    let alln := fix alln (x : expr) (ys : list expr) : bool :=     (* every y is the image of x *)
      match ys with [] => true | y :: ys' => ochk f toff x y && alln x ys' end in
    let allopt := fix allopt (x : expr) (ys : list expr) : bool :=  (* every y is (image of x)? *)
      match ys with
      | [] => true
      | EOpt y :: ys' => ochk f toff x y && allopt x ys'
      | _ => false
      end in
    let inline (n : N) :=
      match lookup g n with
      | Some r => plain_silent r && ochk f toff (r_body r) e'
      | None => false
      end in
    (* a plain silent rule that exists only in g' (a copy of a built-in rule whose body was
       optimised where it is embedded): its call stands for its body *)
    let outline (n' : N) :=
      negb (defined_in g n') &&
      match lookup g' n' with
      | Some r' => plain_silent r' && ochk f toff e (r_body r')
      | None => false
      end in
    match e, e' with
    | EStr a, EStr b => text_eqb a b
    | ECIStr a, ECIStr b => text_eqb a b
    | ERange a1 a2, ERange b1 b2 => N.eqb a1 b1 && N.eqb a2 b2
    | EAny, EAny | ESoi, ESoi | EEoi, EEoi => true
    | ECls a, ECls b => ranges_eqb a b
    | ERef n t, ERef n' t' =>
        (N.eqb n n' && optN_eqb t t' && (defined_in g n || negb (defined_in g' n)))
        || match t with None => inline n | Some _ => false end
        || match t' with None => outline n' | Some _ => false end
    | ERef n None, _ => inline n
    | _, ERef n' None => outline n'
    | ESeq a, ESeq b => all2 a b
    | EAlt a, EAlt b =>
        all2 a b ||
        match flat_terms f e, terms_of b with
        | Some ts, Some ts' => squash_ok ts ts'
        | _, _ => false
        end
    | EOpt a, EOpt b => ochk f toff a b
    | EStar a, EStar b => ochk f toff a b
    | EStar (EGrp (ESeq [ENot x; y]) None), ESkipUntil ws =>
        toff && is_any y && match lits f x with Some ws0 => texts_eqb ws0 ws | None => false end
    | EPlus a, EPlus b => ochk f toff a b
    | EPlus a, ESeq [b1; b2] =>
        (ochk f toff a b1 || ochk f toff (strip_grp a) b1) && ochk f toff (EStar a) b2
    | ERepN a n, ERepN b m => Nat.eqb n m && ochk f toff a b
    | ERepN a n, ESeq bs => Nat.eqb (length bs) n && alln a bs
    | ERepMin a n, ERepMin b m => Nat.eqb n m && ochk f toff a b
    | ERepMin a n, ESeq bs =>
        Nat.eqb (length bs) (S n) && alln a (firstn n bs) &&
        match skipn n bs with [b] => ochk f toff (EStar a) b | _ => false end
    | ERepMax a n, ERepMax b m => Nat.eqb n m && ochk f toff a b
    | ERepMax a n, ESeq bs => Nat.eqb (length bs) n && allopt a bs
    | ERepMinMax a m n, ERepMinMax b m' n' => Nat.eqb m m' && Nat.eqb n n' && ochk f toff a b
    | ERepMinMax a m n, ESeq bs =>
        Nat.leb m n && Nat.eqb (length bs) n && alln a (firstn m bs) && allopt a (skipn m bs)
    | EAnd a, EAnd b => ochk f toff a b
    | ENot a, ENot b => ochk f toff a b
    | EGrp a t, EGrp b t' => optN_eqb t t' && ochk f toff a b
    | EPush a, EPush b => ochk f toff a b
    | EPushLit a, EPushLit b => text_eqb a b
    | EPeek, EPeek | EPeekAll, EPeekAll | EPop, EPop | EPopAll, EPopAll | EDrop, EDrop => true
    | EPeekSl a1 a2, EPeekSl b1 b2 => optZ_eqb a1 b1 && optZ_eqb a2 b2
    | ESkipUntil a, ESkipUntil b => texts_eqb a b
    | _, _ => false
    end
  end.

Definition no_trivia_rules : bool :=
  match lookup g WS_ID, lookup g CM_ID with None, None => true | _, _ => false end.

Definition trivia_off (r : rule) : bool :=
  match r_kind r with KAtomic | KCompound => true | _ => false end
  || is_trivia_name (r_name r) || no_trivia_rules.

Definition ochk_rule (fuel : nat) (r' : rule) : bool :=
  match lookup g (r_name r') with
  | Some r =>
      Bool.eqb (r_silent r) (r_silent r') && kind_eqb (r_kind r) (r_kind r') &&
      ochk fuel (trivia_off r) (r_body r) (r_body r')
  | None => false
  end.

(* every rule of g' other than the fused SKIP rule is the image of the rule of the same name of g,
   and g' defines every rule g defines *)
Definition ochk_grammar (fuel : nat) : bool :=
  forallb (fun r' => N.eqb (r_name r') SKIP_ID
                     || (negb (defined_in g (r_name r')) && plain_silent r')
                     || ochk_rule fuel r') g' &&
  forallb (fun r => defined_in g' (r_name r)) g &&
  negb (defined_in g SKIP_ID).

End O.
