(* CharClass.v — sets of code points: ranges, the class merging of
   choice.py:_optimize_char_class, ASCII-only case folding, and the built-in ASCII tables
   (regenerated from /repo into Tables.v) against pest's definitions. *)
From Coq Require Import List NArith Bool Lia String.
Import ListNotations.
From PP Require Import Base Tables.
Open Scope N_scope.

(* ---- _optimize_char_class: normalise, sort by start, merge overlapping/adjacent ---- *)
(* a range written the wrong way round is empty and is dropped *)
Definition nonempty_range (r : N * N) : bool := fst r <=? snd r.

Fixpoint insert_range (r : N * N) (l : list (N * N)) : list (N * N) :=
  match l with
  | [] => [r]
  | x :: l' => if (fst r <? fst x) || ((fst r =? fst x) && (snd r <=? snd x)) then r :: l else x :: insert_range r l'
  end.
Definition sort_ranges (l : list (N * N)) : list (N * N) := fold_right insert_range [] l.

(* merged is kept reversed: head = last merged range *)
Fixpoint merge_acc (acc : list (N * N)) (l : list (N * N)) : list (N * N) :=
  match l with
  | [] => rev acc
  | (s, e) :: l' =>
      match acc with
      | (ls, le) :: acc' => if le + 1 <? s then merge_acc ((s, e) :: acc) l'
                            else merge_acc ((ls, N.max le e) :: acc') l'
      | [] => merge_acc [(s, e)] l'
      end
  end.
Definition merge_ranges (l : list (N * N)) : list (N * N) := merge_acc [] (sort_ranges (filter nonempty_range l)).

Definition optimize_char_class (singles : list N) (ranges : list (N * N)) : list N * list (N * N) :=
  let merged := merge_ranges ranges in
  (filter (fun c => negb (in_ranges c merged)) singles, merged).

Definition class_mem (cls : list N * list (N * N)) (c : N) : bool :=
  memN c (fst cls) || in_ranges c (snd cls).

(* membership in one range (empty when written the wrong way round) *)
Definition in_range_sym (c : N) (r : N * N) : bool := in_ranges c [r].

(* ---- case-insensitive literals over ASCII ---- *)
Definition ascii_variants (c : N) : list N :=
  if (65 <=? c) && (c <=? 90) then [c; c + 32]
  else if (97 <=? c) && (c <=? 122) then [c - 32; c]
  else [c].

(* ---- pest's built-in ASCII rules ---- *)
Definition pest_ascii_rules : list (string * list (N * N)) := [
  ("ASCII_DIGIT"%string, [(48, 57)]);
  ("ASCII_NONZERO_DIGIT"%string, [(49, 57)]);
  ("ASCII_BIN_DIGIT"%string, [(48, 49)]);
  ("ASCII_OCT_DIGIT"%string, [(48, 55)]);
  ("ASCII_HEX_DIGIT"%string, [(48, 57); (97, 102); (65, 70)]);
  ("ASCII_ALPHANUMERIC"%string, [(48, 57); (97, 122); (65, 90)]);
  ("ASCII"%string, [(0, 127)]);
  ("ASCII_ALPHA_LOWER"%string, [(97, 122)]);
  ("ASCII_ALPHA_UPPER"%string, [(65, 90)]);
  ("ASCII_ALPHA"%string, [(97, 122); (65, 90)])
].
Definition pest_newline : list (list N) := [[10]; [13; 10]; [13]].
