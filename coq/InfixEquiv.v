(* InfixEquiv.v — the library refactoring of Parser.parse_infix_expression preserved meaning:
   the old right-recursive expression parser (InfixOldDef.v) and the new loop (Front.v) return the
   same result on EVERY token list (same expression, same remaining tokens, same error position),
   and the front end built on the old parser equals `front` on every text.
   No bounded computation here (see InfixOld.v for that); this file compiles in seconds. *)
From Coq Require Import List NArith ZArith Bool Lia.
From PP Require Import Base Builtins Front FrontProof InfixOldDef.
Import ListNotations.
Close Scope N_scope.
Open Scope nat_scope.

(* ------------------------------------------------------------------ *)
(** * Refinement of results: `r` is OutOfFuel or equal to `r'` *)

Definition le_res {A} (r r' : res A) : Prop := r = OutOfFuel \/ r = r'.
Infix "⊑" := le_res (at level 70).

Lemma le_refl : forall A (r : res A), r ⊑ r.
Proof. right; reflexivity. Qed.
Lemma le_oof : forall A (r : res A), OutOfFuel ⊑ r.
Proof. left; reflexivity. Qed.
Lemma le_trans : forall A (a b c : res A), a ⊑ b -> b ⊑ c -> a ⊑ c.
Proof. intros A a b c [ -> | -> ] H; [left; auto|exact H]. Qed.
Lemma le_eq : forall A (r r' : res A), r ⊑ r' -> r <> OutOfFuel -> r = r'.
Proof. intros A r r' [H|H] N; [contradiction|exact H]. Qed.
Lemma le_bind : forall A B (m m' : res A) (k k' : A -> res B),
  m ⊑ m' -> (forall a, k a ⊑ k' a) -> bind m k ⊑ bind m' k'.
Proof.
  intros A B m m' k k' [ -> | -> ] H; [left; reflexivity|].
  destruct m'; simpl; auto using le_refl.
Qed.

Lemma bind_assoc : forall A B C (m : res A) (k : A -> res B) (h : B -> res C),
  bind (bind m k) h = bind m (fun a => bind (k a) h).
Proof. intros A B C [a|p|c|] k h; reflexivity. Qed.
Lemma bind_ext : forall A B (m : res A) (k k' : A -> res B),
  (forall a, m = Ok a -> k a = k' a) -> bind m k = bind m k'.
Proof. intros A B [a|p|c|] k k' H; simpl; auto. Qed.
Lemma bind_ok_inv : forall A B (m : res A) (k : A -> res B) b,
  bind m k = Ok b -> exists a, m = Ok a /\ k a = Ok b.
Proof. intros A B [a|p|c|] k b H; simpl in H; try discriminate. eauto. Qed.

Ltac mono_step H :=
  first [ apply le_refl | apply H
        | apply le_bind; [|intros [? ?]] | apply le_bind; [|intros ?]
        | match goal with |- le_res (match ?x with _ => _ end) (match ?x with _ => _ end) => destruct x end ].

(* a chain F 0 ⊑ F 1 ⊑ ... : once some F b is not OutOfFuel, every F f approximates it and every
   larger fuel gives the same result *)
Section CHAIN.
  Variable A : Type.
  Variable F : nat -> res A.
  Hypothesis step : forall f, F f ⊑ F (S f).
  Lemma chain_le : forall f g, f <= g -> F f ⊑ F g.
  Proof.
    intros f g H. induction H; [apply le_refl|]. eapply le_trans; [exact IHle|apply step].
  Qed.
  Lemma chain_eq : forall b f, F b <> OutOfFuel -> b <= f -> F f = F b.
  Proof. intros b f Hb H. symmetry. apply le_eq; auto. apply chain_le; auto. Qed.
  Lemma chain_approx : forall b f, F b <> OutOfFuel -> F f ⊑ F b.
  Proof.
    intros b f Hb. destruct (Nat.le_gt_cases f b) as [H|H].
    - apply chain_le; auto.
    - rewrite (chain_eq b f); auto using le_refl. lia.
  Qed.
End CHAIN.

(* ------------------------------------------------------------------ *)
(** * The part of parse_expression before its infix loop, as a functional of the recursive call
      (identical text in the old and the new version: checked by PE_new_S / PE_old_S below) *)

Section BODY.
  Variable eof : token.
  Variable builtins : list (text * text).
  Notation current := (current eof).
  Notation pnext := (pnext eof).
  Notation cur_kind_is := (cur_kind_is eof).
  Notation eat := (eat eof).
  Notation postfix_loop := (postfix_loop eof).
  Notation parse_peek_expression := (parse_peek_expression eof).

  Definition rexpr := res (pexpr * list token).

  Definition prim_body (PE : N -> list token -> rexpr) (ts : list token) : rexpr :=
        let ts := if cur_kind_is ts K_CHOICE_OP then snd (pnext ts) else ts in
        let* '(tag, ts) :=
          (if cur_kind_is ts K_TAG then
             let '(t, ts) := pnext ts in
             let* '(_, ts) := eat K_ASSIGN_OP ts in
             Ok (Some (tl (tk_value t)), ts)
           else Ok (None, ts)) in
        let token := current ts in
        let left_kind := tk_kind token in
        let* '(left_, ts) :=
          (if kind_eqb left_kind K_STRING then Ok (PStr (tk_value (fst (pnext ts))), snd (pnext ts))
           else if kind_eqb left_kind K_STRING_CI then
             Ok (PCIStr (tk_value (fst (pnext ts))), snd (pnext ts))
           else if kind_eqb left_kind K_LPAREN then
             let* '(e, ts) := PE PRECEDENCE_LOWEST (tl ts) in
             let* '(_, ts) := eat K_RPAREN ts in
             Ok (PGrp e tag, ts)
           else if kind_eqb left_kind K_IDENTIFIER then
             let '(t, ts) := pnext ts in
             let name := tk_value t in
             if negb (text_eqb name [69;79;73]%N)
                && match lookup name builtins with Some _ => true | None => false end then
               match lookup name builtins with
               | Some rule_name => Ok (PRef rule_name None, ts)
               | None => Crash C_KEY
               end
             else Ok (PRef name tag, ts)
           else if kind_eqb left_kind K_PUSH_LITERAL then
             let* '(_, ts) := eat K_LPAREN (tl ts) in
             let* '(t, ts) := eat K_STRING ts in
             let* '(_, ts) := eat K_RPAREN ts in
             Ok (PPushLit (tk_value t) tag, ts)
           else if kind_eqb left_kind K_PUSH then
             let* '(_, ts) := eat K_LPAREN (tl ts) in
             let* '(e, ts) := PE PRECEDENCE_LOWEST ts in
             let* '(_, ts) := eat K_RPAREN ts in
             Ok (PPush e tag, ts)
           else if kind_eqb left_kind K_PEEK then parse_peek_expression tag (tl ts)
           else if kind_eqb left_kind K_PEEK_ALL then Ok (PPeekAll tag, tl ts)
           else if kind_eqb left_kind K_POP then Ok (PPop tag, tl ts)
           else if kind_eqb left_kind K_DROP then Ok (PDrop tag, tl ts)
           else if kind_eqb left_kind K_POP_ALL then Ok (PPopAll tag, tl ts)
           else if kind_eqb left_kind K_CHAR then
             let* '(t, ts) := eat K_CHAR ts in
             let* start := unescape_string (slice_1_m1 (tk_value t)) (tk_start token) in
             let* '(_, ts) := eat K_RANGE_OP ts in
             let* '(stop_token, ts) := eat K_CHAR ts in
             let* stop := unescape_string (slice_1_m1 (tk_value stop_token)) (tk_start token) in
             Ok (PRange start stop tag, ts)
           else if kind_eqb left_kind K_POSITIVE_PREDICATE then
             let* '(e, ts) := PE PRECEDENCE_PREFIX (tl ts) in
             Ok (PAnd e tag, ts)
           else if kind_eqb left_kind K_NEGATIVE_PREDICATE then
             let* '(e, ts) := PE PRECEDENCE_PREFIX (tl ts) in
             Ok (PNot e tag, ts)
           else Syn (tk_start token)) in
        postfix_loop (S (length ts)) left_ ts.

  Definition pe_body (PE : N -> list token -> rexpr) (IL : N -> pexpr -> list token -> rexpr)
    (p : N) (ts : list token) : rexpr :=
    let* '(l, t) := prim_body PE ts in IL p l t.

  Notation PE_n := (parse_expression eof builtins).
  Notation IL_n := (infix_loop eof builtins).
  Notation PI_n := (parse_infix_expression eof builtins).
  Notation RUN_n := (infix_run eof builtins).
  Notation PE_o := (parse_expression_old eof builtins).
  Notation IL_o := (infix_loop_old eof builtins).
  Notation PI_o := (parse_infix_expression_old eof builtins).

  Lemma PE_new_S : forall f p ts, PE_n (S f) p ts = pe_body (PE_n f) (IL_n f) p ts.
  Proof.
    intros. cbn [parse_expression infix_loop parse_infix_expression infix_run].
    unfold pe_body, prim_body. cbv zeta.
    rewrite bind_assoc. apply bind_ext. intros [tag ts2] _.
    rewrite bind_assoc. apply bind_ext. intros [l ts3] _. reflexivity.
  Qed.
  Lemma PE_old_S : forall f p ts, PE_o (S f) p ts = pe_body (PE_o f) (IL_o f) p ts.
  Proof.
    intros. cbn [parse_expression_old infix_loop_old parse_infix_expression_old].
    unfold pe_body, prim_body. cbv zeta.
    rewrite bind_assoc. apply bind_ext. intros [tag ts2] _.
    rewrite bind_assoc. apply bind_ext. intros [l ts3] _. reflexivity.
  Qed.

  (* ---------------- monotonicity of the functional *)
  Lemma prim_body_mono : forall PE PE' ts,
    (forall p t, PE p t ⊑ PE' p t) -> prim_body PE ts ⊑ prim_body PE' ts.
  Proof. intros PE PE' ts H. unfold prim_body. cbv zeta. repeat mono_step H. Qed.

  Lemma pe_body_mono : forall PE PE' IL IL' p ts,
    (forall p t, PE p t ⊑ PE' p t) -> (forall p l t, IL p l t ⊑ IL' p l t) ->
    pe_body PE IL p ts ⊑ pe_body PE' IL' p ts.
  Proof.
    intros. unfold pe_body. apply le_bind; [apply prim_body_mono; auto|]. intros [l t]. auto.
  Qed.

  (* ---------------- a primary (after postfix operators) is never a Sequence or a Choice *)
  Definition shape (x : pexpr) : Prop := match x with PSeq _ | PAlt _ => False | _ => True end.
  Definition okP {A} (P : A -> Prop) (r : res A) : Prop := match r with Ok a => P a | _ => True end.
  Lemma okP_bind : forall A B (Q : A -> Prop) (P : B -> Prop) (m : res A) (k : A -> res B),
    okP Q m -> (forall a, Q a -> okP P (k a)) -> okP P (bind m k).
  Proof. intros A B Q P [a|p0|c0|] k H1 H2; simpl in *; auto. Qed.
  Lemma okP_bind_any : forall A B (P : B -> Prop) (m : res A) (k : A -> res B),
    (forall a, okP P (k a)) -> okP P (bind m k).
  Proof. intros A B P [a|p0|c0|] k H; simpl in *; auto. Qed.

  Ltac okp_step :=
    first [ exact I | progress simpl; exact I
          | apply okP_bind_any; intros [? ?] | apply okP_bind_any; intros ?
          | match goal with |- okP _ (match ?x with _ => _ end) => destruct x end ].

  Lemma parse_repeat_shape : forall e ts,
    okP (fun a => shape (fst a)) (parse_repeat_expression eof e ts).
  Proof. intros. unfold parse_repeat_expression, token_int. repeat okp_step. Qed.

  Lemma parse_postfix_shape : forall e ts,
    okP (fun a => match fst a with Some x => shape x | None => True end)
        (parse_postfix_expression eof e ts).
  Proof.
    intros. unfold parse_postfix_expression.
    repeat match goal with |- okP _ (if ?b then _ else _) => destruct b; [simpl; exact I|] end.
    destruct (kind_eqb _ _); [|simpl; exact I].
    eapply okP_bind; [apply parse_repeat_shape|]. intros [x t] H. exact H.
  Qed.

  Lemma postfix_loop_shape : forall f l ts, shape l ->
    okP (fun a => shape (fst a)) (postfix_loop f l ts).
  Proof.
    induction f as [|f IH]; intros l ts Hl; [exact I|]. cbn [Front.postfix_loop].
    eapply okP_bind; [apply parse_postfix_shape|]. intros [[x|] t] H; simpl in H.
    - apply IH; auto.
    - exact Hl.
  Qed.

  Lemma parse_peek_shape : forall tag ts,
    okP (fun a => shape (fst a)) (parse_peek_expression tag ts).
  Proof. intros. unfold Front.parse_peek_expression, token_int. repeat okp_step. Qed.

  Lemma prim_shape : forall PE ts, okP (fun a => shape (fst a)) (prim_body PE ts).
  Proof.
    intros. unfold prim_body. cbv zeta.
    apply okP_bind_any. intros [tag ts2].
    eapply okP_bind with (Q := fun a => shape (fst a)).
    - repeat first [ apply parse_peek_shape | okp_step ].
    - intros [l ts3] Hl. apply postfix_loop_shape. exact Hl.
  Qed.

End BODY.

(* ------------------------------------------------------------------ *)
(** * The new parser: fuel monotonicity, fuel-free canonical functions and their equations *)

Section NEW.
  Variable eof : token.
  Variable builtins : list (text * text).
  Hypothesis eof_kind : tk_kind eof = K_EOI.

  Notation PE_n := (parse_expression eof builtins).
  Notation IL_n := (infix_loop eof builtins).
  Notation PI_n := (parse_infix_expression eof builtins).
  Notation RUN_n := (infix_run eof builtins).

  Lemma new_mono : forall f,
    (forall p ts, PE_n f p ts ⊑ PE_n (S f) p ts) /\
    (forall p l ts, IL_n f p l ts ⊑ IL_n (S f) p l ts) /\
    (forall l ts, PI_n f l ts ⊑ PI_n (S f) l ts) /\
    (forall k p ro ts, RUN_n f k p ro ts ⊑ RUN_n (S f) k p ro ts).
  Proof.
    induction f as [|f (IHPE & IHIL & IHPI & IHRUN)].
    { repeat split; intros; apply le_oof. }
    split; [|split; [|split]].
    - intros. rewrite (PE_new_S _ _ f), (PE_new_S _ _ (S f)). apply pe_body_mono; auto.
    - intros. cbn [parse_expression infix_loop parse_infix_expression infix_run].
      destruct (_ || _); [apply le_refl|]. apply le_bind; [apply IHPI|]. intros [l' t]. apply IHIL.
    - intros. cbn [parse_expression infix_loop parse_infix_expression infix_run].
      destruct (negb _); [apply le_refl|]. apply le_bind; [apply IHRUN|]. intros [ops t]. apply le_refl.
    - intros. cbn [parse_expression infix_loop parse_infix_expression infix_run].
      destruct (cur_kind_is eof ts k); [|apply le_refl].
      apply le_bind; [apply IHPE|]. intros [e t]. apply IHRUN.
  Qed.

  (* sufficiency and shrinking, from FrontProof.parse_group_good *)
  Lemma exists_L : forall ts, exists L, tok_ok L eof /\ ts_ok L ts.
  Proof.
    intros ts. exists (list_max (map tk_start (eof :: ts))).
    pose proof (proj1 (list_max_le (map tk_start (eof :: ts)) _) (le_n _)) as H.
    rewrite Forall_map in H. inversion H; subst. split; assumption.
  Qed.

  Definition shrinks {A} (ts : list token) (r : res (A * list token)) : Prop :=
    r <> OutOfFuel /\ forall a t, r = Ok (a, t) -> length t <= length ts.
  Definition shrinks_lt {A} (ts : list token) (r : res (A * list token)) : Prop :=
    r <> OutOfFuel /\ forall a t, r = Ok (a, t) -> length t < length ts.

  Lemma good_shrinks : forall L A ts (r : res (A * list token)), good L (ppost L ts) r -> shrinks ts r.
  Proof.
    intros L A ts [[a t]|q|c|] H; simpl in H; split; try discriminate; try contradiction.
    intros a' t' E; inversion E; subst. apply H.
  Qed.

  Definition fPE (ts : list token) := 4 * length ts + 4.
  Definition fIL (ts : list token) := 4 * length ts + 3.
  Definition fPI (ts : list token) := 4 * length ts + 2.
  Definition fRUN (ts : list token) := 4 * length ts + 1.

  Lemma PE_suff : forall p ts, shrinks ts (PE_n (fPE ts) p ts).
  Proof.
    intros p ts. destruct (exists_L ts) as (L & He & Ht).
    eapply good_shrinks. apply (parse_group_good L eof builtins eof_kind He (fPE ts)); auto.
  Qed.
  Lemma IL_suff : forall p l ts, shrinks ts (IL_n (fIL ts) p l ts).
  Proof.
    intros p l ts. destruct (exists_L ts) as (L & He & Ht).
    eapply good_shrinks. apply (parse_group_good L eof builtins eof_kind He (fIL ts)); auto.
  Qed.
  Lemma PI_suff : forall l ts, shrinks_lt ts (PI_n (fPI ts) l ts).
  Proof.
    intros l ts. destruct (exists_L ts) as (L & He & Ht).
    pose proof (proj1 (proj2 (proj2 (parse_group_good L eof builtins eof_kind He (fPI ts)))) l ts Ht (le_n _)) as H.
    destruct (PI_n (fPI ts) l ts) as [[a t]|q|c|]; simpl in H; split; try discriminate; try contradiction.
    intros a' t' E; inversion E; subst. apply H.
  Qed.
  Lemma RUN_suff : forall k p ro ts, k <> K_EOI -> shrinks ts (RUN_n (fRUN ts) k p ro ts).
  Proof.
    intros k p ro ts Hk. destruct (exists_L ts) as (L & He & Ht).
    pose proof (proj2 (proj2 (proj2 (parse_group_good L eof builtins eof_kind He (fRUN ts)))) k p ro ts Hk Ht (le_n _)) as H.
    destruct (RUN_n (fRUN ts) k p ro ts) as [[a t]|q|c|]; simpl in H; split; try discriminate; try contradiction.
    intros a' t' E; inversion E; subst. apply H.
  Qed.

  (* canonical (fuel-free) functions *)
  Definition PEn (p : N) (ts : list token) := PE_n (fPE ts) p ts.
  Definition ILn (p : N) (l : pexpr) (ts : list token) := IL_n (fIL ts) p l ts.
  Definition PIn (l : pexpr) (ts : list token) := PI_n (fPI ts) l ts.
  Definition RUNn (k : kind) (p : N) (ro : list pexpr) (ts : list token) := RUN_n (fRUN ts) k p ro ts.

  Lemma PE_approx : forall f p ts, PE_n f p ts ⊑ PEn p ts.
  Proof.
    intros. apply (chain_approx _ (fun f => PE_n f p ts)); [intros; apply new_mono|apply PE_suff].
  Qed.
  Lemma IL_approx : forall f p l ts, IL_n f p l ts ⊑ ILn p l ts.
  Proof.
    intros. apply (chain_approx _ (fun f => IL_n f p l ts)); [intros; apply new_mono|apply IL_suff].
  Qed.
  Lemma PI_approx : forall f l ts, PI_n f l ts ⊑ PIn l ts.
  Proof.
    intros. apply (chain_approx _ (fun f => PI_n f l ts)); [intros; apply new_mono|apply PI_suff].
  Qed.
  Lemma RUN_approx : forall f k p ro ts, k <> K_EOI -> RUN_n f k p ro ts ⊑ RUNn k p ro ts.
  Proof.
    intros. apply (chain_approx _ (fun f => RUN_n f k p ro ts)); [intros; apply new_mono|apply RUN_suff; auto].
  Qed.
  Lemma PE_fuel : forall f p ts, fPE ts <= f -> PE_n f p ts = PEn p ts.
  Proof.
    intros. apply (chain_eq _ (fun f => PE_n f p ts)); auto; [intros; apply new_mono|apply PE_suff].
  Qed.

  Definition brk (p : N) (ts : list token) : bool :=
    let k := tk_kind (current eof ts) in
    kind_eqb k K_EOI || (precedence_of k <? p)%N || negb (is_infix k).
  Definition mk (k : kind) (ops : list pexpr) : pexpr :=
    if kind_eqb k K_CHOICE_OP then PAlt ops else PSeq ops.

  Lemma eqPE : forall p ts, PEn p ts = pe_body eof builtins PEn ILn p ts.
  Proof.
    intros. apply le_eq; [|apply PE_suff]. unfold PEn at 1, fPE.
    replace (4 * length ts + 4) with (S (4 * length ts + 3)) by lia.
    rewrite PE_new_S. apply pe_body_mono; intros; [apply PE_approx|apply IL_approx].
  Qed.

  Lemma eqIL : forall p l ts,
    ILn p l ts = if brk p ts then Ok (l, ts) else let* '(l', t) := PIn l ts in ILn p l' t.
  Proof.
    intros. apply le_eq; [|apply IL_suff]. unfold ILn at 1, fIL.
    replace (4 * length ts + 3) with (S (4 * length ts + 2)) by lia.
    cbn [parse_expression infix_loop parse_infix_expression infix_run]. unfold brk. cbv zeta.
    destruct (_ || _); [apply le_refl|].
    apply le_bind; [apply PI_approx|]. intros [l' t]. apply IL_approx.
  Qed.

  Lemma eqPI : forall l ts,
    PIn l ts = let k := tk_kind (current eof ts) in
               if negb (is_infix k) then Syn (tk_start (current eof ts))
               else let* '(ops, t) := RUNn k (precedence_of k + 1)%N [l] ts in Ok (mk k ops, t).
  Proof.
    intros. apply le_eq; [|apply PI_suff]. unfold PIn at 1, fPI.
    replace (4 * length ts + 2) with (S (4 * length ts + 1)) by lia.
    cbn [parse_expression infix_loop parse_infix_expression infix_run]. cbv zeta.
    destruct (is_infix (tk_kind (current eof ts))) eqn:E; cbv beta iota delta [negb]; [|apply le_refl].
    apply le_bind.
    - apply RUN_approx. intros E'. rewrite E' in E. discriminate.
    - intros [ops t]. unfold mk. destruct (kind_eqb _ _); apply le_refl.
  Qed.

  Lemma eqRUN : forall k p ro ts, k <> K_EOI ->
    RUNn k p ro ts = if cur_kind_is eof ts k then let* '(e, t) := PEn p (tl ts) in RUNn k p (e :: ro) t
                     else Ok (rev ro, ts).
  Proof.
    intros k p ro ts Hk. apply le_eq; [|apply RUN_suff; auto]. unfold RUNn at 1, fRUN.
    replace (4 * length ts + 1) with (S (4 * length ts)) by lia.
    cbn [parse_expression infix_loop parse_infix_expression infix_run].
    destruct (cur_kind_is eof ts k); [|apply le_refl].
    apply le_bind; [apply PE_approx|]. intros [e t]. apply RUN_approx; auto.
  Qed.


  (* ---------------- shrinking, fuel-free *)
  Lemma PEn_shrink : forall p ts e t, PEn p ts = Ok (e, t) -> length t <= length ts.
  Proof. intros p ts e t H. eapply (proj2 (PE_suff p ts)); eauto. Qed.
  Lemma PIn_lt : forall l ts e t, PIn l ts = Ok (e, t) -> length t < length ts.
  Proof. intros l ts e t H. eapply (proj2 (PI_suff l ts)); eauto. Qed.

  (* ---------------- facts about kinds and the break test of infix_loop *)
  Lemma infix_cases : forall k, is_infix k = true -> k = K_CHOICE_OP \/ k = K_SEQUENCE_OP.
  Proof. destruct k; simpl; intros; try discriminate; auto. Qed.
  Lemma infix_not_eoi : forall k, is_infix k = true -> k <> K_EOI.
  Proof. intros k H E; subst; discriminate. Qed.

  Lemma brk4 : forall ts, brk 4 ts = true.
  Proof. intros. unfold brk. destruct (tk_kind (current eof ts)); reflexivity. Qed.

  Lemma brk_up : forall q ts, brk (q + 1) ts = false -> brk q ts = false.
  Proof.
    intros q ts. unfold brk. cbv zeta.
    destruct (kind_eqb _ K_EOI); [discriminate|]. destruct (negb _); [rewrite orb_true_r; discriminate|].
    rewrite !orb_false_r. simpl. rewrite !N.ltb_ge. lia.
  Qed.

  (* k infix, q its precedence: at a place where the loop at q+1 stops, the loop at q continues
     exactly when the next token is the operator k *)
  Lemma brk_down : forall k ts, is_infix k = true ->
    brk (precedence_of k + 1) ts = true -> brk (precedence_of k) ts = negb (cur_kind_is eof ts k).
  Proof.
    intros k ts Hk. unfold brk, cur_kind_is. cbv zeta.
    destruct (infix_cases k Hk); subst; destruct (tk_kind (current eof ts)); vm_compute; congruence.
  Qed.

  Lemma head_is : forall k ts, is_infix k = true -> cur_kind_is eof ts k = true ->
    exists tk ts0, ts = tk :: ts0 /\ tk_kind tk = k.
  Proof.
    intros k ts Hk H. unfold cur_kind_is in H. apply kind_eqb_eq in H.
    destruct ts as [|tk ts0]; simpl in H.
    - rewrite eof_kind in H. subst. discriminate.
    - eauto.
  Qed.

  (* ---------------- where the loops stop *)
  Lemma ILn_stop : forall n ts, length ts <= n -> forall p l y t',
    ILn p l ts = Ok (y, t') -> brk p t' = true.
  Proof.
    induction n as [|n IH]; intros ts Hn p l y t' H; rewrite eqIL in H;
      destruct (brk p ts) eqn:B; try (inversion H; subst; exact B);
      apply bind_ok_inv in H; destruct H as ([l1 t1] & H1 & H2); apply PIn_lt in H1.
    - lia.
    - eapply IH; [|exact H2]. lia.
  Qed.

  Lemma PEn_prim : forall p ts,
    PEn p ts = let* '(x, t) := prim_body eof builtins PEn ts in ILn p x t.
  Proof. intros. rewrite eqPE. reflexivity. Qed.

  Lemma PEn_stop : forall p ts y t', PEn p ts = Ok (y, t') -> brk p t' = true.
  Proof.
    intros p ts y t' H. rewrite PEn_prim in H. apply bind_ok_inv in H.
    destruct H as ([x t] & _ & H). eapply ILn_stop; [apply le_n|exact H].
  Qed.

  (* ---------------- shapes of operands *)
  Definition notAlt (x : pexpr) : Prop := match x with PAlt _ => False | _ => True end.
  Definition notSeq (x : pexpr) : Prop := match x with PSeq _ => False | _ => True end.
  Definition notk (k : kind) (x : pexpr) : Prop := if kind_eqb k K_CHOICE_OP then notAlt x else notSeq x.

  Lemma prim_ok_shape : forall PE ts x t, prim_body eof builtins PE ts = Ok (x, t) -> shape x.
  Proof. intros PE ts x t H. pose proof (prim_shape eof builtins PE ts) as S. rewrite H in S. exact S. Qed.

  Lemma ILn_notalt : forall n ts, length ts <= n -> forall p l y t', (3 <= p)%N -> notAlt l ->
    ILn p l ts = Ok (y, t') -> notAlt y.
  Proof.
    induction n as [|n IH]; intros ts Hn p l y t' Hp Hl H; rewrite eqIL in H;
      destruct (brk p ts) eqn:B; try (inversion H; subst; exact Hl);
      apply bind_ok_inv in H; destruct H as ([l1 t1] & H1 & H2); pose proof (PIn_lt _ _ _ _ H1) as Hlt.
    - lia.
    - eapply IH; [| exact Hp | | exact H2]; [lia|].
      rewrite eqPI in H1. cbv zeta in H1. unfold brk in B. cbv zeta in B.
      destruct (is_infix (tk_kind (current eof ts))) eqn:Ei; [|discriminate].
      cbv beta iota delta [negb] in H1.
      apply bind_ok_inv in H1. destruct H1 as ([ops t2] & _ & H1). inversion H1; subst.
      destruct (infix_cases _ Ei) as [E|E]; rewrite E in *.
      + (* `|` has precedence 2 < p *)
        exfalso. simpl in B. rewrite orb_false_r in B. apply N.ltb_ge in B.
        unfold PRECEDENCE_CHOICE in B. lia.
      + exact I.
  Qed.

  Lemma PEn4_shape : forall ts y t, PEn 4 ts = Ok (y, t) -> shape y.
  Proof.
    intros ts y t H. rewrite PEn_prim in H. apply bind_ok_inv in H.
    destruct H as ([x t1] & H1 & H2). rewrite eqIL, brk4 in H2. inversion H2; subst.
    eapply prim_ok_shape; eauto.
  Qed.

  Lemma PEn3_notalt : forall ts y t, PEn 3 ts = Ok (y, t) -> notAlt y.
  Proof.
    intros ts y t H. rewrite PEn_prim in H. apply bind_ok_inv in H.
    destruct H as ([x t1] & H1 & H2). apply prim_ok_shape in H1.
    eapply ILn_notalt; [apply le_n| |  | exact H2]; [reflexivity|]. destruct x; simpl in *; auto.
  Qed.

  Lemma operand_notk : forall k ts y t, is_infix k = true ->
    PEn (precedence_of k + 1) ts = Ok (y, t) -> notk k y.
  Proof.
    intros k ts y t Hk H. destruct (infix_cases k Hk); subst; unfold notk; simpl in *.
    - apply PEn3_notalt in H. exact H.
    - apply PEn4_shape in H. destruct y; simpl in *; auto.
  Qed.

  (* ---------------- splitting the loop: infix_loop q = infix_loop (q+1) then infix_loop q *)
  Lemma ILn_split : forall n t, length t <= n -> forall q x,
    ILn q x t = let* '(y, t') := ILn (q + 1) x t in ILn q y t'.
  Proof.
    induction n as [|n IH]; intros t Hn q x; rewrite (eqIL (q + 1));
      destruct (brk (q + 1) t) eqn:B; try reflexivity;
      rewrite (eqIL q), (brk_up _ _ B), bind_assoc; apply bind_ext; intros [x' t1] H1;
      apply PIn_lt in H1.
    - lia.
    - apply IH. lia.
  Qed.

  Lemma PEn_split : forall q ts, PEn q ts = let* '(y, t') := PEn (q + 1) ts in ILn q y t'.
  Proof.
    intros. rewrite (PEn_prim q), (PEn_prim (q + 1)), bind_assoc.
    apply bind_ext. intros [x t] _. apply (ILn_split (length t)). apply le_n.
  Qed.

  (* ---------------- runs *)
  Lemma RUNn_acc : forall n t, length t <= n -> forall k p ro l, k <> K_EOI ->
    RUNn k p (ro ++ [l]) t = let* '(ops, t1) := RUNn k p ro t in Ok (l :: ops, t1).
  Proof.
    induction n as [|n IH]; intros t Hn k p ro l Hk; rewrite !eqRUN by auto;
      destruct (cur_kind_is eof t k) eqn:E; try (simpl; rewrite rev_unit; reflexivity);
      pose proof (tl_lt t (current_kind_nonempty eof eof_kind t k E Hk)) as Hlt;
      rewrite bind_assoc; apply bind_ext; intros [e t2] H2; apply PEn_shrink in H2.
    - lia.
    - apply (IH t2 ltac:(lia) k p (e :: ro) l Hk).
  Qed.

  Lemma RUNn_stop : forall n t, length t <= n -> forall k p ro ops t1, k <> K_EOI ->
    brk p t = true -> RUNn k p ro t = Ok (ops, t1) ->
    brk p t1 = true /\ cur_kind_is eof t1 k = false.
  Proof.
    induction n as [|n IH]; intros t Hn k p ro ops t1 Hk B H; rewrite eqRUN in H by auto;
      destruct (cur_kind_is eof t k) eqn:E; try (inversion H; subst; auto);
      pose proof (tl_lt t (current_kind_nonempty eof eof_kind t k E Hk)) as Hlt;
      apply bind_ok_inv in H; destruct H as ([e t2] & H2 & H3);
      pose proof (PEn_shrink _ _ _ _ H2); pose proof (PEn_stop _ _ _ _ H2).
    - lia.
    - eapply (IH t2); eauto. lia.
  Qed.

  (* ---------------- the old way of combining `left op right` (text of the old parse_infix_expression) *)
  Definition old_comb (k : kind) (st : nat) (l r : pexpr) (t : list token) : rexpr :=
    if kind_eqb k K_CHOICE_OP then
      match r with
      | PAlt es => Ok (PAlt (l :: es), t)
      | _ => Ok (PAlt [l; r], t)
      end
    else if kind_eqb k K_SEQUENCE_OP then
      match r with
      | PSeq es => Ok (PSeq (l :: es), t)
      | _ => Ok (PSeq [l; r], t)
      end
    else Syn st.

  Lemma old_comb_operand : forall k st l y t, is_infix k = true -> notk k y ->
    old_comb k st l y t = Ok (mk k [l; y], t).
  Proof.
    intros k st l y t Hk Hy. destruct (infix_cases k Hk); subst; unfold notk, old_comb, mk in *; simpl in *;
      destruct y; simpl in *; try contradiction; reflexivity.
  Qed.
  Lemma old_comb_run : forall k st l ops t, is_infix k = true ->
    old_comb k st l (mk k ops) t = Ok (mk k (l :: ops), t).
  Proof. intros k st l ops t Hk. destruct (infix_cases k Hk); subst; reflexivity. Qed.

  (* after an operand y at level q+1: the old loop-and-combine = the rest of the new run *)
  Lemma absorb : forall k st l y t', is_infix k = true -> notk k y ->
    brk (precedence_of k + 1) t' = true ->
    (let* '(r, t) := ILn (precedence_of k) y t' in old_comb k st l r t)
    = (let* '(ops, t) := RUNn k (precedence_of k + 1) [y; l] t' in Ok (mk k ops, t)).
  Proof.
    intros k st l y t' Hk Hy B. pose proof (infix_not_eoi k Hk) as Hne.
    pose proof (brk_down k t' Hk B) as Bq.
    rewrite eqIL, Bq. destruct (cur_kind_is eof t' k) eqn:E; cbv beta iota delta [negb].
    - (* the run continues *)
      destruct (head_is k t' Hk E) as (tk & ts0 & -> & Ek).
      rewrite eqPI. cbv zeta. simpl current. rewrite Ek, Hk. cbv beta iota delta [negb].
      rewrite !bind_assoc.
      change [y; l] with ([y] ++ [l]). rewrite (RUNn_acc (length (tk :: ts0))) by auto.
      rewrite bind_assoc. apply bind_ext. intros [ops t1] H1.
      destruct (RUNn_stop _ _ (le_n _) _ _ _ _ _ Hne B H1) as [B1 E1].
      cbn [bind]. rewrite eqIL, (brk_down k t1 Hk B1), E1. cbv beta iota delta [negb]. cbn [bind].
      apply old_comb_run; auto.
    - (* the run is over *)
      cbn [bind]. rewrite eqRUN, E by auto. cbn [bind rev app]. apply old_comb_operand; auto.
  Qed.

  (* KEY: old-style `right = parse_expression(q); combine` (on the new parse_expression) = the new
     parse_infix_expression *)
  Lemma star : forall tk ts0 l, is_infix (tk_kind tk) = true ->
    (let* '(r, t) := PEn (precedence_of (tk_kind tk)) ts0 in old_comb (tk_kind tk) (tk_start tk) l r t)
    = PIn l (tk :: ts0).
  Proof.
    intros tk ts0 l Hk. set (k := tk_kind tk) in *. pose proof (infix_not_eoi k Hk) as Hne.
    rewrite eqPI. cbv zeta. simpl current. fold k. rewrite Hk. cbv beta iota delta [negb].
    rewrite eqRUN by auto. unfold cur_kind_is at 1. simpl current. fold k. rewrite kind_eqb_refl.
    simpl tl. rewrite PEn_split, !bind_assoc. apply bind_ext. intros [y t'] H.
    apply absorb; auto.
    - eapply operand_notk; eauto.
    - eapply PEn_stop; eauto.
  Qed.

End NEW.

(* ------------------------------------------------------------------ *)
(** * The old parser never runs out of the fuel 3 * |tokens| + 3 (same proof as for the new one) *)

Section OLD_SUFF.
  Variable L : nat.
  Variable eof : token.
  Variable builtins : list (text * text).
  Hypothesis eof_kind : tk_kind eof = K_EOI.
  Hypothesis eof_ok : tok_ok L eof.

  Local Notation good := (good L).
  Local Notation ppost := (ppost L).
  Local Notation ppost_lt := (ppost_lt L).
  Local Notation ts_ok := (ts_ok L).
  Let good_bind := FrontProof.good_bind L.
  Let good_weaken := FrontProof.good_weaken L.
  Let pnext_spec := FrontProof.pnext_spec L eof eof_ok.
  Let eat_good := FrontProof.eat_good L eof eof_kind eof_ok.
  Let current_ok := FrontProof.current_ok L eof eof_ok.
  Let current_kind_nonempty := FrontProof.current_kind_nonempty eof eof_kind.
  Let tl_ok := FrontProof.tl_ok L.
  Let postfix_loop_good := FrontProof.postfix_loop_good L eof eof_kind eof_ok.
  Let parse_peek_expression_good := FrontProof.parse_peek_expression_good L eof eof_kind eof_ok.
  Let unescape_string_good := FrontProof.unescape_string_good L.
  Let not_eoi_nonempty := FrontProof.not_eoi_nonempty eof eof_kind.

  Ltac gbind lem := eapply good_bind; [eapply lem; eauto|].
  Ltac eat_step t ts H :=
    eapply good_bind; [eapply eat_good; eauto|];
    intros [t ts] H; cbn [fst snd] in H.
  Ltac pfin := unfold FrontProof.ppost, FrontProof.ppost_lt; cbn [FrontProof.good fst snd]; split; [auto|try lia].

  Lemma old_group_good : forall fuel,
    (forall prec ts, ts_ok ts -> 3 * length ts + 3 <= fuel ->
       good (ppost ts) (parse_expression_old eof builtins fuel prec ts)) /\
    (forall prec l ts, ts_ok ts -> 3 * length ts + 2 <= fuel ->
       good (ppost ts) (infix_loop_old eof builtins fuel prec l ts)) /\
    (forall l ts, ts_ok ts -> ts <> [] -> 3 * length ts + 1 <= fuel ->
       good (ppost_lt ts) (parse_infix_expression_old eof builtins fuel l ts)).
  Proof.
    induction fuel as [|fuel (IHPE & IHIL & IHPI)].
    { repeat split; intros; lia. }
    split; [|split].
      - (* parse_expression *)
        intros prec ts Hok Hf.
        cbn [parse_expression_old infix_loop_old parse_infix_expression_old].
        set (ts1 := if cur_kind_is eof ts K_CHOICE_OP then snd (pnext eof ts) else ts).
        assert (H1 : ts_ok ts1 /\ length ts1 <= length ts).
        { subst ts1. destruct (cur_kind_is eof ts K_CHOICE_OP); [|auto].
          destruct (pnext eof ts) as [t ts'] eqn:E.
          destruct (pnext_spec _ _ _ E Hok) as (_ & A & B & _). auto. }
        destruct H1 as [O1 R1]. clearbody ts1.
        eapply good_bind with (P := ppost ts1).
        { destruct (cur_kind_is eof ts1 K_TAG); [|pfin].
          destruct (pnext eof ts1) as [t ts2] eqn:E.
          destruct (pnext_spec _ _ _ E O1) as (_ & O2 & R2 & _).
          eat_step t3 ts3 H3. destruct H3 as (_ & _ & O3 & R3 & _). pfin. }
        intros [tag ts2] [O2 R2]. cbn [fst snd] in *.
        assert (Hne : forall k, kind_eqb (tk_kind (current eof ts2)) k = true -> k <> K_EOI ->
                      ts_ok (tl ts2) /\ length (tl ts2) < length ts2).
        { intros k Hk Hn. split; [apply tl_ok; auto|].
          apply tl_lt. eapply current_kind_nonempty; eauto. }
        eapply good_bind with (P := ppost ts2).
        { destruct (kind_eqb _ K_STRING) eqn:E1.
          { destruct (pnext eof ts2) as [t ts3] eqn:E.
            destruct (pnext_spec _ _ _ E O2) as (_ & O3 & R3 & _). pfin. }
          destruct (kind_eqb _ K_STRING_CI) eqn:E2.
          { destruct (pnext eof ts2) as [t ts3] eqn:E.
            destruct (pnext_spec _ _ _ E O2) as (_ & O3 & R3 & _). pfin. }
          destruct (kind_eqb _ K_LPAREN) eqn:E3.
          { destruct (Hne _ E3 ltac:(discriminate)) as [O3 R3].
            gbind IHPE; [lia|]. intros [e ts4] [O4 R4]. cbn [fst snd] in *.
            eat_step t5 ts5 H5. destruct H5 as (_ & _ & O5 & R5 & _). pfin. }
          destruct (kind_eqb _ K_IDENTIFIER) eqn:E4.
          { destruct (pnext eof ts2) as [t ts3] eqn:E.
            destruct (pnext_spec _ _ _ E O2) as (_ & O3 & R3 & _).
            destruct (lookup (tk_value t) builtins); destruct (negb _); cbn [andb]; pfin. }
          destruct (kind_eqb _ K_PUSH_LITERAL) eqn:E5.
          { destruct (Hne _ E5 ltac:(discriminate)) as [O3 R3].
            eat_step t4 ts4 H4. destruct H4 as (_ & _ & O4 & R4 & _).
            eat_step t5 ts5 H5. destruct H5 as (_ & _ & O5 & R5 & _).
            eat_step t6 ts6 H6. destruct H6 as (_ & _ & O6 & R6 & _). pfin. }
          destruct (kind_eqb _ K_PUSH) eqn:E6.
          { destruct (Hne _ E6 ltac:(discriminate)) as [O3 R3].
            eat_step t4 ts4 H4. destruct H4 as (_ & _ & O4 & R4 & _).
            gbind IHPE; [lia|]. intros [e ts5] [O5 R5]. cbn [fst snd] in *.
            eat_step t6 ts6 H6. destruct H6 as (_ & _ & O6 & R6 & _). pfin. }
          destruct (kind_eqb _ K_PEEK) eqn:E7.
          { destruct (Hne _ E7 ltac:(discriminate)) as [O3 R3].
            eapply good_weaken; [apply parse_peek_expression_good; auto|].
            intros a [A B]. split; auto. lia. }
          destruct (kind_eqb _ K_PEEK_ALL) eqn:E8.
          { destruct (Hne _ E8 ltac:(discriminate)) as [O3 R3]. pfin. }
          destruct (kind_eqb _ K_POP) eqn:E9.
          { destruct (Hne _ E9 ltac:(discriminate)) as [O3 R3]. pfin. }
          destruct (kind_eqb _ K_DROP) eqn:E10.
          { destruct (Hne _ E10 ltac:(discriminate)) as [O3 R3]. pfin. }
          destruct (kind_eqb _ K_POP_ALL) eqn:E11.
          { destruct (Hne _ E11 ltac:(discriminate)) as [O3 R3]. pfin. }
          destruct (kind_eqb _ K_CHAR) eqn:E12.
          { pose proof (current_ok ts2 O2) as Hstart. unfold tok_ok in Hstart.
            eat_step t3 ts3 H3. destruct H3 as (T3 & K3 & O3 & R3 & _).
            gbind unescape_string_good.
            intros start _.
            eat_step t4 ts4 H4. destruct H4 as (_ & _ & O4 & R4 & _).
            eat_step t5 ts5 H5. destruct H5 as (T5 & K5 & O5 & R5 & _).
            gbind unescape_string_good.
            intros stop _. pfin. }
          destruct (kind_eqb _ K_POSITIVE_PREDICATE) eqn:E13.
          { destruct (Hne _ E13 ltac:(discriminate)) as [O3 R3].
            gbind IHPE; [lia|]. intros [e ts4] [O4 R4]. cbn [fst snd] in *. pfin. }
          destruct (kind_eqb _ K_NEGATIVE_PREDICATE) eqn:E14.
          { destruct (Hne _ E14 ltac:(discriminate)) as [O3 R3].
            gbind IHPE; [lia|]. intros [e ts4] [O4 R4]. cbn [fst snd] in *. pfin. }
          exact (current_ok ts2 O2). }
        intros [lft ts3] [O3 R3]. cbn [fst snd] in *.
        gbind postfix_loop_good. intros [lft' ts4] [O4 R4]. cbn [fst snd] in *.
        eapply good_weaken; [apply IHIL; auto; lia|].
        intros a [A B]. split; auto. lia.
      - (* infix_loop *)
        intros prec l ts Hok Hf.
        cbn [parse_expression_old infix_loop_old parse_infix_expression_old].
        destruct (kind_eqb (tk_kind (current eof ts)) K_EOI) eqn:Ee; cbn [orb]; [pfin|].
        pose proof (not_eoi_nonempty _ Ee) as Hn.
        destruct (_ || _); [pfin|].
        gbind IHPI; [lia|]. intros [l' ts1] [O1 R1]. cbn [fst snd] in *.
        eapply good_weaken; [apply IHIL; auto; lia|].
        intros a [A B]. split; auto. lia.
      - (* parse_infix_expression *)
        intros l ts Hok Hn Hf.
        cbn [parse_expression_old infix_loop_old parse_infix_expression_old].
        destruct (pnext eof ts) as [token ts1] eqn:E.
        destruct (pnext_spec _ _ _ E Hok) as (T1 & O1 & R1 & _ & Etl).
        pose proof (tl_lt ts Hn) as Hlt. rewrite <- Etl in Hlt.
        gbind IHPE; [lia|]. intros [rgt ts2] [O2 R2]. cbn [fst snd] in *.
        destruct (kind_eqb (tk_kind token) K_CHOICE_OP); [destruct rgt; pfin|].
        destruct (kind_eqb (tk_kind token) K_SEQUENCE_OP); [destruct rgt; pfin|].
        apply T1.
  Qed.
End OLD_SUFF.

(* ------------------------------------------------------------------ *)
(** * The old parser refines the (fuel-free) new one, hence equals it *)

Section EQUIV.
  Variable eof : token.
  Variable builtins : list (text * text).
  Hypothesis eof_kind : tk_kind eof = K_EOI.

  Notation PE_n := (parse_expression eof builtins).
  Notation PE_o := (parse_expression_old eof builtins).
  Notation IL_o := (infix_loop_old eof builtins).
  Notation PI_o := (parse_infix_expression_old eof builtins).
  Notation PEn := (PEn eof builtins).
  Notation ILn := (ILn eof builtins).
  Notation PIn := (PIn eof builtins).

  Lemma old_refines_new : forall f,
    (forall p ts, PE_o f p ts ⊑ PEn p ts) /\
    (forall p l ts, IL_o f p l ts ⊑ ILn p l ts) /\
    (forall l ts, is_infix (tk_kind (current eof ts)) = true -> PI_o f l ts ⊑ PIn l ts).
  Proof.
    induction f as [|f (IHPE & IHIL & IHPI)].
    { repeat split; intros; apply le_oof. }
    split; [|split].
    - intros p ts. rewrite PE_old_S, (eqPE eof builtins eof_kind). apply pe_body_mono; auto.
    - intros p l ts. rewrite (eqIL eof builtins eof_kind).
      cbn [parse_expression_old infix_loop_old parse_infix_expression_old]. unfold brk. cbv zeta.
      destruct (kind_eqb (tk_kind (current eof ts)) K_EOI) eqn:E1; [apply le_refl|].
      destruct ((precedence_of (tk_kind (current eof ts)) <? p)%N) eqn:E2; [apply le_refl|].
      destruct (is_infix (tk_kind (current eof ts))) eqn:E3; [|apply le_refl].
      cbn [orb negb]. apply le_bind; [apply IHPI; exact E3|]. intros [l' t]. apply IHIL.
    - intros l ts Hk.
      destruct ts as [|tk ts0]; [simpl in Hk; rewrite eof_kind in Hk; discriminate|]. simpl in Hk.
      rewrite <- (star eof builtins eof_kind tk ts0 l Hk).
      cbn [parse_expression_old infix_loop_old parse_infix_expression_old]. cbn [Front.pnext].
      apply le_bind; [apply IHPE|]. intros [r t]. apply le_refl.
  Qed.

  (* MAIN THEOREM: for every token list, every entry precedence and all sufficient fuels (in particular
     the fuels the front ends supply), the old right-recursive parser and the new loop return the same
     result: same expression, same remaining tokens, same error position. *)
  Theorem parse_expression_equiv : forall ts prec f_old f_new,
    3 * length ts + 3 <= f_old -> 4 * length ts + 4 <= f_new ->
    parse_expression_old eof builtins f_old prec ts = parse_expression eof builtins f_new prec ts.
  Proof.
    intros ts prec f1 f2 H1 H2.
    rewrite (PE_fuel eof builtins eof_kind f2 prec ts) by exact H2.
    apply le_eq; [apply old_refines_new|].
    destruct (exists_L eof ts) as (L & He & Ht).
    pose proof (proj1 (old_group_good L eof builtins eof_kind He f1) prec ts Ht H1) as G.
    intros E. rewrite E in G. exact G.
  Qed.
End EQUIV.

(* ------------------------------------------------------------------ *)
(** * The front end built on the old expression parser *)

Section OLD_FRONT.
  Variable eof : token.
  Variable builtins : list (text * text).

  Fixpoint parse_rules_loop_old (fuel : nat) (rules : list (text * prule)) (ts : list token)
    : res (list (text * prule)) :=
    match fuel with
    | O => OutOfFuel
    | S fuel' =>
        if cur_kind_is eof ts K_EOI then Ok rules
        else
          let* '(rule_doc, ts) := doc_loop eof (S (length ts)) K_RULE_DOC [] ts in
          if cur_kind_is eof ts K_EOI then Ok rules
          else
            let* '(identifier, ts) := eat eof K_IDENTIFIER ts in
            let* '(_, ts) := eat eof K_ASSIGN_OP ts in
            let '(modifier, ts) := parse_modifier eof ts in
            let* '(_, ts) := eat eof K_LBRACE ts in
            let* '(expression, ts) :=
              parse_expression_old eof builtins (3 * length ts + 3) PRECEDENCE_LOWEST ts in
            let* '(_, ts) := eat eof K_RBRACE ts in
            let name := tk_value identifier in
            parse_rules_loop_old fuel'
              (dict_set name (mkprule name modifier expression rule_doc) rules) ts
    end.

  Definition parse_old (ts : list token) : res (list (text * prule)) :=
    let* '(_, ts) := doc_loop eof (S (length ts)) K_GRAMMAR_DOC [] ts in
    parse_rules_loop_old (S (length ts)) [] ts.

  Hypothesis eof_kind : tk_kind eof = K_EOI.

  Lemma parse_rules_loop_old_equiv : forall fuel rules ts,
    parse_rules_loop_old fuel rules ts = parse_rules_loop eof builtins fuel rules ts.
  Proof.
    induction fuel as [|fuel IH]; intros rules ts; [reflexivity|].
    cbn [parse_rules_loop_old parse_rules_loop].
    destruct (cur_kind_is eof ts K_EOI); [reflexivity|].
    apply bind_ext. intros [rule_doc ts1] _.
    destruct (cur_kind_is eof ts1 K_EOI); [reflexivity|].
    apply bind_ext. intros [identifier ts2] _.
    apply bind_ext. intros [x ts3] _.
    destruct (parse_modifier eof ts3) as [modifier ts4].
    apply bind_ext. intros [y ts5] _.
    unfold pexpr_fuel.
    rewrite (parse_expression_equiv eof builtins eof_kind ts5 PRECEDENCE_LOWEST
               (3 * length ts5 + 3) (4 * length ts5 + 4)) by lia.
    apply bind_ext. intros [expression ts6] _.
    apply bind_ext. intros [z ts7] _. apply IH.
  Qed.

  Lemma parse_old_equiv : forall ts, parse_old ts = parse eof builtins ts.
  Proof.
    intros. unfold parse_old, parse. apply bind_ext. intros [d ts1] _.
    apply parse_rules_loop_old_equiv.
  Qed.
End OLD_FRONT.

(* `front` with only the expression parser replaced by the old one *)
Definition front_old (grammar : text) : fres :=
  match (let* tokens := tokenize grammar in
         parse_old (mktoken K_EOI [] (length grammar)) BUILTIN tokens) with
  | Ok rules => FOk (merge_rules rules)
  | Syn p => FSyntax p
  | Crash k => FCrash k
  | OutOfFuel => FFuel
  end.

Theorem front_old_equiv : forall t, front_old t = front t.
Proof.
  intros t. unfold front_old, front.
  replace (let* tokens := tokenize t in parse_old (mktoken K_EOI [] (length t)) BUILTIN tokens)
    with (let* tokens := tokenize t in parse (mktoken K_EOI [] (length t)) BUILTIN tokens); [reflexivity|].
  apply bind_ext. intros tokens _. symmetry. apply parse_old_equiv. reflexivity.
Qed.

Print Assumptions parse_expression_equiv.
Print Assumptions front_old_equiv.
