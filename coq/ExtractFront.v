(* ExtractFront.v — extraction of the front-end model `Front.front` to OCaml
   (ExtrOcamlBasic only; N / Z / nat / positive stay inductive). *)
From Coq Require Import ExtrOcamlBasic.
From Coq Require Extraction.
From PP Require Import Front.
Extraction Language OCaml.
Extraction "front_ml.ml" front.
