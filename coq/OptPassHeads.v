(* OptPassHeads.v — what the modelled passes never change: every one of the four modelled passes returns a table with
   the same rules in the same order, each with its name, silence and atomicity; only bodies are rewritten. *)
From Coq Require Import List NArith ZArith Bool Arith.
Import ListNotations.
From PP Require Import Base Syntax Spec SpecSyn Opt OptPass OptPassProof OptPassInline OptPassCompose OptPassSilent OptPassSkip.

Lemma same_heads_refl g : same_heads g g.
Proof. induction g as [|r g IH]; constructor; [repeat split; reflexivity|exact IH]. Qed.

Lemma same_heads_trans g1 g2 g3 : same_heads g1 g2 -> same_heads g2 g3 -> same_heads g1 g3.
Proof.
  intros H. revert g3. induction H as [|r1 r2 g1 g2 [A1 [A2 A3]] _ IH]; intros g3 K; inversion K; subst; constructor.
  - destruct H1 as [B1 [B2 B3]]. repeat split; congruence.
  - apply IH. assumption.
Qed.

Lemma update_heads g n b : same_heads g (update g n b).
Proof.
  induction g as [|r g IH]; [constructor|]. unfold update. cbn [map]. constructor; [|exact IH].
  destruct (N.eqb (r_name r) n); repeat split; reflexivity.
Qed.

Theorem inline_silent_heads bi : forall order g, same_heads g (pass_inline_silent bi order g).
Proof.
  unfold pass_inline_silent. induction order as [|n order IH]; intros g; [apply same_heads_refl|].
  cbn [fold_left]. destruct (bi n); [apply IH|].
  destruct (lookup g n) as [r|]; [|apply IH].
  eapply same_heads_trans; [apply update_heads|apply IH].
Qed.

Theorem skip_heads bi any_id fuel : forall order g g', pass_skip bi any_id fuel order g = Some g' -> same_heads g g'.
Proof.
  unfold pass_skip.
  assert (N0 : forall order, fold_left (fun acc n => match acc with
             | None => None
             | Some tbl => if bi n then Some tbl else match lookup tbl n with
                 | Some r => if never_skips tbl r then match map_td (skip1 bi any_id tbl) fuel (r_body r) with
                                                       | Some b => Some (update tbl n b) | None => None end
                             else Some tbl
                 | None => Some tbl end end) order None = None).
  { induction order as [|n order IH]; [reflexivity|exact IH]. }
  induction order as [|n order IH]; intros g g' H; cbn [fold_left] in H.
  - inversion H. apply same_heads_refl.
  - destruct (bi n); [apply IH; exact H|].
    destruct (lookup g n) as [r|]; [|apply IH; exact H].
    destruct (never_skips g r); [|apply IH; exact H].
    destruct (map_td (skip1 bi any_id g) fuel (r_body r)) as [b|].
    + eapply same_heads_trans; [apply update_heads|apply IH; exact H].
    + rewrite N0 in H. discriminate.
Qed.

Theorem unroll_pass_heads bi g : same_heads g (pass_unroll bi g).
Proof. apply unroll_heads. Qed.

Theorem inline_builtin_pass_heads bi fuel g g' : all_grammar count_ok g = true ->
  pass_inline_builtin bi fuel g = Some g' -> same_heads g g'.
Proof. intros C H. exact (proj1 (inline_heads_count bi fuel g g' C H)). Qed.
