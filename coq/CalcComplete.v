From Coq Require Import List NArith ZArith Bool Arith Lia.
Import ListNotations.
From PP Require Import Base Syntax Spec SpecMono SpecLaws SpecEquiv GrammarsCalc Pratt PrattProof.
From PP Require Import JsonComplete.

(* CalcComplete.v - completeness of examples/calculator/calculator.pest (calc_grammar):
   every well-formed expression text is parsed into exactly its token stream, and that
   stream is one the Pratt parser of Pratt.v consumes entirely. *)

Open Scope N_scope.

(* ==================================================================================== *)
(* Part 1. Surface token streams                                                         *)
(* ==================================================================================== *)

Inductive ctok :=
| CInt (ds : text) | CId (cs : text) | CGroup (inner : list ctok) | CNeg | CFac | CInf (o : nat).

Definition is_alpha (c : N) : bool := ((97 <=? c) && (c <=? 122)) || ((65 <=? c) && (c <=? 90)).

(* one digit, or a non-zero digit followed by at least one digit *)
Definition wf_cint (ds : text) : bool :=
  match ds with
  | [] => false
  | [d] => is_digit d
  | d :: ds' => is_nzdigit d && forallb is_digit ds'
  end.

Definition wf_cid (cs : text) : bool := nonempty cs && forallb is_alpha cs.

(* the shape  prefix* primary postfix* (infix prefix* primary postfix* )*  as a two-state
   machine: st = false: an operand is expected; st = true: an operand has just been completed *)
Definition wf_list (wt : ctok -> bool) : bool -> list ctok -> bool :=
  fix go (st : bool) (l : list ctok) {struct l} : bool :=
    match l with
    | [] => st
    | t :: r =>
        if st then
          match t with
          | CFac => go true r
          | CInf o => (o <? 5)%nat && go false r
          | _ => false
          end
        else
          match t with
          | CNeg => go false r
          | CInt _ | CId _ | CGroup _ => wt t && go true r
          | _ => false
          end
    end.

Fixpoint wf_tok (t : ctok) : bool :=
  match t with
  | CInt ds => wf_cint ds
  | CId cs => wf_cid cs
  | CGroup inner => wf_list wf_tok false inner
  | CNeg | CFac => true
  | CInf o => (o <? 5)%nat
  end.

Definition wf_ctoks (ts : list ctok) : bool := wf_list wf_tok false ts.

(* operator characters and rule ids, in the order of `infix`: add sub mul div pow *)
Definition opc (o : nat) : N :=
  match o with 0%nat => 43 | 1%nat => 45 | 2%nat => 42 | 3%nat => 47 | _ => 94 end.
Definition opn (o : nat) : N :=
  match o with 0%nat => 19 | 1%nat => 18 | 2%nat => 17 | 3%nat => 16 | _ => 15 end.

(* renderings: arbitrary whitespace between adjacent tokens, after "(" and before ")" *)
Inductive crenders : list ctok -> text -> Prop :=
| CR_nil : crenders [] []
| CR_one t x : crenders_tok t x -> crenders [t] x
| CR_cons t t' ts x w y :
    crenders_tok t x -> ws w -> crenders (t' :: ts) y -> crenders (t :: t' :: ts) (x ++ w ++ y)
with crenders_tok : ctok -> text -> Prop :=
| CT_int ds : crenders_tok (CInt ds) ds
| CT_id cs : crenders_tok (CId cs) cs
| CT_neg : crenders_tok CNeg [45]
| CT_fac : crenders_tok CFac [33]
| CT_inf o : crenders_tok (CInf o) [opc o]
| CT_group inner w1 x w2 :
    ws w1 -> crenders inner x -> ws w2 ->
    crenders_tok (CGroup inner) (40 :: w1 ++ x ++ w2 ++ [41]).

Inductive crenders_doc : list ctok -> text -> Prop :=
| CR_doc ts w1 x w2 : ws w1 -> crenders ts x -> ws w2 -> crenders_doc ts (w1 ++ x ++ w2).

(* ==================================================================================== *)
(* Part 2. Expected trees, and the Pratt view                                            *)
(* ==================================================================================== *)

(* one child per token.  The nested `expr` pair (10) of a group spans a rendering of the inner
   stream followed by the whitespace pest's implicit skip consumed before `postfix*` / the
   infix tail found nothing more (possibly none): that is what pest delivers. *)
Inductive ctsk : ctok -> sk -> Prop :=
| S_int ds : ctsk (CInt ds) (SK 6 ds [])
| S_id cs : ctsk (CId cs) (SK 4 cs [])
| S_neg : ctsk CNeg (SK 13 [45] [])
| S_fac : ctsk CFac (SK 11 [33] [])
| S_inf o : ctsk (CInf o) (SK (opn o) [opc o] [])
| S_group inner x w kids :
    crenders inner x -> ws w -> Forall2 ctsk inner kids ->
    ctsk (CGroup inner) (SK 10 (x ++ w) kids).

(* program (21) spans the whole input and contains the expr pair and EOI (3) *)
Definition cmirrors (input : text) (ts : list ctok) (tree : list pair) : Prop :=
  exists top, map (skel input) tree = [SK 21 input [top; SK 3 [] []]] /\ ctsk (CGroup ts) top.

(* the Pratt view of a stream: groups, ints and idents are primaries (indexed by position) *)
Fixpoint ptoks_from (i : nat) (ts : list ctok) : list tok :=
  match ts with
  | [] => []
  | t :: r =>
      match t with
      | CNeg => KPre 0
      | CFac => KPost 0
      | CInf o => KInf o
      | _ => KPrim i
      end :: ptoks_from (S i) r
  end.
Definition ptoks (ts : list ctok) : list tok := ptoks_from 0 ts.

(* the same, read off the children of an `expr` skeleton *)
Definition tok_of_sk (i : nat) (k : sk) : tok :=
  match k with
  | SK n _ _ =>
      if n =? 13 then KPre 0 else if n =? 11 then KPost 0
      else if n =? 19 then KInf 0 else if n =? 18 then KInf 1 else if n =? 17 then KInf 2
      else if n =? 16 then KInf 3 else if n =? 15 then KInf 4 else KPrim i
  end.
Fixpoint toks_from (i : nat) (ks : list sk) : list tok :=
  match ks with [] => [] | k :: r => tok_of_sk i k :: toks_from (S i) r end.
Definition toks_of (ks : list sk) : list tok := toks_from 0 ks.

Lemma toks_of_ptoks : forall ts kids st i, wf_list wf_tok st ts = true ->
  Forall2 ctsk ts kids -> toks_from i kids = ptoks_from i ts.
Proof.
  induction ts as [|t ts IH]; intros kids st i Hw HF; inversion HF as [|t0 k ts0 kids0 Hk HF']; subst.
  - reflexivity.
  - cbn [toks_from ptoks_from]. cbn [wf_list] in Hw.
    destruct st.
    + destruct t; try discriminate.
      * inversion Hk; subst. cbn. f_equal. apply (IH _ true); assumption.
      * apply andb_prop in Hw. destruct Hw as [Ho Hw]. inversion Hk; subst.
        f_equal; [|apply (IH _ false); assumption].
        apply Nat.ltb_lt in Ho.
        destruct o as [|[|[|[|[|o]]]]]; try reflexivity. lia.
    + destruct t; try discriminate.
      * apply andb_prop in Hw. destruct Hw as [_ Hw]. inversion Hk; subst. cbn.
        f_equal. apply (IH _ true); assumption.
      * apply andb_prop in Hw. destruct Hw as [_ Hw]. inversion Hk; subst. cbn.
        f_equal. apply (IH _ true); assumption.
      * apply andb_prop in Hw. destruct Hw as [_ Hw]. inversion Hk; subst. cbn.
        f_equal. apply (IH _ true); assumption.
      * inversion Hk; subst. cbn. f_equal. apply (IH _ false); assumption.
Qed.

(* the bridge to the Pratt model *)
Lemma wf_list_wfs : forall ts i,
  (wf_list wf_tok false ts = true -> wfs (ptoks_from i ts)) /\
  (wf_list wf_tok true ts = true -> wfo (ptoks_from i ts)).
Proof.
  induction ts as [|t ts IH]; intros i; split; intros H; cbn [wf_list ptoks_from] in *.
  - discriminate.
  - constructor.
  - destruct t; try discriminate.
    + apply andb_prop in H. constructor. apply IH. apply H.
    + apply andb_prop in H. constructor. apply IH. apply H.
    + apply andb_prop in H. constructor. apply IH. apply H.
    + constructor. apply IH. exact H.
  - destruct t; try discriminate.
    + constructor. apply IH. exact H.
    + apply andb_prop in H. constructor. apply IH. apply H.
Qed.

Theorem calc_stream_wellformed : forall ts, wf_ctoks ts = true -> wfs (ptoks ts).
Proof. intros ts H. apply (wf_list_wfs ts 0). exact H. Qed.

(* for ANY operator table the Pratt parser consumes the whole stream and builds the canonical
   tree, whose in-order yield is the stream *)
Theorem calc_pratt_total : forall tb ts, wf_ctoks ts = true ->
  exists f t, Pratt.parse_expr tb f (ptoks ts) 0 = Some (t, []) /\ canon tb 0 t /\ yield t = ptoks ts.
Proof.
  intros tb ts H.
  destruct (consumes_all tb (ptoks ts) (calc_stream_wellformed ts H)) as [f [t E]].
  exists f, t. split; [exact E|]. split.
  - exact (parse_expr_canon tb f _ _ _ _ E).
  - pose proof (parse_expr_yield tb f _ _ _ _ E) as Y. rewrite app_nil_r in Y. exact Y.
Qed.

(* ==================================================================================== *)
(* Part 3. The rules of calculator.pest                                                  *)
(* ==================================================================================== *)

Notation CG := calc_grammar.

Definition alpha_body := EAlt [ERange 97 122; ERange 65 90].
Definition ident_body := EPlus (ERef 5 None).
Definition int_body := EGrp (EAlt [ESeq [ERef 7 None; EPlus (ERef 8 None)]; ERef 8 None]) None.
Definition primary_body := EAlt [ERef 6 None; ESeq [EStr [40]; ERef 10 None; EStr [41]]; ERef 4 None].
Definition infix_body := EAlt [ERef 19 None; ERef 18 None; ERef 17 None; ERef 16 None; ERef 15 None].
Definition e_pfx := EStar (ERef 14 None).
Definition e_pst := EStar (ERef 12 None).
Definition e_tail := EGrp (ESeq [ERef 20 None; e_pfx; ERef 9 None; e_pst]) None.
Definition expr_body := ESeq [e_pfx; ERef 9 None; e_pst; EStar e_tail].
Definition program_body := ESeq [ERef 22 None; ERef 10 None; ERef 3 None].
Definition cws_body := EAlt [EStr [32]; EStr [9]; ERef 23 None].
Definition nl_body := EAlt [EStr [10]; EStr [13; 10]; EStr [13]].

Lemma ck_ws : lookup CG 0 = Some (mkrule 0 true KNormal cws_body). Proof. reflexivity. Qed.
Lemma ck_eoi : lookup CG 3 = Some (mkrule 3 false KNormal EEoi). Proof. reflexivity. Qed.
Lemma ck_ident : lookup CG 4 = Some (mkrule 4 false KAtomic ident_body). Proof. reflexivity. Qed.
Lemma ck_alpha : lookup CG 5 = Some (mkrule 5 true KNormal alpha_body). Proof. reflexivity. Qed.
Lemma ck_int : lookup CG 6 = Some (mkrule 6 false KAtomic int_body). Proof. reflexivity. Qed.
Lemma ck_nzdigit : lookup CG 7 = Some (mkrule 7 true KNormal (ERange 49 57)). Proof. reflexivity. Qed.
Lemma ck_digit : lookup CG 8 = Some (mkrule 8 true KNormal (ERange 48 57)). Proof. reflexivity. Qed.
Lemma ck_primary : lookup CG 9 = Some (mkrule 9 true KNormal primary_body). Proof. reflexivity. Qed.
Lemma ck_expr : lookup CG 10 = Some (mkrule 10 false KNormal expr_body). Proof. reflexivity. Qed.
Lemma ck_fac : lookup CG 11 = Some (mkrule 11 false KNormal (EStr [33])). Proof. reflexivity. Qed.
Lemma ck_postfix : lookup CG 12 = Some (mkrule 12 true KNormal (ERef 11 None)). Proof. reflexivity. Qed.
Lemma ck_neg : lookup CG 13 = Some (mkrule 13 false KNormal (EStr [45])). Proof. reflexivity. Qed.
Lemma ck_prefix : lookup CG 14 = Some (mkrule 14 true KNormal (ERef 13 None)). Proof. reflexivity. Qed.
Lemma ck_pow : lookup CG 15 = Some (mkrule 15 false KNormal (EStr [94])). Proof. reflexivity. Qed.
Lemma ck_div : lookup CG 16 = Some (mkrule 16 false KNormal (EStr [47])). Proof. reflexivity. Qed.
Lemma ck_mul : lookup CG 17 = Some (mkrule 17 false KNormal (EStr [42])). Proof. reflexivity. Qed.
Lemma ck_sub : lookup CG 18 = Some (mkrule 18 false KNormal (EStr [45])). Proof. reflexivity. Qed.
Lemma ck_add : lookup CG 19 = Some (mkrule 19 false KNormal (EStr [43])). Proof. reflexivity. Qed.
Lemma ck_infix : lookup CG 20 = Some (mkrule 20 true KNormal infix_body). Proof. reflexivity. Qed.
Lemma ck_program : lookup CG 21 = Some (mkrule 21 false KNormal program_body). Proof. reflexivity. Qed.
Lemma ck_soi : lookup CG 22 = Some (mkrule 22 true KNormal ESoi). Proof. reflexivity. Qed.
Lemma ck_nl : lookup CG 23 = Some (mkrule 23 true KNormal nl_body). Proof. reflexivity. Qed.
Lemma calc_skip : skip_expr CG = Some (EStar (ERef 0 None)). Proof. reflexivity. Qed.

(* a normal rule called from a non-atomic context *)
Lemma C_rule_normal c n s b pre x post kids :
  lookup CG n = Some (mkrule n s KNormal b) -> c_atom c = NonAtomic ->
  M CG (rctx c n s b) (TEval b) pre x post kids ->
  M CG c (TEval (ERef n None)) pre x post
    (if s then kids else [Pair n (lenN pre) (lenN (pre ++ x)) kids None]).
Proof.
  intros L Hc H. eapply M_ps; cycle 1.
  - eapply M_ref; [exact L|]. exact H.
  - unfold wrap, visible, mkrule. cbn [r_silent r_kind r_name]. rewrite Hc. destruct s; reflexivity.
Qed.

Lemma C_rule_fail c n s b pre r :
  lookup CG n = Some (mkrule n s KNormal b) ->
  F CG (rctx c n s b) (TEval b) pre r -> F CG c (TEval (ERef n None)) pre r.
Proof. intros L H. eapply F_ref; [exact L|exact H]. Qed.

(* ------------------------------------------------------------------------------------ *)
(* 3a. implicit whitespace: " " | "\t" | "\n" | "\r\n" | "\r"                            *)
(* ------------------------------------------------------------------------------------ *)

Section CWS.
Variable c : ctx.

Lemma strip1_nows a r : is_ws a = true -> hdP nows r = true -> strip_prefix [a] r = None.
Proof.
  intros Ha H. destruct r as [|d r]; [reflexivity|]. cbn [strip_prefix hdP] in *.
  destruct (N.eqb_spec a d) as [->|_]; [|reflexivity].
  unfold nows in H. rewrite Ha in H. discriminate.
Qed.

Lemma F_cws1 pre r : hdP nows r = true -> F CG c (TEval (ERef 0 None)) pre r.
Proof.
  intros H. eapply F_ref; [exact ck_ws|]. cbn [r_body mkrule]. unfold cws_body. apply F_alt.
  apply Fa_cons; [apply F_str; apply strip1_nows; [reflexivity|exact H]|].
  apply Fa_cons; [apply F_str; apply strip1_nows; [reflexivity|exact H]|].
  apply Fa_cons; [|apply Fa_nil].
  eapply F_ref; [exact ck_nl|]. cbn [r_body mkrule]. unfold nl_body. apply F_alt.
  apply Fa_cons; [apply F_str; apply strip1_nows; [reflexivity|exact H]|].
  apply Fa_cons; [|apply Fa_cons; [apply F_str; apply strip1_nows; [reflexivity|exact H]|apply Fa_nil]].
  apply F_str. destruct r as [|d r]; [reflexivity|]. cbn [strip_prefix hdP] in *.
  destruct (N.eqb_spec 13 d) as [<-|_]; [discriminate|reflexivity].
Qed.

(* one iteration of WHITESPACE, on each of its five alternatives *)
Lemma M_nl pre x post :
  x = [10] \/ x = [13; 10] \/ (x = [13] /\ hdP (fun d => negb (d =? 10)) post = true) ->
  M CG c (TEval (ERef 0 None)) pre x post [].
Proof.
  intros H. eapply M_ps; cycle 1.
  - eapply M_ref; [exact ck_ws|]. cbn [r_body mkrule]. unfold cws_body. apply M_alt.
    apply Ma_next; [apply F_str; destruct H as [->|[->|[-> _]]]; reflexivity|].
    apply Ma_next; [apply F_str; destruct H as [->|[->|[-> _]]]; reflexivity|].
    apply Ma_first. eapply M_ps; cycle 1.
    + eapply M_ref; [exact ck_nl|]. cbn [r_body mkrule]. unfold nl_body. apply M_alt.
      destruct H as [->|[->|[-> H]]].
      * apply Ma_first. apply M_str.
      * apply Ma_next; [apply F_str; reflexivity|]. apply Ma_first. apply M_str.
      * apply Ma_next; [apply F_str; reflexivity|].
        apply Ma_next.
        { apply F_str. destruct post as [|d post]; [reflexivity|]. cbn [app strip_prefix hdP] in *.
          apply negb_true_iff in H. rewrite N.eqb_refl, (N.eqb_sym 10 d), H. reflexivity. }
        apply Ma_first. apply M_str.
    + reflexivity.
  - reflexivity.
Qed.

Lemma M_sp pre d post : d = 32 \/ d = 9 -> M CG c (TEval (ERef 0 None)) pre [d] post [].
Proof.
  intros H. eapply M_ps; cycle 1.
  - eapply M_ref; [exact ck_ws|]. cbn [r_body mkrule]. unfold cws_body. apply M_alt.
    destruct H as [->| ->].
    + apply Ma_first. apply M_str.
    + apply Ma_next; [apply F_str; reflexivity|]. apply Ma_first. apply M_str.
  - reflexivity.
Qed.

Hypothesis Hc : c_atom c <> NonAtomic.

Lemma ws_cons d w : ws (d :: w) -> is_ws d = true /\ ws w.
Proof. unfold ws. cbn [forallb]. intros H. apply andb_prop in H. exact H. Qed.

Lemma MT_cws : forall n w pre post, (length w <= n)%nat -> ws w -> hdP nows post = true ->
  M CG c (TStar (ERef 0 None)) pre w post [].
Proof.
  induction n as [|n IH]; intros w pre post Hl H Hp.
  - destruct w; [|cbn in Hl; lia]. apply MT_stop_a; [exact Hc|apply F_cws1; exact Hp].
  - destruct w as [|d w]; [apply MT_stop_a; [exact Hc|apply F_cws1; exact Hp]|].
    apply ws_cons in H. destruct H as [H1 H2]. cbn [length] in Hl.
    destruct (is_ws_cases d H1) as [-> | [-> | [-> | ->]]].
    + eapply M_ps; cycle 1.
      * apply (MT_go_a CG c (ERef 0 None) pre [32] w post [] []); [exact Hc|apply M_sp; tauto|].
        apply IH; [lia|assumption..].
      * reflexivity.
    + eapply M_ps; cycle 1.
      * apply (MT_go_a CG c (ERef 0 None) pre [9] w post [] []); [exact Hc|apply M_sp; tauto|].
        apply IH; [lia|assumption..].
      * reflexivity.
    + (* CR: alone, or CR LF *)
      destruct w as [|e w].
      * eapply M_ps; cycle 1.
        -- apply (MT_go_a CG c (ERef 0 None) pre [13] [] post [] []); [exact Hc| |].
           ++ apply M_nl. right. right. split; [reflexivity|]. cbn [app].
              destruct post as [|q post]; [reflexivity|]. cbn [hdP] in *.
              destruct (N.eqb_spec q 10) as [->|_]; [discriminate|reflexivity].
           ++ apply IH; [cbn [length] in *; lia|reflexivity|exact Hp].
        -- reflexivity.
      * destruct (N.eqb_spec e 10) as [->|He].
        -- apply ws_cons in H2. destruct H2 as [_ H3]. cbn [length] in Hl.
           eapply M_ps; cycle 1.
           ++ apply (MT_go_a CG c (ERef 0 None) pre [13; 10] w post [] []); [exact Hc|apply M_nl; tauto|].
              apply IH; [lia|assumption..].
           ++ reflexivity.
        -- eapply M_ps; cycle 1.
           ++ apply (MT_go_a CG c (ERef 0 None) pre [13] (e :: w) post [] []); [exact Hc| |].
              ** apply M_nl. right. right. split; [reflexivity|]. cbn [app hdP].
                 apply negb_true_iff. apply N.eqb_neq. exact He.
              ** apply IH; [cbn [length] in *; lia|assumption..].
           ++ reflexivity.
    + eapply M_ps; cycle 1.
      * apply (MT_go_a CG c (ERef 0 None) pre [10] w post [] []); [exact Hc|apply M_nl; tauto|].
        apply IH; [lia|assumption..].
      * reflexivity.
Qed.

Lemma M_cwsstar w pre post : ws w -> hdP nows post = true ->
  M CG c (TEval (EStar (ERef 0 None))) pre w post [].
Proof.
  intros H Hp. destruct w as [|d w]; [apply M_star_stop; apply F_cws1; exact Hp|].
  pose proof H as H0. apply ws_cons in H. destruct H as [H1 H2].
  assert (R : forall x1 x2, d :: w = x1 ++ x2 -> ws x2 ->
              M CG c (TEval (ERef 0 None)) pre x1 (x2 ++ post) [] ->
              M CG c (TEval (EStar (ERef 0 None))) pre (d :: w) post []).
  { intros x1 x2 E Hx2 HM. rewrite E. eapply M_ps; cycle 1.
    - apply (M_star_go CG c (ERef 0 None) pre x1 x2 post [] []); [exact HM|].
      apply (MT_cws (length x2)); [lia|exact Hx2|exact Hp].
    - reflexivity. }
  destruct (is_ws_cases d H1) as [-> | [-> | [-> | ->]]].
  - apply (R [32] w); [reflexivity|exact H2|apply M_sp; tauto].
  - apply (R [9] w); [reflexivity|exact H2|apply M_sp; tauto].
  - destruct w as [|e w].
    + apply (R [13] []); [reflexivity|reflexivity|].
      apply M_nl. right. right. split; [reflexivity|]. cbn [app].
      destruct post as [|q post]; [reflexivity|]. cbn [hdP] in *.
      destruct (N.eqb_spec q 10) as [->|_]; [discriminate|reflexivity].
    + destruct (N.eqb_spec e 10) as [->|He].
      * apply ws_cons in H2. destruct H2 as [_ H3].
        apply (R [13; 10] w); [reflexivity|exact H3|apply M_nl; tauto].
      * apply (R [13] (e :: w)); [reflexivity|exact H2|].
        apply M_nl. right. right. split; [reflexivity|]. cbn [app hdP].
        apply negb_true_iff. apply N.eqb_neq. exact He.
  - apply (R [10] w); [reflexivity|exact H2|apply M_nl; tauto].
Qed.

End CWS.

(* in a non-atomic context, skip consumes exactly a maximal run of whitespace *)
Lemma MS_cws c pre w post : c_atom c = NonAtomic -> ws w -> hdP nows post = true ->
  MS CG c pre w post.
Proof.
  intros Hc Hw Hp. unfold MS. eapply SKo_expr; [exact Hc|exact calc_skip|].
  apply M_cwsstar; [cbn; discriminate|exact Hw|exact Hp].
Qed.

(* ------------------------------------------------------------------------------------ *)
(* 3b. int and ident (atomic rules)                                                      *)
(* ------------------------------------------------------------------------------------ *)

Lemma F_plus g c e pre r : F g c (TEval (ESeq [e; EStar e])) pre r -> F g c (TEval (EPlus e)) pre r.
Proof. intros H t. destruct (H t) as [t' E]. exists t'. apply plus_unrolled. exact E. Qed.

Definition nalpha (d : N) : bool := negb (is_alpha d).

Lemma nz_digit d : is_nzdigit d = true -> is_digit d = true.
Proof.
  unfold is_nzdigit, is_digit. intros H. apply andb_prop in H. destruct H as [A B].
  rewrite B, andb_true_r. apply N.leb_le in A. apply N.leb_le. lia.
Qed.

Lemma nd_nnz d : is_digit d = false -> is_nzdigit d = false.
Proof. intros H. destruct (is_nzdigit d) eqn:E; [|reflexivity]. apply nz_digit in E. congruence. Qed.

Lemma F_range_hd g c lo hi pre r (P : N -> bool) :
  (forall d, P d = true -> (lo <=? d) && (d <=? hi) = false) -> hdP P r = true ->
  F g c (TEval (ERange lo hi)) pre r.
Proof.
  intros HP H. apply F_range. destruct r as [|d r]; [exact I|]. apply HP. exact H.
Qed.

Lemma nf0_digit d : nf0 d = true -> (48 <=? d) && (d <=? 57) = false.
Proof. unfold nf0. intros H. apply negb_true_iff in H. exact H. Qed.
Lemma nf0_nz d : nf0 d = true -> (49 <=? d) && (d <=? 57) = false.
Proof. unfold nf0. intros H. apply negb_true_iff in H. apply nd_nnz in H. exact H. Qed.

(* failures that do not depend on the context *)
Lemma F_cdigit c pre r : hdP nf0 r = true -> F CG c (TEval (ERef 8 None)) pre r.
Proof. intros H. eapply F_ref; [exact ck_digit|]. eapply F_range_hd; [exact nf0_digit|exact H]. Qed.

Lemma F_cnz c pre r : hdP nf0 r = true -> F CG c (TEval (ERef 7 None)) pre r.
Proof. intros H. eapply F_ref; [exact ck_nzdigit|]. eapply F_range_hd; [exact nf0_nz|exact H]. Qed.

Lemma F_cint c pre r : hdP nf0 r = true -> F CG c (TEval (ERef 6 None)) pre r.
Proof.
  intros H. eapply F_ref; [exact ck_int|]. cbn [r_body mkrule]. unfold int_body.
  apply F_grp. apply F_alt. apply Fa_cons; [|apply Fa_cons; [|apply Fa_nil]].
  - apply F_seq. apply Fs_first. apply F_cnz. exact H.
  - apply F_cdigit. exact H.
Qed.

Lemma nalpha_ranges d : nalpha d = true ->
  (97 <=? d) && (d <=? 122) = false /\ (65 <=? d) && (d <=? 90) = false.
Proof.
  unfold nalpha, is_alpha. intros H. apply negb_true_iff in H. apply orb_false_iff in H. exact H.
Qed.

Lemma F_calpha c pre r : hdP nalpha r = true -> F CG c (TEval (ERef 5 None)) pre r.
Proof.
  intros H. eapply F_ref; [exact ck_alpha|]. cbn [r_body mkrule]. unfold alpha_body. apply F_alt.
  apply Fa_cons; [|apply Fa_cons; [|apply Fa_nil]].
  - eapply F_range_hd; [|exact H]. intros d Hd. apply (nalpha_ranges d Hd).
  - eapply F_range_hd; [|exact H]. intros d Hd. apply (nalpha_ranges d Hd).
Qed.

Section CLex.
Variable c : ctx.
Hypothesis Hc : c_atom c = Atomic.

Let Hna : c_atom c <> NonAtomic.
Proof. rewrite Hc. discriminate. Qed.

Lemma M_cdigit pre d post : is_digit d = true -> M CG c (TEval (ERef 8 None)) pre [d] post [].
Proof.
  intros H. eapply M_ps; cycle 1.
  - eapply M_ref; [exact ck_digit|]. apply M_range. exact H.
  - reflexivity.
Qed.

Lemma M_cnz pre d post : is_nzdigit d = true -> M CG c (TEval (ERef 7 None)) pre [d] post [].
Proof.
  intros H. eapply M_ps; cycle 1.
  - eapply M_ref; [exact ck_nzdigit|]. apply M_range. exact H.
  - reflexivity.
Qed.

Lemma MT_cdigits : forall ds pre post, forallb is_digit ds = true -> hdP nf0 post = true ->
  M CG c (TStar (ERef 8 None)) pre ds post [].
Proof.
  induction ds as [|d ds IH]; intros pre post H Hp.
  - apply MT_stop_a; [exact Hna|apply F_cdigit; exact Hp].
  - cbn [forallb] in H. apply andb_prop in H. destruct H as [H1 H2].
    eapply M_ps; cycle 1.
    + apply (MT_go_a CG c (ERef 8 None) pre [d] ds post); [exact Hna|apply M_cdigit; exact H1|].
      apply IH; assumption.
    + reflexivity.
Qed.

Lemma M_cdigits1 d ds pre post : is_digit d = true -> forallb is_digit ds = true ->
  hdP nf0 post = true -> M CG c (TEval (EPlus (ERef 8 None))) pre (d :: ds) post [].
Proof.
  intros H1 H2 Hp. apply M_plus. apply M_seq. eapply M_ps; cycle 1.
  - apply (Ms_cons_a CG c (ERef 8 None) (EStar (ERef 8 None)) [] pre [d] ds post);
      [exact Hna|apply M_cdigit; exact H1|].
    apply Ms_one. destruct ds as [|d2 ds].
    + apply M_star_stop. apply F_cdigit. exact Hp.
    + cbn [forallb] in H2. apply andb_prop in H2. destruct H2 as [H3 H4].
      eapply M_ps; cycle 1.
      * apply (M_star_go CG c (ERef 8 None) (pre ++ [d]) [d2] ds post); [apply M_cdigit; exact H3|].
        apply MT_cdigits; assumption.
      * reflexivity.
  - reflexivity.
Qed.

(* `int` matches exactly the digits of a well-formed CInt when no digit follows *)
Lemma M_int_body ds pre post : wf_cint ds = true -> hdP nf0 post = true ->
  M CG c (TEval int_body) pre ds post [].
Proof.
  intros H Hp. unfold int_body. apply M_grp. apply M_alt.
  destruct ds as [|d [|d2 ds]]; [discriminate| |].
  - (* a single digit: the first alternative fails, at the digit or right after it *)
    cbn [wf_cint] in H. apply Ma_next.
    + apply F_seq. destruct (is_nzdigit d) eqn:E.
      * apply (Fs_later_a CG c (ERef 7 None) (EPlus (ERef 8 None)) [] pre [d] post []);
          [exact Hna|apply M_cnz; exact E|].
        apply Fs_first. apply F_plus. apply F_seq. apply Fs_first. apply F_cdigit. exact Hp.
      * apply Fs_first. eapply F_ref; [exact ck_nzdigit|]. apply F_range. exact E.
    + apply Ma_first. apply M_cdigit. exact H.
  - cbn [wf_cint] in H. apply andb_prop in H. destruct H as [H1 H2].
    cbn [forallb] in H2. apply andb_prop in H2. destruct H2 as [H2 H3].
    apply Ma_first. apply M_seq. eapply M_ps; cycle 1.
    + apply (Ms_cons_a CG c (ERef 7 None) (EPlus (ERef 8 None)) [] pre [d] (d2 :: ds) post);
        [exact Hna|apply M_cnz; exact H1|].
      apply Ms_one. apply M_cdigits1; assumption.
    + reflexivity.
Qed.

Lemma M_calpha pre d post : is_alpha d = true -> M CG c (TEval (ERef 5 None)) pre [d] post [].
Proof.
  intros H. eapply M_ps; cycle 1.
  - eapply M_ref; [exact ck_alpha|]. cbn [r_body mkrule]. unfold alpha_body. apply M_alt.
    unfold is_alpha in H. destruct ((97 <=? d) && (d <=? 122)) eqn:E1.
    + apply Ma_first. apply M_range. exact E1.
    + apply Ma_next; [apply F_range; exact E1|]. apply Ma_first. apply M_range. exact H.
  - reflexivity.
Qed.

Lemma MT_calphas : forall cs pre post, forallb is_alpha cs = true -> hdP nalpha post = true ->
  M CG c (TStar (ERef 5 None)) pre cs post [].
Proof.
  induction cs as [|d cs IH]; intros pre post H Hp.
  - apply MT_stop_a; [exact Hna|apply F_calpha; exact Hp].
  - cbn [forallb] in H. apply andb_prop in H. destruct H as [H1 H2].
    eapply M_ps; cycle 1.
    + apply (MT_go_a CG c (ERef 5 None) pre [d] cs post); [exact Hna|apply M_calpha; exact H1|].
      apply IH; assumption.
    + reflexivity.
Qed.

Lemma M_ident_body cs pre post : wf_cid cs = true -> hdP nalpha post = true ->
  M CG c (TEval ident_body) pre cs post [].
Proof.
  unfold wf_cid. intros H Hp. destruct cs as [|d cs]; [discriminate|].
  cbn [nonempty andb forallb] in H. apply andb_prop in H. destruct H as [H1 H2].
  unfold ident_body. apply M_plus. apply M_seq. eapply M_ps; cycle 1.
  - apply (Ms_cons_a CG c (ERef 5 None) (EStar (ERef 5 None)) [] pre [d] cs post);
      [exact Hna|apply M_calpha; exact H1|].
    apply Ms_one. destruct cs as [|d2 cs].
    + apply M_star_stop. apply F_calpha. exact Hp.
    + cbn [forallb] in H2. apply andb_prop in H2. destruct H2 as [H3 H4].
      eapply M_ps; cycle 1.
      * apply (M_star_go CG c (ERef 5 None) (pre ++ [d]) [d2] cs post); [apply M_calpha; exact H3|].
        apply MT_calphas; assumption.
      * reflexivity.
  - reflexivity.
Qed.

End CLex.

(* the lexical lemmas: `int` / `ident` called where pairs are visible *)
Theorem int_complete c ds pre post : c_atom c = NonAtomic -> wf_cint ds = true ->
  hdP nf0 post = true ->
  M CG c (TEval (ERef 6 None)) pre ds post [Pair 6 (lenN pre) (lenN (pre ++ ds)) [] None].
Proof.
  intros Hc H Hp. eapply M_ps; cycle 1.
  - eapply M_ref; [exact ck_int|]. apply M_int_body; [reflexivity|exact H|exact Hp].
  - unfold wrap, visible, mkrule. cbn [r_silent r_kind r_name]. rewrite Hc. reflexivity.
Qed.

Theorem ident_complete c cs pre post : c_atom c = NonAtomic -> wf_cid cs = true ->
  hdP nalpha post = true ->
  M CG c (TEval (ERef 4 None)) pre cs post [Pair 4 (lenN pre) (lenN (pre ++ cs)) [] None].
Proof.
  intros Hc H Hp. eapply M_ps; cycle 1.
  - eapply M_ref; [exact ck_ident|]. apply M_ident_body; [reflexivity|exact H|exact Hp].
  - unfold wrap, visible, mkrule. cbn [r_silent r_kind r_name]. rewrite Hc. reflexivity.
Qed.

(* ------------------------------------------------------------------------------------ *)
(* 3c. one-character operator rules; prefix, postfix, infix                              *)
(* ------------------------------------------------------------------------------------ *)

Lemma M_ch c n ch pre post : lookup CG n = Some (mkrule n false KNormal (EStr [ch])) ->
  c_atom c = NonAtomic ->
  M CG c (TEval (ERef n None)) pre [ch] post [Pair n (lenN pre) (lenN (pre ++ [ch])) [] None].
Proof.
  intros L Hc. apply (C_rule_normal c n false _ pre [ch] post [] L Hc). apply M_str.
Qed.

Lemma F_ch c n ch pre r : lookup CG n = Some (mkrule n false KNormal (EStr [ch])) ->
  strip_prefix [ch] r = None -> F CG c (TEval (ERef n None)) pre r.
Proof. intros L H. eapply F_ref; [exact L|]. apply F_str. exact H. Qed.

Definition e_prefix := ERef 14 None.
Definition e_postfix := ERef 12 None.

Lemma M_prefix c pre post : c_atom c = NonAtomic ->
  M CG c (TEval e_prefix) pre [45] post [Pair 13 (lenN pre) (lenN (pre ++ [45])) [] None].
Proof.
  intros Hc. apply (C_rule_normal c 14 true _ pre [45] post _ ck_prefix Hc).
  apply M_ch; [exact ck_neg|apply rctx_na; [reflexivity|exact Hc]].
Qed.

Lemma F_prefix c pre r : strip_prefix [45] r = None -> F CG c (TEval e_prefix) pre r.
Proof. intros H. eapply F_ref; [exact ck_prefix|]. apply (F_ch _ 13 45); [exact ck_neg|exact H]. Qed.

Lemma M_postfix c pre post : c_atom c = NonAtomic ->
  M CG c (TEval e_postfix) pre [33] post [Pair 11 (lenN pre) (lenN (pre ++ [33])) [] None].
Proof.
  intros Hc. apply (C_rule_normal c 12 true _ pre [33] post _ ck_postfix Hc).
  apply M_ch; [exact ck_fac|apply rctx_na; [reflexivity|exact Hc]].
Qed.

Lemma F_postfix c pre r : strip_prefix [33] r = None -> F CG c (TEval e_postfix) pre r.
Proof. intros H. eapply F_ref; [exact ck_postfix|]. apply (F_ch _ 11 33); [exact ck_fac|exact H]. Qed.

Definition isop (d : N) : bool := (d =? 43) || (d =? 45) || (d =? 42) || (d =? 47) || (d =? 94).
Definition nop (d : N) : bool := negb (isop d).

Lemma M_infix c o pre post : (o < 5)%nat -> c_atom c = NonAtomic ->
  M CG c (TEval (ERef 20 None)) pre [opc o] post
    [Pair (opn o) (lenN pre) (lenN (pre ++ [opc o])) [] None].
Proof.
  intros Ho Hc. apply (C_rule_normal c 20 true _ pre [opc o] post _ ck_infix Hc).
  set (c1 := rctx c 20 true infix_body).
  assert (Hc1 : c_atom c1 = NonAtomic) by (apply rctx_na; [reflexivity|exact Hc]).
  unfold infix_body. apply M_alt.
  destruct o as [|[|[|[|[|o]]]]]; [..|lia]; cbn [opc opn].
  - apply Ma_first. apply M_ch; [exact ck_add|exact Hc1].
  - apply Ma_next; [apply (F_ch _ 19 43); [exact ck_add|reflexivity]|].
    apply Ma_first. apply M_ch; [exact ck_sub|exact Hc1].
  - apply Ma_next; [apply (F_ch _ 19 43); [exact ck_add|reflexivity]|].
    apply Ma_next; [apply (F_ch _ 18 45); [exact ck_sub|reflexivity]|].
    apply Ma_first. apply M_ch; [exact ck_mul|exact Hc1].
  - apply Ma_next; [apply (F_ch _ 19 43); [exact ck_add|reflexivity]|].
    apply Ma_next; [apply (F_ch _ 18 45); [exact ck_sub|reflexivity]|].
    apply Ma_next; [apply (F_ch _ 17 42); [exact ck_mul|reflexivity]|].
    apply Ma_first. apply M_ch; [exact ck_div|exact Hc1].
  - apply Ma_next; [apply (F_ch _ 19 43); [exact ck_add|reflexivity]|].
    apply Ma_next; [apply (F_ch _ 18 45); [exact ck_sub|reflexivity]|].
    apply Ma_next; [apply (F_ch _ 17 42); [exact ck_mul|reflexivity]|].
    apply Ma_next; [apply (F_ch _ 16 47); [exact ck_div|reflexivity]|].
    apply Ma_first. apply M_ch; [exact ck_pow|exact Hc1].
Qed.

Lemma strip1_hd (P : N -> bool) ch r : P ch = false -> hdP P r = true -> strip_prefix [ch] r = None.
Proof.
  intros Hch H. destruct r as [|d r]; [reflexivity|]. cbn [strip_prefix hdP] in *.
  destruct (N.eqb_spec ch d) as [->|_]; [congruence|reflexivity].
Qed.

Lemma F_infix c pre r : hdP nop r = true -> F CG c (TEval (ERef 20 None)) pre r.
Proof.
  intros H. eapply F_ref; [exact ck_infix|]. cbn [r_body mkrule]. unfold infix_body. apply F_alt.
  apply Fa_cons; [apply (F_ch _ 19 43); [exact ck_add|apply (strip1_hd nop); [reflexivity|exact H]]|].
  apply Fa_cons; [apply (F_ch _ 18 45); [exact ck_sub|apply (strip1_hd nop); [reflexivity|exact H]]|].
  apply Fa_cons; [apply (F_ch _ 17 42); [exact ck_mul|apply (strip1_hd nop); [reflexivity|exact H]]|].
  apply Fa_cons; [apply (F_ch _ 16 47); [exact ck_div|apply (strip1_hd nop); [reflexivity|exact H]]|].
  apply Fa_cons; [apply (F_ch _ 15 94); [exact ck_pow|apply (strip1_hd nop); [reflexivity|exact H]]|].
  apply Fa_nil.
Qed.

(* ------------------------------------------------------------------------------------ *)
(* 3d. e* for a one-character, one-pair expression e, with whitespace between iterations *)
(* ------------------------------------------------------------------------------------ *)

Fixpoint rep_tail (ch : N) (wn : list text) : text :=
  match wn with [] => [] | w :: r => w ++ [ch] ++ rep_tail ch r end.

(* k occurrences of ch, separated by whitespace *)
Definition repP (ch : N) (k : nat) (x : text) : Prop :=
  match k with
  | O => x = []
  | S k' => exists wn, length wn = k' /\ Forall ws wn /\ x = ch :: rep_tail ch wn
  end.

Section Rep.
Variable c : ctx.
Hypothesis Hc : c_atom c = NonAtomic.
Variables (e : expr) (n ch : N).
Hypothesis HM : forall pre post,
  M CG c (TEval e) pre [ch] post [Pair n (lenN pre) (lenN (pre ++ [ch])) [] None].
Hypothesis HF : forall pre r, strip_prefix [ch] r = None -> F CG c (TEval e) pre r.
Hypothesis Hch : nows ch = true.

Lemma MT_rep : forall wn input pre w' r', Forall ws wn -> ws w' -> hdP nows r' = true ->
  strip_prefix [ch] r' = None -> input = pre ++ rep_tail ch wn ++ w' ++ r' ->
  exists kids, M CG c (TStar e) pre (rep_tail ch wn) (w' ++ r') kids /\
               map (skel input) kids = repeat (SK n [ch] []) (length wn).
Proof.
  induction wn as [|w wn IH]; intros input pre w' r' Hwn Hw' Hr' Hs Hin.
  - exists []. split; [|reflexivity]. cbn [rep_tail].
    apply (MT_stop CG c e pre w' r'); [apply MS_cws; assumption|apply HF; exact Hs].
  - inversion Hwn as [|w0 wn0 Hw Hwn']; subst w0 wn0.
    destruct (IH input (pre ++ w ++ [ch]) w' r' Hwn' Hw' Hr' Hs) as [kids [HK HS]].
    { rewrite Hin. cbn [rep_tail]. assoc. }
    exists ([Pair n (lenN (pre ++ w)) (lenN ((pre ++ w) ++ [ch])) [] None] ++ kids). split.
    + cbn [rep_tail].
      eapply M_cast;
        [apply (MT_go CG c e pre w [ch] (rep_tail ch wn) (w' ++ r')
                  [Pair n (lenN (pre ++ w)) (lenN ((pre ++ w) ++ [ch])) [] None] kids);
          [apply MS_cws; [exact Hc|exact Hw|exact Hch]
          |apply HM
          |exact HK]
        |assoc..].
    + cbn [map skel length repeat app]. rewrite HS. f_equal.
      rewrite (slice_in input (pre ++ w) [ch] (rep_tail ch wn ++ w' ++ r')); [reflexivity|].
      rewrite Hin. cbn [rep_tail]. assoc.
Qed.

Lemma strip1_ws_then w' r' : ws w' -> strip_prefix [ch] r' = None -> strip_prefix [ch] (w' ++ r') = None.
Proof.
  intros Hw Hs. destruct w' as [|d w']; [exact Hs|]. cbn [app strip_prefix].
  apply ws_cons in Hw. destruct Hw as [Hd _].
  destruct (N.eqb_spec ch d) as [->|_]; [|reflexivity].
  unfold nows in Hch. rewrite Hd in Hch. discriminate.
Qed.

Lemma M_rep k x input pre w' r' : repP ch k x -> ws w' -> hdP nows r' = true ->
  strip_prefix [ch] r' = None -> input = pre ++ x ++ w' ++ r' ->
  exists kids, M CG c (TEval (EStar e)) pre x (w' ++ r') kids /\
               map (skel input) kids = repeat (SK n [ch] []) k.
Proof.
  intros HR Hw' Hr' Hs Hin. destruct k as [|k]; cbn [repP] in HR.
  - subst x. exists []. split; [|reflexivity]. apply M_star_stop. apply HF.
    apply strip1_ws_then; assumption.
  - destruct HR as [wn [Hl [Hwn ->]]].
    destruct (MT_rep wn input (pre ++ [ch]) w' r' Hwn Hw' Hr' Hs) as [kids [HK HS]].
    { rewrite Hin. assoc. }
    exists ([Pair n (lenN pre) (lenN (pre ++ [ch])) [] None] ++ kids). split.
    + eapply M_cast;
        [apply (M_star_go CG c e pre [ch] (rep_tail ch wn) (w' ++ r')
                  [Pair n (lenN pre) (lenN (pre ++ [ch])) [] None] kids); [apply HM|exact HK]
        |assoc..].
    + cbn [map skel repeat app]. rewrite HS, Hl. f_equal.
      rewrite (slice_in input pre [ch] (rep_tail ch wn ++ w' ++ r')); [reflexivity|].
      rewrite Hin. assoc.
Qed.

End Rep.

(* ==================================================================================== *)
(* Part 4. Decomposing a well-formed stream and its rendering                            *)
(* ==================================================================================== *)

Lemma crenders_one_inv t x : crenders [t] x -> crenders_tok t x.
Proof. intros H. inversion H; subst. assumption. Qed.

Lemma crenders_cons_inv t t' ts x : crenders (t :: t' :: ts) x ->
  exists xt w y, x = xt ++ w ++ y /\ crenders_tok t xt /\ ws w /\ crenders (t' :: ts) y.
Proof. intros H. inversion H; subst. eexists. eexists. eexists. repeat split; eassumption. Qed.

Definition isprim (t : ctok) : bool :=
  match t with CInt _ | CId _ | CGroup _ => true | _ => false end.

Lemma wf_false_nonempty ts : wf_list wf_tok false ts = true -> ts <> [].
Proof. destruct ts; [discriminate|discriminate]. Qed.

Lemma repP_cons ch k x w : ws w -> repP ch (S k) x -> repP ch (S (S k)) (ch :: w ++ x).
Proof.
  intros Hw [wn [Hl [Hwn ->]]]. exists (w :: wn). split; [cbn; lia|]. split; [constructor; assumption|].
  reflexivity.
Qed.

Lemma repP_one ch : repP ch 1 [ch].
Proof. exists []. repeat split. constructor. Qed.

(* leading negations *)
Lemma D_negs : forall ts R, wf_list wf_tok false ts = true -> crenders ts R ->
  exists k nx wl p ts2 R1,
    ts = repeat CNeg k ++ p :: ts2 /\ repP 45 k nx /\ ws wl /\ (k = 0%nat -> wl = []) /\ R = nx ++ wl ++ R1 /\
    crenders (p :: ts2) R1 /\ isprim p = true /\ wf_tok p = true /\
    wf_list wf_tok true ts2 = true.
Proof.
  induction ts as [|t ts IH]; intros R Hw Hr; [discriminate|].
  assert (Prim : isprim t = true -> wf_tok t && wf_list wf_tok true ts = true ->
    exists k nx wl p ts2 R1,
    t :: ts = repeat CNeg k ++ p :: ts2 /\ repP 45 k nx /\ ws wl /\ (k = 0%nat -> wl = []) /\ R = nx ++ wl ++ R1 /\
    crenders (p :: ts2) R1 /\ isprim p = true /\ wf_tok p = true /\
    wf_list wf_tok true ts2 = true).
  { intros Hp Hwf. apply andb_prop in Hwf. destruct Hwf as [H1 H2].
    exists 0%nat, [], [], t, ts, R. repeat split; try assumption; reflexivity. }
  cbn [wf_list] in Hw. destruct t; try discriminate.
  - apply Prim; [reflexivity|exact Hw].
  - apply Prim; [reflexivity|exact Hw].
  - apply Prim; [reflexivity|exact Hw].
  - clear Prim. destruct ts as [|t' ts']; [discriminate|].
    destruct (crenders_cons_inv _ _ _ _ Hr) as [xt [w [y [-> [Ht [Hws Hy]]]]]].
    inversion Ht; subst.
    destruct (IH y Hw Hy) as [k [nx [wl [p [ts2 [R1 [E [Hk [Hwl [Hk0 [-> [Hc [Hp [Hwp Hw2]]]]]]]]]]]]]].
    destruct k as [|k].
    + cbn [repP] in Hk. subst nx. rewrite (Hk0 eq_refl) in *.
      exists 1%nat, [45], w, p, ts2, R1. rewrite E. repeat split; try assumption.
      * apply repP_one.
      * discriminate.
    + exists (S (S k)), (45 :: w ++ nx), wl, p, ts2, R1. rewrite E. repeat split; try assumption.
      * apply repP_cons; assumption.
      * discriminate.
      * assoc.
Qed.

(* what follows the primary: factorials, then nothing or an infix operator and the rest *)
Definition tailD (rest : list ctok) (Y : text) : Prop :=
  (rest = [] /\ Y = []) \/
  (exists o rest' w' R', rest = CInf o :: rest' /\ (o < 5)%nat /\
     wf_list wf_tok false rest' = true /\ ws w' /\ crenders rest' R' /\ Y = opc o :: w' ++ R').

Lemma D_facs : forall ts2 R2, ts2 <> [] -> wf_list wf_tok true ts2 = true -> crenders ts2 R2 ->
  exists j fx wq rest Y,
    ts2 = repeat CFac j ++ rest /\ repP 33 j fx /\ ws wq /\ (j = 0%nat -> wq = []) /\
    (rest = [] -> wq = []) /\ R2 = fx ++ wq ++ Y /\ tailD rest Y.
Proof.
  induction ts2 as [|t ts IH]; intros R2 Hne Hw Hr; [congruence|].
  cbn [wf_list] in Hw. destruct t; try discriminate.
  - (* CFac *)
    destruct ts as [|t' ts'].
    + apply crenders_one_inv in Hr. inversion Hr; subst.
      exists 1%nat, [33], [], [], []. repeat split; try reflexivity.
      * apply repP_one.
      * left. split; reflexivity.
    + destruct (crenders_cons_inv _ _ _ _ Hr) as [xt [w [y [-> [Ht [Hws Hy]]]]]].
      inversion Ht; subst.
      destruct (IH y ltac:(discriminate) Hw Hy) as [j [fx [wq [rest [Y [E [Hj [Hwq [Hj0 [Hr0 [-> HT]]]]]]]]]]].
      destruct j as [|j].
      * cbn [repP] in Hj. subst fx. rewrite (Hj0 eq_refl) in *.
        exists 1%nat, [33], w, rest, Y. rewrite E. repeat split; try assumption.
        -- apply repP_one.
        -- discriminate.
        -- intros ->. cbn in E. discriminate.
      * exists (S (S j)), (33 :: w ++ fx), wq, rest, Y. rewrite E. repeat split; try assumption.
        -- apply repP_cons; assumption.
        -- discriminate.
        -- assoc.
  - (* CInf *)
    apply andb_prop in Hw. destruct Hw as [Ho Hw]. apply Nat.ltb_lt in Ho.
    destruct ts as [|t' ts']; [discriminate|].
    destruct (crenders_cons_inv _ _ _ _ Hr) as [xt [w [y [-> [Ht [Hws Hy]]]]]].
    inversion Ht; subst.
    exists 0%nat, [], [], (CInf o :: t' :: ts'), ([opc o] ++ w ++ y).
    repeat split; try reflexivity; try discriminate.
    right. exists o, (t' :: ts'), w, y. repeat split; assumption.
Qed.

Lemma D_all ts R : wf_list wf_tok false ts = true -> crenders ts R ->
  exists k nx wl p px j fx wp wq rest Y,
    ts = repeat CNeg k ++ p :: repeat CFac j ++ rest /\
    repP 45 k nx /\ ws wl /\ (k = 0%nat -> wl = []) /\ isprim p = true /\ wf_tok p = true /\ crenders_tok p px /\
    repP 33 j fx /\ ws wp /\ ws wq /\ (j = 0%nat -> wq = []) /\ (rest = [] -> wq = []) /\
    tailD rest Y /\ R = nx ++ wl ++ px ++ wp ++ fx ++ wq ++ Y.
Proof.
  intros Hw Hr.
  destruct (D_negs ts R Hw Hr) as [k [nx [wl [p [ts2 [R1 [E [Hk [Hwl [Hk0 [-> [Hc [Hp [Hwp Hw2]]]]]]]]]]]]]].
  destruct ts2 as [|t2 ts2].
  - apply crenders_one_inv in Hc.
    exists k, nx, wl, p, R1, 0%nat, [], [], [], [], [].
    repeat split; try assumption; try reflexivity.
    + left. split; reflexivity.
    + assoc.
  - destruct (crenders_cons_inv _ _ _ _ Hc) as [px [wp [R2 [-> [Ht [Hws Hy]]]]]].
    destruct (D_facs (t2 :: ts2) R2 ltac:(discriminate) Hw2 Hy)
      as [j [fx [wq [rest [Y [E2 [Hj [Hwq [Hj0 [Hr0 [-> HT]]]]]]]]]]].
    exists k, nx, wl, p, px, j, fx, wp, wq, rest, Y. rewrite E, E2.
    repeat split; try assumption.
Qed.

(* sizes, for the induction through groups and tails *)
Fixpoint csize (t : ctok) : nat :=
  match t with CGroup inner => S (list_sum (map csize inner)) | _ => 1%nat end.
Definition csizes (ts : list ctok) : nat := list_sum (map csize ts).

Lemma csizes_app a b : csizes (a ++ b) = (csizes a + csizes b)%nat.
Proof. unfold csizes. rewrite map_app, list_sum_app. reflexivity. Qed.

Lemma csizes_cons t ts : csizes (t :: ts) = (csize t + csizes ts)%nat.
Proof. reflexivity. Qed.

Lemma csize_pos t : (1 <= csize t)%nat.
Proof. destruct t; cbn; lia. Qed.

(* character classes *)
Definition pstart (d : N) : bool := is_digit d || is_alpha d || (d =? 40).
Definition stopc (d : N) : bool := isop d || (d =? 41).
Definition fol (d : N) : bool := is_ws d || (d =? 33) || stopc d.
Definition closer (d : N) : bool := d =? 41.

Ltac ncase d v := destruct (N.eqb_spec d v); [subst d|].

Lemma alpha_props d : is_alpha d = true -> (97 <= d <= 122) \/ (65 <= d <= 90).
Proof.
  unfold is_alpha. intros H. apply orb_prop in H.
  destruct H as [H|H]; apply andb_prop in H; destruct H as [A B];
    apply N.leb_le in A; apply N.leb_le in B; lia.
Qed.

Lemma pstart_facts d : pstart d = true ->
  nows d = true /\ (45 =? d) = false /\ (41 =? d) = false.
Proof.
  unfold pstart. intros H.
  assert (K : (48 <= d <= 57) \/ (97 <= d <= 122) \/ (65 <= d <= 90) \/ d = 40).
  { apply orb_prop in H. destruct H as [H|H]; [apply orb_prop in H; destruct H as [H|H]|].
    - destruct (digit_props d H) as [_ [_ B]]. tauto.
    - apply alpha_props in H. tauto.
    - apply N.eqb_eq in H. tauto. }
  unfold nows, is_ws. repeat split;
    repeat match goal with |- context [?a =? ?b] => destruct (N.eqb_spec a b); [lia|] end; reflexivity.
Qed.

Lemma stopc_cases d : stopc d = true -> d = 43 \/ d = 45 \/ d = 42 \/ d = 47 \/ d = 94 \/ d = 41.
Proof.
  unfold stopc, isop. intros H.
  ncase d 43; [tauto|]. ncase d 45; [tauto|]. ncase d 42; [tauto|]. ncase d 47; [tauto|].
  ncase d 94; [tauto|]. ncase d 41; [tauto|]. discriminate.
Qed.

Lemma stopc_facts d : stopc d = true -> nows d = true /\ (33 =? d) = false /\ fol d = true.
Proof.
  intros H. assert (F : fol d = true) by (unfold fol; rewrite H; apply orb_true_r).
  destruct (stopc_cases d H) as [-> | [-> | [-> | [-> | [-> | ->]]]]]; repeat split; exact F.
Qed.

Lemma fol_facts d : fol d = true -> nf0 d = true /\ nalpha d = true.
Proof.
  unfold fol. intros H.
  assert (K : d = 32 \/ d = 9 \/ d = 13 \/ d = 10 \/ d = 33 \/ stopc d = true).
  { destruct (is_ws d) eqn:E; [apply is_ws_cases in E; tauto|]. cbn [orb] in H.
    ncase d 33; [tauto|]. cbn [orb] in H. tauto. }
  destruct K as [-> | [-> | [-> | [-> | [-> | K]]]]]; try (split; reflexivity).
  destruct (stopc_cases d K) as [-> | [-> | [-> | [-> | [-> | ->]]]]]; split; reflexivity.
Qed.

Lemma closer_stopc r : hdP closer r = true -> hdP stopc r = true.
Proof.
  destruct r as [|d r]; [reflexivity|]. cbn [hdP]. unfold closer, stopc. intros ->. apply orb_true_r.
Qed.

Lemma closer_nop r : hdP closer r = true -> hdP nop r = true.
Proof.
  destruct r as [|d r]; [reflexivity|]. cbn [hdP]. unfold closer. intros H. apply N.eqb_eq in H.
  subst d. reflexivity.
Qed.

Lemma hdP_imp (P Q : N -> bool) r : (forall d, P d = true -> Q d = true) -> hdP P r = true -> hdP Q r = true.
Proof. intros H. destruct r as [|d r]; [reflexivity|]. apply H. Qed.

Lemma opc_isop o : (o < 5)%nat -> isop (opc o) = true.
Proof. intros H. destruct o as [|[|[|[|[|o]]]]]; reflexivity. Qed.

Lemma ws_app a b : ws a -> ws b -> ws (a ++ b).
Proof. unfold ws. intros A B. rewrite forallb_app, A, B. reflexivity. Qed.

Lemma ws_app_inv a b : ws (a ++ b) -> ws a /\ ws b.
Proof. unfold ws. rewrite forallb_app. intros H. apply andb_prop in H. exact H. Qed.

(* first characters of primaries and of streams *)
Lemma prim_hd p px : isprim p = true -> wf_tok p = true -> crenders_tok p px ->
  exists d px', px = d :: px' /\ pstart d = true.
Proof.
  intros Hp Hw Hr. destruct Hr; try discriminate; cbn [wf_tok] in Hw.
  - destruct ds as [|d ds]; [discriminate|]. exists d, ds. split; [reflexivity|].
    assert (is_digit d = true).
    { destruct ds; cbn [wf_cint] in Hw; [exact Hw|]. apply andb_prop in Hw. apply nz_digit. apply Hw. }
    unfold pstart. rewrite H. reflexivity.
  - unfold wf_cid in Hw. destruct cs as [|d cs]; [discriminate|]. exists d, cs. split; [reflexivity|].
    cbn [nonempty andb forallb] in Hw. apply andb_prop in Hw. destruct Hw as [Hw _].
    unfold pstart. rewrite Hw, orb_true_r. reflexivity.
  - eexists. eexists. split; reflexivity.
Qed.

Lemma repP_hd ch k x r : repP ch k x -> hdP (fun d => d =? ch) (x ++ r) = true \/ (k = 0%nat /\ x = []).
Proof.
  destruct k; cbn [repP]; intros H.
  - right. split; [reflexivity|exact H].
  - left. destruct H as [wn [_ [_ ->]]]. cbn [app hdP]. apply N.eqb_refl.
Qed.

Lemma stream_hd ts R : wf_list wf_tok false ts = true -> crenders ts R ->
  exists d R', R = d :: R' /\ nows d = true /\ (41 =? d) = false.
Proof.
  intros Hw Hr.
  destruct (D_all ts R Hw Hr)
    as (k & nx & wl & p & px & j & fx & wp & wq & rest & Y & E & Hk & Hwl & Hk0 & Hp & Hwp & Hpx & _ & _ & _ & _ & _ & _ & ->).
  destruct k as [|k]; cbn [repP] in Hk.
  - subst nx. rewrite (Hk0 eq_refl). destruct (prim_hd p px Hp Hwp Hpx) as [d [px' [-> Hd]]].
    destruct (pstart_facts d Hd) as [A [_ B]].
    eexists. eexists. split; [reflexivity|]. split; assumption.
  - destruct Hk as [wn [_ [_ ->]]]. eexists. eexists. split; [reflexivity|]. split; reflexivity.
Qed.

(* ==================================================================================== *)
(* Part 5. Primaries, operands and the infix tail                                        *)
(* ==================================================================================== *)

(* `primary` applied to the text of a primary token, anywhere in an input *)
Definition primP (p : ctok) (px : text) : Prop :=
  forall c, c_atom c = NonAtomic -> forall input pre post,
  hdP fol post = true -> input = pre ++ px ++ post ->
  exists pr, M CG c (TEval (ERef 9 None)) pre px post [pr] /\ ctsk p (skel input pr).

(* `expr` applied to a rendering followed by whitespace and a closer: it consumes the
   rendering and a part wc of the whitespace (all of it or none of it) *)
Definition exprP (ts : list ctok) (R : text) : Prop :=
  forall c, c_atom c = NonAtomic -> forall input pre wz r,
  ws wz -> hdP closer r = true -> input = pre ++ R ++ wz ++ r ->
  exists wc wr pr, wz = wc ++ wr /\
    M CG c (TEval (ERef 10 None)) pre (R ++ wc) (wr ++ r) [pr] /\ ctsk (CGroup ts) (skel input pr).

Lemma fol_nf0 post : hdP fol post = true -> hdP nf0 post = true.
Proof. apply hdP_imp. intros d H. apply (fol_facts d H). Qed.
Lemma fol_nalpha post : hdP fol post = true -> hdP nalpha post = true.
Proof. apply hdP_imp. intros d H. apply (fol_facts d H). Qed.

Lemma prim_int ds : wf_cint ds = true -> primP (CInt ds) ds.
Proof.
  intros H c Hc input pre post Hf Hin.
  assert (Hc1 := rctx_na c 9 true primary_body eq_refl Hc).
  eexists. split.
  - apply (C_rule_normal c 9 true _ pre ds post _ ck_primary Hc).
    unfold primary_body. apply M_alt. apply Ma_first.
    apply int_complete; [exact Hc1|exact H|apply fol_nf0; exact Hf].
  - cbn [skel map]. rewrite (slice_in input pre ds post Hin). constructor.
Qed.

Lemma alpha_nf0 d : is_alpha d = true -> nf0 d = true /\ (40 =? d) = false.
Proof.
  intros H. apply alpha_props in H. unfold nf0, is_digit. split.
  - apply negb_true_iff. apply andb_false_iff.
    destruct (N.leb_spec 48 d); [right; apply N.leb_gt; lia|left; reflexivity].
  - apply N.eqb_neq. lia.
Qed.

Lemma prim_id cs : wf_cid cs = true -> primP (CId cs) cs.
Proof.
  intros H c Hc input pre post Hf Hin.
  assert (Hc1 := rctx_na c 9 true primary_body eq_refl Hc).
  assert (Hd : exists d cs', cs = d :: cs' /\ is_alpha d = true).
  { unfold wf_cid in H. destruct cs as [|d cs']; [discriminate|]. exists d, cs'. split; [reflexivity|].
    cbn [nonempty andb forallb] in H. apply andb_prop in H. apply H. }
  destruct Hd as [d [cs' [E Hd]]]. destruct (alpha_nf0 d Hd) as [A B].
  eexists. split.
  - apply (C_rule_normal c 9 true _ pre cs post _ ck_primary Hc).
    unfold primary_body. apply M_alt.
    apply Ma_next; [apply F_cint; rewrite E; exact A|].
    apply Ma_next.
    { apply F_seq. apply Fs_first. apply F_str. rewrite E. cbn [app strip_prefix]. rewrite B. reflexivity. }
    apply Ma_first. apply ident_complete; [exact Hc1|exact H|apply fol_nalpha; exact Hf].
  - cbn [skel map]. rewrite (slice_in input pre cs post Hin). constructor.
Qed.

Lemma prim_group inner w1 x w2 :
  wf_list wf_tok false inner = true -> crenders inner x -> ws w1 -> ws w2 -> exprP inner x ->
  primP (CGroup inner) (40 :: w1 ++ x ++ w2 ++ [41]).
Proof.
  intros Hwf Hr Hw1 Hw2 HE c Hc input pre post Hf Hin.
  set (c1 := rctx c 9 true primary_body).
  assert (Hc1 : c_atom c1 = NonAtomic) by (apply rctx_na; [reflexivity|exact Hc]).
  destruct (stream_hd inner x Hwf Hr) as [d [x' [Ex [Hd _]]]].
  destruct (HE c1 Hc1 input (pre ++ [40] ++ w1) w2 (41 :: post) Hw2 eq_refl) as [wc [wr [pr [Ew [HM HK]]]]].
  { rewrite Hin. assoc. }
  assert (Hw2' : ws (wc ++ wr)) by (rewrite <- Ew; exact Hw2).
  apply ws_app_inv in Hw2'. destruct Hw2' as [Hwc Hwr].
  exists pr. split; [|exact HK].
  apply (C_rule_normal c 9 true _ pre _ post [pr] ck_primary Hc). fold c1.
  unfold primary_body. apply M_alt.
  apply Ma_next; [apply F_cint; reflexivity|].
  apply Ma_first. apply M_seq.
  eapply M_cast;
    [apply (Ms_cons CG c1 (EStr [40]) (ERef 10 None) [EStr [41]] pre [40] w1
              ((x ++ wc) ++ wr ++ [41]) post [] ([pr] ++ []));
      [apply M_str
      |apply MS_cws; [exact Hc1|exact Hw1|rewrite Ex; exact Hd]
      |apply (Ms_cons CG c1 (ERef 10 None) (EStr [41]) [] _ (x ++ wc) wr [41] post [pr] []);
        [eapply M_cast; [exact HM|assoc..]
        |apply MS_cws; [exact Hc1|exact Hwr|reflexivity]
        |apply Ms_one; apply M_str]]
    |try assoc..].
  rewrite Ew. assoc.
Qed.

Lemma F2_rep t s k : ctsk t s -> Forall2 ctsk (repeat t k) (repeat s k).
Proof. intros H. induction k; cbn; constructor; assumption. Qed.

Lemma opc_nows o : (o < 5)%nat -> nows (opc o) = true.
Proof. intros H. destruct o as [|[|[|[|[|o]]]]]; reflexivity. Qed.

Lemma F_tail c pre r : hdP nop r = true -> F CG c (TEval e_tail) pre r.
Proof. intros H. unfold e_tail. apply F_grp. apply F_seq. apply Fs_first. apply F_infix. exact H. Qed.

(* prefix* ~ primary in front of  postfix* ~ es *)
Lemma opd_front c es k nx wl p px wp y post ps input pre :
  c_atom c = NonAtomic -> repP 45 k nx -> ws wl -> ws wp -> primP p px ->
  (exists d px', px = d :: px' /\ pstart d = true) ->
  hdP nows (y ++ post) = true -> hdP fol (y ++ post) = true ->
  input = pre ++ (nx ++ wl ++ px ++ wp ++ y) ++ post ->
  M CG c (TSeq (e_pst :: es)) (pre ++ nx ++ wl ++ px ++ wp) y post ps ->
  exists kn pr,
    M CG c (TSeq (e_pfx :: ERef 9 None :: e_pst :: es)) pre (nx ++ wl ++ px ++ wp ++ y) post
      (kn ++ [pr] ++ ps) /\
    map (skel input) kn = repeat (SK 13 [45] []) k /\ ctsk p (skel input pr).
Proof.
  intros Hc Hk Hwl Hwp Hprim [d [px' [Epx Hd]]] Hn Hf Hin Hrest.
  destruct (pstart_facts d Hd) as [A [B _]].
  destruct (M_rep c Hc e_prefix 13 45 (fun pre post => M_prefix c pre post Hc) (F_prefix c) eq_refl
              k nx input pre wl (px ++ wp ++ y ++ post) Hk Hwl) as [kn [HN HNs]].
  { rewrite Epx. exact A. }
  { rewrite Epx. cbn [app strip_prefix]. rewrite B. reflexivity. }
  { rewrite Hin. assoc. }
  destruct (Hprim c Hc input (pre ++ nx ++ wl) (wp ++ y ++ post)) as [pr [HP HPs]].
  { apply hd_ws_then; [intros a Ha; unfold fol; rewrite Ha; reflexivity|exact Hwp|exact Hf]. }
  { rewrite Hin. assoc. }
  exists kn, pr. split; [|split; assumption].
  eapply M_cast;
    [apply (Ms_cons CG c e_pfx (ERef 9 None) (e_pst :: es) pre nx wl (px ++ wp ++ y) post kn ([pr] ++ ps));
      [eapply M_cast; [exact HN|assoc..]
      |apply MS_cws; [exact Hc|exact Hwl|rewrite Epx; exact A]
      |apply (Ms_cons CG c (ERef 9 None) e_pst es _ px wp y post [pr] ps);
        [eapply M_cast; [exact HP|assoc..]
        |apply MS_cws; [exact Hc|exact Hwp|exact Hn]
        |eapply M_cast; [exact Hrest|assoc..]]]
    |assoc..].
Qed.

Definition e_body_seq : list expr := [e_pfx; ERef 9 None; e_pst; EStar e_tail].

Section Gen.
Variable c : ctx.
Hypothesis Hc : c_atom c = NonAtomic.
Variables (k : nat) (nx wl : text) (p : ctok) (px : text) (j : nat) (fx wp wq : text).
Variable rest : list ctok.
Variables x4 post4 xs posts : text.
Hypothesis Hk : repP 45 k nx.
Hypothesis Hwl : ws wl.
Hypothesis Hk0 : k = 0%nat -> wl = [].
Hypothesis Hwp : ws wp.
Hypothesis Hwq : ws wq.
Hypothesis Hprim : primP p px.
Hypothesis Hphd : exists d px', px = d :: px' /\ pstart d = true.
Hypothesis Hj : repP 33 j fx.
Hypothesis Hj0 : j = 0%nat -> wq = [].
Hypothesis Hstop : hdP stopc (x4 ++ post4) = true.
Hypothesis Heq : wq ++ x4 ++ post4 = xs ++ posts.
Hypothesis HE : forall input P, input = P ++ x4 ++ post4 ->
  exists k4, M CG c (TEval (EStar e_tail)) P x4 post4 k4 /\ Forall2 ctsk rest (map (skel input) k4).
Hypothesis HT : forall input P, input = P ++ xs ++ posts ->
  exists k4, M CG c (TStar e_tail) P xs posts k4 /\ Forall2 ctsk rest (map (skel input) k4).

Let ox := nx ++ wl ++ px ++ wp ++ fx.

Lemma hd_y (P : N -> bool) : P 33 = true -> (forall d, stopc d = true -> P d = true) ->
  hdP P (fx ++ wq ++ x4 ++ post4) = true.
Proof.
  intros H33 HP. destruct (repP_hd 33 j fx (wq ++ x4 ++ post4) Hj) as [H|[E1 E2]].
  - destruct (fx ++ wq ++ x4 ++ post4) as [|d r]; [reflexivity|]. cbn [hdP] in *.
    apply N.eqb_eq in H. subst d. exact H33.
  - rewrite E2, (Hj0 E1). cbn [app]. revert Hstop. apply hdP_imp. exact HP.
Qed.

Lemma stop_nows : hdP nows (x4 ++ post4) = true.
Proof. revert Hstop. apply hdP_imp. intros d H. apply (stopc_facts d H). Qed.

Lemma stop_33 : strip_prefix [33] (x4 ++ post4) = None.
Proof. apply (strip1_hd stopc); [reflexivity|exact Hstop]. Qed.

Lemma post_rep input P : input = P ++ fx ++ wq ++ x4 ++ post4 ->
  exists kf, M CG c (TEval e_pst) P fx (wq ++ x4 ++ post4) kf /\
             map (skel input) kf = repeat (SK 11 [33] []) j.
Proof.
  intros Hin.
  apply (M_rep c Hc e_postfix 11 33 (fun pre post => M_postfix c pre post Hc) (F_postfix c) eq_refl
           j fx input P wq (x4 ++ post4) Hj Hwq stop_nows stop_33 Hin).
Qed.

Lemma F2_opd input kn pr kf k4 (ts4 : list ctok) :
  map (skel input) kn = repeat (SK 13 [45] []) k -> ctsk p (skel input pr) ->
  map (skel input) kf = repeat (SK 11 [33] []) j -> Forall2 ctsk ts4 (map (skel input) k4) ->
  Forall2 ctsk (repeat CNeg k ++ p :: repeat CFac j ++ ts4) (map (skel input) (kn ++ [pr] ++ kf ++ k4)).
Proof.
  intros H1 H2 H3 H4. rewrite !map_app, H1, H3. cbn [map].
  apply Forall2_app; [apply F2_rep; constructor|].
  cbn [app]. constructor; [exact H2|].
  apply Forall2_app; [apply F2_rep; constructor|exact H4].
Qed.

(* the body of `expr` *)
Lemma GEN_A input pre : input = pre ++ (ox ++ wq ++ x4) ++ post4 ->
  exists kids, M CG c (TSeq e_body_seq) pre (ox ++ wq ++ x4) post4 kids /\
    Forall2 ctsk (repeat CNeg k ++ p :: repeat CFac j ++ rest) (map (skel input) kids).
Proof.
  intros Hin. unfold ox in *.
  destruct (HE input (pre ++ (nx ++ wl ++ px ++ wp ++ fx) ++ wq)) as [k4 [H4 H4s]].
  { rewrite Hin. assoc. }
  destruct (post_rep input (pre ++ nx ++ wl ++ px ++ wp)) as [kf [HF HFs]].
  { rewrite Hin. assoc. }
  destruct (opd_front c [EStar e_tail] k nx wl p px wp (fx ++ wq ++ x4) post4 (kf ++ k4) input pre
              Hc Hk Hwl Hwp Hprim Hphd) as [kn [pr [HM [HNs HPs]]]].
  { eapply eq_trans; [|apply (hd_y nows); [reflexivity|intros d H; apply (stopc_facts d H)]].
    f_equal. assoc. }
  { eapply eq_trans; [|apply (hd_y fol); [reflexivity|intros d H; apply (stopc_facts d H)]].
    f_equal. assoc. }
  { rewrite Hin. assoc. }
  { apply (Ms_cons CG c e_pst (EStar e_tail) [] _ fx wq x4 post4 kf k4).
    - eapply M_cast; [exact HF|assoc..].
    - apply MS_cws; [exact Hc|exact Hwq|exact stop_nows].
    - apply Ms_one. eapply M_cast; [exact H4|assoc..]. }
  exists (kn ++ [pr] ++ kf ++ k4). split.
  - unfold e_body_seq. eapply M_cast; [exact HM|assoc..].
  - apply F2_opd; assumption.
Qed.

(* one iteration of the infix tail: infix ~ prefix* ~ primary ~ postfix* *)
Lemma GEN_grp input P o w' : (o < 5)%nat -> ws w' ->
  input = P ++ ([opc o] ++ w' ++ ox) ++ wq ++ x4 ++ post4 ->
  exists kg, M CG c (TEval e_tail) P ([opc o] ++ w' ++ ox) (wq ++ x4 ++ post4) kg /\
    Forall2 ctsk (CInf o :: repeat CNeg k ++ p :: repeat CFac j ++ []) (map (skel input) kg).
Proof.
  intros Ho Hw' Hin. unfold ox in *.
  destruct (post_rep input (P ++ [opc o] ++ w' ++ nx ++ wl ++ px ++ wp)) as [kf [HF HFs]].
  { rewrite Hin. assoc. }
  destruct (opd_front c [] k nx wl p px wp fx (wq ++ x4 ++ post4) kf input (P ++ [opc o] ++ w')
              Hc Hk Hwl Hwp Hprim Hphd) as [kn [pr [HM [HNs HPs]]]].
  { apply (hd_y nows); [reflexivity|intros d H; apply (stopc_facts d H)]. }
  { apply (hd_y fol); [reflexivity|intros d H; apply (stopc_facts d H)]. }
  { rewrite Hin. assoc. }
  { apply Ms_one. eapply M_cast; [exact HF|assoc..]. }
  set (kinf := Pair (opn o) (lenN P) (lenN (P ++ [opc o])) [] None).
  assert (Hox : hdP nows ((nx ++ wl ++ px ++ wp ++ fx) ++ wq ++ x4 ++ post4) = true).
  { destruct Hphd as [d [px' [Epx Hd]]]. destruct (pstart_facts d Hd) as [A _].
    destruct k as [|k']; cbn [repP] in Hk.
    - rewrite Hk, (Hk0 eq_refl), Epx. exact A.
    - destruct Hk as [wn [_ [_ ->]]]. reflexivity. }
  exists ([kinf] ++ kn ++ [pr] ++ kf ++ []). split.
  - unfold e_tail. apply M_grp. apply M_seq.
    eapply M_cast;
      [apply (Ms_cons CG c (ERef 20 None) e_pfx [ERef 9 None; e_pst] P [opc o] w'
                (nx ++ wl ++ px ++ wp ++ fx) (wq ++ x4 ++ post4) [kinf] (kn ++ [pr] ++ kf));
        [apply M_infix; assumption
        |apply MS_cws; [exact Hc|exact Hw'|exact Hox]
        |eapply M_cast; [exact HM|assoc..]]
      |assoc..].
  - rewrite map_app. cbn [map app]. constructor.
    + unfold kinf. cbn [skel map]. rewrite (slice_in input P [opc o] (w' ++ (nx ++ wl ++ px ++ wp ++ fx) ++ wq ++ x4 ++ post4)).
      * constructor.
      * rewrite Hin. assoc.
    + apply F2_opd; [assumption..|constructor].
Qed.

Lemma F2_grp_then input o kg k4 :
  Forall2 ctsk (CInf o :: repeat CNeg k ++ p :: repeat CFac j ++ []) (map (skel input) kg) ->
  Forall2 ctsk rest (map (skel input) k4) ->
  Forall2 ctsk (CInf o :: repeat CNeg k ++ p :: repeat CFac j ++ rest) (map (skel input) (kg ++ k4)).
Proof.
  intros H1 H2. rewrite map_app.
  replace (CInf o :: repeat CNeg k ++ p :: repeat CFac j ++ rest)
    with ((CInf o :: repeat CNeg k ++ p :: repeat CFac j ++ []) ++ rest).
  - apply Forall2_app; assumption.
  - rewrite app_nil_r. cbn [app]. rewrite <- app_assoc. reflexivity.
Qed.

(* the infix tail, entered after an iteration (TStar: skip first) or for the first time *)
Lemma GEN_Bs input pre u o w' : (o < 5)%nat -> ws u -> ws w' ->
  input = pre ++ (u ++ ([opc o] ++ w' ++ ox) ++ xs) ++ posts ->
  exists kids, M CG c (TStar e_tail) pre (u ++ ([opc o] ++ w' ++ ox) ++ xs) posts kids /\
    Forall2 ctsk (CInf o :: repeat CNeg k ++ p :: repeat CFac j ++ rest) (map (skel input) kids).
Proof.
  intros Ho Hu Hw' Hin.
  destruct (GEN_grp input (pre ++ u) o w' Ho Hw') as [kg [HG HGs]].
  { rewrite Hin, Heq. assoc. }
  destruct (HT input (pre ++ u ++ [opc o] ++ w' ++ ox)) as [k4 [H4 H4s]].
  { rewrite Hin. assoc. }
  exists (kg ++ k4). split.
  - apply (MT_go CG c e_tail pre u ([opc o] ++ w' ++ ox) xs posts kg k4).
    + apply MS_cws; [exact Hc|exact Hu|apply opc_nows; exact Ho].
    + rewrite <- Heq. exact HG.
    + eapply M_cast; [exact H4|assoc..].
  - apply F2_grp_then; assumption.
Qed.

Lemma GEN_Be input pre o w' : (o < 5)%nat -> ws w' ->
  input = pre ++ (([opc o] ++ w' ++ ox) ++ xs) ++ posts ->
  exists kids, M CG c (TEval (EStar e_tail)) pre (([opc o] ++ w' ++ ox) ++ xs) posts kids /\
    Forall2 ctsk (CInf o :: repeat CNeg k ++ p :: repeat CFac j ++ rest) (map (skel input) kids).
Proof.
  intros Ho Hw' Hin.
  destruct (GEN_grp input pre o w' Ho Hw') as [kg [HG HGs]].
  { rewrite Hin, Heq. assoc. }
  destruct (HT input (pre ++ [opc o] ++ w' ++ ox)) as [k4 [H4 H4s]].
  { rewrite Hin. assoc. }
  exists (kg ++ k4). split.
  - apply (M_star_go CG c e_tail pre ([opc o] ++ w' ++ ox) xs posts kg k4).
    + rewrite <- Heq. exact HG.
    + eapply M_cast; [exact H4|assoc..].
  - apply F2_grp_then; assumption.
Qed.

End Gen.

(* ==================================================================================== *)
(* Part 6. Every rendering of a well-formed stream is parsed by the body of `expr`       *)
(* ==================================================================================== *)

(* R is followed by whitespace wc ++ wr and a closer; wc is the part pest consumes *)
Definition PA (ts : list ctok) (R wc wr : text) : Prop :=
  forall c, c_atom c = NonAtomic -> forall input pre r,
  hdP closer r = true -> input = pre ++ (R ++ wc) ++ wr ++ r ->
  exists kids, M CG c (TSeq e_body_seq) pre (R ++ wc) (wr ++ r) kids /\
               Forall2 ctsk ts (map (skel input) kids).

Definition TPs (o : nat) (ts : list ctok) (R wc wr : text) : Prop :=
  forall c, c_atom c = NonAtomic -> forall input pre u w' r,
  ws u -> ws w' -> hdP closer r = true ->
  input = pre ++ (u ++ (opc o :: w' ++ R) ++ wc) ++ wr ++ r ->
  exists kids, M CG c (TStar e_tail) pre (u ++ (opc o :: w' ++ R) ++ wc) (wr ++ r) kids /\
               Forall2 ctsk (CInf o :: ts) (map (skel input) kids).

Definition TPe (o : nat) (ts : list ctok) (R wc wr : text) : Prop :=
  forall c, c_atom c = NonAtomic -> forall input pre w' r,
  ws w' -> hdP closer r = true ->
  input = pre ++ ((opc o :: w' ++ R) ++ wc) ++ wr ++ r ->
  exists kids, M CG c (TEval (EStar e_tail)) pre ((opc o :: w' ++ R) ++ wc) (wr ++ r) kids /\
               Forall2 ctsk (CInf o :: ts) (map (skel input) kids).

Definition ALL (ts : list ctok) (R : text) : Prop :=
  (forall wz, ws wz -> exists wc wr, wz = wc ++ wr /\ PA ts R wc wr) /\
  (forall wz, ws wz -> exists wc wr, wz = wc ++ wr /\
     forall o, (o < 5)%nat -> TPs o ts R wc wr /\ TPe o ts R wc wr).

Lemma exprP_of_ALL ts R : crenders ts R -> ALL ts R -> exprP ts R.
Proof.
  intros Hr [HA _] c Hc input pre wz r Hwz Hcl Hin.
  destruct (HA wz Hwz) as [wc [wr [Ew HP]]].
  assert (Hc1 := rctx_na c 10 false expr_body eq_refl Hc).
  destruct (HP (rctx c 10 false expr_body) Hc1 input pre r Hcl) as [kids [HM HF]].
  { rewrite Hin, Ew. assoc. }
  exists wc, wr. eexists. split; [exact Ew|]. split.
  - apply (C_rule_normal c 10 false _ pre (R ++ wc) (wr ++ r) kids ck_expr Hc).
    unfold expr_body. apply M_seq. exact HM.
  - cbn [skel]. rewrite (slice_in input pre (R ++ wc) (wr ++ r)).
    + constructor; [exact Hr| |exact HF].
      assert (H : ws (wc ++ wr)) by (rewrite <- Ew; exact Hwz). apply (ws_app_inv _ _ H).
    + rewrite Hin, Ew. assoc.
Qed.

Lemma stop_E c r : hdP closer r = true -> forall input P : text, input = P ++ [] ++ r ->
  exists k4, M CG c (TEval (EStar e_tail)) P [] r k4 /\ Forall2 ctsk [] (map (skel input) k4).
Proof.
  intros Hcl input P _. exists []. split; [|constructor].
  apply M_star_stop. apply F_tail. apply closer_nop. exact Hcl.
Qed.

Lemma stop_T c wq r : c_atom c = NonAtomic -> ws wq -> hdP closer r = true ->
  forall input P : text, input = P ++ [] ++ wq ++ r ->
  exists k4, M CG c (TStar e_tail) P [] (wq ++ r) k4 /\ Forall2 ctsk [] (map (skel input) k4).
Proof.
  intros Hc Hwq Hcl input P _. exists []. split; [|constructor].
  apply (MT_stop CG c e_tail P wq r).
  - apply MS_cws; [exact Hc|exact Hwq|].
    revert Hcl. apply hdP_imp. intros d H. apply closer_stopc with (r := [d]) in H. apply (stopc_facts d H).
  - apply F_tail. apply closer_nop. exact Hcl.
Qed.

Lemma closer_nows r : hdP closer r = true -> hdP nows r = true.
Proof. apply hdP_imp. intros d H. apply closer_stopc with (r := [d]) in H. apply (stopc_facts d H). Qed.

Lemma main : forall n ts, (csizes ts < n)%nat -> wf_list wf_tok false ts = true ->
  forall R, crenders ts R -> ALL ts R.
Proof.
  induction n as [|n IH]; intros ts Hsz Hwf R Hr; [lia|].
  destruct (D_all ts R Hwf Hr)
    as (k & nx & wl & p & px & j & fx & wp & wq & rest & Y & E & Hk & Hwl & Hk0 & Hp & Hwfp & Hpx &
        Hj & Hwp & Hwq & Hj0 & Hr0 & HT & ER).
  assert (Hprim : primP p px).
  { destruct Hpx; try discriminate; cbn [wf_tok] in Hwfp.
    - apply prim_int. exact Hwfp.
    - apply prim_id. exact Hwfp.
    - apply prim_group; try assumption. apply exprP_of_ALL; [assumption|].
      apply IH; [|assumption..].
      rewrite E, csizes_app, csizes_cons in Hsz. cbn [csize] in Hsz. fold (csizes inner) in Hsz. lia. }
  assert (Hphd := prim_hd p px Hp Hwfp Hpx).
  destruct HT as [[-> ->] | (o' & rest' & w'' & R' & -> & Ho' & Hwf' & Hw'' & Hr' & ->)].
  - (* the last operand *)
    rewrite (Hr0 eq_refl) in *. clear Hr0 Hwq.
    destruct j as [|j].
    + cbn [repP] in Hj. subst fx. split.
      * intros wz Hwz. exists wz, []. split; [rewrite app_nil_r; reflexivity|].
        intros c Hc input pre r Hcl Hin.
        destruct (GEN_A c Hc k nx wl p px 0%nat [] (wp ++ wz) [] [] [] r Hk Hwl (ws_app _ _ Hwp Hwz)
                    eq_refl Hprim Hphd eq_refl (fun _ => eq_refl) (closer_stopc r Hcl) (stop_E c r Hcl)
                    input pre) as [kids [HM HF]].
        { rewrite Hin, ER. assoc. }
        exists kids. split; [|rewrite E; exact HF].
        eapply M_cast; [exact HM|try (rewrite ER); assoc..].
      * intros wz Hwz. exists wz, []. split; [rewrite app_nil_r; reflexivity|].
        intros o Ho. split.
        -- intros c Hc input pre u w' r Hu Hw' Hcl Hin.
           destruct (GEN_Bs c Hc k nx wl p px 0%nat [] (wp ++ wz) [] [] [] r [] r Hk Hwl Hk0
                       (ws_app _ _ Hwp Hwz) eq_refl Hprim Hphd eq_refl (fun _ => eq_refl)
                       (closer_stopc r Hcl) eq_refl (stop_T c [] r Hc eq_refl Hcl)
                       input pre u o w' Ho Hu Hw') as [kids [HM HF]].
           { rewrite Hin, ER. assoc. }
           exists kids. split; [|rewrite E; exact HF].
           eapply M_cast; [exact HM|try (rewrite ER); assoc..].
        -- intros c Hc input pre w' r Hw' Hcl Hin.
           destruct (GEN_Be c Hc k nx wl p px 0%nat [] (wp ++ wz) [] [] [] r [] r Hk Hwl Hk0
                       (ws_app _ _ Hwp Hwz) eq_refl Hprim Hphd eq_refl (fun _ => eq_refl)
                       (closer_stopc r Hcl) eq_refl (stop_T c [] r Hc eq_refl Hcl)
                       input pre o w' Ho Hw') as [kids [HM HF]].
           { rewrite Hin, ER. assoc. }
           exists kids. split; [|rewrite E; exact HF].
           eapply M_cast; [exact HM|try (rewrite ER); assoc..].
    + assert (Hj0' : S j = 0%nat -> forall w : text, w = []) by discriminate.
      split.
      * intros wz Hwz. exists wz, []. split; [rewrite app_nil_r; reflexivity|].
        intros c Hc input pre r Hcl Hin.
        destruct (GEN_A c Hc k nx wl p px (S j) fx wp wz [] [] r Hk Hwl Hwp Hwz
                    Hprim Hphd Hj (fun H => Hj0' H wz) (closer_stopc r Hcl) (stop_E c r Hcl)
                    input pre) as [kids [HM HF]].
        { rewrite Hin, ER. assoc. }
        exists kids. split; [|rewrite E; exact HF].
        eapply M_cast; [exact HM|try (rewrite ER); assoc..].
      * intros wz Hwz. exists [], wz. split; [reflexivity|].
        intros o Ho. split.
        -- intros c Hc input pre u w' r Hu Hw' Hcl Hin.
           destruct (GEN_Bs c Hc k nx wl p px (S j) fx wp wz [] [] r [] (wz ++ r) Hk Hwl Hk0
                       Hwp Hwz Hprim Hphd Hj (fun H => Hj0' H wz)
                       (closer_stopc r Hcl) eq_refl (stop_T c wz r Hc Hwz Hcl)
                       input pre u o w' Ho Hu Hw') as [kids [HM HF]].
           { rewrite Hin, ER. assoc. }
           exists kids. split; [|rewrite E; exact HF].
           eapply M_cast; [exact HM|try (rewrite ER); assoc..].
        -- intros c Hc input pre w' r Hw' Hcl Hin.
           destruct (GEN_Be c Hc k nx wl p px (S j) fx wp wz [] [] r [] (wz ++ r) Hk Hwl Hk0
                       Hwp Hwz Hprim Hphd Hj (fun H => Hj0' H wz)
                       (closer_stopc r Hcl) eq_refl (stop_T c wz r Hc Hwz Hcl)
                       input pre o w' Ho Hw') as [kids [HM HF]].
           { rewrite Hin, ER. assoc. }
           exists kids. split; [|rewrite E; exact HF].
           eapply M_cast; [exact HM|try (rewrite ER); assoc..].
  - (* an operand followed by an infix operator and the rest *)
    clear Hr0.
    assert (HI : ALL rest' R').
    { apply (IH rest'); [|assumption..].
      rewrite E, csizes_app, csizes_cons, csizes_app, csizes_cons in Hsz.
      pose proof (csize_pos p). cbn [csize] in Hsz. lia. }
    destruct HI as [_ HI].
    assert (Hst : forall wc wr r, hdP stopc (((opc o' :: w'' ++ R') ++ wc) ++ wr ++ r) = true).
    { intros. cbn [app hdP]. unfold stopc. rewrite (opc_isop o' Ho'). reflexivity. }
    assert (AE : forall c wc wr r, c_atom c = NonAtomic -> hdP closer r = true -> TPe o' rest' R' wc wr ->
      forall input P : text, input = P ++ ((opc o' :: w'' ++ R') ++ wc) ++ wr ++ r ->
      exists k4, M CG c (TEval (EStar e_tail)) P ((opc o' :: w'' ++ R') ++ wc) (wr ++ r) k4 /\
                 Forall2 ctsk (CInf o' :: rest') (map (skel input) k4)).
    { intros c wc wr r Hc Hcl HP input P Hin. apply (HP c Hc input P w'' r Hw'' Hcl Hin). }
    assert (AT : forall c wc wr r, c_atom c = NonAtomic -> hdP closer r = true -> TPs o' rest' R' wc wr ->
      forall input P : text, input = P ++ (wq ++ (opc o' :: w'' ++ R') ++ wc) ++ wr ++ r ->
      exists k4, M CG c (TStar e_tail) P (wq ++ (opc o' :: w'' ++ R') ++ wc) (wr ++ r) k4 /\
                 Forall2 ctsk (CInf o' :: rest') (map (skel input) k4)).
    { intros c wc wr r Hc Hcl HP input P Hin. apply (HP c Hc input P wq w'' r Hwq Hw'' Hcl Hin). }
    split.
    + intros wz Hwz. destruct (HI wz Hwz) as [wc [wr [Ew HP]]]. destruct (HP o' Ho') as [HPs HPe].
      exists wc, wr. split; [exact Ew|].
      intros c Hc input pre r Hcl Hin.
      destruct (GEN_A c Hc k nx wl p px j fx wp wq (CInf o' :: rest') ((opc o' :: w'' ++ R') ++ wc) (wr ++ r)
                  Hk Hwl Hwp Hwq Hprim Hphd Hj Hj0 (Hst wc wr r) (AE c wc wr r Hc Hcl HPe)
                  input pre) as [kids [HM HF]].
      { rewrite Hin, ER. assoc. }
      exists kids. split; [|rewrite E; exact HF].
      eapply M_cast; [exact HM|try (rewrite ER); assoc..].
    + intros wz Hwz. destruct (HI wz Hwz) as [wc [wr [Ew HP]]]. destruct (HP o' Ho') as [HPs HPe].
      exists wc, wr. split; [exact Ew|].
      intros o Ho. split.
      * intros c Hc input pre u w' r Hu Hw' Hcl Hin.
        destruct (GEN_Bs c Hc k nx wl p px j fx wp wq (CInf o' :: rest') ((opc o' :: w'' ++ R') ++ wc) (wr ++ r)
                    (wq ++ (opc o' :: w'' ++ R') ++ wc) (wr ++ r)
                    Hk Hwl Hk0 Hwp Hwq Hprim Hphd Hj Hj0 (Hst wc wr r) ltac:(assoc)
                    (AT c wc wr r Hc Hcl HPs) input pre u o w' Ho Hu Hw') as [kids [HM HF]].
        { rewrite Hin, ER. assoc. }
        exists kids. split; [|rewrite E; exact HF].
        eapply M_cast; [exact HM|try (rewrite ER); assoc..].
      * intros c Hc input pre w' r Hw' Hcl Hin.
        destruct (GEN_Be c Hc k nx wl p px j fx wp wq (CInf o' :: rest') ((opc o' :: w'' ++ R') ++ wc) (wr ++ r)
                    (wq ++ (opc o' :: w'' ++ R') ++ wc) (wr ++ r)
                    Hk Hwl Hk0 Hwp Hwq Hprim Hphd Hj Hj0 (Hst wc wr r) ltac:(assoc)
                    (AT c wc wr r Hc Hcl HPs) input pre o w' Ho Hw') as [kids [HM HF]].
        { rewrite Hin, ER. assoc. }
        exists kids. split; [|rewrite E; exact HF].
        eapply M_cast; [exact HM|try (rewrite ER); assoc..].
Qed.

(* ==================================================================================== *)
(* Part 7. Documents                                                                     *)
(* ==================================================================================== *)

Lemma expr_complete ts R : wf_ctoks ts = true -> crenders ts R -> exprP ts R.
Proof.
  intros Hwf Hr. apply exprP_of_ALL; [exact Hr|].
  apply (main (S (csizes ts))); [lia|exact Hwf|exact Hr].
Qed.

Lemma program_rule_complete ts w1 x w2 :
  wf_ctoks ts = true -> ws w1 -> crenders ts x -> ws w2 ->
  exists tree, M CG ctx0 (TEval (ERef 21 None)) [] (w1 ++ x ++ w2) [] tree /\
               cmirrors (w1 ++ x ++ w2) ts tree.
Proof.
  intros Hwf Hw1 Hr Hw2.
  destruct (stream_hd ts x Hwf Hr) as [d [x' [Ex [Hd _]]]].
  set (c1 := rctx ctx0 21 false program_body).
  assert (Hc1 : c_atom c1 = NonAtomic) by (apply rctx_na; reflexivity).
  destruct (expr_complete ts x Hwf Hr c1 Hc1 (w1 ++ x ++ w2) w1 w2 [] Hw2 eq_refl)
    as [wc [wr [pr [Ew [HM HK]]]]].
  { assoc. }
  assert (Hw2' : ws (wc ++ wr)) by (rewrite <- Ew; exact Hw2).
  apply ws_app_inv in Hw2'. destruct Hw2' as [Hwc Hwr].
  set (eoi := Pair 3 (lenN (w1 ++ x ++ w2)) (lenN (w1 ++ x ++ w2)) [] None).
  exists [Pair 21 (lenN (@nil N)) (lenN ([] ++ w1 ++ x ++ w2)) [pr; eoi] None]. split.
  - apply (C_rule_normal ctx0 21 false program_body [] (w1 ++ x ++ w2) [] [pr; eoi] ck_program eq_refl).
    fold c1. unfold program_body. apply M_seq.
    eapply M_cast;
      [apply (Ms_cons CG c1 (ERef 22 None) (ERef 10 None) [ERef 3 None] [] [] w1 ((x ++ wc) ++ wr) []
                [] ([pr] ++ [eoi]));
        [eapply M_ps; cycle 1; [eapply M_ref; [exact ck_soi|apply M_soi]|reflexivity]
        |apply MS_cws; [exact Hc1|exact Hw1|rewrite Ex; exact Hd]
        |eapply M_cast;
          [apply (Ms_cons CG c1 (ERef 10 None) (ERef 3 None) [] ([] ++ [] ++ w1) (x ++ wc) wr [] []
                    [pr] [eoi]);
            [eapply M_cast; [exact HM|assoc..]
            |apply MS_cws; [exact Hc1|exact Hwr|reflexivity]
            |apply Ms_one; eapply M_cast;
               [apply (C_rule_normal c1 3 false EEoi _ [] [] [] ck_eoi Hc1); apply M_eoi
               |unfold eoi; rewrite ?Ew; assoc..]]
          |assoc..]]
      |rewrite ?Ew; assoc..].
  - exists (skel (w1 ++ x ++ w2) pr). split; [|exact HK].
    unfold eoi. cbn [map skel]. rewrite slice_empty.
    rewrite (slice_in (w1 ++ x ++ w2) [] (w1 ++ x ++ w2) []); [reflexivity|].
    rewrite app_nil_r. reflexivity.
Qed.

(* ------------------------------------------------------------------------------------ *)
(* COMPLETENESS: every rendering of a well-formed token stream is accepted by             *)
(* calculator.pest, the whole input is consumed, and the children of the `expr` pair are  *)
(* exactly the tokens of the stream, in order (groups as nested `expr` pairs).            *)
(* ------------------------------------------------------------------------------------ *)
Theorem calc_complete : forall ts text, wf_ctoks ts = true -> crenders_doc ts text ->
  exists f s tree,
    Spec.parse calc_grammar f calc_grammar_start text 0 = Ok s tree /\ s_rest s = [] /\
    cmirrors text ts tree.
Proof.
  intros ts text Hwf Hdoc. destruct Hdoc as [ts w1 x w2 Hw1 Hr Hw2].
  destruct (program_rule_complete ts w1 x w2 Hwf Hw1 Hr Hw2) as [tree [HM HK]].
  unfold M, OKt in HM. rewrite app_nil_r in HM.
  destruct (HM trk0) as [t' [f [E D]]].
  exists f. eexists. exists tree. split; [exact E|]. split; [reflexivity|exact HK].
Qed.

(* what the grammar delivers is a stream the Pratt parser of Pratt.v consumes entirely, into
   the canonical tree, for ANY operator table *)
Theorem calc_end_to_end : forall tb ts text, wf_ctoks ts = true -> crenders_doc ts text ->
  exists f s ptree sl kids,
    Spec.parse calc_grammar f calc_grammar_start text 0 = Ok s ptree /\ s_rest s = [] /\
    map (skel text) ptree = [SK 21 text [SK 10 sl kids; SK 3 [] []]] /\
    toks_of kids = ptoks ts /\
    exists f' t, Pratt.parse_expr tb f' (toks_of kids) 0 = Some (t, []) /\
                 canon tb 0 t /\ yield t = toks_of kids.
Proof.
  intros tb ts text Hwf Hdoc.
  destruct (calc_complete ts text Hwf Hdoc) as [f [s [ptree [E [Hs [top [Hm Ht]]]]]]].
  inversion Ht as [| | | | |inner x w kids Hx Hw HF]; subst.
  assert (Htk : toks_of kids = ptoks ts) by (apply (toks_of_ptoks ts kids false 0%nat Hwf HF)).
  exists f, s, ptree, (x ++ w), kids. repeat split; try assumption.
  rewrite Htk. apply calc_pratt_total. exact Hwf.
Qed.

(* ==================================================================================== *)
(* Part 8. Non-vacuity:   -a + ( 12 * 3 ! )<LF>^ 7/x - 0<CR><LF>   (preceded by a space)  *)
(* ==================================================================================== *)

Definition ex_inner : list ctok := [CInt [49; 50]; CInf 2; CInt [51]; CFac].
Definition ex_ts : list ctok :=
  [CNeg; CId [97]; CInf 0; CGroup ex_inner; CInf 4; CInt [55]; CInf 3; CId [120]; CInf 1; CInt [48]].

Definition ex_text : text :=
  [32; 45; 97; 32; 43; 32; 40; 32; 49; 50; 32; 42; 32; 51; 32; 33; 32; 41; 10; 94; 32; 55; 47; 120;
   32; 45; 32; 48; 13; 10].

Example ex_wf : wf_ctoks ex_ts = true.
Proof. vm_compute. reflexivity. Qed.

Definition ex_r_inner : crenders ex_inner _ :=
  CR_cons (CInt [49; 50]) _ _ _ [32] _ (CT_int _) eq_refl
  (CR_cons (CInf 2) _ _ _ [32] _ (CT_inf 2) eq_refl
  (CR_cons (CInt [51]) _ _ _ [32] _ (CT_int _) eq_refl
  (CR_one CFac _ CT_fac))).

Definition ex_r : crenders ex_ts _ :=
  CR_cons CNeg _ _ _ [] _ CT_neg eq_refl
  (CR_cons (CId [97]) _ _ _ [32] _ (CT_id _) eq_refl
  (CR_cons (CInf 0) _ _ _ [32] _ (CT_inf 0) eq_refl
  (CR_cons (CGroup ex_inner) _ _ _ [10] _ (CT_group ex_inner [32] _ [32] eq_refl ex_r_inner eq_refl) eq_refl
  (CR_cons (CInf 4) _ _ _ [32] _ (CT_inf 4) eq_refl
  (CR_cons (CInt [55]) _ _ _ [] _ (CT_int _) eq_refl
  (CR_cons (CInf 3) _ _ _ [] _ (CT_inf 3) eq_refl
  (CR_cons (CId [120]) _ _ _ [32] _ (CT_id _) eq_refl
  (CR_cons (CInf 1) _ _ _ [32] _ (CT_inf 1) eq_refl
  (CR_one (CInt [48]) _ (CT_int _)))))))))).

(* membership in the rendering relation, checked by conversion against the literal text *)
Example ex_renders : crenders_doc ex_ts ex_text.
Proof. exact (CR_doc ex_ts [32] _ [13; 10] eq_refl ex_r eq_refl). Qed.

(* the theorem applies ... *)
Example ex_accepted : exists f s tree,
  Spec.parse calc_grammar f calc_grammar_start ex_text 0 = Ok s tree /\ s_rest s = [] /\
  cmirrors ex_text ex_ts tree.
Proof. exact (calc_complete ex_ts ex_text ex_wf ex_renders). Qed.

(* ... and agrees with running the reference semantics.  The outer `expr` ends in an operand
   without postfix and so swallows the trailing CR LF; the group ends in `!` inside the infix
   tail and does not swallow the space before ")". *)
Definition ex_run : res := Spec.parse calc_grammar 100 calc_grammar_start ex_text 0.

Definition ex_kids : list sk :=
  [ SK 13 [45] []; SK 4 [97] []; SK 19 [43] [];
    SK 10 [49; 50; 32; 42; 32; 51; 32; 33] [SK 6 [49; 50] []; SK 17 [42] []; SK 6 [51] []; SK 11 [33] []];
    SK 15 [94] []; SK 6 [55] []; SK 16 [47] []; SK 4 [120] []; SK 18 [45] []; SK 6 [48] [] ].

Example ex_parse_ok :
  match ex_run with
  | Ok s tree =>
      s_rest s = [] /\ s_pos s = lenN ex_text /\
      map (skel ex_text) tree = [SK 21 ex_text [SK 10 (firstn 29 (skipn 1 ex_text)) ex_kids; SK 3 [] []]] /\
      toks_of ex_kids = ptoks ex_ts
  | _ => False
  end.
Proof. vm_compute. repeat split. Qed.

(* with the usual table (prefix - : 5; ! : 6; + - : 1; * / : 2; ^ : 3, right-associative) the
   Pratt parser turns the delivered stream into  ((-a) + ((g ^ 7) / x)) - 0  *)
Definition ex_tb : table :=
  {| pre := fun _ => 5%nat; post := fun _ => 6%nat;
     inf := fun o => match o with 0%nat | 1%nat => (1%nat, false) | 2%nat | 3%nat => (2%nat, false)
                     | _ => (3%nat, true) end |}.

Example ex_pratt :
  Pratt.parse ex_tb (toks_of ex_kids) =
  Some (TIn (TIn (TPre 0 (TPrim 1)) 0 (TIn (TIn (TPrim 3) 4 (TPrim 5)) 3 (TPrim 7))) 1 (TPrim 9), []).
Proof. vm_compute. reflexivity. Qed.

Print Assumptions int_complete.
Print Assumptions ident_complete.
Print Assumptions main.
Print Assumptions calc_stream_wellformed.
Print Assumptions calc_pratt_total.
Print Assumptions calc_complete.
Print Assumptions calc_end_to_end.
Print Assumptions ex_accepted.
