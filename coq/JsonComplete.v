From Coq Require Import List NArith ZArith Bool Arith Lia.
Import ListNotations.
From PP Require Import Base Syntax Spec SpecMono SpecLaws SpecEquiv Grammars.

(* JsonComplete.v — completeness of examples/json/json.pest (json_grammar) w.r.t. RFC 8259
   documents whose top level is an array or an object. *)

Open Scope N_scope.

(* ==================================================================================== *)
(* Part 0. Small list facts                                                              *)
(* ==================================================================================== *)

Lemma lenN_app {A} (a b : list A) : lenN (a ++ b) = lenN a + lenN b.
Proof. unfold lenN. rewrite app_length. lia. Qed.

Lemma lenN_nil {A} : lenN (@nil A) = 0.
Proof. reflexivity. Qed.

Lemma lenN_one {A} (a : A) : lenN [a] = 1.
Proof. reflexivity. Qed.

Definition slice (input : text) (s e : N) : text :=
  firstn (N.to_nat (e - s)) (skipn (N.to_nat s) input).

Lemma slice_mid (pre x post : text) :
  slice (pre ++ x ++ post) (lenN pre) (lenN (pre ++ x)) = x.
Proof.
  unfold slice. rewrite lenN_app.
  replace (N.to_nat (lenN pre + lenN x - lenN pre)) with (length x) by (unfold lenN; lia).
  replace (N.to_nat (lenN pre)) with (length pre) by (unfold lenN; lia).
  rewrite skipn_app, skipn_all, Nat.sub_diag. cbn [skipn app].
  rewrite firstn_app, firstn_all, Nat.sub_diag. cbn [firstn]. apply app_nil_r.
Qed.

(* ==================================================================================== *)
(* Part 1. Fuel-free, tracker-free derived rules of the reference semantics              *)
(* ==================================================================================== *)

(* all states met while parsing JSON have an empty stack and no pending tags *)
Definition mk (p : N) (r : text) (t : trk) : st :=
  {| s_pos := p; s_rest := r; s_stk := []; s_tags := []; s_trk := t |}.

(* what a successful rule application contributes *)
Definition wrap (c : ctx) (rl : rule) (p p' : N) (kids : list pair) : list pair :=
  if r_silent rl then kids
  else if visible c rl then [Pair (r_name rl) p p' kids None] else kids.

Section Comb.
Variable g : grammar.

Definition OKt c tk p r p' r' ps :=
  forall t, exists t', runs g c tk (mk p r t) (Ok (mk p' r' t') ps).
Definition FLt c tk p r :=
  forall t, exists t', runs g c tk (mk p r t) (Fail t').
Definition SKo c p r p' r' :=
  forall t, exists t', skips g c (mk p r t) (Ok (mk p' r' t') []).

Notation OK c e := (OKt c (TEval e)).
Notation FL c e := (FLt c (TEval e)).

Ltac one_step := exists 1%nat; split; [|discriminate].

Lemma OK_str c lit p r : OK c (EStr lit) p (lit ++ r) (p + lenN lit) r [].
Proof.
  intros t. exists t. one_step. cbn [run mk s_rest]. rewrite strip_prefix_app_iff. reflexivity.
Qed.

Lemma FL_str c lit p r : strip_prefix lit r = None -> FL c (EStr lit) p r.
Proof.
  intros H t. eexists. one_step. cbn [run mk s_rest]. rewrite H. reflexivity.
Qed.

Lemma OK_cistr c lit p r r' : strip_prefix_ci lit r = Some r' ->
  OK c (ECIStr lit) p r (p + lenN lit) r' [].
Proof.
  intros H t. exists t. one_step. cbn [run mk s_rest]. rewrite H. reflexivity.
Qed.

Lemma FL_cistr c lit p r : strip_prefix_ci lit r = None -> FL c (ECIStr lit) p r.
Proof.
  intros H t. eexists. one_step. cbn [run mk s_rest]. rewrite H. reflexivity.
Qed.

Lemma OK_range c lo hi p d r : (N.leb lo d && N.leb d hi)%bool = true ->
  OK c (ERange lo hi) p (d :: r) (p + 1) r [].
Proof.
  intros H t. exists t. one_step. cbn [run mk s_rest]. rewrite H. reflexivity.
Qed.

Lemma FL_range c lo hi p r :
  match r with [] => True | d :: _ => (N.leb lo d && N.leb d hi)%bool = false end ->
  FL c (ERange lo hi) p r.
Proof.
  intros H t. eexists. one_step. cbn [run mk s_rest]. destruct r as [|d r]; [reflexivity|].
  rewrite H. reflexivity.
Qed.

Lemma OK_any c p d r : OK c EAny p (d :: r) (p + 1) r [].
Proof. intros t. exists t. one_step. reflexivity. Qed.

Lemma OK_eoi c p : OK c EEoi p [] p [] [].
Proof. intros t. exists t. one_step. reflexivity. Qed.

Lemma OK_soi c r : OK c ESoi 0 r 0 r [].
Proof. intros t. exists t. one_step. reflexivity. Qed.

(* sequences *)
Lemma OK_seq c es p r p' r' ps : OKt c (TSeq es) p r p' r' ps -> OK c (ESeq es) p r p' r' ps.
Proof. intros H t. destruct (H t) as [t' E]. exists t'. apply seq_is_its_task. exact E. Qed.
Lemma FL_seq c es p r : FLt c (TSeq es) p r -> FL c (ESeq es) p r.
Proof. intros H t. destruct (H t) as [t' E]. exists t'. apply seq_is_its_task. exact E. Qed.

Lemma OKs_nil c p r : OKt c (TSeq []) p r p r [].
Proof. intros t. exists t. apply runs_seq_nil. reflexivity. Qed.

Lemma OKs_one c e p r p' r' ps : OK c e p r p' r' ps -> OKt c (TSeq [e]) p r p' r' ps.
Proof. intros H t. destruct (H t) as [t' E]. exists t'. apply runs_seq_one. exact E. Qed.

Lemma OKs_cons c e1 e2 es p r p1 r1 p2 r2 p3 r3 ps1 ps3 :
  OK c e1 p r p1 r1 ps1 -> SKo c p1 r1 p2 r2 -> OKt c (TSeq (e2 :: es)) p2 r2 p3 r3 ps3 ->
  OKt c (TSeq (e1 :: e2 :: es)) p r p3 r3 (ps1 ++ ps3).
Proof.
  intros H1 H2 H3 t. destruct (H1 t) as [t1 E1]. destruct (H2 t1) as [t2 E2].
  destruct (H3 t2) as [t3 E3]. exists t3. apply runs_seq_cons.
  eexists. split; [exact E1|]. eexists. split; [exact E2|]. eexists. split; [exact E3|]. reflexivity.
Qed.

Lemma FLs_one c e p r : FL c e p r -> FLt c (TSeq [e]) p r.
Proof. intros H t. destruct (H t) as [t' E]. exists t'. apply runs_seq_one. exact E. Qed.

Lemma FLs_first c e1 e2 es p r : FL c e1 p r -> FLt c (TSeq (e1 :: e2 :: es)) p r.
Proof.
  intros H t. destruct (H t) as [t' E]. exists t'. apply runs_seq_cons.
  eexists. split; [exact E|]. reflexivity.
Qed.

Lemma FLs_later c e1 e2 es p r p1 r1 p2 r2 ps1 :
  OK c e1 p r p1 r1 ps1 -> SKo c p1 r1 p2 r2 -> FLt c (TSeq (e2 :: es)) p2 r2 ->
  FLt c (TSeq (e1 :: e2 :: es)) p r.
Proof.
  intros H1 H2 H3 t. destruct (H1 t) as [t1 E1]. destruct (H2 t1) as [t2 E2].
  destruct (H3 t2) as [t3 E3]. exists t3. apply runs_seq_cons.
  eexists. split; [exact E1|]. eexists. split; [exact E2|]. eexists. split; [exact E3|]. reflexivity.
Qed.

(* ordered choice *)
Lemma OK_alt c es p r p' r' ps : OKt c (TAlt es) p r p' r' ps -> OK c (EAlt es) p r p' r' ps.
Proof. intros H t. destruct (H t) as [t' E]. exists t'. apply alt_is_its_task. exact E. Qed.
Lemma FL_alt c es p r : FLt c (TAlt es) p r -> FL c (EAlt es) p r.
Proof. intros H t. destruct (H t) as [t' E]. exists t'. apply alt_is_its_task. exact E. Qed.

Lemma OKa_first c e1 es p r p' r' ps : OK c e1 p r p' r' ps -> OKt c (TAlt (e1 :: es)) p r p' r' ps.
Proof.
  intros H t. destruct (H t) as [t' E]. exists t'. apply runs_alt_cons.
  eexists. split; [exact E|]. reflexivity.
Qed.

Lemma OKa_next c e1 es p r p' r' ps :
  FL c e1 p r -> OKt c (TAlt es) p r p' r' ps -> OKt c (TAlt (e1 :: es)) p r p' r' ps.
Proof.
  intros H1 H2 t. destruct (H1 t) as [t1 E1]. destruct (H2 t1) as [t2 E2]. exists t2.
  apply runs_alt_cons. eexists. split; [exact E1|]. exact E2.
Qed.

Lemma FLa_nil c p r : FLt c (TAlt []) p r.
Proof. intros t. eexists. apply runs_alt_nil. reflexivity. Qed.

Lemma FLa_cons c e1 es p r : FL c e1 p r -> FLt c (TAlt es) p r -> FLt c (TAlt (e1 :: es)) p r.
Proof.
  intros H1 H2 t. destruct (H1 t) as [t1 E1]. destruct (H2 t1) as [t2 E2]. exists t2.
  apply runs_alt_cons. eexists. split; [exact E1|]. exact E2.
Qed.

(* optional, group, negative predicate *)
Lemma OK_opt_some c e p r p' r' ps : OK c e p r p' r' ps -> OK c (EOpt e) p r p' r' ps.
Proof. intros H t. destruct (H t) as [t' E]. exists t'. apply opt_of_success. exact E. Qed.

Lemma OK_opt_none c e p r : FL c e p r -> OK c (EOpt e) p r p r [].
Proof.
  intros H t. destruct (H t) as [t' E]. exists t'.
  apply (opt_of_failure g c e (mk p r t) t' E).
Qed.

Lemma OK_grp c e p r p' r' ps : OK c e p r p' r' ps -> OK c (EGrp e None) p r p' r' ps.
Proof. intros H t. destruct (H t) as [t' E]. exists t'. apply evals_grp_none. exact E. Qed.
Lemma FL_grp c e p r : FL c e p r -> FL c (EGrp e None) p r.
Proof. intros H t. destruct (H t) as [t' E]. exists t'. apply evals_grp_none. exact E. Qed.

Lemma OK_not c e p r : FL (neg_ctx c) e p r -> OK c (ENot e) p r p r [].
Proof.
  intros H t. destruct (H t) as [t' E]. exists t'.
  apply (proj2 (not_inverts g c e (mk p r t)) t' E).
Qed.

Lemma FL_not c e p r p' r' ps : OK (neg_ctx c) e p r p' r' ps -> FL c (ENot e) p r.
Proof.
  intros H t. destruct (H t) as [t' E].
  apply (proj1 (not_inverts g c e (mk p r t)) _ _ E).
Qed.

(* rule application *)
Lemma OK_ref c n rl p r p' r' kids : lookup g n = Some rl ->
  OK (rule_ctx c rl) (r_body rl) p r p' r' kids ->
  OK c (ERef n None) p r p' r' (wrap c rl p p' kids).
Proof.
  intros L H t. destruct (H t) as [t' [f [E D]]]. exists t'. exists (S f). split; [|discriminate].
  cbn [run]. rewrite L. cbn [push_tag]. rewrite E. unfold finish_rule, wrap.
  destruct (r_silent rl); [reflexivity|]. destruct (visible c rl); reflexivity.
Qed.

Lemma FL_ref c n rl p r : lookup g n = Some rl ->
  FL (rule_ctx c rl) (r_body rl) p r -> FL c (ERef n None) p r.
Proof.
  intros L H t. destruct (H t) as [t' [f [E D]]]. exists t'. exists (S f). split; [|discriminate].
  cbn [run]. rewrite L. cbn [push_tag]. rewrite E. reflexivity.
Qed.

(* repetition *)
Lemma OK_star_stop c e p r : FL c e p r -> OK c (EStar e) p r p r [].
Proof.
  intros H t. destruct (H t) as [t' E]. exists t'. apply evals_star.
  eexists. split; [exact E|]. reflexivity.
Qed.

Lemma OK_star_go c e p r p1 r1 p2 r2 ps1 ps2 :
  OK c e p r p1 r1 ps1 -> OKt c (TStar e) p1 r1 p2 r2 ps2 -> OK c (EStar e) p r p2 r2 (ps1 ++ ps2).
Proof.
  intros H1 H2 t. destruct (H1 t) as [t1 E1]. destruct (H2 t1) as [t2 E2]. exists t2.
  apply evals_star. eexists. split; [exact E1|]. eexists. split; [exact E2|]. reflexivity.
Qed.

Lemma OKT_stop c e p r p1 r1 : SKo c p r p1 r1 -> FL c e p1 r1 -> OKt c (TStar e) p r p r [].
Proof.
  intros H1 H2 t. destruct (H1 t) as [t1 E1]. destruct (H2 t1) as [t2 E2]. exists t2.
  apply runs_star. eexists. split; [exact E1|]. eexists. split; [exact E2|]. reflexivity.
Qed.

Lemma OKT_go c e p r p1 r1 p2 r2 p3 r3 ps2 ps3 :
  SKo c p r p1 r1 -> OK c e p1 r1 p2 r2 ps2 -> OKt c (TStar e) p2 r2 p3 r3 ps3 ->
  OKt c (TStar e) p r p3 r3 (ps2 ++ ps3).
Proof.
  intros H1 H2 H3 t. destruct (H1 t) as [t1 E1]. destruct (H2 t1) as [t2 E2].
  destruct (H3 t2) as [t3 E3]. exists t3.
  apply runs_star. eexists. split; [exact E1|]. eexists. split; [exact E2|].
  eexists. split; [exact E3|]. reflexivity.
Qed.

Lemma OK_plus c e p r p' r' ps : OK c (ESeq [e; EStar e]) p r p' r' ps -> OK c (EPlus e) p r p' r' ps.
Proof. intros H t. destruct (H t) as [t' E]. exists t'. apply plus_unrolled. exact E. Qed.

Lemma OK_repn c e n p r p' r' ps :
  OK c (ESeq (repeat e n)) p r p' r' ps -> OK c (ERepN e n) p r p' r' ps.
Proof. intros H t. destruct (H t) as [t' E]. exists t'. apply repn_unrolled. exact E. Qed.
Lemma FL_repn c e n p r : FL c (ESeq (repeat e n)) p r -> FL c (ERepN e n) p r.
Proof. intros H t. destruct (H t) as [t' E]. exists t'. apply repn_unrolled. exact E. Qed.

(* implicit trivia *)
Lemma SKo_atomic c p r : c_atom c <> NonAtomic -> SKo c p r p r.
Proof.
  intros H t. exists t. exists 0%nat. split; [|discriminate]. apply atomic_no_trivia. exact H.
Qed.

Lemma SKo_expr c e p r p' r' : c_atom c = NonAtomic -> skip_expr g = Some e ->
  OK (skip_ctx c) e p r p' r' [] -> SKo c p r p' r'.
Proof.
  intros Hc He H t. destruct (H t) as [t' [f [E D]]]. exists t'. exists f. split; [|discriminate].
  unfold skip_with. rewrite Hc, He. exact E.
Qed.

End Comb.

Notation OK g c e := (OKt g c (TEval e)).
Notation FL g c e := (FLt g c (TEval e)).

(* ------------------------------------------------------------------------------------ *)
(* the same rules, phrased over a split  input = pre ++ x ++ post  (x is what is consumed) *)
(* ------------------------------------------------------------------------------------ *)

Section Located.
Variable g : grammar.

Definition M c tk (pre x post : text) ps :=
  OKt g c tk (lenN pre) (x ++ post) (lenN (pre ++ x)) post ps.
Definition MS c (pre w post : text) :=
  SKo g c (lenN pre) (w ++ post) (lenN (pre ++ w)) post.
Definition F c tk (pre r : text) := FLt g c tk (lenN pre) r.

Lemma M_ps c tk pre x post ps ps' : ps = ps' -> M c tk pre x post ps -> M c tk pre x post ps'.
Proof. intros ->. exact (fun H => H). Qed.

Lemma M_x c tk pre x x' post ps : x = x' -> M c tk pre x post ps -> M c tk pre x' post ps.
Proof. intros ->. exact (fun H => H). Qed.

Lemma M_str c lit pre post : M c (TEval (EStr lit)) pre lit post [].
Proof. unfold M. rewrite lenN_app. apply OK_str. Qed.

Lemma M_range c lo hi pre d post : (N.leb lo d && N.leb d hi)%bool = true ->
  M c (TEval (ERange lo hi)) pre [d] post [].
Proof. intros H. unfold M. rewrite lenN_app. apply OK_range. exact H. Qed.

Lemma M_any c pre d post : M c (TEval EAny) pre [d] post [].
Proof. unfold M. rewrite lenN_app. apply OK_any. Qed.

Lemma M_cistr1 c a pre d post : N.eqb (ascii_lower a) (ascii_lower d) = true ->
  M c (TEval (ECIStr [a])) pre [d] post [].
Proof.
  intros H. unfold M. rewrite lenN_app. change (lenN [d]) with (lenN [a]).
  apply OK_cistr. cbn [strip_prefix_ci app]. rewrite H. reflexivity.
Qed.

Lemma M_seq c es pre x post ps : M c (TSeq es) pre x post ps -> M c (TEval (ESeq es)) pre x post ps.
Proof. apply OK_seq. Qed.
Lemma M_alt c es pre x post ps : M c (TAlt es) pre x post ps -> M c (TEval (EAlt es)) pre x post ps.
Proof. apply OK_alt. Qed.
Lemma M_grp c e pre x post ps : M c (TEval e) pre x post ps -> M c (TEval (EGrp e None)) pre x post ps.
Proof. apply OK_grp. Qed.
Lemma M_opt_some c e pre x post ps : M c (TEval e) pre x post ps -> M c (TEval (EOpt e)) pre x post ps.
Proof. apply OK_opt_some. Qed.
Lemma M_plus c e pre x post ps :
  M c (TEval (ESeq [e; EStar e])) pre x post ps -> M c (TEval (EPlus e)) pre x post ps.
Proof. apply OK_plus. Qed.
Lemma M_repn c e n pre x post ps :
  M c (TEval (ESeq (repeat e n))) pre x post ps -> M c (TEval (ERepN e n)) pre x post ps.
Proof. apply OK_repn. Qed.

Lemma M_opt_none c e pre post : F c (TEval e) pre post -> M c (TEval (EOpt e)) pre [] post [].
Proof. intros H. unfold M. rewrite app_nil_r. apply OK_opt_none. exact H. Qed.

Lemma M_not c e pre post : F (neg_ctx c) (TEval e) pre post -> M c (TEval (ENot e)) pre [] post [].
Proof. intros H. unfold M. rewrite app_nil_r. apply OK_not. exact H. Qed.

Lemma M_star_stop c e pre post : F c (TEval e) pre post -> M c (TEval (EStar e)) pre [] post [].
Proof. intros H. unfold M. rewrite app_nil_r. apply OK_star_stop. exact H. Qed.

Lemma M_star_go c e pre x1 x2 post ps1 ps2 :
  M c (TEval e) pre x1 (x2 ++ post) ps1 -> M c (TStar e) (pre ++ x1) x2 post ps2 ->
  M c (TEval (EStar e)) pre (x1 ++ x2) post (ps1 ++ ps2).
Proof.
  unfold M. intros H1 H2. rewrite <- !app_assoc in *. eapply OK_star_go; eassumption.
Qed.

Lemma MT_stop c e pre w post : MS c pre w post -> F c (TEval e) (pre ++ w) post ->
  M c (TStar e) pre [] (w ++ post) [].
Proof.
  unfold M, MS, F. intros H1 H2. rewrite app_nil_r. cbn [app]. eapply OKT_stop; eassumption.
Qed.

Lemma MT_go c e pre w x1 x2 post ps1 ps2 :
  MS c pre w (x1 ++ x2 ++ post) -> M c (TEval e) (pre ++ w) x1 (x2 ++ post) ps1 ->
  M c (TStar e) (pre ++ w ++ x1) x2 post ps2 ->
  M c (TStar e) pre (w ++ x1 ++ x2) post (ps1 ++ ps2).
Proof.
  unfold M, MS. intros H1 H2 H3. rewrite <- !app_assoc in *. eapply OKT_go; eassumption.
Qed.

Lemma Ms_one c e pre x post ps : M c (TEval e) pre x post ps -> M c (TSeq [e]) pre x post ps.
Proof. apply OKs_one. Qed.

Lemma Ms_cons c e1 e2 es pre x1 w x2 post ps1 ps3 :
  M c (TEval e1) pre x1 (w ++ x2 ++ post) ps1 ->
  MS c (pre ++ x1) w (x2 ++ post) ->
  M c (TSeq (e2 :: es)) (pre ++ x1 ++ w) x2 post ps3 ->
  M c (TSeq (e1 :: e2 :: es)) pre (x1 ++ w ++ x2) post (ps1 ++ ps3).
Proof.
  unfold M, MS. intros H1 H2 H3. rewrite <- !app_assoc in *. eapply OKs_cons; eassumption.
Qed.

Lemma MS_atomic c pre post : c_atom c <> NonAtomic -> MS c pre [] post.
Proof. intros H. unfold MS. rewrite app_nil_r. apply SKo_atomic. exact H. Qed.

(* no trivia in atomic / compound-atomic contexts *)
Lemma Ms_cons_a c e1 e2 es pre x1 x2 post ps1 ps3 :
  c_atom c <> NonAtomic ->
  M c (TEval e1) pre x1 (x2 ++ post) ps1 ->
  M c (TSeq (e2 :: es)) (pre ++ x1) x2 post ps3 ->
  M c (TSeq (e1 :: e2 :: es)) pre (x1 ++ x2) post (ps1 ++ ps3).
Proof.
  intros Hc H1 H3. unfold M in *. rewrite <- !app_assoc in *.
  eapply OKs_cons; [exact H1| |exact H3]. apply SKo_atomic. exact Hc.
Qed.

Lemma Ma_first c e1 es pre x post ps : M c (TEval e1) pre x post ps -> M c (TAlt (e1 :: es)) pre x post ps.
Proof. apply OKa_first. Qed.
Lemma Ma_next c e1 es pre x post ps :
  F c (TEval e1) pre (x ++ post) -> M c (TAlt es) pre x post ps -> M c (TAlt (e1 :: es)) pre x post ps.
Proof. apply OKa_next. Qed.

Lemma M_ref c n rl pre x post kids : lookup g n = Some rl ->
  M (rule_ctx c rl) (TEval (r_body rl)) pre x post kids ->
  M c (TEval (ERef n None)) pre x post (wrap c rl (lenN pre) (lenN (pre ++ x)) kids).
Proof. intros L H. apply OK_ref; assumption. Qed.

(* failures *)
Lemma F_str c lit pre r : strip_prefix lit r = None -> F c (TEval (EStr lit)) pre r.
Proof. apply FL_str. Qed.
Lemma F_seq c es pre r : F c (TSeq es) pre r -> F c (TEval (ESeq es)) pre r.
Proof. apply FL_seq. Qed.
Lemma F_alt c es pre r : F c (TAlt es) pre r -> F c (TEval (EAlt es)) pre r.
Proof. apply FL_alt. Qed.
Lemma F_grp c e pre r : F c (TEval e) pre r -> F c (TEval (EGrp e None)) pre r.
Proof. apply FL_grp. Qed.
Lemma Fs_first c e1 es pre r : F c (TEval e1) pre r -> F c (TSeq (e1 :: es)) pre r.
Proof. destruct es; [apply FLs_one|apply FLs_first]. Qed.
Lemma Fs_later c e1 e2 es pre x1 w r ps1 :
  M c (TEval e1) pre x1 (w ++ r) ps1 -> MS c (pre ++ x1) w r ->
  F c (TSeq (e2 :: es)) (pre ++ x1 ++ w) r -> F c (TSeq (e1 :: e2 :: es)) pre (x1 ++ w ++ r).
Proof.
  unfold M, MS, F. intros H1 H2 H3. rewrite <- !app_assoc in *. eapply FLs_later; eassumption.
Qed.
Lemma Fs_later_a c e1 e2 es pre x1 r ps1 : c_atom c <> NonAtomic ->
  M c (TEval e1) pre x1 r ps1 ->
  F c (TSeq (e2 :: es)) (pre ++ x1) r -> F c (TSeq (e1 :: e2 :: es)) pre (x1 ++ r).
Proof.
  unfold M, F. intros Hc H1 H3. eapply FLs_later; [exact H1| |exact H3]. apply SKo_atomic. exact Hc.
Qed.
Lemma Fa_nil c pre r : F c (TAlt []) pre r.
Proof. apply FLa_nil. Qed.
Lemma Fa_cons c e1 es pre r : F c (TEval e1) pre r -> F c (TAlt es) pre r -> F c (TAlt (e1 :: es)) pre r.
Proof. apply FLa_cons. Qed.
Lemma F_ref c n rl pre r : lookup g n = Some rl ->
  F (rule_ctx c rl) (TEval (r_body rl)) pre r -> F c (TEval (ERef n None)) pre r.
Proof. apply FL_ref. Qed.
Lemma F_not c e pre x post ps : M (neg_ctx c) (TEval e) pre x post ps -> F c (TEval (ENot e)) pre (x ++ post).
Proof. unfold M, F. apply FL_not. Qed.
Lemma F_range c lo hi pre r :
  match r with [] => True | d :: _ => (N.leb lo d && N.leb d hi)%bool = false end ->
  F c (TEval (ERange lo hi)) pre r.
Proof. apply FL_range. Qed.
Lemma F_cistr c lit pre r : strip_prefix_ci lit r = None -> F c (TEval (ECIStr lit)) pre r.
Proof. apply FL_cistr. Qed.
Lemma F_repn c e n pre r : F c (TEval (ESeq (repeat e n))) pre r -> F c (TEval (ERepN e n)) pre r.
Proof. apply FL_repn. Qed.

Lemma MT_stop_a c e pre post : c_atom c <> NonAtomic -> F c (TEval e) pre post ->
  M c (TStar e) pre [] post [].
Proof.
  unfold M, F. intros Hc H. rewrite app_nil_r. cbn [app].
  eapply OKT_stop; [apply SKo_atomic; exact Hc|exact H].
Qed.

Lemma MT_go_a c e pre x1 x2 post ps1 ps2 : c_atom c <> NonAtomic ->
  M c (TEval e) pre x1 (x2 ++ post) ps1 -> M c (TStar e) (pre ++ x1) x2 post ps2 ->
  M c (TStar e) pre (x1 ++ x2) post (ps1 ++ ps2).
Proof.
  unfold M. intros Hc H1 H2. rewrite <- !app_assoc in *.
  eapply OKT_go; [apply SKo_atomic; exact Hc|exact H1|exact H2].
Qed.

End Located.

(* ==================================================================================== *)
(* Part 2. RFC 8259 documents                                                            *)
(* ==================================================================================== *)

Definition is_ws (c : N) : bool := (c =? 32) || (c =? 9) || (c =? 13) || (c =? 10).
Definition is_digit (c : N) : bool := (48 <=? c) && (c <=? 57).
Definition is_nzdigit (c : N) : bool := (49 <=? c) && (c <=? 57).
Definition is_hex (c : N) : bool :=
  is_digit c || ((97 <=? c) && (c <=? 102)) || ((65 <=? c) && (c <=? 70)).

(* insignificant whitespace: any sequence over space, tab, CR, LF *)
Definition ws (w : text) : Prop := forallb is_ws w = true.

Inductive jchar :=
| JPlain (c : N)                 (* any code point except the quote (34) and the backslash (92) *)
| JEsc (c : N)                   (* backslash + one of 34 92 47 98 102 110 114 116 (quote \ / b f n r t) *)
| JUni (h1 h2 h3 h4 : N).        (* backslash u + four hex digits 0-9 a-f A-F *)

Record jnum := {
  neg : bool;
  int_part : list N;                           (* 0, or a nonzero digit followed by digits *)
  frac : option (list N);                      (* non-empty digits *)
  expo : option (N * option N * list N)        (* e/E, optional sign +/-, non-empty digits *)
}.

Inductive jv :=
| JNull
| JBool (b : bool)
| JNum (n : jnum)
| JStr (s : list jchar)
| JArr (vs : list jv)
| JObj (ms : list (list jchar * jv)).

Definition wf_jchar (j : jchar) : bool :=
  match j with
  | JPlain c => negb (c =? 34) && negb (c =? 92)
  | JEsc c => memN c [34; 92; 47; 98; 102; 110; 114; 116]
  | JUni h1 h2 h3 h4 => is_hex h1 && is_hex h2 && is_hex h3 && is_hex h4
  end.

Definition nonempty {A} (l : list A) : bool := match l with [] => false | _ => true end.

Definition wf_int (l : list N) : bool :=
  match l with
  | [] => false
  | d :: ds => if d =? 48 then negb (nonempty ds) else is_nzdigit d && forallb is_digit ds
  end.

Definition wf_digits (ds : list N) : bool := nonempty ds && forallb is_digit ds.

Definition wf_jnum (n : jnum) : bool :=
  wf_int (int_part n) &&
  match frac n with Some ds => wf_digits ds | None => true end &&
  match expo n with
  | Some (e, sg, ds) =>
      ((e =? 101) || (e =? 69)) &&
      match sg with Some s => (s =? 43) || (s =? 45) | None => true end &&
      wf_digits ds
  | None => true
  end.

Fixpoint wf_jv (v : jv) : bool :=
  match v with
  | JNull | JBool _ => true
  | JNum n => wf_jnum n
  | JStr s => forallb wf_jchar s
  | JArr vs => forallb wf_jv vs
  | JObj ms => forallb (fun m => forallb wf_jchar (fst m) && wf_jv (snd m)) ms
  end.

(* ---- token texts (no freedom here) ---- *)
Definition jchar_text (j : jchar) : text :=
  match j with
  | JPlain c => [c]
  | JEsc c => [92; c]
  | JUni h1 h2 h3 h4 => [92; 117; h1; h2; h3; h4]
  end.

Fixpoint chars_text (s : list jchar) : text :=
  match s with [] => [] | j :: s' => jchar_text j ++ chars_text s' end.

Definition str_text (s : list jchar) : text := 34 :: chars_text s ++ [34].

Definition sign_text (n : jnum) : text := if neg n then [45] else [].
Definition frac_text (n : jnum) : text := match frac n with Some ds => 46 :: ds | None => [] end.
Definition expo_text (n : jnum) : text :=
  match expo n with
  | Some (e, sg, ds) => e :: match sg with Some s => [s] | None => [] end ++ ds
  | None => []
  end.
Definition num_text (n : jnum) : text := sign_text n ++ int_part n ++ frac_text n ++ expo_text n.

Definition null_text : text := [110; 117; 108; 108].
Definition bool_text (b : bool) : text := if b then [116; 114; 117; 101] else [102; 97; 108; 115; 101].

(* ---- renderings: whitespace is free around the six structural characters ---- *)
(*   array  = [ ws ]  |  [ ws value (ws , ws value)* ws ]
     object = { ws }  |  { ws member (ws , ws member)* ws }
     member = string ws : ws value
     doc    = ws value ws                                                                *)
Definition member_text (k : list jchar) (wa wb x : text) : text := str_text k ++ wa ++ [58] ++ wb ++ x.

Inductive renders : jv -> text -> Prop :=
| R_null : renders JNull null_text
| R_bool b : renders (JBool b) (bool_text b)
| R_num n : renders (JNum n) (num_text n)
| R_str s : renders (JStr s) (str_text s)
| R_arr0 w : ws w -> renders (JArr []) (91 :: w ++ [93])
| R_arr v vs w1 x tl wl :
    ws w1 -> renders v x -> renders_tail vs tl -> ws wl ->
    renders (JArr (v :: vs)) (91 :: w1 ++ x ++ tl ++ wl ++ [93])
| R_obj0 w : ws w -> renders (JObj []) (123 :: w ++ [125])
| R_obj k v ms w1 wa wb x tl wl :
    ws w1 -> ws wa -> ws wb -> renders v x -> renders_mtail ms tl -> ws wl ->
    renders (JObj ((k, v) :: ms)) (123 :: w1 ++ member_text k wa wb x ++ tl ++ wl ++ [125])
(* (ws , ws value)* *)
with renders_tail : list jv -> text -> Prop :=
| RT_nil : renders_tail [] []
| RT_cons v vs w2 w1 x tl :
    ws w2 -> ws w1 -> renders v x -> renders_tail vs tl ->
    renders_tail (v :: vs) (w2 ++ [44] ++ w1 ++ x ++ tl)
(* (ws , ws member)* *)
with renders_mtail : list (list jchar * jv) -> text -> Prop :=
| RM_nil : renders_mtail [] []
| RM_cons k v ms w2 w1 wa wb x tl :
    ws w2 -> ws w1 -> ws wa -> ws wb -> renders v x -> renders_mtail ms tl ->
    renders_mtail ((k, v) :: ms) (w2 ++ [44] ++ w1 ++ member_text k wa wb x ++ tl).

Scheme renders_mut := Induction for renders Sort Prop
  with renders_tail_mut := Induction for renders_tail Sort Prop
  with renders_mtail_mut := Induction for renders_mtail Sort Prop.

Inductive renders_doc : jv -> text -> Prop :=
| R_doc v w1 x w2 : ws w1 -> renders v x -> ws w2 -> renders_doc v (w1 ++ x ++ w2).

Definition top_level (v : jv) : Prop :=
  match v with JArr _ | JObj _ => True | _ => False end.

(* ==================================================================================== *)
(* Part 3. The expected shape of the parse tree                                          *)
(* ==================================================================================== *)

Inductive sk := SK (name : N) (slice : text) (kids : list sk).

(* rule name, input[start:end], skeletons of the children *)
Fixpoint skel (input : text) (p : pair) : sk :=
  match p with
  | Pair n s e kids _ => SK n (slice input s e) (map (skel input) kids)
  end.

(* string (15) containing inner (14); inner is atomic and has no children *)
Definition str_sk (s : list jchar) : sk := SK 15 (str_text s) [SK 14 (chars_text s) []].

(* `msk v k`: k is the tree of v.  Same nesting and member order; every node's slice is a
   rendering of the corresponding value, and number / string / literal tokens are exactly
   their source text. value (18) and json (4) are silent and contribute no node. *)
Inductive msk : jv -> sk -> Prop :=
| K_null : msk JNull (SK 16 null_text [])
| K_bool b : msk (JBool b) (SK 17 (bool_text b) [])
| K_num n : msk (JNum n) (SK 8 (num_text n) [])
| K_str s : msk (JStr s) (str_sk s)
| K_arr vs sl kids :
    renders (JArr vs) sl -> Forall2 msk vs kids -> msk (JArr vs) (SK 7 sl kids)
| K_obj ms sl kids :
    renders (JObj ms) sl -> Forall2 mmsk ms kids -> msk (JObj ms) (SK 6 sl kids)
(* pair (19) = string, value *)
with mmsk : list jchar * jv -> sk -> Prop :=
| K_member k v wa wb x kv :
    ws wa -> ws wb -> renders v x -> msk v kv ->
    mmsk (k, v) (SK 19 (member_text k wa wb x) [str_sk k; kv]).

(* the result of parsing `text` mirrors document v: the tree of v followed by EOI (3) *)
Definition mirrors (input : text) (v : jv) (tree : list pair) : Prop :=
  exists top, map (skel input) tree = [top; SK 3 [] []] /\ msk v top.

(* ==================================================================================== *)
(* Part 4. The rules of json.pest                                                        *)
(* ==================================================================================== *)

Notation G := json_grammar.

Definition e_digit := ERef 10 None.
Definition e_int := EGrp (EAlt [EStr [48]; ESeq [ERef 9 None; EStar e_digit]]) None.
Definition e_frac := EOpt (EGrp (ESeq [EStr [46]; EStar e_digit]) None).
Definition e_sign := EOpt (EGrp (EAlt [EStr [43]; EStr [45]]) None).
Definition e_exp := EOpt (EGrp (ESeq [ECIStr [101]; e_sign; EPlus e_digit]) None).
Definition number_body := ESeq [EOpt (EStr [45]); e_int; e_frac; e_exp].

Definition e_notq := ENot (EGrp (EAlt [EStr [34]; EStr [92]]) None).
Definition e_escs := EGrp (EAlt [EStr [34]; EStr [92]; EStr [47]; EStr [98]; EStr [102]; EStr [110]; EStr [114]; EStr [116]]) None.
Definition e_uni := EGrp (ESeq [EStr [117]; ERepN (ERef 13 None) 4]) None.
Definition char_body :=
  EAlt [ESeq [e_notq; ERef 12 None]; ESeq [EStr [92]; e_escs]; ESeq [EStr [92]; e_uni]].
Definition hex_body := EAlt [ERange 48 57; ERange 97 102; ERange 65 70].
Definition inner_body := EStar (ERef 11 None).
Definition string_body := ESeq [EStr [34]; ERef 14 None; EStr [34]].
Definition boolean_body := EAlt [EStr [116; 114; 117; 101]; EStr [102; 97; 108; 115; 101]].
Definition value_body :=
  EAlt [ERef 6 None; ERef 7 None; ERef 15 None; ERef 8 None; ERef 17 None; ERef 16 None].
Definition e_more (n : N) := EGrp (ESeq [EStr [44]; ERef n None]) None.
Definition array_body :=
  EAlt [ESeq [EStr [91]; EStr [93]]; ESeq [EStr [91]; ERef 18 None; EStar (e_more 18); EStr [93]]].
Definition object_body :=
  EAlt [ESeq [EStr [123]; EStr [125]]; ESeq [EStr [123]; ERef 19 None; EStar (e_more 19); EStr [125]]].
Definition pair_body := ESeq [ERef 15 None; EStr [58]; ERef 18 None].
Definition json_body := ESeq [ERef 5 None; EGrp (EAlt [ERef 6 None; ERef 7 None]) None; ERef 3 None].
Definition ws_body := EAlt [EStr [32]; EStr [9]; EStr [13]; EStr [10]].

Definition mkrule n s k b := {| r_name := n; r_silent := s; r_kind := k; r_body := b |}.

Lemma lk_ws : lookup G 0 = Some (mkrule 0 true KNormal ws_body). Proof. reflexivity. Qed.
Lemma lk_eoi : lookup G 3 = Some (mkrule 3 false KNormal EEoi). Proof. reflexivity. Qed.
Lemma lk_json : lookup G 4 = Some (mkrule 4 true KNormal json_body). Proof. reflexivity. Qed.
Lemma lk_soi : lookup G 5 = Some (mkrule 5 true KNormal ESoi). Proof. reflexivity. Qed.
Lemma lk_object : lookup G 6 = Some (mkrule 6 false KNormal object_body). Proof. reflexivity. Qed.
Lemma lk_array : lookup G 7 = Some (mkrule 7 false KNormal array_body). Proof. reflexivity. Qed.
Lemma lk_number : lookup G 8 = Some (mkrule 8 false KAtomic number_body). Proof. reflexivity. Qed.
Lemma lk_nzdigit : lookup G 9 = Some (mkrule 9 true KNormal (ERange 49 57)). Proof. reflexivity. Qed.
Lemma lk_digit : lookup G 10 = Some (mkrule 10 true KNormal (ERange 48 57)). Proof. reflexivity. Qed.
Lemma lk_char : lookup G 11 = Some (mkrule 11 false KNormal char_body). Proof. reflexivity. Qed.
Lemma lk_any : lookup G 12 = Some (mkrule 12 true KNormal EAny). Proof. reflexivity. Qed.
Lemma lk_hex : lookup G 13 = Some (mkrule 13 true KNormal hex_body). Proof. reflexivity. Qed.
Lemma lk_inner : lookup G 14 = Some (mkrule 14 false KAtomic inner_body). Proof. reflexivity. Qed.
Lemma lk_string : lookup G 15 = Some (mkrule 15 false KCompound string_body). Proof. reflexivity. Qed.
Lemma lk_null : lookup G 16 = Some (mkrule 16 false KNormal (EStr null_text)). Proof. reflexivity. Qed.
Lemma lk_boolean : lookup G 17 = Some (mkrule 17 false KNormal boolean_body). Proof. reflexivity. Qed.
Lemma lk_value : lookup G 18 = Some (mkrule 18 true KNormal value_body). Proof. reflexivity. Qed.
Lemma lk_pair : lookup G 19 = Some (mkrule 19 false KNormal pair_body). Proof. reflexivity. Qed.
Lemma json_skip : skip_expr G = Some (EStar (ERef 0 None)). Proof. reflexivity. Qed.

(* ------------------------------------------------------------------------------------ *)
(* 4a. numbers                                                                           *)
(* ------------------------------------------------------------------------------------ *)

(* conditions on the first character of what follows a token *)
Definition hdP (P : N -> bool) (r : text) : bool := match r with [] => true | d :: _ => P d end.
Definition nf0 (d : N) : bool := negb (is_digit d).
Definition nf1 (d : N) : bool := negb (is_digit d) && negb (d =? 46).
Definition nf2 (d : N) : bool :=
  negb (is_digit d) && negb (d =? 46) && negb (d =? 101) && negb (d =? 69).

Lemma ascii_lower_e d : (ascii_lower 101 =? ascii_lower d) = ((d =? 101) || (d =? 69)).
Proof.
  change (ascii_lower 101) with 101. unfold ascii_lower.
  destruct (N.leb_spec 65 d); destruct (N.leb_spec d 90); cbn [andb];
    destruct (N.eqb_spec d 101); destruct (N.eqb_spec d 69); cbn [orb];
    try (apply N.eqb_eq; lia); try (apply N.eqb_neq; lia).
Qed.

Lemma digit_props d : is_digit d = true ->
  (45 =? d) = false /\ (46 =? d) = false /\ (48 <= d <= 57).
Proof.
  unfold is_digit. intros H. apply andb_prop in H. destruct H as [A B].
  apply N.leb_le in A. apply N.leb_le in B.
  repeat split; try (apply N.eqb_neq; lia); lia.
Qed.

Section Lex.
Variable c : ctx.
Hypothesis Hc : c_atom c = Atomic.

Lemma Hna : c_atom c <> NonAtomic.
Proof. rewrite Hc. discriminate. Qed.

Lemma M_digit pre d post : is_digit d = true -> M G c (TEval e_digit) pre [d] post [].
Proof.
  intros H. eapply M_ps; cycle 1.
  - eapply M_ref; [exact lk_digit|]. apply M_range. exact H.
  - reflexivity.
Qed.

Lemma F_digit pre r : hdP nf0 r = true -> F G c (TEval e_digit) pre r.
Proof.
  intros H. eapply F_ref; [exact lk_digit|]. apply F_range.
  destruct r as [|d r]; [exact I|]. cbn [hdP] in H. apply negb_true_iff in H. exact H.
Qed.

Lemma MT_digits : forall ds pre post, forallb is_digit ds = true -> hdP nf0 post = true ->
  M G c (TStar e_digit) pre ds post [].
Proof.
  induction ds as [|d ds IH]; intros pre post H Hp.
  - apply MT_stop_a; [exact Hna|apply F_digit; exact Hp].
  - cbn [forallb] in H. apply andb_prop in H. destruct H as [H1 H2].
    eapply M_ps; cycle 1.
    + apply (MT_go_a G c e_digit pre [d] ds post); [exact Hna|apply M_digit; exact H1|].
      apply IH; assumption.
    + reflexivity.
Qed.

Lemma M_digits ds pre post : forallb is_digit ds = true -> hdP nf0 post = true ->
  M G c (TEval (EStar e_digit)) pre ds post [].
Proof.
  intros H Hp. destruct ds as [|d ds].
  - apply M_star_stop. apply F_digit. exact Hp.
  - cbn [forallb] in H. apply andb_prop in H. destruct H as [H1 H2].
    eapply M_ps; cycle 1.
    + apply (M_star_go G c e_digit pre [d] ds post); [apply M_digit; exact H1|].
      apply MT_digits; assumption.
    + reflexivity.
Qed.

Lemma M_digits1 ds pre post : wf_digits ds = true -> hdP nf0 post = true ->
  M G c (TEval (EPlus e_digit)) pre ds post [].
Proof.
  unfold wf_digits. intros H Hp. destruct ds as [|d ds]; [discriminate|].
  cbn [nonempty andb forallb] in H. apply andb_prop in H. destruct H as [H1 H2].
  apply M_plus. apply M_seq. eapply M_ps; cycle 1.
  - apply (Ms_cons_a G c e_digit (EStar e_digit) [] pre [d] ds post); [exact Hna|apply M_digit; exact H1|].
    apply Ms_one. apply M_digits; assumption.
  - reflexivity.
Qed.

Lemma M_int i pre post : wf_int i = true -> hdP nf0 post = true ->
  M G c (TEval e_int) pre i post [].
Proof.
  intros H Hp. destruct i as [|d ds]; [discriminate|]. cbn [wf_int] in H.
  apply M_grp. apply M_alt. destruct (N.eqb_spec d 48) as [->|Hd].
  - destruct ds; [|discriminate]. apply Ma_first. apply M_str.
  - apply andb_prop in H. destruct H as [H1 H2]. apply Ma_next.
    + apply F_str. cbn [strip_prefix app]. destruct (N.eqb_spec 48 d); [congruence|reflexivity].
    + apply Ma_first. apply M_seq. eapply M_ps; cycle 1.
      * apply (Ms_cons_a G c (ERef 9 None) (EStar e_digit) [] pre [d] ds post); [exact Hna| |].
        -- eapply M_ps; cycle 1.
           ++ eapply M_ref; [exact lk_nzdigit|]. apply M_range. exact H1.
           ++ reflexivity.
        -- apply Ms_one. apply M_digits; assumption.
      * reflexivity.
Qed.

Lemma M_frac n pre post :
  match frac n with Some ds => wf_digits ds = true | None => True end -> hdP nf1 post = true ->
  M G c (TEval e_frac) pre (frac_text n) post [].
Proof.
  intros H Hp. unfold frac_text, e_frac.
  assert (Hp0 : hdP nf0 post = true).
  { destruct post; [reflexivity|]. cbn [hdP] in *. apply andb_prop in Hp. apply Hp. }
  destruct (frac n) as [ds|].
  - apply M_opt_some. apply M_grp. apply M_seq. eapply M_ps; cycle 1.
    + apply (Ms_cons_a G c (EStr [46]) (EStar e_digit) [] pre [46] ds post); [exact Hna|apply M_str|].
      apply Ms_one. apply M_digits; [|exact Hp0].
      unfold wf_digits in H. apply andb_prop in H. apply H.
    + reflexivity.
  - apply M_opt_none. apply F_grp. apply F_seq. apply Fs_first. apply F_str.
    destruct post as [|d post]; [reflexivity|]. cbn [hdP] in Hp. unfold nf1 in Hp.
    apply andb_prop in Hp. destruct Hp as [_ Hp]. apply negb_true_iff in Hp.
    cbn [strip_prefix]. rewrite N.eqb_sym, Hp. reflexivity.
Qed.

Lemma M_exp n pre post :
  match expo n with
  | Some (e, sg, ds) =>
      ((e =? 101) || (e =? 69)) &&
      match sg with Some s => (s =? 43) || (s =? 45) | None => true end &&
      wf_digits ds = true
  | None => True
  end -> hdP nf2 post = true ->
  M G c (TEval e_exp) pre (expo_text n) post [].
Proof.
  intros H Hp. unfold expo_text, e_exp.
  assert (Hp0 : hdP nf0 post = true).
  { destruct post; [reflexivity|]. cbn [hdP] in *. unfold nf2 in Hp.
    apply andb_prop in Hp. destruct Hp as [Hp _]. apply andb_prop in Hp. destruct Hp as [Hp _].
    apply andb_prop in Hp. apply Hp. }
  destruct (expo n) as [[[e sg] ds]|].
  - apply andb_prop in H. destruct H as [H H3]. apply andb_prop in H. destruct H as [H1 H2].
    assert (Hd : exists d ds', ds = d :: ds' /\ is_digit d = true).
    { unfold wf_digits in H3. destruct ds as [|d ds']; [discriminate|]. exists d, ds'.
      split; [reflexivity|]. cbn in H3. apply andb_prop in H3. apply H3. }
    destruct Hd as [d0 [ds' [Eds Hd0]]].
    apply M_opt_some. apply M_grp. apply M_seq. eapply M_ps; cycle 1.
    + apply (Ms_cons_a G c (ECIStr [101]) e_sign [EPlus e_digit] pre [e]
               (match sg with Some s => [s] | None => [] end ++ ds) post);
        [exact Hna|apply M_cistr1; rewrite ascii_lower_e; exact H1|].
      apply (Ms_cons_a G c e_sign (EPlus e_digit) [] (pre ++ [e])
               (match sg with Some s => [s] | None => [] end) ds post); [exact Hna| |].
      * unfold e_sign. destruct sg as [s|].
        -- apply M_opt_some. apply M_grp. apply M_alt.
           destruct (N.eqb_spec s 43) as [->|Hs].
           ++ apply Ma_first. apply M_str.
           ++ cbn [orb] in H2. apply N.eqb_eq in H2. subst s. apply Ma_next.
              ** apply F_str. reflexivity.
              ** apply Ma_first. apply M_str.
        -- apply M_opt_none. apply F_grp. apply F_alt. subst ds.
           destruct (digit_props d0 Hd0) as [A [B [C D]]].
           apply Fa_cons; [|apply Fa_cons; [|apply Fa_nil]]; apply F_str; cbn [strip_prefix app].
           ++ destruct (N.eqb_spec 43 d0); [lia|reflexivity].
           ++ rewrite A. reflexivity.
      * apply Ms_one. apply M_digits1; assumption.
    + reflexivity.
  - apply M_opt_none. apply F_grp. apply F_seq. apply Fs_first. apply F_cistr.
    destruct post as [|d post]; [reflexivity|]. cbn [hdP] in Hp. unfold nf2 in Hp.
    apply andb_prop in Hp. destruct Hp as [Hp H69]. apply andb_prop in Hp. destruct Hp as [_ H101].
    apply negb_true_iff in H69. apply negb_true_iff in H101.
    cbn [strip_prefix_ci]. rewrite ascii_lower_e, H69, H101. reflexivity.
Qed.

Lemma hd_expo n post :
  match expo n with Some (e, _, _) => (e =? 101) || (e =? 69) = true | None => True end ->
  hdP nf2 post = true -> hdP nf1 (expo_text n ++ post) = true.
Proof.
  intros H Hp. unfold expo_text. destruct (expo n) as [[[e sg] ds]|].
  - cbn [app hdP]. apply orb_prop in H. destruct H as [H|H]; apply N.eqb_eq in H; subst e; reflexivity.
  - cbn [app]. destruct post as [|d post]; [reflexivity|]. cbn [hdP] in *. unfold nf2 in Hp. unfold nf1.
    apply andb_prop in Hp. destruct Hp as [Hp _]. apply andb_prop in Hp. apply Hp.
Qed.

Lemma hd_frac n post : hdP nf1 post = true -> hdP nf0 (frac_text n ++ post) = true.
Proof.
  intros Hp. unfold frac_text. destruct (frac n).
  - reflexivity.
  - cbn [app]. destruct post as [|d post]; [reflexivity|]. cbn [hdP] in *. unfold nf1 in Hp.
    apply andb_prop in Hp. apply Hp.
Qed.

Lemma wf_int_head i : wf_int i = true -> exists d ds, i = d :: ds /\ is_digit d = true.
Proof.
  destruct i as [|d ds]; [discriminate|]. intros H. exists d, ds. split; [reflexivity|].
  cbn [wf_int] in H. destruct (N.eqb_spec d 48) as [->|_]; [reflexivity|].
  apply andb_prop in H. destruct H as [H _]. unfold is_nzdigit in H. unfold is_digit.
  apply andb_prop in H. destruct H as [A B]. rewrite B. apply N.leb_le in A.
  rewrite andb_true_r. apply N.leb_le. lia.
Qed.

Lemma M_number_body n pre post : wf_jnum n = true -> hdP nf2 post = true ->
  M G c (TEval number_body) pre (num_text n) post [].
Proof.
  unfold wf_jnum. intros H Hp.
  apply andb_prop in H. destruct H as [H He]. apply andb_prop in H. destruct H as [Hi Hf].
  assert (He' : match expo n with
                | Some (e, sg, ds) =>
                    ((e =? 101) || (e =? 69)) &&
                    match sg with Some s => (s =? 43) || (s =? 45) | None => true end &&
                    wf_digits ds = true
                | None => True end).
  { destruct (expo n) as [[[e sg] ds]|]; [exact He|exact I]. }
  assert (Hf' : match frac n with Some ds => wf_digits ds = true | None => True end).
  { destruct (frac n); [exact Hf|exact I]. }
  assert (H1 : hdP nf1 (expo_text n ++ post) = true).
  { apply hd_expo; [|exact Hp]. destruct (expo n) as [[[e sg] ds]|]; [|exact I].
    apply andb_prop in He'. destruct He' as [He' _]. apply andb_prop in He'. apply He'. }
  assert (H0 : hdP nf0 (frac_text n ++ expo_text n ++ post) = true) by (apply hd_frac; exact H1).
  unfold number_body, num_text. apply M_seq. eapply M_ps; cycle 1.
  - apply (Ms_cons_a G c (EOpt (EStr [45])) e_int [e_frac; e_exp] pre (sign_text n)
             (int_part n ++ frac_text n ++ expo_text n) post); [exact Hna| |].
    + unfold sign_text. destruct (neg n).
      * apply M_opt_some. apply M_str.
      * apply M_opt_none. apply F_str. destruct (wf_int_head _ Hi) as [d [ds [-> Hd]]].
        cbn [app strip_prefix]. destruct (digit_props d Hd) as [A _]. rewrite A. reflexivity.
    + apply (Ms_cons_a G c e_int e_frac [e_exp] (pre ++ sign_text n) (int_part n)
               (frac_text n ++ expo_text n) post); [exact Hna| |].
      * rewrite <- app_assoc. apply M_int; assumption.
      * apply (Ms_cons_a G c e_frac e_exp [] ((pre ++ sign_text n) ++ int_part n) (frac_text n)
                 (expo_text n) post); [exact Hna| |].
        -- apply M_frac; assumption.
        -- apply Ms_one. apply M_exp; assumption.
  - reflexivity.
Qed.

End Lex.

(* ------------------------------------------------------------------------------------ *)
(* 4b. strings                                                                           *)
(* ------------------------------------------------------------------------------------ *)

Lemma rule_ctx_atom_normal c n s b : negb (is_trivia_name n) = true ->
  c_atom (rule_ctx c (mkrule n s KNormal b)) = c_atom c.
Proof.
  intros H. apply negb_true_iff in H. unfold rule_ctx, body_atom, mkrule. cbn [c_atom r_kind r_name].
  rewrite H. reflexivity.
Qed.

Section LexS.
Variable c : ctx.
Hypothesis Hc : c_atom c = Atomic.

Let Hna := Hna c Hc.

Lemma M_hex pre h post : is_hex h = true -> M G c (TEval (ERef 13 None)) pre [h] post [].
Proof.
  intros H. eapply M_ps; cycle 1.
  - eapply M_ref; [exact lk_hex|]. cbn [r_body mkrule]. unfold hex_body. apply M_alt.
    unfold is_hex, is_digit in H.
    destruct ((48 <=? h) && (h <=? 57))%bool eqn:E1.
    + apply Ma_first. apply M_range. exact E1.
    + apply Ma_next; [apply F_range; exact E1|].
      destruct ((97 <=? h) && (h <=? 102))%bool eqn:E2.
      * apply Ma_first. apply M_range. exact E2.
      * apply Ma_next; [apply F_range; exact E2|].
        apply Ma_first. apply M_range. exact H.
  - reflexivity.
Qed.

(* the quote and the backslash are the two characters the negative predicate rejects *)
Lemma F_notq_ok c' pre d post : (d =? 34) = false -> (d =? 92) = false ->
  M G c' (TEval e_notq) pre [] (d :: post) [].
Proof.
  intros H1 H2. apply M_not. apply F_grp. apply F_alt.
  apply Fa_cons; [|apply Fa_cons; [|apply Fa_nil]]; apply F_str; cbn [strip_prefix];
    rewrite N.eqb_sym; [rewrite H1|rewrite H2]; reflexivity.
Qed.

Lemma F_notq_fail c' pre d post : (d =? 34) || (d =? 92) = true ->
  F G c' (TEval e_notq) pre (d :: post).
Proof.
  intros H. destruct (N.eqb_spec d 34) as [->|H1].
  - apply (F_not G c' _ pre [34] post []). apply M_grp. apply M_alt. apply Ma_first. apply M_str.
  - cbn [orb] in H. apply N.eqb_eq in H. subst d.
    apply (F_not G c' _ pre [92] post []). apply M_grp. apply M_alt.
    apply Ma_next; [apply F_str; reflexivity|]. apply Ma_first. apply M_str.
Qed.

Lemma M_char_body pre j post : wf_jchar j = true ->
  M G c (TEval char_body) pre (jchar_text j) post [].
Proof.
  intros H. unfold char_body. apply M_alt. destruct j as [ch|ch|h1 h2 h3 h4]; cbn [jchar_text wf_jchar] in *.
  - (* plain *)
    apply andb_prop in H. destruct H as [H1 H2].
    apply negb_true_iff in H1. apply negb_true_iff in H2.
    apply Ma_first. apply M_seq. eapply M_ps; cycle 1.
    + apply (Ms_cons_a G c e_notq (ERef 12 None) [] pre [] [ch] post);
        [exact Hna|apply F_notq_ok; assumption|].
      rewrite app_nil_r. apply Ms_one. eapply M_ps; cycle 1.
      * eapply M_ref; [exact lk_any|]. apply M_any.
      * reflexivity.
    + reflexivity.
  - (* escape *)
    apply Ma_next.
    { apply F_seq. apply Fs_first. apply F_notq_fail. reflexivity. }
    apply Ma_first. apply M_seq. eapply M_ps; cycle 1.
    + apply (Ms_cons_a G c (EStr [92]) e_escs [] pre [92] [ch] post); [exact Hna|apply M_str|].
      apply Ms_one. unfold e_escs. apply M_grp. apply M_alt.
      cbn [memN] in H.
      repeat match type of H with
      | (?a =? ?b) || _ = true =>
          destruct (N.eqb_spec a b) as [->|_];
          [ repeat first [ apply Ma_first; apply M_str | apply Ma_next; [apply F_str; reflexivity|] ]
          | cbn [orb] in H ]
      end.
      discriminate.
    + reflexivity.
  - (* \u *)
    apply andb_prop in H. destruct H as [H H4]. apply andb_prop in H. destruct H as [H H3].
    apply andb_prop in H. destruct H as [H1 H2].
    apply Ma_next.
    { apply F_seq. apply Fs_first. apply F_notq_fail. reflexivity. }
    apply Ma_next.
    { apply F_seq. apply (Fs_later_a G c (EStr [92]) e_escs [] pre [92] _ []); [exact Hna|apply M_str|].
      apply Fs_first. unfold e_escs. apply F_grp. apply F_alt.
      repeat (apply Fa_cons; [apply F_str; reflexivity|]). apply Fa_nil. }
    apply Ma_first. apply M_seq. eapply M_ps; cycle 1.
    + apply (Ms_cons_a G c (EStr [92]) e_uni [] pre [92] [117; h1; h2; h3; h4] post);
        [exact Hna|apply M_str|].
      apply Ms_one. unfold e_uni. apply M_grp. apply M_seq.
      apply (Ms_cons_a G c (EStr [117]) (ERepN (ERef 13 None) 4) [] (pre ++ [92]) [117] [h1; h2; h3; h4] post);
        [exact Hna|apply M_str|].
      apply Ms_one. apply M_repn. cbn [repeat]. apply M_seq.
      apply (Ms_cons_a G c (ERef 13 None) (ERef 13 None) _ _ [h1] [h2; h3; h4] post);
        [exact Hna|apply M_hex; exact H1|].
      apply (Ms_cons_a G c (ERef 13 None) (ERef 13 None) _ _ [h2] [h3; h4] post);
        [exact Hna|apply M_hex; exact H2|].
      apply (Ms_cons_a G c (ERef 13 None) (ERef 13 None) _ _ [h3] [h4] post);
        [exact Hna|apply M_hex; exact H3|].
      apply Ms_one. apply M_hex. exact H4.
    + reflexivity.
Qed.

End LexS.

Lemma wrap_hidden c n b p p' kids : c_atom c = Atomic ->
  wrap c (mkrule n false KNormal b) p p' kids = kids.
Proof. intros Hc. unfold wrap, visible, mkrule. cbn [r_silent r_kind negb andb]. rewrite Hc. reflexivity. Qed.

Section LexS2.
Variable c : ctx.
Hypothesis Hc : c_atom c = Atomic.
Let Hna := Hna c Hc.

Lemma Hc_char : c_atom (rule_ctx c (mkrule 11 false KNormal char_body)) = Atomic.
Proof. rewrite rule_ctx_atom_normal; [exact Hc|reflexivity]. Qed.

Lemma M_char pre j post : wf_jchar j = true ->
  M G c (TEval (ERef 11 None)) pre (jchar_text j) post [].
Proof.
  intros H. eapply M_ps; cycle 1.
  - eapply M_ref; [exact lk_char|]. apply M_char_body; [exact Hc_char|exact H].
  - apply wrap_hidden. exact Hc.
Qed.

(* no `char` starts with the quote *)
Lemma F_char_quote pre r : F G c (TEval (ERef 11 None)) pre (34 :: r).
Proof.
  eapply F_ref; [exact lk_char|]. cbn [r_body mkrule]. unfold char_body. apply F_alt.
  apply Fa_cons; [|apply Fa_cons; [|apply Fa_cons; [|apply Fa_nil]]]; apply F_seq; apply Fs_first.
  - apply F_notq_fail. reflexivity.
  - apply F_str. reflexivity.
  - apply F_str. reflexivity.
Qed.

Lemma MT_chars : forall s pre post, forallb wf_jchar s = true ->
  M G c (TStar (ERef 11 None)) pre (chars_text s) (34 :: post) [].
Proof.
  induction s as [|j s IH]; intros pre post H; cbn [chars_text].
  - apply MT_stop_a; [exact Hna|apply F_char_quote].
  - cbn [forallb] in H. apply andb_prop in H. destruct H as [H1 H2].
    eapply M_ps; cycle 1.
    + apply MT_go_a; [exact Hna|apply M_char; exact H1|apply IH; exact H2].
    + reflexivity.
Qed.

Lemma M_inner_body s pre post : forallb wf_jchar s = true ->
  M G c (TEval inner_body) pre (chars_text s) (34 :: post) [].
Proof.
  intros H. unfold inner_body. destruct s as [|j s]; cbn [chars_text].
  - apply M_star_stop. apply F_char_quote.
  - cbn [forallb] in H. apply andb_prop in H. destruct H as [H1 H2].
    eapply M_ps; cycle 1.
    + apply M_star_go; [apply M_char; exact H1|apply MT_chars; exact H2].
    + reflexivity.
Qed.

End LexS2.

(* `string` called where pairs are visible *)
Lemma M_string c s pre post : c_atom c <> Atomic -> forallb wf_jchar s = true ->
  M G c (TEval (ERef 15 None)) pre (str_text s) post
    [Pair 15 (lenN pre) (lenN (pre ++ str_text s))
       [Pair 14 (lenN (pre ++ [34])) (lenN ((pre ++ [34]) ++ chars_text s)) [] None] None].
Proof.
  intros Hc H. eapply M_ps; cycle 1.
  - eapply M_ref; [exact lk_string|]. cbn [r_body mkrule]. unfold string_body, str_text.
    set (c1 := rule_ctx c _).
    assert (H1 : c_atom c1 <> NonAtomic) by (cbn; discriminate).
    apply M_seq.
    apply (Ms_cons_a G c1 (EStr [34]) (ERef 14 None) [EStr [34]] pre [34] (chars_text s ++ [34]) post);
      [exact H1|apply M_str|].
    apply (Ms_cons_a G c1 (ERef 14 None) (EStr [34]) [] (pre ++ [34]) (chars_text s) [34] post);
      [exact H1| |apply Ms_one; apply M_str].
    eapply M_ref; [exact lk_inner|]. apply M_inner_body; [reflexivity|exact H].
  - unfold wrap, visible, mkrule. cbn. reflexivity.
Qed.

Lemma F_string c pre d r : (d =? 34) = false -> F G c (TEval (ERef 15 None)) pre (d :: r).
Proof.
  intros H. eapply F_ref; [exact lk_string|]. apply F_seq. apply Fs_first. apply F_str.
  cbn [strip_prefix]. rewrite N.eqb_sym, H. reflexivity.
Qed.

(* ------------------------------------------------------------------------------------ *)
(* 4c. implicit whitespace                                                               *)
(* ------------------------------------------------------------------------------------ *)

Definition nows (d : N) : bool := negb (is_ws d).

Lemma is_ws_cases d : is_ws d = true -> d = 32 \/ d = 9 \/ d = 13 \/ d = 10.
Proof.
  unfold is_ws. intros H.
  destruct (N.eqb_spec d 32); [tauto|]. destruct (N.eqb_spec d 9); [tauto|].
  destruct (N.eqb_spec d 13); [tauto|]. destruct (N.eqb_spec d 10); [tauto|]. discriminate.
Qed.

Section WS.
Variable c : ctx.
Hypothesis Hc : c_atom c <> NonAtomic.

Lemma M_ws1 pre d post : is_ws d = true -> M G c (TEval (ERef 0 None)) pre [d] post [].
Proof.
  intros H. eapply M_ps; cycle 1.
  - eapply M_ref; [exact lk_ws|]. cbn [r_body mkrule]. unfold ws_body. apply M_alt.
    destruct (is_ws_cases d H) as [-> | [-> | [-> | ->]]];
      repeat first [ apply Ma_first; apply M_str | apply Ma_next; [apply F_str; reflexivity|] ].
  - reflexivity.
Qed.

Lemma F_ws1 pre r : hdP nows r = true -> F G c (TEval (ERef 0 None)) pre r.
Proof.
  intros H. eapply F_ref; [exact lk_ws|]. cbn [r_body mkrule]. unfold ws_body. apply F_alt.
  assert (K : forall a, is_ws a = true -> strip_prefix [a] r = None).
  { intros a Ha. destruct r as [|d r]; [reflexivity|]. cbn [strip_prefix hdP] in *.
    destruct (N.eqb_spec a d) as [->|_]; [|reflexivity].
    unfold nows in H. rewrite Ha in H. discriminate. }
  repeat (apply Fa_cons; [apply F_str; apply K; reflexivity|]). apply Fa_nil.
Qed.

Lemma MT_ws : forall w pre post, ws w -> hdP nows post = true ->
  M G c (TStar (ERef 0 None)) pre w post [].
Proof.
  induction w as [|d w IH]; intros pre post H Hp.
  - apply MT_stop_a; [exact Hc|apply F_ws1; exact Hp].
  - unfold ws in H. cbn [forallb] in H. apply andb_prop in H. destruct H as [H1 H2].
    eapply M_ps; cycle 1.
    + apply (MT_go_a G c (ERef 0 None) pre [d] w post); [exact Hc|apply M_ws1; exact H1|].
      apply IH; assumption.
    + reflexivity.
Qed.

Lemma M_wsstar w pre post : ws w -> hdP nows post = true ->
  M G c (TEval (EStar (ERef 0 None))) pre w post [].
Proof.
  intros H Hp. destruct w as [|d w].
  - apply M_star_stop. apply F_ws1. exact Hp.
  - unfold ws in H. cbn [forallb] in H. apply andb_prop in H. destruct H as [H1 H2].
    eapply M_ps; cycle 1.
    + apply (M_star_go G c (ERef 0 None) pre [d] w post); [apply M_ws1; exact H1|].
      apply MT_ws; assumption.
    + reflexivity.
Qed.

End WS.

(* in a non-atomic context, skip consumes exactly a maximal run of whitespace *)
Lemma MS_ws c pre w post : c_atom c = NonAtomic -> ws w -> hdP nows post = true ->
  MS G c pre w post.
Proof.
  intros Hc Hw Hp. unfold MS. eapply SKo_expr; [exact Hc|exact json_skip|].
  apply M_wsstar; [cbn; discriminate|exact Hw|exact Hp].
Qed.

(* ------------------------------------------------------------------------------------ *)
(* 4d. rule calls from a non-atomic context; the alternatives of `value`                 *)
(* ------------------------------------------------------------------------------------ *)

Definition rctx (c : ctx) (n : N) (s : bool) (b : expr) : ctx := rule_ctx c (mkrule n s KNormal b).

Lemma rctx_na c n s b : negb (is_trivia_name n) = true -> c_atom c = NonAtomic ->
  c_atom (rctx c n s b) = NonAtomic.
Proof. intros Hn Hc. unfold rctx. rewrite rule_ctx_atom_normal; assumption. Qed.

Lemma M_rule_normal c n s b pre x post kids :
  lookup G n = Some (mkrule n s KNormal b) -> c_atom c = NonAtomic ->
  M G (rctx c n s b) (TEval b) pre x post kids ->
  M G c (TEval (ERef n None)) pre x post
    (if s then kids else [Pair n (lenN pre) (lenN (pre ++ x)) kids None]).
Proof.
  intros L Hc H. eapply M_ps; cycle 1.
  - eapply M_ref; [exact L|]. exact H.
  - unfold wrap, visible, mkrule. cbn [r_silent r_kind r_name]. rewrite Hc. destruct s; reflexivity.
Qed.

Lemma M_null c pre post : c_atom c = NonAtomic ->
  M G c (TEval (ERef 16 None)) pre null_text post [Pair 16 (lenN pre) (lenN (pre ++ null_text)) [] None].
Proof.
  intros Hc. apply (M_rule_normal c 16 false _ pre null_text post [] lk_null Hc).
  apply M_str.
Qed.

Lemma M_boolean c b pre post : c_atom c = NonAtomic ->
  M G c (TEval (ERef 17 None)) pre (bool_text b) post
    [Pair 17 (lenN pre) (lenN (pre ++ bool_text b)) [] None].
Proof.
  intros Hc. apply (M_rule_normal c 17 false _ pre (bool_text b) post [] lk_boolean Hc).
  unfold boolean_body. apply M_alt. destruct b; cbn [bool_text].
  - apply Ma_first. apply M_str.
  - apply Ma_next; [apply F_str; reflexivity|]. apply Ma_first. apply M_str.
Qed.

Lemma M_number c n pre post : c_atom c = NonAtomic -> wf_jnum n = true -> hdP nf2 post = true ->
  M G c (TEval (ERef 8 None)) pre (num_text n) post
    [Pair 8 (lenN pre) (lenN (pre ++ num_text n)) [] None].
Proof.
  intros Hc H Hp. eapply M_ps; cycle 1.
  - eapply M_ref; [exact lk_number|]. apply M_number_body; [reflexivity|exact H|exact Hp].
  - unfold wrap, visible, mkrule. cbn [r_silent r_kind r_name]. rewrite Hc. reflexivity.
Qed.

Lemma F_object c pre d r : (d =? 123) = false -> F G c (TEval (ERef 6 None)) pre (d :: r).
Proof.
  intros H. eapply F_ref; [exact lk_object|]. cbn [r_body mkrule]. unfold object_body. apply F_alt.
  assert (K : strip_prefix [123] (d :: r) = None) by (cbn [strip_prefix]; rewrite N.eqb_sym, H; reflexivity).
  apply Fa_cons; [|apply Fa_cons; [|apply Fa_nil]]; apply F_seq; apply Fs_first; apply F_str; exact K.
Qed.

Lemma F_array c pre d r : (d =? 91) = false -> F G c (TEval (ERef 7 None)) pre (d :: r).
Proof.
  intros H. eapply F_ref; [exact lk_array|]. cbn [r_body mkrule]. unfold array_body. apply F_alt.
  assert (K : strip_prefix [91] (d :: r) = None) by (cbn [strip_prefix]; rewrite N.eqb_sym, H; reflexivity).
  apply Fa_cons; [|apply Fa_cons; [|apply Fa_nil]]; apply F_seq; apply Fs_first; apply F_str; exact K.
Qed.

Lemma F_number c pre d r : is_digit d = false -> (d =? 45) = false ->
  F G c (TEval (ERef 8 None)) pre (d :: r).
Proof.
  intros Hd H. eapply F_ref; [exact lk_number|]. cbn [r_body mkrule]. unfold number_body.
  set (c1 := rule_ctx c _). assert (H1 : c_atom c1 <> NonAtomic) by (cbn; discriminate).
  apply F_seq. apply (Fs_later_a G c1 (EOpt (EStr [45])) e_int _ pre [] (d :: r) []); [exact H1| |].
  - apply M_opt_none. apply F_str. cbn [strip_prefix]. rewrite N.eqb_sym, H. reflexivity.
  - rewrite app_nil_r. apply Fs_first. unfold e_int. apply F_grp. apply F_alt.
    assert (R : forall lo, 48 <= lo -> (lo <=? d) && (d <=? 57) = false).
    { intros lo Hlo. unfold is_digit in Hd. apply andb_false_iff in Hd. apply andb_false_iff.
      destruct Hd as [Hd|Hd]; [left|right; exact Hd].
      apply N.leb_gt in Hd. apply N.leb_gt. lia. }
    apply Fa_cons; [|apply Fa_cons; [|apply Fa_nil]].
    + apply F_str. cbn [strip_prefix]. destruct (N.eqb_spec 48 d) as [<-|_]; [discriminate|reflexivity].
    + apply F_seq. apply Fs_first. eapply F_ref; [exact lk_nzdigit|]. apply F_range. apply R. lia.
Qed.

Lemma F_boolean c pre d r : (d =? 116) = false -> (d =? 102) = false ->
  F G c (TEval (ERef 17 None)) pre (d :: r).
Proof.
  intros H1 H2. eapply F_ref; [exact lk_boolean|]. cbn [r_body mkrule]. unfold boolean_body.
  apply F_alt. apply Fa_cons; [|apply Fa_cons; [|apply Fa_nil]]; apply F_str; cbn [strip_prefix];
    rewrite N.eqb_sym; [rewrite H1|rewrite H2]; reflexivity.
Qed.

Section ValueAlt.
Variable c : ctx.
Hypothesis Hc : c_atom c = NonAtomic.
Variables (pre x' post : text) (ps : list pair).
Let c1 := rctx c 18 true value_body.

Lemma M_value_obj :
  (M G c1 (TEval (ERef 6 None)) pre (123 :: x') post ps) ->
  M G c (TEval (ERef 18 None)) pre (123 :: x') post ps.
Proof.
  intros H. apply (M_rule_normal c 18 true _ pre _ post ps lk_value Hc). fold c1.
  unfold value_body. apply M_alt. apply Ma_first. exact H.
Qed.

Lemma M_value_arr :
  (M G c1 (TEval (ERef 7 None)) pre (91 :: x') post ps) ->
  M G c (TEval (ERef 18 None)) pre (91 :: x') post ps.
Proof.
  intros H. apply (M_rule_normal c 18 true _ pre _ post ps lk_value Hc). fold c1.
  unfold value_body. apply M_alt.
  apply Ma_next; [apply F_object; reflexivity|]. apply Ma_first. exact H.
Qed.

Lemma M_value_str :
  (M G c1 (TEval (ERef 15 None)) pre (34 :: x') post ps) ->
  M G c (TEval (ERef 18 None)) pre (34 :: x') post ps.
Proof.
  intros H. apply (M_rule_normal c 18 true _ pre _ post ps lk_value Hc). fold c1.
  unfold value_body. apply M_alt.
  apply Ma_next; [apply F_object; reflexivity|]. apply Ma_next; [apply F_array; reflexivity|].
  apply Ma_first. exact H.
Qed.

Lemma M_value_num d : (d =? 45) || is_digit d = true ->
  (M G c1 (TEval (ERef 8 None)) pre (d :: x') post ps) ->
  M G c (TEval (ERef 18 None)) pre (d :: x') post ps.
Proof.
  intros Hd H. apply (M_rule_normal c 18 true _ pre _ post ps lk_value Hc). fold c1.
  unfold value_body. apply M_alt.
  assert (A : (d =? 123) = false /\ (d =? 91) = false /\ (d =? 34) = false).
  { apply orb_prop in Hd. destruct Hd as [Hd|Hd].
    - apply N.eqb_eq in Hd. subst d. repeat split.
    - destruct (digit_props d Hd) as [_ [_ B]]. repeat split; apply N.eqb_neq; lia. }
  destruct A as [A1 [A2 A3]].
  apply Ma_next; [apply F_object; exact A1|]. apply Ma_next; [apply F_array; exact A2|].
  apply Ma_next; [apply F_string; exact A3|].
  apply Ma_first. exact H.
Qed.

Lemma M_value_bool d : (d =? 116) || (d =? 102) = true ->
  (M G c1 (TEval (ERef 17 None)) pre (d :: x') post ps) ->
  M G c (TEval (ERef 18 None)) pre (d :: x') post ps.
Proof.
  intros Hd H. apply (M_rule_normal c 18 true _ pre _ post ps lk_value Hc). fold c1.
  unfold value_body. apply M_alt.
  assert (A : (d =? 123) = false /\ (d =? 91) = false /\ (d =? 34) = false /\
              is_digit d = false /\ (d =? 45) = false).
  { apply orb_prop in Hd. destruct Hd as [Hd|Hd]; apply N.eqb_eq in Hd; subst d; repeat split. }
  destruct A as [A1 [A2 [A3 [A4 A5]]]].
  apply Ma_next; [apply F_object; exact A1|]. apply Ma_next; [apply F_array; exact A2|].
  apply Ma_next; [apply F_string; exact A3|]. apply Ma_next; [apply F_number; assumption|].
  apply Ma_first. exact H.
Qed.

Lemma M_value_null :
  (M G c1 (TEval (ERef 16 None)) pre (110 :: x') post ps) ->
  M G c (TEval (ERef 18 None)) pre (110 :: x') post ps.
Proof.
  intros H. apply (M_rule_normal c 18 true _ pre _ post ps lk_value Hc). fold c1.
  unfold value_body. apply M_alt.
  apply Ma_next; [apply F_object; reflexivity|]. apply Ma_next; [apply F_array; reflexivity|].
  apply Ma_next; [apply F_string; reflexivity|].
  apply Ma_next; [apply F_number; reflexivity|].
  apply Ma_next; [apply F_boolean; reflexivity|].
  apply Ma_first. exact H.
Qed.

End ValueAlt.

(* ==================================================================================== *)
(* Part 5. Structure: arrays, objects, members                                           *)
(* ==================================================================================== *)

Lemma M_cast g c tk pre x post ps pre' x' post' ps' :
  M g c tk pre x post ps -> pre = pre' -> x = x' -> post = post' -> ps = ps' ->
  M g c tk pre' x' post' ps'.
Proof. intros H -> -> -> ->. exact H. Qed.

Lemma F_cast g c tk pre r r' : F g c tk pre r -> r = r' -> F g c tk pre r'.
Proof. intros H ->. exact H. Qed.

Ltac assoc :=
  repeat first [rewrite <- app_assoc | rewrite app_nil_r | progress cbn [app]]; reflexivity.

Lemma slice_in input pre x post : input = pre ++ x ++ post ->
  slice input (lenN pre) (lenN (pre ++ x)) = x.
Proof. intros ->. apply slice_mid. Qed.

(* what may follow a value inside a document: whitespace, a comma, a closing bracket, the end *)
Definition follow (d : N) : bool := is_ws d || (d =? 44) || (d =? 93) || (d =? 125).

Lemma follow_nf2 post : hdP follow post = true -> hdP nf2 post = true.
Proof.
  destruct post as [|d post]; [reflexivity|]. cbn [hdP]. unfold follow. intros H.
  assert (K : d = 32 \/ d = 9 \/ d = 13 \/ d = 10 \/ d = 44 \/ d = 93 \/ d = 125).
  { destruct (is_ws d) eqn:E; [apply is_ws_cases in E; tauto|]. cbn [orb] in H.
    destruct (N.eqb_spec d 44); [tauto|]. destruct (N.eqb_spec d 93); [tauto|].
    destruct (N.eqb_spec d 125); [tauto|]. discriminate. }
  destruct K as [-> | [-> | [-> | [-> | [-> | [-> | ->]]]]]]; reflexivity.
Qed.

Lemma hd_ws_then (P : N -> bool) w r : (forall a, is_ws a = true -> P a = true) ->
  ws w -> hdP P r = true -> hdP P (w ++ r) = true.
Proof.
  intros HP Hw Hr. destruct w as [|a w]; [exact Hr|]. cbn [app hdP].
  unfold ws in Hw. cbn [forallb] in Hw. apply andb_prop in Hw. apply HP. apply Hw.
Qed.

Lemma follow_ws a : is_ws a = true -> follow a = true.
Proof. intros H. unfold follow. rewrite H. reflexivity. Qed.

(* first characters of values *)
Definition vstart (d : N) : bool :=
  (d =? 123) || (d =? 91) || (d =? 34) || (d =? 45) || is_digit d ||
  (d =? 116) || (d =? 102) || (d =? 110).

Lemma vstart_facts d : vstart d = true ->
  nows d = true /\ (93 =? d) = false /\ (125 =? d) = false.
Proof.
  unfold vstart. intros H.
  assert (K : d = 123 \/ d = 91 \/ d = 34 \/ d = 45 \/ is_digit d = true \/ d = 116 \/ d = 102 \/ d = 110).
  { repeat (apply orb_prop in H; destruct H as [H|H]); try (apply N.eqb_eq in H); tauto. }
  destruct K as [-> | [-> | [-> | [-> | [K | [-> | [-> | ->]]]]]]]; try (repeat split; reflexivity).
  destruct (digit_props d K) as [_ [_ B]]. unfold nows, is_ws.
  repeat split; repeat match goal with
  | |- context [?a =? ?b] => destruct (N.eqb_spec a b); [lia|]
  end; reflexivity.
Qed.

Lemma num_head n : wf_jnum n = true ->
  exists d x', num_text n = d :: x' /\ (d =? 45) || is_digit d = true.
Proof.
  unfold wf_jnum. intros H. apply andb_prop in H. destruct H as [H _].
  apply andb_prop in H. destruct H as [H _]. unfold num_text, sign_text.
  destruct (neg n).
  - eexists. eexists. split; [reflexivity|reflexivity].
  - destruct (wf_int_head _ H) as [d [ds [E Hd]]]. rewrite E. eexists. eexists.
    split; [reflexivity|]. rewrite Hd. apply orb_true_r.
Qed.

Lemma renders_hd v x : renders v x -> wf_jv v = true ->
  exists d x', x = d :: x' /\ vstart d = true.
Proof.
  intros H Hw. destruct H.
  - eexists. eexists. split; reflexivity.
  - destruct b; eexists; eexists; split; reflexivity.
  - cbn [wf_jv] in Hw. destruct (num_head n Hw) as [d [x' [E Hd]]]. exists d, x'. split; [exact E|].
    unfold vstart. apply orb_prop in Hd. destruct Hd as [Hd|Hd]; rewrite Hd;
      rewrite ?orb_true_r; reflexivity.
  - eexists. eexists. split; reflexivity.
  - eexists. eexists. split; reflexivity.
  - eexists. eexists. split; reflexivity.
  - eexists. eexists. split; reflexivity.
  - eexists. eexists. split; reflexivity.
Qed.

(* the (ws , ws element)* parts never start with something that would extend a number *)
Definition tl_ok (tl : text) : Prop :=
  forall r, hdP follow r = true -> hdP follow (tl ++ r) = true.

Lemma tl_ok_nil : tl_ok [].
Proof. intros r H. exact H. Qed.

Lemma tl_ok_cons w2 rest : ws w2 -> tl_ok (w2 ++ [44] ++ rest).
Proof.
  intros Hw r _. rewrite <- app_assoc. apply hd_ws_then; [apply follow_ws|exact Hw|reflexivity].
Qed.

Lemma renders_tail_ok vs tl : renders_tail vs tl -> tl_ok tl.
Proof. intros H. destruct H; [apply tl_ok_nil|apply tl_ok_cons; assumption]. Qed.

Lemma renders_mtail_ok ms tl : renders_mtail ms tl -> tl_ok tl.
Proof. intros H. destruct H; [apply tl_ok_nil|apply tl_ok_cons; assumption]. Qed.

Lemma follow_close wl cl post : ws wl -> follow cl = true -> hdP follow (wl ++ cl :: post) = true.
Proof. intros Hw Hc. apply hd_ws_then; [apply follow_ws|exact Hw|exact Hc]. Qed.

(* ------------------------------------------------------------------------------------ *)
(* generic bracketed, comma-separated collections                                        *)
(*   open ~ close | open ~ elem ~ ("," ~ elem)* ~ close                                  *)
(* ------------------------------------------------------------------------------------ *)

Definition coll_body (k op cl : N) : expr :=
  EAlt [ESeq [EStr [op]; EStr [cl]]; ESeq [EStr [op]; ERef k None; EStar (e_more k); EStr [cl]]].

Section Coll.
Variables k op cl : N.
Hypothesis cl_nows : nows cl = true.
Hypothesis cl_follow : follow cl = true.
Hypothesis cl_comma : (44 =? cl) = false.
Variable A : Type.
Variable R : A -> sk -> Prop.

(* an element: its text and what parsing it yields *)
Definition elemP (a : A) (xe : text) : Prop :=
  forall c, c_atom c = NonAtomic -> forall input pre post,
  hdP follow post = true -> input = pre ++ xe ++ post ->
  exists pr, M G c (TEval (ERef k None)) pre xe post [pr] /\ R a (skel input pr).

Definition tailP (vs : list A) (tl : text) : Prop :=
  forall c, c_atom c = NonAtomic -> forall input pre wl post, ws wl ->
  input = pre ++ tl ++ wl ++ cl :: post ->
  exists kids,
    M G c (TStar (e_more k)) pre tl (wl ++ cl :: post) kids /\
    (forall e1 pre0 x1 ps1, pre = pre0 ++ x1 ->
       M G c (TEval e1) pre0 x1 (tl ++ wl ++ cl :: post) ps1 ->
       M G c (TSeq [e1; EStar (e_more k); EStr [cl]]) pre0 (x1 ++ tl ++ wl ++ [cl]) post (ps1 ++ kids)) /\
    Forall2 R vs (map (skel input) kids).

Lemma F_more_close c pre post : F G c (TEval (e_more k)) pre (cl :: post).
Proof.
  unfold e_more. apply F_grp. apply F_seq. apply Fs_first. apply F_str.
  cbn [strip_prefix]. rewrite cl_comma. reflexivity.
Qed.

Lemma tail_nil : tailP [] [].
Proof.
  intros c Hc input pre wl post Hwl Hin. exists []. split; [|split].
  - apply (MT_stop G c (e_more k) pre wl (cl :: post)).
    + apply MS_ws; [exact Hc|exact Hwl|exact cl_nows].
    + apply F_more_close.
  - intros e1 pre0 x1 ps1 -> H1.
    eapply M_cast;
      [apply (Ms_cons G c e1 (EStar (e_more k)) [EStr [cl]] pre0 x1 wl [cl] post ps1 []);
        [eapply M_cast; [exact H1|assoc..]
        |apply MS_ws; [exact Hc|exact Hwl|exact cl_nows]
        |apply (Ms_cons G c (EStar (e_more k)) (EStr [cl]) [] _ [] [] [cl] post [] []);
          [apply M_star_stop; apply F_more_close
          |apply MS_ws; [exact Hc|reflexivity|exact cl_nows]
          |apply Ms_one; apply M_str]]
      |assoc..].
  - constructor.
Qed.

Lemma tail_cons a vs w2 w1 xe tl d xe' :
  ws w2 -> ws w1 -> xe = d :: xe' -> nows d = true -> tl_ok tl ->
  elemP a xe -> tailP vs tl -> tailP (a :: vs) (w2 ++ [44] ++ w1 ++ xe ++ tl).
Proof.
  intros Hw2 Hw1 Exe Hd Htl Hel IH c Hc input pre wl post Hwl Hin.
  assert (Hf : hdP follow (tl ++ wl ++ cl :: post) = true).
  { apply Htl. apply follow_close; assumption. }
  destruct (Hel c Hc input ((pre ++ w2) ++ [44] ++ w1) (tl ++ wl ++ cl :: post) Hf) as [pr [HelM HR]].
  { rewrite Hin. assoc. }
  destruct (IH c Hc input (pre ++ w2 ++ [44] ++ w1 ++ xe) wl post Hwl) as [kids' [A' [B' C']]].
  { rewrite Hin. assoc. }
  assert (Hxe : hdP nows (xe ++ tl ++ wl ++ cl :: post) = true) by (rewrite Exe; exact Hd).
  assert (Hmore : M G c (TEval (e_more k)) (pre ++ w2) ([44] ++ w1 ++ xe) (tl ++ wl ++ cl :: post) [pr]).
  { unfold e_more. apply M_grp. apply M_seq.
    apply (Ms_cons G c (EStr [44]) (ERef k None) [] (pre ++ w2) [44] w1 xe (tl ++ wl ++ cl :: post) [] [pr]).
    - apply M_str.
    - apply MS_ws; [exact Hc|exact Hw1|exact Hxe].
    - apply Ms_one. exact HelM. }
  exists (pr :: kids'). split; [|split].
  - eapply M_cast;
      [apply (MT_go G c (e_more k) pre w2 ([44] ++ w1 ++ xe) tl (wl ++ cl :: post) [pr] kids');
        [apply MS_ws; [exact Hc|exact Hw2|reflexivity]
        |exact Hmore
        |eapply M_cast; [exact A'|assoc..]]
      |assoc..].
  - intros e1 pre0 x1 ps1 -> H1.
    eapply M_cast;
      [apply (Ms_cons G c e1 (EStar (e_more k)) [EStr [cl]] pre0 x1 w2
                ((([44] ++ w1 ++ xe) ++ tl) ++ wl ++ [cl]) post ps1 (([pr] ++ kids') ++ []));
        [eapply M_cast; [exact H1|assoc..]
        |apply MS_ws; [exact Hc|exact Hw2|reflexivity]
        |apply (Ms_cons G c (EStar (e_more k)) (EStr [cl]) [] _ (([44] ++ w1 ++ xe) ++ tl) wl [cl] post
                  ([pr] ++ kids') []);
          [apply (M_star_go G c (e_more k) _ ([44] ++ w1 ++ xe) tl (wl ++ [cl] ++ post) [pr] kids');
            [eapply M_cast; [exact Hmore|assoc..]
            |eapply M_cast; [exact A'|assoc..]]
          |apply MS_ws; [exact Hc|exact Hwl|exact cl_nows]
          |apply Ms_one; apply M_str]]
      |assoc..].
  - cbn [map]. constructor; [exact HR|exact C'].
Qed.

Lemma coll_empty c pre w post : c_atom c = NonAtomic -> ws w ->
  M G c (TEval (coll_body k op cl)) pre (op :: w ++ [cl]) post [].
Proof.
  intros Hc Hw. unfold coll_body. apply M_alt. apply Ma_first. apply M_seq.
  apply (Ms_cons G c (EStr [op]) (EStr [cl]) [] pre [op] w [cl] post [] []).
  - apply M_str.
  - apply MS_ws; [exact Hc|exact Hw|exact cl_nows].
  - apply Ms_one. apply M_str.
Qed.

Lemma coll_cons c a vs w1 xe tl wl d xe' input pre post :
  c_atom c = NonAtomic -> ws w1 -> ws wl ->
  xe = d :: xe' -> nows d = true -> (cl =? d) = false -> tl_ok tl ->
  elemP a xe -> tailP vs tl ->
  input = pre ++ (op :: w1 ++ xe ++ tl ++ wl ++ [cl]) ++ post ->
  exists kids,
    M G c (TEval (coll_body k op cl)) pre (op :: w1 ++ xe ++ tl ++ wl ++ [cl]) post kids /\
    Forall2 R (a :: vs) (map (skel input) kids).
Proof.
  intros Hc Hw1 Hwl Exe Hd Hcd Htl Hel Htail Hin.
  assert (Hf : hdP follow (tl ++ wl ++ cl :: post) = true).
  { apply Htl. apply follow_close; assumption. }
  destruct (Hel c Hc input (pre ++ [op] ++ w1) (tl ++ wl ++ cl :: post) Hf) as [pr [HelM HR]].
  { rewrite Hin. assoc. }
  destruct (Htail c Hc input ((pre ++ [op] ++ w1) ++ xe) wl post Hwl) as [kids' [A' [B' C']]].
  { rewrite Hin. assoc. }
  assert (Hxe : forall r, hdP nows (xe ++ r) = true) by (intros r; rewrite Exe; exact Hd).
  exists (pr :: kids'). split.
  - unfold coll_body. apply M_alt. apply Ma_next.
    + apply F_seq. eapply F_cast;
        [apply (Fs_later G c (EStr [op]) (EStr [cl]) [] pre [op] w1 (xe ++ tl ++ wl ++ [cl] ++ post) []);
          [apply M_str
          |apply MS_ws; [exact Hc|exact Hw1|rewrite Exe; exact Hd]
          |apply Fs_first; apply F_str; rewrite Exe; cbn [app strip_prefix]; rewrite Hcd; reflexivity]
        |assoc].
    + apply Ma_first. apply M_seq.
      eapply M_cast;
        [apply (Ms_cons G c (EStr [op]) (ERef k None) [EStar (e_more k); EStr [cl]] pre [op] w1
                  (xe ++ tl ++ wl ++ [cl]) post [] ([pr] ++ kids'));
          [apply M_str
          |apply MS_ws; [exact Hc|exact Hw1|rewrite Exe; exact Hd]
          |apply (B' (ERef k None) (pre ++ [op] ++ w1) xe [pr] eq_refl HelM)]
        |assoc..].
  - cbn [map]. constructor; [exact HR|exact C'].
Qed.

End Coll.

(* ------------------------------------------------------------------------------------ *)
(* arrays, objects and members as instances                                              *)
(* ------------------------------------------------------------------------------------ *)

Lemma M_soi g c post : M g c (TEval ESoi) [] [] post [].
Proof. apply OK_soi. Qed.

Lemma M_eoi g c pre : M g c (TEval EEoi) pre [] [] [].
Proof. unfold M. rewrite (app_nil_r pre). apply OK_eoi. Qed.

Lemma slice_empty input p : slice input p p = [].
Proof. unfold slice. rewrite N.sub_diag. reflexivity. Qed.

Lemma coll_rule_empty n k op cl c w pre post :
  lookup G n = Some (mkrule n false KNormal (coll_body k op cl)) ->
  negb (is_trivia_name n) = true -> nows cl = true -> c_atom c = NonAtomic -> ws w ->
  M G c (TEval (ERef n None)) pre (op :: w ++ [cl]) post
    [Pair n (lenN pre) (lenN (pre ++ op :: w ++ [cl])) [] None].
Proof.
  intros L Hn Hcl Hc Hw.
  apply (M_rule_normal c n false _ pre _ post [] L Hc).
  apply coll_empty; [exact Hcl|apply rctx_na; assumption|exact Hw].
Qed.

Lemma coll_rule_cons n k op cl (A : Type) (R : A -> sk -> Prop) c a vs w1 xe tl wl d xe' input pre post :
  lookup G n = Some (mkrule n false KNormal (coll_body k op cl)) ->
  negb (is_trivia_name n) = true ->
  nows cl = true -> follow cl = true -> (44 =? cl) = false ->
  c_atom c = NonAtomic -> ws w1 -> ws wl ->
  xe = d :: xe' -> nows d = true -> (cl =? d) = false -> tl_ok tl ->
  elemP k A R a xe -> tailP k cl A R vs tl ->
  input = pre ++ (op :: w1 ++ xe ++ tl ++ wl ++ [cl]) ++ post ->
  exists kids,
    M G c (TEval (ERef n None)) pre (op :: w1 ++ xe ++ tl ++ wl ++ [cl]) post
      [Pair n (lenN pre) (lenN (pre ++ op :: w1 ++ xe ++ tl ++ wl ++ [cl])) kids None] /\
    Forall2 R (a :: vs) (map (skel input) kids).
Proof.
  intros L Hn Hcl Hfo Hco Hc Hw1 Hwl Exe Hd Hcd Htl Hel Htail Hin.
  destruct (coll_cons k op cl Hfo A R (rctx c n false (coll_body k op cl)) a vs w1 xe tl wl d xe'
              input pre post (rctx_na _ _ _ _ Hn Hc) Hw1 Hwl Exe Hd Hcd Htl Hel Htail Hin)
    as [kids [HM HF]].
  exists kids. split; [|exact HF].
  apply (M_rule_normal c n false _ pre _ post kids L Hc). exact HM.
Qed.

Definition wfm (m : list jchar * jv) : bool := forallb wf_jchar (fst m) && wf_jv (snd m).

(* a value / a rule applied to a rendering, anywhere in an input *)
Definition valP (v : jv) (x : text) : Prop := elemP 18 jv msk v x.

Definition ruleP (n : N) (v : jv) (x : text) : Prop :=
  forall c, c_atom c = NonAtomic -> forall input pre post, input = pre ++ x ++ post ->
  exists pr, M G c (TEval (ERef n None)) pre x post [pr] /\ msk v (skel input pr).

Lemma skel_string input pre s post : input = pre ++ str_text s ++ post ->
  skel input (Pair 15 (lenN pre) (lenN (pre ++ str_text s))
                [Pair 14 (lenN (pre ++ [34])) (lenN ((pre ++ [34]) ++ chars_text s)) [] None] None)
  = str_sk s.
Proof.
  intros H. cbn [skel map]. rewrite (slice_in input pre (str_text s) post H).
  rewrite (slice_in input (pre ++ [34]) (chars_text s) ([34] ++ post)); [reflexivity|].
  rewrite H. unfold str_text. assoc.
Qed.

Lemma arr0_rule w : ws w -> ruleP 7 (JArr []) (91 :: w ++ [93]).
Proof.
  intros Hw c Hc input pre post Hin. eexists. split.
  - apply (coll_rule_empty 7 18 91 93 c w pre post lk_array eq_refl eq_refl Hc Hw).
  - cbn [skel map]. rewrite (slice_in input pre _ post Hin). apply K_arr; [|constructor].
    apply R_arr0. exact Hw.
Qed.

Lemma obj0_rule w : ws w -> ruleP 6 (JObj []) (123 :: w ++ [125]).
Proof.
  intros Hw c Hc input pre post Hin. eexists. split.
  - apply (coll_rule_empty 6 19 123 125 c w pre post lk_object eq_refl eq_refl Hc Hw).
  - cbn [skel map]. rewrite (slice_in input pre _ post Hin). apply K_obj; [|constructor].
    apply R_obj0. exact Hw.
Qed.

Lemma arr_rule v vs w1 x tl wl :
  ws w1 -> renders v x -> renders_tail vs tl -> ws wl -> wf_jv v = true ->
  valP v x -> tailP 18 93 jv msk vs tl ->
  ruleP 7 (JArr (v :: vs)) (91 :: w1 ++ x ++ tl ++ wl ++ [93]).
Proof.
  intros Hw1 Hr Hrt Hwl Hwf Hv Ht c Hc input pre post Hin.
  destruct (renders_hd v x Hr Hwf) as [d [x' [Ex Hd]]].
  destruct (vstart_facts d Hd) as [Hd1 [Hd2 Hd3]].
  destruct (coll_rule_cons 7 18 91 93 jv msk c v vs w1 x tl wl d x' input pre post
              lk_array eq_refl eq_refl eq_refl eq_refl Hc Hw1 Hwl Ex Hd1 Hd2
              (renders_tail_ok _ _ Hrt) Hv Ht Hin) as [kids [HM HF]].
  eexists. split; [exact HM|].
  cbn [skel]. rewrite (slice_in input pre _ post Hin). apply K_arr; [|exact HF].
  apply R_arr; assumption.
Qed.

(* member = string ws : ws value, parsed by rule pair (19) *)
Lemma member_elem k v wa wb x :
  forallb wf_jchar k = true -> ws wa -> ws wb -> renders v x -> wf_jv v = true -> valP v x ->
  elemP 19 (list jchar * jv) mmsk (k, v) (member_text k wa wb x).
Proof.
  intros Hk Hwa Hwb Hr Hwf Hv c Hc input pre post Hf Hin.
  set (c1 := rctx c 19 false pair_body).
  assert (Hc1 : c_atom c1 = NonAtomic) by (apply rctx_na; [reflexivity|exact Hc]).
  destruct (renders_hd v x Hr Hwf) as [d [x' [Ex Hd]]].
  destruct (vstart_facts d Hd) as [Hd1 _].
  destruct (Hv c1 Hc1 input (pre ++ str_text k ++ wa ++ [58] ++ wb) post Hf) as [prv [HvM HvK]].
  { rewrite Hin. unfold member_text. assoc. }
  set (prs := Pair 15 (lenN pre) (lenN (pre ++ str_text k))
                [Pair 14 (lenN (pre ++ [34])) (lenN ((pre ++ [34]) ++ chars_text k)) [] None] None).
  exists (Pair 19 (lenN pre) (lenN (pre ++ member_text k wa wb x)) [prs; prv] None). split.
  - apply (M_rule_normal c 19 false pair_body pre (member_text k wa wb x) post [prs; prv] lk_pair Hc).
    fold c1. unfold pair_body, member_text. apply M_seq.
    apply (Ms_cons G c1 (ERef 15 None) (EStr [58]) [ERef 18 None] pre (str_text k) wa
             ([58] ++ wb ++ x) post [prs] [prv]).
    + apply M_string; [rewrite Hc1; discriminate|exact Hk].
    + apply MS_ws; [exact Hc1|exact Hwa|reflexivity].
    + apply (Ms_cons G c1 (EStr [58]) (ERef 18 None) [] _ [58] wb x post [] [prv]).
      * apply M_str.
      * apply MS_ws; [exact Hc1|exact Hwb|rewrite Ex; exact Hd1].
      * apply Ms_one. eapply M_cast; [exact HvM|assoc..].
  - cbn [skel map]. rewrite (slice_in input pre _ post Hin).
    fold prs. unfold prs. rewrite (skel_string input pre k (wa ++ [58] ++ wb ++ x ++ post)).
    + apply K_member; assumption.
    + rewrite Hin. unfold member_text. assoc.
Qed.

Lemma obj_rule k v ms w1 wa wb x tl wl :
  ws w1 -> ws wa -> ws wb -> renders v x -> renders_mtail ms tl -> ws wl ->
  forallb wf_jchar k = true -> wf_jv v = true ->
  valP v x -> tailP 19 125 (list jchar * jv) mmsk ms tl ->
  ruleP 6 (JObj ((k, v) :: ms)) (123 :: w1 ++ member_text k wa wb x ++ tl ++ wl ++ [125]).
Proof.
  intros Hw1 Hwa Hwb Hr Hrt Hwl Hk Hwf Hv Ht c Hc input pre post Hin.
  destruct (coll_rule_cons 6 19 123 125 _ mmsk c (k, v) ms w1 (member_text k wa wb x) tl wl
              34 (chars_text k ++ [34] ++ wa ++ [58] ++ wb ++ x) input pre post
              lk_object eq_refl eq_refl eq_refl eq_refl Hc Hw1 Hwl) as [kids [HM HF]].
  - unfold member_text, str_text. assoc.
  - reflexivity.
  - reflexivity.
  - exact (renders_mtail_ok _ _ Hrt).
  - apply member_elem; assumption.
  - exact Ht.
  - exact Hin.
  - eexists. split; [exact HM|].
    cbn [skel]. rewrite (slice_in input pre _ post Hin). apply K_obj; [|exact HF].
    apply R_obj; assumption.
Qed.

Lemma value_of_arr vs x' : ruleP 7 (JArr vs) (91 :: x') -> valP (JArr vs) (91 :: x').
Proof.
  intros H c Hc input pre post _ Hin.
  destruct (H (rctx c 18 true value_body) (rctx_na c 18 true value_body eq_refl Hc) input pre post Hin) as [pr [HM HK]].
  exists pr. split; [|exact HK]. apply M_value_arr; assumption.
Qed.

Lemma value_of_obj ms x' : ruleP 6 (JObj ms) (123 :: x') -> valP (JObj ms) (123 :: x').
Proof.
  intros H c Hc input pre post _ Hin.
  destruct (H (rctx c 18 true value_body) (rctx_na c 18 true value_body eq_refl Hc) input pre post Hin) as [pr [HM HK]].
  exists pr. split; [|exact HK]. apply M_value_obj; assumption.
Qed.

(* ==================================================================================== *)
(* Part 6. Every rendering of a well-formed value is parsed by `value`                   *)
(* ==================================================================================== *)

Definition Pv (v : jv) (x : text) (_ : renders v x) : Prop := wf_jv v = true -> valP v x.
Definition Pt (vs : list jv) (tl : text) (_ : renders_tail vs tl) : Prop :=
  forallb wf_jv vs = true -> tailP 18 93 jv msk vs tl.
Definition Pm (ms : list (list jchar * jv)) (tl : text) (_ : renders_mtail ms tl) : Prop :=
  forallb wfm ms = true -> tailP 19 125 (list jchar * jv) mmsk ms tl.

Combined Scheme renders_all from renders_mut, renders_tail_mut, renders_mtail_mut.

Theorem value_complete_all :
  (forall v x (r : renders v x), Pv v x r) /\
  (forall vs tl (r : renders_tail vs tl), Pt vs tl r) /\
  (forall ms tl (r : renders_mtail ms tl), Pm ms tl r).
Proof.
  apply renders_all; unfold Pv, Pt, Pm.
  - (* null *)
    intros _ c Hc input pre post Hf Hin.
    assert (Hc1 := rctx_na c 18 true value_body eq_refl Hc).
    eexists. split.
    + apply (M_value_null c Hc pre [117; 108; 108] post). apply M_null. exact Hc1.
    + cbn [skel map]. rewrite (slice_in input pre _ post Hin). apply K_null.
  - (* booleans *)
    intros b _ c Hc input pre post Hf Hin.
    assert (Hc1 := rctx_na c 18 true value_body eq_refl Hc).
    eexists. split.
    + destruct b.
      * apply (M_value_bool c Hc pre [114; 117; 101] post _ 116 eq_refl).
        apply (M_boolean _ true). exact Hc1.
      * apply (M_value_bool c Hc pre [97; 108; 115; 101] post _ 102 eq_refl).
        apply (M_boolean _ false). exact Hc1.
    + cbn [skel map]. destruct b; rewrite (slice_in input pre _ post Hin); apply K_bool.
  - (* numbers *)
    intros n Hw c Hc input pre post Hf Hin. cbn [wf_jv] in Hw.
    assert (Hc1 := rctx_na c 18 true value_body eq_refl Hc).
    destruct (num_head n Hw) as [d [x' [E Hd]]].
    pose proof (M_number _ n pre post Hc1 Hw (follow_nf2 _ Hf)) as HN.
    eexists. split.
    + rewrite E in *. apply (M_value_num c Hc pre x' post _ d Hd). exact HN.
    + cbn [skel map]. rewrite E in Hin. rewrite (slice_in input pre _ post Hin). rewrite <- E. apply K_num.
  - (* strings *)
    intros s Hw c Hc input pre post Hf Hin. cbn [wf_jv] in Hw.
    assert (Hc1 := rctx_na c 18 true value_body eq_refl Hc).
    eexists. split.
    + apply (M_value_str c Hc pre (chars_text s ++ [34]) post).
      apply M_string; [rewrite Hc1; discriminate|exact Hw].
    + rewrite (skel_string input pre s post Hin). apply K_str.
  - (* [] *)
    intros w Hw _. apply value_of_arr. apply arr0_rule. exact Hw.
  - (* [v, ...] *)
    intros v vs w1 x tl wl Hw1 r IHv rt IHt Hwl Hwf.
    cbn [wf_jv forallb] in Hwf. apply andb_prop in Hwf. destruct Hwf as [Hwf1 Hwf2].
    apply value_of_arr. apply arr_rule; auto.
  - (* {} *)
    intros w Hw _. apply value_of_obj. apply obj0_rule. exact Hw.
  - (* {k: v, ...} *)
    intros k v ms w1 wa wb x tl wl Hw1 Hwa Hwb r IHv rt IHt Hwl Hwf.
    cbn [wf_jv forallb fst snd] in Hwf. apply andb_prop in Hwf. destruct Hwf as [Hwf1 Hwf2].
    apply andb_prop in Hwf1. destruct Hwf1 as [Hk Hv].
    apply value_of_obj. apply obj_rule; auto.
  - (* array tails *)
    intros _. apply tail_nil; reflexivity.
  - intros v vs w2 w1 x tl Hw2 Hw1 r IHv rt IHt Hwf.
    cbn [forallb] in Hwf. apply andb_prop in Hwf. destruct Hwf as [Hwf1 Hwf2].
    destruct (renders_hd v x r Hwf1) as [d [x' [Ex Hd]]].
    destruct (vstart_facts d Hd) as [Hd1 _].
    apply (tail_cons 18 93 eq_refl eq_refl jv msk v vs w2 w1 x tl d x'); auto.
    + exact (renders_tail_ok _ _ rt).
    + exact (IHv Hwf1).
  - (* object tails *)
    intros _. apply tail_nil; reflexivity.
  - intros k v ms w2 w1 wa wb x tl Hw2 Hw1 Hwa Hwb r IHv rt IHt Hwf.
    cbn [forallb] in Hwf. apply andb_prop in Hwf. destruct Hwf as [Hwf1 Hwf2].
    unfold wfm in Hwf1. cbn [fst snd] in Hwf1. apply andb_prop in Hwf1. destruct Hwf1 as [Hk Hv].
    apply (tail_cons 19 125 eq_refl eq_refl _ mmsk (k, v) ms w2 w1 (member_text k wa wb x) tl
             34 (chars_text k ++ [34] ++ wa ++ [58] ++ wb ++ x)); auto.
    + unfold member_text, str_text. assoc.
    + exact (renders_mtail_ok _ _ rt).
    + apply member_elem; auto.
Qed.

(* ==================================================================================== *)
(* Part 7. Documents                                                                     *)
(* ==================================================================================== *)

Lemma value_complete v x : renders v x -> wf_jv v = true -> valP v x.
Proof. intros r. exact (proj1 value_complete_all v x r). Qed.
Lemma tail_complete vs tl : renders_tail vs tl -> forallb wf_jv vs = true -> tailP 18 93 jv msk vs tl.
Proof. intros r. exact (proj1 (proj2 value_complete_all) vs tl r). Qed.
Lemma mtail_complete ms tl : renders_mtail ms tl -> forallb wfm ms = true ->
  tailP 19 125 (list jchar * jv) mmsk ms tl.
Proof. intros r. exact (proj2 (proj2 value_complete_all) ms tl r). Qed.

Definition e_top := EGrp (EAlt [ERef 6 None; ERef 7 None]) None.

(* the top-level choice  object | array  applied to a rendering of an array or object *)
Lemma top_rule v x : renders v x -> wf_jv v = true -> top_level v ->
  exists d x', x = d :: x' /\ nows d = true /\
  forall c, c_atom c = NonAtomic -> forall input pre post, input = pre ++ x ++ post ->
  exists pr, M G c (TEval e_top) pre x post [pr] /\ msk v (skel input pr).
Proof.
  intros Hr Hwf Htop.
  assert (K : (exists x', x = 91 :: x' /\ ruleP 7 v x) \/ (exists x', x = 123 :: x' /\ ruleP 6 v x)).
  { destruct Hr; try contradiction.
    - left. eexists. split; [reflexivity|]. apply arr0_rule. assumption.
    - left. eexists. split; [reflexivity|].
      cbn [wf_jv forallb] in Hwf. apply andb_prop in Hwf. destruct Hwf as [Hwfa Hwfb].
      apply arr_rule; auto; [apply value_complete; assumption|apply tail_complete; assumption].
    - right. eexists. split; [reflexivity|]. apply obj0_rule. assumption.
    - right. eexists. split; [reflexivity|].
      cbn [wf_jv forallb fst snd] in Hwf. apply andb_prop in Hwf. destruct Hwf as [Hwfa Hwfb].
      apply andb_prop in Hwfa. destruct Hwfa as [Hk Hv].
      apply obj_rule; auto; [apply value_complete; assumption|apply mtail_complete; assumption]. }
  destruct K as [[x' [-> H]]|[x' [-> H]]].
  - exists 91, x'. split; [reflexivity|]. split; [reflexivity|].
    intros c Hc input pre post Hin. destruct (H c Hc input pre post Hin) as [pr [HM HK]].
    exists pr. split; [|exact HK]. unfold e_top. apply M_grp. apply M_alt.
    apply Ma_next; [apply F_object; reflexivity|]. apply Ma_first. exact HM.
  - exists 123, x'. split; [reflexivity|]. split; [reflexivity|].
    intros c Hc input pre post Hin. destruct (H c Hc input pre post Hin) as [pr [HM HK]].
    exists pr. split; [|exact HK]. unfold e_top. apply M_grp. apply M_alt.
    apply Ma_first. exact HM.
Qed.

Lemma json_rule_complete v w1 x w2 :
  wf_jv v = true -> top_level v -> ws w1 -> renders v x -> ws w2 ->
  exists tree, M G (ctx0) (TEval (ERef 4 None)) [] (w1 ++ x ++ w2) [] tree /\
               mirrors (w1 ++ x ++ w2) v tree.
Proof.
  intros Hwf Htop Hw1 Hr Hw2.
  destruct (top_rule v x Hr Hwf Htop) as [d [x' [Ex [Hd H]]]].
  set (c1 := rctx ctx0 4 true json_body).
  assert (Hc1 : c_atom c1 = NonAtomic) by (apply rctx_na; reflexivity).
  destruct (H c1 Hc1 (w1 ++ x ++ w2) w1 w2 eq_refl) as [pr [HM HK]].
  set (eoi := Pair 3 (lenN (w1 ++ x ++ w2)) (lenN (w1 ++ x ++ w2)) [] None).
  exists [pr; eoi]. split.
  - apply (M_rule_normal ctx0 4 true json_body [] (w1 ++ x ++ w2) [] [pr; eoi] lk_json eq_refl).
    fold c1. unfold json_body. fold e_top. apply M_seq.
    eapply M_cast;
      [apply (Ms_cons G c1 (ERef 5 None) e_top [ERef 3 None] [] [] w1 (x ++ w2) [] [] ([pr] ++ [eoi]));
        [eapply M_ps; cycle 1; [eapply M_ref; [exact lk_soi|apply M_soi]|reflexivity]
        |apply MS_ws; [exact Hc1|exact Hw1|rewrite Ex; exact Hd]
        |eapply M_cast;
          [apply (Ms_cons G c1 e_top (ERef 3 None) [] ([] ++ [] ++ w1) x w2 [] [] [pr] [eoi]);
            [eapply M_cast; [exact HM|assoc..]
            |apply MS_ws; [exact Hc1|exact Hw2|reflexivity]
            |apply Ms_one; eapply M_cast;
               [apply (M_rule_normal c1 3 false EEoi _ [] [] [] lk_eoi Hc1); apply M_eoi|assoc..]]
          |assoc..]]
      |assoc..].
  - exists (skel (w1 ++ x ++ w2) pr). split; [|exact HK].
    cbn [map skel]. unfold eoi. cbn [skel map]. rewrite slice_empty. reflexivity.
Qed.

(* ------------------------------------------------------------------------------------ *)
(* COMPLETENESS: every RFC 8259 text whose top level is an array or an object is accepted *)
(* by json.pest, the whole input is consumed, and the parse tree mirrors the document.    *)
(* ------------------------------------------------------------------------------------ *)
Theorem json_complete : forall v text, wf_jv v = true -> top_level v -> renders_doc v text ->
  exists f s tree,
    parse json_grammar f json_grammar_start text 0 = Ok s tree /\ s_rest s = [] /\ mirrors text v tree.
Proof.
  intros v text Hwf Htop Hdoc. destruct Hdoc as [v w1 x w2 Hw1 Hr Hw2].
  destruct (json_rule_complete v w1 x w2 Hwf Htop Hw1 Hr Hw2) as [tree [HM HK]].
  unfold M, OKt in HM. rewrite app_nil_r in HM.
  destruct (HM trk0) as [t' [f [E D]]].
  exists f. eexists. exists tree. split; [exact E|]. split; [reflexivity|exact HK].
Qed.

(* the lexical fragments on their own: `number` and `string` accept every jnum / jchar list *)
Theorem number_complete : forall c n pre post, c_atom c = NonAtomic -> wf_jnum n = true ->
  hdP nf2 post = true ->
  M G c (TEval (ERef 8 None)) pre (num_text n) post
    [Pair 8 (lenN pre) (lenN (pre ++ num_text n)) [] None].
Proof. intros. apply M_number; assumption. Qed.

Theorem string_complete : forall c s pre post, c_atom c = NonAtomic -> forallb wf_jchar s = true ->
  M G c (TEval (ERef 15 None)) pre (str_text s) post
    [Pair 15 (lenN pre) (lenN (pre ++ str_text s))
       [Pair 14 (lenN (pre ++ [34])) (lenN ((pre ++ [34]) ++ chars_text s)) [] None] None].
Proof. intros c s pre post Hc H. apply M_string; [rewrite Hc; discriminate|exact H]. Qed.

(* ==================================================================================== *)
(* Part 8. Non-vacuity: a concrete document                                              *)
(*    {"k\né" : [1, -2.5e+3 ,true,false , null, "x\\" ] ,"o":{ } , "e" : [<TAB>]}<LF>   *)
(*   (preceded by one space)                                                             *)
(* ==================================================================================== *)

Definition ex_num1 : jnum := {| neg := false; int_part := [49]; frac := None; expo := None |}.
Definition ex_num2 : jnum :=
  {| neg := true; int_part := [50]; frac := Some [53]; expo := Some (101, Some 43, [51]) |}.
Definition ex_key : list jchar := [JPlain 107; JEsc 110; JUni 48 48 101 57].
Definition ex_arr : jv :=
  JArr [JNum ex_num1; JNum ex_num2; JBool true; JBool false; JNull; JStr [JPlain 120; JEsc 92]].
Definition ex_v : jv :=
  JObj [(ex_key, ex_arr); ([JPlain 111], JObj []); ([JPlain 101], JArr [])].

Definition ex_text : text :=
  [32; 123; 34; 107; 92; 110; 92; 117; 48; 48; 101; 57; 34; 32; 58; 32; 91; 49; 44; 32; 45; 50; 46;
   53; 101; 43; 51; 32; 44; 116; 114; 117; 101; 44; 102; 97; 108; 115; 101; 32; 44; 32; 110; 117;
   108; 108; 44; 32; 34; 120; 92; 92; 34; 32; 93; 32; 44; 34; 111; 34; 58; 123; 32; 125; 32; 44; 32;
   34; 101; 34; 32; 58; 32; 91; 9; 93; 125; 10].

Example ex_wf : wf_jv ex_v = true.
Proof. vm_compute. reflexivity. Qed.

Definition ex_r_arr : renders ex_arr _ :=
  R_arr (JNum ex_num1) _ [] _ _ [32] eq_refl (R_num ex_num1)
    (RT_cons (JNum ex_num2) _ [] [32] _ _ eq_refl eq_refl (R_num ex_num2)
    (RT_cons (JBool true) _ [32] [] _ _ eq_refl eq_refl (R_bool true)
    (RT_cons (JBool false) _ [] [] _ _ eq_refl eq_refl (R_bool false)
    (RT_cons JNull _ [32] [32] _ _ eq_refl eq_refl R_null
    (RT_cons (JStr [JPlain 120; JEsc 92]) _ [] [32] _ _ eq_refl eq_refl (R_str _)
     RT_nil)))))
    eq_refl.

Definition ex_r : renders ex_v _ :=
  R_obj ex_key ex_arr _ [] [32] [32] _ _ [] eq_refl eq_refl eq_refl ex_r_arr
    (RM_cons [JPlain 111] (JObj []) _ [32] [] [] [] _ _ eq_refl eq_refl eq_refl eq_refl (R_obj0 [32] eq_refl)
    (RM_cons [JPlain 101] (JArr []) _ [32] [32] [32] [32] _ _ eq_refl eq_refl eq_refl eq_refl (R_arr0 [9] eq_refl)
     RM_nil))
    eq_refl.

(* membership in the rendering relation, checked by conversion against the literal text *)
Example ex_renders : renders_doc ex_v ex_text.
Proof. exact (R_doc ex_v [32] _ [10] eq_refl ex_r eq_refl). Qed.

(* the theorem applies ... *)
Example ex_accepted : exists f s tree,
  parse json_grammar f json_grammar_start ex_text 0 = Ok s tree /\ s_rest s = [] /\
  mirrors ex_text ex_v tree.
Proof. exact (json_complete ex_v ex_text ex_wf I ex_renders). Qed.

(* ... and agrees with running the reference semantics *)
Definition ex_run : res := parse json_grammar 100 json_grammar_start ex_text 0.

Example ex_parse_ok :
  match ex_run with
  | Ok s tree =>
      s_rest s = [] /\ s_pos s = lenN ex_text /\
      map (skel ex_text) tree =
        [ SK 6 (firstn 76 (skipn 1 ex_text))
            [ SK 19 (firstn 53 (skipn 2 ex_text))
                [ str_sk ex_key;
                  SK 7 (firstn 39 (skipn 16 ex_text))
                    [ SK 8 (num_text ex_num1) [];
                      SK 8 (num_text ex_num2) [];
                      SK 17 (bool_text true) [];
                      SK 17 (bool_text false) [];
                      SK 16 null_text [];
                      str_sk [JPlain 120; JEsc 92] ] ];
              SK 19 (firstn 7 (skipn 57 ex_text)) [ str_sk [JPlain 111]; SK 6 [123; 32; 125] [] ];
              SK 19 (firstn 9 (skipn 67 ex_text)) [ str_sk [JPlain 101]; SK 7 [91; 9; 93] [] ] ];
          SK 3 [] [] ]
  | _ => False
  end.
Proof. vm_compute. repeat split. Qed.

Print Assumptions number_complete.
Print Assumptions string_complete.
Print Assumptions value_complete_all.
Print Assumptions ex_accepted.
Print Assumptions json_complete.
