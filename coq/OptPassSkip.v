(* OptPassSkip.v — model of the "skip" pass: skippers.skip / skippers._skip / skippers.never_skips_trivia, run by
   Optimizer.optimize as a PREORDER step with a rule predicate, over the rule table IN PLACE (dict order; a rule
   rewritten earlier is seen in its new form by `_skip` when it follows a reference). Tied exactly (driver command
   U skip). `any_id`: the identifier of the built-in rule ANY. *)
From Coq Require Import List NArith ZArith Bool Arith.
Import ListNotations.
From PP Require Import Base Syntax Spec CharClass Opt OptPass OptPassSilent.

Section S.
Variable bi : N -> bool.
Variable any_id : N.

(* _skip: the literals of a choice of strings, through groups (one level per call) and references (each rule once
   per path: `seen`); None for anything else. Fuel bounds the depth of the recursion. *)
Fixpoint skip_lits (fuel : nat) (tbl : grammar) (seen : list N) (e : expr) : option (list text) :=
  match fuel with
  | O => None
  | S f =>
    let e1 := match e with EGrp x _ => x | _ => e end in
    match e1 with
    | EAlt es =>
        (fix go (l : list expr) : option (list text) :=
           match l with
           | [] => Some []
           | x :: l' => match skip_lits f tbl seen x with
                        | Some a => match go l' with Some b => Some (a ++ b) | None => None end
                        | None => None
                        end
           end) es
    | EStr w => Some [w]
    | ERef n _ =>
        if bi n then None            (* an embedded Rule object is not an Identifier *)
        else match lookup tbl n with
             | Some r => if memN n seen then None else skip_lits f tbl (n :: seen) (r_body r)
             | None => None
             end
    | _ => None
    end
  end.

Definition skip_fuel (tbl : grammar) (e : expr) : nat := (S (length tbl) * S (gdepth tbl + depth e))%nat.

(* skippers.skip on one node *)
Definition skip1 (tbl : grammar) (e : expr) : expr :=
  match e with
  | EStar (EGrp (ESeq [ENot inner; ERef a _]) _) =>
      if N.eqb a any_id then
        let via_rule :=        (* first case: the operand is an embedded Rule object: its body *)
          match inner with
          | ERef m None => if bi m then match lookup tbl m with
                                        | Some r => skip_lits (skip_fuel tbl (r_body r)) tbl [] (r_body r)
                                        | None => None end
                           else None
          | _ => None
          end in
        match via_rule with
        | Some ws => ESkipUntil ws
        | None => match skip_lits (skip_fuel tbl inner) tbl [] inner with
                  | Some ws => ESkipUntil ws
                  | None => e
                  end
        end
      else e
  | _ => e
  end.

(* skippers.never_skips_trivia *)
Definition never_skips (tbl : grammar) (r : rule) : bool :=
  match r_kind r with KAtomic | KCompound => true | _ => false end
  || is_trivia_name (r_name r)
  || negb (defined_in tbl WS_ID || defined_in tbl CM_ID || defined_in tbl SKIP_ID).

Definition pass_skip (fuel : nat) (order : list N) (g : grammar) : option grammar :=
  fold_left (fun acc n =>
               match acc with
               | None => None
               | Some tbl =>
                   if bi n then Some tbl
                   else match lookup tbl n with
                        | Some r =>
                            if never_skips tbl r then
                              match map_td (skip1 tbl) fuel (r_body r) with
                              | Some b => Some (update tbl n b)
                              | None => None
                              end
                            else Some tbl
                        | None => Some tbl
                        end
               end) order (Some g).
End S.
