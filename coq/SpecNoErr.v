(* SpecNoErr.v — when every rule reference in the grammar is defined, the reference
   semantics never reaches an undefined rule: the result is a tree, a failure, or
   out-of-fuel — never Err. *)
From Coq Require Import List NArith ZArith Bool Arith Lia.
Import ListNotations.
From PP Require Import Base Syntax Spec SpecSyn.

Section NoErr.
Variable g : grammar.
Notation RD := (ref_defined g).
Hypothesis Hg : all_grammar RD g = true.

Lemma skip_refs e : skip_expr g = Some e -> all_sub RD e = true.
Proof.
  intros H. unfold skip_expr in H.
  assert (W : has_ws g = true -> all_sub RD (EStar (ERef WS_ID None)) = true).
  { unfold has_ws. intros E. cbn. destruct (lookup g WS_ID); [reflexivity|discriminate]. }
  assert (C : has_cm g = true -> all_sub RD (ERef CM_ID None) = true).
  { unfold has_cm. intros E. cbn. destruct (lookup g CM_ID); [reflexivity|discriminate]. }
  destruct (has_ws g) eqn:E1, (has_cm g) eqn:E2; inversion H; subst; clear H.
  - rewrite all_sub_seq. cbn [ref_defined all_list forallb andb]. rewrite (W eq_refl).
    change (all_sub RD (EStar (ESeq [ERef CM_ID None; EStar (ERef WS_ID None)])))
      with (all_sub RD (ESeq [ERef CM_ID None; EStar (ERef WS_ID None)])).
    rewrite all_sub_seq. cbn [ref_defined all_list forallb andb].
    rewrite (W eq_refl), (C eq_refl). reflexivity.
  - apply W. reflexivity.
  - cbn. specialize (C eq_refl). cbn in C. exact C.
Qed.

Definition noerr_at (f : nat) : Prop :=
  forall c t s, all_task RD t = true -> run g f c t s <> Err.

Lemma skip_noerr f : noerr_at f -> forall c s,
  skip_with g (fun c' e' => run g f c' (TEval e')) c s <> Err.
Proof.
  intros IH c s. unfold skip_with.
  destruct (c_atom c); try discriminate.
  destruct (skip_expr g) eqn:E; [|discriminate].
  apply IH. cbn. apply skip_refs. exact E.
Qed.

Ltac sub_all H :=
  repeat match type of H with
  | (_ && _) = true => let A := fresh "A" in let B := fresh "B" in
      apply andb_prop in H; destruct H as [A B]; try sub_all A; try sub_all B
  end.

Lemma noerr_all : forall f, noerr_at f.
Proof.
  induction f as [|f IH]; intros c t s Ht; [discriminate|].
  assert (IHk := skip_noerr f IH).
  destruct t as [e|es|es|e]; cbn [all_task] in Ht.
  - destruct e; cbn [run]; cbn [all_sub] in Ht;
      try (apply andb_prop in Ht; destruct Ht as [Hp Ht]);
      try discriminate.
    + destruct (strip_prefix _ _); discriminate.
    + destruct (strip_prefix_ci _ _); discriminate.
    + destruct (s_rest s); [discriminate|]. destruct (_ && _); discriminate.
    + destruct (s_rest s); discriminate.
    + destruct (N.eqb _ _); discriminate.
    + destruct (s_rest s); discriminate.
    + destruct (s_rest s); [discriminate|]. destruct (in_ranges _ _); discriminate.
    + (* ERef *) cbn [ref_defined] in Hp. destruct (lookup g n) as [r|] eqn:EL; [|discriminate].
      assert (B := all_grammar_lookup RD g n r Hg EL).
      specialize (IH (rule_ctx c r) (TEval (r_body r)) (push_tag tag s) B).
      destruct (run g f _ (TEval (r_body r)) _); try discriminate; try (exfalso; apply IH; reflexivity).
      destruct (finish_rule _ _ _ _ _). discriminate.
    + apply IH. exact Ht.
    + apply IH. exact Ht.
    + specialize (IH c (TEval e) s Ht). destruct (run g f c (TEval e) s); try discriminate. exact IH.
    + assert (IH1 := IH c (TEval e) s Ht).
      destruct (run g f c (TEval e) s) as [s1 p1|t| |]; try discriminate; [|exact IH1].
      assert (IH2 := IH c (TStar e) s1 Ht).
      destruct (run g f c (TStar e) s1); try discriminate. exact IH2.
    + apply IH. cbn. rewrite !Ht. reflexivity.
    + apply IH. cbn [all_task]. apply all_list_repeat. exact Ht.
    + apply IH. cbn [all_task]. rewrite all_list_app, all_list_repeat by exact Ht.
      cbn. rewrite Ht. reflexivity.
    + apply IH. cbn [all_task]. apply all_list_repeat. cbn. exact Ht.
    + apply IH. cbn [all_task]. rewrite all_list_app, !all_list_repeat; [reflexivity|cbn; exact Ht|exact Ht].
    + specialize (IH c (TEval e) s Ht). destruct (run g f c (TEval e) s); try discriminate. exact IH.
    + specialize (IH (neg_ctx c) (TEval e) s Ht). destruct (run g f (neg_ctx c) (TEval e) s); try discriminate. exact IH.
    + specialize (IH c (TEval e) (push_tag tag s) Ht). destruct (run g f c (TEval e) _); try discriminate. exact IH.
    + specialize (IH c (TEval e) s Ht). destruct (run g f c (TEval e) s); try discriminate. exact IH.
    + destruct (s_stk s); [discriminate|]. destruct (strip_prefix _ _); discriminate.
    + destruct (match_all _ _ _) as [[? ?]|]; discriminate.
    + destruct (match_all _ _ _) as [[? ?]|]; discriminate.
    + destruct (s_stk s); [discriminate|]. destruct (strip_prefix _ _); discriminate.
    + destruct (match_all _ _ _) as [[? ?]|]; discriminate.
    + destruct (s_stk s); discriminate.
  - cbn [run]. destruct es as [|e1 es']; [discriminate|].
    cbn [all_list forallb] in Ht. apply andb_prop in Ht. destruct Ht as [H1 H2].
    assert (IH1 := IH c (TEval e1) s H1).
    destruct (run g f c (TEval e1) s) as [s1 p1|t| |]; try discriminate; [|exact IH1].
    destruct es' as [|e2 es'']; [discriminate|].
    assert (IH2 := IHk c s1).
    destruct (skip_with g _ c s1) as [s2 pw|t| |]; try discriminate; [|exact IH2].
    assert (IH3 := IH c (TSeq (e2 :: es'')) s2 H2).
    destruct (run g f c (TSeq (e2 :: es'')) s2); try discriminate. exact IH3.
  - cbn [run]. destruct es as [|e1 es']; [discriminate|].
    cbn [all_list forallb] in Ht. apply andb_prop in Ht. destruct Ht as [H1 H2].
    assert (IH1 := IH c (TEval e1) s H1).
    destruct (run g f c (TEval e1) s) as [s1 p1|t| |]; try discriminate; [|exact IH1].
    apply IH. exact H2.
  - cbn [run].
    assert (IH1 := IHk c s).
    destruct (skip_with g _ c s) as [s2 pw|t| |]; try discriminate; [|exact IH1].
    assert (IH2 := IH c (TEval e) s2 Ht).
    destruct (run g f c (TEval e) s2) as [s3 p3|t| |]; try discriminate; [|exact IH2].
    assert (IH3 := IH c (TStar e) s3 Ht).
    destruct (run g f c (TStar e) s3); try discriminate. exact IH3.
Qed.

Theorem parse_no_err : forall f rule input k,
  (exists r, lookup g rule = Some r) -> parse g f rule input k <> Err.
Proof.
  intros f rule input k [r Hr]. unfold parse, eval. apply noerr_all.
  cbn. rewrite Hr. reflexivity.
Qed.

End NoErr.
