(* SpecLaws.v — the clauses of pest's matching semantics, read off the reference semantics.
   `evals` is the fuel-independent big-step relation. *)
From Coq Require Import List NArith ZArith Bool Arith Lia.
Import ListNotations.
From PP Require Import Base Syntax Spec SpecMono.

Section Laws.
Variable g : grammar.

Definition runs (c : ctx) (t : task) (s : st) (r : res) : Prop :=
  exists f, run g f c t s = r /\ r <> Fuel.
Definition evals (c : ctx) (e : expr) (s : st) (r : res) : Prop := runs c (TEval e) s r.

Lemma runs_det c t s r1 r2 : runs c t s r1 -> runs c t s r2 -> r1 = r2.
Proof.
  intros [f1 [H1 D1]] [f2 [H2 D2]].
  assert (A := run_mono g f1 (max f1 f2) c t s r1 H1 D1 (Nat.le_max_l _ _)).
  assert (B := run_mono g f2 (max f1 f2) c t s r2 H2 D2 (Nat.le_max_r _ _)).
  congruence.
Qed.

Lemma runs_step c t t' s r : (forall f, run g (S f) c t s = run g f c t' s) ->
  (runs c t s r <-> runs c t' s r).
Proof.
  intros E. split; intros [f [H D]].
  - destruct f as [|f]; [cbn in H; congruence|]. exists f. rewrite <- E. split; assumption.
  - exists (S f). rewrite E. split; assumption.
Qed.

(* ---------- sequences, choices, repetitions (C03) ---------- *)

Lemma seq_is_its_task c es s r : evals c (ESeq es) s r <-> runs c (TSeq es) s r.
Proof. apply runs_step. reflexivity. Qed.
Lemma alt_is_its_task c es s r : evals c (EAlt es) s r <-> runs c (TAlt es) s r.
Proof. apply runs_step. reflexivity. Qed.

(* bounded repetitions ARE their unrolled sequences *)
Theorem plus_unrolled c e s r : evals c (EPlus e) s r <-> evals c (ESeq [e; EStar e]) s r.
Proof. rewrite seq_is_its_task. unfold evals. apply runs_step. reflexivity. Qed.
Theorem repn_unrolled c e n s r : evals c (ERepN e n) s r <-> evals c (ESeq (repeat e n)) s r.
Proof. rewrite seq_is_its_task. unfold evals. apply runs_step. reflexivity. Qed.
Theorem repmin_unrolled c e n s r :
  evals c (ERepMin e n) s r <-> evals c (ESeq (repeat e n ++ [EStar e])) s r.
Proof. rewrite seq_is_its_task. unfold evals. apply runs_step. reflexivity. Qed.
Theorem repmax_unrolled c e n s r :
  evals c (ERepMax e n) s r <-> evals c (ESeq (repeat (EOpt e) n)) s r.
Proof. rewrite seq_is_its_task. unfold evals. apply runs_step. reflexivity. Qed.
Theorem repminmax_unrolled c e m n s r :
  evals c (ERepMinMax e m n) s r <-> evals c (ESeq (repeat e m ++ repeat (EOpt e) (n - m))) s r.
Proof. rewrite seq_is_its_task. unfold evals. apply runs_step. reflexivity. Qed.

(* ordered choice commits to the first alternative that matches ... *)
Theorem choice_commits c e1 es s s1 p :
  evals c e1 s (Ok s1 p) -> evals c (EAlt (e1 :: es)) s (Ok s1 p).
Proof.
  intros [f [H D]]. exists (S (S f)). split; [|discriminate].
  cbn [run]. rewrite H. reflexivity.
Qed.

(* ... and a failed alternative leaves no trace: the next one starts from the same position,
   stack and pending tags (only the furthest-failure record is kept) *)
Theorem choice_backtracks c e1 es s t r :
  evals c e1 s (Fail t) -> evals c (EAlt es) (set_trk s t) r -> evals c (EAlt (e1 :: es)) s r.
Proof.
  intros [f1 [H1 D1]] H2. apply alt_is_its_task in H2. destruct H2 as [f2 [H2 D2]].
  exists (S (S (max f1 f2))). split; [|exact D2]. cbn [run].
  rewrite (run_mono g f1 (max f1 f2) _ _ _ _ H1 D1 (Nat.le_max_l _ _)).
  apply (run_mono g f2 (max f1 f2) _ _ _ _ H2 D2 (Nat.le_max_r _ _)).
Qed.

Theorem choice_empty_fails c s : evals c (EAlt []) s (Fail (s_trk s)).
Proof. exists 2. split; [reflexivity|discriminate]. Qed.

(* optional never fails and keeps nothing of a failed attempt *)
Theorem opt_of_failure c e s t : evals c e s (Fail t) -> evals c (EOpt e) s (Ok (set_trk s t) []).
Proof. intros [f [H D]]. exists (S f). split; [cbn [run]; rewrite H; reflexivity|discriminate]. Qed.
Theorem opt_of_success c e s s1 p : evals c e s (Ok s1 p) -> evals c (EOpt e) s (Ok s1 p).
Proof. intros [f [H D]]. exists (S f). split; [cbn [run]; rewrite H; reflexivity|discriminate]. Qed.

(* predicates consume nothing, change nothing and contribute no pairs *)
Theorem and_consumes_nothing c e s s1 p :
  evals c (EAnd e) s (Ok s1 p) ->
  p = [] /\ s_pos s1 = s_pos s /\ s_rest s1 = s_rest s /\ s_stk s1 = s_stk s /\ s_tags s1 = s_tags s.
Proof.
  intros [f [H D]]. destruct f as [|f]; [discriminate|]. cbn [run] in H.
  destruct (run g f c (TEval e) s); inversion H; subst. repeat split; reflexivity.
Qed.

Theorem not_consumes_nothing c e s s1 p :
  evals c (ENot e) s (Ok s1 p) ->
  p = [] /\ s_pos s1 = s_pos s /\ s_rest s1 = s_rest s /\ s_stk s1 = s_stk s /\ s_tags s1 = s_tags s.
Proof.
  intros [f [H D]]. destruct f as [|f]; [discriminate|]. cbn [run] in H.
  destruct (run g f (neg_ctx c) (TEval e) s); inversion H; subst. repeat split; reflexivity.
Qed.

Theorem not_inverts c e s :
  (forall s1 p, evals (neg_ctx c) e s (Ok s1 p) -> exists t, evals c (ENot e) s (Fail t)) /\
  (forall t, evals (neg_ctx c) e s (Fail t) -> evals c (ENot e) s (Ok (set_trk s t) [])).
Proof.
  split.
  - intros s1 p [f [H D]]. eexists. exists (S f). split; [cbn [run]; rewrite H; reflexivity|discriminate].
  - intros t [f [H D]]. exists (S f). split; [cbn [run]; rewrite H; reflexivity|discriminate].
Qed.

(* repetition is greedy and never gives a match back: e* stops exactly where (after the
   implicit trivia) e fails, and the trivia before the failing attempt is not consumed *)
Lemma star_loop_stops : forall f c e s s' ps,
  run g f c (TStar e) s = Ok s' ps ->
  exists s0 s2 pw t,
    s' = set_trk s0 t /\
    runs c (TStar e) s0 (Ok s' []) /\
    skip_with g (fun c' e' => run g (pred f) c' (TEval e')) c s0 = Ok s2 pw /\
    runs c (TEval e) s2 (Fail t).
Proof.
  induction f as [|f IH]; intros c e s s' ps H; [discriminate|]. cbn [run] in H.
  destruct (skip_with g _ c s) as [s2 pw|t| |] eqn:EK; try discriminate.
  destruct (run g f c (TEval e) s2) as [s3 p3|t| |] eqn:E2; try discriminate.
  - destruct (run g f c (TStar e) s3) as [s4 p4|t| |] eqn:E3; try discriminate.
    inversion H; subst. destruct (IH c e s3 s' p4 E3) as [s0 [s2' [pw' [t [A [B [C D]]]]]]].
    exists s0, s2', pw', t. repeat split; try assumption.
    destruct f as [|f]; [discriminate|].
    cbn [pred] in *. unfold skip_with in *. destruct (c_atom c); try exact C.
    destruct (skip_expr g); [|exact C].
    apply (run_mono g f (S f)); [exact C|discriminate|lia].
  - inversion H; subst. exists s, s2, pw, t. repeat split.
    + exists (S f). split; [cbn [run]; rewrite EK, E2; reflexivity|discriminate].
    + cbn [pred]. exact EK.
    + exists f. split; [exact E2|discriminate].
Qed.

(* ---------- implicit trivia and atomicity (C04) ---------- *)

(* trivia goes between two elements of a sequence, never after the last one *)
Theorem seq_trivia_placement f c e1 e2 es s :
  run g (S f) c (TSeq (e1 :: e2 :: es)) s =
  match run g f c (TEval e1) s with
  | Ok s1 p1 =>
      match skip_with g (fun c' e' => run g f c' (TEval e')) c s1 with
      | Ok s2 pw =>
          match run g f c (TSeq (e2 :: es)) s2 with
          | Ok s3 p3 => Ok s3 (p1 ++ pw ++ p3)
          | x => x
          end
      | x => x
      end
  | x => x
  end.
Proof. reflexivity. Qed.

Theorem seq_last_no_trivia f c e1 s : run g (S f) c (TSeq [e1]) s = run g f c (TEval e1) s.
Proof. cbn [run]. destruct (run g f c (TEval e1) s); reflexivity. Qed.

(* no implicit trivia inside atomic and compound-atomic contexts *)
Theorem atomic_no_trivia ev c s : c_atom c <> NonAtomic -> skip_with g ev c s = Ok s [].
Proof. intros H. unfold skip_with. destruct (c_atom c); [congruence|reflexivity|reflexivity]. Qed.

(* no trivia rules: skip is the identity *)
Theorem no_trivia_rules ev c s : has_ws g = false -> has_cm g = false -> skip_with g ev c s = Ok s [].
Proof.
  intros H1 H2. unfold skip_with, skip_expr. rewrite H1, H2. destruct (c_atom c); reflexivity.
Qed.

(* how a rule sets the atomicity of its body *)
Theorem rule_atomicity c r :
  body_atom c r =
  match r_kind r with
  | KCompound => Compound
  | KAtomic => Atomic
  | KNonAtomic => if is_trivia_name (r_name r) then Atomic else NonAtomic
  | KNormal => if is_trivia_name (r_name r) then Atomic else c_atom c
  end.
Proof. reflexivity. Qed.

(* an atomic context hides the pairs of normal and atomic rules, never those of $ and ! rules *)
Theorem atomic_hides c r : c_atom c = Atomic -> (r_kind r = KNormal \/ r_kind r = KAtomic) ->
  visible c r = false.
Proof. intros H [K|K]; unfold visible; rewrite H, K; apply andb_false_r. Qed.

Theorem compound_nonatomic_visible c r : r_silent r = false ->
  (r_kind r = KCompound \/ r_kind r = KNonAtomic) -> visible c r = true.
Proof. intros S [K|K]; unfold visible; rewrite S, K; reflexivity. Qed.

(* ---------- stack operations (C05) ---------- *)

Theorem push_pushes_matched_text c e s s1 p :
  evals c e s (Ok s1 p) ->
  evals c (EPush e) s
    (Ok (set_stk s1 (firstn (N.to_nat (s_pos s1 - s_pos s)) (s_rest s) :: s_stk s1)) p).
Proof. intros [f [H D]]. exists (S f). split; [cbn [run]; rewrite H; reflexivity|discriminate]. Qed.

Theorem push_literal_always c w s : evals c (EPushLit w) s (Ok (set_stk s (w :: s_stk s)) []).
Proof. exists 1. split; [reflexivity|discriminate]. Qed.

Theorem peek_matches_top c s w k r :
  s_stk s = w :: k -> strip_prefix w (s_rest s) = Some r ->
  evals c EPeek s (Ok (adv s (lenN w) r) []).
Proof. intros E1 E2. exists 1. split; [cbn [run]; rewrite E1, E2; reflexivity|discriminate]. Qed.

Theorem pop_matches_and_removes c s w k r :
  s_stk s = w :: k -> strip_prefix w (s_rest s) = Some r ->
  evals c EPop s (Ok (set_stk (adv s (lenN w) r) k) []).
Proof. intros E1 E2. exists 1. split; [cbn [run]; rewrite E1, E2; reflexivity|discriminate]. Qed.

Theorem drop_removes_or_fails c s :
  match s_stk s with
  | [] => exists t, evals c EDrop s (Fail t)
  | _ :: k => evals c EDrop s (Ok (set_stk s k) [])
  end.
Proof.
  destruct (s_stk s) eqn:E.
  - eexists. exists 1. split; [cbn [run]; rewrite E; reflexivity|discriminate].
  - exists 1. split; [cbn [run]; rewrite E; reflexivity|discriminate].
Qed.

Theorem pop_all_empties_on_success c s s1 p :
  evals c EPopAll s (Ok s1 p) -> s_stk s1 = [] /\ p = [].
Proof.
  intros [f [H D]]. destruct f as [|f]; [discriminate|]. cbn [run] in H.
  destruct (match_all _ _ _) as [[r n]|]; inversion H; subst. split; reflexivity.
Qed.

(* the entries are matched top to bottom (PEEK_ALL, POP_ALL) or, for a slice, bottom to top *)
Theorem peek_all_top_to_bottom c s s1 p :
  evals c EPeekAll s (Ok s1 p) ->
  exists r n, match_all (s_stk s) (s_rest s) 0 = Some (r, n) /\ s1 = adv s n r /\ p = [].
Proof.
  intros [f [H D]]. destruct f as [|f]; [discriminate|]. cbn [run] in H.
  destruct (match_all _ _ _) as [[r n]|] eqn:E; inversion H; subst. exists r, n. repeat split.
Qed.

Theorem peek_slice_bottom_to_top c a b s s1 p :
  evals c (EPeekSl a b) s (Ok s1 p) ->
  exists r n, match_all (py_slice (rev (s_stk s)) a b) (s_rest s) 0 = Some (r, n)
              /\ s1 = adv s n r /\ p = [].
Proof.
  intros [f [H D]]. destruct f as [|f]; [discriminate|]. cbn [run] in H.
  destruct (match_all _ _ _) as [[r n]|] eqn:E; inversion H; subst. exists r, n. repeat split.
Qed.

(* a failing stack operation changes neither position nor stack: failure carries only the
   furthest-failure record; stack operations never produce Err *)
Theorem stack_ops_total c e s :
  match e with EPeek | EPop | EDrop | EPeekAll | EPopAll | EPeekSl _ _ | EPushLit _ => True | _ => False end ->
  exists r, evals c e s r /\ r <> Err.
Proof.
  intros He. destruct e; try contradiction.
  - eexists. split; [exists 1; split; [reflexivity|discriminate]|discriminate].
  - destruct (s_stk s) as [|w k] eqn:E1.
    + eexists. split; [exists 1; split; [cbn [run]; rewrite E1; reflexivity|discriminate]|discriminate].
    + destruct (strip_prefix w (s_rest s)) eqn:E2;
        (eexists; split; [exists 1; split; [cbn [run]; rewrite E1, E2; reflexivity|discriminate]|discriminate]).
  - destruct (match_all (py_slice (rev (s_stk s)) a b) (s_rest s) 0) as [[r n]|] eqn:E;
      (eexists; split; [exists 1; split; [cbn [run]; rewrite E; reflexivity|discriminate]|discriminate]).
  - destruct (match_all (s_stk s) (s_rest s) 0) as [[r n]|] eqn:E;
      (eexists; split; [exists 1; split; [cbn [run]; rewrite E; reflexivity|discriminate]|discriminate]).
  - destruct (s_stk s) as [|w k] eqn:E1.
    + eexists. split; [exists 1; split; [cbn [run]; rewrite E1; reflexivity|discriminate]|discriminate].
    + destruct (strip_prefix w (s_rest s)) eqn:E2;
        (eexists; split; [exists 1; split; [cbn [run]; rewrite E1, E2; reflexivity|discriminate]|discriminate]).
  - destruct (match_all (s_stk s) (s_rest s) 0) as [[r n]|] eqn:E;
      (eexists; split; [exists 1; split; [cbn [run]; rewrite E; reflexivity|discriminate]|discriminate]).
  - destruct (s_stk s) as [|w k] eqn:E1;
      (eexists; split; [exists 1; split; [cbn [run]; rewrite E1; reflexivity|discriminate]|discriminate]).
Qed.

End Laws.
