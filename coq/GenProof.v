From Coq Require Import List NArith ZArith Bool Arith Lia.
Import ListNotations.
From PP Require Import Base Syntax Spec SpecMono SpecLaws Interp InterpProof Gen.

(* GenProof.v — the model of the generated code (Gen.v) refines the reference semantics (Spec.v).

   Route.  Gen.v and Interp.v work on the same state with the same helpers and (for inl = [])
   the same recursion structure, so the generated code is first shown to run in LOCKSTEP with
   the interpreter, at the same fuel (`gi_sim`): same verdict, and
     - on success the same state and the same pairs,
     - on failure the same state except for the pending tags (difference 2: a non-silent rule
       pops the tag before looking at `matched`), the pairs being garbage (difference 1).
   `gparse_refines` (A) is then InterpProof.iparse_refines transported along `gi_sim`.
   For a general `inl` a second lockstep simulation (`simB`) relates the run with inlined
   built-ins to the run with inl = []: all state fields agree except the rule stack, the rule
   stacks saved in checkpoints and the NAMES in the failure tracker (B).  (C) combines the two
   with fuel monotonicity of the reference. *)

(* ==================================================================================== *)
(* Part 0: facts about a single run of the generated code (any inl): the frame condition *)

Lemma inlined_nil n : inlined [] n = false.
Proof. reflexivity. Qed.

Lemma leave_rules r s : i_rules (leave r s) = i_rules s.
Proof. unfold leave. destruct (depth_mode r); reflexivity. Qed.
Lemma leave_pos r s : i_pos (leave r s) = i_pos s.
Proof. unfold leave. destruct (depth_mode r); reflexivity. Qed.
Lemma leave_tags r s : i_tags (leave r s) = i_tags s.
Proof. unfold leave. destruct (depth_mode r); reflexivity. Qed.
Lemma enter_rules r s : i_rules (enter r s) = r_name r :: i_rules s.
Proof. unfold enter. destruct (depth_mode r); reflexivity. Qed.

Lemma grun_rule g inl f r s :
  grun g inl (S f) (GRule r) s =
  if inlined inl (r_name r) then grun g inl f (GEval (r_body r)) s else
  match grun g inl f (GEval (r_body r)) (enter r s) with
  | GOk m s3 kids =>
      match i_rules (leave r s3) with
      | [] => GCrash
      | _ :: rl =>
          let s5 := upd_rules (leave r s3) rl in
          if r_silent r then GOk m s5 (if hides r then vis g kids else kids)
          else if m then GOk true (upd_tags s5 (tl (i_tags s5)))
                 [Pair (r_name r) (i_pos s) (i_pos s5) (if hides r then vis g kids else kids)
                    (match i_tags s5 with t0 :: _ => Some t0 | [] => None end)]
               else GOk false (upd_tags s5 (tl (i_tags s5))) []
      end
  | x => x
  end.
Proof. reflexivity. Qed.

(* ==================================================================================== *)
(* Part 1: the generated code (inl = []) runs in lockstep with the interpreter *)

(* equal except for the pending tags *)
Definition eqx (a b : ist) : Prop :=
  i_pos a = i_pos b /\ i_rest a = i_rest b /\ i_user a = i_user b /\ i_rules a = i_rules b /\
  i_depth a = i_depth b /\ i_dcps a = i_dcps b /\ i_saved a = i_saved b /\ i_neg a = i_neg b /\
  i_sup a = i_sup b /\ i_trk a = i_trk b.

Lemma eqx_refl a : eqx a a.
Proof. repeat split. Qed.

Lemma eqx_restore a b : eqx a b -> irestore a = irestore b.
Proof.
  intros (H1 & H2 & H3 & H4 & H5 & H6 & H7 & H8 & H9 & H10). unfold irestore.
  rewrite H6, H7, H8, H9, H10. reflexivity.
Qed.

Ltac eqx_solve :=
  match goal with H : eqx _ _ |- _ => destruct H as (?&?&?&?&?&?&?&?&?&?) end;
  unfold eqx, leave; try match goal with |- context [depth_mode ?r] => destruct (depth_mode r) end;
  cbn; repeat split;
  first [ congruence
        | repeat match goal with H : ?a = _ |- context [?a] => rewrite H end; reflexivity ].

Definition conv (t : gtask) : itask :=
  match t with
  | GEval e => IEval e
  | GSeq es => ISeq es
  | GAlt es => IAlt es
  | GStar e b => IStar e b
  | GTrivia => ITrivia
  | GWsLoop => IWsLoop
  | GTrivLoop => ITrivLoop
  | GTrivOnce n => ITrivRule n
  | GRule r => IRule r
  end.

(* the correspondence of results; the `matched` flag of the trivia tasks is never looked at by
   their callers and differs between the two machines (difference 4) *)
Definition grel (t : gtask) (gr : gres) (ir : ires) : Prop :=
  match gr, ir with
  | GOk mg sg pg, IOk mi si pi =>
      match t with
      | GTrivia | GWsLoop | GTrivLoop => sg = si /\ pg = pi
      | GTrivOnce _ => mg = mi /\ sg = si /\ (mg = true -> pg = pi)
      | _ => mg = mi /\ (if mg then sg = si /\ pg = pi else eqx sg si)
      end
  | GCrash, ICrash => True
  | GUndef, IUndef => True
  | GFuel, IFuel => True
  | _, _ => False
  end.

Lemma ok_rel t m s ps : grel t (GOk m s ps) (IOk m s ps).
Proof.
  destruct t; cbn [grel]; try (split; reflexivity);
    try (split; [reflexivity|]; destruct m; [split; reflexivity|apply eqx_refl]).
  split; [reflexivity|]. split; [reflexivity|]. intros _. reflexivity.
Qed.

Lemma fail_rel e s : grel (GEval e) (gfail_here s) (fail_here s).
Proof.
  unfold gfail_here, fail_here. destruct (ifail s false None); [apply ok_rel|exact I].
Qed.

Section GI.
Variable g : grammar.

Tactic Notation "call" constr(IH) constr(t) constr(s) "as" ident(X)
    ident(mg) ident(sg) ident(pg) ident(mi) ident(si) ident(pi) :=
  pose proof (IH t s) as X; cbn [conv] in X;
  let it := eval cbn [conv] in (conv t) in
  destruct (grun g [] _ t s) as [mg sg pg| | |];
  destruct (irun g _ it s) as [mi si pi| | |];
  cbn [grel] in X; try contradiction; try exact I.

Lemma gi_sim : forall f t s, grel t (grun g [] f t s) (irun g f (conv t) s).
Proof.
  induction f as [|f IH]; intros t s; [exact I|].
  destruct t as [e|es|es|e first| | | |n|r]; cbn [conv].
  - (* ---------------- GEval ---------------- *)
    destruct e; cbn [grun irun];
      try exact (IH (GSeq _) s); try exact (IH (GAlt _) s); try exact (IH (GStar _ true) s);
      try (lazymatch goal with |- context [grun] => fail | _ => idtac end; cbv zeta;
           repeat (match goal with |- context [match ?x with _ => _ end] => destruct x end);
           first [apply ok_rel | apply fail_rel]; fail).
    + (* ERef *)
      destruct (lookup g n) as [r|]; [|exact I]. cbv zeta.
      destruct tag as [tg|].
      * call IH (GRule r) (upd_tags s (tg :: i_tags s)) as X mg sg pg mi si pi.
        destruct X as [<- X]. destruct mg.
        -- destruct X as [<- <-]. apply ok_rel.
        -- cbn [grel]. split; [reflexivity|]. eqx_solve.
      * call IH (GRule r) s as X mg sg pg mi si pi.
        destruct X as [<- X]. destruct mg.
        -- destruct X as [<- <-]. apply ok_rel.
        -- cbn [grel]. split; [reflexivity|]. exact X.
    + (* EOpt *)
      call IH (GEval e) (icheckpoint s) as X mg sg pg mi si pi.
      destruct X as [<- X]. destruct mg.
      * destruct X as [<- <-]. destruct (iok sg); [apply ok_rel|exact I].
      * rewrite (eqx_restore _ _ X). destruct (irestore si); [apply ok_rel|exact I].
    + (* EAnd *)
      call IH (GEval e) (icheckpoint s) as X mg sg pg mi si pi.
      destruct X as [<- X].
      assert (E : irestore sg = irestore si).
      { destruct mg; [destruct X as [<- _]; reflexivity|apply eqx_restore; exact X]. }
      rewrite E. destruct (irestore si); [apply ok_rel|exact I].
    + (* ENot *)
      call IH (GEval e) (upd_neg (icheckpoint s) (S (i_neg s))) as X mg sg pg mi si pi.
      destruct X as [<- X].
      assert (E : irestore sg = irestore si).
      { destruct mg; [destruct X as [<- _]; reflexivity|apply eqx_restore; exact X]. }
      rewrite E. destruct (irestore si) as [s2|]; [|exact I].
      destruct mg; [|apply ok_rel].
      destruct (ifail s2 true _); [apply ok_rel|exact I].
    + (* EGrp *)
      cbv zeta. destruct tag as [tg|].
      * call IH (GEval e) (upd_tags s (tg :: i_tags s)) as X mg sg pg mi si pi.
        destruct X as [<- X]. destruct mg.
        -- destruct X as [<- <-]. apply ok_rel.
        -- cbn [grel]. split; [reflexivity|]. eqx_solve.
      * call IH (GEval e) s as X mg sg pg mi si pi.
        destruct X as [<- X]. destruct mg.
        -- destruct X as [<- <-]. apply ok_rel.
        -- cbn [grel]. split; [reflexivity|]. exact X.
    + (* EPush *)
      call IH (GEval e) s as X mg sg pg mi si pi.
      destruct X as [<- X]. destruct mg.
      * destruct X as [<- <-]. apply ok_rel.
      * cbn [grel]. split; [reflexivity|]. exact X.
  - (* ---------------- GSeq ---------------- *)
    cbn [grun irun]. destruct es as [|e1 es']; [apply ok_rel|].
    call IH (GEval e1) s as X1 m1 s1 p1 mi1 si1 pi1.
    destruct X1 as [<- X1]. destruct m1; [|cbn [grel]; split; [reflexivity|exact X1]].
    destruct X1 as [<- <-]. destruct es' as [|e2 es'']; [apply ok_rel|].
    call IH GTrivia s1 as X2 m2 s2 pw mi2 si2 pwi.
    destruct X2 as [<- <-].
    call IH (GSeq (e2 :: es'')) s2 as X3 m3 s3 p3 mi3 si3 pi3.
    destruct X3 as [<- X3]. destruct m3.
    + destruct X3 as [<- <-]. apply ok_rel.
    + cbn [grel]. split; [reflexivity|exact X3].
  - (* ---------------- GAlt ---------------- *)
    cbn [grun irun]. destruct es as [|e1 es']; [apply ok_rel|].
    call IH (GEval e1) (icheckpoint s) as X1 m1 s1 p1 mi1 si1 pi1.
    destruct X1 as [<- X1]. destruct m1.
    + destruct X1 as [<- <-]. destruct (iok s1); [apply ok_rel|exact I].
    + rewrite (eqx_restore _ _ X1). destruct (irestore si1) as [s2|]; [|exact I].
      exact (IH (GAlt es') s2).
  - (* ---------------- GStar ---------------- *)
    cbn [grun irun]. cbv zeta.
    assert (T : forall gr ir, grel GTrivia gr ir ->
      grel (GStar e first)
        (match gr with
         | GOk _ s1 pw =>
             match grun g [] f (GEval e) s1 with
             | GOk true s2 p2 =>
                 match iok s2 with
                 | None => GCrash
                 | Some s3 =>
                     match grun g [] f (GStar e false) s3 with
                     | GOk m s4 p4 => GOk m s4 (pw ++ p2 ++ p4)
                     | x => x
                     end
                 end
             | GOk false s2 _ =>
                 match irestore s2 with Some s3 => GOk true s3 [] | None => GCrash end
             | x => x
             end
         | GCrash => GCrash | GUndef => GUndef | GFuel => GFuel
         end)
        (match ir with
         | IOk _ s1 pw =>
             match irun g f (IEval e) s1 with
             | IOk true s2 p2 =>
                 match iok s2 with
                 | None => ICrash
                 | Some s3 =>
                     match irun g f (IStar e false) s3 with
                     | IOk m s4 p4 => IOk m s4 (pw ++ p2 ++ p4)
                     | x => x
                     end
                 end
             | IOk false s2 _ =>
                 match irestore s2 with Some s3 => IOk true s3 [] | None => ICrash end
             | x => x
             end
         | ICrash => ICrash | IUndef => IUndef | IFuel => IFuel
         end)).
    { intros gr ir X0.
      destruct gr as [m0 s1 pw| | |]; destruct ir as [mi0 si0 pwi| | |];
        cbn [grel] in X0; try contradiction; try exact I.
      destruct X0 as [<- <-].
      call IH (GEval e) s1 as X2 m2 s2 p2 mi2 si2 pi2.
      destruct X2 as [<- X2]. destruct m2.
      - destruct X2 as [<- <-]. destruct (iok s2) as [s3|]; [|exact I].
        call IH (GStar e false) s3 as X4 m4 s4 p4 mi4 si4 pi4.
        destruct X4 as [<- X4]. destruct m4.
        + destruct X4 as [<- <-]. apply ok_rel.
        + cbn [grel]. split; [reflexivity|exact X4].
      - rewrite (eqx_restore _ _ X2). destruct (irestore si2); [apply ok_rel|exact I]. }
    destruct first.
    + apply (T (GOk true (icheckpoint s) []) (IOk false (icheckpoint s) [])).
      cbn [grel]. split; reflexivity.
    + apply (T (grun g [] f GTrivia (icheckpoint s)) (irun g f ITrivia (icheckpoint s))).
      exact (IH GTrivia (icheckpoint s)).
  - (* ---------------- GTrivia ---------------- *)
    cbn [grun irun]. change (ghas_rule g) with (has_rule g).
    destruct (negb (has_rule g WS_ID) && negb (has_rule g CM_ID));
      destruct (Nat.ltb 0 (i_depth s)); try (cbn [grel]; split; reflexivity).
    call IH GTrivLoop (upd_sup s true) as X m1 s1 p1 mi1 si1 pi1.
    destruct X as [<- <-]. split; reflexivity.
  - (* ---------------- GWsLoop ---------------- *)
    cbn [grun irun].
    call IH (GTrivOnce WS_ID) s as X1 m1 s1 p1 mi1 si1 pi1.
    destruct X1 as [<- [<- X1]]. destruct m1; [|cbn [grel]; split; reflexivity].
    rewrite <- (X1 eq_refl).
    call IH GWsLoop s1 as X2 m2 s2 p2 mi2 si2 pi2.
    destruct X2 as [<- <-]. split; reflexivity.
  - (* ---------------- GTrivLoop ---------------- *)
    cbn [grun irun]. change (ghas_rule g) with (has_rule g).
    assert (T : forall gr ir, grel GWsLoop gr ir ->
      grel GTrivLoop
        (match gr with
         | GOk _ s1 p1 =>
             if has_rule g CM_ID then
               match grun g [] f (GTrivOnce CM_ID) s1 with
               | GOk true s2 p2 =>
                   match grun g [] f GTrivLoop s2 with
                   | GOk m s3 p3 => GOk m s3 (p1 ++ p2 ++ p3)
                   | x => x
                   end
               | GOk false s2 _ => GOk true s2 p1
               | x => x
               end
             else GOk true s1 p1
         | GCrash => GCrash | GUndef => GUndef | GFuel => GFuel
         end)
        (match ir with
         | IOk _ s1 p1 =>
             if has_rule g CM_ID then
               match irun g f (ITrivRule CM_ID) s1 with
               | IOk true s2 p2 =>
                   match irun g f ITrivLoop s2 with
                   | IOk m s3 p3 => IOk m s3 (p1 ++ p2 ++ p3)
                   | x => x
                   end
               | IOk false s2 _ => IOk true s2 p1
               | x => x
               end
             else IOk true s1 p1
         | ICrash => ICrash | IUndef => IUndef | IFuel => IFuel
         end)).
    { intros gr ir X0.
      destruct gr as [m0 s1 p1| | |]; destruct ir as [mi0 si0 pi0| | |];
        cbn [grel] in X0; try contradiction; try exact I.
      destruct X0 as [<- <-].
      destruct (has_rule g CM_ID); [|cbn [grel]; split; reflexivity].
      call IH (GTrivOnce CM_ID) s1 as X2 m2 s2 p2 mi2 si2 pi2.
      destruct X2 as [<- [<- X2]]. destruct m2; [|cbn [grel]; split; reflexivity].
      rewrite <- (X2 eq_refl).
      call IH GTrivLoop s2 as X3 m3 s3 p3 mi3 si3 pi3.
      destruct X3 as [<- <-]. split; reflexivity. }
    destruct (has_rule g WS_ID).
    + apply (T (grun g [] f GWsLoop s) (irun g f IWsLoop s)). exact (IH GWsLoop s).
    + apply (T (GOk false s []) (IOk false s [])). cbn [grel]. split; reflexivity.
  - (* ---------------- GTrivOnce ---------------- *)
    cbn [grun irun]. destruct (lookup g n) as [r|]; [|exact I].
    call IH (GRule r) (icheckpoint s) as X m1 s1 p1 mi1 si1 pi1.
    destruct X as [<- X]. destruct m1.
    + destruct X as [<- <-]. destruct (iok s1); [|exact I].
      cbn [grel]. split; [reflexivity|]. split; [reflexivity|]. intros _. reflexivity.
    + rewrite (eqx_restore _ _ X). destruct (irestore si1); [|exact I].
      cbn [grel]. split; [reflexivity|]. split; [reflexivity|]. intros D. discriminate D.
  - (* ---------------- GRule ---------------- *)
    rewrite grun_rule, irun_rule, inlined_nil.
    call IH (GEval (r_body r)) (enter r s) as X m3 s3 kids mi3 si3 kidsi.
    destruct X as [<- X]. destruct m3.
    + destruct X as [<- <-]. destruct (i_rules (leave r s3)) as [|x rl]; [exact I|].
      cbv zeta. cbn [negb]. destruct (r_silent r); apply ok_rel.
    + rewrite !leave_rules.
      assert (ER : i_rules s3 = i_rules si3) by (destruct X as (_&_&_&ER&_); exact ER).
      rewrite ER. destruct (i_rules si3) as [|x rl]; [exact I|].
      cbv zeta. cbn [negb]. destruct (r_silent r); cbn [grel]; (split; [reflexivity|]); eqx_solve.
Qed.

End GI.

(* the generated parser with nothing inlined IS the interpreter, at every fuel *)
Theorem gparse_interp : forall g f rule input k,
  match gparse g [] f rule input k, iparse g f rule input k with
  | GOk mg sg pg, IOk mi si pi => mg = mi /\ (if mg then sg = si /\ pg = pi else eqx sg si)
  | GCrash, ICrash => True
  | GUndef, IUndef => True
  | GFuel, IFuel => True
  | _, _ => False
  end.
Proof.
  intros g f rule input k. unfold gparse, iparse.
  destruct (lookup g rule) as [r|]; [|exact I].
  rewrite inlined_nil. exact (gi_sim g f (GRule r) (ist0 input k)).
Qed.

(* ------------------------------------------------------------------------------------ *)
(* (A) the generated code refines the reference semantics; the failure tracker is the
   reference's, names included *)

Notation gconclusion g inl f rule input k :=
  (match gparse g inl f rule input k with
   | GOk true s' ps  => (exists f', parse g f' rule input k = Ok (abs_st s') ps) /\ i_saved s' = [] /\ i_dcps s' = [] /\ i_rules s' = [] /\ i_depth s' = 0
   | GOk false s' _  => (exists f', parse g f' rule input k = Fail (i_trk s'))   /\ i_saved s' = [] /\ i_dcps s' = [] /\ i_rules s' = []
   | GUndef          => exists f', parse g f' rule input k = Err
   | GCrash          => False
   | GFuel           => True
   end) (only parsing).

Theorem gparse_refines : forall g,
  (forall n r, lookup g n = Some r -> r_silent r = true -> silent_ok g r) ->
  forall f rule input k,
    match gparse g [] f rule input k with
    | GOk true s' ps  => (exists f', parse g f' rule input k = Ok (abs_st s') ps) /\ i_saved s' = [] /\ i_dcps s' = [] /\ i_rules s' = [] /\ i_depth s' = 0
    | GOk false s' _  => (exists f', parse g f' rule input k = Fail (i_trk s'))   /\ i_saved s' = [] /\ i_dcps s' = [] /\ i_rules s' = []
    | GUndef          => exists f', parse g f' rule input k = Err
    | GCrash          => False
    | GFuel           => True
    end.
Proof.
  intros g Hsil f rule input k.
  assert (GI := gparse_interp g f rule input k).
  assert (IR := iparse_refines g Hsil f rule input k).
  destruct (gparse g [] f rule input k) as [mg sg pg| | |];
    destruct (iparse g f rule input k) as [mi si pi| | |]; try contradiction; try exact I.
  - destruct GI as [<- GI]. destruct mg.
    + destruct GI as [<- <-]. exact IR.
    + destruct GI as (_&_&_&E4&_&E6&E7&_&_&E10). rewrite E4, E6, E7, E10. exact IR.
  - exact IR.
Qed.

Corollary gparse_refines_kinds : forall g,
  (forall n r, lookup g n = Some r -> r_silent r = true ->
     r_kind r <> KCompound /\ (r_kind r = KNonAtomic -> is_trivia_name n = true)) ->
  forall f rule input k, gconclusion g [] f rule input k.
Proof.
  intros g NS. apply gparse_refines. intros n r L S.
  destruct (NS n r L S) as [A B]. rewrite <- (lookup_name _ _ _ L) in B.
  unfold silent_ok, hides. destruct (r_kind r) eqn:K.
  - right; left; reflexivity.
  - left; reflexivity.
  - exfalso; apply A; reflexivity.
  - left. apply B. reflexivity.
Qed.

(* ==================================================================================== *)
(* Part 2: the frame condition of the generated code, for any inl: a finished call leaves the
   checkpoint stack, the saved depths, the rule stack, the atomic depth, the negation depth and
   the suppression flag as they were (the pending tags are NOT preserved on failure) *)

Ltac inv H := inversion H; subst; clear H.

Lemma ifail_frame s b n s' : ifail s b n = Some s' -> frame s s'.
Proof.
  unfold ifail. destruct (_ || _); [intros H; inv H; apply frame_refl|].
  destruct (match n with Some n0 => Some n0 | None => hd_error (i_rules s) end); [|discriminate].
  intros H; inv H. repeat split.
Qed.

Lemma gfail_frame s m s' ps : gfail_here s = GOk m s' ps -> frame s s'.
Proof.
  unfold gfail_here. destruct (ifail s false None) eqn:E; [|discriminate].
  intros H; inv H. eapply ifail_frame. exact E.
Qed.

Lemma iok_fr s s1 : frame (icheckpoint s) s1 -> exists s2, iok s1 = Some s2 /\ frame s s2.
Proof.
  intros F.
  destruct (iok_ck (icheckpoint s) s s1 eq_refl eq_refl eq_refl eq_refl eq_refl F) as [s2 [E [_ G]]].
  exists s2. split; [exact E|exact G].
Qed.

Lemma irestore_fr s s1 : frame (icheckpoint s) s1 -> exists s2, irestore s1 = Some s2 /\ frame s s2.
Proof.
  intros F.
  destruct (irestore_ck (icheckpoint s) s s1 eq_refl eq_refl eq_refl F) as [s2 [E [_ [_ G]]]].
  exists s2. split; [exact E|exact G].
Qed.

Section Frame.
Variable g : grammar.
Variable inl : list N.

Lemma gframe : forall f t s m s' ps, grun g inl f t s = GOk m s' ps -> frame s s'.
Proof.
  induction f as [|f IH]; intros t s m s' ps H; [discriminate|].
  destruct t as [e|es|es|e first| | | |n|r].
  - (* GEval *)
    destruct e; cbn [grun] in H;
      try (eapply (IH (GSeq _)); exact H); try (eapply (IH (GAlt _)); exact H);
      try (eapply (IH (GStar _ true)); exact H);
      try (lazymatch type of H with context [grun] => fail | _ => idtac end;
           cbv zeta in H;
           repeat match type of H with context [match ?x with _ => _ end] => destruct x end;
           first [ eapply gfail_frame; exact H | inv H; repeat split ]; fail).
    + (* ERef *)
      destruct (lookup g n) as [r|]; [|discriminate]. cbv zeta in H.
      destruct (grun g inl f (GRule r) _) as [m1 s1 ps1| | |] eqn:E1; try discriminate.
      inv H. apply IH in E1. destruct tag; exact E1.
    + (* EOpt *)
      destruct (grun g inl f (GEval e) (icheckpoint s)) as [m1 s1 ps1| | |] eqn:E1; try discriminate.
      apply IH in E1. destruct m1.
      * destruct (iok_fr _ _ E1) as [s2 [E2 F2]]. rewrite E2 in H. inv H. exact F2.
      * destruct (irestore_fr _ _ E1) as [s2 [E2 F2]]. rewrite E2 in H. inv H. exact F2.
    + (* EAnd *)
      destruct (grun g inl f (GEval e) (icheckpoint s)) as [m1 s1 ps1| | |] eqn:E1; try discriminate.
      apply IH in E1.
      destruct (irestore_fr _ _ E1) as [s2 [E2 F2]]. rewrite E2 in H. inv H. exact F2.
    + (* ENot *)
      destruct (grun g inl f (GEval e) _) as [m1 s1 ps1| | |] eqn:E1; try discriminate.
      apply IH in E1.
      destruct (irestore_ck (upd_neg (icheckpoint s) (S (i_neg s))) s s1 eq_refl eq_refl eq_refl E1)
        as [s2 [E2 [_ [_ [G1 [G2 [G3 [G4 [G5 G6]]]]]]]]].
      cbn [i_neg upd_neg] in G5. rewrite E2 in H. destruct m1.
      * destruct (ifail s2 true _) as [s3|] eqn:E3; [|discriminate]. inv H.
        apply ifail_frame in E3. destruct E3 as (A1&A2&A3&A4&A5&A6).
        repeat split; cbn; try congruence. rewrite A5, G5. reflexivity.
      * inv H. repeat split; cbn; try assumption. rewrite G5. reflexivity.
    + (* EGrp *)
      cbv zeta in H.
      destruct (grun g inl f (GEval e) _) as [m1 s1 ps1| | |] eqn:E1; try discriminate.
      inv H. apply IH in E1. destruct tag; exact E1.
    + (* EPush *)
      destruct (grun g inl f (GEval e) s) as [m1 s1 ps1| | |] eqn:E1; try discriminate.
      apply IH in E1. destruct m1; inv H; exact E1.
  - (* GSeq *)
    cbn [grun] in H. destruct es as [|e1 es']; [inv H; apply frame_refl|].
    destruct (grun g inl f (GEval e1) s) as [m1 s1 p1| | |] eqn:E1; try discriminate.
    apply IH in E1. destruct m1; [|inv H; exact E1].
    destruct es' as [|e2 es'']; [inv H; exact E1|].
    destruct (grun g inl f GTrivia s1) as [m2 s2 pw| | |] eqn:E2; try discriminate. apply IH in E2.
    destruct (grun g inl f (GSeq (e2 :: es'')) s2) as [m3 s3 p3| | |] eqn:E3; try discriminate.
    apply IH in E3. inv H. eapply frame_trans; [exact E1|eapply frame_trans; eassumption].
  - (* GAlt *)
    cbn [grun] in H. destruct es as [|e1 es']; [inv H; apply frame_refl|].
    destruct (grun g inl f (GEval e1) (icheckpoint s)) as [m1 s1 p1| | |] eqn:E1; try discriminate.
    apply IH in E1. destruct m1.
    + destruct (iok_fr _ _ E1) as [s2 [E2 F2]]. rewrite E2 in H. inv H. exact F2.
    + destruct (irestore_fr _ _ E1) as [s2 [E2 F2]]. rewrite E2 in H. apply IH in H.
      eapply frame_trans; eassumption.
  - (* GStar *)
    cbn [grun] in H. cbv zeta in H.
    assert (T : exists m1 s1 pw,
               (if first then GOk true (icheckpoint s) [] else grun g inl f GTrivia (icheckpoint s))
               = GOk m1 s1 pw /\ frame (icheckpoint s) s1).
    { destruct first; [eexists _, _, _; split; [reflexivity|apply frame_refl]|].
      destruct (grun g inl f GTrivia (icheckpoint s)) as [m1 s1 pw| | |] eqn:E0; try discriminate.
      apply IH in E0. eexists _, _, _. split; [reflexivity|exact E0]. }
    destruct T as [m1 [s1 [pw [E0 F0]]]]. rewrite E0 in H.
    destruct (grun g inl f (GEval e) s1) as [m2 s2 p2| | |] eqn:E2; try discriminate. apply IH in E2.
    assert (F2 : frame (icheckpoint s) s2) by (eapply frame_trans; eassumption).
    destruct m2.
    + destruct (iok_fr _ _ F2) as [s3 [E3 F3]]. rewrite E3 in H.
      destruct (grun g inl f (GStar e false) s3) as [m4 s4 p4| | |] eqn:E4; try discriminate.
      apply IH in E4. inv H. eapply frame_trans; eassumption.
    + destruct (irestore_fr _ _ F2) as [s3 [E3 F3]]. rewrite E3 in H. inv H. exact F3.
  - (* GTrivia *)
    cbn [grun] in H.
    destruct (negb (ghas_rule g WS_ID) && negb (ghas_rule g CM_ID)); [inv H; apply frame_refl|].
    destruct (Nat.ltb 0 (i_depth s)); [inv H; apply frame_refl|].
    destruct (grun g inl f GTrivLoop (upd_sup s true)) as [m1 s1 p1| | |] eqn:E1; try discriminate.
    apply IH in E1. inv H. destruct E1 as (A1&A2&A3&A4&A5&A6). repeat split; assumption.
  - (* GWsLoop *)
    cbn [grun] in H.
    destruct (grun g inl f (GTrivOnce WS_ID) s) as [m1 s1 p1| | |] eqn:E1; try discriminate.
    apply IH in E1. destruct m1; [|inv H; exact E1].
    destruct (grun g inl f GWsLoop s1) as [m2 s2 p2| | |] eqn:E2; try discriminate.
    apply IH in E2. inv H. eapply frame_trans; eassumption.
  - (* GTrivLoop *)
    cbn [grun] in H.
    assert (T : exists m1 s1 p1,
               (if ghas_rule g WS_ID then grun g inl f GWsLoop s else GOk false s [])
               = GOk m1 s1 p1 /\ frame s s1).
    { destruct (ghas_rule g WS_ID); [|eexists _, _, _; split; [reflexivity|apply frame_refl]].
      destruct (grun g inl f GWsLoop s) as [m1 s1 p1| | |] eqn:E0; try discriminate.
      apply IH in E0. eexists _, _, _. split; [reflexivity|exact E0]. }
    destruct T as [m1 [s1 [p1 [E0 F0]]]]. rewrite E0 in H.
    destruct (ghas_rule g CM_ID); [|inv H; exact F0].
    destruct (grun g inl f (GTrivOnce CM_ID) s1) as [m2 s2 p2| | |] eqn:E2; try discriminate.
    apply IH in E2. destruct m2.
    + destruct (grun g inl f GTrivLoop s2) as [m3 s3 p3| | |] eqn:E3; try discriminate.
      apply IH in E3. inv H. eapply frame_trans; [exact F0|eapply frame_trans; eassumption].
    + inv H. eapply frame_trans; eassumption.
  - (* GTrivOnce *)
    cbn [grun] in H. destruct (lookup g n) as [r|]; [|discriminate].
    destruct (grun g inl f (GRule r) (icheckpoint s)) as [m1 s1 p1| | |] eqn:E1; try discriminate.
    apply IH in E1. destruct m1.
    + destruct (iok_fr _ _ E1) as [s2 [E2 F2]]. rewrite E2 in H. inv H. exact F2.
    + destruct (irestore_fr _ _ E1) as [s2 [E2 F2]]. rewrite E2 in H. inv H. exact F2.
  - (* GRule *)
    rewrite grun_rule in H. destruct (inlined inl (r_name r)); [eapply IH; exact H|].
    destruct (grun g inl f (GEval (r_body r)) (enter r s)) as [m3 s3 kids| | |] eqn:E3;
      try discriminate.
    apply IH in E3. destruct (leave_enter r s s3 E3) as [LR [FR AR]]. rewrite LR in H. cbv zeta in H.
    destruct (r_silent r); [inv H; exact FR|]. destruct m3; inv H; exact FR.
Qed.

End Frame.

(* ==================================================================================== *)
(* Part 3: inlining built-in rules changes only the rule stack, the rule stacks saved in
   checkpoints and the names in the failure tracker *)

Definition snap_eq (x y : snap) : Prop :=
  match x, y with
  | (p, r, u, _, tg), (p', r', u', _, tg') => p = p' /\ r = r' /\ u = u' /\ tg = tg'
  end.

Definition sr (a b : ist) : Prop :=
  i_pos a = i_pos b /\ i_rest a = i_rest b /\ i_user a = i_user b /\ i_depth a = i_depth b /\
  i_dcps a = i_dcps b /\ i_tags a = i_tags b /\ Forall2 snap_eq (i_saved a) (i_saved b) /\
  i_neg a = i_neg b /\ i_sup a = i_sup b /\ t_pos (i_trk a) = t_pos (i_trk b).

Ltac sr_solve H :=
  let H' := fresh "SR" in
  pose proof H as H'; destruct H' as (?&?&?&?&?&?&?&?&?&?);
  unfold sr, enter, leave, adv_i;
  try match goal with |- context [depth_mode ?r] => destruct (depth_mode r) end;
  cbn; repeat split;
  first [ assumption | congruence
        | repeat match goal with H0 : ?a = _ |- context [?a] => rewrite H0 end; reflexivity ].

Lemma sr_ck a b : sr a b -> sr (icheckpoint a) (icheckpoint b).
Proof.
  intros (Hpos&Hrest&Huser&Hdepth&Hdcps&Htags&Hsaved&Hneg&Hsup&Htrk).
  unfold sr; cbn. repeat split; try assumption; try congruence.
  constructor; [cbn; repeat split; assumption|assumption].
Qed.

Lemma sr_iok a b : sr a b ->
  match iok a, iok b with
  | Some a', Some b' => sr a' b'
  | None, None => True
  | _, _ => False
  end.
Proof.
  intros (Hpos&Hrest&Huser&Hdepth&Hdcps&Htags&Hsaved&Hneg&Hsup&Htrk).
  unfold iok. destruct Hsaved as [|x y sa sb Hxy Hs]; [exact I|].
  unfold sr; cbn. repeat split; try assumption; congruence.
Qed.

Lemma sr_irestore a b : sr a b ->
  match irestore a, irestore b with
  | Some a', Some b' => sr a' b'
  | None, None => True
  | _, _ => False
  end.
Proof.
  intros (Hpos&Hrest&Huser&Hdepth&Hdcps&Htags&Hsaved&Hneg&Hsup&Htrk).
  unfold irestore. destruct Hsaved as [|x y sa sb Hxy Hs]; [exact I|].
  destruct x as [[[[p r] u] rl] tg], y as [[[[p' r'] u'] rl'] tg']. cbn in Hxy.
  destruct Hxy as (->&->&->&->).
  unfold sr; cbn. rewrite Hdcps. repeat split; assumption.
Qed.

Lemma sr_ifail a b fo nm : sr a b -> (nm = None -> i_rules a <> [] /\ i_rules b <> []) ->
  match ifail a fo nm, ifail b fo nm with
  | Some a', Some b' => sr a' b'
  | _, _ => False
  end.
Proof.
  intros S NE. pose proof S as S'.
  destruct S' as (Hpos&Hrest&Huser&Hdepth&Hdcps&Htags&Hsaved&Hneg&Hsup&Htrk).
  unfold ifail. rewrite Hneg, Hsup.
  destruct ((Nat.ltb 0 (i_neg b) && negb fo) || i_sup b); [exact S|].
  assert (NN : exists x y,
            match nm with Some n => Some n | None => hd_error (i_rules a) end = Some x /\
            match nm with Some n => Some n | None => hd_error (i_rules b) end = Some y).
  { destruct nm as [n|]; [exists n, n; split; reflexivity|]. destruct (NE eq_refl) as [A B].
    destruct (i_rules a) as [|x la]; [contradiction|]. destruct (i_rules b) as [|y lb]; [contradiction|].
    exists x, y. split; reflexivity. }
  destruct NN as [x [y [Ex Ey]]]. rewrite Ex, Ey, Hpos, Htrk.
  unfold sr. cbn [upd_trk i_pos i_rest i_user i_depth i_dcps i_tags i_saved i_neg i_sup i_trk].
  repeat split; try assumption.
  destruct (t_pos (i_trk b) <? Z.of_N (i_pos b))%Z; [destruct (Nat.odd (i_neg b)); reflexivity|].
  destruct (Z.of_N (i_pos b) =? t_pos (i_trk b))%Z; [destruct (Nat.odd (i_neg b)); reflexivity|].
  exact Htrk.
Qed.

Definition rel2 (x y : gres) : Prop :=
  match x, y with
  | GOk m1 a p1, GOk m2 b p2 => m1 = m2 /\ sr a b /\ p1 = p2
  | GCrash, GCrash => True
  | GUndef, GUndef => True
  | GFuel, GFuel => True
  | _, _ => False
  end.

Lemma rel2_ok m a b p : sr a b -> rel2 (GOk m a p) (GOk m b p).
Proof. intros S. split; [reflexivity|]. split; [exact S|reflexivity]. Qed.

Definition ne2 (a b : ist) : Prop := i_rules a <> [] /\ i_rules b <> [].

Lemma ne2_frame a b a1 b1 : frame a a1 -> frame b b1 -> ne2 a b -> ne2 a1 b1.
Proof. intros (_&_&A&_) (_&_&B&_) [N1 N2]. split; congruence. Qed.

Lemma rel2_fail a b : sr a b -> ne2 a b -> rel2 (gfail_here a) (gfail_here b).
Proof.
  intros S NE. assert (X := sr_ifail a b false None S (fun _ => NE)). unfold gfail_here.
  destruct (ifail a false None); [|contradiction]. destruct (ifail b false None); [|contradiction].
  apply rel2_ok. exact X.
Qed.

Lemma s5_pos r s l : i_pos (upd_rules (leave r s) l) = i_pos s.
Proof. unfold leave. destruct (depth_mode r); reflexivity. Qed.
Lemma s5_tags r s l : i_tags (upd_rules (leave r s) l) = i_tags s.
Proof. unfold leave. destruct (depth_mode r); reflexivity. Qed.

Section B.
Variable g : grammar.
Variable inl : list N.
(* what the harness guarantees about the inlined built-ins (ANY, ASCII_DIGIT, ... but not EOI) *)
Hypothesis Hinl : forall n r, lookup g n = Some r -> inlined inl n = true ->
  r_silent r = true /\ r_kind r = KNormal /\ is_trivia_name n = false.

(* inside a rule both rule stacks are non-empty; the start rule is not inlined *)
Definition preB (t : gtask) (a b : ist) : Prop :=
  match t with
  | GRule r => lookup g (r_name r) = Some r /\ (inlined inl (r_name r) = true -> i_rules a <> [])
  | _ => ne2 a b
  end.

Tactic Notation "callB" constr(IH) constr(t) constr(a) constr(b) constr(S) constr(P) "as"
    ident(X) ident(m) ident(a1) ident(p1) ident(b1) ident(E1) ident(E2) ident(F1) ident(F2) :=
  pose proof (IH t a b S P) as X;
  let m2 := fresh "mright" in let p2 := fresh "pright" in
  destruct (grun g inl _ t a) as [m a1 p1| | |] eqn:E1;
  destruct (grun g [] _ t b) as [m2 b1 p2| | |] eqn:E2;
  cbn [rel2] in X; try contradiction; try exact I;
  destruct X as (<- & X & <-);
  pose proof (gframe g inl _ _ _ _ _ _ E1) as F1;
  pose proof (gframe g [] _ _ _ _ _ _ E2) as F2.

Lemma simB : forall f t a b, sr a b -> preB t a b -> rel2 (grun g inl f t a) (grun g [] f t b).
Proof.
  induction f as [|f IH]; intros t a b S P; [exact I|].
  destruct t as [e|es|es|e first| | | |n|r]; cbn [preB] in P.
  - (* ---------------- GEval ---------------- *)
    destruct e; cbn [grun];
      try exact (IH (GSeq _) a b S P); try exact (IH (GAlt _) a b S P);
      try exact (IH (GStar _ true) a b S P);
      try (lazymatch goal with |- context [grun] => fail | _ => idtac end; cbv zeta;
           let S' := fresh "S" in
           pose proof S as S';
           destruct S' as (Hpos&Hrest&Huser&Hdepth&Hdcps&Htags&Hsaved&Hneg&Hsup&Htrk);
           rewrite ?Hpos, ?Hrest, ?Huser;
           repeat (match goal with |- context [match ?x with _ => _ end] => destruct x end);
           first [ apply rel2_fail; assumption | apply rel2_ok; sr_solve S ]; fail).
    + (* ERef *)
      destruct (lookup g n) as [r|] eqn:L; [|exact I]. cbv zeta.
      assert (NM := lookup_name _ _ _ L).
      destruct tag as [tg|].
      * assert (S0 : sr (upd_tags a (tg :: i_tags a)) (upd_tags b (tg :: i_tags b))) by sr_solve S.
        assert (P0 : preB (GRule r) (upd_tags a (tg :: i_tags a)) (upd_tags b (tg :: i_tags b))).
        { split; [rewrite NM; exact L|]. intros _. exact (proj1 P). }
        callB IH (GRule r) (upd_tags a (tg :: i_tags a)) (upd_tags b (tg :: i_tags b)) S0 P0
          as X m a1 p1 b1 E1 E2 F1 F2.
        apply rel2_ok. sr_solve X.
      * assert (P0 : preB (GRule r) a b).
        { split; [rewrite NM; exact L|]. intros _. exact (proj1 P). }
        callB IH (GRule r) a b S P0 as X m a1 p1 b1 E1 E2 F1 F2.
        apply rel2_ok. exact X.
    + (* EOpt *)
      callB IH (GEval e) (icheckpoint a) (icheckpoint b) (sr_ck _ _ S) P as X m a1 p1 b1 E1 E2 F1 F2.
      destruct m.
      * destruct (iok_fr _ _ F1) as [a2 [Ea Fa]]. destruct (iok_fr _ _ F2) as [b2 [Eb Fb]].
        assert (S2 := sr_iok _ _ X). rewrite Ea, Eb in S2 |- *. apply rel2_ok. exact S2.
      * destruct (irestore_fr _ _ F1) as [a2 [Ea Fa]]. destruct (irestore_fr _ _ F2) as [b2 [Eb Fb]].
        assert (S2 := sr_irestore _ _ X). rewrite Ea, Eb in S2 |- *. apply rel2_ok. exact S2.
    + (* EAnd *)
      callB IH (GEval e) (icheckpoint a) (icheckpoint b) (sr_ck _ _ S) P as X m a1 p1 b1 E1 E2 F1 F2.
      destruct (irestore_fr _ _ F1) as [a2 [Ea Fa]]. destruct (irestore_fr _ _ F2) as [b2 [Eb Fb]].
      assert (S2 := sr_irestore _ _ X). rewrite Ea, Eb in S2 |- *. apply rel2_ok. exact S2.
    + (* ENot *)
      assert (S0 : sr (upd_neg (icheckpoint a) (Datatypes.S (i_neg a))) (upd_neg (icheckpoint b) (Datatypes.S (i_neg b)))).
      { destruct (sr_ck _ _ S) as (H1&H2&H3&H4&H5&H6&H7&H8&H9&H10).
        cbn in H1, H2, H3, H4, H5, H6, H7, H8, H9, H10.
        unfold sr; cbn. repeat split; try assumption; congruence. }
      callB IH (GEval e) (upd_neg (icheckpoint a) (Datatypes.S (i_neg a))) (upd_neg (icheckpoint b) (Datatypes.S (i_neg b)))
        S0 P as X m a1 p1 b1 E1 E2 F1 F2.
      destruct (irestore_ck (upd_neg (icheckpoint a) (Datatypes.S (i_neg a))) a a1 eq_refl eq_refl eq_refl F1)
        as [a2 [Ea [_ [_ [_ [_ [Ra _]]]]]]].
      destruct (irestore_ck (upd_neg (icheckpoint b) (Datatypes.S (i_neg b))) b b1 eq_refl eq_refl eq_refl F2)
        as [b2 [Eb [_ [_ [_ [_ [Rb _]]]]]]].
      assert (S2 := sr_irestore _ _ X). rewrite Ea, Eb in S2 |- *. cbv beta iota in S2.
      destruct m; [|apply rel2_ok; sr_solve S2].
      assert (NE : match e with ERef n _ => Some n | _ => None end = None ->
                   i_rules a2 <> [] /\ i_rules b2 <> []) by (intros _; rewrite Ra, Rb; exact P).
      assert (S3 := sr_ifail a2 b2 true (match e with ERef n _ => Some n | _ => None end) S2 NE).
      destruct (ifail a2 true _) as [a3|]; [|contradiction].
      destruct (ifail b2 true _) as [b3|]; [|contradiction].
      apply rel2_ok. sr_solve S3.
    + (* EGrp *)
      cbv zeta. destruct tag as [tg|].
      * assert (S0 : sr (upd_tags a (tg :: i_tags a)) (upd_tags b (tg :: i_tags b))) by sr_solve S.
        callB IH (GEval e) (upd_tags a (tg :: i_tags a)) (upd_tags b (tg :: i_tags b)) S0 P
          as X m a1 p1 b1 E1 E2 F1 F2.
        apply rel2_ok. sr_solve X.
      * callB IH (GEval e) a b S P as X m a1 p1 b1 E1 E2 F1 F2.
        apply rel2_ok. exact X.
    + (* EPush *)
      callB IH (GEval e) a b S P as X m a1 p1 b1 E1 E2 F1 F2.
      destruct m; [|apply rel2_ok; exact X].
      assert (EP : i_pos a = i_pos b) by (destruct S as (EP&_); exact EP).
      assert (ER : i_rest a = i_rest b) by (destruct S as (_&ER&_); exact ER).
      assert (EP1 : i_pos a1 = i_pos b1) by (destruct X as (EP1&_); exact EP1).
      rewrite EP, ER, EP1. apply rel2_ok. sr_solve X.
  - (* ---------------- GSeq ---------------- *)
    cbn [grun]. destruct es as [|e1 es']; [apply rel2_ok; exact S|].
    callB IH (GEval e1) a b S P as X1 m1 a1 p1 b1 E1 E2 F1 F2.
    destruct m1; [|apply rel2_ok; exact X1].
    destruct es' as [|e2 es'']; [apply rel2_ok; exact X1|].
    assert (P1 := ne2_frame _ _ _ _ F1 F2 P).
    callB IH GTrivia a1 b1 X1 P1 as X2 m2 a2 pw b2 E3 E4 F3 F4.
    assert (P2 := ne2_frame _ _ _ _ F3 F4 P1).
    callB IH (GSeq (e2 :: es'')) a2 b2 X2 P2 as X3 m3 a3 p3 b3 E5 E6 F5 F6.
    apply rel2_ok. exact X3.
  - (* ---------------- GAlt ---------------- *)
    cbn [grun]. destruct es as [|e1 es']; [apply rel2_ok; exact S|].
    callB IH (GEval e1) (icheckpoint a) (icheckpoint b) (sr_ck _ _ S) P as X1 m1 a1 p1 b1 E1 E2 F1 F2.
    destruct m1.
    + destruct (iok_fr _ _ F1) as [a2 [Ea Fa]]. destruct (iok_fr _ _ F2) as [b2 [Eb Fb]].
      assert (S2 := sr_iok _ _ X1). rewrite Ea, Eb in S2 |- *. apply rel2_ok. exact S2.
    + destruct (irestore_fr _ _ F1) as [a2 [Ea Fa]]. destruct (irestore_fr _ _ F2) as [b2 [Eb Fb]].
      assert (S2 := sr_irestore _ _ X1). rewrite Ea, Eb in S2 |- *.
      exact (IH (GAlt es') a2 b2 S2 (ne2_frame _ _ _ _ Fa Fb P)).
  - (* ---------------- GStar ---------------- *)
    cbn [grun]. cbv zeta.
    assert (T : forall a1 b1 pw, sr a1 b1 -> frame (icheckpoint a) a1 -> frame (icheckpoint b) b1 ->
      rel2
        (match grun g inl f (GEval e) a1 with
         | GOk true s2 p2 =>
             match iok s2 with
             | None => GCrash
             | Some s3 =>
                 match grun g inl f (GStar e false) s3 with
                 | GOk m s4 p4 => GOk m s4 (pw ++ p2 ++ p4)
                 | x => x
                 end
             end
         | GOk false s2 _ => match irestore s2 with Some s3 => GOk true s3 [] | None => GCrash end
         | x => x
         end)
        (match grun g [] f (GEval e) b1 with
         | GOk true s2 p2 =>
             match iok s2 with
             | None => GCrash
             | Some s3 =>
                 match grun g [] f (GStar e false) s3 with
                 | GOk m s4 p4 => GOk m s4 (pw ++ p2 ++ p4)
                 | x => x
                 end
             end
         | GOk false s2 _ => match irestore s2 with Some s3 => GOk true s3 [] | None => GCrash end
         | x => x
         end)).
    { intros a1 b1 pw S1 Fa1 Fb1.
      assert (P1 : ne2 a1 b1) by (eapply ne2_frame; [exact Fa1|exact Fb1|exact P]).
      callB IH (GEval e) a1 b1 S1 P1 as X2 m2 a2 p2 b2 E1 E2 F1 F2.
      assert (Fa2 : frame (icheckpoint a) a2) by (eapply frame_trans; eassumption).
      assert (Fb2 : frame (icheckpoint b) b2) by (eapply frame_trans; eassumption).
      destruct m2.
      - destruct (iok_fr _ _ Fa2) as [a3 [Ea Fa3]]. destruct (iok_fr _ _ Fb2) as [b3 [Eb Fb3]].
        assert (S3 := sr_iok _ _ X2). rewrite Ea, Eb in S3 |- *. cbv beta iota in S3.
        callB IH (GStar e false) a3 b3 S3 (ne2_frame _ _ _ _ Fa3 Fb3 P) as X4 m4 a4 p4 b4 E3 E4 F3 F4.
        apply rel2_ok. exact X4.
      - destruct (irestore_fr _ _ Fa2) as [a3 [Ea Fa3]]. destruct (irestore_fr _ _ Fb2) as [b3 [Eb Fb3]].
        assert (S3 := sr_irestore _ _ X2). rewrite Ea, Eb in S3 |- *. apply rel2_ok. exact S3. }
    destruct first.
    + exact (T (icheckpoint a) (icheckpoint b) [] (sr_ck _ _ S) (frame_refl _) (frame_refl _)).
    + callB IH GTrivia (icheckpoint a) (icheckpoint b) (sr_ck _ _ S) P as X0 m0 a1 pw b1 E1 E2 F1 F2.
      exact (T a1 b1 pw X0 F1 F2).
  - (* ---------------- GTrivia ---------------- *)
    cbn [grun].
    destruct (negb (ghas_rule g WS_ID) && negb (ghas_rule g CM_ID)); [apply rel2_ok; exact S|].
    assert (ED : i_depth a = i_depth b) by (destruct S as (_&_&_&ED&_); exact ED).
    assert (ES : i_sup a = i_sup b) by (destruct S as (_&_&_&_&_&_&_&_&ES&_); exact ES).
    rewrite ED, ES. destruct (Nat.ltb 0 (i_depth b)); [apply rel2_ok; exact S|].
    assert (S0 : sr (upd_sup a true) (upd_sup b true)) by sr_solve S.
    callB IH GTrivLoop (upd_sup a true) (upd_sup b true) S0 P as X m1 a1 p1 b1 E1 E2 F1 F2.
    apply rel2_ok. sr_solve X.
  - (* ---------------- GWsLoop ---------------- *)
    cbn [grun].
    callB IH (GTrivOnce WS_ID) a b S P as X1 m1 a1 p1 b1 E1 E2 F1 F2.
    destruct m1; [|apply rel2_ok; exact X1].
    callB IH GWsLoop a1 b1 X1 (ne2_frame _ _ _ _ F1 F2 P) as X2 m2 a2 p2 b2 E3 E4 F3 F4.
    apply rel2_ok. exact X2.
  - (* ---------------- GTrivLoop ---------------- *)
    cbn [grun].
    assert (T : forall a1 b1 p1, sr a1 b1 -> frame a a1 -> frame b b1 ->
      rel2
        (if ghas_rule g CM_ID then
           match grun g inl f (GTrivOnce CM_ID) a1 with
           | GOk true s2 p2 =>
               match grun g inl f GTrivLoop s2 with
               | GOk m s3 p3 => GOk m s3 (p1 ++ p2 ++ p3)
               | x => x
               end
           | GOk false s2 _ => GOk true s2 p1
           | x => x
           end
         else GOk true a1 p1)
        (if ghas_rule g CM_ID then
           match grun g [] f (GTrivOnce CM_ID) b1 with
           | GOk true s2 p2 =>
               match grun g [] f GTrivLoop s2 with
               | GOk m s3 p3 => GOk m s3 (p1 ++ p2 ++ p3)
               | x => x
               end
           | GOk false s2 _ => GOk true s2 p1
           | x => x
           end
         else GOk true b1 p1)).
    { intros a1 b1 p1 S1 Fa1 Fb1.
      destruct (ghas_rule g CM_ID); [|apply rel2_ok; exact S1].
      assert (P1 := ne2_frame _ _ _ _ Fa1 Fb1 P).
      callB IH (GTrivOnce CM_ID) a1 b1 S1 P1 as X2 m2 a2 p2 b2 E1 E2 F1 F2.
      destruct m2; [|apply rel2_ok; exact X2].
      callB IH GTrivLoop a2 b2 X2 (ne2_frame _ _ _ _ F1 F2 P1) as X3 m3 a3 p3 b3 E3 E4 F3 F4.
      apply rel2_ok. exact X3. }
    destruct (ghas_rule g WS_ID).
    + callB IH GWsLoop a b S P as X0 m0 a1 p1 b1 E1 E2 F1 F2. exact (T a1 b1 p1 X0 F1 F2).
    + exact (T a b [] S (frame_refl _) (frame_refl _)).
  - (* ---------------- GTrivOnce ---------------- *)
    cbn [grun]. destruct (lookup g n) as [r|] eqn:L; [|exact I].
    assert (NM := lookup_name _ _ _ L).
    assert (P0 : preB (GRule r) (icheckpoint a) (icheckpoint b)).
    { split; [rewrite NM; exact L|]. intros _. exact (proj1 P). }
    callB IH (GRule r) (icheckpoint a) (icheckpoint b) (sr_ck _ _ S) P0 as X1 m1 a1 p1 b1 E1 E2 F1 F2.
    destruct m1.
    + destruct (iok_fr _ _ F1) as [a2 [Ea Fa]]. destruct (iok_fr _ _ F2) as [b2 [Eb Fb]].
      assert (S2 := sr_iok _ _ X1). rewrite Ea, Eb in S2 |- *. apply rel2_ok. exact S2.
    + destruct (irestore_fr _ _ F1) as [a2 [Ea Fa]]. destruct (irestore_fr _ _ F2) as [b2 [Eb Fb]].
      assert (S2 := sr_irestore _ _ X1). rewrite Ea, Eb in S2 |- *. apply rel2_ok. exact S2.
  - (* ---------------- GRule ---------------- *)
    destruct P as [L PI]. rewrite !grun_rule, inlined_nil.
    destruct (inlined inl (r_name r)) eqn:IN.
    + (* inlined on the left: no frame, no depth change, children passed up *)
      destruct (Hinl _ _ L IN) as [SI [KN TN]].
      assert (DM : depth_mode r = DSame) by (unfold depth_mode; rewrite KN, TN; reflexivity).
      assert (HH : hides r = false) by (unfold hides; rewrite KN; exact TN).
      assert (S0 : sr a (enter r b)) by (unfold enter; rewrite DM; sr_solve S).
      assert (P0 : ne2 a (enter r b)).
      { split; [exact (PI eq_refl)|rewrite enter_rules; discriminate]. }
      callB IH (GEval (r_body r)) a (enter r b) S0 P0 as X m a1 p1 b1 E1 E2 F1 F2.
      destruct (leave_enter r b b1 F2) as [LR _]. rewrite LR. cbv zeta. rewrite SI, HH.
      apply rel2_ok. unfold leave. rewrite DM. sr_solve X.
    + assert (S0 : sr (enter r a) (enter r b)) by sr_solve S.
      assert (P0 : ne2 (enter r a) (enter r b)) by (split; rewrite enter_rules; discriminate).
      callB IH (GEval (r_body r)) (enter r a) (enter r b) S0 P0 as X m a1 p1 b1 E1 E2 F1 F2.
      destruct (leave_enter r a a1 F1) as [LRa _]. destruct (leave_enter r b b1 F2) as [LRb _].
      rewrite LRa, LRb. cbv zeta.
      destruct (r_silent r); [apply rel2_ok; sr_solve X|].
      assert (EP : i_pos a = i_pos b) by (destruct S as (EP&_); exact EP).
      assert (EP1 : i_pos a1 = i_pos b1) by (destruct X as (EP1&_); exact EP1).
      assert (ET1 : i_tags a1 = i_tags b1) by (destruct X as (_&_&_&_&_&ET1&_); exact ET1).
      rewrite !s5_pos, !s5_tags, EP, EP1, ET1.
      destruct m; apply rel2_ok; sr_solve X.
Qed.

End B.

(* ------------------------------------------------------------------------------------ *)
(* (B) the generated parser with inlined built-ins against the one with nothing inlined: same
   fuel, same verdict, same pairs, same state except the names in the failure tracker *)

Definition inl_ok (g : grammar) (inl : list N) : Prop :=
  forall n r, lookup g n = Some r -> inlined inl n = true ->
    r_silent r = true /\ r_kind r = KNormal /\ is_trivia_name n = false.

Theorem gparse_inl : forall g inl, inl_ok g inl ->
  forall f rule input k, inlined inl rule = false ->
    match gparse g inl f rule input k, gparse g [] f rule input k with
    | GOk m1 s1 p1, GOk m2 s2 p2 =>
        m1 = m2 /\ p1 = p2 /\
        i_pos s1 = i_pos s2 /\ i_rest s1 = i_rest s2 /\ i_user s1 = i_user s2 /\ i_tags s1 = i_tags s2 /\
        i_depth s1 = i_depth s2 /\ i_dcps s1 = i_dcps s2 /\ i_neg s1 = i_neg s2 /\ i_sup s1 = i_sup s2 /\
        t_pos (i_trk s1) = t_pos (i_trk s2) /\
        i_rules s1 = [] /\ i_saved s1 = []
    | GCrash, GCrash => True
    | GUndef, GUndef => True
    | GFuel, GFuel => True
    | _, _ => False
    end.
Proof.
  intros g inl Hinl f rule input k NI. unfold gparse. rewrite NI, inlined_nil.
  destruct (lookup g rule) as [r|] eqn:L; [|exact I].
  assert (NM := lookup_name _ _ _ L).
  assert (S0 : sr (ist0 input k) (ist0 input k)).
  { unfold sr. repeat split. constructor. }
  assert (P0 : preB g inl (GRule r) (ist0 input k) (ist0 input k)).
  { split; [rewrite NM; exact L|]. rewrite NM, NI. discriminate. }
  assert (X := simB g inl Hinl f (GRule r) _ _ S0 P0).
  destruct (grun g inl f (GRule r) (ist0 input k)) as [m1 s1 p1| | |] eqn:E1;
    destruct (grun g [] f (GRule r) (ist0 input k)) as [m2 s2 p2| | |];
    cbn [rel2] in X; try contradiction; try exact I.
  destruct X as (EM & (H1&H2&H3&H4&H5&H6&H7&H8&H9&H10) & EP).
  destruct (gframe g inl _ _ _ _ _ _ E1) as (A1&A2&A3&_).
  repeat split; assumption.
Qed.

(* the names do differ: top = { digit }, digit = _{ '0'..'9' } inlined; on "a" the failure is
   attributed to `top` by the inlining code and to `digit` otherwise *)
Definition ex_inl : grammar :=
  [ {| r_name := 10; r_silent := false; r_kind := KNormal; r_body := ERef 20 None |};
    {| r_name := 20; r_silent := true; r_kind := KNormal; r_body := ERange 48 57 |} ].

Lemma ex_inl_ok : inl_ok ex_inl [20%N].
Proof.
  intros n r L IN. unfold inlined in IN. cbn [existsb] in IN. rewrite orb_false_r in IN.
  apply N.eqb_eq in IN. subst n. vm_compute in L. inv L. repeat split.
Qed.

Lemma inl_names_differ :
  match gparse ex_inl [20%N] 20 10%N [97%N] 0, gparse ex_inl [] 20 10%N [97%N] 0 with
  | GOk false s1 _, GOk false s2 _ =>
      t_exp (i_trk s1) = [10%N] /\ t_exp (i_trk s2) = [20%N] /\ t_pos (i_trk s1) = t_pos (i_trk s2)
  | _, _ => False
  end.
Proof. vm_compute. repeat split. Qed.

(* difference 4 (PEEK / POP on an empty stack fail without recording a failure): in these models
   the interpreter (Interp.v), the generated code (Gen.v) and the reference (Spec.v: `Fail (s_trk s)`)
   all agree, so the trackers coincide; an instance: r = { PEEK } on "a" *)
Definition ex_peek : grammar :=
  [ {| r_name := 10; r_silent := false; r_kind := KNormal; r_body := EPeek |} ].

Example peek_empty_agrees :
  match gparse ex_peek [] 5 10%N [97%N] 0, iparse ex_peek 5 10%N [97%N] 0, parse ex_peek 5 10%N [97%N] 0 with
  | GOk false s1 _, IOk false s2 _, Fail t => i_trk s1 = t /\ i_trk s2 = t /\ t = trk0
  | _, _, _ => False
  end.
Proof. vm_compute. repeat split. Qed.

(* ------------------------------------------------------------------------------------ *)
(* (C) the generated parser and the interpreter *)

Lemma iparse_fuel_indep g :
  (forall n r, lookup g n = Some r -> r_silent r = true -> silent_ok g r) ->
  forall f1 f2 rule input k,
    match iparse g f1 rule input k, iparse g f2 rule input k with
    | IOk m1 s1 p1, IOk m2 s2 p2 =>
        m1 = m2 /\ i_trk s1 = i_trk s2 /\ (m1 = true -> abs_st s1 = abs_st s2 /\ p1 = p2)
    | IUndef, IUndef => True
    | IFuel, _ => True
    | _, IFuel => True
    | _, _ => False
    end.
Proof.
  intros Hsil f1 f2 rule input k.
  assert (R1 := iparse_refines g Hsil f1 rule input k).
  assert (R2 := iparse_refines g Hsil f2 rule input k).
  destruct (iparse g f1 rule input k) as [m1 s1 p1| | |];
    destruct (iparse g f2 rule input k) as [m2 s2 p2| | |]; try exact I; try contradiction.
  - destruct m1, m2.
    + destruct R1 as [[f1' R1] _], R2 as [[f2' R2] _].
      assert (E := parse_at g _ _ _ _ _ R1 ltac:(discriminate) _ _ R2 ltac:(discriminate)).
      assert (EA : abs_st s1 = abs_st s2) by congruence.
      assert (EP : p1 = p2) by congruence.
      split; [reflexivity|]. split; [|intros _; split; assumption].
      apply (f_equal s_trk) in EA. exact EA.
    + destruct R1 as [[f1' R1] _], R2 as [[f2' R2] _].
      assert (E := parse_at g _ _ _ _ _ R1 ltac:(discriminate) _ _ R2 ltac:(discriminate)).
      discriminate E.
    + destruct R1 as [[f1' R1] _], R2 as [[f2' R2] _].
      assert (E := parse_at g _ _ _ _ _ R1 ltac:(discriminate) _ _ R2 ltac:(discriminate)).
      discriminate E.
    + destruct R1 as [[f1' R1] _], R2 as [[f2' R2] _].
      assert (E := parse_at g _ _ _ _ _ R1 ltac:(discriminate) _ _ R2 ltac:(discriminate)).
      split; [reflexivity|]. split; [congruence|intros D; discriminate D].
  - destruct R2 as [f2' R2]. destruct m1; destruct R1 as [[f1' R1] _];
      assert (E := parse_at g _ _ _ _ _ R1 ltac:(discriminate) _ _ R2 ltac:(discriminate));
      discriminate E.
  - destruct R1 as [f1' R1]. destruct m2; destruct R2 as [[f2' R2] _];
      assert (E := parse_at g _ _ _ _ _ R1 ltac:(discriminate) _ _ R2 ltac:(discriminate));
      discriminate E.
Qed.

Theorem generated_equals_interpreter : forall g inl,
  (forall n r, lookup g n = Some r -> r_silent r = true -> silent_ok g r) ->
  inl_ok g inl ->
  forall f1 f2 rule input k, inlined inl rule = false ->
    match iparse g f1 rule input k, gparse g inl f2 rule input k with
    | IOk true s1 p1, GOk true s2 p2 =>
        p1 = p2 /\ i_pos s1 = i_pos s2 /\ i_user s1 = i_user s2 /\ t_pos (i_trk s1) = t_pos (i_trk s2)
    | IOk false s1 _, GOk false s2 _ => t_pos (i_trk s1) = t_pos (i_trk s2)
    | IUndef, GUndef => True
    | IFuel, _ | _, GFuel => True
    | ICrash, _ | _, GCrash => False
    | _, _ => False            (* finished with different verdicts: impossible *)
    end.
Proof.
  intros g inl Hsil Hinl f1 f2 rule input k NI.
  assert (FI := iparse_fuel_indep g Hsil f1 f2 rule input k).
  assert (GI := gparse_interp g f2 rule input k).
  assert (B := gparse_inl g inl Hinl f2 rule input k NI).
  assert (R1 := iparse_refines g Hsil f1 rule input k).
  destruct (iparse g f1 rule input k) as [m1 s1 p1| | |];
    destruct (gparse g inl f2 rule input k) as [m2 s2 p2| | |];
    try (destruct m1); try (destruct m2); try exact I; try contradiction;
    destruct (gparse g [] f2 rule input k) as [m3 s3 p3| | |]; try contradiction;
    destruct (iparse g f2 rule input k) as [m4 s4 p4| | |]; try contradiction;
    destruct B as (B1&B2&B3&B4&B5&B6&B7&B8&B9&B10&B11&B12&B13);
    destruct GI as [G1 G2]; destruct FI as (F1&F2&F3); subst m3 m4; try discriminate.
  - destruct G2 as [G2 G3]. destruct (F3 eq_refl) as [FA FP]. subst s4 p4 p3 p2.
    assert (Q1 : i_pos s1 = i_pos s3) by exact (f_equal s_pos FA).
    assert (Q2 : i_user s1 = i_user s3) by exact (f_equal s_stk FA).
    repeat split; congruence.
  - destruct G2 as (_&_&_&_&_&_&_&_&_&G2). congruence.
Qed.

(* with nothing inlined the two implementations agree on everything, fuel for fuel: this is
   gparse_interp above; the version for independent fuels: *)
Corollary generated_equals_interpreter_nil : forall g,
  (forall n r, lookup g n = Some r -> r_silent r = true -> silent_ok g r) ->
  forall f1 f2 rule input k,
    match iparse g f1 rule input k, gparse g [] f2 rule input k with
    | IOk true s1 p1, GOk true s2 p2 =>
        p1 = p2 /\ i_pos s1 = i_pos s2 /\ i_user s1 = i_user s2 /\ t_pos (i_trk s1) = t_pos (i_trk s2)
    | IOk false s1 _, GOk false s2 _ => t_pos (i_trk s1) = t_pos (i_trk s2)
    | IUndef, GUndef => True
    | IFuel, _ | _, GFuel => True
    | ICrash, _ | _, GCrash => False
    | _, _ => False
    end.
Proof.
  intros g Hsil f1 f2 rule input k.
  apply (generated_equals_interpreter g [] Hsil); [|apply inlined_nil].
  intros n r L IN. rewrite inlined_nil in IN. discriminate IN.
Qed.

(* ==================================================================================== *)
(* Part 4 (D): termination transfer.  If the reference semantics finishes on an input, so do the
   interpreter and the generated code (with some fuel).  Induction on the reference's fuel; the
   forward simulation InterpProof.sim_all tells in which state each sub-call of the interpreter
   ends, the interpreter's own fuel monotonicity combines the fuels of the sub-calls. *)

Section IMono.
Variable g : grammar.

Definition imono_at (f : nat) : Prop :=
  forall t s r, irun g f t s = r -> r <> IFuel -> forall f', f <= f' -> irun g f' t s = r.

Ltac istep IH L' H D :=
  match type of H with
  | context [match irun g ?f ?t ?s with _ => _ end] =>
      let E := fresh "E" in
      destruct (irun g f t s) eqn:E;
      [ rewrite (IH _ _ _ E ltac:(discriminate) _ L')
      | rewrite (IH _ _ _ E ltac:(discriminate) _ L')
      | rewrite (IH _ _ _ E ltac:(discriminate) _ L')
      | exfalso; apply D; symmetry; exact H ]
  end.

Ltac iloop IH L' H D :=
  repeat first
    [ exact H
    | eapply IH; [exact H|exact D|exact L']
    | istep IH L' H D
    | match type of H with context [match ?x with _ => _ end] => destruct x end ].

Lemma imono_all : forall f, imono_at f.
Proof.
  induction f as [|f IH]; intros t s r H D f' L.
  - cbn in H. exfalso. apply D. symmetry. exact H.
  - destruct f' as [|f']; [lia|]. assert (L' : f <= f') by lia.
    destruct t as [e|es|es|e first| | | |n|r0].
    + destruct e; cbn [irun] in *; iloop IH L' H D.
    + cbn [irun] in *. iloop IH L' H D.
    + cbn [irun] in *. iloop IH L' H D.
    + cbn [irun] in *. destruct first; iloop IH L' H D.
    + cbn [irun] in *. iloop IH L' H D.
    + cbn [irun] in *. iloop IH L' H D.
    + cbn [irun] in *. destruct (has_rule g WS_ID); iloop IH L' H D.
    + cbn [irun] in *. iloop IH L' H D.
    + rewrite irun_rule in *. iloop IH L' H D.
Qed.

Theorem irun_mono : forall f f' t s r, irun g f t s = r -> r <> IFuel -> f <= f' -> irun g f' t s = r.
Proof. intros. eapply imono_all; eauto. Qed.

End IMono.

Section Term.
Variable g : grammar.
Hypothesis Hsil : forall n r, lookup g n = Some r -> r_silent r = true -> silent_ok g r.

Notation R := (runs g).

Definition iterm (t : itask) (s : ist) : Prop := exists F, irun g F t s <> IFuel.

Lemma irun_nofuel_mono F F' t s : irun g F t s <> IFuel -> F <= F' -> irun g F' t s <> IFuel.
Proof.
  intros H L. destruct (irun g F t s) eqn:E;
    try (rewrite (irun_mono g F F' _ _ _ E ltac:(discriminate) L); discriminate).
  exfalso. apply H. reflexivity.
Qed.

Lemma sim_use F t s ir c : irun g F t s = ir -> ir <> IFuel -> pre g c t s -> fr s ir /\ post g c t s ir.
Proof. intros H D P. exact (sim_all g Hsil F t s ir c H D P). Qed.

Lemma spec_R f c t s r : run g f c t s = r -> r <> Fuel -> R c t s r.
Proof. intros H D. exists f. split; assumption. Qed.

Lemma skips_det c s r1 r2 : skips g c s r1 -> skips g c s r2 -> r1 = r2.
Proof.
  intros [f1 [H1 D1]] [f2 [H2 D2]].
  assert (A := skip_mono' g f1 (max f1 f2) c s r1 H1 D1 (Nat.le_max_l _ _)).
  assert (B := skip_mono' g f2 (max f1 f2) c s r2 H2 D2 (Nat.le_max_r _ _)).
  congruence.
Qed.

Lemma star_same_fuel f c e s : c_atom c <> NonAtomic ->
  run g f c (TEval (EStar e)) s = run g f c (TStar e) s.
Proof.
  intros NA. destruct f as [|f]; [reflexivity|]. cbn [run].
  rewrite atomic_no_trivia by exact NA. destruct (run g f c (TEval e) s); reflexivity.
Qed.

(* two-element sequence without implicit trivia: the sub-runs finish within the same fuel *)
Lemma seq2_inv_f f c a b s r : c_atom c <> NonAtomic ->
  run g f c (TEval (ESeq [a; b])) s = r -> r <> Fuel ->
  (exists s1 p1 r2, run g f c (TEval a) s = Ok s1 p1 /\ run g f c (TEval b) s1 = r2 /\ r2 <> Fuel /\
      r = match r2 with Ok s3 p3 => Ok s3 (p1 ++ p3) | x => x end)
  \/ (run g f c (TEval a) s = r /\ notok r).
Proof.
  intros NA H D.
  destruct f as [|f]; [cbn in H; congruence|]. cbn [run] in H.
  destruct f as [|f]; [cbn in H; congruence|]. cbn [run] in H.
  destruct (run g f c (TEval a) s) as [s1 p1|t| |] eqn:E1.
  - left. rewrite atomic_no_trivia in H by exact NA.
    destruct f as [|f]; [discriminate E1|]. cbn [run] in H.
    exists s1, p1, (run g f c (TEval b) s1).
    assert (D2 : run g f c (TEval b) s1 <> Fuel).
    { intros EQ. rewrite EQ in H. congruence. }
    split; [eapply run_mono; [exact E1|discriminate|lia]|].
    split; [eapply run_mono; [reflexivity|exact D2|lia]|].
    split; [exact D2|]. destruct (run g f c (TEval b) s1); symmetry; exact H.
  - right. subst r. split; [eapply run_mono; [exact E1|discriminate|lia]|exact I].
  - right. subst r. split; [eapply run_mono; [exact E1|discriminate|lia]|exact I].
  - congruence.
Qed.

(* what the reference must finish for the interpreter's trivia loop to finish *)
Definition tl_term (f : nat) (c : ctx) (s : st) : Prop :=
  match has_rule g WS_ID, has_rule g CM_ID with
  | true, true => exists r1, run g f c (TStar wR) s = r1 /\ r1 <> Fuel /\
                    forall s1 p1, r1 = Ok s1 p1 -> run g f c (TStar xE) s1 <> Fuel
  | true, false => run g f c (TStar wR) s <> Fuel
  | false, true => run g f c (TStar cR) s <> Fuel
  | false, false => False
  end.

Lemma tl_term0 c s : tl_term 0 c s -> False.
Proof.
  unfold tl_term. destruct (has_rule g WS_ID), (has_rule g CM_ID); cbn [run]; try congruence.
  intros [r1 [A [B _]]]. congruence.
Qed.

Lemma loopE_inv f c s : c_atom c <> NonAtomic ->
  negb (has_rule g WS_ID) && negb (has_rule g CM_ID) = false ->
  run g f c (TEval (loopE g)) s <> Fuel -> tl_term f c s.
Proof.
  intros NA En H.
  assert (LE : loopE g = match has_rule g WS_ID, has_rule g CM_ID with
                         | true, true => ESeq [wS; EStar xE]
                         | true, false => wS
                         | false, true => EStar cR
                         | false, false => ESeq []
                         end).
  { unfold loopE, skip_expr, has_ws, has_cm, has_rule.
    destruct (lookup g WS_ID), (lookup g CM_ID); reflexivity. }
  rewrite LE in H. unfold tl_term.
  destruct (has_rule g WS_ID), (has_rule g CM_ID); try discriminate En.
  - remember (run g f c (TEval (ESeq [wS; EStar xE])) s) as r eqn:Er. symmetry in Er.
    destruct (seq2_inv_f f c wS (EStar xE) s r NA Er H) as [[s1 [p1 [r2 [A [B [D2 _]]]]]]|[A N]].
    + unfold wS in A. rewrite star_same_fuel in A by exact NA.
      exists (Ok s1 p1). split; [exact A|]. split; [discriminate|].
      intros s1' p1' E. inv E. rewrite <- star_same_fuel by exact NA. exact D2.
    + unfold wS in A. rewrite star_same_fuel in A by exact NA.
      eexists. split; [exact A|]. split; [exact H|].
      intros s1 p1 E. rewrite E in N. destruct N.
  - unfold wS in H. rewrite star_same_fuel in H by exact NA. exact H.
  - rewrite star_same_fuel in H by exact NA. exact H.
Qed.

Definition sterm (f : nat) (c : ctx) (t : itask) (s : ist) : Prop :=
  match t with
  | IEval e => run g f c (TEval e) (abs_st s) <> Fuel
  | ISeq es => run g f c (TSeq es) (abs_st s) <> Fuel
  | IAlt es => run g f c (TAlt es) (abs_st s) <> Fuel
  | IStar e true => run g f c (TEval (EStar e)) (abs_st s) <> Fuel
  | IStar e false => run g f c (TStar e) (abs_st s) <> Fuel
  | ITrivia => skip_with g (fun c' e' => run g f c' (TEval e')) c (abs_st s) <> Fuel
  | IWsLoop => run g f c (TStar wR) (abs_st s) <> Fuel
  | ITrivLoop => tl_term f c (abs_st s)
  | ITrivRule n => run g f c (TEval (ERef n None)) (abs_st s) <> Fuel
  | IRule r => run g f c (TEval (ERef (r_name r) None)) (abs_st s) <> Fuel
  end.

Definition term_at (f : nat) : Prop := forall t s c, pre g c t s -> sterm f c t s -> iterm t s.

Ltac nofuel_tac :=
  cbv beta iota zeta;
  repeat (match goal with
          | |- context [match ?x with _ => _ end] =>
              lazymatch x with
              | context [match _ with _ => _ end] => fail
              | _ => destruct x
              end
          end; cbv beta iota zeta);
  try discriminate; try congruence.

Ltac use_mono E Ftot :=
  cbv beta iota; rewrite (irun_mono g _ Ftot _ _ _ E ltac:(discriminate) ltac:(lia)).
Ltac sub_nofuel ST := let EQ := fresh "EQ" in intros EQ; apply ST; rewrite EQ; reflexivity.

(* ---- Rule.parse and its callers: one recursive call ---- *)
Lemma step_body f (IH : term_at f) c r s0 : pre g c (IRule r) s0 ->
  run g f (rule_ctx c r) (TEval (r_body r)) (abs_st s0) <> Fuel ->
  exists F, irun g F (IEval (r_body r)) (enter r s0) <> IFuel.
Proof.
  intros P ST. apply (IH (IEval (r_body r)) (enter r s0) (rule_ctx c r)).
  - apply (enter_cx g). exact P.
  - cbn [sterm]. rewrite abs_enter. exact ST.
Qed.

Lemma step_rule f (IH : term_at f) r s c : pre g c (IRule r) s ->
  run g (S f) c (TEval (ERef (r_name r) None)) (abs_st s) <> Fuel -> iterm (IRule r) s.
Proof.
  intros P ST. assert (L := proj1 (proj2 P)). cbn [run] in ST. rewrite L in ST.
  cbn [push_tag] in ST.
  assert (ST1 : run g f (rule_ctx c r) (TEval (r_body r)) (abs_st s) <> Fuel).
  { intros EQ. apply ST. rewrite EQ. reflexivity. }
  destruct (step_body f IH c r s P ST1) as [F HF].
  exists (S F). rewrite irun_rule.
  destruct (irun g F (IEval (r_body r)) (enter r s)); nofuel_tac.
Qed.

Lemma step_trivrule f (IH : term_at f) n s c : pre g c (ITrivRule n) s ->
  run g (S f) c (TEval (ERef n None)) (abs_st s) <> Fuel -> iterm (ITrivRule n) s.
Proof.
  intros [B [CA TN]] ST.
  destruct (lookup g n) as [r|] eqn:L.
  2:{ exists 1. cbn [irun]. rewrite L. discriminate. }
  assert (NM := lookup_name _ _ _ L).
  assert (P0 : pre g c (IRule r) (icheckpoint s)).
  { split; [exact B|]. split; [rewrite NM; exact L|]. intros DM. exfalso.
    unfold depth_mode in DM. rewrite NM, TN in DM. destruct (r_kind r); discriminate. }
  assert (ST0 : run g (S f) c (TEval (ERef (r_name r) None)) (abs_st (icheckpoint s)) <> Fuel).
  { rewrite NM. exact ST. }
  destruct (step_rule f IH r (icheckpoint s) c P0 ST0) as [F HF].
  exists (S F). cbn [irun]. rewrite L.
  destruct (irun g F (IRule r) (icheckpoint s)); nofuel_tac.
Qed.


(* ---- Sequence ---- *)
Lemma step_seq f (IH : term_at f) es s c : cx c s ->
  run g (S f) c (TSeq es) (abs_st s) <> Fuel -> iterm (ISeq es) s.
Proof.
  intros P ST. cbn [run] in ST.
  destruct es as [|e1 es']; [exists 1; discriminate|].
  assert (ST1 : run g f c (TEval e1) (abs_st s) <> Fuel) by sub_nofuel ST.
  destruct (IH (IEval e1) s c P ST1) as [F1 HF1].
  destruct (irun g F1 (IEval e1) s) as [m1 s1 p1| | |] eqn:E1; try (exfalso; apply HF1; reflexivity);
    try (exists (S F1); cbn [irun]; rewrite E1; discriminate).
  destruct m1; [|exists (S F1); cbn [irun]; rewrite E1; discriminate].
  destruct es' as [|e2 es'']; [exists (S F1); cbn [irun]; rewrite E1; discriminate|].
  destruct (sim_use _ _ _ _ c E1 ltac:(discriminate) P) as [Fr1 X1]. cbn [fr post resE] in Fr1, X1.
  assert (Q1 := runs_det g _ _ _ _ _ (spec_R _ _ _ _ _ eq_refl ST1) X1).
  rewrite Q1 in ST. cbv beta iota in ST.
  assert (P1 := cx_frame c s s1 Fr1 P).
  assert (ST2 : skip_with g (fun c' e' => run g f c' (TEval e')) c (abs_st s1) <> Fuel)
    by sub_nofuel ST.
  destruct (IH ITrivia s1 c P1 ST2) as [F2 HF2].
  destruct (irun g F2 ITrivia s1) as [m2 s2 pw| | |] eqn:E2; try (exfalso; apply HF2; reflexivity);
    try (exists (S (F1 + F2)); cbn [irun]; use_mono E1 (F1 + F2); use_mono E2 (F1 + F2); discriminate).
  destruct (sim_use _ _ _ _ c E2 ltac:(discriminate) P1) as [Fr2 X2]. cbn [fr post resT] in Fr2, X2.
  assert (Q2 := skips_det _ _ _ _ (ex_intro _ f (conj eq_refl ST2)) X2).
  rewrite Q2 in ST. cbv beta iota in ST.
  assert (P2 := cx_frame c s1 s2 Fr2 P1).
  assert (ST3 : run g f c (TSeq (e2 :: es'')) (abs_st s2) <> Fuel) by sub_nofuel ST.
  destruct (IH (ISeq (e2 :: es'')) s2 c P2 ST3) as [F3 HF3].
  destruct (irun g F3 (ISeq (e2 :: es'')) s2) as [m3 s3 p3| | |] eqn:E3;
    try (exfalso; apply HF3; reflexivity);
    exists (S (F1 + F2 + F3)); cbn [irun];
    use_mono E1 (F1 + F2 + F3); use_mono E2 (F1 + F2 + F3); use_mono E3 (F1 + F2 + F3); nofuel_tac.
Qed.

(* ---- Choice ---- *)
Lemma step_alt f (IH : term_at f) es s c : cx c s ->
  run g (S f) c (TAlt es) (abs_st s) <> Fuel -> iterm (IAlt es) s.
Proof.
  intros P ST. cbn [run] in ST.
  destruct es as [|e1 es']; [exists 1; discriminate|].
  assert (ST1 : run g f c (TEval e1) (abs_st s) <> Fuel) by sub_nofuel ST.
  destruct (IH (IEval e1) (icheckpoint s) c P ST1) as [F1 HF1].
  destruct (irun g F1 (IEval e1) (icheckpoint s)) as [m1 s1 p1| | |] eqn:E1;
    try (exfalso; apply HF1; reflexivity);
    try (exists (S F1); cbn [irun]; rewrite E1; discriminate).
  destruct (sim_use _ _ _ _ c E1 ltac:(discriminate) P) as [Fr1 X1]. cbn [fr post] in Fr1, X1.
  destruct m1; [exists (S F1); cbn [irun]; rewrite E1; nofuel_tac|].
  cbn [resE] in X1.
  assert (Q1 := runs_det g _ _ _ _ _ (spec_R _ _ _ _ _ eq_refl ST1) X1).
  change (abs_st (icheckpoint s)) with (abs_st s) in Q1. rewrite Q1 in ST.
  destruct (irestore_ck (icheckpoint s) s s1 eq_refl eq_refl eq_refl Fr1) as [s2 [E2 [A2 [T2 G]]]].
  assert (P2 : cx c s2) by (eapply cx_frame; [exact G|exact P]).
  rewrite <- A2 in ST.
  destruct (IH (IAlt es') s2 c P2 ST) as [F2 HF2].
  exists (S (F1 + F2)). cbn [irun]. use_mono E1 (F1 + F2). rewrite E2.
  eapply irun_nofuel_mono; [exact HF2|lia].
Qed.

(* ---- Repeat ---- *)
Lemma step_star_t f (IH : term_at f) e s c : cx c s ->
  run g (S f) c (TEval (EStar e)) (abs_st s) <> Fuel -> iterm (IStar e true) s.
Proof.
  intros P ST. cbn [run] in ST.
  assert (ST2 : run g f c (TEval e) (abs_st s) <> Fuel) by sub_nofuel ST.
  destruct (IH (IEval e) (icheckpoint s) c P ST2) as [F2 HF2].
  destruct (irun g F2 (IEval e) (icheckpoint s)) as [m2 s2 p2| | |] eqn:E2;
    try (exfalso; apply HF2; reflexivity);
    try (exists (S F2); cbn [irun]; rewrite E2; discriminate).
  destruct (sim_use _ _ _ _ c E2 ltac:(discriminate) P) as [Fr2 X2]. cbn [fr post] in Fr2, X2.
  destruct m2; [|exists (S F2); cbn [irun]; rewrite E2; nofuel_tac].
  cbn [resE] in X2.
  assert (Q2 := runs_det g _ _ _ _ _ (spec_R _ _ _ _ _ eq_refl ST2) X2).
  change (abs_st (icheckpoint s)) with (abs_st s) in Q2. rewrite Q2 in ST. cbv beta iota in ST.
  destruct (iok_ck (icheckpoint s) s s2 eq_refl eq_refl eq_refl eq_refl eq_refl Fr2)
    as [s3 [E3 [A3 G]]].
  assert (P3 : cx c s3) by (eapply cx_frame; [exact G|exact P]).
  assert (ST4 : run g f c (TStar e) (abs_st s2) <> Fuel) by sub_nofuel ST.
  rewrite <- A3 in ST4.
  destruct (IH (IStar e false) s3 c P3 ST4) as [F4 HF4].
  destruct (irun g F4 (IStar e false) s3) as [m4 s4 p4| | |] eqn:E4;
    try (exfalso; apply HF4; reflexivity);
    exists (S (F2 + F4)); cbn [irun]; use_mono E2 (F2 + F4); rewrite E3;
    use_mono E4 (F2 + F4); nofuel_tac.
Qed.

Lemma step_star_f f (IH : term_at f) e s c : cx c s ->
  run g (S f) c (TStar e) (abs_st s) <> Fuel -> iterm (IStar e false) s.
Proof.
  intros P ST. cbn [run] in ST.
  assert (ST1 : skip_with g (fun c' e' => run g f c' (TEval e')) c (abs_st s) <> Fuel)
    by sub_nofuel ST.
  destruct (IH ITrivia (icheckpoint s) c P ST1) as [F1 HF1].
  destruct (irun g F1 ITrivia (icheckpoint s)) as [m1 s1 pw| | |] eqn:E1;
    try (exfalso; apply HF1; reflexivity);
    try (exists (S F1); cbn [irun]; rewrite E1; discriminate).
  destruct (sim_use _ _ _ _ c E1 ltac:(discriminate) P) as [Fr1 X1]. cbn [fr post resT] in Fr1, X1.
  assert (Q1 := skips_det _ _ _ _ (ex_intro _ f (conj eq_refl ST1)) X1).
  change (abs_st (icheckpoint s)) with (abs_st s) in Q1. rewrite Q1 in ST. cbv beta iota in ST.
  assert (P1 : cx c s1) by (eapply cx_frame; [exact Fr1|exact P]).
  assert (ST2 : run g f c (TEval e) (abs_st s1) <> Fuel) by sub_nofuel ST.
  destruct (IH (IEval e) s1 c P1 ST2) as [F2 HF2].
  destruct (irun g F2 (IEval e) s1) as [m2 s2 p2| | |] eqn:E2;
    try (exfalso; apply HF2; reflexivity);
    try (exists (S (F1 + F2)); cbn [irun]; use_mono E1 (F1 + F2); use_mono E2 (F1 + F2); discriminate).
  destruct (sim_use _ _ _ _ c E2 ltac:(discriminate) P1) as [Fr2 X2]. cbn [fr post] in Fr2, X2.
  destruct m2;
    [|exists (S (F1 + F2)); cbn [irun]; use_mono E1 (F1 + F2); use_mono E2 (F1 + F2); nofuel_tac].
  cbn [resE] in X2.
  assert (Q2 := runs_det g _ _ _ _ _ (spec_R _ _ _ _ _ eq_refl ST2) X2).
  rewrite Q2 in ST. cbv beta iota in ST.
  assert (F12 : frame (icheckpoint s) s2) by (eapply frame_trans; eassumption).
  destruct (iok_ck (icheckpoint s) s s2 eq_refl eq_refl eq_refl eq_refl eq_refl F12)
    as [s3 [E3 [A3 G]]].
  assert (P3 : cx c s3) by (eapply cx_frame; [exact G|exact P]).
  assert (ST4 : run g f c (TStar e) (abs_st s2) <> Fuel) by sub_nofuel ST.
  rewrite <- A3 in ST4.
  destruct (IH (IStar e false) s3 c P3 ST4) as [F4 HF4].
  destruct (irun g F4 (IStar e false) s3) as [m4 s4 p4| | |] eqn:E4;
    try (exfalso; apply HF4; reflexivity);
    exists (S (F1 + F2 + F4)); cbn [irun]; use_mono E1 (F1 + F2 + F4); use_mono E2 (F1 + F2 + F4);
    cbv beta iota; rewrite E3; use_mono E4 (F1 + F2 + F4); nofuel_tac.
Qed.


(* ---- parse_trivia and its loops ---- *)
Lemma step_ws f (IH : term_at f) s c : pre g c IWsLoop s ->
  run g (S f) c (TStar wR) (abs_st s) <> Fuel -> iterm IWsLoop s.
Proof.
  intros [B CA] ST.
  assert (NA : c_atom c <> NonAtomic) by (rewrite CA; discriminate).
  cbn [run] in ST. rewrite atomic_no_trivia in ST by exact NA.
  assert (ST1 : run g f c (TEval wR) (abs_st s) <> Fuel) by sub_nofuel ST.
  assert (P0 : pre g c (ITrivRule WS_ID) s) by (split; [exact B|split; [exact CA|reflexivity]]).
  destruct (IH (ITrivRule WS_ID) s c P0 ST1) as [F1 HF1].
  destruct (irun g F1 (ITrivRule WS_ID) s) as [m1 s1 p1| | |] eqn:E1;
    try (exfalso; apply HF1; reflexivity);
    try (exists (S F1); cbn [irun]; rewrite E1; discriminate).
  destruct (sim_use _ _ _ _ c E1 ltac:(discriminate) P0) as [Fr1 [X1 Y1]]. cbn [fr] in Fr1.
  destruct m1; [|exists (S F1); cbn [irun]; rewrite E1; discriminate].
  cbn [resE] in X1.
  assert (Q1 := runs_det g _ _ _ _ _ (spec_R _ _ _ _ _ eq_refl ST1) X1).
  rewrite Q1 in ST. cbv beta iota in ST.
  assert (P1 : pre g c IWsLoop s1) by (split; [eapply cxb_frame; [exact Fr1|exact B]|exact CA]).
  assert (ST2 : run g f c (TStar wR) (abs_st s1) <> Fuel) by sub_nofuel ST.
  destruct (IH IWsLoop s1 c P1 ST2) as [F2 HF2].
  destruct (irun g F2 IWsLoop s1) as [m2 s2 p2| | |] eqn:E2;
    try (exfalso; apply HF2; reflexivity);
    exists (S (F1 + F2)); cbn [irun]; use_mono E1 (F1 + F2); use_mono E2 (F1 + F2); nofuel_tac.
Qed.

Lemma step_tl f (IH : term_at f) s c :
  (forall s0 c0, pre g c0 IWsLoop s0 -> run g (S f) c0 (TStar wR) (abs_st s0) <> Fuel -> iterm IWsLoop s0) ->
  pre g c ITrivLoop s -> tl_term (S f) c (abs_st s) -> iterm ITrivLoop s.
Proof.
  intros HWs [B CA] ST.
  assert (NA : c_atom c <> NonAtomic) by (rewrite CA; discriminate).
  unfold tl_term in ST.
  destruct (has_rule g WS_ID) eqn:HW; destruct (has_rule g CM_ID) eqn:HC.
  - (* WHITESPACE and COMMENT *)
    destruct ST as [r1 [A1 [D1 C1]]].
    assert (ST1 : run g (S f) c (TStar wR) (abs_st s) <> Fuel) by (rewrite A1; exact D1).
    destruct (HWs s c (conj B CA) ST1) as [F1 HF1].
    destruct (irun g F1 IWsLoop s) as [m1 s1 p1| | |] eqn:E1;
      try (exfalso; apply HF1; reflexivity);
      try (exists (S F1); cbn [irun]; rewrite HW, E1; discriminate).
    destruct (sim_use _ _ _ _ c E1 ltac:(discriminate) (conj B CA)) as [Fr1 X1].
    cbn [fr post] in Fr1, X1.
    destruct m1; [|exfalso; exact (nofuel g _ _ _ X1)]. cbn [resL] in X1.
    assert (Q1 := runs_det g _ _ _ _ _ (spec_R _ _ _ _ _ A1 D1) X1).
    assert (C1' := C1 _ _ Q1). cbn [run] in C1'. rewrite atomic_no_trivia in C1' by exact NA.
    assert (STX : run g f c (TEval xE) (abs_st s1) <> Fuel) by sub_nofuel C1'.
    remember (run g f c (TEval xE) (abs_st s1)) as rx eqn:Erx. symmetry in Erx.
    assert (B1 : cxb c s1) by (eapply cxb_frame; [exact Fr1|exact B]).
    assert (P2 : pre g c (ITrivRule CM_ID) s1) by (split; [exact B1|split; [exact CA|reflexivity]]).
    destruct (seq2_inv_f f c cR wS (abs_st s1) rx NA Erx STX)
      as [[t2 [q2 [r3 [A2 [A3 [D3 Er]]]]]]|[A2 N2]].
    + (* the reference matches a comment: the loop goes round *)
      assert (ST2 : run g f c (TEval cR) (abs_st s1) <> Fuel) by (rewrite A2; discriminate).
      destruct (IH (ITrivRule CM_ID) s1 c P2 ST2) as [F2 HF2].
      destruct (irun g F2 (ITrivRule CM_ID) s1) as [m2 s2 p2| | |] eqn:E2;
        try (exfalso; apply HF2; reflexivity);
        try (exists (S (F1 + F2)); cbn [irun]; rewrite HW, HC;
             use_mono E1 (F1 + F2); use_mono E2 (F1 + F2); discriminate).
      destruct (sim_use _ _ _ _ c E2 ltac:(discriminate) P2) as [Fr2 [X2 Y2]]. cbn [fr] in Fr2.
      destruct m2;
        [|exists (S (F1 + F2)); cbn [irun]; rewrite HW, HC;
          use_mono E1 (F1 + F2); use_mono E2 (F1 + F2); discriminate].
      cbn [resE] in X2.
      assert (Q2 := runs_det g _ _ _ _ _ (spec_R _ _ _ _ _ A2 ltac:(discriminate)) X2).
      assert (T2 : t2 = abs_st s2) by congruence. subst t2.
      assert (P3 : pre g c ITrivLoop s2) by (split; [eapply cxb_frame; [exact Fr2|exact B1]|exact CA]).
      assert (ST3 : tl_term f c (abs_st s2)).
      { unfold tl_term. rewrite HW, HC. exists r3.
        split; [rewrite <- star_same_fuel by exact NA; exact A3|]. split; [exact D3|].
        intros s3 p3 E3r. rewrite Er, E3r in C1'. cbv beta iota in C1'. sub_nofuel C1'. }
      destruct (IH ITrivLoop s2 c P3 ST3) as [F3 HF3].
      destruct (irun g F3 ITrivLoop s2) as [m3 s3 p3| | |] eqn:E3;
        try (exfalso; apply HF3; reflexivity);
        exists (S (F1 + F2 + F3)); cbn [irun]; rewrite HW, HC;
        use_mono E1 (F1 + F2 + F3); use_mono E2 (F1 + F2 + F3); use_mono E3 (F1 + F2 + F3);
        nofuel_tac.
    + (* the reference finds no comment: so does the interpreter *)
      assert (ST2 : run g f c (TEval cR) (abs_st s1) <> Fuel) by (rewrite A2; exact STX).
      destruct (IH (ITrivRule CM_ID) s1 c P2 ST2) as [F2 HF2].
      destruct (irun g F2 (ITrivRule CM_ID) s1) as [m2 s2 p2| | |] eqn:E2;
        try (exfalso; apply HF2; reflexivity);
        try (exists (S (F1 + F2)); cbn [irun]; rewrite HW, HC;
             use_mono E1 (F1 + F2); use_mono E2 (F1 + F2); discriminate).
      destruct (sim_use _ _ _ _ c E2 ltac:(discriminate) P2) as [Fr2 [X2 Y2]].
      destruct m2;
        [|exists (S (F1 + F2)); cbn [irun]; rewrite HW, HC;
          use_mono E1 (F1 + F2); use_mono E2 (F1 + F2); discriminate].
      cbn [resE] in X2.
      assert (Q2 := runs_det g _ _ _ _ _ (spec_R _ _ _ _ _ A2 STX) X2).
      rewrite Q2 in N2. destruct N2.
  - (* WHITESPACE only *)
    destruct (HWs s c (conj B CA) ST) as [F1 HF1].
    destruct (irun g F1 IWsLoop s) as [m1 s1 p1| | |] eqn:E1;
      try (exfalso; apply HF1; reflexivity);
      exists (S F1); cbn [irun]; rewrite HW, HC, E1; discriminate.
  - (* COMMENT only *)
    cbn [run] in ST. rewrite atomic_no_trivia in ST by exact NA.
    assert (ST2 : run g f c (TEval cR) (abs_st s) <> Fuel) by sub_nofuel ST.
    assert (P2 : pre g c (ITrivRule CM_ID) s) by (split; [exact B|split; [exact CA|reflexivity]]).
    destruct (IH (ITrivRule CM_ID) s c P2 ST2) as [F2 HF2].
    destruct (irun g F2 (ITrivRule CM_ID) s) as [m2 s2 p2| | |] eqn:E2;
      try (exfalso; apply HF2; reflexivity);
      try (exists (S F2); cbn [irun]; rewrite HW, HC, E2; discriminate).
    destruct (sim_use _ _ _ _ c E2 ltac:(discriminate) P2) as [Fr2 [X2 Y2]]. cbn [fr] in Fr2.
    destruct m2; [|exists (S F2); cbn [irun]; rewrite HW, HC, E2; discriminate].
    cbn [resE] in X2.
    assert (Q2 := runs_det g _ _ _ _ _ (spec_R _ _ _ _ _ eq_refl ST2) X2).
    rewrite Q2 in ST. cbv beta iota in ST.
    assert (P3 : pre g c ITrivLoop s2) by (split; [eapply cxb_frame; [exact Fr2|exact B]|exact CA]).
    assert (ST3 : tl_term f c (abs_st s2)).
    { unfold tl_term. rewrite HW, HC. sub_nofuel ST. }
    destruct (IH ITrivLoop s2 c P3 ST3) as [F3 HF3].
    destruct (irun g F3 ITrivLoop s2) as [m3 s3 p3| | |] eqn:E3;
      try (exfalso; apply HF3; reflexivity);
      exists (S (F2 + F3)); cbn [irun]; rewrite HW, HC;
      use_mono E2 (F2 + F3); use_mono E3 (F2 + F3); nofuel_tac.
  - destruct ST.
Qed.

Lemma step_trivia f s c :
  (forall s0 c0, pre g c0 ITrivLoop s0 -> tl_term f c0 (abs_st s0) -> iterm ITrivLoop s0) ->
  cx c s -> sterm f c ITrivia s -> iterm ITrivia s.
Proof.
  intros HTL P ST. cbn [sterm] in ST.
  destruct (Nat.ltb 0 (i_depth s)) eqn:Ed; [exists 1; cbn [irun]; rewrite Ed; discriminate|].
  destruct (negb (has_rule g WS_ID) && negb (has_rule g CM_ID)) eqn:En;
    [exists 1; cbn [irun]; rewrite Ed, En; discriminate|].
  assert (NA : c_atom c = NonAtomic).
  { apply (proj1 (proj2 P)). apply Nat.ltb_ge in Ed. lia. }
  assert (SE := skip_expr_some g En).
  unfold skip_with in ST. rewrite NA, SE in ST.
  assert (TL : tl_term f (skip_ctx c) (abs_st s)).
  { apply loopE_inv; [cbn; discriminate|exact En|exact ST]. }
  assert (P0 : pre g (skip_ctx c) ITrivLoop (upd_sup s true)).
  { split; [|reflexivity]. destruct P as [[A B] _]. split; [exact A|reflexivity]. }
  destruct (HTL (upd_sup s true) (skip_ctx c) P0 TL) as [F HF].
  exists (S F). cbn [irun]. rewrite Ed, En.
  destruct (irun g F ITrivLoop (upd_sup s true)); nofuel_tac.
Qed.


(* ---- expressions ---- *)
Lemma irun_ref F n tag s :
  irun g (S F) (IEval (ERef n tag)) s =
  match lookup g n with
  | None => IUndef
  | Some r =>
      match irun g F (IRule r) (match tag with Some tg => upd_tags s (tg :: i_tags s) | None => s end) with
      | IOk m s1 ps => IOk m (match tag with Some _ => upd_tags s1 (tl (i_tags s1)) | None => s1 end) ps
      | x => x
      end
  end.
Proof. reflexivity. Qed.

Lemma step_ref f (IH : term_at f) c r n tag s : lookup g n = Some r ->
  pre g c (IRule r) (match tag with Some tg => upd_tags s (tg :: i_tags s) | None => s end) ->
  run g f (rule_ctx c r) (TEval (r_body r))
    (abs_st (match tag with Some tg => upd_tags s (tg :: i_tags s) | None => s end)) <> Fuel ->
  iterm (IEval (ERef n tag)) s.
Proof.
  intros L P0 ST1. destruct (step_body f IH c r _ P0 ST1) as [F HF].
  exists (S (S F)). rewrite irun_ref, L, irun_rule.
  destruct (irun g F (IEval (r_body r)) _); nofuel_tac.
Qed.

Lemma step_eval f (IH : term_at f) e s c :
  (forall e0 s0 c0, cx c0 s0 -> run g (S f) c0 (TEval (EStar e0)) (abs_st s0) <> Fuel ->
     iterm (IStar e0 true) s0) ->
  cx c s -> run g (S f) c (TEval e) (abs_st s) <> Fuel -> iterm (IEval e) s.
Proof.
  intros HStarT P ST.
  destruct e;
    try (exists 1; cbn [irun]; unfold fail_here; nofuel_tac; fail);
    try (destruct (IH (ISeq _) s c P ST) as [F HF]; exists (S F); exact HF).
  - (* ERef *)
    cbn [run] in ST. destruct (lookup g n) as [r|] eqn:L; [|exists 1; cbn [irun]; rewrite L; discriminate].
    assert (NM := lookup_name _ _ _ L).
    apply (step_ref f IH c r n tag s L).
    + split; [destruct tag; exact (proj1 P)|]. split; [rewrite NM; exact L|].
      intros _. destruct tag; exact (proj1 (proj2 P)).
    + replace (abs_st (match tag with Some tg => upd_tags s (tg :: i_tags s) | None => s end))
        with (push_tag tag (abs_st s)) by (destruct tag; reflexivity).
      sub_nofuel ST.
  - (* EAlt *) destruct (IH (IAlt es) s c P ST) as [F HF]. exists (S F). exact HF.
  - (* EOpt *)
    cbn [run] in ST.
    assert (ST1 : run g f c (TEval e) (abs_st s) <> Fuel) by sub_nofuel ST.
    destruct (IH (IEval e) (icheckpoint s) c P ST1) as [F HF].
    exists (S F). cbn [irun]. destruct (irun g F (IEval e) (icheckpoint s)); nofuel_tac.
  - (* EStar *) destruct (HStarT e s c P ST) as [F HF]. exists (S F). exact HF.
  - (* EAnd *)
    cbn [run] in ST.
    assert (ST1 : run g f c (TEval e) (abs_st s) <> Fuel) by sub_nofuel ST.
    destruct (IH (IEval e) (icheckpoint s) c P ST1) as [F HF].
    exists (S F). cbn [irun]. destruct (irun g F (IEval e) (icheckpoint s)); nofuel_tac.
  - (* ENot *)
    cbn [run] in ST.
    assert (ST1 : run g f (neg_ctx c) (TEval e) (abs_st s) <> Fuel) by sub_nofuel ST.
    assert (P0 : cx (neg_ctx c) (upd_neg (icheckpoint s) (S (i_neg s)))).
    { destruct P as [[A B] [C Dr]]. split; [split; cbn; congruence|]. split; [exact C|exact Dr]. }
    destruct (IH (IEval e) (upd_neg (icheckpoint s) (S (i_neg s))) (neg_ctx c) P0 ST1) as [F HF].
    exists (S F). cbn [irun]. destruct (irun g F (IEval e) _); nofuel_tac.
  - (* EGrp *)
    cbn [run] in ST.
    assert (ST1 : run g f c (TEval e) (push_tag tag (abs_st s)) <> Fuel) by sub_nofuel ST.
    destruct tag as [tg|].
    + destruct (IH (IEval e) (upd_tags s (tg :: i_tags s)) c P ST1) as [F HF].
      exists (S F). cbn [irun]. destruct (irun g F (IEval e) _); nofuel_tac.
    + destruct (IH (IEval e) s c P ST1) as [F HF].
      exists (S F). cbn [irun]. destruct (irun g F (IEval e) _); nofuel_tac.
  - (* EPush *)
    cbn [run] in ST.
    assert (ST1 : run g f c (TEval e) (abs_st s) <> Fuel) by sub_nofuel ST.
    destruct (IH (IEval e) s c P ST1) as [F HF].
    exists (S F). cbn [irun]. destruct (irun g F (IEval e) s); nofuel_tac.
Qed.

Lemma term_all : forall f, term_at f.
Proof.
  induction f as [|f IH]; intros t s c P ST.
  - destruct t as [e|es|es|e first| | | |n|r]; cbn [sterm] in ST;
      try (exfalso; apply ST; reflexivity).
    + destruct first; exfalso; apply ST; reflexivity.
    + apply (step_trivia 0 s c); [intros s0 c0 _ T; destruct (tl_term0 _ _ T)|exact P|exact ST].
    + destruct (tl_term0 _ _ ST).
  - assert (HStarT := fun e0 s0 c0 => step_star_t f IH e0 s0 c0).
    assert (HWs := fun s0 c0 => step_ws f IH s0 c0).
    assert (HTL := fun s0 c0 => step_tl f IH s0 c0 HWs).
    destruct t as [e|es|es|e first| | | |n|r]; cbn [pre sterm] in P, ST.
    + exact (step_eval f IH e s c HStarT P ST).
    + exact (step_seq f IH es s c P ST).
    + exact (step_alt f IH es s c P ST).
    + destruct first; [exact (HStarT e s c P ST)|exact (step_star_f f IH e s c P ST)].
    + exact (step_trivia (S f) s c HTL P ST).
    + exact (HWs s c P ST).
    + exact (HTL s c P ST).
    + exact (step_trivrule f IH n s c P ST).
    + exact (step_rule f IH r s c P ST).
Qed.

(* (D) if the reference finishes, so does the interpreter *)
Theorem iparse_terminates : forall f rule input k r,
  parse g f rule input k = r -> r <> Fuel -> exists f', iparse g f' rule input k <> IFuel.
Proof.
  intros f rule input k r0 Hr Dr. assert (H : parse g f rule input k <> Fuel) by (rewrite Hr; exact Dr).
  clear r0 Hr Dr. unfold iparse.
  destruct (lookup g rule) as [r|] eqn:L; [|exists 0; discriminate].
  assert (NM := lookup_name _ _ _ L).
  apply (term_all f (IRule r) (ist0 input k) ctx0).
  - split; [split; reflexivity|]. split; [rewrite NM; exact L|]. intros _. split; reflexivity.
  - cbn [sterm]. rewrite NM. exact H.
Qed.

End Term.

(* ... and so does the generated code *)
Theorem gparse_terminates : forall g inl,
  (forall n r, lookup g n = Some r -> r_silent r = true -> silent_ok g r) ->
  inl_ok g inl ->
  forall f rule input k r, inlined inl rule = false ->
  parse g f rule input k = r -> r <> Fuel -> exists f', gparse g inl f' rule input k <> GFuel.
Proof.
  intros g inl Hsil Hinl f rule input k r NI Hr Dr.
  destruct (iparse_terminates g Hsil f rule input k r Hr Dr) as [f' H'].
  exists f'.
  assert (GI := gparse_interp g f' rule input k).
  assert (B := gparse_inl g inl Hinl f' rule input k NI).
  destruct (gparse g inl f' rule input k); try discriminate.
  destruct (gparse g [] f' rule input k); try contradiction.
  destruct (iparse g f' rule input k); try contradiction.
Qed.

Print Assumptions gparse_refines.
Print Assumptions gparse_interp.
Print Assumptions gparse_inl.
Print Assumptions generated_equals_interpreter.
Print Assumptions iparse_terminates.
Print Assumptions gparse_terminates.
